/-
The work-list only grows at the front, part 2: the logic lowering, one loop iteration, the loop; and the
consequence for compiled models: EVERY side of EVERY source constraint is defined on the domains.
-/
import Rooc.Proofs.LinTrace
import Rooc.Proofs.LinBridgeLogic

set_option linter.unusedSectionVars false
set_option linter.unusedSimpArgs false
set_option linter.unusedVariables false
set_option linter.unusedTactic false
set_option linter.unreachableTactic false

namespace Rooc.LinP
open Rooc Rooc.Lin Rooc.Sem Rooc.Exp

variable {K : Type} [Field K] [LinearOrder K] [IsStrictOrderedRing K] [FloorRing K]

theorem emitConstraint_qext {l r : Exp (Ext K)} {cmp : Cmp} {name : String} {s s' : St (Ext K)}
    (h : emitConstraint l cmp r name s = .ok ((), s')) : QExt s s' := by
  obtain ⟨e, v, s1, _, hlin, hr⟩ := (emitConstraint_ok _ _ _ _ _ _).mp h
  cases hr
  exact (linExp_qext e _ _ _ _ hlin).trans (QExt.of_eq rfl)

theorem seqOK_emit_qext (w : String) : ∀ (us : List (Exp (Ext K))) (s s' : St (Ext K)),
    seqOK (fun u => emitConstraint (.var w) .le u "") us s s' → QExt s s'
  | [], s, s', h => by simp only [seqOK] at h; rw [h]; exact QExt.refl s
  | u :: us, s, s', h => by
    simp only [seqOK] at h
    obtain ⟨s1, h1, h2⟩ := h
    exact (emitConstraint_qext h1).trans (seqOK_emit_qext w us s1 s' h2)

theorem freshWitness_qext {s : St (Ext K)} {w : String} {s' : St (Ext K)} (h : freshWitness s = .ok (w, s')) :
    QExt s s' := by
  obtain ⟨_, _, hr⟩ := (freshWitness_ok _ _).mp h
  simp only at hr
  subst hr
  exact QExt.of_eq rfl

/-! ### `try_lower_affine_logic_assertion` -/

def TLAQ (e : Exp (Ext K)) : Prop :=
  ∀ (t : Bool) (name : String) (s : St (Ext K)) (b : Bool) (s' : St (Ext K)),
    tryLowerAffine e t name s = .ok (b, s') → QExt s s'

theorem tlaQ_false {e : Exp (Ext K)}
    (heq : ∀ (t : Bool) (name : String), tryLowerAffine e t name = (pure false : M (Ext K) Bool)) : TLAQ e := by
  intro t name s b s' h
  rw [heq] at h
  simp only [pure_ok] at h
  cases h
  exact QExt.refl s

theorem tryLowerAffine_qext : ∀ e : Exp (Ext K), TLAQ e := by
  intro e
  induction e using Exp.indL with
  | num v =>
    intro t name s b s' h
    rw [tryLowerAffine] at h
    simp only [bind_ok, get_ok] at h
    obtain ⟨s0, s0', h0, h⟩ := h
    cases h0
    cases hc : binaryAffineValue s.domain (.num v : Exp (Ext K)) with
    | none => simp only [hc, pure_ok] at h; cases h; exact QExt.refl s
    | some c =>
      simp only [hc, bind_ok, pure_ok] at h
      obtain ⟨u, s1, h1, hr⟩ := h
      cases hr
      exact emitConstraint_qext h1
  | var n =>
    intro t name s b s' h
    rw [tryLowerAffine] at h
    simp only [bind_ok, get_ok] at h
    obtain ⟨s0, s0', h0, h⟩ := h
    cases h0
    cases hc : binaryAffineValue s.domain (.var n : Exp (Ext K)) with
    | none => simp only [hc, pure_ok] at h; cases h; exact QExt.refl s
    | some c =>
      simp only [hc, bind_ok, pure_ok] at h
      obtain ⟨u, s1, h1, hr⟩ := h
      cases hr
      exact emitConstraint_qext h1
  | not e ih =>
    intro t name s b s' h
    rw [tryLowerAffine] at h
    exact ih (!t) name s b s' h
  | un op e ih =>
    cases op with
    | neg =>
      refine tlaQ_false (fun t name => ?_)
      rw [tryLowerAffine]
      all_goals (intros; first | contradiction | (rename_i hh; cases hh))
    | not =>
      intro t name s b s' h
      rw [tryLowerAffine] at h
      exact ih (!t) name s b s' h
  | and es _ =>
    intro t name s b s' h
    rw [tryLowerAffine] at h
    simp only [bind_ok, get_ok] at h
    obtain ⟨s0, s0', h0, h⟩ := h
    cases h0
    cases hc : allSome (es.map fun e => (binaryAffineValue s.domain e).map ctxToExp) with
    | none => simp only [hc, pure_ok] at h; cases h; exact QExt.refl s
    | some ops =>
      simp only [hc] at h
      cases t with
      | true =>
        simp only [if_true, bind_ok, pure_ok] at h
        obtain ⟨u, s1, h1, hr⟩ := h
        cases hr
        exact emitConstraint_qext h1
      | false =>
        simp only [Bool.false_eq_true, if_false, bind_ok, pure_ok] at h
        obtain ⟨u, s1, h1, hr⟩ := h
        cases hr
        exact emitConstraint_qext h1
  | or es _ =>
    intro t name s b s' h
    rw [tryLowerAffine] at h
    simp only [bind_ok, get_ok] at h
    obtain ⟨s0, s0', h0, h⟩ := h
    cases h0
    cases hc : allSome (es.map fun e => (binaryAffineValue s.domain e).map ctxToExp) with
    | none => simp only [hc, pure_ok] at h; cases h; exact QExt.refl s
    | some ops =>
      simp only [hc, bind_ok, pure_ok] at h
      obtain ⟨u, s1, h1, hr⟩ := h
      cases hr
      exact emitConstraint_qext h1
  | implies l r _ _ =>
    intro t name s b s' h
    rw [tryLowerAffine] at h
    simp only [bind_ok, get_ok] at h
    obtain ⟨s0, s0', h0, h⟩ := h
    cases h0
    cases ha : binaryAffineValue s.domain l with
    | none => simp only [ha, pure_ok] at h; cases h; exact QExt.refl s
    | some a =>
      cases hb : binaryAffineValue s.domain r with
      | none => simp only [ha, hb, pure_ok] at h; cases h; exact QExt.refl s
      | some b' =>
        simp only [ha, hb] at h
        cases t with
        | true =>
          simp only [if_true, bind_ok, pure_ok] at h
          obtain ⟨u, s1, h1, hr⟩ := h
          cases hr
          exact emitConstraint_qext h1
        | false =>
          simp only [Bool.false_eq_true, if_false, bind_ok, pure_ok] at h
          obtain ⟨u, s1, h1, hr⟩ := h
          cases hr
          exact emitConstraint_qext h1
  | iff l r _ _ =>
    intro t name s b s' h
    rw [tryLowerAffine] at h
    simp only [bind_ok, get_ok] at h
    obtain ⟨s0, s0', h0, h⟩ := h
    cases h0
    cases ha : binaryAffineValue s.domain l with
    | none => simp only [ha, pure_ok] at h; cases h; exact QExt.refl s
    | some a =>
      cases hb : binaryAffineValue s.domain r with
      | none => simp only [ha, hb, pure_ok] at h; cases h; exact QExt.refl s
      | some b' =>
        simp only [ha, hb] at h
        cases t with
        | true =>
          simp only [if_true, bind_ok, pure_ok] at h
          obtain ⟨u, s1, h1, hr⟩ := h
          cases hr
          exact emitConstraint_qext h1
        | false =>
          simp only [Bool.false_eq_true, if_false, bind_ok, pure_ok] at h
          obtain ⟨u, s1, h1, hr⟩ := h
          cases hr
          exact emitConstraint_qext h1
  | xor l r _ _ =>
    intro t name s b s' h
    rw [tryLowerAffine] at h
    simp only [bind_ok, get_ok] at h
    obtain ⟨s0, s0', h0, h⟩ := h
    cases h0
    cases ha : binaryAffineValue s.domain l with
    | none => simp only [ha, pure_ok] at h; cases h; exact QExt.refl s
    | some a =>
      cases hb : binaryAffineValue s.domain r with
      | none => simp only [ha, hb, pure_ok] at h; cases h; exact QExt.refl s
      | some b' =>
        simp only [ha, hb] at h
        cases t with
        | true =>
          simp only [if_true, bind_ok, pure_ok] at h
          obtain ⟨u, s1, h1, hr⟩ := h
          cases hr
          exact emitConstraint_qext h1
        | false =>
          simp only [Bool.false_eq_true, if_false, bind_ok, pure_ok] at h
          obtain ⟨u, s1, h1, hr⟩ := h
          cases hr
          exact emitConstraint_qext h1
  | abs e _ =>
    refine tlaQ_false (fun t name => ?_)
    rw [tryLowerAffine]
    all_goals (intros; first | contradiction | (rename_i hh; cases hh))
  | min es _ =>
    refine tlaQ_false (fun t name => ?_)
    rw [tryLowerAffine]
    all_goals (intros; first | contradiction | (rename_i hh; cases hh))
  | max es _ =>
    refine tlaQ_false (fun t name => ?_)
    rw [tryLowerAffine]
    all_goals (intros; first | contradiction | (rename_i hh; cases hh))
  | bin op a b _ _ =>
    refine tlaQ_false (fun t name => ?_)
    rw [tryLowerAffine]
    all_goals (intros; first | contradiction | (rename_i hh; cases hh))

/-! ### `directional_logic_witness` -/

def DirQ (e : Exp (Ext K)) : Prop :=
  ∀ (t : Bool) (s : St (Ext K)) (x : Exp (Ext K)) (s' : St (Ext K)), dirWitness e t s = .ok (x, s') → QExt s s'

theorem dirList_qext : ∀ (es : List (Exp (Ext K))), (∀ e ∈ es, DirQ e) →
    ∀ (t : Bool) (s : St (Ext K)) (xs : List (Exp (Ext K))) (s' : St (Ext K)),
      dirWitnessList es t s = .ok (xs, s') → QExt s s'
  | [], _, _, s, xs, s', h => by
    rw [dirWitnessList] at h; simp only [pure_ok] at h; cases h; exact QExt.refl s
  | e :: es, hall, t, s, xs, s', h => by
    rw [dirWitnessList] at h
    simp only [bind_ok, pure_ok] at h
    obtain ⟨x, s1, h1, ys, s2, h2, hr⟩ := h
    cases hr
    exact (hall e (by simp) t s _ _ h1).trans (dirList_qext es (fun x hx => hall x (by simp [hx])) t s1 _ _ h2)

theorem iffWitness_qext {l r : Exp (Ext K)} {t : Bool} {s : St (Ext K)} {x : Exp (Ext K)} {s' : St (Ext K)}
    (h : iffWitness l r t s = .ok (x, s')) : QExt s s' := by
  obtain ⟨a, s1, b, s2, w, s3, h1, h2, h3, h4, _⟩ := (iffWitness_ok _ _ _ _ _ _).mp h
  exact (((linBinaryOperand_qext (linExp_qext l) h1).trans (linBinaryOperand_qext (linExp_qext r) h2)).trans
    (freshWitness_qext h3)).trans (seqOK_emit_qext w _ _ _ h4)

theorem dirQ_fail {e : Exp (Ext K)}
    (h : ∀ t : Bool, dirWitness e t = (fail .nonBinaryLogicOperand : M (Ext K) (Exp (Ext K)))) : DirQ e := by
  intro t s x s' hd
  rw [h t] at hd
  simp [fail_ok] at hd

theorem dirWitness_qext : ∀ e : Exp (Ext K), DirQ e := by
  intro e
  induction e using Exp.indL with
  | num v =>
    intro t s x s' h
    rw [dirWitness] at h
    simp only [bind_ok, get_ok] at h
    obtain ⟨s0, s0', h0, h⟩ := h
    cases h0
    cases hc : binaryAffineValue s.domain (.num v : Exp (Ext K)) with
    | some c => simp only [hc, pure_ok] at h; cases h; exact QExt.refl s
    | none => simp [hc, fail_ok] at h
  | var n =>
    intro t s x s' h
    rw [dirWitness] at h
    simp only [bind_ok, get_ok] at h
    obtain ⟨s0, s0', h0, h⟩ := h
    cases h0
    cases hc : binaryAffineValue s.domain (.var n : Exp (Ext K)) with
    | some c => simp only [hc, pure_ok] at h; cases h; exact QExt.refl s
    | none => simp [hc, fail_ok] at h
  | not e ih =>
    intro t s x s' h
    rw [dirWitness] at h
    simp only [bind_ok, get_ok] at h
    obtain ⟨s0, s0', h0, h⟩ := h
    cases h0
    cases hc : binaryAffineValue s.domain (.not e) with
    | some v => simp only [hc, pure_ok] at h; cases h; exact QExt.refl s
    | none => simp only [hc] at h; exact ih (!t) s x s' h
  | un op e ih =>
    cases op with
    | neg =>
      refine dirQ_fail (fun t => ?_)
      rw [dirWitness]
      all_goals (intros; first | contradiction | (rename_i hh; cases hh))
    | not =>
      intro t s x s' h
      rw [dirWitness] at h
      simp only [bind_ok, get_ok] at h
      obtain ⟨s0, s0', h0, h⟩ := h
      cases h0
      cases hc : binaryAffineValue s.domain (.un .not e) with
      | some v => simp only [hc, pure_ok] at h; cases h; exact QExt.refl s
      | none => simp only [hc] at h; exact ih (!t) s x s' h
  | and es ih =>
    intro t s x s' h
    rw [dirWitness] at h
    have hnone : ∀ d : List (DomVar (Ext K)), binaryAffineValue d (.and es : Exp (Ext K)) = none := fun d => by
      simp [binaryAffineValue]
    simp only [bind_ok, get_ok] at h
    obtain ⟨s0, s0', h0, h⟩ := h
    cases h0
    simp only [hnone, bind_ok] at h
    obtain ⟨xs, s1, hL, w, s2, hf, h⟩ := h
    refine ((dirList_qext es ih t s _ _ hL).trans (freshWitness_qext hf)).trans ?_
    cases t with
    | true =>
      simp only [if_true, bind_ok, pure_ok, forIn_emit_ok] at h
      obtain ⟨u, s3, h3, hr⟩ := h
      cases hr
      exact seqOK_emit_qext w _ _ _ h3
    | false =>
      simp only [Bool.false_eq_true, if_false, bind_ok, pure_ok] at h
      obtain ⟨u, s3, h3, hr⟩ := h
      cases hr
      exact emitConstraint_qext h3
  | or es ih =>
    intro t s x s' h
    rw [dirWitness] at h
    simp only [bind_ok] at h
    obtain ⟨xs, s1, hL, w, s2, hf, h⟩ := h
    refine ((dirList_qext es ih t s _ _ hL).trans (freshWitness_qext hf)).trans ?_
    cases t with
    | true =>
      simp only [if_true, bind_ok, pure_ok] at h
      obtain ⟨u, s3, h3, hr⟩ := h
      cases hr
      exact emitConstraint_qext h3
    | false =>
      simp only [Bool.false_eq_true, if_false, bind_ok, pure_ok, forIn_emit_ok] at h
      obtain ⟨u, s3, h3, hr⟩ := h
      cases hr
      exact seqOK_emit_qext w _ _ _ h3
  | implies l r ihl ihr =>
    intro t s x s' h
    rw [dirWitness] at h
    simp only [bind_ok, get_ok] at h
    obtain ⟨s0, s0', h0, c1, s1, h1, c2, s2, h2, w, s3, hf, h⟩ := h
    cases h0
    have q1 : QExt s s1 := by
      cases hc : binaryAffineValue s.domain (.not l) with
      | some v => simp only [hc, pure_ok] at h1; cases h1; exact QExt.refl s
      | none => simp only [hc] at h1; exact ihl (!t) s _ _ h1
    refine ((q1.trans (ihr t s1 _ _ h2)).trans (freshWitness_qext hf)).trans ?_
    cases t with
    | true =>
      simp only [if_true, bind_ok, pure_ok] at h
      obtain ⟨u, s4, h3, hr⟩ := h
      cases hr
      exact emitConstraint_qext h3
    | false =>
      simp only [Bool.false_eq_true, if_false, bind_ok, pure_ok, forIn_emit_ok] at h
      obtain ⟨u, s4, h3, hr⟩ := h
      cases hr
      exact seqOK_emit_qext w _ _ _ h3
  | iff l r _ _ =>
    intro t s x s' h
    rw [dirWitness] at h
    exact iffWitness_qext h
  | xor l r _ _ =>
    intro t s x s' h
    rw [dirWitness] at h
    exact iffWitness_qext h
  | abs e _ =>
    refine dirQ_fail (fun t => ?_)
    rw [dirWitness]
    all_goals (intros; first | contradiction | (rename_i hh; cases hh))
  | min es _ =>
    refine dirQ_fail (fun t => ?_)
    rw [dirWitness]
    all_goals (intros; first | contradiction | (rename_i hh; cases hh))
  | max es _ =>
    refine dirQ_fail (fun t => ?_)
    rw [dirWitness]
    all_goals (intros; first | contradiction | (rename_i hh; cases hh))
  | bin op a b _ _ =>
    refine dirQ_fail (fun t => ?_)
    rw [dirWitness]
    all_goals (intros; first | contradiction | (rename_i hh; cases hh))

theorem dirWitnessList_qext {es : List (Exp (Ext K))} {t : Bool} {s : St (Ext K)} {xs : List (Exp (Ext K))}
    {s' : St (Ext K)} (h : dirWitnessList es t s = .ok (xs, s')) : QExt s s' :=
  dirList_qext es (fun e _ => dirWitness_qext e) t s xs s' h

/-! ### `lower_logic_assertion` -/

def LAQ (e : Exp (Ext K)) : Prop :=
  ∀ (t : Bool) (name : String) (s s' : St (Ext K)), lowerAssertion e t name s = .ok ((), s') → QExt s s'

/-- the common prefix. -/
theorem la_prefix_qext {e : Exp (Ext K)} {t : Bool} {name : String} {s s' : St (Ext K)} {k : M (Ext K) Unit}
    (h : (tryLowerAffine e t name >>= fun b => if b = true then pure () else k) s = .ok ((), s'))
    (hk : ∀ s1, k s1 = .ok ((), s') → QExt s1 s') : QExt s s' := by
  simp only [bind_ok] at h
  obtain ⟨b, s1, h1, h2⟩ := h
  have q1 := tryLowerAffine_qext e t name s b s1 h1
  cases b with
  | true =>
    simp only [if_true, pure_ok] at h2
    cases h2
    exact q1
  | false =>
    simp only [Bool.false_eq_true, if_false] at h2
    exact q1.trans (hk s1 h2)

theorem laList_qext : ∀ (es : List (Exp (Ext K))), (∀ e ∈ es, LAQ e) →
    ∀ (t : Bool) (name : String) (s s' : St (Ext K)), lowerAssertionList es t name s = .ok ((), s') → QExt s s'
  | [], _, _, _, s, s', h => by
    rw [lowerAssertionList] at h; simp only [pure_ok] at h; cases h; exact QExt.refl s
  | e :: es, hall, t, name, s, s', h => by
    rw [lowerAssertionList] at h
    simp only [bind_ok] at h
    obtain ⟨u, s1, h1, h2⟩ := h
    exact (hall e (by simp) t name s s1 h1).trans
      (laList_qext es (fun x hx => hall x (by simp [hx])) t name s1 s' h2)

theorem laQ_fail {e : Exp (Ext K)}
    (heq : ∀ (t : Bool) (name : String), lowerAssertion e t name =
      (tryLowerAffine e t name >>= fun b => if b = true then pure () else fail LinErr.nonBinaryLogicOperand)) :
    LAQ e := by
  intro t name s s' h
  rw [heq] at h
  exact la_prefix_qext h (fun s1 h1 => by simp [fail_ok] at h1)

theorem witnesses_row_qext {es : List (Exp (Ext K))} {t : Bool} {name : String} {s s' : St (Ext K)}
    (h : (do
      let ws ← dirWitnessList es t
      emitConstraint (sumExps ws) .ge (.num Arith.one) name : M (Ext K) Unit) s = .ok ((), s')) : QExt s s' := by
  simp only [bind_ok] at h
  obtain ⟨ws, s1, h1, h2⟩ := h
  exact (dirWitnessList_qext h1).trans (emitConstraint_qext h2)

theorem lowerAssertion_qext : ∀ e : Exp (Ext K), LAQ e := by
  intro e
  induction e using Exp.indL with
  | num v =>
    intro t name s s' h
    rw [lowerAssertion] at h
    split at h
    · simp [fail_ok] at h
    · dsimp only at h
      split at h
      · exact emitConstraint_qext h
      · simp only [pure_ok] at h; cases h; exact QExt.refl s
  | var n =>
    intro t name s s' h
    rw [lowerAssertion] at h
    exact la_prefix_qext h (fun s1 h1 => by simp [fail_ok] at h1)
  | not e ih =>
    intro t name s s' h
    rw [lowerAssertion] at h
    exact la_prefix_qext h (fun s1 h1 => ih (!t) name s1 s' h1)
  | un op e ih =>
    cases op with
    | neg =>
      refine laQ_fail (fun t name => ?_)
      rw [lowerAssertion]
      all_goals (intros; first | contradiction | (rename_i hh; cases hh))
    | not =>
      intro t name s s' h
      rw [lowerAssertion] at h
      exact la_prefix_qext h (fun s1 h1 => ih (!t) name s1 s' h1)
  | and es ih =>
    intro t name s s' h
    rw [lowerAssertion] at h
    refine la_prefix_qext h (fun s1 h1 => ?_)
    cases t with
    | true => simp only [if_true] at h1; exact laList_qext es ih true name s1 s' h1
    | false => simp only [Bool.false_eq_true, if_false] at h1; exact witnesses_row_qext h1
  | or es ih =>
    intro t name s s' h
    rw [lowerAssertion] at h
    refine la_prefix_qext h (fun s1 h1 => ?_)
    cases t with
    | false => simp only [Bool.false_eq_true, if_false] at h1; exact laList_qext es ih false name s1 s' h1
    | true => simp only [if_true] at h1; exact witnesses_row_qext h1
  | implies l r ihl ihr =>
    intro t name s s' h
    rw [lowerAssertion] at h
    refine la_prefix_qext h (fun s1 h1 => ?_)
    cases t with
    | true =>
      simp only [if_true, bind_ok] at h1
      obtain ⟨w1, s2, h2, w2, s3, h3, h4⟩ := h1
      exact ((dirWitness_qext l false s1 _ _ h2).trans (dirWitness_qext r true s2 _ _ h3)).trans
        (emitConstraint_qext h4)
    | false =>
      simp only [Bool.false_eq_true, if_false, bind_ok] at h1
      obtain ⟨u, s2, h2, h3⟩ := h1
      exact (ihl true name s1 s2 h2).trans (ihr false name s2 s' h3)
  | iff l r _ _ =>
    intro t name s s' h
    rw [lowerAssertion] at h
    refine la_prefix_qext h (fun s1 h1 => ?_)
    simp only [bind_ok] at h1
    obtain ⟨a, s2, h2, b, s3, h3, h4⟩ := h1
    refine ((linBinaryOperand_qext (linExp_qext l) h2).trans (linBinaryOperand_qext (linExp_qext r) h3)).trans ?_
    cases t with
    | true => simp only [if_true] at h4; exact emitConstraint_qext h4
    | false => simp only [Bool.false_eq_true, if_false] at h4; exact emitConstraint_qext h4
  | xor l r _ _ =>
    intro t name s s' h
    rw [lowerAssertion] at h
    refine la_prefix_qext h (fun s1 h1 => ?_)
    simp only [bind_ok] at h1
    obtain ⟨a, s2, h2, b, s3, h3, h4⟩ := h1
    refine ((linBinaryOperand_qext (linExp_qext l) h2).trans (linBinaryOperand_qext (linExp_qext r) h3)).trans ?_
    cases t with
    | true => simp only [if_true] at h4; exact emitConstraint_qext h4
    | false => simp only [Bool.false_eq_true, if_false] at h4; exact emitConstraint_qext h4
  | abs e _ =>
    refine laQ_fail (fun t name => ?_)
    rw [lowerAssertion]
    all_goals (intros; first | contradiction | (rename_i hh; cases hh))
  | min es _ =>
    refine laQ_fail (fun t name => ?_)
    rw [lowerAssertion]
    all_goals (intros; first | contradiction | (rename_i hh; cases hh))
  | max es _ =>
    refine laQ_fail (fun t name => ?_)
    rw [lowerAssertion]
    all_goals (intros; first | contradiction | (rename_i hh; cases hh))
  | bin op a b _ _ =>
    refine laQ_fail (fun t name => ?_)
    rw [lowerAssertion]
    all_goals (intros; first | contradiction | (rename_i hh; cases hh))

/-! ### one iteration, the loop -/

theorem processConstraint_qext {c : Constraint (Ext K)} {s s' : St (Ext K)}
    (h : processConstraint c s = .ok ((), s')) : QExt s s' := by
  unfold processConstraint at h
  simp only [bind_ok, simplifyFlat_ok] at h
  obtain ⟨lhs', s1, ⟨fl1, hf1, h1⟩, rhs', s2, ⟨fl2, hf2, h2⟩, h3⟩ := h
  cases h1; cases h2
  by_cases hA : c.isAssert = true
  · simp only [hA, if_true] at h3
    exact lowerAssertion_qext lhs' true c.name s s' h3
  · have hA' : c.isAssert = false := by simpa using hA
    simp only [hA', Bool.false_eq_true, if_false] at h3
    unfold dispatch at h3
    simp only [bind_ok, get_ok] at h3
    obtain ⟨s0, s0', h0, h3⟩ := h3
    cases h0
    cases hN : tryNormalize s.domain lhs' c.cmp rhs' with
    | none => simp only [hN] at h3; exact emitConstraint_qext h3
    | some nz =>
      cases nz with
      | tautology => simp only [hN, pure_ok] at h3; cases h3; exact QExt.refl s
      | contradiction => simp only [hN] at h3; exact emitConstraint_qext h3
      | assertion e t => simp only [hN] at h3; exact lowerAssertion_qext e t c.name s s' h3

/-- **every queued constraint is processed**: when the loop ends successfully, each constraint in the queue went
through one successful iteration. -/
theorem drain_processed : ∀ (n : Nat) (s : St (Ext K)) (r : Unit × St (Ext K)), drain n s = .ok r →
    ∀ c ∈ s.queue, ∃ (s1 : St (Ext K)) (r1 : Unit × St (Ext K)), processConstraint c s1 = .ok r1 := by
  intro n
  induction n with
  | zero => intro s r h; simp [drain, fail_ok] at h
  | succ n ih =>
    intro s r h c hc
    rw [drain_succ] at h
    simp only [bind_ok, get_ok] at h
    obtain ⟨s0, s0', h0, h⟩ := h
    cases h0
    cases hqs : s.queue with
    | nil => rw [hqs] at hc; cases hc
    | cons c0 rest =>
      simp only [hqs, bind_ok, set_ok] at h
      obtain ⟨u, s1, h1, u2, s2, h2, h3⟩ := h
      cases h1
      rw [hqs] at hc
      rcases List.mem_cons.mp hc with rfl | hc
      · exact ⟨_, _, h2⟩
      · have hq : QExt ({ s with queue := rest } : St (Ext K)) s2 := processConstraint_qext h2
        exact ih s2 r h3 c (hq.mem hc)

/-- every source constraint of a model that compiles went through one successful loop iteration. -/
theorem compiled_processed {m : Model (Ext K)} {b : BoundsMap (Ext K)} {d : List (DomVar (Ext K))}
    {lm : LinModel (Ext K)} (h : linearizeWith m b d = .ok lm) :
    ∀ c ∈ m.constraints, ∃ (s1 : St (Ext K)) (r1 : Unit × St (Ext K)), processConstraint c s1 = .ok r1 := by
  obtain ⟨objExp, s1, obj, s2, s3, hsf, hlin, hdrain, _⟩ := (linearizeWith_ok_iff _ _ _ _).mp h
  obtain ⟨oe, hnorm, hs1⟩ := (simplifyFlat_ok _ _ _).mp hsf
  cases hs1
  intro c hc
  exact drain_processed _ _ _ hdrain c ((linExp_qext _ _ _ _ _ hlin).mem hc)

/-- **every side of every constraint of a compiled model is defined on the domains** (static contract; the right
side of a bare assertion is not part of its meaning and is not lowered). -/
theorem compiled_sides_defined {m : Model (Ext K)} {b : BoundsMap (Ext K)} {d : List (DomVar (Ext K))}
    {lm : LinModel (Ext K)} (hm : LogicModel m d) (h : linearizeWith m b d = .ok lm) :
    ∀ c ∈ m.constraints, DefOn d c.lhs ∧ (c.isAssert = false → DefOn d c.rhs) := by
  intro c hc
  obtain ⟨sa, ra, hproc⟩ := compiled_processed h c hc
  exact ⟨fun ρ hd => def_iff_exists.mp (process_defined hproc (hm.cons c hc) ρ hd).1,
    fun hA ρ hd => def_iff_exists.mp ((process_defined hproc (hm.cons c hc) ρ hd).2 hA)⟩

/-- the same for the whole pipeline `Compile.linearize`, ON THE DECLARED DOMAINS (the analyzer is only used to
obtain the successful run; the contract speaks about `m.domain`). -/
theorem compile_sides_defined {m : Model (Ext K)} {tol : Ext K} {maxSteps : Nat} {lm : LinModel (Ext K)}
    (h : Compile.linearize m tol maxSteps = .ok lm) (hm : LogicModel m m.domain) :
    DefOn m.domain m.objective ∧
    ∀ c ∈ m.constraints, DefOn m.domain c.lhs ∧ (c.isAssert = false → DefOn m.domain c.rhs) := by
  obtain ⟨_, an, han, hlin⟩ := (compile_ok_iff m _ maxSteps lm).mp h
  refine ⟨fun ρ hd => def_iff_exists.mp (obj_defined_at hlin hm.obj.fin ρ (hm.obj.nc ρ hd)), ?_⟩
  intro c hc
  obtain ⟨sa, ra, hproc⟩ := compiled_processed hlin c hc
  have hsc := hm.cons c hc
  exact ⟨fun ρ hd => def_iff_exists.mp
      (process_defined_at hproc hsc.lhs.fin hsc.rhs.fin ρ (hsc.lhs.nc ρ hd) (hsc.rhs.nc ρ hd)).1,
    fun hA ρ hd => def_iff_exists.mp
      ((process_defined_at hproc hsc.lhs.fin hsc.rhs.fin ρ (hsc.lhs.nc ρ hd) (hsc.rhs.nc ρ hd)).2 hA)⟩

end Rooc.LinP
