/-
C08 — `Compile.linearize` publishes ORDERED domains, feasible model or not.

`analyze |> enforceable` keeps every range ordered (`BoundsProofs.enforceable_ordered`, agent-bounds) and inside
the declared range (`LinP.analyzer_anOK_int`); `apply_to_domain` therefore publishes ordered types (the
`NonNegativeReal` lower end `max(lo, 0)` stays below the upper end because the box stays inside the declared,
non-negative range), and the lowering keeps domains ordered (`Lin.domain_ordered`).
-/
import Rooc.Proofs.WFOrdered
import Rooc.Proofs.BoundsFormat
import Rooc.Proofs.LinBridge

set_option linter.unusedSectionVars false
set_option linter.unusedSimpArgs false
set_option linter.unusedVariables false

namespace Rooc
namespace APr
open Rooc.Lin Rooc.LinP Rooc.BoundsProofs Rooc.BoundsSem Arith
variable {K : Type} [Field K] [LinearOrder K] [IsStrictOrderedRing K] [FloorRing K]

/-- declared integer ranges are `i32` ranges (their type in rooc). -/
def DeclI32 (dom : List (DomVar (Ext K))) : Prop :=
  ∀ d ∈ dom, ∀ lo hi, d.ty = .int lo hi → i32Min ≤ lo ∧ hi ≤ i32Max

/-- a proper ordered type has a member. -/
theorem inhabited_of_ord {ty : VarType (Ext K)} (hp : TP fin? ty) (ho : OrdT ty) : ∃ x : K, InDomain ty x := by
  cases ty with
  | bool => exact ⟨0, Or.inl (by simp)⟩
  | int lo hi => exact ⟨(lo : K), lo, by simp, le_refl _, ho⟩
  | real lo hi =>
    obtain ⟨h1, h2⟩ := hp
    rw [LOK_iff] at h1; rw [UOK_iff] at h2
    simp only [OrdT] at ho
    rcases h1 with ⟨a, rfl⟩ | rfl
    · exact ⟨a, by simp [InDomain, Mem, Ext.le], ho⟩
    · rcases h2 with ⟨c, rfl⟩ | rfl
      · exact ⟨c, by simp [InDomain, Mem, Ext.le]⟩
      · exact ⟨0, by simp [InDomain, Mem, Ext.le]⟩
  | nnreal lo hi =>
    obtain ⟨h1, h0, h2⟩ := hp
    simp only [OrdT] at ho
    cases lo with
    | fin a =>
      refine ⟨a, ?_, by simp [Mem, Ext.le], ho⟩
      simpa [Arith.le, Ext.le, Arith.zero, Arith.ofInt] using h0
    | _ => simp [fin?, Arith.isFinite, Ext.isFinite] at h1

theorem declOK_of {dom : List (DomVar (Ext K))} (hnd : (dom.map (·.name)).Nodup) (hi : DeclI32 dom)
    (hp : Lin.DomainProper dom) (ho : Lin.DomainOrdered dom) : DeclOK dom where
  nodup := hnd
  i32 := hi
  noNaN d hd := by
    have := hp d hd
    cases hty : d.ty with
    | bool => trivial
    | int lo hi => trivial
    | real lo hi =>
      rw [hty] at this
      obtain ⟨h1, h2⟩ := this
      rw [LOK_iff] at h1; rw [UOK_iff] at h2
      constructor
      · rcases h1 with ⟨a, rfl⟩ | rfl <;> simp
      · rcases h2 with ⟨a, rfl⟩ | rfl <;> simp
    | nnreal lo hi =>
      rw [hty] at this
      obtain ⟨h1, _, h2⟩ := this
      rw [UOK_iff] at h2
      constructor
      · cases lo <;> simp [fin?, Arith.isFinite, Ext.isFinite] at h1 ⊢
      · rcases h2 with ⟨a, rfl⟩ | rfl <;> simp
  nn d hd := by
    have := hp d hd
    cases hty : d.ty with
    | nnreal lo hi =>
      rw [hty] at this
      simpa [NNOK, Arith.le, Arith.zero, Arith.ofInt] using this.2.1
    | _ => trivial
  inhabited d hd _ := inhabited_of_ord (hp d hd) (ho d hd)

/-- `apply_to_domain` after `enforceable` publishes ordered types. -/
theorem applyToDomain_ordered {dom : List (DomVar (Ext K))} (hok : DeclOK dom) (hp : Lin.DomainProper dom)
    (ho : Lin.DomainOrdered dom) (cs : List (Constraint (Ext K))) (hcf : ∀ c ∈ cs, ConFin c)
    {t : K} (h0 : 0 ≤ t) (h1 : t < 1) (maxSteps : Nat) :
    Lin.DomainOrdered (((Analyzer.analyze dom cs (.fin t) maxSteps).enforceable dom).applyToDomain dom) := by
  have hordD : ∀ d ∈ dom, Ordered (Bounds.ofVarType d.ty) := fun d hd => by
    have := ordB_ofVarType (ho d hd)
    cases hty : d.ty <;> rw [hty] at this <;> exact this
  have hord := enforceable_ordered hok.nodup cs h0 h1 maxSteps hordD
  have hanok := analyzer_anOK_int hok cs h0 h1 maxSteps
  have hvb := enforceable_VBP (dom := dom) hp (analyze_VBP hp hcf (.fin t) maxSteps)
    (by rw [analyze_tolerance]; rfl)
  intro v hv
  simp only [Analyzer.applyToDomain, List.mem_map] at hv
  obtain ⟨d, hdm, rfl⟩ := hv
  cases hty : d.ty with
  | bool =>
    have : (((Analyzer.analyze dom cs (.fin t) maxSteps).enforceable dom).applyToVar d).ty = .bool := by
      unfold Analyzer.applyToVar; split
      · exact hty
      · simp only [hty]
    rw [this]; trivial
  | int lo hi =>
    obtain ⟨m1, m2, _, _, _, hty'⟩ := applyToVar_int_after_enforceable hok cs h0 h1 maxSteps hdm hty
    rw [hty']
    have := ho d hdm
    rw [hty] at this
    split
    · assumption
    · exact this
  | real lo hi =>
    unfold Analyzer.applyToVar
    split
    · have := ho d hdm; rw [hty] at this ⊢; exact this
    · rename_i b hb
      simp only [hty]
      have := hord d.name
      simp only [Analyzer.varBounds, hb, Option.getD_some] at this
      exact this
  | nnreal lo hi =>
    unfold Analyzer.applyToVar
    split
    · have := ho d hdm; rw [hty] at this ⊢; exact this
    · rename_i b hb
      simp only [hty]
      have hob := hord d.name
      simp only [Analyzer.varBounds, hb, Option.getD_some, Ordered] at hob
      have hpb := hvb d.name
      simp only [Analyzer.varBounds, hb, Option.getD_some] at hpb
      rw [PB_iff] at hpb
      have hin := hanok.inDecl d hdm
      simp only [Analyzer.varBounds, hb, Option.getD_some, hty] at hin
      have hnn := hok.nn d hdm
      rw [hty] at hnn
      simp only [NNOK] at hnn
      show Ext.le (if Arith.gt b.lower Arith.zero then b.lower else Arith.zero) b.upper = true
      split
      · exact hob
      · -- `0 ≤ upper`: the upper end lies in the box, hence in the declared non-negative range
        rcases hpb.2 with ⟨u, hu⟩ | hu
        · have hm : Mem u b := ⟨by rw [← hu]; exact hob, by rw [hu]; simp [Ext.le]⟩
          have := hin u hm
          simp only [Bounds.ofVarType, Mem] at this
          have h0u := BoundsProofs.ext_le_trans hnn this.1
          rw [hu]
          simpa [Arith.zero, Arith.ofInt] using h0u
        · rw [hu]; simp [Arith.zero, Arith.ofInt, Ext.le]

/-- **the domains of the compiled model are ordered** (`lower ≤ upper` for every `Real / NonNegativeReal` entry,
`lo ≤ hi` for every integer entry; in particular no NaN end point) — for every model, FEASIBLE OR NOT, whose
declared ranges are proper and ordered and whose literals are finite, every tolerance `0 ≤ t < 1` and every step
limit.  (`Lin.compile_domains_proper` of C01 has the ordering only for models with a feasible compiled model.) -/
theorem compile_domain_ordered {m : Model (Ext K)} {t : K} (h0 : 0 ≤ t) (h1 : t < 1) {maxSteps : Nat}
    {lm : LinModel (Ext K)} (hnd : (m.domain.map (·.name)).Nodup) (hi : DeclI32 m.domain)
    (hdecl : Lin.DomainProper m.domain) (hord : Lin.DomainOrdered m.domain) (hfin : Lin.FiniteLits m = true)
    (h : Compile.linearize m (.fin t) maxSteps = .ok lm) : Lin.DomainOrdered lm.domain := by
  unfold Compile.linearize at h
  split at h
  · cases h
  · -- past the up-front collapse check (rooc e35561f)
    split at h
    · cases h
    · rename_i cs hcs
      dsimp only at h
      have hfin' := hfin
      simp only [Lin.FiniteLits, Bool.and_eq_true, List.all_eq_true] at hfin'
      have hcf : ∀ c ∈ cs, ConFin c := normalizedForBounds_fin _ _ (fun c hc => hfin'.2 c hc) hcs
      have hok := declOK_of hnd hi hdecl hord
      have hvb := enforceable_VBP (dom := m.domain) hdecl (analyze_VBP hdecl hcf (.fin t) maxSteps)
        (by rw [analyze_tolerance]; rfl)
      have hordD : ∀ d ∈ m.domain, Ordered (Bounds.ofVarType d.ty) := fun d hd => by
        have := ordB_ofVarType (hord d hd)
        cases hty : d.ty <;> rw [hty] at this <;> exact this
      have hob := enforceable_ordered hok.nodup cs h0 h1 maxSteps hordD
      refine Lin.domain_ordered hfin (boundsProper_of_VBP hvb) (applyToDomain_proper hdecl hvb) ?_
        (applyToDomain_ordered hok hdecl hord cs hcf h0 h1 maxSteps) h
      intro x
      show OrdB (Lin.varBounds (ucM _) x)
      rw [varBounds_ucM]
      exact hob x

/-- the oracle's decidable check is the predicate of the theorem. -/
theorem typeOrdered_iff (ty : VarType (Ext K)) : WF.typeOrdered ty = true ↔ Lin.OrdT ty := by
  cases ty <;> simp [WF.typeOrdered, Lin.OrdT, Arith.le]

theorem domainOrdered_check {m : Model (Ext K)} {lm : LinModel (Ext K)} (h : Lin.DomainOrdered lm.domain) :
    WF.domainOrdered m lm = true := by
  simp only [WF.domainOrdered, Bool.or_eq_true, List.all_eq_true]
  exact Or.inr fun d hd => (typeOrdered_iff d.ty).mpr (h d hd)

end APr
end Rooc
