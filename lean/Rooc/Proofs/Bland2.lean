/-
The exchange identity behind Bland's theorem: for two canonical tableaus `D`, `D'` of the same system and the
same objective, and a non-basic column `s` of `D`,
`c_D[s] = c_D'[s] − Σ_k c_D'[B_D k] · a_D[k][s]`
(compare the objective along the ray of `s` in `D`, expressed through `D` and through `D'`).
-/
import Rooc.Proofs.Bland1
namespace Rooc
namespace Bland
variable {K : Type} [Field K] [LinearOrder K] [IsStrictOrderedRing K]
attribute [local instance] exactArith
open Tableau TabSem PivotLemmas BasicSol Unbounded

/-- `Σ_k r[l k] · b[k0 + k]`. -/
noncomputable def wsum (r b : List K) : List Nat → Nat → K
  | [], _ => 0
  | j :: l, k0 => nth r j * nth b k0 + wsum r b l (k0+1)

theorem dot_fill_w (b r : List K) : ∀ (l : List Nat) (k0 : Nat) (v : List K), r.length = v.length → l.Nodup →
    (∀ j ∈ l, j < v.length) → (∀ j ∈ l, nth v j = 0) → dot r (fill b l k0 v) = dot r v + wsum r b l k0
  | [], k0, v, _, _, _, _ => by simp [fill_nil, wsum]
  | j :: l, k0, v, hl, hnd, hlt, hz => by
    rw [fill_cons]
    have hj : j < v.length := hlt j (by simp)
    have hnd' := List.nodup_cons.1 hnd
    rw [dot_fill_w b r l (k0+1) (v.set j (nth b k0)) (by simpa using hl) hnd'.2
      (by intro j' hj'; simpa using hlt j' (List.mem_cons_of_mem _ hj'))
      (by intro j' hj'
          have hne : j' ≠ j := fun e => hnd'.1 (e ▸ hj')
          rw [nth_set _ _ _ _ hj]; simp [hne, hz j' (List.mem_cons_of_mem _ hj')]),
      dot_set _ _ _ _ hj hl, hz j (by simp)]
    simp only [wsum]; ring

theorem wsum_linear (r : List K) (f g : Nat → K) (θ : K) (m : Nat) : ∀ (l : List Nat) (k0 : Nat), k0 + l.length ≤ m →
    wsum r ((List.range m).map fun k => f k - θ * g k) l k0 =
      wsum r ((List.range m).map f) l k0 - θ * wsum r ((List.range m).map g) l k0
  | [], _, _ => by simp [wsum]
  | j :: l, k0, h => by
    have hk : k0 < m := by simp only [List.length_cons] at h; omega
    simp only [wsum, nth_map_range _ _ _ hk, wsum_linear r f g θ m l (k0+1) (by simp only [List.length_cons] at h; omega)]
    ring

theorem wsum_pos (r b : List K) : ∀ (l : List Nat) (k0 : Nat), 0 < wsum r b l k0 →
    ∃ k, k < l.length ∧ 0 < nth r (l.getD k 0) * nth b (k0 + k)
  | [], _, h => by simp [wsum] at h
  | j :: l, k0, h => by
    simp only [wsum] at h
    by_cases h0 : 0 < nth r j * nth b k0
    · exact ⟨0, by simp, by simpa using h0⟩
    · have : 0 < wsum r b l (k0+1) := by linarith [not_lt.1 h0]
      obtain ⟨k, hk, hp⟩ := wsum_pos r b l (k0+1) this
      exact ⟨k+1, by simpa using hk, by simpa [Nat.add_assoc, Nat.add_comm 1 k] using hp⟩

/-- the points of the ray of a non-basic column solve the system (no sign condition). -/
theorem rayPoint_sol {T : Tab K} {m n : Nat} (hC : Canon T m n) {h : Nat} (hh : h < n) (hnb : h ∉ T.basis) (θ : K) :
    (rayPoint T h θ).length = n ∧ Sol T (rayPoint T h θ) := by
  set b' : List K := (List.range T.a.length).map fun k => nth T.b k - θ * nth (row T.a k) h with hb'
  set v := fill b' T.basis 0 (List.replicate T.c.length 0) with hv
  have hvlen : v.length = T.c.length := by simp [hv, fill_length]
  have hvh : nth v h = 0 := by
    rw [hv, nth_fill_not_mem b' T.basis 0 _ h (basis_lt hC) hnb, nth_replicate_zero]
  have hh1 : h < T.c.length := by rw [hC.rect.costs]; exact hh
  refine ⟨?_, ?_⟩
  · show (v.set h θ).length = n
    rw [List.length_set, hvlen, hC.rect.costs]
  · intro i hi
    have him : i < m := hC.rect.rows ▸ hi
    show dot (row T.a i) (v.set h θ) = _
    rw [dot_set _ v h θ (by rw [hvlen]; exact hh1) (by rw [hC.rect.width i him, hvlen, hC.rect.costs]), hvh, hv,
      dot_fill_unit b' (row T.a i) i T.basis 0 _ (by simp [hC.rect.width i him, hC.rect.costs]) (basis_nodup hC)
        (basis_lt hC) (fun j _ => nth_replicate_zero _ _)
        (by intro k hk
            have := hC.unit i k hi (by rw [hC.rect.rows, ← hC.rect.basis]; exact hk)
            simpa using this)]
    have : 0 ≤ i ∧ i < 0 + T.basis.length := ⟨Nat.zero_le _, by rw [hC.rect.basis]; simpa using him⟩
    rw [if_pos this, dot_replicate_zero, hb', nth_map_range _ _ _ hi]; ring

/-- **exchange identity.** -/
theorem exchange {D D' : Tab K} {m n : Nat} (hC : Canon D m n) (hC' : Canon D' m n)
    (hS : ∀ x, Sol D' x ↔ Sol D x) {c0 : List K} (hO : ObjInv D c0) (hO' : ObjInv D' c0)
    {s : Nat} (hs : s < n) (hnb : s ∉ D.basis) :
    nth D.c s = nth D'.c s -
      wsum D'.c ((List.range D.a.length).map fun k => nth (row D.a k) s) D.basis 0 := by
  have hs1 : s < D.c.length := by rw [hC.rect.costs]; exact hs
  -- the objective along the ray, through D and through D'
  have key : ∀ θ : K, nth D.c s * θ - D.value =
      wsum D'.c ((List.range D.a.length).map fun k => nth D.b k - θ * nth (row D.a k) s) D.basis 0 +
        nth D'.c s * θ - D'.value := by
    intro θ
    obtain ⟨hlen, hsol⟩ := rayPoint_sol hC hs hnb θ
    have e1 := hO _ (by rw [hlen, hC.rect.costs]) hsol
    have e2 := hO' _ (by rw [hlen, hC'.rect.costs]) ((hS _).2 hsol)
    rw [e1] at e2
    set b' : List K := (List.range D.a.length).map fun k => nth D.b k - θ * nth (row D.a k) s with hb'
    set v := fill b' D.basis 0 (List.replicate D.c.length 0) with hv
    have hvlen : v.length = D.c.length := by simp [hv, fill_length]
    have hvs : nth v s = 0 := by
      rw [hv, nth_fill_not_mem b' D.basis 0 _ s (basis_lt hC) hnb, nth_replicate_zero]
    have hray : rayPoint D s θ = v.set s θ := rfl
    rw [hray] at e2
    rw [dot_set D.c v s θ (by rw [hvlen]; exact hs1) (by rw [hvlen]), hvs,
      dot_set D'.c v s θ (by rw [hvlen]; exact hs1) (by rw [hvlen, hC'.rect.costs, hC.rect.costs]), hvs] at e2
    have d1 : dot D.c v = 0 := by
      rw [hv, dot_fill_zero b' D.c D.basis 0 _ (by simp) (basis_lt hC)
        (by intro j hj
            obtain ⟨k, hk, e⟩ := basis_mem hj
            have := hC.costs k (by rw [hC.rect.rows, ← hC.rect.basis]; exact hk)
            rw [e] at this; simpa using this), dot_replicate_zero]
    have d2 : dot D'.c v = wsum D'.c b' D.basis 0 := by
      rw [hv, dot_fill_w b' D'.c D.basis 0 _ (by simp [hC'.rect.costs, hC.rect.costs]) (basis_nodup hC) (basis_lt hC)
        (fun j _ => nth_replicate_zero _ _), dot_replicate_zero]; ring
    rw [d1, d2] at e2
    simp only [ExactK.sub_eq] at e2
    linarith
  have hlen : 0 + D.basis.length ≤ D.a.length := by rw [hC.rect.basis, hC.rect.rows]; omega
  have k0 := key 0
  have k1 := key 1
  rw [wsum_linear D'.c (fun k => nth D.b k) (fun k => nth (row D.a k) s) _ D.a.length D.basis 0 hlen] at k0 k1
  linarith

end Bland
end Rooc
