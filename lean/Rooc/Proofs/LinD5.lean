/-
Stage D, part 5: `directional_logic_witness` — specification of the witnesses.
-/
import Rooc.Proofs.LinD4

set_option linter.unusedSectionVars false
set_option linter.unusedSimpArgs false
set_option linter.unusedVariables false
set_option linter.unusedTactic false
set_option linter.unreachableTactic false

namespace Rooc.LinP
open Rooc Rooc.Lin Rooc.Sem Rooc.Exp
open Rooc.Lin.Gadget

variable {K : Type} [Field K] [LinearOrder K] [IsStrictOrderedRing K] [FloorRing K]

/-! ### what a directional witness guarantees -/

/-- `x` is a witness for "the truth of `e` is `t`", produced from `s` to `s'`: a 0/1 affine expression that can
be `1` only if `e` has truth `t`, and that can be made `1` whenever it has. -/
structure DirOK (d0 : List (DomVar (Ext K))) (s s' : St (Ext K)) (e : Exp (Ext K)) (t : Bool) (x : Exp (Ext K)) :
    Prop where
  inv : LoopInvD d0 s'
  dom : ∃ decls, s'.domain = s.domain ++ decls
  bx : BExp s'.domain x
  back : ∀ ρ : String → K, Sat ρ s' → Sat ρ s
  sound : ∀ ρ : String → K, Sat ρ s' → ev ρ x = 1 → HasTruth e t ρ
  complete : ∀ ρ : String → K, Sat ρ s → ∃ ρ' : String → K, (∀ y, inScope s.domain y → ρ' y = ρ y) ∧ Sat ρ' s' ∧
    (HasTruth e t ρ → ev ρ' x = 1)
  bin : BinOn s e

structure DirListOK (d0 : List (DomVar (Ext K))) (s s' : St (Ext K)) (es : List (Exp (Ext K))) (t : Bool)
    (xs : List (Exp (Ext K))) : Prop where
  inv : LoopInvD d0 s'
  dom : ∃ decls, s'.domain = s.domain ++ decls
  bx : ∀ x ∈ xs, BExp s'.domain x
  back : ∀ ρ : String → K, Sat ρ s' → Sat ρ s
  sound : ∀ ρ : String → K, Sat ρ s' → List.Forall₂ (fun e x => ev ρ x = 1 → HasTruth e t ρ) es xs
  complete : ∀ ρ : String → K, Sat ρ s → ∃ ρ' : String → K, (∀ y, inScope s.domain y → ρ' y = ρ y) ∧ Sat ρ' s' ∧
    List.Forall₂ (fun e x => HasTruth e t ρ → ev ρ' x = 1) es xs
  bin : ∀ e ∈ es, BinOn s e

theorem hasTruth_congr {e : Exp (Ext K)} {t : Bool} {ρ ρ' : String → K} (h : ∀ x ∈ varsOf e, ρ' x = ρ x) :
    HasTruth e t ρ' ↔ HasTruth e t ρ := by
  simp only [HasTruth, eval_congr e h]

theorem ev_congr {x : Exp (Ext K)} {ρ ρ' : String → K} (h : ∀ y ∈ varsOf x, ρ' y = ρ y) : ev ρ' x = ev ρ x := by
  simp only [ev, eval_congr x h]

theorem scope_of_dom {s s' : St (Ext K)} (h : ∃ decls, s'.domain = s.domain ++ decls) {y : String}
    (hy : inScope s.domain y) : inScope s'.domain y := by
  obtain ⟨decls, hd⟩ := h; rw [hd]; exact inScope_append_left hy

theorem BExp.of_dom {s s' : St (Ext K)} (h : ∃ decls, s'.domain = s.domain ++ decls) {x : Exp (Ext K)}
    (hx : BExp s.domain x) : BExp s'.domain x := by
  obtain ⟨decls, hd⟩ := h; rw [hd]; exact hx.mono decls

theorem AE.of_dom {s s' : St (Ext K)} (h : ∃ decls, s'.domain = s.domain ++ decls) {x : Exp (Ext K)}
    (hx : AE s.domain x) : AE s'.domain x := by
  obtain ⟨decls, hd⟩ := h; rw [hd]; exact hx.mono decls

theorem dom_trans {s s1 s2 : St (Ext K)} (h1 : ∃ decls, s1.domain = s.domain ++ decls)
    (h2 : ∃ decls, s2.domain = s1.domain ++ decls) : ∃ decls, s2.domain = s.domain ++ decls := by
  obtain ⟨d1, hd1⟩ := h1; obtain ⟨d2, hd2⟩ := h2
  exact ⟨d1 ++ d2, by rw [hd2, hd1, List.append_assoc]⟩

theorem DirListOK.nil {d0 : List (DomVar (Ext K))} {s : St (Ext K)} (hinv : LoopInvD d0 s) (t : Bool) :
    DirListOK d0 s s [] t [] :=
  { inv := hinv, dom := ⟨[], by simp⟩, bx := by simp, back := fun _ h => h
    sound := fun _ _ => List.Forall₂.nil
    complete := fun ρ hs => ⟨ρ, fun _ _ => rfl, hs, List.Forall₂.nil⟩
    bin := by simp }

/-- one more witness in front. -/
theorem DirListOK.cons {d0 : List (DomVar (Ext K))} {s s1 s2 : St (Ext K)} {e : Exp (Ext K)}
    {es : List (Exp (Ext K))} {t : Bool} {x : Exp (Ext K)} {xs : List (Exp (Ext K))}
    (A : DirOK d0 s s1 e t x) (B : DirListOK d0 s1 s2 es t xs)
    (hsc : ∀ e' ∈ es, ∀ y ∈ varsOf e', inScope s.domain y) :
    DirListOK d0 s s2 (e :: es) t (x :: xs) := by
  refine
  { inv := B.inv, dom := dom_trans A.dom B.dom, bx := ?_, back := fun ρ h => A.back ρ (B.back ρ h)
    sound := ?_, complete := ?_, bin := ?_ }
  · intro x' hx'
    rcases List.mem_cons.mp hx' with rfl | hx'
    · exact BExp.of_dom B.dom A.bx
    · exact B.bx x' hx'
  · intro ρ hs
    exact List.Forall₂.cons (A.sound ρ (B.back ρ hs)) (B.sound ρ hs)
  · intro ρ hs
    obtain ⟨ρ1, hag1, hs1, hx1⟩ := A.complete ρ hs
    obtain ⟨ρ2, hag2, hs2, hx2⟩ := B.complete ρ1 hs1
    refine ⟨ρ2, fun y hy => by rw [hag2 y (scope_of_dom A.dom hy), hag1 y hy], hs2, List.Forall₂.cons ?_ ?_⟩
    · intro ht
      rw [ev_congr (fun y hy => hag2 y (A.bx.ag.2 y hy))]
      exact hx1 ht
    · -- transport `HasTruth e' t ρ1` to `ρ`
      have : ∀ (es' : List (Exp (Ext K))) (xs' : List (Exp (Ext K))),
          (∀ e' ∈ es', ∀ y ∈ varsOf e', inScope s.domain y) →
          List.Forall₂ (fun e' x' => HasTruth e' t ρ1 → ev ρ2 x' = 1) es' xs' →
          List.Forall₂ (fun e' x' => HasTruth e' t ρ → ev ρ2 x' = 1) es' xs' := by
        intro es' xs' hsc' hF'
        induction hF' with
        | nil => exact List.Forall₂.nil
        | cons h1 _ ih =>
          refine List.Forall₂.cons ?_ (ih (fun e' he' => hsc' e' (by simp [he'])))
          intro ht
          exact h1 ((hasTruth_congr (fun y hy => hag1 y (hsc' _ (by simp) y hy))).mpr ht)
      exact this es xs hsc hx2
  · intro e' he'
    rcases List.mem_cons.mp he' with rfl | he'
    · exact A.bin
    · intro ρ hs v hv
      obtain ⟨ρ1, hag1, hs1, _⟩ := A.complete ρ hs
      refine B.bin e' he' ρ1 hs1 v ?_
      rw [eval_congr e' (fun y hy => hag1 y (hsc e' he' y hy))]; exact hv

/-! ### list bookkeeping -/

theorem f2_all_right {α β : Type} {P : α → Prop} {Q : β → Prop} {as : List α} {bs : List β}
    (h : List.Forall₂ (fun a b => P a → Q b) as bs) (hp : ∀ a ∈ as, P a) : ∀ b ∈ bs, Q b := by
  induction h with
  | nil => simp
  | cons h1 _ ih =>
    intro b hb
    rcases List.mem_cons.mp hb with rfl | hb
    · exact h1 (hp _ (by simp))
    · exact ih (fun a ha => hp a (by simp [ha])) b hb

theorem f2_ex_right {α β : Type} {P : α → Prop} {Q : β → Prop} {as : List α} {bs : List β}
    (h : List.Forall₂ (fun a b => P a → Q b) as bs) (hp : ∃ a ∈ as, P a) : ∃ b ∈ bs, Q b := by
  induction h with
  | nil => obtain ⟨a, ha, _⟩ := hp; cases ha
  | cons h1 _ ih =>
    obtain ⟨a, ha, hpa⟩ := hp
    rcases List.mem_cons.mp ha with rfl | ha
    · exact ⟨_, by simp, h1 hpa⟩
    · obtain ⟨b, hb, hq⟩ := ih ⟨a, ha, hpa⟩; exact ⟨b, by simp [hb], hq⟩

theorem f2_all_left {α β : Type} {P : α → Prop} {Q : β → Prop} {as : List α} {bs : List β}
    (h : List.Forall₂ (fun a b => Q b → P a) as bs) (hq : ∀ b ∈ bs, Q b) : ∀ a ∈ as, P a := by
  induction h with
  | nil => simp
  | cons h1 _ ih =>
    intro a ha
    rcases List.mem_cons.mp ha with rfl | ha
    · exact h1 (hq _ (by simp))
    · exact ih (fun b hb => hq b (by simp [hb])) a ha

theorem f2_ex_left {α β : Type} {P : α → Prop} {Q : β → Prop} {as : List α} {bs : List β}
    (h : List.Forall₂ (fun a b => Q b → P a) as bs) (hq : ∃ b ∈ bs, Q b) : ∃ a ∈ as, P a := by
  induction h with
  | nil => obtain ⟨b, hb, _⟩ := hq; cases hb
  | cons h1 _ ih =>
    obtain ⟨b, hb, hqb⟩ := hq
    rcases List.mem_cons.mp hb with rfl | hb
    · exact ⟨_, by simp, h1 hqb⟩
    · obtain ⟨a, ha, hp⟩ := ih ⟨b, hb, hqb⟩; exact ⟨a, by simp [ha], hp⟩

/-! ### truth of `and` / `or` from the truth of the operands -/

theorem evalList_of_defined {ρ : String → K} : ∀ {es : List (Exp (Ext K))}, (∀ e ∈ es, ∃ v, eval ρ e = some v) →
    ∃ vs, evalList ρ es = some vs
  | [], _ => ⟨[], by simp [evalList]⟩
  | e :: es, h => by
    obtain ⟨v, hv⟩ := h e (by simp)
    obtain ⟨vs, hvs⟩ := evalList_of_defined (es := es) (fun e' he' => h e' (by simp [he']))
    exact ⟨v :: vs, by simp [evalList, hv, hvs]⟩

theorem evalList_mem {ρ : String → K} {es : List (Exp (Ext K))} {vs : List K} (h : evalList ρ es = some vs) :
    (∀ e ∈ es, ∃ v ∈ vs, eval ρ e = some v) ∧ (∀ v ∈ vs, ∃ e ∈ es, eval ρ e = some v) := by
  have hF := evalList_eq_some_iff.mp h
  clear h
  constructor
  · intro e he
    induction hF with
    | nil => cases he
    | cons h1 _ ih =>
      rcases List.mem_cons.mp he with rfl | he
      · exact ⟨_, by simp, h1⟩
      · obtain ⟨v, hv, hev⟩ := ih he; exact ⟨v, by simp [hv], hev⟩
  · intro v hv
    induction hF with
    | nil => cases hv
    | cons h1 _ ih =>
      rcases List.mem_cons.mp hv with rfl | hv
      · exact ⟨_, by simp, h1⟩
      · obtain ⟨e, he, hev⟩ := ih hv; exact ⟨e, by simp [he], hev⟩

theorem hasTruth_and' {ρ : String → K} {es : List (Exp (Ext K))} {vs : List K} (h : evalList ρ es = some vs)
    (t : Bool) : HasTruth (.and es) t ρ ↔ vs.all truthy = t := by
  simp only [HasTruth, eval_and_of h, Option.some.injEq, ofBool_inj]
theorem hasTruth_or' {ρ : String → K} {es : List (Exp (Ext K))} {vs : List K} (h : evalList ρ es = some vs)
    (t : Bool) : HasTruth (.or es) t ρ ↔ vs.any truthy = t := by
  simp only [HasTruth, eval_or_of h, Option.some.injEq, ofBool_inj]

theorem hasTruth_true_iff {e : Exp (Ext K)} {ρ : String → K} : HasTruth e true ρ ↔ eval ρ e = some 1 := by
  simp [HasTruth, ofBool]
theorem hasTruth_false_iff {e : Exp (Ext K)} {ρ : String → K} : HasTruth e false ρ ↔ eval ρ e = some 0 := by
  simp [HasTruth, ofBool]

/-- `v` is the value of `e`; if 0/1 then its truth. -/
theorem truth_of_b01 {e : Exp (Ext K)} {ρ : String → K} {v : K} (hv : eval ρ e = some v) (hb : B01 v) (t : Bool) :
    HasTruth e t ρ ↔ truthy v = t := by
  simp only [HasTruth, hv, Option.some.injEq]
  rcases hb with rfl | rfl <;> cases t <;> simp [truthy, ofBool]

theorem and_true_intro {ρ : String → K} {es : List (Exp (Ext K))} (h : ∀ e ∈ es, HasTruth e true ρ) :
    HasTruth (.and es) true ρ := by
  obtain ⟨vs, hvs⟩ := evalList_of_defined (fun e he => ⟨1, hasTruth_true_iff.mp (h e he)⟩)
  rw [hasTruth_and' hvs, List.all_eq_true]
  intro v hv
  obtain ⟨e, he, hev⟩ := (evalList_mem hvs).2 v hv
  rw [hasTruth_true_iff.mp (h e he)] at hev
  cases hev; simp [truthy]

theorem and_true_elim {ρ : String → K} {es : List (Exp (Ext K))} (h : HasTruth (.and es) true ρ)
    (hb : ∀ e ∈ es, ∀ v, eval ρ e = some v → B01 v) : ∀ e ∈ es, HasTruth e true ρ := by
  obtain ⟨vs, hvs, _⟩ := eval_and_some h
  rw [hasTruth_and' hvs, List.all_eq_true] at h
  intro e he
  obtain ⟨v, hv, hev⟩ := (evalList_mem hvs).1 e he
  exact (truth_of_b01 hev (hb e he v hev) true).mpr (h v hv)

theorem and_false_intro {ρ : String → K} {es : List (Exp (Ext K))} (h : ∃ e ∈ es, HasTruth e false ρ)
    (hd : ∃ v, eval ρ (.and es) = some v) : HasTruth (.and es) false ρ := by
  obtain ⟨v0, hv0⟩ := hd
  obtain ⟨vs, hvs, _⟩ := eval_and_some hv0
  rw [hasTruth_and' hvs]
  obtain ⟨e, he, het⟩ := h
  obtain ⟨v, hv, hev⟩ := (evalList_mem hvs).1 e he
  rw [hasTruth_false_iff.mp het] at hev
  cases hev
  rw [Bool.eq_false_iff]
  intro hall
  have := List.all_eq_true.mp hall 0 hv
  simp [truthy] at this

theorem and_false_elim {ρ : String → K} {es : List (Exp (Ext K))} (h : HasTruth (.and es) false ρ)
    (hb : ∀ e ∈ es, ∀ v, eval ρ e = some v → B01 v) : ∃ e ∈ es, HasTruth e false ρ := by
  obtain ⟨vs, hvs, _⟩ := eval_and_some h
  rw [hasTruth_and' hvs] at h
  have : ∃ v ∈ vs, truthy v = false := by
    by_contra hne
    push Not at hne
    have : vs.all truthy = true := List.all_eq_true.mpr (fun v hv => by simpa using hne v hv)
    rw [this] at h; cases h
  obtain ⟨v, hv, hvt⟩ := this
  obtain ⟨e, he, hev⟩ := (evalList_mem hvs).2 v hv
  exact ⟨e, he, (truth_of_b01 hev (hb e he v hev) false).mpr hvt⟩

theorem or_true_intro {ρ : String → K} {es : List (Exp (Ext K))} (h : ∃ e ∈ es, HasTruth e true ρ)
    (hd : ∃ v, eval ρ (.or es) = some v) : HasTruth (.or es) true ρ := by
  obtain ⟨v0, hv0⟩ := hd
  obtain ⟨vs, hvs, _⟩ := eval_or_some hv0
  rw [hasTruth_or' hvs, List.any_eq_true]
  obtain ⟨e, he, het⟩ := h
  obtain ⟨v, hv, hev⟩ := (evalList_mem hvs).1 e he
  rw [hasTruth_true_iff.mp het] at hev
  cases hev
  exact ⟨1, hv, by simp [truthy]⟩

theorem or_true_elim {ρ : String → K} {es : List (Exp (Ext K))} (h : HasTruth (.or es) true ρ)
    (hb : ∀ e ∈ es, ∀ v, eval ρ e = some v → B01 v) : ∃ e ∈ es, HasTruth e true ρ := by
  obtain ⟨vs, hvs, _⟩ := eval_or_some h
  rw [hasTruth_or' hvs, List.any_eq_true] at h
  obtain ⟨v, hv, hvt⟩ := h
  obtain ⟨e, he, hev⟩ := (evalList_mem hvs).2 v hv
  exact ⟨e, he, (truth_of_b01 hev (hb e he v hev) true).mpr hvt⟩

theorem or_false_intro {ρ : String → K} {es : List (Exp (Ext K))} (h : ∀ e ∈ es, HasTruth e false ρ) :
    HasTruth (.or es) false ρ := by
  obtain ⟨vs, hvs⟩ := evalList_of_defined (fun e he => ⟨0, hasTruth_false_iff.mp (h e he)⟩)
  rw [hasTruth_or' hvs, Bool.eq_false_iff]
  intro hany
  obtain ⟨v, hv, hvt⟩ := List.any_eq_true.mp hany
  obtain ⟨e, he, hev⟩ := (evalList_mem hvs).2 v hv
  rw [hasTruth_false_iff.mp (h e he)] at hev
  cases hev; simp [truthy] at hvt

theorem or_false_elim {ρ : String → K} {es : List (Exp (Ext K))} (h : HasTruth (.or es) false ρ)
    (hb : ∀ e ∈ es, ∀ v, eval ρ e = some v → B01 v) : ∀ e ∈ es, HasTruth e false ρ := by
  obtain ⟨vs, hvs, _⟩ := eval_or_some h
  rw [hasTruth_or' hvs] at h
  intro e he
  obtain ⟨v, hv, hev⟩ := (evalList_mem hvs).1 e he
  refine (truth_of_b01 hev (hb e he v hev) false).mpr ?_
  by_contra hne
  have hvt : truthy v = true := by simpa using hne
  have : vs.any truthy = true := List.any_eq_true.mpr ⟨v, hv, hvt⟩
  rw [this] at h; cases h

/-! ### a call of `linExp` as a step between loop states -/

theorem spec_states {d0 : List (DomVar (Ext K))} {s s1 : St (Ext K)} {e : Exp (Ext K)} {req : Req} {c : Ctx (Ext K)}
    (hinv : LoopInvD d0 s) (A : Spec (SrcD d0) e req s c s1) :
    LoopInvD d0 s1 ∧ (∀ ρ : String → K, Sat ρ s1 → Sat ρ s) ∧
    (∀ ρ ρ' : String → K, Sat ρ s → (∀ x, inScope s.domain x → ρ' x = ρ x) → DomSat ρ' s1.domain → QSat ρ' s1 →
      Sat ρ' s1) := by
  have hext : ∃ decls, s1.domain = d0 ++ decls := by
    obtain ⟨d1, hd1⟩ := hinv.ext0
    obtain ⟨d2, hd2⟩ := A.dom
    exact ⟨d1 ++ d2, by rw [hd2, hd1, List.append_assoc]⟩
  refine ⟨⟨A.inv, hext, ?_⟩, ?_, ?_⟩
  · intro r hr
    rw [A.rows] at hr
    exact ⟨(hinv.rowsOK r hr).1, fun x hx => A.scopeMono ((hinv.rowsOK r hr).2 x hx)⟩
  · intro ρ hs
    exact ⟨A.keepsDom hs.dom, A.keepsQ hs.q, fun r hr => hs.rows r (by rw [A.rows]; exact hr)⟩
  · intro ρ ρ' hs hag hd hq
    refine ⟨hd, hq, ?_⟩
    intro r hr
    rw [A.rows] at hr
    rw [rowTrue_congr r (fun x hx => hag x ((hinv.rowsOK r hr).2 x hx))]
    exact hs.rows r hr

/-- `linearize_binary_operand`: an exact 0/1 affine copy of the operand. -/
theorem binOperand_step {d0 : List (DomVar (Ext K))} {s s1 : St (Ext K)} {e a : Exp (Ext K)}
    (hinv : LoopInvD d0 s) (hsc : ∀ x ∈ varsOf e, inScope s.domain x) (hfin : FinE e)
    (h : linBinaryOperand e s = .ok (a, s1)) :
    LoopInvD d0 s1 ∧ (∃ decls, s1.domain = s.domain ++ decls) ∧ BExp s1.domain a ∧
    (∀ ρ : String → K, Sat ρ s1 → Sat ρ s) ∧
    (∀ ρ : String → K, Sat ρ s1 → ∀ v, eval ρ e = some v → ev ρ a = v) ∧
    (∀ ρ : String → K, Sat ρ s → ∀ v, eval ρ e = some v →
      ∃ ρ' : String → K, (∀ x, inScope s.domain x → ρ' x = ρ x) ∧ Sat ρ' s1 ∧ ev ρ' a = v) := by
  obtain ⟨c, hc1, hc2, hc3⟩ := (linBinaryOperand_ok _ _ _).mp h
  simp only at hc1 hc2 hc3
  subst hc3
  have A := lin_spec_all (Src := SrcD d0) e .exact s c s1 ⟨hinv.st, hsc, hfin⟩ hc1
  obtain ⟨hinv1, hback, hfwd⟩ := spec_states hinv A
  have hbc := binCtx_of_isBinaryCtx hc2
  refine ⟨hinv1, A.dom, BExp.ofBinCtx A.inv.nodup hbc A.cnames, hback, ?_, ?_⟩
  · intro ρ hs v hv
    rw [ev_ctxToExp A.cok]
    have := A.sound ρ hs.dom hs.q v hv
    simpa [rel] using this
  · intro ρ hs v hv
    obtain ⟨ρ', hag, hd', hq', hval⟩ := A.complete ρ hs.dom hs.q v hv
    exact ⟨ρ', hag, hfwd ρ ρ' hs hag hd' hq', by rw [ev_ctxToExp A.cok]; exact hval⟩

/-! ### finishing a witness: a fresh Boolean below affine upper bounds -/

theorem witness_finish {d0 : List (DomVar (Ext K))} {s0 s1 s2 s3 : St (Ext K)} {w : String}
    {ubs : List (Exp (Ext K))} {e : Exp (Ext K)} {t : Bool}
    (hinv1 : LoopInvD d0 s1) (hf : freshWitness s1 = .ok (w, s2)) (hubs : ∀ u ∈ ubs, AE s1.domain u)
    (hseq : seqOK (fun u => emitConstraint (.var w) .le u "") ubs s2 s3)
    (hdom : ∃ decls, s1.domain = s0.domain ++ decls)
    (hback : ∀ ρ : String → K, Sat ρ s1 → Sat ρ s0)
    (hS : ∀ ρ : String → K, Sat ρ s1 → (∀ u ∈ ubs, 1 ≤ ev ρ u) → HasTruth e t ρ)
    (hN : ∀ ρ : String → K, Sat ρ s1 → ∀ u ∈ ubs, 0 ≤ ev ρ u)
    (hC : ∀ ρ : String → K, Sat ρ s0 → ∃ ρ' : String → K, (∀ y, inScope s0.domain y → ρ' y = ρ y) ∧ Sat ρ' s1 ∧
      (HasTruth e t ρ → ∀ u ∈ ubs, 1 ≤ ev ρ' u))
    (hbin : BinOn s0 e) : DirOK d0 s0 s3 e t (.var w) := by
  obtain ⟨hinv3, hd3, _, hfresh, hsound3, hcomp3⟩ :=
    witness_rows hinv1 hf (fun u hu => ⟨(hubs u hu).ag, (hubs u hu).defd⟩) hseq
  have hdom3 : ∃ decls, s3.domain = s1.domain ++ decls := ⟨_, hd3⟩
  have hw3 : inScope s3.domain w := by
    rw [hd3]
    exact ⟨({ name := w, ty := .bool, usage := 1 } : DomVar (Ext K)), List.mem_append_right _ (by simp), rfl, by simp⟩
  refine
  { inv := hinv3, dom := dom_trans hdom hdom3, bx := ?_, back := fun ρ hs => hback ρ (hsound3 ρ hs).1
    sound := ?_, complete := ?_, bin := hbin }
  · refine ⟨AG_var.mpr hw3, definedE_of_eval (fun ρ => ρ w) (fun ρ => eval_var ρ w), ?_⟩
    intro ρ hd v hv
    rw [eval_var] at hv; cases hv
    rw [hd3] at hd
    have := (domSat_append.mp hd).2 ({ name := w, ty := .bool, usage := 1 } : DomVar (Ext K)) (by simp) (by simp)
    simp [inDomain] at this
    exact this
  · intro ρ hs hw1
    obtain ⟨hs1, _, hle⟩ := hsound3 ρ hs
    rw [ev_var] at hw1
    refine hS ρ hs1 (fun u hu => ?_)
    have := hle u hu _ (eval_ev (hubs u hu).defd ρ)
    rw [hw1] at this; exact this
  · intro ρ hs
    obtain ⟨ρ', hag, hs1, hub⟩ := hC ρ hs
    by_cases ht : HasTruth e t ρ
    · refine ⟨Function.update ρ' w 1, ?_, hcomp3 ρ' hs1 1 (Or.inr rfl) ?_, fun _ => by simp [ev_var]⟩
      · intro y hy
        have : y ≠ w := fun h => not_inScope_of_fresh hfresh (h ▸ scope_of_dom hdom hy)
        simp [Function.update, this, hag y hy]
      · intro u hu a ha
        rw [← ev_eq ha]; exact hub ht u hu
    · refine ⟨Function.update ρ' w 0, ?_, hcomp3 ρ' hs1 0 (Or.inl rfl) ?_, fun h => absurd h ht⟩
      · intro y hy
        have : y ≠ w := fun h => not_inScope_of_fresh hfresh (h ▸ scope_of_dom hdom hy)
        simp [Function.update, this, hag y hy]
      · intro u hu a ha
        rw [← ev_eq ha]; exact hN ρ' hs1 u hu

/-! ### witnesses that are affine values -/

theorem dir_affine {d0 : List (DomVar (Ext K))} {s : St (Ext K)} {e : Exp (Ext K)} {c : Ctx (Ext K)} (t : Bool)
    (hinv : LoopInvD d0 s) (hsc : ∀ x ∈ varsOf e, inScope s.domain x)
    (hc : binaryAffineValue s.domain e = some c) :
    DirOK d0 s s e t (ctxToExp (if t = true then c else negateCtx c)) := by
  obtain ⟨hbe, hbc, hnames, hval⟩ := bav_bexp hinv.st.nodup hc hsc
  obtain ⟨hbn, hnn, hvn⟩ := negateCtx_spec hbc
  have hbx : BExp s.domain (ctxToExp (if t = true then c else negateCtx c)) := by
    cases t
    · simp only [Bool.false_eq_true, if_false]
      exact BExp.ofBinCtx hinv.st.nodup hbn (fun x hx => hnames x (by rw [← hnn]; exact hx))
    · simpa using hbe
  have hev : ∀ ρ : String → K, ev ρ (ctxToExp (if t = true then c else negateCtx c)) =
      if t = true then ctxVal ρ c else 1 - ctxVal ρ c := by
    intro ρ
    cases t
    · simp only [Bool.false_eq_true, if_false]; rw [ev_ctxToExp hbn.ok, hvn]
    · simp only [if_true]; rw [ev_ctxToExp hbc.ok]
  have key : ∀ ρ : String → K, Sat ρ s →
      (ev ρ (ctxToExp (if t = true then c else negateCtx c)) = 1 ↔ HasTruth e t ρ) := by
    intro ρ hs
    obtain ⟨h1, h2⟩ := hval ρ hs.dom
    rw [hev, truth_of_b01 h1 h2]
    rcases h2 with h0 | h0 <;> cases t <;> simp [h0, truthy]
  exact
  { inv := hinv, dom := ⟨[], by simp⟩, bx := hbx, back := fun _ h => h
    sound := fun ρ hs h => (key ρ hs).mp h
    complete := fun ρ hs => ⟨ρ, fun _ _ => rfl, hs, (key ρ hs).mpr⟩
    bin := fun ρ hs v hv => by
      obtain ⟨h1, h2⟩ := hval ρ hs.dom
      rw [h1] at hv; cases hv; exact h2 }

end Rooc.LinP
