/-
C08 helpers — a small partial-correctness calculus for the linearizer's state monad
`M α = StateT (St α) (Except LinErr)`: `SpAt R s x post` says "if `x` started in `s` succeeds with
value `a` and final state `s'`, then `R s s'` and `post a`".  `R` is any reflexive-transitive relation on
states; every invariant of C08 (domain only grows by fresh auxiliaries, names stay unique, queue and rows
stay well-formed) is one such `R`, and each rule below is proved once for all of them.
-/
import Rooc.Linearize
import Lean

namespace Rooc
namespace Lin
set_option linter.unusedSectionVars false
variable {α : Type} [Arith α] {β γ : Type}

structure IsPre (R : St α → St α → Prop) : Prop where
  refl : ∀ s, R s s
  trans : ∀ {a b c}, R a b → R b c → R a c

/-- what an error raised in state `s'` must satisfy: a `MissingFiniteBounds` error carries exactly
`varsWithoutFiniteBounds e` (at the bounds map of that state) of the expression `e` being lowered. -/
def ErrOK (s' : St α) : LinErr → Prop
  | .missingFiniteBounds vs => ∃ e : Exp α, vs = varsWithoutFiniteBounds e s'.bounds
  | _ => True

/-- partial correctness of `x` started in a state `s` that satisfies the invariant `I`: on success the states are
related by `R`, the final state satisfies `I` and the value satisfies `post`; on failure the error was raised
in a state related to `s` by `R` and satisfies `ErrOK`. -/
def SpAt (R : St α → St α → Prop) (I : St α → Prop) (s : St α) (x : M α β) (post : β → Prop) : Prop :=
  I s → (∀ a s', x s = .ok (a, s') → R s s' ∧ I s' ∧ post a) ∧
    (∀ err, x s = .error err → ∃ s', R s s' ∧ ErrOK s' err)

theorem bind_run (x : M α β) (f : β → M α γ) (s : St α) :
    (x >>= f) s = match x s with
      | .ok (a, s1) => f a s1
      | .error e => .error e := by
  show (StateT.bind x f) s = _
  unfold StateT.bind
  cases h : x s with
  | error e => rfl
  | ok p => rfl

namespace SpAt
variable {R : St α → St α → Prop} {I : St α → Prop}

/-- the invariant of the start state may be used. -/
theorem assume {s : St α} {x : M α β} {post : β → Prop} (h : I s → SpAt R I s x post) : SpAt R I s x post :=
  fun hI => h hI hI

theorem pure (hR : IsPre R) {s : St α} {a : β} {post : β → Prop} (h : post a) :
    SpAt R I s (pure a : M α β) post := by
  intro hI
  refine ⟨?_, fun err he => by cases he⟩
  intro a' s' he
  have : (Except.ok (a, s) : Except LinErr (β × St α)) = .ok (a', s') := he
  injection this with h1
  injection h1 with ha hs
  subst ha; subst hs
  exact ⟨hR.refl _, hI, h⟩

theorem fail (hR : IsPre R) {s : St α} {e : LinErr} {post : β → Prop} (h : ErrOK s e) :
    SpAt R I s (fail e : M α β) post := by
  intro _
  refine ⟨fun a s' he => (by cases he), ?_⟩
  intro err he
  have : (Except.error e : Except LinErr (β × St α)) = .error err := he
  injection this with h1
  subst h1
  exact ⟨s, hR.refl _, h⟩

theorem bind (hR : IsPre R) {s : St α} {x : M α β} {f : β → M α γ} {mid : β → Prop} {post : γ → Prop}
    (hx : SpAt R I s x mid) (hf : ∀ a, mid a → ∀ s1, SpAt R I s1 (f a) post) :
    SpAt R I s (x >>= f) post := by
  intro hI
  have hx := hx hI
  constructor
  · intro c s' he
    rw [bind_run] at he
    cases hxs : x s with
    | error e => rw [hxs] at he; cases he
    | ok p =>
      obtain ⟨a, s1⟩ := p
      rw [hxs] at he
      obtain ⟨h1, hI1, hm⟩ := hx.1 a s1 hxs
      obtain ⟨h2, hI2, hp⟩ := (hf a hm s1 hI1).1 c s' he
      exact ⟨hR.trans h1 h2, hI2, hp⟩
  · intro err he
    rw [bind_run] at he
    cases hxs : x s with
    | error e =>
      rw [hxs] at he
      injection he with he
      subst he
      exact hx.2 e hxs
    | ok p =>
      obtain ⟨a, s1⟩ := p
      rw [hxs] at he
      obtain ⟨h1, hI1, hm⟩ := hx.1 a s1 hxs
      obtain ⟨s', h2, hp⟩ := (hf a hm s1 hI1).2 err he
      exact ⟨s', hR.trans h1 h2, hp⟩

/-- reading the state: the rest of the program runs in the same state, whose invariant becomes available. -/
theorem get_bind {s : St α} {f : St α → M α γ} {post : γ → Prop}
    (h : I s → SpAt R I s (f s) post) : SpAt R I s (get >>= f) post :=
  fun hI => ⟨fun c s' he => (h hI hI).1 c s' he, fun err he => (h hI hI).2 err he⟩

theorem set_bind (hR : IsPre R) {s s2 : St α} {f : PUnit → M α γ} {post : γ → Prop}
    (h1 : R s s2) (hI2 : I s → I s2) (h : SpAt R I s2 (f PUnit.unit) post) : SpAt R I s (set s2 >>= f) post := by
  intro hI
  have h := h (hI2 hI)
  constructor
  · intro c s' he
    obtain ⟨h2, hI', hp⟩ := h.1 c s' he
    exact ⟨hR.trans h1 h2, hI', hp⟩
  · intro err he
    obtain ⟨s', h2, hp⟩ := h.2 err he
    exact ⟨s', hR.trans h1 h2, hp⟩

theorem set {s s2 : St α} {post : PUnit → Prop}
    (h1 : R s s2) (hI2 : I s → I s2) (hp : post PUnit.unit) : SpAt R I s (set s2 : M α PUnit) post := by
  intro hI
  refine ⟨?_, fun err he => by cases he⟩
  intro c s' he
  have : (Except.ok (PUnit.unit, s2) : Except LinErr (PUnit × St α)) = .ok (c, s') := he
  injection this with h
  injection h with _ hs
  subst hs
  exact ⟨h1, hI2 hI, hp⟩

theorem modify {s : St α} {g : St α → St α} {post : PUnit → Prop}
    (h1 : R s (g s)) (hI2 : I s → I (g s)) (hp : post PUnit.unit) : SpAt R I s (modify g : M α PUnit) post := by
  intro hI
  refine ⟨?_, fun err he => by cases he⟩
  intro c s' he
  have : (Except.ok (PUnit.unit, g s) : Except LinErr (PUnit × St α)) = .ok (c, s') := he
  injection this with h
  injection h with _ hs
  subst hs
  exact ⟨h1, hI2 hI, hp⟩

theorem weaken {s : St α} {x : M α β} {p q : β → Prop} (h : SpAt R I s x p) (hpq : ∀ a, p a → q a) :
    SpAt R I s x q :=
  fun hI => ⟨fun a s' he => ⟨((h hI).1 a s' he).1, ((h hI).1 a s' he).2.1, hpq a ((h hI).1 a s' he).2.2⟩, (h hI).2⟩

/-- `for x in xs do body` (any loop whose body preserves `R` and `I`). -/
theorem forIn (hR : IsPre R) {δ : Type} (xs : List δ) (init : PUnit) (body : δ → PUnit → M α (ForInStep PUnit))
    (h : ∀ x ∈ xs, ∀ b s1, SpAt R I s1 (body x b) (fun _ => True)) :
    ∀ s, SpAt R I s (forIn xs init body) (fun _ => True) := by
  induction xs generalizing init with
  | nil =>
    intro s
    rw [List.forIn_nil]
    exact SpAt.pure hR trivial
  | cons x xs ih =>
    intro s
    rw [List.forIn_cons]
    refine SpAt.bind hR (h x (by simp) init s) ?_
    intro r _ s1
    cases r with
    | done b => exact SpAt.pure hR trivial
    | yield b => exact ih b (fun y hy => h y (by simp [hy])) s1

end SpAt
/-! ### a goal classifier for the proof automation (which rule applies to the head of the program) -/

open Lean Elab Tactic Meta in
/-- classify the head of the program in a goal `SpAt R s prog post`. -/
def spKind (t : Expr) : MetaM String := do
  let t := (← instantiateMVars t).cleanupAnnotations
  unless t.isAppOf ``Rooc.Lin.SpAt do return "none"
  let args := t.getAppArgs
  if args.size < 4 then return "none"
  let prog := (args[args.size - 2]!).cleanupAnnotations
  if prog.isLet then return "let"
  if prog.isHeadBetaTarget then return "beta"
  let fn := prog.getAppFn
  match fn.constName? with
  | some ``Pure.pure => return "pure"
  | some ``Rooc.Lin.fail => return "fail"
  | some ``ite => return "ite"
  | some ``dite => return "ite"
  | some ``MonadState.set => return "set1"
  | some ``MonadStateOf.set => return "set1"
  | some ``Bind.bind =>
    let bargs := prog.getAppArgs
    if bargs.size < 6 then return "bind"
    let x := bargs[4]!
    match x.getAppFn.constName? with
    | some ``MonadState.get => return "get"
    | some ``MonadStateOf.get => return "get"
    | some ``getThe => return "get"
    | some ``MonadState.set => return "set"
    | some ``MonadStateOf.set => return "set"
    | _ => return "bind"
  | some n =>
    if (← isMatcher n) then return "match" else return "call"
  | none => return "call"

open Lean Elab Tactic Meta in
/-- `apply` the first local hypothesis whose conclusion is an `SpAt` statement that fits (induction
hypotheses and specs of callees); its premises become new goals. -/
elab "apply_sp_hyp" : tactic => do
  let g ← getMainGoal
  g.withContext do
    let lctx ← getLCtx
    for d in lctx do
      if d.isImplementationDetail then continue
      let ty ← instantiateMVars d.type
      unless ty.getForallBody.isAppOf ``Rooc.Lin.SpAt do continue
      let saved ← saveState
      try
        let gs ← g.apply d.toExpr
        replaceMainGoal gs
        return
      catch _ => saved.restore
    throwError "apply_sp_hyp: no hypothesis applies"

end Lin
end Rooc
