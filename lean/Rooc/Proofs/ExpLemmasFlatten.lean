/-
Helper lemmas for C10: `Exp.flattenF` preserves `Sem.eval` exactly (as an `Option`), and a
polynomial interpretation that bounds the fuel it needs.
-/
import Rooc.Proofs.ExpLemmas
namespace Rooc
open Rooc.Exp Rooc.Sem

section
variable {K : Type} [Field K] [LinearOrder K] [IsStrictOrderedRing K] [FloorRing K]

theorem eval_bin (ρ : String → K) (op : BinOp) (a b : Exp (Ext K)) :
    eval ρ (.bin op a b) = (eval ρ a).bind fun x => (eval ρ b).bind fun y => binVal op x y := by
  simp [eval]

theorem eval_neg (ρ : String → K) (e : Exp (Ext K)) :
    eval ρ (.un .neg e) = (eval ρ e).map fun x => -x := by
  simp [eval]; rfl

theorem eval_distrib_r (ρ : String → K) (iop : BinOp) (h : isAddSub iop = true) (l r c : Exp (Ext K)) :
    eval ρ (.bin iop (.bin .mul l c) (.bin .mul r c)) = eval ρ (.bin .mul (.bin iop l r) c) := by
  simp only [eval_bin]
  cases eval ρ l <;> cases eval ρ r <;> cases eval ρ c <;> cases iop <;>
    simp_all [binVal, isAddSub] <;> ring

theorem eval_distrib_l (ρ : String → K) (iop : BinOp) (h : isAddSub iop = true) (c a b : Exp (Ext K)) :
    eval ρ (.bin iop (.bin .mul c a) (.bin .mul c b)) = eval ρ (.bin .mul c (.bin iop a b)) := by
  simp only [eval_bin]
  cases eval ρ a <;> cases eval ρ b <;> cases eval ρ c <;> cases iop <;>
    simp_all [binVal, isAddSub] <;> ring

theorem eval_distrib_div (ρ : String → K) (iop : BinOp) (h : isAddSub iop = true) (l r c : Exp (Ext K)) :
    eval ρ (.bin iop (.bin .div l c) (.bin .div r c)) = eval ρ (.bin .div (.bin iop l r) c) := by
  simp only [eval_bin]
  cases eval ρ l <;> cases eval ρ r <;> cases hc : eval ρ c <;> cases iop <;>
    simp_all [binVal, isAddSub, kzero] <;> split <;> simp_all <;> ring

theorem eval_neg_mul_l (ρ : String → K) (l c : Exp (Ext K)) :
    eval ρ (.un .neg (.bin .mul l c)) = eval ρ (.bin .mul (.un .neg l) c) := by
  simp only [eval_bin, eval_neg]
  cases eval ρ l <;> cases eval ρ c <;> simp [binVal]

theorem eval_neg_mul_r (ρ : String → K) (c r : Exp (Ext K)) :
    eval ρ (.un .neg (.bin .mul c r)) = eval ρ (.bin .mul c (.un .neg r)) := by
  simp only [eval_bin, eval_neg]
  cases eval ρ r <;> cases eval ρ c <;> simp [binVal]

theorem eval_bin_congr (ρ : String → K) (op : BinOp) {a a' b b' : Exp (Ext K)}
    (ha : eval ρ a' = eval ρ a) (hb : eval ρ b' = eval ρ b) :
    eval ρ (.bin op a' b') = eval ρ (.bin op a b) := by
  simp only [eval_bin, ha, hb]

theorem eval_neg_congr (ρ : String → K) {a a' : Exp (Ext K)}
    (ha : eval ρ a' = eval ρ a) : eval ρ (.un .neg a') = eval ρ (.un .neg a) := by
  simp only [eval_neg, ha]

theorem option_bind2_some {α β γ : Type} {oa : Option α} {ob : Option β} {f : α → β → γ} {c : γ}
    (h : (do let x ← oa; let y ← ob; pure (f x y)) = some c) :
    ∃ a b, oa = some a ∧ ob = some b ∧ c = f a b := by
  cases oa <;> cases ob <;> simp_all

theorem flattenMulRest_eval (ρ : String → K) (n : Nat)
    (ih : ∀ e e', flattenF n e = some e' → eval ρ e' = eval ρ e) (l r : Exp (Ext K)) :
    ∀ e', flattenF.flattenMulRest n l r = some e' → eval ρ e' = eval ρ (.bin .mul l r) := by
  intro e' h
  unfold flattenF.flattenMulRest at h
  split at h
  · split at h
    · rw [ih _ _ h, eval_distrib_l _ _ ‹_›]
    · split at h
      · simp only [Option.map_eq_some_iff] at h
        obtain ⟨x, hx, rfl⟩ := h
        rw [← eval_neg_mul_l]; exact eval_neg_congr ρ (ih _ _ hx)
      · obtain ⟨a, b, ha, hb, rfl⟩ := option_bind2_some h
        exact eval_bin_congr ρ _ (ih _ _ ha) (ih _ _ hb)
  · simp only [Option.map_eq_some_iff] at h
    obtain ⟨x, hx, rfl⟩ := h
    rw [← eval_neg_mul_l]; exact eval_neg_congr ρ (ih _ _ hx)
  · simp only [Option.map_eq_some_iff] at h
    obtain ⟨x, hx, rfl⟩ := h
    rw [← eval_neg_mul_r]; exact eval_neg_congr ρ (ih _ _ hx)
  · obtain ⟨a, b, ha, hb, rfl⟩ := option_bind2_some h
    exact eval_bin_congr ρ _ (ih _ _ ha) (ih _ _ hb)

/-- `flattenF` preserves the denotation exactly: same definedness, same value. -/
theorem flattenF_eval (ρ : String → K) (n : Nat) :
    ∀ (e e' : Exp (Ext K)), flattenF n e = some e' → eval ρ e' = eval ρ e := by
  induction n with
  | zero => intro e e' h; simp [flattenF] at h
  | succ n ih =>
    intro e e' h
    unfold flattenF at h
    split at h
    all_goals try (have hn := Nat.succ.inj ‹n + 1 = _›; subst hn)
    · simp at h
    · split at h
      · rw [ih _ _ h, eval_distrib_r _ _ ‹_›]
      · exact flattenMulRest_eval ρ n ih _ _ _ h
    · exact flattenMulRest_eval ρ n ih _ _ _ h
    · split at h
      · obtain ⟨a, b, ha, hb, rfl⟩ := option_bind2_some h
        rw [← eval_distrib_div _ _ ‹_›]
        exact eval_bin_congr ρ _ (ih _ _ ha) (ih _ _ hb)
      · obtain ⟨a, b, ha, hb, rfl⟩ := option_bind2_some h
        exact eval_bin_congr ρ _ (ih _ _ ha) (ih _ _ hb)
    · obtain ⟨a, b, ha, hb, rfl⟩ := option_bind2_some h
      exact eval_bin_congr ρ _ (ih _ _ ha) (ih _ _ hb)
    · simp at h; subst h; rfl
end

/-! ### fuel: a polynomial interpretation that strictly decreases along every recursive call -/
namespace Exp
variable {α : Type}

/-- products for `*` and `/`, sum+1 for the other binary nodes, +1 for negation, 2 for leaves. -/
def fsize : Exp α → Nat
  | .bin .mul a b => fsize a * fsize b
  | .bin .div a b => fsize a * fsize b
  | .bin _ a b => fsize a + fsize b + 1
  | .un .neg e => fsize e + 1
  | _ => 2

theorem two_le_fsize (e : Exp α) : 2 ≤ fsize e := by
  induction e using Exp.ind with
  | bin op a b iha ihb =>
    cases op <;> simp only [fsize] <;> first | omega | nlinarith
  | un op e ih => cases op <;> simp only [fsize] <;> omega
  | _ => simp [fsize]

theorem fsize_addsub (iop : BinOp) (h : isAddSub iop = true) (a b : Exp α) :
    fsize (.bin iop a b) = fsize a + fsize b + 1 := by
  cases iop <;> simp_all [isAddSub, fsize]

theorem fs_left {a b n : Nat} (ha : 2 ≤ a) (hb : 2 ≤ b) (h : a * b ≤ n + 1) : a ≤ n := by nlinarith
theorem fs_right {a b n : Nat} (ha : 2 ≤ a) (hb : 2 ≤ b) (h : a * b ≤ n + 1) : b ≤ n := by nlinarith
theorem fs_distrib_r {l r c n : Nat} (hc : 2 ≤ c) (h : (l + r + 1) * c ≤ n + 1) :
    l * c + r * c + 1 ≤ n := by nlinarith
theorem fs_distrib_l {l r c n : Nat} (hc : 2 ≤ c) (h : c * (l + r + 1) ≤ n + 1) :
    c * l + c * r + 1 ≤ n := by nlinarith
theorem fs_div_l {l r c n : Nat} (hc : 2 ≤ c) (h : (l + r + 1) * c ≤ n + 1) : l * c ≤ n := by nlinarith
theorem fs_div_r {l r c n : Nat} (hc : 2 ≤ c) (h : (l + r + 1) * c ≤ n + 1) : r * c ≤ n := by nlinarith
theorem fs_neg_l {l c n : Nat} (hc : 2 ≤ c) (h : (l + 1) * c ≤ n + 1) : l * c ≤ n := by nlinarith
theorem fs_neg_r {r c n : Nat} (hc : 2 ≤ c) (h : c * (r + 1) ≤ n + 1) : c * r ≤ n := by nlinarith

theorem isSome_bind2 {β γ δ : Type} {oa : Option β} {ob : Option γ} {f : β → γ → δ}
    (ha : oa.isSome) (hb : ob.isSome) :
    (do let x ← oa; let y ← ob; pure (f x y) : Option δ).isSome := by
  cases oa <;> cases ob <;> simp_all

theorem flattenMulRest_isSome (n : Nat)
    (ih : ∀ e : Exp α, fsize e ≤ n → (flattenF n e).isSome) (l r : Exp α)
    (h : fsize l * fsize r ≤ n + 1) : (flattenF.flattenMulRest n l r).isSome := by
  have hl := two_le_fsize l
  have hr := two_le_fsize r
  unfold flattenF.flattenMulRest
  split
  · rename_i c iop a b
    split
    · apply ih
      rw [fsize_addsub _ ‹_›] at h
      rw [fsize_addsub _ ‹_›]
      simp only [fsize]
      exact fs_distrib_l hl h
    · split
      · rename_i l'
        simp only [Option.isSome_map]
        apply ih
        simp only [fsize] at h hl ⊢
        exact fs_neg_l hr h
      · exact isSome_bind2 (ih _ (fs_left hl hr h)) (ih _ (fs_right hl hr h))
  · simp only [Option.isSome_map]
    apply ih
    simp only [fsize] at h hl ⊢
    exact fs_neg_l hr h
  · simp only [Option.isSome_map]
    apply ih
    simp only [fsize] at h hr ⊢
    exact fs_neg_r hl h
  · exact isSome_bind2 (ih _ (fs_left hl hr h)) (ih _ (fs_right hl hr h))

/-- fuel `fsize e` is enough. -/
theorem flattenF_isSome_of_fsize_le (n : Nat) :
    ∀ e : Exp α, fsize e ≤ n → (flattenF n e).isSome := by
  induction n with
  | zero => intro e h; have := two_le_fsize e; omega
  | succ n ih =>
    intro e h
    unfold flattenF
    split
    all_goals try (have hn := Nat.succ.inj ‹n + 1 = _›; subst hn; clear ‹n + 1 = _›)
    · omega
    · rename_i iop l r c
      have hc := two_le_fsize c
      split
      · apply ih
        simp only [fsize] at h
        rw [fsize_addsub _ ‹_›] at h
        rw [fsize_addsub _ ‹_›]
        simp only [fsize]
        exact fs_distrib_r hc h
      · exact flattenMulRest_isSome n ih _ _ (by simpa only [fsize] using h)
    · exact flattenMulRest_isSome n ih _ _ (by simpa only [fsize] using h)
    · rename_i iop l r c
      have hc := two_le_fsize c
      have hlr := two_le_fsize (.bin iop l r)
      simp only [fsize] at h
      split
      · rw [fsize_addsub _ ‹_›] at h
        refine isSome_bind2 (ih _ ?_) (ih _ ?_)
        · simp only [fsize]; exact fs_div_l hc h
        · simp only [fsize]; exact fs_div_r hc h
      · exact isSome_bind2 (ih _ (fs_left hlr hc h)) (ih _ (fs_right hlr hc h))
    · rename_i op l r _ _ _
      have hl := two_le_fsize l
      have hr := two_le_fsize r
      refine isSome_bind2 (ih _ ?_) (ih _ ?_) <;>
        (cases op <;> simp only [fsize] at h <;> first | omega | nlinarith)
    · simp
end Exp
end Rooc
