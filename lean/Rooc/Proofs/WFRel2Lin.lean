/-
C08 helpers — the lowering is invariant under a permutation of the domain list and a change of layout of the
bounds map: relational pass over the primitives and the `linExp` mutual block.
-/
import Rooc.Proofs.WFRel2

set_option linter.unusedSectionVars false
set_option linter.unusedVariables false
set_option linter.unusedTactic false
set_option linter.unreachableTactic false

namespace Rooc
namespace Lin
open Arith
variable {α : Type} [Arith α] {β γ : Type}

/-! ### primitives -/

/-- `insert_variable` on the bounds map, as a lookup. -/
theorem lookupB_ins (b : BoundsMap α) (v : String) (x : Bounds α) (y : String) :
    lookupB (if b.any (fun q => q.1 == v) then b.map fun (q : String × Bounds α) => if q.1 == v then (q.1, x) else (q.1, q.2)
      else b ++ [(v, x)]) y = if y = v then some x else lookupB b y := by
  by_cases hy : y = v
  · subst hy
    rw [if_pos rfl]
    split
    · rename_i h; exact lookupB_replace_self _ _ _ h
    · rename_i h; exact lookupB_append_self _ _ _ (Bool.eq_false_iff.mpr h)
  · rw [if_neg hy]
    split
    · exact lookupB_replace_ne _ _ _ _ hy
    · exact lookupB_append_ne _ _ _ _ hy

theorem declareVariable2 (v : String) (ty : VarType α) (s s' : St α) :
    Eq2 s s' (declareVariable v ty) (declareVariable v ty) := by
  unfold declareVariable
  apply Eq2.get2
  intro hS
  rw [declared_perm hS.perm v]
  apply Eq2.ite2
  · intro _; exact Eq2.fail2 _
  · intro hnot
    apply Eq2.set1
    have hfresh : ∀ x ∈ domNames s, x ≠ v := by
      intro x hx hxv
      apply hnot
      rw [← declared_perm hS.perm v]
      simp only [domNames, List.mem_map] at hx
      obtain ⟨d, hd, hdn⟩ := hx
      simp only [List.any_eq_true, beq_iff_eq]
      exact ⟨d, hd, hdn.trans hxv⟩
    refine ⟨hS.queue, hS.rows, hS.cMin, hS.cMax, hS.cAbs, hS.cAnd, hS.cOr, hS.cXor, hS.cImp, hS.cIff, hS.cWit,
      List.Perm.append_right _ hS.perm, ?_, ?_⟩
    · simp only [domNames, List.map_append, List.map_cons, List.map_nil]
      refine List.nodup_append.mpr ⟨hS.nodup, by simp, ?_⟩
      intro a ha b hb
      simp only [List.mem_singleton] at hb
      subst hb
      exact hfresh a ha
    · intro x
      dsimp only
      have h1 := lookupB_ins s.bounds v (Bounds.ofVarType ty) x
      have h2 := lookupB_ins s'.bounds v (Bounds.ofVarType ty) x
      rw [h1, h2, hS.bnd x]

theorem addConstraint2 (c : Constraint α) (s s' : St α) : Eq2 s s' (addConstraint c) (addConstraint c) := by
  unfold addConstraint
  apply Eq2.modify2
  intro hS
  exact ⟨by simp [hS.queue], hS.rows, hS.cMin, hS.cMax, hS.cAbs, hS.cAnd, hS.cOr, hS.cXor, hS.cImp, hS.cIff, hS.cWit,
    hS.perm, hS.nodup, hS.bnd⟩

/-! ### automation -/

/-- rewrite every read of the captured left state into the same read of the right state. -/
macro "eq_rw " h:ident : tactic => `(tactic| (
  have e1 := boundsOf_ext (S.bnd $h)
  have e2 := boundsOfList_ext (S.bnd $h)
  have e3 := varsWithoutFiniteBounds_ext (S.bnd $h)
  have e4 := isBinaryCtx_perm (S.perm $h) (S.nodup $h)
  have e5 := binaryAffineValue_perm (S.perm $h) (S.nodup $h)
  have e6 := tryNormalize_perm (S.perm $h) (S.nodup $h)
  have e7 := isLogicValue_perm (S.perm $h) (S.nodup $h)
  try simp only [e1, e2, e3, e4, e5, e6, e7, S.queue $h, S.rows $h, S.cMin $h, S.cMax $h, S.cAbs $h, S.cAnd $h, S.cOr $h,
    S.cXor $h, S.cImp $h, S.cIff $h, S.cWit $h]
  clear e1 e2 e3 e4 e5 e6 e7))

macro "eq_call" : tactic => `(tactic| first
    | apply_eq2_hyp
    | apply declareVariable2
    | apply addConstraint2
    | (refine Eq2.forIn2 _ _ _ _ ?_ _ _; intro _ _ _ _ _))

/-- a state update that keeps domain and bounds of a captured pair: the counters / queue / rows agree
syntactically after `eq_rw`, the rest comes from the `S` hypothesis of the captured pair. -/
theorem S.upd {s s' t t' : St α} (h : S s s')
    (hq : t.queue = t'.queue) (hr : t.rows = t'.rows)
    (h1 : t.minCount = t'.minCount) (h2 : t.maxCount = t'.maxCount) (h3 : t.absCount = t'.absCount)
    (h4 : t.andCount = t'.andCount) (h5 : t.orCount = t'.orCount) (h6 : t.xorCount = t'.xorCount)
    (h7 : t.impliesCount = t'.impliesCount) (h8 : t.iffCount = t'.iffCount) (h9 : t.witnessCount = t'.witnessCount)
    (hp : t.domain.Perm t'.domain → True) (hd : t.domain = s.domain) (hd' : t'.domain = s'.domain)
    (hb : t.bounds = s.bounds) (hb' : t'.bounds = s'.bounds) : S t t' :=
  S.update h hq hr h1 h2 h3 h4 h5 h6 h7 h8 h9 hd hd' hb hb'

open Lean Elab Tactic Meta in
/-- close an `S t t'` goal from some `S s s'` hypothesis whose pair has the same domains and bounds. -/
elab "eq_S" : tactic => do
  try
    evalTactic (← `(tactic| assumption))
    return
  catch _ => pure ()
  let g ← getMainGoal
  g.withContext do
    let lctx ← getLCtx
    for d in lctx.decls.toList.reverse do
      let some d := d | continue
      if d.isImplementationDetail then continue
      let ty ← instantiateMVars d.type
      unless ty.isAppOf ``Rooc.Lin.S do continue
      let saved ← saveState
      try
        let hexpr := d.toExpr
        let sArgs := ty.getAppArgs
        let s := sArgs[sArgs.size - 2]!
        let s' := sArgs[sArgs.size - 1]!
        let tgt ← instantiateMVars (← g.getType)
        let tArgs := tgt.getAppArgs
        let t := tArgs[tArgs.size - 2]!
        let t' := tArgs[tArgs.size - 1]!
        let pf ← Term.TermElabM.run' do
          let e ← Term.elabTerm (← `(fun (h : S $(← Term.exprToSyntax s) $(← Term.exprToSyntax s')) =>
            (S.update (t := $(← Term.exprToSyntax t)) (t' := $(← Term.exprToSyntax t')) h rfl rfl rfl rfl rfl rfl rfl rfl rfl rfl rfl rfl rfl rfl rfl))) none
          Term.synthesizeSyntheticMVarsNoPostponing
          instantiateMVars e
        g.assign (mkApp pf hexpr)
        replaceMainGoal []
        return
      catch _ => saved.restore
    throwError "eq_S: no S hypothesis fits"

open Lean Elab Tactic Meta in
elab "eq_step" : tactic => do
  let g ← getMainGoal
  let k ← spKind2 (← g.getType)
  let tac ← match k with
    | "pure" => `(tactic| exact Eq2.pure2 _)
    | "fail" => `(tactic| exact Eq2.fail2 _)
    | "ite" => `(tactic| (apply Eq2.ite2 <;> intro _))
    | "match" => `(tactic| (split <;> try dsimp only))
    | "let" => `(tactic| dsimp only)
    | "beta" => `(tactic| dsimp only)
    | "get" => `(tactic| (apply Eq2.get2; intro hS; eq_rw hS))
    | "set" => `(tactic| (refine Eq2.set2 (by eq_S) ?_))
    | "set1" => `(tactic| (refine Eq2.set1 (by eq_S)))
    | "bind" => `(tactic| (apply Eq2.bind2; rotate_left; intro _ _ _; rotate_right))
    | "call" => `(tactic| eq_call)
    | _ => `(tactic| first | assumption | rfl)
  evalTactic (← `(tactic| first | contradiction | ($tac:tactic)))

macro "eq_go" : tactic => `(tactic| repeat' eq_step)

theorem reify2 (v : String) (cs : List (Cmp × Exp α)) (s s' : St α) : Eq2 s s' (reify v cs) (reify v cs) := by
  unfold reify
  eq_go

set_option maxHeartbeats 1000000 in
theorem linExp_block2 :
    (∀ (e : Exp α) (req : Req), ∀ s s', Eq2 s s' (linExp e req) (linExp e req)) ∧
    (∀ (e : Exp α), ∀ s s', Eq2 s s' (linBinaryOperand e) (linBinaryOperand e)) ∧
    (∀ (es : List (Exp α)), ∀ s s', Eq2 s s' (linBinaryOperands es) (linBinaryOperands es)) ∧
    (∀ (kind : ExtKind) (es : List (Exp α)) (req : Req), ∀ s s', Eq2 s s' (linExtreme kind es req) (linExtreme kind es req)) ∧
    (∀ (es : List (Exp α)) (fs : List Bool) (req : Req), ∀ s s', Eq2 s s' (linFlagged es fs req) (linFlagged es fs req)) ∧
    (∀ (es : List (Exp α)) (fs : List Bool) (req : Req), ∀ s s',
      Eq2 s s' (linFirstFlagged es fs req) (linFirstFlagged es fs req)) := by
  have hreify := @reify2 α _
  apply linExp.mutual_induct
    (motive1 := fun e req => ∀ s s', Eq2 s s' (linExp e req) (linExp e req))
    (motive2 := fun e => ∀ s s', Eq2 s s' (linBinaryOperand e) (linBinaryOperand e))
    (motive3 := fun es => ∀ s s', Eq2 s s' (linBinaryOperands es) (linBinaryOperands es))
    (motive4 := fun kind es req => ∀ s s', Eq2 s s' (linExtreme kind es req) (linExtreme kind es req))
    (motive5 := fun es fs req => ∀ s s', Eq2 s s' (linFlagged es fs req) (linFlagged es fs req))
    (motive6 := fun es fs req => ∀ s s', Eq2 s s' (linFirstFlagged es fs req) (linFirstFlagged es fs req))
  case case31 =>
    intro kind es req hne ih6 ih5 s s'
    dsimp only at ih5 ih6
    cases kind
    · simp only [linExtreme]
      eq_go
    · simp only [linExtreme]
      eq_go
  all_goals (intros; (first | simp only [linExp] | simp only [linBinaryOperands] | simp only [linFlagged] | simp only [linFirstFlagged] | unfold linBinaryOperand | unfold linExtreme | skip); eq_go)

/-! ### emission, logic lowering, the loop -/

theorem simplifyFlat2 (e : Exp α) (s s' : St α) : Eq2 s s' (simplifyFlat e) (simplifyFlat e) := by
  unfold simplifyFlat
  eq_go

theorem emitConstraint2 (lhs rhs : Exp α) (cmp : Cmp) (name : String) (s s' : St α) :
    Eq2 s s' (emitConstraint lhs cmp rhs name) (emitConstraint lhs cmp rhs name) := by
  unfold emitConstraint
  have h1 := (linExp_block2 (α := α)).1
  eq_go
  apply Eq2.modify2
  intro hS
  exact ⟨hS.queue, by simp [hS.rows], hS.cMin, hS.cMax, hS.cAbs, hS.cAnd, hS.cOr, hS.cXor, hS.cImp, hS.cIff, hS.cWit,
    hS.perm, hS.nodup, hS.bnd⟩

theorem tryLowerAffine2 (e : Exp α) (t : Bool) (name : String) :
    ∀ s s', Eq2 s s' (tryLowerAffine e t name) (tryLowerAffine e t name) := by
  have h1 := @emitConstraint2 α _
  fun_induction tryLowerAffine e t name
  all_goals (intros; first | (rename_i ih _ _; exact ih _ _) | eq_go)

theorem freshWitness2 (s s' : St α) : Eq2 s s' (freshWitness : M α String) freshWitness := by
  unfold freshWitness
  eq_go

theorem iffWitness2 (l r : Exp α) (t : Bool) (s s' : St α) : Eq2 s s' (iffWitness l r t) (iffWitness l r t) := by
  unfold iffWitness
  have h1 := (linExp_block2 (α := α)).2.1
  have h2 := @freshWitness2 α _
  have h3 := @emitConstraint2 α _
  eq_go

theorem dirWitness_block2 :
    (∀ (e : Exp α) (t : Bool), ∀ s s', Eq2 s s' (dirWitness e t) (dirWitness e t)) ∧
    (∀ (es : List (Exp α)) (t : Bool), ∀ s s', Eq2 s s' (dirWitnessList es t) (dirWitnessList es t)) := by
  have h2 := @freshWitness2 α _
  have h3 := @emitConstraint2 α _
  have h4 := @iffWitness2 α _
  apply dirWitness.mutual_induct
    (motive_1 := fun e t => ∀ s s', Eq2 s s' (dirWitness e t) (dirWitness e t))
    (motive_2 := fun es t => ∀ s s', Eq2 s s' (dirWitnessList es t) (dirWitnessList es t))
  all_goals (intros; (first | simp only [dirWitness] | simp only [dirWitnessList] | skip); eq_go)

theorem lowerAssertion_block2 :
    (∀ (e : Exp α) (t : Bool) (name : String), ∀ s s', Eq2 s s' (lowerAssertion e t name) (lowerAssertion e t name)) ∧
    (∀ (es : List (Exp α)) (t : Bool) (name : String), ∀ s s',
      Eq2 s s' (lowerAssertionList es t name) (lowerAssertionList es t name)) := by
  have h1 := (linExp_block2 (α := α)).2.1
  have h2 := (dirWitness_block2 (α := α)).1
  have h3 := (dirWitness_block2 (α := α)).2
  have h4 := @emitConstraint2 α _
  have h5 := @tryLowerAffine2 α _
  apply lowerAssertion.mutual_induct
    (motive_1 := fun e t name => ∀ s s', Eq2 s s' (lowerAssertion e t name) (lowerAssertion e t name))
    (motive_2 := fun es t name => ∀ s s', Eq2 s s' (lowerAssertionList es t name) (lowerAssertionList es t name))
  all_goals (intros; (first | simp only [lowerAssertion] | simp only [lowerAssertionList] | skip); eq_go)

theorem drain2 : ∀ (n : Nat) (s s' : St α), Eq2 s s' (drain n) (drain n)
  | 0, s, s' => by simp only [drain]; exact Eq2.fail2 _
  | n+1, s, s' => by
    have ih := drain2 n
    have h1 := @simplifyFlat2 α _
    have h2 := (lowerAssertion_block2 (α := α)).1
    have h3 := @emitConstraint2 α _
    rw [drain.eq_2]
    eq_go

/-! ### the up-front collapse check (rooc 81a4b76, e35561f) -/

theorem collapseNode2 (e : Exp α) (s s' : St α) : Eq2 s s' (collapseNode e) (collapseNode e) := by
  unfold collapseNode
  have h1 := (linExp_block2 (α := α)).1
  eq_go

theorem collapseCheck_block2 :
    (∀ (e : Exp α), ∀ s s', Eq2 s s' (collapseCheck e) (collapseCheck e)) ∧
    (∀ (es : List (Exp α)), ∀ s s', Eq2 s s' (collapseCheckList es) (collapseCheckList es)) := by
  have h1 := @collapseNode2 α _
  apply collapseCheck.mutual_induct
    (motive_1 := fun e => ∀ s s', Eq2 s s' (collapseCheck e) (collapseCheck e))
    (motive_2 := fun es => ∀ s s', Eq2 s s' (collapseCheckList es) (collapseCheckList es))
  all_goals (intros; (first | simp only [collapseCheck] | simp only [collapseCheckList] | skip); eq_go)

theorem collapseCheckConstraints2 : ∀ (cs : List (Constraint α)) (s s' : St α),
    Eq2 s s' (collapseCheckConstraints cs) (collapseCheckConstraints cs)
  | [], s, s' => by simp only [collapseCheckConstraints]; exact Eq2.pure2 _
  | c :: cs, s, s' => by
    have ih := collapseCheckConstraints2 cs
    have h1 := (collapseCheck_block2 (α := α)).1
    simp only [collapseCheckConstraints]
    eq_go

theorem collapseCheckAll2 (m : Model α) (s s' : St α) : Eq2 s s' (collapseCheckAll m) (collapseCheckAll m) := by
  unfold collapseCheckAll
  have h1 := (collapseCheck_block2 (α := α)).1
  have h2 := @collapseCheckConstraints2 α _
  eq_go

/-! ### the whole lowering -/

/-- the run of `linearizeWith` up to (not including) the assembly of the output. -/
def coreProg (m : Model α) : M α (Ctx α) := do
  let objExp ← simplifyFlat m.objective
  let obj ← linExp objExp (match m.optType with | .min => Req.lower | .max => .higher | .satisfy => .exact)
  drain drainFuel
  pure obj

theorem linearizeWith_eq_core (m : Model α) (b : BoundsMap α) (d : List (DomVar α)) :
    linearizeWith m b d = match coreProg m (initSt m b d) with
      | .ok (obj, s) => .ok (assemble m obj s)
      | .error e => .error e := by
  unfold linearizeWith coreProg
  dsimp only
  show (match (_ : M α (LinModel α)) (initSt m b d) with | .ok (lm, _) => Except.ok lm | .error e => .error e) = _
  simp only [bind_run]
  cases h1 : simplifyFlat m.objective (initSt m b d) with
  | error e => rfl
  | ok q1 =>
    obtain ⟨oe, s1⟩ := q1
    dsimp only
    cases h2 : linExp oe (match m.optType with | .min => Req.lower | .max => .higher | .satisfy => .exact) s1 with
    | error e => rfl
    | ok q2 =>
      obtain ⟨obj, s2⟩ := q2
      dsimp only
      cases h3 : drain drainFuel s2 with
      | error e => rfl
      | ok q3 => rfl

theorem coreProg2 (m : Model α) (s s' : St α) : Eq2 s s' (coreProg m) (coreProg m) := by
  unfold coreProg
  have h1 := @simplifyFlat2 α _
  have h2 := (linExp_block2 (α := α)).1
  have h3 := @drain2 α _
  eq_go

/-- what "the same compiled model up to the order of the domain" means. -/
def SameUpToDomainOrder (lm lm' : LinModel α) : Prop :=
  lm.vars = lm'.vars ∧ lm.objective = lm'.objective ∧ lm.offset = lm'.offset ∧ lm.rows = lm'.rows ∧
    lm.optType = lm'.optType ∧ lm.domain.Perm lm'.domain

/-- **the lowering is invariant under a permutation of the domain and any change of the bounds map that keeps
its lookups**: both runs succeed with the same compiled model up to the order of its domain, or both fail with the
same error. -/
theorem linearizeWith_perm (m : Model α) {b b' : BoundsMap α} {d d' : List (DomVar α)}
    (hp : d.Perm d') (hn : (d.map (·.name)).Nodup) (hb : ∀ x, lookupB b x = lookupB b' x) :
    match linearizeWith m b d, linearizeWith m b' d' with
    | .ok lm, .ok lm' => SameUpToDomainOrder lm lm'
    | .error e, .error e' => e = e'
    | _, _ => False := by
  have hS : S (initSt m b d) (initSt m b' d') :=
    ⟨rfl, rfl, rfl, rfl, rfl, rfl, rfl, rfl, rfl, rfl, rfl, hp, hn, hb⟩
  have h := coreProg2 m _ _ hS
  rw [linearizeWith_eq_core, linearizeWith_eq_core]
  unfold RunRel at h
  cases h1 : coreProg m (initSt m b d) with
  | error e =>
    cases h2 : coreProg m (initSt m b' d') with
    | error e' => rw [h1, h2] at h; exact h
    | ok q => rw [h1, h2] at h; exact h.elim
  | ok q =>
    obtain ⟨obj, t⟩ := q
    cases h2 : coreProg m (initSt m b' d') with
    | error e' => rw [h1, h2] at h; exact h.elim
    | ok q' =>
      obtain ⟨obj', t'⟩ := q'
      rw [h1, h2] at h
      obtain ⟨rfl, hS'⟩ := h
      exact assemble_perm m obj hS'.perm hS'.rows

end Lin
end Rooc
