/-
Composition of C13 (standard-form conversion, `Rooc/Props/C13.lean`) and C14 (tableau simplex, `Rooc/Props/C14.lean`):
the built-in simplex path `to_standard_form → into_tableau → solve → variables_values / optimal_value` end to end, at
exact arithmetic.

The two properties are stated over different representations, and this file holds the adapters:

* C13 talks about `StdModel (Ext K)` (IEEE special values; semantic reading through `toK`), C14 about
  `StdModel K` / `Tab K` at the exact instance `exactArith`.  `stdK` is the reading of a standard form over `K`
  (`toK` on every number — the identity on finite data, and C13's `StdFeasible` / `stdObj` already read every number
  through `toK`); `stdFeasible_iff` / `stdObj_eq` restate C13's notions as `Sol (stdTab (stdK s))`, `NonNeg`, `dot`.
* the objective of `lm` vs the objective of the standard form: sign flip for `max` (`s.flip`) and the constant
  offset — `stdObj_eq`, `flip_iff_max`.
* the loop's verdict vs the last `step_inner`: `solveLoop_ok_finished` (in `Proofs/Phase1`) and
  `solveLoop_error_step` (here); the loop keeps `flip` / `offset` (`solve_flip_offset`).

This file imports `Rooc.Props.C13` and `Rooc.Props.C14` on purpose: the composition is OF the property theorems as
they are stated there.
-/
import Rooc.Props.C13
import Rooc.Props.C14
import Rooc.SolverWrap

set_option linter.unusedSectionVars false
set_option linter.unusedVariables false

namespace Rooc.ComposeSimplex
open Rooc Tableau TabSem StdSem StdMain Standardize
variable {K : Type} [Field K] [LinearOrder K] [IsStrictOrderedRing K] [FloorRing K]
attribute [local instance] exactArith

/-! ### the standard form read over `K` -/

/-- the standard form with every number read through `toK` (identity on finite data). -/
def stdK (s : StdModel (Ext K)) : StdModel K :=
  { vars := s.vars, objective := s.objective.map toK, offset := toK s.offset, flip := s.flip,
    rows := s.rows.map fun r => { coeffs := r.coeffs.map toK, rhs := toK r.rhs } }

@[simp] theorem stdK_vars (s : StdModel (Ext K)) : (stdK s).vars = s.vars := rfl
@[simp] theorem stdK_flip (s : StdModel (Ext K)) : (stdK s).flip = s.flip := rfl
@[simp] theorem stdK_offset (s : StdModel (Ext K)) : (stdK s).offset = toK s.offset := rfl
@[simp] theorem stdK_objective (s : StdModel (Ext K)) : (stdK s).objective = s.objective.map toK := rfl
@[simp] theorem stdK_rows_length (s : StdModel (Ext K)) : (stdK s).rows.length = s.rows.length := by simp [stdK]

/-- C13's `Σ cᵢ·xᵢ` is C14's `dot` on the `toK` reading. -/
theorem rowVal_eq_dot : ∀ (cs : List (Ext K)) (y : List K), rowVal cs y = dot (cs.map toK) y
  | [], y => by simp [rowVal, dot]
  | c :: cs, [] => by simp [rowVal, dot]
  | c :: cs, x :: xs => by simp [rowVal, dot, rowVal_eq_dot cs xs]

theorem nonNeg_iff (y : List K) : NonNeg y ↔ ∀ v ∈ y, 0 ≤ v := by
  constructor
  · exact Optimal.nonneg_mem
  · intro h j hj
    simpa using h _ (Optimal.mem_of_nth hj)

theorem nonneg_of_nth {y : List K} (h : ∀ j, 0 ≤ nth y j) : ∀ v ∈ y, 0 ≤ v := by
  intro v hv
  obtain ⟨j, _, rfl⟩ := Optimal.exists_nth_of_mem hv
  exact h j

/-- the equation system of the standard form, row by row. -/
theorem sol_stdTab_iff (s : StdModel (Ext K)) (y : List K) :
    Sol (Start.stdTab (stdK s)) y ↔ ∀ r ∈ s.rows, rowVal r.coeffs y = toK r.rhs := by
  unfold Sol
  simp only [Start.stdTab, List.length_map, stdK_rows_length]
  constructor
  · intro h r hr
    obtain ⟨i, hi, rfl⟩ := List.mem_iff_getElem.1 hr
    have := h i hi
    simpa [row, nth, stdK, List.getD_eq_getElem?_getD, hi, rowVal_eq_dot] using this
  · intro h i hi
    have := h _ (List.getElem_mem hi)
    simpa [row, nth, stdK, List.getD_eq_getElem?_getD, hi, rowVal_eq_dot] using this

/-- **adapter 1 (solution sets)**: C13's `StdFeasible` is "right length, non-negative, solves the system of the
`K`-reading" in C14's vocabulary. -/
theorem stdFeasible_iff (s : StdModel (Ext K)) (y : List K) :
    StdFeasible s y ↔ y.length = s.vars.length ∧ (∀ v ∈ y, 0 ≤ v) ∧ Sol (Start.stdTab (stdK s)) y := by
  rw [sol_stdTab_iff]
  exact ⟨fun h => ⟨h.len, h.nonneg, h.rows⟩, fun h => ⟨h.1, h.2.1, h.2.2⟩⟩

/-- **adapter 2 (objective)**: the objective of the ORIGINAL problem recorded by the standard form is
`±(c·y) + offset` with `c` the objective row of the `K`-reading. -/
theorem stdObj_eq (s : StdModel (Ext K)) (y : List K) :
    stdObj s y = (if s.flip then -(dot (stdK s).objective y) else dot (stdK s).objective y) + (stdK s).offset := by
  simp [stdObj, rowVal_eq_dot]

/-- the sign flip is set exactly for `max` models, and the offset is carried over. -/
theorem flip_iff_max (lm : LinModel (Ext K)) (hW : WF lm) {s : StdModel (Ext K)} (hs : standardize lm = .ok s) :
    s.flip = decide (lm.optType = .max) ∧ s.offset = lm.offset := by
  obtain ⟨s', _, _, _, hstd, _, _, _, _, hoff, hflip⟩ := standardize_spec lm hW
  rw [hs] at hstd; cases hstd
  exact ⟨hflip, hoff⟩

/-! ### the loop: verdict vs last step; `flip` / `offset` untouched -/

/-- when the loop stops with `Unbounded`, its last `step_inner` answered `Unbounded` on the final tableau. -/
theorem solveLoop_error_step {tol : K} {prefer : List Nat} {stallLimit : Nat} :
    ∀ (fuel : Nat) (T : Tab K) (stalls : Nat) (last : K) (acc : List (Tab K × Nat × Nat × K)),
      (solveLoop tol prefer stallLimit fuel T stalls last acc).result = .error .unbounded →
      ∃ bland, stepInner tol (solveLoop tol prefer stallLimit fuel T stalls last acc).final prefer bland =
        .error .unbounded
  | 0, T, stalls, last, acc, h => by simp [solveLoop] at h
  | fuel+1, T, stalls, last, acc, h => by
    simp only [solveLoop] at h ⊢
    split at h
    · rename_i e hs
      simp only [Except.error.injEq] at h
      subst h
      exact ⟨_, hs⟩
    · simp at h
    · rename_i hh t ratio T' hs
      split at h
      · rename_i hfe
        simp only [hfe, if_true]
        exact solveLoop_error_step fuel T' (stalls+1) last _ h
      · rename_i hfe
        simp only [hfe, if_false]
        exact solveLoop_error_step fuel T' 0 T'.value _ h

theorem stepInner_flip_offset {tol : K} {T T' : Tab K} {prefer : List Nat} {bland : Bool} {act : StepAction K}
    (hs : stepInner tol T prefer bland = .ok (act, T')) : T'.flip = T.flip ∧ T'.offset = T.offset := by
  cases act with
  | finished => obtain ⟨rfl, -⟩ := StepLemmas.stepInner_finished hs; exact ⟨rfl, rfl⟩
  | pivot h t ratio => obtain ⟨rfl, -, -⟩ := StepLemmas.stepInner_pivot hs; exact ⟨rfl, rfl⟩

/-- pivots touch neither the recorded sign flip nor the constant offset. -/
theorem solveLoop_flip_offset {tol : K} {prefer : List Nat} {stallLimit : Nat} :
    ∀ (fuel : Nat) (T : Tab K) (stalls : Nat) (last : K) (acc : List (Tab K × Nat × Nat × K)),
      (solveLoop tol prefer stallLimit fuel T stalls last acc).final.flip = T.flip ∧
      (solveLoop tol prefer stallLimit fuel T stalls last acc).final.offset = T.offset
  | 0, T, stalls, last, acc => by simp [solveLoop]
  | fuel+1, T, stalls, last, acc => by
    simp only [solveLoop]
    split
    · exact ⟨rfl, rfl⟩
    · exact ⟨rfl, rfl⟩
    · rename_i h t ratio T' hs
      obtain ⟨hf, ho⟩ := stepInner_flip_offset hs
      split
      · obtain ⟨h1, h2⟩ := solveLoop_flip_offset fuel T' (stalls+1) last ((T, h, t, ratio) :: acc)
        exact ⟨h1.trans hf, h2.trans ho⟩
      · obtain ⟨h1, h2⟩ := solveLoop_flip_offset fuel T' 0 T'.value ((T, h, t, ratio) :: acc)
        exact ⟨h1.trans hf, h2.trans ho⟩

theorem solve_flip_offset (tol : K) (se limit : Nat) (prefer : List Nat) (T : Tab K) :
    (solve tol se limit prefer T).final.flip = T.flip ∧ (solve tol se limit prefer T).final.offset = T.offset :=
  solveLoop_flip_offset limit T 0 T.value []

/-! ### the interface between the start and the loop -/

/-- **`T` is a canonical feasible tableau OF the standard form `sK`**: canonical form (for some number of rows —
`into_tableau_two_phase` may drop redundant ones), the solution set of `A x = b`, the objective row of `sK`
represented by `(c, value)`, basic solution non-negative, sign flip and offset copied. -/
structure CanonicalFor (T : Tab K) (sK : StdModel K) : Prop where
  canon : ∃ m, Canon T m sK.vars.length
  objInv : ObjInv T sK.objective
  sol : ∀ x, Sol T x ↔ Sol (Start.stdTab sK) x
  feasible : Feasible T
  flip : T.flip = sK.flip
  offset : T.offset = sK.offset

/-- `into_tableau` copies the sign flip and the offset of the standard form (direct and two-phase start). -/
theorem intoTableau_flip_offset {tol : K} {se lim : Nat} {sm : StdModel K} {T : Tab K}
    (h : intoTableau tol se lim sm = .ok T) : T.flip = sm.flip ∧ T.offset = sm.offset := by
  have two : ∀ {T : Tab K}, twoPhase tol se lim sm = .ok T → T.flip = sm.flip ∧ T.offset = sm.offset := by
    intro T h
    unfold twoPhase at h
    simp only at h
    split at h
    · cases h
    · split at h
      · cases h
      · split at h
        · cases h
        · simp only [Except.ok.injEq] at h
          subst h
          exact ⟨rfl, rfl⟩
  unfold intoTableau at h
  simp only at h
  split at h
  · split at h
    · exact two h
    · simp only [Except.ok.injEq] at h
      subst h
      exact ⟨rfl, rfl⟩
  · exact two h

/-- **the direct start of `into_tableau` on the standard form of a well-formed model is `CanonicalFor`** —
C14 `into_tableau_canonical_partial` with its shape hypotheses discharged by C13 `std_shape` (rectangular, `b ≥ 0`).
Left: the decidable data hypotheses of `into_tableau_canonical_partial` (`NoSubTol`, a usable independent column per
row) and `tol > 0`. -/
theorem direct_start_canonicalFor {tol : K} (ht : 0 < tol) {lm : LinModel (Ext K)} (hW : WF lm)
    {s : StdModel (Ext K)} (hs : standardize lm = .ok s) (se lim : Nat)
    (hN : Start.NoSubTol tol ((stdK s).rows.map (·.coeffs)))
    (hdir : (stdK s).rows.length ≤ (independentColumns tol (stdK s).vars.length ((stdK s).rows.map (·.coeffs))).length ∧
      (selectPerRow (stdK s).rows.length
        (independentColumns tol (stdK s).vars.length ((stdK s).rows.map (·.coeffs)))).length = (stdK s).rows.length) :
    ∃ T, intoTableau tol se lim (stdK s) = .ok T ∧ CanonicalFor T (stdK s) := by
  obtain ⟨hrect, hobj, hrhs⟩ := Props.C13.std_shape lm hW hs
  have hrows : ∀ r ∈ (stdK s).rows, r.coeffs.length = (stdK s).vars.length := by
    intro r hr
    simp only [stdK, List.mem_map] at hr
    obtain ⟨r0, hr0, rfl⟩ := hr
    simpa using hrect r0 hr0
  have hobj' : (stdK s).objective.length = (stdK s).vars.length := by simpa using hobj
  have hb : ∀ r ∈ (stdK s).rows, 0 ≤ r.rhs := by
    intro r hr
    simp only [stdK, List.mem_map] at hr
    obtain ⟨r0, hr0, rfl⟩ := hr
    exact hrhs r0 hr0
  obtain ⟨T, hT, hC, hO, hS, hF⟩ :=
    Props.C14.into_tableau_canonical_partial ht (stdK s) se lim hrows hobj' hN hdir
  obtain ⟨hfl, hoff⟩ := intoTableau_flip_offset hT
  exact ⟨T, hT, ⟨⟨_, hC⟩, hO, hS, hF hb, hfl, hoff⟩⟩

/-- the `LpSolution` that `solve_real_lp_problem_slow_simplex` returns when its loop has stopped with success on the
tableau `Tf` of the standard form `s`: `OptimalTableau::as_lp_solution` applied to `variables_values` under the names of
`s`, with `optimal_value` as the reported objective. -/
noncomputable def returnedSolution (s : StdModel (Ext K)) (Tf : Tab K) : SolverWrap.Solution (Ext K) :=
  SolverWrap.asLpSolution s.vars ((basicSolution Tf).map Ext.fin) (Ext.fin (optimalValue Tf))

/-! ### both starts of `into_tableau` provide the interface -/

/-- the direct start is available: a usable independent column for every row. -/
def DirectStart (tol : K) (sK : StdModel K) : Prop :=
  sK.rows.length ≤ (independentColumns tol sK.vars.length (sK.rows.map (·.coeffs))).length ∧
  (selectPerRow sK.rows.length (independentColumns tol sK.vars.length (sK.rows.map (·.coeffs)))).length = sK.rows.length

/-- **the decidable facts about the START under which a tolerance `tol > 0` decided as exact arithmetic would.**
Direct start: no entry of `A` with `0 < |a| < tol`.  Two-phase start: phase 1 ended at value EXACTLY `0` with a
non-negative basic solution, and the rows dropped as redundant have EXACTLY zero structural entries (the code tests
`|·| < tol` in all three places; known finding `C14-absolute-tolerance-on-unscaled-data`). -/
def StartFacts (tol : K) (se p1 : Nat) (sK : StdModel K) : Prop :=
  (DirectStart tol sK ∧ Start.NoSubTol tol (sK.rows.map (·.coeffs))) ∨
  (¬ DirectStart tol sK ∧ (TwoPhase.phase1Final tol se p1 sK).value = 0 ∧ Feasible (TwoPhase.phase1Final tol se p1 sK) ∧
    ∀ r ∈ (TwoPhase.driveOutResult tol se p1 sK).2.2.2, ∀ j, j < sK.vars.length →
      nth (row (TwoPhase.driveOutResult tol se p1 sK).1 r) j = 0)

/-- **whatever tableau `into_tableau` returns for the standard form of a well-formed model is `CanonicalFor` it**, on
either branch (C14 `into_tableau_canonical_partial` / `two_phase_start_canonical_partial` + C13 `std_shape`), under
`StartFacts`. -/
theorem intoTableau_canonicalFor {tol : K} (ht : 0 < tol) {lm : LinModel (Ext K)} (hW : WF lm)
    {s : StdModel (Ext K)} (hs : standardize lm = .ok s) (se p1 : Nat) (hfacts : StartFacts tol se p1 (stdK s))
    {T : Tab K} (hT : intoTableau tol se p1 (stdK s) = .ok T) : CanonicalFor T (stdK s) := by
  obtain ⟨hrect, hobj, _⟩ := Props.C13.std_shape lm hW hs
  have hrows : ∀ r ∈ (stdK s).rows, r.coeffs.length = (stdK s).vars.length := by
    intro r hr
    simp only [stdK, List.mem_map] at hr
    obtain ⟨r0, hr0, rfl⟩ := hr
    simpa using hrect r0 hr0
  have hobj' : (stdK s).objective.length = (stdK s).vars.length := by simpa using hobj
  rcases hfacts with ⟨hdir, hN⟩ | ⟨hnd, hv, hF, hd⟩
  · obtain ⟨T', hT', hc⟩ := direct_start_canonicalFor ht hW hs se p1 hN hdir
    rw [hT] at hT'; cases hT'
    exact hc
  · rw [Props.C14.into_tableau_two_phase_branch tol se p1 (stdK s) hnd] at hT
    obtain ⟨hC, hO, hS, hFe, hfl, hoff⟩ :=
      Props.C14.two_phase_start_canonical_partial ht (stdK s) se p1 hrows hobj' hv hF hd hT
    exact ⟨hC, hO, hS, hFe, hfl, hoff⟩

/-! ### the composition -/

section
variable {lm : LinModel (Ext K)} {s : StdModel (Ext K)} {T : Tab K}

/-- a non-negative solution of any tableau the loop visits is a feasible point of the standard form. -/
theorem stdFeasible_of_sol (hT : CanonicalFor T (stdK s)) (se limit : Nat) (prefer : List Nat) {tol : K}
    {x : List K} (hl : x.length = s.vars.length) (hx : ∀ v ∈ x, 0 ≤ v)
    (hS : Sol (solve tol se limit prefer T).final x) : StdFeasible s x := by
  obtain ⟨m, hC⟩ := hT.canon
  obtain ⟨_, hSf, _⟩ := Props.C14.steps_preserve (tol := tol) hC se limit prefer
  exact (stdFeasible_iff s x).mpr ⟨hl, hx, (hT.sol x).mp ((hSf x).mp hS)⟩

/-- when the loop stops `Finished` (exact comparisons), `variables_values` of the final tableau is a feasible point of
the standard form (one value per column, all `≥ 0`, every equality holds). -/
theorem finished_stdFeasible (hT : CanonicalFor T (stdK s)) (se limit : Nat) (prefer : List Nat)
    (hfin : (solve (0:K) se limit prefer T).result = .ok ()) :
    StdFeasible s (basicSolution (solve (0:K) se limit prefer T).final) := by
  obtain ⟨m, hC⟩ := hT.canon
  obtain ⟨hCf, _, hOf⟩ := Props.C14.steps_preserve (tol := (0:K)) hC se limit prefer
  obtain ⟨hFf, _⟩ := Props.C14.steps_feasible_monotone hC hT.feasible se limit prefer
  obtain ⟨bland, hstep⟩ := Phase1.solveLoop_ok_finished (tol := (0:K)) limit T 0 T.value [] hfin
  obtain ⟨hSy, hny, _⟩ := Props.C14.finished_optimal_exact hCf hFf (hOf _ hT.objInv) hstep
  refine stdFeasible_of_sol hT se limit prefer ?_ (nonneg_of_nth hny) hSy
  rw [BasicSol.basicSolution_length, hCf.rect.costs]; rfl

/-- **Finished ⇒ feasible and optimal for the ORIGINAL model** (exact comparisons, `tol = 0`).
`y = variables_values` of the final tableau; `preimage lm y` is C13's positional map back (`x = p − m`). -/
theorem finished_optimal (hW : WF lm) (hs : standardize lm = .ok s) (hT : CanonicalFor T (stdK s))
    (se limit : Nat) (prefer : List Nat) (hfin : (solve (0:K) se limit prefer T).result = .ok ()) :
    LinFeasible lm (preimage lm (basicSolution (solve (0:K) se limit prefer T).final)) ∧
    (∀ x, LinFeasible lm x →
      (lm.optType = .min → obj lm (preimage lm (basicSolution (solve (0:K) se limit prefer T).final)) ≤ obj lm x) ∧
      (lm.optType = .max → obj lm x ≤ obj lm (preimage lm (basicSolution (solve (0:K) se limit prefer T).final)))) ∧
    optimalValue (solve (0:K) se limit prefer T).final =
      obj lm (preimage lm (basicSolution (solve (0:K) se limit prefer T).final)) := by
  obtain ⟨m, hC⟩ := hT.canon
  obtain ⟨hCf, hSf, hOf⟩ := Props.C14.steps_preserve (tol := (0:K)) hC se limit prefer
  obtain ⟨hFf, _⟩ := Props.C14.steps_feasible_monotone hC hT.feasible se limit prefer
  obtain ⟨bland, hstep⟩ := Phase1.solveLoop_ok_finished (tol := (0:K)) limit T 0 T.value [] hfin
  have hO := hOf _ hT.objInv
  obtain ⟨hSy, hny, hopt⟩ := Props.C14.finished_optimal_exact hCf hFf hO hstep
  set Tf := (solve (0:K) se limit prefer T).final with hTf
  set y := basicSolution Tf with hy
  have hyl : y.length = s.vars.length := by
    rw [hy, BasicSol.basicSolution_length, hCf.rect.costs]; rfl
  have hyF : StdFeasible s y := stdFeasible_of_sol hT se limit prefer hyl (nonneg_of_nth hny) hSy
  obtain ⟨hback, hobjy⟩ := Props.C13.bwd lm hW hs y hyF
  obtain ⟨hflip, hoff⟩ := flip_iff_max lm hW hs
  refine ⟨hback, ?_, ?_⟩
  · intro x hx
    obtain ⟨hxF, hobjx⟩ := Props.C13.fwd lm hW hs x hx
    obtain ⟨hxl, hxn, hxS⟩ := (stdFeasible_iff s _).mp hxF
    have hle := hopt (image lm x) hxl ((hSf _).mpr ((hT.sol _).mpr hxS)) ((nonNeg_iff _).mpr hxn)
    rw [← hobjy, ← hobjx, stdObj_eq, stdObj_eq, hflip]
    constructor
    · intro hmin
      simp only [hmin, reduceCtorEq, decide_false, Bool.false_eq_true, if_false]
      linarith
    · intro hmax
      simp only [hmax, decide_true, if_true]
      linarith
  · obtain ⟨_, hval⟩ := Props.C14.value_tracks_objective hCf hO
    obtain ⟨hf1, ho1⟩ := solve_flip_offset (0:K) se limit prefer T
    rw [← hobjy, stdObj_eq, hval]
    unfold optimalValue
    rw [hf1, ho1, hT.flip, hT.offset]
    by_cases hfl : s.flip = true
    · simp [hfl]
    · simp [hfl]

/-- **Unbounded ⇒ the ORIGINAL model is unbounded** (exact comparisons): feasible points of `lm` with objective below
every bound (`min`) / above every bound (`max`). -/
theorem unbounded_original (hW : WF lm) (hs : standardize lm = .ok s) (hT : CanonicalFor T (stdK s))
    (se limit : Nat) (prefer : List Nat) (hunb : (solve (0:K) se limit prefer T).result = .error .unbounded) (M : K) :
    ∃ x, LinFeasible lm x ∧ (lm.optType = .min → obj lm x < M) ∧ (lm.optType = .max → M < obj lm x) := by
  obtain ⟨m, hC⟩ := hT.canon
  obtain ⟨hCf, _, hOf⟩ := Props.C14.steps_preserve (tol := (0:K)) hC se limit prefer
  obtain ⟨hFf, _⟩ := Props.C14.steps_feasible_monotone hC hT.feasible se limit prefer
  obtain ⟨bland, hstep⟩ := solveLoop_error_step (tol := (0:K)) limit T 0 T.value [] hunb
  have hO := hOf _ hT.objInv
  obtain ⟨hflip, hoff⟩ := flip_iff_max lm hW hs
  -- the bound to beat in the standard form
  obtain ⟨x, hxl, hxS, hxn, hlt⟩ := Props.C14.unbounded_genuine hCf hFf hO hstep
    (if s.flip then (stdK s).offset - M else M - (stdK s).offset)
  have hxF : StdFeasible s x := stdFeasible_of_sol hT se limit prefer hxl (nonneg_of_nth hxn) hxS
  obtain ⟨hback, hobjx⟩ := Props.C13.bwd lm hW hs x hxF
  refine ⟨preimage lm x, hback, ?_, ?_⟩
  · intro hmin
    rw [← hobjx, stdObj_eq]
    simp only [hflip, hmin, reduceCtorEq, decide_false, Bool.false_eq_true, if_false] at hlt ⊢
    linarith
  · intro hmax
    rw [← hobjx, stdObj_eq]
    simp only [hflip, hmax, decide_true, if_true] at hlt ⊢
    linarith

/-- **a canonical feasible tableau of the standard form exists only for a FEASIBLE model**: its basic solution maps back
to a feasible point of `lm`.  (So `into_tableau` can hand a tableau to the loop only when `lm` is feasible; the verdict
`Infeasible` can only come from the start.) -/
theorem canonicalFor_feasible (hW : WF lm) (hs : standardize lm = .ok s) (hT : CanonicalFor T (stdK s)) :
    LinFeasible lm (preimage lm (basicSolution T)) := by
  obtain ⟨m, hC⟩ := hT.canon
  have hS := BasicSol.basicSolution_sol hC
  have hn := BasicSol.basicSolution_nonneg hC hT.feasible
  have hl : (basicSolution T).length = s.vars.length := by
    rw [BasicSol.basicSolution_length, hC.rect.costs]; rfl
  have hF : StdFeasible s (basicSolution T) :=
    (stdFeasible_iff s _).mpr ⟨hl, nonneg_of_nth hn, (hT.sol _).mp hS⟩
  exact (Props.C13.bwd lm hW hs _ hF).1

/-- **phase 1 below zero ⇒ the ORIGINAL model is infeasible** (exact comparisons): C13 `fwd` + `std_shape` composed
with C14 `phase1_feasible_value_bound` at `tol = 0`.  (`into_tableau_two_phase` reports `Infesible` when the phase-1
optimum is not within the tolerance of `0`; at exact arithmetic a phase-1 optimum `< 0` — the artificial variables cannot
be driven to zero — excludes every feasible point of `lm`.) -/
theorem phase1_negative_infeasible (hW : WF lm) (hs : standardize lm = .ok s) (se limit : Nat) (prefer : List Nat)
    (hok : (solve (0:K) se limit prefer (phase1Tab (stdK s))).result = .ok ())
    (hneg : (solve (0:K) se limit prefer (phase1Tab (stdK s))).final.value < 0) : ¬ ∃ x, LinFeasible lm x := by
  rintro ⟨x, hx⟩
  obtain ⟨hrect, _, _⟩ := Props.C13.std_shape lm hW hs
  have hrows : ∀ r ∈ (stdK s).rows, r.coeffs.length = (stdK s).vars.length := by
    intro r hr
    simp only [stdK, List.mem_map] at hr
    obtain ⟨r0, hr0, rfl⟩ := hr
    simpa using hrect r0 hr0
  obtain ⟨hxF, _⟩ := Props.C13.fwd lm hW hs x hx
  obtain ⟨hxl, hxn, hxS⟩ := (stdFeasible_iff s _).mp hxF
  have hS : ∀ i, i < (stdK s).rows.length →
      dot (row ((stdK s).rows.map (·.coeffs)) i) (image lm x) = nth ((stdK s).rows.map (·.rhs)) i := by
    intro i hi
    exact hxS i (by simpa [Start.stdTab] using hi)
  have := Props.C14.phase1_feasible_value_bound (le_refl (0:K)) (stdK s) hrows se limit prefer hok (image lm x) hxl hS hxn
  simp only [zero_mul, neg_nonpos] at this
  exact absurd hneg (not_lt.mpr this)

end

end Rooc.ComposeSimplex
