/-
C07 helper layer 3: the reverse rules — `tighten_variable`, `tighten_expression`,
`tighten_constraint_expression` keep every point that satisfies the constraint inside the box.
-/
import Rooc.Proofs.BoundsEnclose
set_option linter.unusedTactic false
set_option linter.unreachableTactic false
set_option linter.unnecessarySeqFocus false
set_option linter.unusedSimpArgs false
set_option linter.unusedVariables false
set_option linter.unusedSectionVars false
namespace Rooc
namespace BoundsProofs
open BoundsSem Arith Sem

variable {K : Type} [Field K] [LinearOrder K] [IsStrictOrderedRing K] [FloorRing K]

/-! ### association lists -/
theorem get?_insert {β : Type} (l : List (String × β)) (k k' : String) (v : β) :
    AList.get? (AList.insert l k v) k' = if k = k' then some v else AList.get? l k' := by
  induction l with
  | nil => simp [AList.insert, AList.get?]
  | cons p l ih =>
    obtain ⟨a, b⟩ := p
    by_cases h : a = k
    · subst h; by_cases h2 : a = k' <;> simp [AList.insert, AList.get?, h2]
    · by_cases h2 : a = k'
      · subst h2; simp [AList.insert, AList.get?, h, Ne.symm h]
      · simp [AList.insert, AList.get?, h, h2, ih]

theorem varBounds_insert (vb : List (String × Bounds (Ext K))) (k k' : String) (t : Bounds (Ext K)) :
    Analyzer.varBounds (AList.insert vb k t) k' = if k = k' then t else Analyzer.varBounds vb k' := by
  simp only [Analyzer.varBounds, get?_insert]; split <;> simp

/-! ### `tighten_variable` -/
theorem tightenVariable_inBox {ρ : String → K} (an : Analyzer (Ext K)) (name : String) (cand : Bounds (Ext K))
    (hb : InBox ρ an.variableBounds) (hc : Mem (ρ name) cand) :
    InBox ρ (an.tightenVariable name cand).1.variableBounds := by
  unfold Analyzer.tightenVariable
  split
  · exact hb
  · dsimp only
    split
    · exact hb
    · rename_i t ht
      split
      · intro n
        simp only [varBounds_insert]
        split
        · rename_i h; subst h; exact mem_intersection ht (hb name) hc
        · exact hb n
      · exact hb

theorem tightenVar_inBox {ρ : String → K} (s : TState (Ext K)) (name : String) (cand : Bounds (Ext K))
    (hb : InBox ρ s.an.variableBounds) (hc : Mem (ρ name) cand) :
    InBox ρ (Analyzer.tightenVar s name cand).an.variableBounds := by
  unfold Analyzer.tightenVar
  have := tightenVariable_inBox s.an name cand hb hc
  dsimp only
  split <;> exact this

/-! ### folds of `min` / `max` -/
theorem foldl_kmin_le : ∀ (xs : List K) (x : K), xs.foldl kmin x ≤ x ∧ ∀ w ∈ xs, xs.foldl kmin x ≤ w
  | [], x => by simp
  | y :: ys, x => by
    obtain ⟨h1, h2⟩ := foldl_kmin_le ys (kmin x y)
    have hk : kmin x y = min x y := kmin_eq x y
    simp only [List.foldl_cons, List.mem_cons, forall_eq_or_imp]
    rw [hk] at h1 h2 ⊢
    exact ⟨le_trans h1 (min_le_left _ _), le_trans h1 (min_le_right _ _), h2⟩

theorem le_foldl_kmax : ∀ (xs : List K) (x : K), x ≤ xs.foldl kmax x ∧ ∀ w ∈ xs, w ≤ xs.foldl kmax x
  | [], x => by simp
  | y :: ys, x => by
    obtain ⟨h1, h2⟩ := le_foldl_kmax ys (kmax x y)
    have hk : kmax x y = max x y := kmax_eq x y
    simp only [List.foldl_cons, List.mem_cons, forall_eq_or_imp]
    rw [hk] at h1 h2 ⊢
    exact ⟨le_trans (le_max_left _ _) h1, le_trans (le_max_right _ _) h1, h2⟩

theorem evalList_mem {ρ : String → K} : ∀ (es : List (Exp (Ext K))) (vs : List K), evalList ρ es = some vs →
    ∀ e ∈ es, ∃ w ∈ vs, eval ρ e = some w
  | [], _, _, e, he => by simp at he
  | e0 :: es, vs, h, e, he => by
    obtain ⟨v, vs', h1, h2, rfl⟩ := evalList_cons h
    rcases List.mem_cons.1 he with rfl | h'
    · exact ⟨v, List.mem_cons_self .., h1⟩
    · obtain ⟨w, hw, hw'⟩ := evalList_mem es vs' h2 e h'
      exact ⟨w, List.mem_cons_of_mem _ hw, hw'⟩

/-! ### `tighten_expression` -/
section
variable (ρ : String → K)

/-- the statement proved by induction: a value inside `required` keeps `ρ` inside the box. -/
def TightenOK (e : Exp (Ext K)) : Prop :=
  ∀ (required : Bounds (Ext K)) (s : TState (Ext K)) (v : K),
    InBox ρ s.an.variableBounds → eval ρ e = some v → Mem v required →
    InBox ρ (Analyzer.tightenExpression e required s).an.variableBounds

theorem tightenList_inBox : ∀ (es : List (Exp (Ext K))) (required : Bounds (Ext K)) (s : TState (Ext K)),
    (∀ e ∈ es, TightenOK ρ e) → (∀ e ∈ es, ∃ w, eval ρ e = some w ∧ Mem w required) →
    InBox ρ s.an.variableBounds → InBox ρ (Analyzer.tightenList es required s).an.variableBounds
  | [], _, _, _, _, hb => by unfold Analyzer.tightenList; exact hb
  | e :: es, required, s, ih, hv, hb => by
    unfold Analyzer.tightenList
    obtain ⟨w, hw, hm⟩ := hv e (List.mem_cons_self ..)
    exact tightenList_inBox es required _ (fun e' he' => ih e' (List.mem_cons_of_mem _ he'))
      (fun e' he' => hv e' (List.mem_cons_of_mem _ he')) (ih e (List.mem_cons_self ..) required s w hb hw hm)

theorem finite_cases {x : Ext K} (h : Ext.isFinite x = true) : ∃ u, x = .fin u := by
  cases x <;> simp_all [Ext.isFinite]

theorem tightenExpression_ok : ∀ e : Exp (Ext K), TightenOK ρ e := by
  intro e
  induction e using expInd with
  | num x =>
    intro required s v hb hv hm
    unfold Analyzer.tightenExpression
    split; exact hb; split; exact hb; exact hb
  | var name =>
    intro required s v hb hv hm
    unfold Analyzer.tightenExpression
    split; exact hb; split; exact hb
    rename_i req' hreq
    have hm' : Mem v req' := mem_intersection hreq (boundsOf_mem _ _ hb _ _ hv) hm
    simp [eval] at hv; subst hv
    exact tightenVar_inBox s name req' hb hm'
  | abs e ih =>
    intro required s v hb hv hm
    unfold Analyzer.tightenExpression
    split; exact hb; split; exact hb
    rename_i req' hreq
    have hm' : Mem v req' := mem_intersection hreq (boundsOf_mem _ _ hb _ _ hv) hm
    simp only [eval, Option.map_eq_some_iff] at hv
    obtain ⟨w, hw, rfl⟩ := hv
    simp only [a_isFinite]
    split
    · rename_i hfin
      obtain ⟨u, hu⟩ := finite_cases hfin
      refine ih _ s w hb hw ?_
      rw [kabs_eq] at hm'
      have h2 := hm'.2
      rw [hu] at h2 ⊢
      have : |w| ≤ u := by simpa [Ext.le] using h2
      have := abs_le.1 this
      exact ⟨by simpa [Ext.neg, Ext.le] using this.1, by simpa [Ext.le] using this.2⟩
    · exact hb
  | min es ih =>
    intro required s v hb hv hm
    unfold Analyzer.tightenExpression
    split; exact hb; split; exact hb
    rename_i req' hreq
    have hm' : Mem v req' := mem_intersection hreq (boundsOf_mem _ _ hb _ _ hv) hm
    simp only [a_isFinite]
    split
    · rename_i hfin
      obtain ⟨u, hu⟩ := finite_cases hfin
      simp only [eval] at hv
      cases hl : evalList ρ es with
      | none => simp [hl] at hv
      | some vs =>
        cases vs with
        | nil => simp [hl] at hv
        | cons x xs =>
          simp [hl] at hv; subst hv
          refine tightenList_inBox ρ es _ s ih ?_ hb
          intro e he
          obtain ⟨w, hw, hew⟩ := evalList_mem es _ hl e he
          refine ⟨w, hew, ?_⟩
          have h1 := hm'.1; rw [hu] at h1 ⊢
          have h1 : u ≤ xs.foldl kmin x := by simpa [Ext.le] using h1
          have h2 : xs.foldl kmin x ≤ w := by
            rcases List.mem_cons.1 hw with rfl | h'
            · exact (foldl_kmin_le xs _).1
            · exact (foldl_kmin_le xs x).2 w h'
          exact ⟨by simpa [Ext.le] using le_trans h1 h2, by simp [Ext.le]⟩
    · exact hb
  | max es ih =>
    intro required s v hb hv hm
    unfold Analyzer.tightenExpression
    split; exact hb; split; exact hb
    rename_i req' hreq
    have hm' : Mem v req' := mem_intersection hreq (boundsOf_mem _ _ hb _ _ hv) hm
    simp only [a_isFinite]
    split
    · rename_i hfin
      obtain ⟨u, hu⟩ := finite_cases hfin
      simp only [eval] at hv
      cases hl : evalList ρ es with
      | none => simp [hl] at hv
      | some vs =>
        cases vs with
        | nil => simp [hl] at hv
        | cons x xs =>
          simp [hl] at hv; subst hv
          refine tightenList_inBox ρ es _ s ih ?_ hb
          intro e he
          obtain ⟨w, hw, hew⟩ := evalList_mem es _ hl e he
          refine ⟨w, hew, ?_⟩
          have h1 := hm'.2; rw [hu] at h1 ⊢
          have h1 : xs.foldl kmax x ≤ u := by simpa [Ext.le] using h1
          have h2 : w ≤ xs.foldl kmax x := by
            rcases List.mem_cons.1 hw with rfl | h'
            · exact (le_foldl_kmax xs _).1
            · exact (le_foldl_kmax xs x).2 w h'
          exact ⟨by simp [Ext.le], by simpa [Ext.le] using le_trans h2 h1⟩
    · exact hb
  | and es _ =>
    intro required s v hb hv hm
    unfold Analyzer.tightenExpression
    split; exact hb; split; exact hb; exact hb
  | or es _ =>
    intro required s v hb hv hm
    unfold Analyzer.tightenExpression
    split; exact hb; split; exact hb; exact hb
  | not e _ =>
    intro required s v hb hv hm
    unfold Analyzer.tightenExpression
    split; exact hb; split; exact hb; exact hb
  | xor a b _ _ =>
    intro required s v hb hv hm
    unfold Analyzer.tightenExpression
    split; exact hb; split; exact hb; exact hb
  | implies a b _ _ =>
    intro required s v hb hv hm
    unfold Analyzer.tightenExpression
    split; exact hb; split; exact hb; exact hb
  | iff a b _ _ =>
    intro required s v hb hv hm
    unfold Analyzer.tightenExpression
    split; exact hb; split; exact hb; exact hb
  | bin op a b iha ihb =>
    intro required s v hb hv hm
    unfold Analyzer.tightenExpression
    split; exact hb; split; exact hb
    rename_i req' hreq
    have hm' : Mem v req' := mem_intersection hreq (boundsOf_mem _ _ hb _ _ hv) hm
    simp only [eval, Option.bind_eq_bind, Option.bind_eq_some_iff] at hv
    obtain ⟨x, hx, y, hy, hv⟩ := hv
    have hxb := boundsOf_mem _ _ hb _ _ hx
    have hyb := boundsOf_mem _ _ hb _ _ hy
    cases op
    · -- add
      simp [binVal] at hv; subst hv
      simp only []
      refine ihb _ _ y (iha _ s x hb hx ?_) hy ?_
      · have := mem_sub hm hyb; simpa using this
      · have := mem_sub hm hxb; simpa using this
    · -- sub
      simp [binVal] at hv; subst hv
      simp only []
      refine ihb _ _ y (iha _ s x hb hx ?_) hy ?_
      · have := mem_add hm hyb; simpa using this
      · have := mem_sub hxb hm; simpa using this
    · -- mul
      simp [binVal] at hv; subst hv
      simp only []
      cases ha : a.asNum with
      | some c =>
        have := asNum_eq ha; subst this; have := eval_num_some hx; subst this
        simp only [a_ne, a_zero, Ext.eq, ef_eq]
        split
        · rename_i hc
          have hc : x ≠ 0 := by simpa using hc
          refine ihb _ s y hb hy ?_
          have := mem_divBy x hm hc
          rwa [mul_div_cancel_left₀ _ hc] at this
        · exact hb
      | none =>
        simp only []
        cases hb' : b.asNum with
        | some c =>
          have := asNum_eq hb'; subst this; have := eval_num_some hy; subst this
          simp only [a_ne, a_zero, Ext.eq, ef_eq]
          split
          · rename_i hc
            have hc : y ≠ 0 := by simpa using hc
            refine iha _ s x hb hx ?_
            have := mem_divBy y hm hc
            rwa [mul_div_cancel_right₀ _ hc] at this
          · exact hb
        | none => exact hb
    · -- div
      simp only [binVal, Sem.kzero, ef_eq, ef_ofInt, Int.cast_zero, decide_eq_true_eq, ef_div] at hv
      split at hv
      · cases hv
      · cases hv
        rename_i hy0
        simp only []
        cases hb' : b.asNum with
        | some c =>
          have := asNum_eq hb'; subst this; have := eval_num_some hy; subst this
          simp only [a_ne, a_zero, Ext.eq, ef_eq, hy0, decide_false, Bool.not_false, if_true]
          refine iha _ s x hb hx ?_
          have := mem_scale y hm
          rwa [div_mul_cancel₀ _ hy0] at this
        | none => exact hb
    all_goals exact hb
  | un op e ih =>
    intro required s v hb hv hm
    unfold Analyzer.tightenExpression
    split; exact hb; split; exact hb
    rename_i req' hreq
    have hm' : Mem v req' := mem_intersection hreq (boundsOf_mem _ _ hb _ _ hv) hm
    cases op
    · simp only [eval, Option.map_eq_some_iff] at hv
      obtain ⟨w, hw, rfl⟩ := hv
      refine ih _ s w hb hw ?_
      have := mem_neg hm; simpa using this
    · exact hb

end

end BoundsProofs
end Rooc
