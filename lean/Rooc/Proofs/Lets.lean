/-
Helper lemmas and the inductive core of the `where`-section soundness theorems of `Props/C19.lean`
(model: `Rooc/Pre/Lets.lean`).
-/
import Rooc.Pre.Lets
import Rooc.Proofs.Kinds
namespace Rooc.Proofs.Lets
set_option linter.unusedSectionVars false
set_option linter.unusedSimpArgs false
open Rooc Rooc.Pre Rooc.Proofs.Kinds
variable {α : Type} [Arith α] [ToU64 α]

/-! ### the `where` section -/

theorem scalarAgrees_iff (p : Prim α) (k : Kind) (hp : p.isScalar = true) :
    scalarAgrees p.kind k = true ↔ kindClass p.kind = kindClass k := by
  cases p <;> cases k <;> simp_all [scalarAgrees, kindClass, Prim.kind, Prim.isScalar]

theorem isScalar_proper (p : Prim α) (hp : p.isScalar = true) : p.proper = true := by
  cases p <;> simp_all [Prim.isScalar, Prim.proper]

theorem applyUnary_isScalar (a : Prim α) (op : UnOp) (v : Prim α) (he : applyUnary op a = .ok v) : v.isScalar = true := by
  cases a with
  | other k => cases k <;> simp_all [applyUnary]
  | integer i => cases op <;> simp_all [applyUnary, ofI64]; split at he <;> simp_all; subst he; rfl
  | pint u => cases op <;> simp_all [applyUnary, ofI64]; split at he <;> simp_all; subst he; rfl
  | boolean b => cases op <;> simp_all [applyUnary] <;> (subst he; rfl)
  | number x => cases op <;> simp_all [applyUnary]; subst he; rfl
  | string s => cases op <;> simp_all [applyUnary]

theorem applyBinary_isScalar (a b : Prim α) (op : BinOp) (v : Prim α) (he : applyBinary a op b = .ok v) : v.isScalar = true := by
  cases a with
  | other k => cases k <;> simp_all [applyBinary]
  | number x =>
    cases b <;> cases op <;> simp_all [applyBinary, applyBinNumber, floatArith, checkedDiv] <;>
      (try (split at he <;> simp_all)) <;> (try (subst he; rfl))
  | integer i =>
    cases b <;> cases op <;> simp_all [applyBinary, applyBinInteger, floatArith, checkedDiv, ofI64] <;>
      (try (split at he <;> simp_all)) <;> (try (subst he; rfl))
  | pint u =>
    cases b <;> cases op <;> simp_all [applyBinary, applyBinPint, floatArith, checkedDiv, ofI64, ofU64] <;>
      (try (split at he <;> simp_all)) <;> (try (subst he; rfl))
  | boolean x =>
    cases b <;> cases op <;> simp_all [applyBinary, applyBinBoolean, isLogic, applyBinNumber, floatArith, checkedDiv] <;>
      (try (split at he <;> simp_all)) <;> (try (subst he; rfl))
  | string s => cases b <;> cases op <;> simp_all [applyBinary, applyBinString] <;> (try (subst he; rfl))

/-- what a value that inhabits `k` looks like -/
theorem agrees_cases (v : TVal α) (k : Kind) (h : v.agrees k = true) :
    (∃ p, v = .scalar p ∧ p.isScalar = true ∧ kindClass p.kind = kindClass k) ∨
    (∃ e vs k', v = .arr e vs ∧ k = .iter k' ∧ agreesList vs k' = true) ∨
    (∃ vs ks, v = .tuple vs ∧ k = .tuple ks ∧ agreesTuple vs ks = true) := by
  cases v with
  | scalar p =>
    left
    simp only [TVal.agrees, Bool.and_eq_true] at h
    exact ⟨p, rfl, h.1, (scalarAgrees_iff p k h.1).1 h.2⟩
  | arr e vs =>
    right; left
    cases k <;> simp [TVal.agrees] at h
    exact ⟨e, vs, _, rfl, rfl, h⟩
  | tuple vs =>
    right; right
    cases k <;> simp [TVal.agrees] at h
    exact ⟨vs, _, rfl, rfl, h⟩

theorem scalar_agrees (p : Prim α) (k : Kind) (hp : p.isScalar = true) (hc : kindClass p.kind = kindClass k) :
    (TVal.scalar p).agrees k = true := by
  simp [TVal.agrees, hp, (scalarAgrees_iff p k hp).2 hc]

theorem scalar_canBin_iter (p : Prim α) (hp : p.isScalar = true) (op : BinOp) (k : Kind) :
    p.kind.canApplyBinary op (.iter k) = false := by
  cases p <;> cases op <;> simp_all [Prim.isScalar, Prim.kind, Kind.canApplyBinary, canBinArith, canBinBool, canBinString, isLogic, Kind.isNumeric, BEq.beq, Kind.beq]

theorem scalar_canBin_tuple (p : Prim α) (hp : p.isScalar = true) (op : BinOp) (ks : List Kind) :
    p.kind.canApplyBinary op (.tuple ks) = false := by
  cases p <;> cases op <;> simp_all [Prim.isScalar, Prim.kind, Kind.canApplyBinary, canBinArith, canBinBool, canBinString, isLogic, Kind.isNumeric, BEq.beq, Kind.beq]

/-- soundness of one expression in an environment the context describes -/
def Sound (g : Ctx) (r : VEnv α) (e : TE α) : Prop :=
  (∀ v, e.eval r = .ok v → v.agrees (e.typeOf g) = true) ∧ (∀ err, e.eval r = .error err → err.dataDependent = true)

theorem un_sound (x : TVal α) (k : Kind) (op : UnOp) (hx : x.agrees k = true) (hc : k.canApplyUnary op = true) :
    (∀ v, liftOp (applyUnary op x.prim) TErr.unOpError = .ok v → v.agrees (unResultKind op k) = true) ∧
    (∀ err, liftOp (applyUnary op x.prim) TErr.unOpError = .error err → err.dataDependent = true) := by
  rcases agrees_cases x k hx with ⟨p, rfl, hp, hcl⟩ | ⟨e, vs, k', rfl, rfl, _⟩ | ⟨ts, ks, rfl, rfl, _⟩
  · have hpp := isScalar_proper p hp
    have hcan : p.kind.canApplyUnary op = true := by rw [canUn_class op hcl]; exact hc
    constructor
    · intro v hv
      simp only [liftOp, TVal.prim] at hv
      split at hv
      · rename_i q hq
        simp at hv; subst hv
        apply scalar_agrees q _ (applyUnary_isScalar p op q hq)
        rw [preservation_unary_class p op hpp q hq]
        exact unResult_class op hcl
      · simp at hv
    · intro err hv
      simp only [liftOp, TVal.prim] at hv
      split at hv
      · simp at hv
      · rename_i c hq
        simp at hv; subst hv
        have := progress_unary p op hcan hpp c hq
        subst this; rfl
  · simp [Kind.canApplyUnary] at hc
  · simp [Kind.canApplyUnary] at hc

theorem bin_sound (x y : TVal α) (l r : Kind) (op : BinOp) (hx : x.agrees l = true) (hy : y.agrees r = true)
    (hc : l.canApplyBinary op r = true) :
    (∀ v, liftOp (applyBinary x.prim op y.prim) TErr.binOpError = .ok v → v.agrees (binResultKind l op r) = true) ∧
    (∀ err, liftOp (applyBinary x.prim op y.prim) TErr.binOpError = .error err → err.dataDependent = true) := by
  rcases agrees_cases x l hx with ⟨p, rfl, hp, hcl⟩ | ⟨e, vs, k', rfl, rfl, _⟩ | ⟨ts, ks, rfl, rfl, _⟩
  · rcases agrees_cases y r hy with ⟨q, rfl, hq, hcr⟩ | ⟨e, vs, k', rfl, rfl, _⟩ | ⟨ts, ks, rfl, rfl, _⟩
    · have hpp := isScalar_proper p hp
      have hqp := isScalar_proper q hq
      have hcan : p.kind.canApplyBinary op q.kind = true := by
        rw [canBin_class_left op q.kind hcl, canBin_class_right l op hcr]; exact hc
      constructor
      · intro v hv
        simp only [liftOp, TVal.prim] at hv
        split at hv
        · rename_i w hw
          simp at hv; subst hv
          apply scalar_agrees w _ (applyBinary_isScalar p q op w hw)
          rw [preservation_binary p q op hpp hqp w hw]
          exact binResult_class op hcl hcr
        · simp at hv
      · intro err hv
        simp only [liftOp, TVal.prim] at hv
        split at hv
        · simp at hv
        · rename_i c hw
          simp at hv; subst hv
          rcases progress_binary p q op hcan hpp hqp c hw with rfl | rfl <;> rfl
    · rw [← canBin_class_left op _ hcl, scalar_canBin_iter p hp] at hc
      simp at hc
    · rw [← canBin_class_left op _ hcl, scalar_canBin_tuple p hp] at hc
      simp at hc
  · simp [Kind.canApplyBinary] at hc
  · simp [Kind.canApplyBinary] at hc

theorem agreesList_get (vs : List (TVal α)) (k : Kind) (h : agreesList vs k = true) (n : Nat) (x : TVal α)
    (hx : vs[n]? = some x) : x.agrees k = true := by
  induction vs generalizing n with
  | nil => simp at hx
  | cons v vs ih =>
    simp only [agreesList, Bool.and_eq_true] at h
    cases n with
    | zero => simp at hx; subst hx; exact h.1
    | succ n => simp at hx; exact ih h.2 n hx

theorem readV_error (a : TVal α) (is : List Nat) (err : TErr) (h : readV a is = .error err) : err = .outOfBounds := by
  induction is generalizing a with
  | nil => simp [readV] at h
  | cons i rest ih =>
    cases a with
    | scalar p => simp [readV] at h; exact h.symm
    | tuple ts => simp [readV] at h; exact h.symm
    | arr e vs =>
      cases rest with
      | nil => simp only [readV] at h; split at h <;> simp at h; exact h.symm
      | cons j rest' =>
        cases e with
        | iter e0 =>
          simp only [readV] at h
          split at h
          · exact ih _ h
          · simp at h; exact h.symm
        | _ => simp [readV] at h; exact h.symm

theorem readV_agrees (g : Ctx) (idx : List (TE α)) : ∀ (is : List Nat) (a : TVal α) (k : Kind), is.length = idx.length →
    a.agrees k = true → accessOk g k idx = true → ∀ v, readV a is = .ok v → v.agrees (accessKind g k idx) = true := by
  induction idx with
  | nil =>
    intro is a k hl ha _ v hv
    cases is with
    | nil => simp [readV] at hv; subst hv; simpa [accessKind] using ha
    | cons _ _ => simp at hl
  | cons i rest ih =>
    intro is a k hl ha hok v hv
    cases is with
    | nil => simp at hl
    | cons n ns =>
      unfold accessOk at hok; rw [Bool.and_eq_true] at hok
      obtain ⟨hnum, hk⟩ := hok
      cases k <;> (try (simp at hk))
      rename_i e
      rcases agrees_cases a _ ha with ⟨p, rfl, _, hcl⟩ | ⟨e', vs, k', rfl, hke, hvs⟩ | ⟨ts, ks, rfl, hke, _⟩
      · simp [readV] at hv
      rotate_left
      · cases hke
      · cases hke
        simp only [accessKind, hnum, Bool.not_true, Bool.false_eq_true, ↓reduceIte]
        cases ns with
        | nil =>
          have hr : rest = [] := by cases rest with | nil => rfl | cons _ _ => simp at hl
          subst hr
          simp only [readV] at hv
          split at hv
          · rename_i x hx; simp at hv; subst hv; simpa [accessKind] using agreesList_get vs _ hvs n x hx
          · simp at hv
        | cons j ns' =>
          cases e' with
          | iter e0 =>
            simp only [readV] at hv
            split at hv
            · rename_i e2 ws hx
              exact ih (j :: ns') (.arr e2 ws) _ (by simpa using hl) (agreesList_get vs _ hvs n _ hx) hk v hv
            · simp at hv
          | _ => simp [readV] at hv

theorem accessOk_numeric (g : Ctx) (idx : List (TE α)) : ∀ k, accessOk g k idx = true → ∀ i ∈ idx, (i.typeOf g).isNumeric = true := by
  induction idx with
  | nil => intro k _ i hi; simp at hi
  | cons j rest ih =>
    intro k hok i hi
    unfold accessOk at hok; rw [Bool.and_eq_true] at hok
    cases k <;> (try (simp at hok))
    rcases List.mem_cons.1 hi with rfl | hm
    · exact hok.1
    · exact ih _ hok.2 i hm

theorem usizeOf_error (x : TVal α) (k : Kind) (hx : x.agrees k = true) (hk : k.isNumeric = true) (err : TErr)
    (h : usizeOf x = .error err) : err = .other := by
  rcases agrees_cases x k hx with ⟨p, rfl, hp, hcl⟩ | ⟨e, vs, k', rfl, rfl, _⟩ | ⟨ts, ks, rfl, rfl, _⟩
  · have : p.kind.isNumeric = true := by rw [class_isNumeric hcl]; exact hk
    simp only [usizeOf] at h
    split at h
    · simp at h
    · simp [this] at h; exact h.symm
  · simp [Kind.isNumeric] at hk
  · simp [Kind.isNumeric] at hk

theorem intOf_error (x : TVal α) (k : Kind) (hx : x.agrees k = true) (hk : k.isNumeric = true) (err : TErr)
    (h : intOf x = .error err) : err = .other := by
  rcases agrees_cases x k hx with ⟨p, rfl, hp, hcl⟩ | ⟨e, vs, k', rfl, rfl, _⟩ | ⟨ts, ks, rfl, rfl, _⟩
  · have : p.kind.isNumeric = true := by rw [class_isNumeric hcl]; exact hk
    simp only [intOf] at h
    split at h
    · simp at h
    · simp [this] at h; exact h.symm
  · simp [Kind.isNumeric] at hk
  · simp [Kind.isNumeric] at hk

theorem evalIdx_sound (g : Ctx) (r : VEnv α) (idx : List (TE α)) (hs : ∀ i ∈ idx, Sound g r i)
    (hn : ∀ i ∈ idx, (i.typeOf g).isNumeric = true) :
    (∀ ns, evalIdx r idx = .ok ns → ns.length = idx.length) ∧ (∀ err, evalIdx r idx = .error err → err.dataDependent = true) := by
  induction idx with
  | nil => simp [evalIdx, pure, Except.pure]
  | cons i rest ih =>
    obtain ⟨ih1, ih2⟩ := ih (fun j hj => hs j (by simp [hj])) (fun j hj => hn j (by simp [hj]))
    obtain ⟨s1, s2⟩ := hs i (by simp)
    have hni := hn i (by simp)
    constructor
    · intro ns h
      simp only [evalIdx] at h
      cases hv : i.eval r with
      | error e => simp [hv, bind, Except.bind] at h
      | ok v =>
        cases hu : usizeOf v with
        | error e => simp [hv, hu, bind, Except.bind] at h
        | ok n =>
          cases hr : evalIdx r rest with
          | error e => simp [hv, hu, hr, bind, Except.bind] at h
          | ok ms => simp [hv, hu, hr, bind, Except.bind, pure, Except.pure] at h; subst h; simp [ih1 ms hr]
    · intro err h
      simp only [evalIdx] at h
      cases hv : i.eval r with
      | error e => simp [hv, bind, Except.bind] at h; subst h; exact s2 _ hv
      | ok v =>
        cases hu : usizeOf v with
        | error e => simp [hv, hu, bind, Except.bind] at h; subst h; rw [usizeOf_error v _ (s1 v hv) hni e hu]; rfl
        | ok n =>
          cases hr : evalIdx r rest with
          | error e => simp [hv, hu, hr, bind, Except.bind] at h; subst h; exact ih2 _ hr
          | ok ms => simp [hv, hu, hr, bind, Except.bind, pure, Except.pure] at h

theorem bind_ok_unit {ε β : Type} (x : Except ε Unit) (f : Unit → Except ε β) (b : β) (h : (x >>= f) = .ok b) :
    x = .ok () ∧ f () = .ok b := by
  cases x with
  | error e => simp [bind, Except.bind] at h
  | ok u => exact ⟨rfl, by simpa [bind, Except.bind] using h⟩

theorem ite_ok {ε : Type} (c : Bool) (e : ε) (h : (if c = true then Except.ok () else Except.error e) = .ok ()) : c = true := by
  cases c <;> simp_all

theorem agrees_iter (x : TVal α) (k : Kind) (hx : x.agrees k = true) (hk : k.isIter = true) : ∃ e vs, x = .arr e vs := by
  rcases agrees_cases x k hx with ⟨p, rfl, hp, hcl⟩ | ⟨e, vs, k', rfl, rfl, _⟩ | ⟨ts, ks, rfl, rfl, _⟩
  · cases k <;> simp [Kind.isIter] at hk
    cases p <;> simp_all [kindClass, Prim.kind, Prim.isScalar]
  · exact ⟨e, vs, rfl⟩
  · simp [Kind.isIter] at hk

theorem agrees_boolean (x : TVal α) (k : Kind) (hx : x.agrees k = true) (hk : (k == Kind.boolean) = true) : ∃ b, x = .scalar (.boolean b) := by
  have hk' : k = .boolean := by cases k <;> simp_all [BEq.beq, Kind.beq]
  subst hk'
  rcases agrees_cases x _ hx with ⟨p, rfl, hp, hcl⟩ | ⟨e, vs, k', rfl, hke, _⟩ | ⟨ts, ks, rfl, hke, _⟩
  · cases p <;> simp_all [kindClass, Prim.kind, Prim.isScalar]
  · cases hke
  · cases hke

theorem agreesList_map {β : Type} (l : List β) (f : β → TVal α) (k : Kind) (h : ∀ i, (f i).agrees k = true) :
    agreesList (l.map f) k = true := by
  induction l with
  | nil => rfl
  | cons x xs ih => simp [agreesList, h x, ih]

theorem range_returns (k1 k2 k3 : Kind) : fnReturnType "range" [k1, k2, k3] = .iter .integer := by
  cases k1 <;> cases k2 <;> rfl

theorem enumerateT_agrees (vs : List (TVal α)) (k : Kind) (h : agreesList vs k = true) : ∀ i,
    agreesList (enumerateT vs i) (.tuple [k, .pint]) = true := by
  induction vs with
  | nil => intro i; rfl
  | cons v vs ih =>
    intro i
    simp only [agreesList, Bool.and_eq_true] at h
    simp [enumerateT, agreesList, TVal.agrees, agreesTuple, h.1, ih h.2, Prim.isScalar, scalarAgrees, kindClass, Prim.kind]

/-- the rows of a `zip` inhabit the element kinds of its operands -/
def rowsAgree : List (List (TVal α)) → List Kind → Bool
  | [], [] => true
  | vs :: rs, k :: ks => agreesList vs k && rowsAgree rs ks
  | _, _ => false

theorem headsTails_agree : ∀ (rows : List (List (TVal α))) (ks : List Kind) (hs : List (TVal α)) (ts : List (List (TVal α))),
    rowsAgree rows ks = true → headsTails rows = some (hs, ts) → agreesTuple hs ks = true ∧ rowsAgree ts ks = true
  | [], [], hs, ts, _, h => by simp [headsTails] at h; obtain ⟨rfl, rfl⟩ := h; simp [agreesTuple, rowsAgree]
  | [], _ :: _, _, _, hr, _ => by simp [rowsAgree] at hr
  | _ :: _, [], _, _, hr, _ => by simp [rowsAgree] at hr
  | [] :: rest, k :: ks, hs, ts, _, h => by simp [headsTails] at h
  | (x :: xs) :: rest, k :: ks, hs, ts, hr, h => by
    simp only [rowsAgree, agreesList, Bool.and_eq_true] at hr
    simp only [headsTails] at h
    cases hh : headsTails rest with
    | none => simp [hh] at h
    | some p =>
      obtain ⟨hs', ts'⟩ := p
      simp [hh] at h
      obtain ⟨rfl, rfl⟩ := h
      obtain ⟨h1, h2⟩ := headsTails_agree rest ks hs' ts' hr.2 hh
      simp [agreesTuple, rowsAgree, hr.1.1, hr.1.2, h1, h2]

theorem zipT_agrees : ∀ (n : Nat) (rows : List (List (TVal α))) (ks : List Kind), rowsAgree rows ks = true →
    agreesList (zipT n rows) (.tuple ks) = true
  | 0, _, _, _ => rfl
  | n + 1, rows, ks, hr => by
    simp only [zipT]
    cases hh : headsTails rows with
    | none => rfl
    | some p =>
      obtain ⟨hs, ts⟩ := p
      obtain ⟨h1, h2⟩ := headsTails_agree rows ks hs ts hr hh
      simp [agreesList, TVal.agrees, h1, zipT_agrees n ts ks h2]

theorem typeOfList_all (g : Ctx) : ∀ (args : List (TE α)), (typeOfList g args).all Kind.isIter = true → ∀ e ∈ args, (e.typeOf g).isIter = true
  | [], _, e, he => by simp at he
  | a :: rest, h, e, he => by
    simp only [typeOfList, List.all_cons, Bool.and_eq_true] at h
    rcases List.mem_cons.1 he with rfl | hm
    · exact h.1
    · exact typeOfList_all g rest h.2 e hm

theorem typeOfList_map (g : Ctx) : ∀ (args : List (TE α)), typeOfList g args = args.map (fun e => e.typeOf g)
  | [] => rfl
  | a :: rest => by simp [typeOfList, typeOfList_map g rest]

/-- every operand of a `zip` evaluates to an array whose elements inhabit its static element kind -/
theorem evalArrs_sound (g : Ctx) (r : VEnv α) : ∀ (args : List (TE α)), (∀ e ∈ args, Sound g r e) →
    (∀ e ∈ args, (e.typeOf g).isIter = true) →
    (∀ rows, evalArrs r args = .ok rows → rowsAgree (rows.map Prod.snd) (args.map (fun e => (e.typeOf g).iterInner)) = true) ∧
    (∀ err, evalArrs r args = .error err → err.dataDependent = true)
  | [], _, _ => by simp [evalArrs, rowsAgree]
  | a :: rest, hs, hi => by
    obtain ⟨ih1, ih2⟩ := evalArrs_sound g r rest (fun e he => hs e (by simp [he])) (fun e he => hi e (by simp [he]))
    obtain ⟨s1, s2⟩ := hs a (by simp)
    have hia := hi a (by simp)
    obtain ⟨k', hk'⟩ : ∃ k', a.typeOf g = .iter k' := by cases hh : a.typeOf g <;> simp_all [Kind.isIter]
    constructor
    · intro rows h
      simp only [evalArrs] at h
      cases hx : a.eval r with
      | error x => simp [hx, bind, Except.bind] at h
      | ok x =>
        have hxa := s1 x hx
        rw [hk'] at hxa
        rcases agrees_cases x _ hxa with ⟨p, rfl, hp, hcl⟩ | ⟨e, vs, k2, rfl, hk2, hvs⟩ | ⟨ts, ks, rfl, hke, _⟩
        · cases p <;> simp_all [kindClass, Prim.kind, Prim.isScalar]
        · cases hk2
          cases hr : evalArrs r rest with
          | error y => simp [hx, hr, bind, Except.bind] at h
          | ok rs =>
            simp [hx, hr, bind, Except.bind, pure, Except.pure] at h; subst h
            rw [List.map_cons, List.map_cons]
            simp only [rowsAgree, Bool.and_eq_true]
            refine ⟨?_, ih1 rs hr⟩
            rw [hk']; exact hvs
        · cases hke
    · intro err h
      simp only [evalArrs] at h
      cases hx : a.eval r with
      | error x => simp [hx, bind, Except.bind] at h; subst h; exact s2 _ hx
      | ok x =>
        obtain ⟨e, vs, rfl⟩ := agrees_iter x _ (s1 x hx) hia
        cases hr : evalArrs r rest with
        | error y => simp [hx, hr, bind, Except.bind] at h; subst h; exact ih2 _ hr
        | ok rs => simp [hx, hr, bind, Except.bind, pure, Except.pure] at h

theorem not_not_true {b : Bool} (h : (!b) = false) : b = true := by cases b <;> simp_all

mutual
theorem sound_expr (g : Ctx) (r : VEnv α) (hgr : EnvCovers g r) : (e : TE α) → e.wf = true → e.typeCheck g = .ok () → Sound g r e
  | .lit v, hw, _ => by
    constructor
    · intro x hx; simp [TE.eval] at hx; subst hx; simpa [TE.typeOf, TE.wf] using hw
    · intro err h; simp [TE.eval] at h
  | .var n, _, ht => by
    simp only [TE.typeCheck] at ht
    cases hgn : g.get n with
    | none => simp [hgn] at ht
    | some k =>
      obtain ⟨x, hrx, hxa⟩ := hgr n k hgn
      constructor
      · intro v hv
        simp [TE.eval, hrx] at hv; subst hv
        simpa [TE.typeOf, hgn] using hxa
      · intro err hv
        simp [TE.eval, hrx] at hv
  | .un op e, hw, ht => by
    simp only [TE.wf] at hw
    simp only [TE.typeCheck] at ht
    obtain ⟨h1, h2⟩ := bind_ok_unit _ _ _ ht
    have hcan := ite_ok _ _ h2
    obtain ⟨s1, s2⟩ := sound_expr g r hgr e hw h1
    constructor
    · intro v hv
      simp only [TE.eval] at hv
      cases hx : e.eval r with
      | error x => simp [hx, bind, Except.bind] at hv
      | ok x =>
        simp only [hx, bind, Except.bind] at hv
        exact (un_sound x _ op (s1 x hx) hcan).1 v hv
    · intro err hv
      simp only [TE.eval] at hv
      cases hx : e.eval r with
      | error x => simp [hx, bind, Except.bind] at hv; subst hv; exact s2 _ hx
      | ok x =>
        simp only [hx, bind, Except.bind] at hv
        exact (un_sound x _ op (s1 x hx) hcan).2 err hv
  | .bin op a b, hw, ht => by
    simp only [TE.wf, Bool.and_eq_true] at hw
    simp only [TE.typeCheck] at ht
    obtain ⟨h1, h2⟩ := bind_ok_unit _ _ _ ht
    obtain ⟨h3, h4⟩ := bind_ok_unit _ _ _ h2
    have hcan := ite_ok _ _ h4
    obtain ⟨a1, a2⟩ := sound_expr g r hgr a hw.1 h1
    obtain ⟨b1, b2⟩ := sound_expr g r hgr b hw.2 h3
    constructor
    · intro v hv
      simp only [TE.eval] at hv
      cases hx : a.eval r with
      | error x => simp [hx, bind, Except.bind] at hv
      | ok x =>
        cases hy : b.eval r with
        | error y => simp [hx, hy, bind, Except.bind] at hv
        | ok y =>
          simp only [hx, hy, bind, Except.bind] at hv
          exact (bin_sound x y _ _ op (a1 x hx) (b1 y hy) hcan).1 v hv
    · intro err hv
      simp only [TE.eval] at hv
      cases hx : a.eval r with
      | error x => simp [hx, bind, Except.bind] at hv; subst hv; exact a2 _ hx
      | ok x =>
        cases hy : b.eval r with
        | error y => simp [hx, hy, bind, Except.bind] at hv; subst hv; exact b2 _ hy
        | ok y =>
          simp only [hx, hy, bind, Except.bind] at hv
          exact (bin_sound x y _ _ op (a1 x hx) (b1 y hy) hcan).2 err hv
  | .access n idx, hw, ht => by
    simp only [TE.wf, Bool.and_eq_true] at hw
    simp only [TE.typeCheck] at ht
    obtain ⟨h1, h2⟩ := bind_ok_unit _ _ _ ht
    have hs := sound_list g r hgr idx hw.2 h1
    cases hgn : g.get n with
    | none => simp [hgn] at h2
    | some k =>
      obtain ⟨a, hrn, h⟩ := hgr n k hgn
      · simp only [hgn] at h2
        have hok : accessOk g k idx = true := by
          cases hc : accessOk g k idx with
          | true => rfl
          | false => simp [hc] at h2
        obtain ⟨i1, i2⟩ := evalIdx_sound g r idx hs (accessOk_numeric g idx k hok)
        constructor
        · intro v hv
          simp only [TE.eval, hrn] at hv
          cases hi : evalIdx r idx with
          | error x => simp [hi, bind, Except.bind] at hv
          | ok is =>
            simp only [hi, bind, Except.bind] at hv
            cases a with
            | scalar p => simp at hv
            | tuple ts => simp at hv
            | arr e vs =>
              simp only at hv
              simpa [TE.typeOf, hgn] using readV_agrees g idx is _ k (i1 is hi) h hok v hv
        · intro err hv
          simp only [TE.eval, hrn] at hv
          cases hi : evalIdx r idx with
          | error x => simp [hi, bind, Except.bind] at hv; subst hv; exact i2 _ hi
          | ok is =>
            simp only [hi, bind, Except.bind] at hv
            cases a with
            | scalar p =>
              -- the static kind of an indexed name is an `Iterable` (there is at least one index)
              exfalso
              cases idx with
              | nil => simp at hw
              | cons i rest =>
                unfold accessOk at hok
                rw [Bool.and_eq_true] at hok
                cases k <;> (try (simp at hok))
                simp only [TVal.agrees, Bool.and_eq_true] at h
                obtain ⟨hp, hsa⟩ := h
                cases p <;> simp_all [scalarAgrees, kindClass, Prim.kind, Prim.isScalar]
            | tuple ts =>
              exfalso
              cases idx with
              | nil => simp at hw
              | cons i rest =>
                unfold accessOk at hok
                rw [Bool.and_eq_true] at hok
                cases k <;> (try (simp at hok))
                simp [TVal.agrees] at h
            | arr e vs =>
              simp only at hv
              rw [readV_error _ _ _ hv]; rfl
  | .call f args, hw, ht => by
    simp only [TE.wf, Bool.and_eq_true, Bool.or_eq_true, beq_iff_eq] at hw
    simp only [TE.typeCheck] at ht
    obtain ⟨h1, h2⟩ := bind_ok_unit _ _ _ ht
    have hs := sound_list g r hgr args hw.2 h1
    rcases hw.1 with (((rfl | rfl) | rfl) | rfl) | rfl
    · -- `len`
      match args, hs, h2 with
      | [], _, h2 => simp [typeOfList, fnTypeCheck] at h2
      | _ :: _ :: _, _, h2 => simp [typeOfList, fnTypeCheck] at h2
      | [a], hs, h2 =>
        obtain ⟨s1, s2⟩ := hs a (by simp)
        have hit : (a.typeOf g).isIter = true := by
          cases hc : (a.typeOf g).isIter with
          | true => rfl
          | false => simp [typeOfList, fnTypeCheck, hc] at h2
        constructor
        · intro v hv
          simp only [TE.eval] at hv
          cases hx : a.eval r with
          | error x => simp [hx, bind, Except.bind] at hv
          | ok x =>
            obtain ⟨e, vs, rfl⟩ := agrees_iter x _ (s1 x hx) hit
            simp [hx, bind, Except.bind] at hv; subst hv
            simp [TE.typeOf, fnReturnType, TVal.agrees, Prim.isScalar, scalarAgrees, kindClass, Prim.kind]
        · intro err hv
          simp only [TE.eval] at hv
          cases hx : a.eval r with
          | error x => simp [hx, bind, Except.bind] at hv; subst hv; exact s2 _ hx
          | ok x =>
            obtain ⟨e, vs, rfl⟩ := agrees_iter x _ (s1 x hx) hit
            simp [hx, bind, Except.bind] at hv
    · -- `range`
      match args, hs, h2 with
      | [], _, h2 => simp [typeOfList, fnTypeCheck] at h2
      | [_], _, h2 => simp [typeOfList, fnTypeCheck] at h2
      | [_, _], _, h2 => simp [typeOfList, fnTypeCheck] at h2
      | _ :: _ :: _ :: _ :: _, _, h2 => simp [typeOfList, fnTypeCheck] at h2
      | [a, b, c], hs, h2 =>
        obtain ⟨a1, a2⟩ := hs a (by simp)
        obtain ⟨b1, b2⟩ := hs b (by simp)
        obtain ⟨c1, c2⟩ := hs c (by simp)
        simp only [typeOfList, fnTypeCheck] at h2
        have hna : (a.typeOf g).isNumeric = true := by
          cases hc : (a.typeOf g).isNumeric with | true => rfl | false => simp [hc] at h2
        have hnb : (b.typeOf g).isNumeric = true := by
          cases hc : (b.typeOf g).isNumeric with | true => rfl | false => simp [hna, hc] at h2
        have hbc : (c.typeOf g == Kind.boolean) = true := by
          cases hc : (c.typeOf g == Kind.boolean) with | true => rfl | false => simp [hna, hnb, hc] at h2
        constructor
        · intro v hv
          simp only [TE.eval] at hv
          cases hx : a.eval r with
          | error x => simp [hx, bind, Except.bind] at hv
          | ok x =>
            cases hlo : intOf x with
            | error e => simp [hx, hlo, bind, Except.bind] at hv
            | ok lo =>
              cases hy : b.eval r with
              | error y => simp [hx, hlo, hy, bind, Except.bind] at hv
              | ok y =>
                cases hhi : intOf y with
                | error e => simp [hx, hlo, hy, hhi, bind, Except.bind] at hv
                | ok hi =>
                  cases hz : c.eval r with
                  | error z => simp [hx, hlo, hy, hhi, hz, bind, Except.bind] at hv
                  | ok z =>
                    obtain ⟨inc, rfl⟩ := agrees_boolean z _ (c1 z hz) hbc
                    simp only [hx, hlo, hy, hhi, hz, bind, Except.bind] at hv
                    have fin : ∀ (w : TVal α), w = (TVal.arr (if rangeIsPositive lo hi = true then Kind.pint else Kind.integer)
                        (List.map (fun i => TVal.scalar (if rangeIsPositive lo hi = true then Prim.pint i.toNat else Prim.integer i))
                          (rangeVals lo hi inc))) → w.agrees (TE.typeOf g (TE.call "range" [a, b, c])) = true := by
                      intro w hw'; subst hw'
                      simp only [TE.typeOf, typeOfList, range_returns, TVal.agrees]
                      apply agreesList_map
                      intro i
                      split <;> simp [TVal.agrees, Prim.isScalar, scalarAgrees, kindClass, Prim.kind]
                    split at hv <;> split at hv <;> first | (simp at hv; done) | (simp at hv; exact fin v hv.symm)
        · intro err hv
          simp only [TE.eval] at hv
          cases hx : a.eval r with
          | error x => simp [hx, bind, Except.bind] at hv; subst hv; exact a2 _ hx
          | ok x =>
            cases hlo : intOf x with
            | error e => simp [hx, hlo, bind, Except.bind] at hv; subst hv; rw [intOf_error x _ (a1 x hx) hna e hlo]; rfl
            | ok lo =>
              cases hy : b.eval r with
              | error y => simp [hx, hlo, hy, bind, Except.bind] at hv; subst hv; exact b2 _ hy
              | ok y =>
                cases hhi : intOf y with
                | error e => simp [hx, hlo, hy, hhi, bind, Except.bind] at hv; subst hv; rw [intOf_error y _ (b1 y hy) hnb e hhi]; rfl
                | ok hi =>
                  cases hz : c.eval r with
                  | error z => simp [hx, hlo, hy, hhi, hz, bind, Except.bind] at hv; subst hv; exact c2 _ hz
                  | ok z =>
                    obtain ⟨inc, rfl⟩ := agrees_boolean z _ (c1 z hz) hbc
                    simp only [hx, hlo, hy, hhi, hz, bind, Except.bind] at hv
                    split at hv <;> split at hv <;> first | (simp at hv; done) | (simp at hv; subst hv; rfl)
    · -- `enumerate`
      match args, hs, h2 with
      | [], _, h2 => simp [typeOfList, fnTypeCheck] at h2
      | _ :: _ :: _, _, h2 => simp [typeOfList, fnTypeCheck] at h2
      | [a], hs, h2 =>
        obtain ⟨s1, s2⟩ := hs a (by simp)
        have hit : (a.typeOf g).isIter = true := by
          cases hc : (a.typeOf g).isIter with
          | true => rfl
          | false => simp [typeOfList, fnTypeCheck, hc] at h2
        obtain ⟨k', hk'⟩ : ∃ k', a.typeOf g = .iter k' := by
          cases hh : a.typeOf g <;> simp_all [Kind.isIter]
        constructor
        · intro v hv
          simp only [TE.eval] at hv
          cases hx : a.eval r with
          | error x => simp [hx, bind, Except.bind] at hv
          | ok x =>
            have hxa := s1 x hx
            rw [hk'] at hxa
            rcases agrees_cases x _ hxa with ⟨p, rfl, hp, hcl⟩ | ⟨e, vs, k2, rfl, hk2, hvs⟩ | ⟨ts, ks, rfl, hke, _⟩
            · cases p <;> simp_all [kindClass, Prim.kind, Prim.isScalar]
            · cases hk2
              simp [hx, bind, Except.bind] at hv; subst hv
              simp only [TE.typeOf, typeOfList, fnReturnType, hk', Kind.iterInner, TVal.agrees]
              exact enumerateT_agrees vs _ hvs 0
            · cases hke
        · intro err hv
          simp only [TE.eval] at hv
          cases hx : a.eval r with
          | error x => simp [hx, bind, Except.bind] at hv; subst hv; exact s2 _ hx
          | ok x =>
            obtain ⟨e, vs, rfl⟩ := agrees_iter x _ (s1 x hx) hit
            simp [hx, bind, Except.bind] at hv
    · -- `enum`
      match args, hs, h2 with
      | [], _, h2 => simp [typeOfList, fnTypeCheck] at h2
      | _ :: _ :: _, _, h2 => simp [typeOfList, fnTypeCheck] at h2
      | [a], hs, h2 =>
        obtain ⟨s1, s2⟩ := hs a (by simp)
        have hit : (a.typeOf g).isIter = true := by
          cases hc : (a.typeOf g).isIter with
          | true => rfl
          | false => simp [typeOfList, fnTypeCheck, hc] at h2
        obtain ⟨k', hk'⟩ : ∃ k', a.typeOf g = .iter k' := by
          cases hh : a.typeOf g <;> simp_all [Kind.isIter]
        constructor
        · intro v hv
          simp only [TE.eval] at hv
          cases hx : a.eval r with
          | error x => simp [hx, bind, Except.bind] at hv
          | ok x =>
            have hxa := s1 x hx
            rw [hk'] at hxa
            rcases agrees_cases x _ hxa with ⟨p, rfl, hp, hcl⟩ | ⟨e, vs, k2, rfl, hk2, hvs⟩ | ⟨ts, ks, rfl, hke, _⟩
            · cases p <;> simp_all [kindClass, Prim.kind, Prim.isScalar]
            · cases hk2
              simp [hx, bind, Except.bind] at hv; subst hv
              simp only [TE.typeOf, typeOfList, fnReturnType, hk', Kind.iterInner, TVal.agrees]
              exact enumerateT_agrees vs _ hvs 0
            · cases hke
        · intro err hv
          simp only [TE.eval] at hv
          cases hx : a.eval r with
          | error x => simp [hx, bind, Except.bind] at hv; subst hv; exact s2 _ hx
          | ok x =>
            obtain ⟨e, vs, rfl⟩ := agrees_iter x _ (s1 x hx) hit
            simp [hx, bind, Except.bind] at hv
    · -- `zip`
      have hall : (typeOfList g args).all Kind.isIter = true := by
        simp only [fnTypeCheck] at h2
        cases hc : (typeOfList g args).all Kind.isIter with
        | true => rfl
        | false => simp [hc] at h2
      match args, hs, hall with
      | [], _, _ =>
        constructor
        · intro v hv; simp [TE.eval] at hv; subst hv
          simp [TE.typeOf, typeOfList, fnReturnType, TVal.agrees, agreesList]
        · intro err hv; simp [TE.eval] at hv
      | a :: rest, hs, hall =>
        obtain ⟨e1, e2⟩ := evalArrs_sound g r (a :: rest) hs (typeOfList_all g (a :: rest) hall)
        constructor
        · intro v hv
          simp only [TE.eval] at hv
          cases hr : evalArrs r (a :: rest) with
          | error x => simp [hr, bind, Except.bind] at hv
          | ok rows =>
            simp [hr, bind, Except.bind] at hv; subst hv
            have hall' : (List.map (fun e => TE.typeOf g e) (a :: rest)).all Kind.isIter = true := by
              rw [← typeOfList_map]; exact hall
            have hrows := e1 rows hr
            simp only [TE.typeOf, fnReturnType, typeOfList_map, hall', ↓reduceIte, TVal.agrees, List.map_map]
            exact zipT_agrees _ _ _ (by simpa [Function.comp_def] using hrows)
        · intro err hv
          simp only [TE.eval] at hv
          cases hr : evalArrs r (a :: rest) with
          | error x => simp [hr, bind, Except.bind] at hv; subst hv; exact e2 _ hr
          | ok rows => simp [hr, bind, Except.bind] at hv
theorem sound_list (g : Ctx) (r : VEnv α) (hgr : EnvCovers g r) : (es : List (TE α)) → wfList es = true → typeCheckList g es = .ok () →
    ∀ e ∈ es, Sound g r e
  | [], _, _ => by simp
  | e :: es, hw, ht => by
    simp only [wfList, Bool.and_eq_true] at hw
    simp only [typeCheckList] at ht
    obtain ⟨h1, h2⟩ := bind_ok_unit _ _ _ ht
    intro x hx
    rcases List.mem_cons.1 hx with hxe | hm
    · rw [hxe]; exact sound_expr g r hgr e hw.1 h1
    · exact sound_list g r hgr es hw.2 h2 x hm
end

theorem envAgrees_covers (g : Ctx) (r : VEnv α) (h : EnvAgrees g r) : EnvCovers g r := by
  intro n k hk
  have hn := h n
  cases hr : r.get n with
  | none => simp [hk, hr] at hn
  | some v => simp [hk, hr] at hn; exact ⟨v, rfl, hn⟩

theorem envAgrees_cons (g : Ctx) (r : VEnv α) (h : EnvAgrees g r) (n : String) (k : Kind) (v : TVal α) (hv : v.agrees k = true) :
    EnvAgrees ((n, k) :: g) ((n, v) :: r) := by
  intro m
  have hm := h m
  simp only [Ctx.get, VEnv.get]
  by_cases hnm : (n == m) = true
  · simp [hnm, hv]
  · simp only [hnm, Bool.false_eq_true, ↓reduceIte]; exact hm

theorem lets_sound : ∀ (lets : List (String × TE α)) (g : Ctx) (r : VEnv α), EnvAgrees g r → (∀ p ∈ lets, p.2.wf = true) →
    ∀ g', typeCheckLets g lets = .ok g' →
    (∃ r', evalLets r lets = .ok r' ∧ EnvAgrees g' r') ∨ (∃ err, evalLets r lets = .error err ∧ err.dataDependent = true)
  | [], g, r, hgr, _, g', ht => by
    simp [typeCheckLets] at ht; subst ht
    exact Or.inl ⟨r, rfl, hgr⟩
  | (n, e) :: rest, g, r, hgr, hw, g', ht => by
    simp only [typeCheckLets] at ht
    obtain ⟨h1, h2⟩ := bind_ok_unit _ _ _ ht
    obtain ⟨s1, s2⟩ := sound_expr g r (envAgrees_covers g r hgr) e (hw (n, e) (by simp)) h1
    have hw' : ∀ p ∈ rest, p.2.wf = true := fun p hp => hw p (by simp [hp])
    simp only [evalLets]
    cases hv : e.eval r with
    | error err => exact Or.inr ⟨err, by simp [bind, Except.bind], s2 err hv⟩
    | ok v =>
      simp only [bind, Except.bind]
      by_cases hu : (n == "_") = true
      · simp only [hu, ↓reduceIte] at h2 ⊢
        exact lets_sound rest g r hgr hw' g' h2
      · simp only [hu, Bool.false_eq_true, ↓reduceIte] at h2 ⊢
        have hgn : g.get n = none := by
          cases hc : g.get n with
          | none => rfl
          | some k => simp [hc] at h2
        have hrn : r.get n = none := by
          have := hgr n
          cases hc : r.get n with
          | none => rfl
          | some x => simp [hgn, hc] at this
        simp only [hgn, hrn, Option.isSome_none, Bool.false_eq_true, ↓reduceIte] at h2 ⊢
        by_cases hres : reservedNames.contains n = true
        · rw [if_pos hres] at h2; simp at h2
        · simp only [hres, Bool.false_eq_true, ↓reduceIte] at h2 ⊢
          exact lets_sound rest _ _ (envAgrees_cons g r hgr n _ v (s1 v hv)) hw' g' h2

end Rooc.Proofs.Lets
