/-
C07 helper layer 6: `apply_to_domain` — tolerant integer rounding and the saturating `as i32`.
-/
import Rooc.Proofs.BoundsPropagate
set_option linter.unusedTactic false
set_option linter.unreachableTactic false
set_option linter.unnecessarySeqFocus false
set_option linter.unusedSimpArgs false
set_option linter.unusedVariables false
set_option linter.unusedSectionVars false
namespace Rooc
namespace BoundsProofs
open BoundsSem Arith Sem

variable {K : Type} [Field K] [LinearOrder K] [IsStrictOrderedRing K] [FloorRing K]

def i32Min : Int := -2147483648
def i32Max : Int := 2147483647

theorem toI32_int (m : Int) : (Arith.toI32 (Ext.fin (m : K) : Ext K)) = Ext.clampInt i32Min i32Max m := by
  simp only [Arith.toI32, Ext.toIntSat, ef_lt, ef_ofInt, Int.cast_zero, ef_ceil, ef_floor, Int.ceil_intCast,
    Int.floor_intCast, ite_self, i32Min, i32Max]

/-- tolerant rounding of a lower bound: an integer above `l` is above `⌈l − tol⌉` for every `tol ≥ 0`,
and the saturating cast keeps that for values in the `i32` range. -/
theorem lower_round_sound {lo : Ext K} {tol : K} (htol : 0 ≤ tol) {n : Int} (hn : LB lo (n : K))
    (hmin : i32Min ≤ n) (hmax : n ≤ i32Max) :
    Arith.toI32 (Arith.ceil (Arith.sub lo (.fin tol))) ≤ n := by
  cases lo with
  | nan => simp at hn
  | pinf => simp at hn
  | ninf => simp [Arith.ceil, Ext.sub, Ext.add, Ext.neg, Arith.toI32, Ext.toIntSat]; exact hmin
  | fin l =>
    have hl : l ≤ n := by simpa using hn
    have h1 : Int.ceil (l - tol) ≤ n := Int.ceil_le.2 (by linarith)
    simp only [a_sub, Ext.sub, Ext.neg, Ext.add, ef_neg, ef_add, Arith.ceil, ef_ceil, ef_ofInt, toI32_int, Ext.clampInt,
      ← sub_eq_add_neg]
    split
    · exact hmin
    · split <;> omega

theorem upper_round_sound {hi : Ext K} {tol : K} (htol : 0 ≤ tol) {n : Int} (hn : UB hi (n : K))
    (hmin : i32Min ≤ n) (hmax : n ≤ i32Max) :
    n ≤ Arith.toI32 (Arith.floor (Arith.add hi (.fin tol))) := by
  cases hi with
  | nan => simp at hn
  | ninf => simp at hn
  | pinf => simp [Arith.floor, Ext.add, Arith.toI32, Ext.toIntSat]; exact hmax
  | fin h =>
    have hl : (n : K) ≤ h := by simpa using hn
    have h1 : n ≤ Int.floor (h + tol) := Int.le_floor.2 (by linarith)
    simp only [a_add, Ext.add, ef_add, Arith.floor, ef_floor, ef_ofInt, toI32_int, Ext.clampInt]
    split
    · omega
    · split <;> omega

/-- `apply_to_domain` keeps a point of the box that is in the declared domain inside the tightened domain. -/
theorem applyToVar_inDomain {ρ : String → K} (an : Analyzer (Ext K)) (d : DomVar (Ext K)) (tol : K)
    (htol : an.tolerance = .fin tol) (htol0 : 0 ≤ tol)
    (hi32 : ∀ lo hi, d.ty = .int lo hi → i32Min ≤ lo ∧ hi ≤ i32Max)
    (hb : InBox ρ an.variableBounds) (hd : InDomain d.ty (ρ d.name)) :
    (an.applyToVar d).name = d.name ∧ InDomain (an.applyToVar d).ty (ρ d.name) := by
  unfold Analyzer.applyToVar
  cases hg : AList.get? an.variableBounds d.name with
  | none => exact ⟨by first | rfl | trivial, hd⟩
  | some b =>
    have hm : Mem (ρ d.name) b := by
      have := hb d.name; simpa [Analyzer.varBounds, hg] using this
    cases hty : d.ty with
    | bool => simp only []; exact ⟨by first | rfl | trivial, by rw [hty] at hd; simpa [hty] using hd⟩
    | int lo hi =>
      simp only []
      split
      · exact ⟨by first | rfl | trivial, by rw [hty] at hd; simpa [hty] using hd⟩
      · refine ⟨by first | rfl | trivial, ?_⟩
        rw [hty] at hd
        obtain ⟨n, hn, h1, h2⟩ := hd
        obtain ⟨hlo, hhi⟩ := hi32 lo hi hty
        have hn' : ρ d.name = (n : K) := by simpa using hn
        rw [hn'] at hm
        refine ⟨n, hn, ?_, ?_⟩
        · rw [htol]; exact lower_round_sound htol0 hm.1 (by omega) (by omega)
        · rw [htol]; exact upper_round_sound htol0 hm.2 (by omega) (by omega)
    | nnreal lo hi =>
      simp only []
      refine ⟨by first | rfl | trivial, ?_⟩
      rw [hty] at hd
      refine ⟨hd.1, ?_, hm.2⟩
      show LB _ _
      split
      · exact hm.1
      · have := hd.1; simpa [LB, Ext.le] using this
    | real lo hi => exact ⟨by first | rfl | trivial, hm⟩

/-! ### `enforceable`: rounding the stored integer ranges (fix b9d407a) -/

theorem LB_ceil_sub {lo : Ext K} {tol : K} (htol : 0 ≤ tol) {n : Int} (hn : LB lo (n : K)) :
    LB (Arith.ceil (Arith.sub lo (.fin tol))) (n : K) := by
  cases lo with
  | nan => simp at hn
  | pinf => simp at hn
  | ninf => simp [Arith.ceil, Ext.sub, Ext.add, Ext.neg]
  | fin l =>
    have hl : l ≤ n := by simpa using hn
    have h1 : Int.ceil (l - tol) ≤ n := Int.ceil_le.2 (by linarith)
    simp only [a_sub, Ext.sub, Ext.neg, Ext.add, ef_neg, ef_add, Arith.ceil, ef_ceil, ef_ofInt, ← sub_eq_add_neg, LB_fin]
    exact_mod_cast h1

theorem UB_floor_add {hi : Ext K} {tol : K} (htol : 0 ≤ tol) {n : Int} (hn : UB hi (n : K)) :
    UB (Arith.floor (Arith.add hi (.fin tol))) (n : K) := by
  cases hi with
  | nan => simp at hn
  | ninf => simp at hn
  | pinf => simp [Arith.floor, Ext.add]
  | fin h =>
    have hl : (n : K) ≤ h := by simpa using hn
    have h1 : n ≤ Int.floor (h + tol) := Int.le_floor.2 (by linarith)
    simp only [a_add, Ext.add, ef_add, Arith.floor, ef_floor, ef_ofInt, UB_fin]
    exact_mod_cast h1

end BoundsProofs
end Rooc
