/-
Helper lemmas for C16 about the pipe runner (`Rooc/Pipes.lean`): `run_pipe` is the scan of the Kleisli composition of
its stages.
-/
import Rooc.Pipes
namespace Rooc
namespace Pipes
variable {D E : Type}

/-- the composition of the stages (`?`-chaining). -/
def chain : List (D → Except E D) → D → Except E D
  | [], d => .ok d
  | p :: ps, d => match p d with
    | .error e => .error e
    | .ok d' => chain ps d'

/-- the intermediate results after `d` (not including it), or the error with the results before it. -/
def scan : List (D → Except E D) → D → Except (E × List D) (List D)
  | [], _ => .ok []
  | p :: ps, d => match p d with
    | .error e => .error (e, [])
    | .ok d' => match scan ps d' with
      | .ok rs => .ok (d' :: rs)
      | .error (e, rs) => .error (e, d' :: rs)

theorem go_eq_scan : ∀ (ps : List (D → Except E D)) (last : D) (acc : List D),
    runPipe.go ps last acc = match scan ps last with
      | .ok rs => .ok (acc ++ rs)
      | .error (e, rs) => .error (e, acc ++ rs)
  | [], last, acc => by simp [runPipe.go, scan]
  | p :: ps, last, acc => by
    simp only [runPipe.go, scan]
    cases hp : p last with
    | error e => simp
    | ok d' =>
      simp only [go_eq_scan ps d' (acc ++ [d'])]
      cases scan ps d' with
      | ok rs => simp
      | error x => obtain ⟨e, rs⟩ := x; simp

/-- `run_pipe` = the start datum followed by the scan. -/
theorem runPipe_eq_scan (pipes : List (D → Except E D)) (d : D) :
    runPipe pipes d = match scan pipes d with
      | .ok rs => .ok (d :: rs)
      | .error (e, rs) => .error (e, d :: rs) := by
  unfold runPipe
  cases pipes with
  | nil => simp [scan]
  | cons p ps => simp only [List.isEmpty_cons, Bool.false_eq_true, if_false, go_eq_scan]; rfl

theorem scan_ok : ∀ (ps : List (D → Except E D)) (d : D) (rs : List D), scan ps d = .ok rs →
    rs.length = ps.length ∧ chain ps d = .ok ((d :: rs).getLast (by simp))
  | [], d, rs, h => by simp only [scan, Except.ok.injEq] at h; subst h; simp [chain]
  | p :: ps, d, rs, h => by
    simp only [scan] at h
    cases hp : p d with
    | error e => simp [hp] at h
    | ok d' =>
      simp only [hp] at h
      cases hs : scan ps d' with
      | error x => simp [hs] at h
      | ok rs' =>
        simp only [hs, Except.ok.injEq] at h
        subst h
        obtain ⟨h1, h2⟩ := scan_ok ps d' rs' hs
        refine ⟨by simp [h1], ?_⟩
        simp only [chain, hp, h2]
        congr 1

theorem scan_error : ∀ (ps : List (D → Except E D)) (d : D) (e : E) (rs : List D), scan ps d = .error (e, rs) →
    rs.length < ps.length ∧ chain ps d = .error e ∧
    chain (ps.take rs.length) d = .ok ((d :: rs).getLast (by simp))
  | [], d, e, rs, h => by simp [scan] at h
  | p :: ps, d, e, rs, h => by
    simp only [scan] at h
    cases hp : p d with
    | error e' =>
      simp only [hp, Except.error.injEq, Prod.mk.injEq] at h
      obtain ⟨rfl, rfl⟩ := h
      simp [chain, hp]
    | ok d' =>
      simp only [hp] at h
      cases hs : scan ps d' with
      | ok rs' => simp [hs] at h
      | error x =>
        obtain ⟨e', rs'⟩ := x
        simp only [hs, Except.error.injEq, Prod.mk.injEq] at h
        obtain ⟨rfl, rfl⟩ := h
        obtain ⟨h1, h2, h3⟩ := scan_error ps d' e' rs' hs
        refine ⟨by simp; omega, by simp [chain, hp, h2], ?_⟩
        simp only [List.length_cons, List.take_succ_cons, chain, hp, h3]
        congr 1

end Pipes
end Rooc
