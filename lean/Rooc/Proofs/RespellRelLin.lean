/-
C10 — the relational pass over the primitives, the `linExp` block, the emission and logic-lowering blocks, the
work-list loop and the up-front collapse check, for runs whose work lists are pairwise `CR`-related
(`RespellRel.lean`).  Adapted from agent-c08proof's `WFRel2Lin.lean`; the new content is `drain2`, where a
constraint is popped and read through `normalizeExp` only.
-/
import Rooc.Proofs.RespellRel

set_option linter.unusedSectionVars false
set_option linter.unusedVariables false
set_option linter.unusedTactic false
set_option linter.unreachableTactic false

namespace Rooc
namespace LinQ
open Arith Rooc.Lin
variable {α : Type} [Arith α] {β γ : Type}

/-! ### primitives -/

theorem declareVariable2 (v : String) (ty : VarType α) (s s' : St α) :
    Eq2 s s' (declareVariable v ty) (declareVariable v ty) := by
  unfold declareVariable
  apply Eq2.get2
  intro hS
  rw [hS.dom, hS.bnd]
  apply Eq2.ite2
  · intro _; exact Eq2.fail2 _
  · intro _
    apply Eq2.set1
    exact ⟨hS.queue, hS.rows, hS.cMin, hS.cMax, hS.cAbs, hS.cAnd, hS.cOr, hS.cXor, hS.cImp, hS.cIff, hS.cWit,
      rfl, rfl⟩

theorem addConstraint2 (c : Constraint α) (s s' : St α) : Eq2 s s' (addConstraint c) (addConstraint c) := by
  unfold addConstraint
  apply Eq2.modify2
  intro hS
  exact ⟨List.Forall₂.cons (CR.refl c) hS.queue, hS.rows, hS.cMin, hS.cMax, hS.cAbs, hS.cAnd, hS.cOr, hS.cXor,
    hS.cImp, hS.cIff, hS.cWit, hS.dom, hS.bnd⟩

/-! ### automation -/

/-- rewrite every read of the captured left state into the same read of the right state. -/
macro "eqq_rw " h:ident : tactic => `(tactic| (
  try simp only [S.dom $h, S.bnd $h, S.rows $h, S.cMin $h, S.cMax $h, S.cAbs $h, S.cAnd $h, S.cOr $h,
    S.cXor $h, S.cImp $h, S.cIff $h, S.cWit $h]))

macro "eqq_call" : tactic => `(tactic| first
    | apply_eqq_hyp
    | apply declareVariable2
    | apply addConstraint2
    | (refine Eq2.forIn2 _ _ _ _ ?_ _ _; intro _ _ _ _ _))

open Lean Elab Tactic Meta in
/-- close an `S t t'` goal from some `S s s'` hypothesis whose pair has the same domains and bounds. -/
elab "eqq_S" : tactic => do
  try
    evalTactic (← `(tactic| assumption))
    return
  catch _ => pure ()
  let g ← getMainGoal
  g.withContext do
    let lctx ← getLCtx
    for d in lctx.decls.toList.reverse do
      let some d := d | continue
      if d.isImplementationDetail then continue
      let ty ← instantiateMVars d.type
      unless ty.isAppOf ``Rooc.LinQ.S do continue
      let saved ← saveState
      try
        let hexpr := d.toExpr
        let sArgs := ty.getAppArgs
        let s := sArgs[sArgs.size - 2]!
        let s' := sArgs[sArgs.size - 1]!
        let tgt ← instantiateMVars (← g.getType)
        let tArgs := tgt.getAppArgs
        let t := tArgs[tArgs.size - 2]!
        let t' := tArgs[tArgs.size - 1]!
        let pf ← Term.TermElabM.run' do
          let e ← Term.elabTerm (← `(fun (h : Rooc.LinQ.S $(← Term.exprToSyntax s) $(← Term.exprToSyntax s')) =>
            (Rooc.LinQ.S.update (t := $(← Term.exprToSyntax t)) (t' := $(← Term.exprToSyntax t')) (Rooc.LinQ.S.queue (s := $(← Term.exprToSyntax s)) (s' := $(← Term.exprToSyntax s')) h) rfl rfl rfl rfl rfl rfl rfl rfl rfl rfl rfl rfl))) none
          Term.synthesizeSyntheticMVarsNoPostponing
          instantiateMVars e
        g.assign (mkApp pf hexpr)
        replaceMainGoal []
        return
      catch _ => saved.restore
    throwError "eqq_S: no S hypothesis fits {← g.getType}"

open Lean Elab Tactic Meta in
elab "eqq_step" : tactic => do
  let g ← getMainGoal
  let k ← spKindQ (← g.getType)
  let tac ← match k with
    | "pure" => `(tactic| exact Eq2.pure2 _)
    | "fail" => `(tactic| exact Eq2.fail2 _)
    | "ite" => `(tactic| (apply Eq2.ite2 <;> intro _))
    | "match" => `(tactic| (split <;> try dsimp only))
    | "let" => `(tactic| dsimp only)
    | "beta" => `(tactic| dsimp only)
    | "get" => `(tactic| (apply Eq2.get2; intro hS; eqq_rw hS))
    | "set" => `(tactic| (refine Eq2.set2 (by eqq_S) ?_))
    | "set1" => `(tactic| (refine Eq2.set1 (by eqq_S)))
    | "bind" => `(tactic| (apply Eq2.bind2; rotate_left; intro _ _ _; rotate_right))
    | "call" => `(tactic| eqq_call)
    | _ => `(tactic| first | assumption | rfl)
  evalTactic (← `(tactic| first | contradiction | ($tac:tactic)))

macro "eqq_go" : tactic => `(tactic| repeat' eqq_step)

theorem reify2 (v : String) (cs : List (Cmp × Exp α)) (s s' : St α) : Eq2 s s' (reify v cs) (reify v cs) := by
  unfold reify
  eqq_go

set_option maxHeartbeats 1000000 in
theorem linExp_block2 :
    (∀ (e : Exp α) (req : Req), ∀ s s', Eq2 s s' (linExp e req) (linExp e req)) ∧
    (∀ (e : Exp α), ∀ s s', Eq2 s s' (linBinaryOperand e) (linBinaryOperand e)) ∧
    (∀ (es : List (Exp α)), ∀ s s', Eq2 s s' (linBinaryOperands es) (linBinaryOperands es)) ∧
    (∀ (kind : ExtKind) (es : List (Exp α)) (req : Req), ∀ s s', Eq2 s s' (linExtreme kind es req) (linExtreme kind es req)) ∧
    (∀ (es : List (Exp α)) (fs : List Bool) (req : Req), ∀ s s', Eq2 s s' (linFlagged es fs req) (linFlagged es fs req)) ∧
    (∀ (es : List (Exp α)) (fs : List Bool) (req : Req), ∀ s s',
      Eq2 s s' (linFirstFlagged es fs req) (linFirstFlagged es fs req)) := by
  have hreify := @reify2 α _
  apply linExp.mutual_induct
    (motive1 := fun e req => ∀ s s', Eq2 s s' (linExp e req) (linExp e req))
    (motive2 := fun e => ∀ s s', Eq2 s s' (linBinaryOperand e) (linBinaryOperand e))
    (motive3 := fun es => ∀ s s', Eq2 s s' (linBinaryOperands es) (linBinaryOperands es))
    (motive4 := fun kind es req => ∀ s s', Eq2 s s' (linExtreme kind es req) (linExtreme kind es req))
    (motive5 := fun es fs req => ∀ s s', Eq2 s s' (linFlagged es fs req) (linFlagged es fs req))
    (motive6 := fun es fs req => ∀ s s', Eq2 s s' (linFirstFlagged es fs req) (linFirstFlagged es fs req))
  case case31 =>
    intro kind es req hne ih6 ih5 s s'
    dsimp only at ih5 ih6
    cases kind
    · simp only [linExtreme]
      eqq_go
    · simp only [linExtreme]
      eqq_go
  all_goals (intros; (first | simp only [linExp] | simp only [linBinaryOperands] | simp only [linFlagged] | simp only [linFirstFlagged] | unfold linBinaryOperand | unfold linExtreme | skip); eqq_go)

/-! ### emission, logic lowering, the loop -/

theorem simplifyFlat2 (e : Exp α) (s s' : St α) : Eq2 s s' (simplifyFlat e) (simplifyFlat e) := by
  unfold simplifyFlat
  eqq_go

theorem emitConstraint2 (lhs rhs : Exp α) (cmp : Cmp) (name : String) (s s' : St α) :
    Eq2 s s' (emitConstraint lhs cmp rhs name) (emitConstraint lhs cmp rhs name) := by
  unfold emitConstraint
  have h1 := (linExp_block2 (α := α)).1
  eqq_go
  apply Eq2.modify2
  intro hS
  exact ⟨hS.queue, by simp [hS.rows], hS.cMin, hS.cMax, hS.cAbs, hS.cAnd, hS.cOr, hS.cXor, hS.cImp, hS.cIff, hS.cWit,
    hS.dom, hS.bnd⟩

theorem tryLowerAffine2 (e : Exp α) (t : Bool) (name : String) :
    ∀ s s', Eq2 s s' (tryLowerAffine e t name) (tryLowerAffine e t name) := by
  have h1 := @emitConstraint2 α _
  fun_induction tryLowerAffine e t name
  all_goals (intros; first | (rename_i ih _ _; exact ih _ _) | eqq_go)

theorem freshWitness2 (s s' : St α) : Eq2 s s' (freshWitness : M α String) freshWitness := by
  unfold freshWitness
  eqq_go

theorem iffWitness2 (l r : Exp α) (t : Bool) (s s' : St α) : Eq2 s s' (iffWitness l r t) (iffWitness l r t) := by
  unfold iffWitness
  have h1 := (linExp_block2 (α := α)).2.1
  have h2 := @freshWitness2 α _
  have h3 := @emitConstraint2 α _
  eqq_go

theorem dirWitness_block2 :
    (∀ (e : Exp α) (t : Bool), ∀ s s', Eq2 s s' (dirWitness e t) (dirWitness e t)) ∧
    (∀ (es : List (Exp α)) (t : Bool), ∀ s s', Eq2 s s' (dirWitnessList es t) (dirWitnessList es t)) := by
  have h2 := @freshWitness2 α _
  have h3 := @emitConstraint2 α _
  have h4 := @iffWitness2 α _
  apply dirWitness.mutual_induct
    (motive_1 := fun e t => ∀ s s', Eq2 s s' (dirWitness e t) (dirWitness e t))
    (motive_2 := fun es t => ∀ s s', Eq2 s s' (dirWitnessList es t) (dirWitnessList es t))
  all_goals (intros; (first | simp only [dirWitness] | simp only [dirWitnessList] | skip); eqq_go)

theorem lowerAssertion_block2 :
    (∀ (e : Exp α) (t : Bool) (name : String), ∀ s s', Eq2 s s' (lowerAssertion e t name) (lowerAssertion e t name)) ∧
    (∀ (es : List (Exp α)) (t : Bool) (name : String), ∀ s s',
      Eq2 s s' (lowerAssertionList es t name) (lowerAssertionList es t name)) := by
  have h1 := (linExp_block2 (α := α)).2.1
  have h2 := (dirWitness_block2 (α := α)).1
  have h3 := (dirWitness_block2 (α := α)).2
  have h4 := @emitConstraint2 α _
  have h5 := @tryLowerAffine2 α _
  apply lowerAssertion.mutual_induct
    (motive_1 := fun e t name => ∀ s s', Eq2 s s' (lowerAssertion e t name) (lowerAssertion e t name))
    (motive_2 := fun es t name => ∀ s s', Eq2 s s' (lowerAssertionList es t name) (lowerAssertionList es t name))
  all_goals (intros; (first | simp only [lowerAssertion] | simp only [lowerAssertionList] | skip); eqq_go)


/-! ### the work-list loop: the only place where a queued constraint is read -/

theorem simplifyFlat_congr {e e' : Exp α} (h : normalizeExp e' = normalizeExp e) :
    (simplifyFlat e' : M α (Exp α)) = simplifyFlat e := by
  unfold simplifyFlat; rw [h]

theorem drain2 : ∀ (n : Nat) (s s' : St α), Eq2 s s' (drain n) (drain n)
  | 0, s, s' => by simp only [drain]; exact Eq2.fail2 _
  | n+1, s, s' => by
    have ih := drain2 n
    have h1 := @simplifyFlat2 α _
    have h2 := (lowerAssertion_block2 (α := α)).1
    have h3 := @emitConstraint2 α _
    rw [drain.eq_2]
    apply Eq2.get2
    intro hS
    -- the two work lists are pairwise related
    have hq := hS.queue
    revert hq
    cases hqs : s.queue with
    | nil =>
      intro hq
      cases hqs' : s'.queue with
      | nil => dsimp only; exact Eq2.pure2 _
      | cons c' r' => rw [hqs'] at hq; cases hq
    | cons c rest =>
      intro hq
      cases hqs' : s'.queue with
      | nil => rw [hqs'] at hq; cases hq
      | cons c' rest' =>
        rw [hqs'] at hq
        cases hq with
        | cons hc hrest =>
          obtain ⟨hn, hcm, ha, hl, hr⟩ := hc
          dsimp only
          rw [simplifyFlat_congr hl, simplifyFlat_congr hr, hn, hcm, ha]
          have hSt : S { s with queue := rest } { s' with queue := rest' } :=
            ⟨hrest, hS.rows, hS.cMin, hS.cMax, hS.cAbs, hS.cAnd, hS.cOr, hS.cXor, hS.cImp, hS.cIff, hS.cWit,
              hS.dom, hS.bnd⟩
          refine Eq2.set2 hSt ?_
          eqq_go

/-! ### the up-front collapse check (rooc 81a4b76, e35561f): same program, related states -/

theorem collapseNode2 (e : Exp α) (s s' : St α) : Eq2 s s' (collapseNode e) (collapseNode e) := by
  unfold collapseNode
  have h1 := (linExp_block2 (α := α)).1
  eqq_go

theorem collapseCheck_block2 :
    (∀ (e : Exp α), ∀ s s', Eq2 s s' (collapseCheck e) (collapseCheck e)) ∧
    (∀ (es : List (Exp α)), ∀ s s', Eq2 s s' (collapseCheckList es) (collapseCheckList es)) := by
  have h1 := @collapseNode2 α _
  apply collapseCheck.mutual_induct
    (motive_1 := fun e => ∀ s s', Eq2 s s' (collapseCheck e) (collapseCheck e))
    (motive_2 := fun es => ∀ s s', Eq2 s s' (collapseCheckList es) (collapseCheckList es))
  all_goals (intros; (first | simp only [collapseCheck] | simp only [collapseCheckList] | skip); eqq_go)

theorem collapseCheckConstraints2 : ∀ (cs : List (Constraint α)) (s s' : St α),
    Eq2 s s' (collapseCheckConstraints cs) (collapseCheckConstraints cs)
  | [], s, s' => by simp only [collapseCheckConstraints]; exact Eq2.pure2 _
  | c :: cs, s, s' => by
    have ih := collapseCheckConstraints2 cs
    have h1 := (collapseCheck_block2 (α := α)).1
    simp only [collapseCheckConstraints]
    eqq_go

theorem collapseCheckAll2 (m : Model α) (s s' : St α) : Eq2 s s' (collapseCheckAll m) (collapseCheckAll m) := by
  unfold collapseCheckAll
  have h1 := (collapseCheck_block2 (α := α)).1
  have h2 := @collapseCheckConstraints2 α _
  eqq_go


theorem coreProg2 (m : Model α) (s s' : St α) : Eq2 s s' (coreProg m) (coreProg m) := by
  unfold coreProg
  have h1 := @simplifyFlat2 α _
  have h2 := (linExp_block2 (α := α)).1
  have h3 := @drain2 α _
  eqq_go

end LinQ
end Rooc
