/-
C07 helper layer 2: `bounds_of` encloses (`boundsOf_mem`), by induction on the expression.
-/
import Rooc.Proofs.BoundsLemmas
set_option linter.unusedTactic false
set_option linter.unreachableTactic false
set_option linter.unnecessarySeqFocus false
set_option linter.unusedSimpArgs false
namespace Rooc
namespace BoundsProofs
open BoundsSem Arith Sem

variable {K : Type} [Field K] [LinearOrder K] [IsStrictOrderedRing K] [FloorRing K]

/-- induction on the nested inductive `Exp` with `∀ x ∈ es, motive x` hypotheses. -/
theorem expInd {α : Type} {motive : Exp α → Prop}
    (num : ∀ v, motive (.num v)) (var : ∀ s, motive (.var s))
    (abs : ∀ e, motive e → motive (.abs e))
    (min : ∀ es, (∀ e ∈ es, motive e) → motive (.min es))
    (max : ∀ es, (∀ e ∈ es, motive e) → motive (.max es))
    (and : ∀ es, (∀ e ∈ es, motive e) → motive (.and es))
    (or : ∀ es, (∀ e ∈ es, motive e) → motive (.or es))
    (not : ∀ e, motive e → motive (.not e))
    (xor : ∀ a b, motive a → motive b → motive (.xor a b))
    (implies : ∀ a b, motive a → motive b → motive (.implies a b))
    (iff : ∀ a b, motive a → motive b → motive (.iff a b))
    (bin : ∀ op a b, motive a → motive b → motive (.bin op a b))
    (un : ∀ op e, motive e → motive (.un op e)) : ∀ e, motive e := by
  intro e
  refine Exp.rec (motive_1 := motive) (motive_2 := fun es => ∀ e ∈ es, motive e)
    num var abs min max and or not xor implies iff bin un ?_ ?_ e
  · simp
  · intro h t hh ht e he
    rcases List.mem_cons.1 he with rfl | h'
    · exact hh
    · exact ht e h'

theorem asNum_eq {α : Type} {e : Exp α} {v : α} (h : e.asNum = some v) : e = .num v := by
  cases e <;> simp_all [Exp.asNum]

theorem eval_num_some {ρ : String → K} {x : Ext K} {a : K} (h : eval ρ (.num x) = some a) : x = .fin a := by
  cases x <;> simp_all [eval]

theorem evalList_cons {ρ : String → K} {e : Exp (Ext K)} {es : List (Exp (Ext K))} {vs : List K}
    (h : evalList ρ (e :: es) = some vs) :
    ∃ v vs', eval ρ e = some v ∧ evalList ρ es = some vs' ∧ vs = v :: vs' := by
  simp only [evalList] at h
  cases h1 : eval ρ e <;> simp [h1] at h
  cases h2 : evalList ρ es <;> simp [h2] at h
  exact ⟨_, _, rfl, rfl, h.symm⟩

section
variable (vb : List (String × Bounds (Ext K))) (ρ : String → K)

theorem fold_min_mem : ∀ (es : List (Exp (Ext K))) (vs : List K), evalList ρ es = some vs →
    (∀ e ∈ es, ∀ v, eval ρ e = some v → Mem v (Analyzer.boundsOf vb e)) →
    ∀ x acc, Mem x acc → Mem (vs.foldl kmin x) ((Analyzer.boundsOfList vb es).foldl Bounds.minStep acc)
  | [], vs, h, _, x, acc, hx => by
    simp [evalList] at h; subst h; simpa [Analyzer.boundsOfList] using hx
  | e :: es, vs, h, ih, x, acc, hx => by
    obtain ⟨v, vs', h1, h2, rfl⟩ := evalList_cons h
    simp only [Analyzer.boundsOfList, List.foldl_cons]
    refine fold_min_mem es vs' h2 (fun e' he' => ih e' (List.mem_cons_of_mem _ he')) _ _ ?_
    rw [kmin_eq]; exact mem_minStep hx (ih e (List.mem_cons_self ..) v h1)

theorem fold_max_mem : ∀ (es : List (Exp (Ext K))) (vs : List K), evalList ρ es = some vs →
    (∀ e ∈ es, ∀ v, eval ρ e = some v → Mem v (Analyzer.boundsOf vb e)) →
    ∀ x acc, Mem x acc → Mem (vs.foldl kmax x) ((Analyzer.boundsOfList vb es).foldl Bounds.maxStep acc)
  | [], vs, h, _, x, acc, hx => by
    simp [evalList] at h; subst h; simpa [Analyzer.boundsOfList] using hx
  | e :: es, vs, h, ih, x, acc, hx => by
    obtain ⟨v, vs', h1, h2, rfl⟩ := evalList_cons h
    simp only [Analyzer.boundsOfList, List.foldl_cons]
    refine fold_max_mem es vs' h2 (fun e' he' => ih e' (List.mem_cons_of_mem _ he')) _ _ ?_
    rw [kmax_eq]; exact mem_maxStep hx (ih e (List.mem_cons_self ..) v h1)

/-- `bounds_of(e)` contains the value of `e` at every point of the variable box. -/
theorem boundsOf_mem (hbox : InBox ρ vb) :
    ∀ (e : Exp (Ext K)) (v : K), eval ρ e = some v → Mem v (Analyzer.boundsOf vb e) := by
  intro e
  induction e using expInd with
  | num x =>
    intro v h; have := eval_num_some h; subst this
    simpa [Analyzer.boundsOf] using mem_singleton v
  | var s => intro v h; simp [eval] at h; subst h; simpa [Analyzer.boundsOf] using hbox s
  | abs e ih =>
    intro v h
    simp only [eval, Option.map_eq_some_iff] at h
    obtain ⟨w, hw, rfl⟩ := h
    rw [kabs_eq]; simpa [Analyzer.boundsOf] using mem_abs (ih w hw)
  | min es ih =>
    intro v h
    cases es with
    | nil => simp [eval, evalList] at h
    | cons e es =>
      simp only [eval] at h
      cases hl : evalList ρ (e :: es) with
      | none => simp [hl] at h
      | some vs =>
        obtain ⟨w, vs', h1, h2, rfl⟩ := evalList_cons hl
        simp [hl] at h; subst h
        simp only [Analyzer.boundsOf, Analyzer.boundsOfList]
        exact fold_min_mem vb ρ es vs' h2 (fun e' he' => ih e' (List.mem_cons_of_mem _ he')) _ _
          (ih e (List.mem_cons_self ..) w h1)
  | max es ih =>
    intro v h
    cases es with
    | nil => simp [eval, evalList] at h
    | cons e es =>
      simp only [eval] at h
      cases hl : evalList ρ (e :: es) with
      | none => simp [hl] at h
      | some vs =>
        obtain ⟨w, vs', h1, h2, rfl⟩ := evalList_cons hl
        simp [hl] at h; subst h
        simp only [Analyzer.boundsOf, Analyzer.boundsOfList]
        exact fold_max_mem vb ρ es vs' h2 (fun e' he' => ih e' (List.mem_cons_of_mem _ he')) _ _
          (ih e (List.mem_cons_self ..) w h1)
  | and es _ =>
    intro v h; simp only [eval, Option.map_eq_some_iff] at h
    obtain ⟨w, _, rfl⟩ := h; simpa [Analyzer.boundsOf] using mem_zeroOne_ofBool _
  | or es _ =>
    intro v h; simp only [eval, Option.map_eq_some_iff] at h
    obtain ⟨w, _, rfl⟩ := h; simpa [Analyzer.boundsOf] using mem_zeroOne_ofBool _
  | not e _ =>
    intro v h; simp only [eval, Option.map_eq_some_iff] at h
    obtain ⟨w, _, rfl⟩ := h; simpa [Analyzer.boundsOf] using mem_zeroOne_ofBool _
  | xor a b _ _ =>
    intro v h; simp only [eval, binVal, Option.bind_eq_bind, Option.bind_eq_some_iff] at h
    obtain ⟨_, _, _, _, h⟩ := h; cases h; simpa [Analyzer.boundsOf] using mem_zeroOne_ofBool _
  | implies a b _ _ =>
    intro v h; simp only [eval, binVal, Option.bind_eq_bind, Option.bind_eq_some_iff] at h
    obtain ⟨_, _, _, _, h⟩ := h; cases h; simpa [Analyzer.boundsOf] using mem_zeroOne_ofBool _
  | iff a b _ _ =>
    intro v h; simp only [eval, binVal, Option.bind_eq_bind, Option.bind_eq_some_iff] at h
    obtain ⟨_, _, _, _, h⟩ := h; cases h; simpa [Analyzer.boundsOf] using mem_zeroOne_ofBool _
  | bin op a b iha ihb =>
    intro v h
    simp only [eval, Option.bind_eq_bind, Option.bind_eq_some_iff] at h
    obtain ⟨x, hx, y, hy, h⟩ := h
    cases op
    · simp [binVal] at h; subst h; simpa [Analyzer.boundsOf] using mem_add (iha x hx) (ihb y hy)
    · simp [binVal] at h; subst h; simpa [Analyzer.boundsOf] using mem_sub (iha x hx) (ihb y hy)
    · simp [binVal] at h; subst h
      simp only [Analyzer.boundsOf]
      cases ha : a.asNum with
      | some c =>
        have := asNum_eq ha; subst this; have := eval_num_some hx; subst this
        simp only []; rw [mul_comm]; exact mem_scale _ (ihb y hy)
      | none =>
        cases hb : b.asNum with
        | some c =>
          have := asNum_eq hb; subst this; have := eval_num_some hy; subst this
          exact mem_scale _ (iha x hx)
        | none => exact mem_unbounded _
    · simp only [binVal, Sem.kzero, ef_eq, ef_ofInt, Int.cast_zero, decide_eq_true_eq] at h
      split at h
      · cases h
      · cases h
        rename_i hy0
        simp only [Analyzer.boundsOf]
        cases hb : b.asNum with
        | some c =>
          have := asNum_eq hb; subst this; have := eval_num_some hy; subst this
          simp only [a_ne, a_zero, Ext.eq, ef_eq, hy0, decide_false, Bool.not_false, if_true]
          exact mem_divBy _ (iha x hx) hy0
        | none => exact mem_unbounded _
    all_goals (simp [binVal] at h; subst h; simpa [Analyzer.boundsOf] using mem_zeroOne_ofBool _)
  | un op e ih =>
    intro v h
    cases op
    · simp only [eval, Option.map_eq_some_iff] at h
      obtain ⟨w, hw, rfl⟩ := h
      simpa [Analyzer.boundsOf] using mem_neg (ih w hw)
    · simp only [eval, Option.map_eq_some_iff] at h
      obtain ⟨w, _, rfl⟩ := h; simpa [Analyzer.boundsOf] using mem_zeroOne_ofBool _
end

end BoundsProofs
end Rooc
