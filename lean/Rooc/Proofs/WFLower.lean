/-
C08 helpers — constraint emission, logic-assertion lowering and the work-list loop preserve the state
invariant `Rel N p`.
-/
import Rooc.Proofs.WFLinExp

set_option linter.unusedSectionVars false
set_option linter.unusedVariables false
set_option linter.unusedTactic false
set_option linter.unreachableTactic false

namespace Rooc
namespace Lin
open Arith
variable {α : Type} [Arith α] [BCfg α] {β γ : Type}
variable {N : String → Prop} {p : α → Bool}

/-- `flatten` and `simplify` keep the literal predicate (proved for every closed `p` in `WFSimp`). -/
structure SimpOK (p : α → Bool) : Prop where
  flat : ∀ (n : Nat) (e f : Exp α), allLits p e = true → Exp.flattenF n e = some f → allLits p f = true
  simp : ∀ e : Exp α, allLits p e = true → allLits p (Exp.simplify e) = true

theorem normalizeExp_ok (hs : SimpOK p) {e f : Exp α} (he : allLits p e = true)
    (h : normalizeExp e = some f) : allLits p f = true := by
  unfold normalizeExp at h
  simp only [Option.map_eq_some_iff] at h
  obtain ⟨fl, hfl, rfl⟩ := h
  exact hs.simp _ (hs.flat _ _ _ (hs.simp _ he) hfl)

theorem simplifyFlat_sp (hs : SimpOK p) {e : Exp α} (he : allLits p e = true) (s : St α) :
    SpAt (Rel N p) (Inv N p) s (simplifyFlat e) (fun x => allLits p x = true) := by
  unfold simplifyFlat
  split
  · exact SpAt.fail (rel_isPre _ _) trivial
  · rename_i f hf
    exact SpAt.pure (rel_isPre _ _) (normalizeExp_ok hs he hf)

theorem emitConstraint_sp (hN : N "") (hp : Closed p) (hs : SimpOK p) (hB : BTrack p) {lhs rhs : Exp α}
    (hl : allLits p lhs = true) (hr : allLits p rhs = true) {name : String} (hn : N name) (cmp : Cmp) (s : St α) :
    SpAt (Rel N p) (Inv N p) s (emitConstraint lhs cmp rhs name) (fun _ => True) := by
  unfold emitConstraint
  split
  · exact SpAt.fail (rel_isPre _ _) trivial
  · rename_i fl hfl
    have hfl' : allLits p fl = true :=
      normalizeExp_ok hs (by simp [allLits, hl, hr]) hfl
    refine SpAt.bind (rel_isPre _ _) ((linExp_block hN hp hB).1 _ _ hfl' s) ?_
    intro v hv s1
    have hok' : StOK N p s1 → StOK N p { s1 with rows := s1.rows ++ [{ name := name, lhs := v.vars, rhs := Arith.neg v.rhs, cmp := cmp }] } := by
      intro hok
      refine ⟨hok.1, ?_⟩
      intro r hr'
      rcases List.mem_append.mp hr' with h | h
      · exact hok.2 _ h
      · simp only [List.mem_singleton] at h
        subst h
        unfold CtxOK at hv
        exact ⟨hn, hv.1, hp.neg _ hv.2⟩
    exact SpAt.modify (Rel.of_domain_eq rfl rfl hok') (fun hI => ⟨hok' hI.1, hI.2⟩) trivial

/-! ### `binary_affine_value` -/

theorem binaryAffineValue_ok (hp : Closed p) (d : List (DomVar α)) (e : Exp α) :
    ∀ c, allLits p e = true → binaryAffineValue d e = some c → CtxOK p c := by
  fun_induction binaryAffineValue d e with
  | case1 v h => intro c he hc; injection hc with hc; subst hc; exact CtxOK.fromRhs hp (by simpa [allLits] using he)
  | case2 v h => intro c he hc; cases hc
  | case3 n h => intro c he hc; injection hc with hc; subst hc; exact CtxOK.fromVarOne hp n
  | case4 n h => intro c he hc; cases hc
  | case5 e ih =>
    intro c he hc
    simp only [Option.map_eq_some_iff] at hc
    obtain ⟨c', hc', rfl⟩ := hc
    exact (ih c' (by simpa [allLits] using he) hc').negate hp
  | case6 e ih =>
    intro c he hc
    simp only [Option.map_eq_some_iff] at hc
    obtain ⟨c', hc', rfl⟩ := hc
    exact (ih c' (by simpa [allLits] using he) hc').negate hp
  | case7 t h1 h2 h3 h4 => intro c he hc; cases hc

theorem affineExp_ok (hp : Closed p) {d : List (DomVar α)} {e : Exp α} {c : Ctx α}
    (he : allLits p e = true) (hc : binaryAffineValue d e = some c) : allLits p (ctxToExp c) = true :=
  allLits_ctxToExp hp (binaryAffineValue_ok hp d e c he hc)

theorem allSome_ok {β : Type} {Q : β → Prop} : ∀ (xs : List (Option β)) (ys : List β),
    allSome xs = some ys → (∀ x ∈ xs, ∀ y, x = some y → Q y) → ∀ y ∈ ys, Q y
  | [], ys, h, _ => by
    simp only [allSome] at h; injection h with h; subst h; simp
  | none :: xs, ys, h, _ => by simp [allSome] at h
  | some x :: xs, ys, h, hq => by
    simp only [allSome, Option.map_eq_some_iff] at h
    obtain ⟨ys', hys', rfl⟩ := h
    intro y hy
    rcases List.mem_cons.mp hy with rfl | hy
    · exact hq (some y) (by simp) y rfl
    · exact allSome_ok xs ys' hys' (fun x' hx' => hq x' (by simp [hx'])) y hy

theorem allSome_affine_ok (hp : Closed p) {d : List (DomVar α)} {es ops : List (Exp α)}
    (hes : allLitsL p es = true)
    (h : allSome (es.map fun e => (binaryAffineValue d e).map ctxToExp) = some ops) :
    allLitsL p ops = true := by
  rw [allLitsL_iff]
  refine allSome_ok _ _ h ?_
  intro x hx y hy
  obtain ⟨e, he, rfl⟩ := List.mem_map.mp hx
  simp only [Option.map_eq_some_iff] at hy
  obtain ⟨c, hc, rfl⟩ := hy
  exact affineExp_ok hp ((allLitsL_iff p es).mp hes e he) hc

/-! ### extended automation -/

macro_rules
  | `(tactic| sp_call) => `(tactic| first
    | (apply emitConstraint_sp (by assumption) (by assumption) (by assumption) (by assumption))
    | (apply simplifyFlat_sp (by assumption)))

macro_rules
  | `(tactic| sp_side) => `(tactic| first
    | exact allSome_affine_ok (by assumption) (by assumption) (by assumption)
    | (refine affineExp_ok (by assumption) ?_ (by assumption); sp_side)
    | (refine allLits_ctxToExp (by assumption) (CtxOK.negate (by assumption) (binaryAffineValue_ok (by assumption) _ _ _ ?_ (by assumption))); sp_side)
    | (refine allLits_ctxToExp (by assumption) (binaryAffineValue_ok (by assumption) _ _ _ ?_ (by assumption)); sp_side)
    | (simp only [allLits]; split <;> sp_side))

theorem allLits_of_mem_pair {x a b : Exp α} (h : x ∈ [a, b]) (ha : allLits p a = true)
    (hb : allLits p b = true) : allLits p x = true := by
  simp only [List.mem_cons, List.mem_nil_iff, or_false] at h
  rcases h with rfl | rfl <;> assumption

theorem CtxOK.negateCtx (hp : Closed p) {c : Ctx α} (hc : CtxOK p c) : CtxOK p (negateCtx c) :=
  hc.negate hp

macro_rules
  | `(tactic| sp_side) => `(tactic| first
    | (apply allLits_ctxToExp (by assumption); split <;> sp_side)
    | (apply CtxOK.negateCtx (by assumption); sp_side)
    | (refine binaryAffineValue_ok (by assumption) _ _ _ ?_ (by assumption); sp_side)
    | (refine allLits_of_mem_pair (by assumption) ?_ ?_ <;> sp_side))

section lower
variable (hN : N "") (hp : Closed p) (hs : SimpOK p) (hB : BTrack p)
include hN hp hs hB
attribute [local irreducible] CtxOK Ctx.mergeAdd Ctx.mergeSub Ctx.mulBy Ctx.divBy Ctx.addRhs Ctx.addVar
  Ctx.fromRhs Ctx.fromVar Ctx.new ctxToExp sumExps isAux

theorem tryLowerAffine_sp (e : Exp α) (t : Bool) (name : String) :
    allLits p e = true → N name → ∀ s, SpAt (Rel N p) (Inv N p) s (tryLowerAffine e t name) (fun _ => True) := by
  fun_induction tryLowerAffine e t name
  all_goals (intros; sp_go)

theorem freshWitness_sp (s : St α) : SpAt (Rel N p) (Inv N p) s freshWitness (fun _ => True) := by
  unfold freshWitness
  sp_go

theorem linBinaryOperand_sp {e : Exp α} (he : allLits p e = true) (s : St α) :
    SpAt (Rel N p) (Inv N p) s (linBinaryOperand e) (fun x => allLits p x = true) :=
  (linExp_block hN hp hB).2.1 e he s

theorem iffWitness_sp {l r : Exp α} (hl : allLits p l = true) (hr : allLits p r = true) (t : Bool) (s : St α) :
    SpAt (Rel N p) (Inv N p) s (iffWitness l r t) (fun x => allLits p x = true) := by
  unfold iffWitness
  have h1 := linBinaryOperand_sp hN hp hs hB hl
  have h2 := linBinaryOperand_sp hN hp hs hB hr
  have h3 := freshWitness_sp (N := N) (p := p) hN hp hs hB
  sp_go
  rename_i x hx _ _
  split at hx <;> simp only [List.mem_cons, List.mem_nil_iff, or_false] at hx <;>
    rcases hx with rfl | rfl <;> sp_side

theorem dirWitness_block :
    (∀ (e : Exp α) (t : Bool), allLits p e = true →
      ∀ s, SpAt (Rel N p) (Inv N p) s (dirWitness e t) (fun x => allLits p x = true)) ∧
    (∀ (es : List (Exp α)) (t : Bool), allLitsL p es = true →
      ∀ s, SpAt (Rel N p) (Inv N p) s (dirWitnessList es t) (fun xs => allLitsL p xs = true)) := by
  have h3 := freshWitness_sp (N := N) (p := p) hN hp hs hB
  have h4 := @iffWitness_sp α _ _ N p hN hp hs hB
  apply dirWitness.mutual_induct
    (motive_1 := fun e t => allLits p e = true →
      ∀ s, SpAt (Rel N p) (Inv N p) s (dirWitness e t) (fun x => allLits p x = true))
    (motive_2 := fun es t => allLitsL p es = true →
      ∀ s, SpAt (Rel N p) (Inv N p) s (dirWitnessList es t) (fun xs => allLitsL p xs = true))
  all_goals (intros; (first | simp only [dirWitness] | simp only [dirWitnessList] | skip); sp_go)
  · refine SpAt.bind (mid := fun x => allLits p x = true) (rel_isPre _ _) ?_ ?_
    · sp_go
    · intro c1 hc1 s1
      sp_go

theorem lowerAssertion_block :
    (∀ (e : Exp α) (t : Bool) (name : String), allLits p e = true → N name →
      ∀ s, SpAt (Rel N p) (Inv N p) s (lowerAssertion e t name) (fun _ => True)) ∧
    (∀ (es : List (Exp α)) (t : Bool) (name : String), allLitsL p es = true → N name →
      ∀ s, SpAt (Rel N p) (Inv N p) s (lowerAssertionList es t name) (fun _ => True)) := by
  have h1 := @linBinaryOperand_sp α _ _ N p hN hp hs hB
  have h2 := (dirWitness_block hN hp hs hB).1
  have h3 := (dirWitness_block hN hp hs hB).2
  have h5 := tryLowerAffine_sp hN hp hs hB
  apply lowerAssertion.mutual_induct
    (motive_1 := fun e t name => allLits p e = true → N name →
      ∀ s, SpAt (Rel N p) (Inv N p) s (lowerAssertion e t name) (fun _ => True))
    (motive_2 := fun es t name => allLitsL p es = true → N name →
      ∀ s, SpAt (Rel N p) (Inv N p) s (lowerAssertionList es t name) (fun _ => True))
  all_goals (intros; (first | simp only [lowerAssertion] | simp only [lowerAssertionList] | skip); sp_go)

/-! ### the work-list loop -/

omit hN hp hs hB in
theorem tryNormalize_assertion {d : List (DomVar α)} {lhs rhs e : Exp α} {cmp : Cmp} {t : Bool}
    (h : tryNormalize d lhs cmp rhs = some (.assertion e t)) : e = lhs ∨ e = rhs := by
  unfold tryNormalize at h
  dsimp only at h
  split at h
  · cases h
  · rename_i e' cmp' c hpick
    have he' : e' = lhs ∨ e' = rhs := by
      split at hpick
      · split at hpick
        · injection hpick with hpick; injection hpick with h1 _; exact Or.inl h1.symm
        · cases hpick
      · split at hpick
        · split at hpick
          · injection hpick with hpick; injection hpick with h1 _; exact Or.inr h1.symm
          · cases hpick
        · cases hpick
    split at h
    · split at h <;> cases h
    · split at h <;> first
        | (injection h with h; first | (injection h with h1 _; rw [← h1]; exact he') | cases h)
        | (split at h <;> cases h)  -- fix ba14904: the two constant verdicts are guarded by `mayBeUndefined`

omit hN hp hs hB in
theorem bind_ok {x : M α β} {f : β → M α γ} {s s' : St α} {c : γ} (h : (x >>= f) s = .ok (c, s')) :
    ∃ a s1, x s = .ok (a, s1) ∧ f a s1 = .ok (c, s') := by
  rw [bind_run] at h
  cases hx : x s with
  | error e => rw [hx] at h; cases h
  | ok q => obtain ⟨a, s1⟩ := q; rw [hx] at h; exact ⟨a, s1, rfl, h⟩

omit hN hp hs hB in
theorem bind_error {x : M α β} {f : β → M α γ} {s : St α} {err : LinErr} (h : (x >>= f) s = .error err) :
    x s = .error err ∨ ∃ a s1, x s = .ok (a, s1) ∧ f a s1 = .error err := by
  rw [bind_run] at h
  cases hx : x s with
  | error e =>
    rw [hx] at h
    have h' : (Except.error e : Except LinErr (γ × St α)) = .error err := h
    injection h' with h'
    left; rw [h']
  | ok q => obtain ⟨a, s1⟩ := q; rw [hx] at h; exact Or.inr ⟨a, s1, rfl, h⟩

/-- the loop: a program of type `M α Unit` under the invariant. -/
def SpI (N : String → Prop) (p : α → Bool) (s : St α) (x : M α Unit) : Prop :=
  SpAt (Rel N p) (Inv N p) s x (fun _ => True)

omit hN hp hs hB in
theorem SpI.of_bind {s : St α} {x : M α β} {f : β → M α Unit} {mid : β → Prop}
    (hx : SpAt (Rel N p) (Inv N p) s x mid) (hf : ∀ a, mid a → ∀ s1, SpI N p s1 (f a)) : SpI N p s (x >>= f) :=
  SpAt.bind (rel_isPre N p) hx hf

omit hN hp hs hB in
theorem SpI.intro {s : St α} {x : M α Unit} (h : Inv N p s → SpI N p s x) : SpI N p s x := SpAt.assume h

omit hN hp hs hB in
theorem SpI.pure {s : St α} : SpI N p s (pure ()) := SpAt.pure (rel_isPre N p) trivial

omit hN hp hs hB in
theorem SpI.fail {s : St α} {e : LinErr} (h : ErrOK s e) : SpI N p s (Lin.fail e) := SpAt.fail (rel_isPre N p) h

omit hN hp hs hB in
theorem SpI.get_bind {s : St α} {f : St α → M α Unit} (h : SpI N p s (f s)) : SpI N p s (get >>= f) :=
  SpAt.get_bind (fun _ => h)

omit hN hp hs hB in
theorem SpI.set_bind {s s2 : St α} {f : PUnit → M α Unit} (hr : Rel N p s s2) (hI : Inv N p s → Inv N p s2)
    (h : SpI N p s2 (f PUnit.unit)) : SpI N p s (set s2 >>= f) :=
  SpAt.set_bind (rel_isPre N p) hr hI h

theorem drain_spec : ∀ (n : Nat) (s : St α), SpI N p s (drain n)
  | 0, s => SpI.fail trivial
  | n+1, s => by
    have ih := drain_spec n
    rw [drain.eq_2]
    refine SpI.intro (fun hok => ?_)
    apply SpI.get_bind
    split
    · exact SpI.pure
    · rename_i c rest hq
      have hc : QOK N p c := hok.1.1 c (by rw [hq]; simp)
      have hpop : StOK N p s → StOK N p { s with queue := rest } :=
        fun h => ⟨fun c' hc' => h.1 c' (by rw [hq]; simp [hc']), h.2⟩
      refine SpI.set_bind (Rel.of_domain_eq rfl rfl hpop) (fun hI => ⟨hpop hI.1, hI.2⟩) ?_
      refine SpI.of_bind (simplifyFlat_sp hs hc.2.1 _) ?_
      intro lhs hlhs s3
      refine SpI.of_bind (simplifyFlat_sp hs hc.2.2 s3) ?_
      intro rhs hrhs s4
      dsimp only
      split
      · exact SpI.of_bind ((lowerAssertion_block hN hp hs hB).1 _ _ _ hlhs hc.1 s4) (fun _ _ s5 => ih s5)
      · apply SpI.get_bind
        split
        · exact ih s4
        · exact SpI.of_bind (emitConstraint_sp hN hp hs hB (by simp [allLits]; exact hp.ofInt 0)
            (by simp [allLits]; exact hp.ofInt 1) hc.1 _ s4) (fun _ _ s5 => ih s5)
        · rename_i e t hnorm
          have he : allLits p e = true := by
            rcases tryNormalize_assertion hnorm with rfl | rfl <;> assumption
          exact SpI.of_bind ((lowerAssertion_block hN hp hs hB).1 _ _ _ he hc.1 s4) (fun _ _ s5 => ih s5)
        · exact SpI.of_bind (emitConstraint_sp hN hp hs hB hlhs hrhs hc.1 _ s4) (fun _ _ s5 => ih s5)

/-! ### the whole of `linearizeWith` -/

/-- the initial state of the linearizer. -/
def initSt (m : Model α) (bounds : BoundsMap α) (domain : List (DomVar α)) : St α :=
  { queue := m.constraints, domain := domain, bounds := bounds }

/-- how the output is assembled from the final state `s` and the linearized objective `obj`. -/
def assemble (m : Model α) (obj : Ctx α) (s : St α) : LinModel α :=
  let rows := dedupNames s.rows
  let vars := sortStr ((s.domain.filter (fun d => d.usage > 0)).map (·.name))
  let dom := s.domain.filter fun d => vars.contains d.name
  { optType := m.optType
    objective := extractCoeffs obj.vars vars
    offset := obj.rhs
    vars := vars
    domain := dom
    rows := rows.map fun r => { name := r.name, coeffs := extractCoeffs r.lhs vars, cmp := r.cmp, rhs := r.rhs } }

/-- a successful run of `linearizeWith` ends in a state related to the initial one by `Rel`, and the
output is assembled from that state. -/
theorem linearizeWith_run {m : Model α} {bounds : BoundsMap α} {domain : List (DomVar α)} {lm : LinModel α}
    (hobj : allLits p m.objective = true) (hok : Inv N p (initSt m bounds domain))
    (h : linearizeWith m bounds domain = .ok lm) :
    ∃ (obj : Ctx α) (s : St α), Rel N p (initSt m bounds domain) s ∧ Inv N p s ∧ CtxOK p obj ∧
      lm = assemble m obj s := by
  unfold linearizeWith at h
  dsimp only at h
  split at h
  · rename_i lm' sfin hrun
    injection h with h
    subst h
    change (_ : M α (LinModel α)) (initSt m bounds domain) = _ at hrun
    obtain ⟨objExp, s1, h1, hrun⟩ := bind_ok hrun
    obtain ⟨obj, s2, h2, hrun⟩ := bind_ok hrun
    obtain ⟨u, s3, h3, hrun⟩ := bind_ok hrun
    obtain ⟨hr1, hI1, hobjExp⟩ := (simplifyFlat_sp (N := N) hs hobj _ hok).1 _ _ h1
    obtain ⟨hr2, hok2, hobjc⟩ := ((linExp_block hN hp hB).1 _ _ hobjExp _ hI1).1 _ _ h2
    obtain ⟨hr3, hI3, _⟩ := (drain_spec hN hp hs hB _ s2 hok2).1 _ s3 h3
    have hfin : (Except.ok (assemble m obj s3, s3) : Except LinErr (LinModel α × St α)) = .ok (lm', sfin) := hrun
    injection hfin with hfin
    injection hfin with hlm _
    exact ⟨obj, s3, (rel_isPre N p).trans hr1 ((rel_isPre N p).trans hr2 hr3), hI3, hobjc, hlm.symm⟩
  · cases h

/-- a failing run of `linearizeWith`: the error was raised in a state related to the initial one by `Rel`
and satisfies `ErrOK` there. -/
theorem linearizeWith_error {m : Model α} {bounds : BoundsMap α} {domain : List (DomVar α)} {err : LinErr}
    (hobj : allLits p m.objective = true) (hok : Inv N p (initSt m bounds domain))
    (h : linearizeWith m bounds domain = .error err) :
    ∃ s' : St α, Rel N p (initSt m bounds domain) s' ∧ ErrOK s' err := by
  unfold linearizeWith at h
  dsimp only at h
  split at h
  · cases h
  · rename_i e hrun
    injection h with h
    subst h
    change (_ : M α (LinModel α)) (initSt m bounds domain) = _ at hrun
    have hT : ∀ {a b c : St α}, Rel N p a b → Rel N p b c → Rel N p a c := (rel_isPre N p).trans
    have sp1 := simplifyFlat_sp (N := N) hs hobj (initSt m bounds domain) hok
    rcases bind_error hrun with h1 | ⟨objExp, s1, h1, hrun⟩
    · exact sp1.2 _ h1
    · obtain ⟨hr1, hI1, hobjExp⟩ := sp1.1 _ _ h1
      have sp2 := fun req => (linExp_block hN hp hB).1 objExp req hobjExp s1 hI1
      rcases bind_error hrun with h2 | ⟨obj, s2, h2, hrun⟩
      · obtain ⟨s', hr, he⟩ := (sp2 _).2 _ h2
        exact ⟨s', hT hr1 hr, he⟩
      · obtain ⟨hr2, hok2, _⟩ := (sp2 _).1 _ _ h2
        have sp3 := drain_spec hN hp hs hB drainFuel s2 hok2
        rcases bind_error hrun with h3 | ⟨u, s3, h3, hrun⟩
        · obtain ⟨s', hr, he⟩ := sp3.2 _ h3
          exact ⟨s', hT hr1 (hT hr2 hr), he⟩
        · cases hrun

end lower

end Lin
end Rooc
