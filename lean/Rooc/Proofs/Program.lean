/-
Round trip of whole programs of the fragment (no iterations, simple names): the tokens the program printer
writes (`progToks`) are read back by the program-level parser model (`parseProgram`) as the same `PModel`.
-/
import Rooc.Proofs.Format
import Rooc.Syntax.Program
import Rooc.Syntax.ProgramToks
namespace Rooc.Syntax.Proofs
open Rooc Rooc.Syntax Rooc.Syntax.Doc

/-- tokens an expression is written with (no NEWLINE, `:`, comparison, `s.t.`) -/
def isExprTok : Tok → Bool
  | .nl | .colon | .le | .ge | .eq | .lt | .gt | .st => false
  | _ => true

theorem binKwTok_expr (o : BinOp) : isExprTok (binKwTok o) = true := by cases o <;> rfl
theorem unKwTok_expr (u : UnOp) : isExprTok (unKwTok u) = true := by cases u <;> rfl

theorem mem_paren_expr {xs : List Tok} (h : ∀ tk ∈ xs, isExprTok tk = true) : ∀ tk ∈ parenToks xs, isExprTok tk = true := by
  intro tk htk
  rcases List.mem_cons.mp htk with rfl | htk
  · rfl
  · rcases List.mem_append.mp htk with htk | htk
    · exact h tk htk
    · simp at htk; subst htk; rfl

mutual
theorem fmtToks_expr : (t : PExp) → ∀ tk ∈ fmtToks t, isExprTok tk = true
  | .int _ => by intro tk h; simp [fmtToks] at h; subst h; rfl
  | .num _ => by intro tk h; simp [fmtToks] at h; subst h; rfl
  | .bool _ => by intro tk h; simp [fmtToks] at h; subst h; rfl
  | .var _ => by intro tk h; simp [fmtToks] at h; subst h; rfl
  | .call n args => by
    intro tk h
    simp only [fmtToks] at h
    rcases List.mem_cons.mp h with rfl | h
    · rfl
    · exact mem_paren_expr (fmtToksArgs_expr args) tk h
  | .un u e => by
    intro tk h
    simp only [fmtToks] at h
    rcases List.mem_cons.mp h with rfl | h
    · exact unKwTok_expr u
    · by_cases hl : e.isLeaf = true
      · simp only [hl, if_true] at h; exact fmtToks_expr e tk h
      · simp only [hl] at h; exact mem_paren_expr (fmtToks_expr e) tk h
  | .bin o l r => by
    intro tk h
    have hp : ∀ (b : Bool) (e : PExp), (∀ tk ∈ fmtToks e, isExprTok tk = true) →
        ∀ tk ∈ (if b then parenToks (fmtToks e) else fmtToks e), isExprTok tk = true := by
      intro b e ih tk h
      cases b
      · exact ih tk (by simpa using h)
      · exact mem_paren_expr ih tk (by simpa using h)
    simp only [fmtToks] at h
    rcases List.mem_append.mp h with h | h
    · exact hp _ l (fmtToks_expr l) tk h
    · rcases List.mem_cons.mp h with rfl | h
      · exact binKwTok_expr o
      · exact hp _ r (fmtToks_expr r) tk h
  | .str _ | .prim _ | .cvar _ _ | .access _ _ | .block _ _ | .scoped _ _ _ _ => by intro tk h; simp [fmtToks] at h
theorem fmtToksArgs_expr : (as : List PExp) → ∀ tk ∈ fmtToksArgs as, isExprTok tk = true
  | [] => by intro tk h; simp [fmtToksArgs] at h
  | [a] => by simpa [fmtToksArgs] using fmtToks_expr a
  | a :: b :: rest => by
    intro tk h
    simp only [fmtToksArgs] at h
    rcases List.mem_append.mp h with h | h
    · exact fmtToks_expr a tk h
    · rcases List.mem_cons.mp h with rfl | h
      · rfl
      · exact fmtToksArgs_expr (b :: rest) tk h
end

/-- the printed tokens of a well-formed expression are not empty -/
theorem fmtToks_cons : (t : PExp) → WF t → ∃ tk tl, fmtToks t = tk :: tl
  | .int _, _ | .num _, _ | .bool _, _ | .var _, _ => by simp [fmtToks]
  | .call _ _, _ => by simp [fmtToks]
  | .un _ _, _ => by simp [fmtToks]
  | .bin o l r, h => by
    obtain ⟨tk, tl, hl⟩ := fmtToks_cons l h.1
    by_cases hp : printsParen o false l = true
    · simp [fmtToks, hp, parenToks]
    · simp [fmtToks, hp, hl]
  | .str _, h | .prim _, h | .cvar _ _, h | .access _ _, h | .block _ _, h | .scoped _ _ _ _, h => by simp [WF] at h

/-- **one expression**: printed tokens followed by a terminator are read back -/
theorem expAt_fmt {e : PExp} (h : WF e) {rest : List Tok} (hc : Closed rest) :
    expAt (fmtToks e ++ rest) = .ok (e, rest) := by
  obtain ⟨items, hk, _⟩ := fmt_tk e h
  exact parseExp_of_main (tk_main hk).1 hk.toIR hc _ (by simp [parseFuel]; omega)

/-! ### newlines -/

theorem skipNl_expr {tk : Tok} (h : isExprTok tk = true) (tl : List Tok) : skipNl (tk :: tl) = tk :: tl := by
  cases tk <;> simp [isExprTok] at h <;> rfl

theorem skipNl_fmt {e : PExp} (h : WF e) (rest : List Tok) : skipNl (fmtToks e ++ rest) = fmtToks e ++ rest := by
  obtain ⟨tk, tl, ht⟩ := fmtToks_cons e h
  have := fmtToks_expr e tk (by rw [ht]; exact List.mem_cons_self)
  rw [ht]; exact skipNl_expr this _

theorem skipNl_word (w : String) (tl : List Tok) : skipNl (.word w :: tl) = .word w :: tl := rfl

/-! ### objective -/

/-- well-formed constraint of the fragment -/
def WFc (c : PConstraint) : Prop :=
  (match c.name with
   | none => True
   | some (.plain n) => isKeyword n = false
   | some (.compound _ _) => False)
  ∧ WF c.lhs ∧ (if c.logic = true then c.cmp = .eq ∧ c.rhs = .bool true else WF c.rhs)
  ∧ c.iterVars = [] ∧ c.iters = []

theorem cmpOfTok_cmpTok (c : Cmp) : cmpOfTok (cmpTok c) = some c := by cases c <;> rfl
theorem cmpTok_term (c : Cmp) : isTerm (cmpTok c) = true := by cases c <;> rfl

/-- a constraint name is not mistaken where there is none: the second token of an expression text followed
by a comparison / NEWLINE is never `:` -/
theorem constraintName_none {ts : List Tok} {x : Tok} {tail : List Tok} (hne : ∃ tk tl, ts = tk :: tl)
    (hall : ∀ tk ∈ ts, isExprTok tk = true) (hx : x ≠ .colon) :
    constraintName (ts ++ x :: tail) = (none, ts ++ x :: tail) := by
  obtain ⟨tk, tl, rfl⟩ := hne
  cases tl with
  | nil =>
    cases tk <;> first | rfl | skip
    rename_i w
    cases x <;> first | rfl | exact absurd rfl hx
  | cons t2 tl2 =>
    have h2 : t2 ≠ .colon := by
      intro e; have := hall t2 (by simp); rw [e] at this; cases this
    cases tk <;> first | rfl | skip
    rename_i w
    cases t2 <;> first | rfl | exact absurd rfl h2

theorem parseConstraint_fmt {c : PConstraint} (h : WFc c) (rest : List Tok) :
    parseConstraint (constraintToks c ++ .nl :: rest) = .ok (c, .nl :: rest) := by
  obtain ⟨hn, hl, hr, hiv, hit⟩ := h
  obtain ⟨name, lhs, cmp, rhs, logic, iterVars, iters⟩ := c
  simp only at hn hl hr hiv hit
  subst hiv hit
  -- the body after the (optional) name
  have hbody : ∀ nm, constraintBody nm
        (fmtToks lhs ++ ((if logic = true then [] else cmpTok cmp :: fmtToks rhs) ++ .nl :: rest)) =
      .ok ({ name := nm, lhs := lhs, cmp := cmp, rhs := rhs, logic := logic, iterVars := [], iters := [] }, .nl :: rest) := by
    intro nm
    unfold constraintBody
    cases logic with
    | true =>
      obtain ⟨hc, hrr⟩ : cmp = .eq ∧ rhs = .bool true := by simpa using hr
      subst hc hrr
      simp only [if_true, List.nil_append]
      rw [expAt_fmt hl (closed_nl rest)]
      simp [cmpOfTok]
    | false =>
      have hr' : WF rhs := by simpa using hr
      simp only [Bool.false_eq_true, if_false, List.cons_append]
      rw [expAt_fmt hl (closed_of_term (cmpTok_term cmp) _)]
      simp only [cmpOfTok_cmpTok]
      rw [expAt_fmt hr' (closed_nl rest)]
  unfold parseConstraint
  match name, hn with
  | none, _ =>
    have hcn : constraintName (constraintToks { name := none, lhs := lhs, cmp := cmp, rhs := rhs, logic := logic, iterVars := [], iters := [] } ++ .nl :: rest)
        = (none, fmtToks lhs ++ ((if logic = true then [] else cmpTok cmp :: fmtToks rhs) ++ .nl :: rest)) := by
      simp only [constraintToks, List.nil_append, List.append_assoc]
      cases logic with
      | true =>
        simpa using constraintName_none (x := .nl) (tail := rest) (fmtToks_cons lhs hl) (fmtToks_expr lhs) (by simp)
      | false =>
        have := constraintName_none (x := cmpTok cmp) (tail := fmtToks rhs ++ .nl :: rest) (fmtToks_cons lhs hl) (fmtToks_expr lhs)
          (by cases cmp <;> simp [cmpTok])
        simpa using this
    rw [hcn]
    exact hbody none
  | some (.plain n), hk =>
    have hcn : constraintName (constraintToks { name := some (.plain n), lhs := lhs, cmp := cmp, rhs := rhs, logic := logic, iterVars := [], iters := [] } ++ .nl :: rest)
        = (some (.plain n), fmtToks lhs ++ ((if logic = true then [] else cmpTok cmp :: fmtToks rhs) ++ .nl :: rest)) := by
      simp only [constraintToks, cnameToks, List.cons_append, List.nil_append, List.append_assoc, constraintName, hk]
      simp [skipNl_fmt hl]
    rw [hcn]
    exact hbody (some (.plain n))

/-! ### where an expression cannot start -/

theorem expAt_nil : expAt [] = .error .reject := by
  simp [expAt, parseFuel, parseExp, collect, optUnary, leaf]

theorem expAt_keyword {w : String} (hk : isKeyword w = true) (hb : Gen.booleanWords.contains w = false) (hn : w ≠ "not")
    (r : List Tok) (hr : ∀ tl, r ≠ .lpar :: tl) : expAt (.word w :: r) = .error .reject := by
  have hf : parseFuel (.word w :: r) = (6 * r.length + 13) + 3 := by simp [parseFuel]; omega
  have hu : optUnary (.word w :: r) = ([], .word w :: r) := by simp [optUnary, unRule_word hn]
  have hl : leaf (6 * r.length + 13 + 1) (.word w :: r) = .error .reject := by
    rw [leaf_word _ _ _ hr]; simp only [wordLeaf, hb, hk]; rfl
  simp only [expAt, hf, parseExp, collect, hu, hl]

theorem constraint_stops_nil : parseConstraint [] = .error .reject := by
  simp [parseConstraint, constraintName, constraintBody, expAt_nil]

theorem constraint_stops_kw {w : String} (hk : isKeyword w = true) (hb : Gen.booleanWords.contains w = false) (hn : w ≠ "not")
    (r : List Tok) : parseConstraint (.word w :: .nl :: r) = .error .reject := by
  have : expAt (.word w :: .nl :: r) = .error .reject := expAt_keyword hk hb hn _ (by intro tl h; cases h)
  simp [parseConstraint, constraintName, constraintBody, this]

/-- what may follow the constraint list: nothing, `where …` or `define …` -/
def StopsC (X : List Tok) : Prop :=
  X = [] ∨ (∃ r, X = .word "where" :: .nl :: r) ∨ (∃ r, X = .word "define" :: .nl :: r)

theorem stopsC_spec {X : List Tok} (h : StopsC X) : parseConstraint X = .error .reject ∧ skipNl X = X := by
  rcases h with rfl | ⟨r, rfl⟩ | ⟨r, rfl⟩
  · exact ⟨constraint_stops_nil, rfl⟩
  · exact ⟨constraint_stops_kw (by decide) (by decide) (by decide) r, rfl⟩
  · exact ⟨constraint_stops_kw (by decide) (by decide) (by decide) r, rfl⟩

theorem skipNl_constraint {c : PConstraint} (h : WFc c) (rest : List Tok) :
    skipNl (constraintToks c ++ rest) = constraintToks c ++ rest := by
  obtain ⟨hn, hl, _⟩ := h
  unfold constraintToks
  match hc : c.name, hn with
  | none, _ => simp only [List.nil_append, List.append_assoc]; exact skipNl_fmt hl _
  | some (.plain n), _ => simp [cnameToks, skipNl]

/-- the constraint list, entered after a NEWLINE -/
theorem loopC : ∀ (cs : List PConstraint), (∀ c ∈ cs, WFc c) → ∀ (X : List Tok) (acc : List PConstraint) (f : Nat),
    StopsC X → cs.length < f →
    parseConstraints f (.nl :: (constraintsToks cs ++ X)) acc = .ok (acc ++ cs, .nl :: X)
  | [], _, X, acc, f, hX, hf => by
    obtain ⟨f', rfl⟩ : ∃ f', f = f' + 1 := ⟨f - 1, by simp at hf; omega⟩
    obtain ⟨h1, h2⟩ := stopsC_spec hX
    simp [parseConstraints, constraintsToks, skipNl, h2, h1]
  | c :: cs, h, X, acc, f, hX, hf => by
    obtain ⟨f', rfl⟩ : ∃ f', f = f' + 1 := ⟨f - 1, by simp at hf; omega⟩
    have hc := h c List.mem_cons_self
    have ih := loopC cs (fun d hd => h d (List.mem_cons_of_mem _ hd)) X (acc ++ [c]) f' hX (by simp at hf; omega)
    simp only [parseConstraints, constraintsToks, skipNl, List.append_assoc, List.cons_append]
    rw [skipNl_constraint hc, parseConstraint_fmt hc]
    simp only [ih]
    simp

/-- the constraint list right after `s.t.` NEWLINE (at least one constraint) -/
theorem firstC {c : PConstraint} {cs : List PConstraint} (h : ∀ d ∈ c :: cs, WFc d) (X : List Tok) (hX : StopsC X) :
    parseConstraints ((constraintsToks (c :: cs) ++ X).length + 1) (constraintsToks (c :: cs) ++ X) [] = .ok (c :: cs, .nl :: X) := by
  have hc := h c List.mem_cons_self
  have hlen : cs.length < (constraintsToks (c :: cs) ++ X).length := by
    have : ∀ (l : List PConstraint), l.length ≤ (constraintsToks l).length := by
      intro l; induction l with
      | nil => simp [constraintsToks]
      | cons a l ih => simp [constraintsToks]; omega
    have := this cs
    simp [constraintsToks]; omega
  simp only [parseConstraints, constraintsToks, List.append_assoc, List.cons_append]
  rw [skipNl_constraint hc, parseConstraint_fmt hc]
  have := loopC cs (fun d hd => h d (List.mem_cons_of_mem _ hd)) X [c] _ hX (by simpa [constraintsToks] using hlen)
  simpa [constraintsToks] using this

/-! ### `where` -/

/-- what may follow the constants: nothing or `define …` -/
def StopsK (Y : List Tok) : Prop := Y = [] ∨ ∃ r, Y = .word "define" :: .nl :: r

theorem loopK : ∀ (ks : List (String × PExp)), (∀ k ∈ ks, WF k.2) → ∀ (Y : List Tok) (acc : List (String × PExp)) (f : Nat),
    StopsK Y → ks.length < f →
    parseConsts f (.nl :: (constsToks ks ++ Y)) acc = .ok (acc ++ ks, .nl :: Y)
  | [], _, Y, acc, f, hY, hf => by
    obtain ⟨f', rfl⟩ : ∃ f', f = f' + 1 := ⟨f - 1, by simp at hf; omega⟩
    rcases hY with rfl | ⟨r, rfl⟩ <;> simp [parseConsts, constsToks, needNl, skipNl]
  | (n, v) :: ks, h, Y, acc, f, hY, hf => by
    obtain ⟨f', rfl⟩ : ∃ f', f = f' + 1 := ⟨f - 1, by simp at hf; omega⟩
    have hv : WF v := h (n, v) List.mem_cons_self
    have ih := loopK ks (fun d hd => h d (List.mem_cons_of_mem _ hd)) Y (acc ++ [(n, v)]) f' hY (by simp at hf; omega)
    simp only [parseConsts, constsToks, needNl, skipNl, List.cons_append, List.append_assoc]
    rw [expAt_fmt hv (closed_nl _)]
    simp only [ih]
    simp

/-! ### `define` -/

def plainName : CName → Prop
  | .plain n => isKeyword n = false
  | .compound _ _ => False

def WFt : PVarType → Prop
  | .boolean => True
  | .nonNegReal none none => True
  | .nonNegReal (some a) (some b) => WF a ∧ WF b
  | .real none none => True
  | .real (some a) (some b) => WF a ∧ WF b
  | .intRange a b => WF a ∧ WF b
  | _ => False

/-- well-formed domain declaration of the fragment -/
def WFd (d : PDomain) : Prop :=
  d.vars ≠ [] ∧ (∀ v ∈ d.vars, plainName v) ∧ WFt d.ty ∧ d.iterVars = [] ∧ d.iters = []

theorem parseDomainVars_fmt : ∀ (vs : List CName), vs ≠ [] → (∀ v ∈ vs, plainName v) → ∀ (R : List Tok) (acc : List CName) (f : Nat),
    vs.length ≤ f → (∀ tl, R ≠ .comma :: tl) →
    parseDomainVars f (varListToks vs ++ R) acc = some (acc ++ vs, R)
  | [], h, _, _, _, _, _, _ => absurd rfl h
  | [.plain n], _, hp, R, acc, f, hf, hR => by
    obtain ⟨f', rfl⟩ : ∃ f', f = f' + 1 := ⟨f - 1, by simp at hf; omega⟩
    have hk : isKeyword n = false := hp (.plain n) List.mem_cons_self
    cases R with
    | nil => simp [parseDomainVars, varListToks, cnameToks, hk]
    | cons t tl =>
      have : t ≠ .comma := fun e => hR tl (by rw [e])
      cases t <;> first | exact absurd rfl this | simp [parseDomainVars, varListToks, cnameToks, hk]
  | [.compound _ _], _, hp, _, _, _, _, _ => absurd (hp _ List.mem_cons_self) (by simp [plainName])
  | .plain n :: w :: rest, _, hp, R, acc, f, hf, hR => by
    obtain ⟨f', rfl⟩ : ∃ f', f = f' + 1 := ⟨f - 1, by simp at hf; omega⟩
    have hk : isKeyword n = false := hp (.plain n) List.mem_cons_self
    have ih := parseDomainVars_fmt (w :: rest) (by simp) (fun v hv => hp v (List.mem_cons_of_mem _ hv)) R (acc ++ [.plain n]) f'
      (by simp at hf ⊢; omega) hR
    have hskip : skipNl (varListToks (w :: rest) ++ R) = varListToks (w :: rest) ++ R := by
      have hw : plainName w := hp w (by simp)
      cases w with
      | plain m => cases rest <;> simp [varListToks, cnameToks, skipNl]
      | compound _ _ => exact absurd hw (by simp [plainName])
    simp only [parseDomainVars, varListToks, cnameToks, List.cons_append, List.nil_append, hk, List.append_assoc]
    simp only [Bool.false_eq_true, if_false]
    rw [hskip, ih]
    simp
  | .compound _ _ :: _ :: _, _, hp, _, _, _, _, _ => absurd (hp _ List.mem_cons_self) (by simp [plainName])

theorem varListToks_len : ∀ (vs : List CName), (∀ v ∈ vs, plainName v) → vs.length ≤ (varListToks vs).length
  | [], _ => by simp
  | [.plain _], _ => by simp [varListToks, cnameToks]
  | [.compound _ _], h => absurd (h _ List.mem_cons_self) (by simp [plainName])
  | .plain _ :: w :: rest, h => by
    have := varListToks_len (w :: rest) (fun v hv => h v (List.mem_cons_of_mem _ hv))
    simp [varListToks, cnameToks] at this ⊢; omega
  | .compound _ _ :: _ :: _, h => absurd (h _ List.mem_cons_self) (by simp [plainName])

theorem typeArgs2 {a b : PExp} (ha : WF a) (hb : WF b) (R : List Tok) (f : Nat) (hf : 2 ≤ f) :
    parseTypeArgs f (fmtToks a ++ .comma :: (fmtToks b ++ .rpar :: R)) [] = .ok ([a, b], R) := by
  obtain ⟨f', rfl⟩ : ∃ f', f = f' + 2 := ⟨f - 2, by omega⟩
  simp only [parseTypeArgs]
  rw [expAt_fmt ha (closed_comma _)]
  simp only [skipNl_fmt hb, List.nil_append]
  rw [expAt_fmt hb (closed_rpar _)]
  simp

theorem parseDomain_fmt {d : PDomain} (h : WFd d) (rest : List Tok) :
    parseDomain (domainToks d ++ .nl :: rest) = .ok (d, .nl :: rest) := by
  obtain ⟨hne, hp, ht, hiv, hit⟩ := h
  obtain ⟨vars, ty, iterVars, iters⟩ := d
  simp only at hne hp ht hiv hit
  subst hiv hit
  have hvars : ∀ T, parseDomainVars ((varListToks vars ++ .word "as" :: T).length + 1) (varListToks vars ++ .word "as" :: T) []
      = some (vars, .word "as" :: T) := by
    intro T
    have := parseDomainVars_fmt vars hne hp (.word "as" :: T) [] ((varListToks vars ++ .word "as" :: T).length + 1)
      (by have := varListToks_len vars hp; simp; omega) (by intro tl e; cases e)
    simpa using this
  have has : lowerWord "as" = "as" := by decide
  unfold parseDomain
  simp only [domainToks, List.append_assoc, List.cons_append]
  rw [hvars]
  simp only [skipNl_word]
  match ty, ht with
  | .boolean, _ => simp [typeToks, has, isTypeName, isKeyword, mkVarType]; decide
  | .nonNegReal none none, _ => simp [typeToks, has, isTypeName, isKeyword, mkVarType]; decide
  | .real none none, _ => simp [typeToks, has, isTypeName, isKeyword, mkVarType]; decide
  | .nonNegReal (some a) (some b), ⟨ha, hb⟩ =>
    have ht1 : isTypeName "NonNegativeReal" = true := by decide
    have ht2 : isKeyword "NonNegativeReal" = false := by decide
    simp only [typeToks, List.cons_append, List.append_assoc, List.nil_append, has, ht1, ht2, beq_self_eq_true, Bool.and_self,
      Bool.not_false, Bool.and_true, if_true]
    rw [typeArgs2 ha hb _ _ (by simp; omega)]
    simp [mkVarType]
  | .real (some a) (some b), ⟨ha, hb⟩ =>
    have ht1 : isTypeName "Real" = true := by decide
    have ht2 : isKeyword "Real" = false := by decide
    simp only [typeToks, List.cons_append, List.append_assoc, List.nil_append, has, ht1, ht2, beq_self_eq_true, Bool.and_self,
      Bool.not_false, Bool.and_true, if_true]
    rw [typeArgs2 ha hb _ _ (by simp; omega)]
    simp [mkVarType]
  | .intRange a b, ⟨ha, hb⟩ =>
    have ht1 : isTypeName "IntegerRange" = true := by decide
    have ht2 : isKeyword "IntegerRange" = false := by decide
    simp only [typeToks, List.cons_append, List.append_assoc, List.nil_append, has, ht1, ht2, beq_self_eq_true, Bool.and_self,
      Bool.not_false, Bool.and_true, if_true]
    rw [typeArgs2 ha hb _ _ (by simp; omega)]
    simp [mkVarType]

theorem skipNl_domain {d : PDomain} (h : WFd d) (rest : List Tok) :
    skipNl (domainToks d ++ rest) = domainToks d ++ rest := by
  obtain ⟨hne, hp, _⟩ := h
  unfold domainToks
  cases hv : d.vars with
  | nil => exact absurd hv hne
  | cons v vs =>
    have hpv : plainName v := hp v (by rw [hv]; exact List.mem_cons_self)
    cases v with
    | plain n => cases vs <;> simp [varListToks, cnameToks, skipNl]
    | compound _ _ => exact absurd hpv (by simp [plainName])

theorem parseDomain_nil : parseDomain [] = .error .reject := by
  simp [parseDomain, parseDomainVars]

theorem loopD : ∀ (ds : List PDomain), (∀ d ∈ ds, WFd d) → ∀ (acc : List PDomain) (f : Nat), ds.length < f →
    parseDomains f (.nl :: domainsToks ds) acc = .ok (acc ++ ds, [.nl])
  | [], _, acc, f, hf => by
    obtain ⟨f', rfl⟩ : ∃ f', f = f' + 1 := ⟨f - 1, by simp at hf; omega⟩
    simp [parseDomains, domainsToks, needNl, skipNl, parseDomain_nil]
  | d :: ds, h, acc, f, hf => by
    obtain ⟨f', rfl⟩ : ∃ f', f = f' + 1 := ⟨f - 1, by simp at hf; omega⟩
    have hd := h d List.mem_cons_self
    have ih := loopD ds (fun e he => h e (List.mem_cons_of_mem _ he)) (acc ++ [d]) f' (by simp at hf; omega)
    simp only [parseDomains, domainsToks, needNl]
    rw [skipNl_domain hd, parseDomain_fmt hd]
    simp only [ih]
    simp

/-! ### whole programs -/

/-- well-formed program of the fragment: no iterations, simple names, two-sided or no domain bounds; a program
with `where` / `define` has at least one constraint (the grammar cannot express the other case) -/
structure WFp (m : PModel) : Prop where
  obj : match m.objKind with
    | .solve => m.objective = .bool true
    | _ => WF m.objective
  cons : ∀ c ∈ m.constraints, WFc c
  ks : ∀ k ∈ m.constants, WF k.2
  ds : ∀ d ∈ m.domains, WFd d
  some_constraint : m.constraints ≠ [] ∨ (m.constants = [] ∧ m.domains = [])

theorem lens_le_consts : ∀ (ks : List (String × PExp)), ks.length ≤ (constsToks ks).length
  | [] => by simp
  | (n, v) :: ks => by have := lens_le_consts ks; simp [constsToks]; omega
theorem lens_le_domains : ∀ (ds : List PDomain), ds.length ≤ (domainsToks ds).length
  | [] => by simp
  | d :: ds => by have := lens_le_domains ds; simp [domainsToks]; omega

/-- the declarations after the constraint list -/
def declToksL (ks : List (String × PExp)) (ds : List PDomain) : List Tok :=
  (if ks.isEmpty then [] else .word "where" :: .nl :: constsToks ks)
    ++ (if ds.isEmpty then [] else .word "define" :: .nl :: domainsToks ds)

theorem decl_stops (ks : List (String × PExp)) (ds : List PDomain) : StopsC (declToksL ks ds) := by
  unfold declToksL
  cases ks with
  | nil =>
    cases ds with
    | nil => left; simp
    | cons d ds => right; right; exact ⟨domainsToks (d :: ds), by simp⟩
  | cons k ks => right; left; exact ⟨constsToks (k :: ks) ++ (if ds.isEmpty then [] else .word "define" :: .nl :: domainsToks ds), by simp⟩

theorem parse_define (ds : List PDomain) (hds : ∀ d ∈ ds, WFd d) (kind : ObjKind) (obj : PExp)
    (cs : List PConstraint) (consts : List (String × PExp)) :
    parseDefineEnd (Tok.nl :: (if ds.isEmpty then [] else .word "define" :: .nl :: domainsToks ds)) kind obj cs consts
      = .ok { objKind := kind, objective := obj, constraints := cs, constants := consts, domains := ds } := by
  have hdf : lowerWord "define" = "define" := by decide
  unfold parseDefineEnd
  cases ds with
  | nil => simp [needNl, skipNl]
  | cons d ds =>
    have hl := loopD (d :: ds) hds [] ((domainsToks (d :: ds)).length + 1 + 1) (by have := lens_le_domains (d :: ds); omega)
    simp only [List.isEmpty_cons, Bool.false_eq_true, if_false, needNl, skipNl, hdf, beq_self_eq_true, if_true, List.length_cons, hl]
    simp [skipNl]

theorem parse_decls (ks : List (String × PExp)) (ds : List PDomain) (hks : ∀ k ∈ ks, WF k.2) (hds : ∀ d ∈ ds, WFd d)
    (kind : ObjKind) (obj : PExp) (cs : List PConstraint) :
    parseDecls (.nl :: declToksL ks ds) kind obj cs
      = .ok { objKind := kind, objective := obj, constraints := cs, constants := ks, domains := ds } := by
  have hw : lowerWord "where" = "where" := by decide
  have hdw : (lowerWord "define" == "where") = false := by decide
  unfold parseDecls declToksL
  cases ks with
  | nil =>
    have hd := parse_define ds hds kind obj cs []
    cases ds with
    | nil => simpa [needNl, skipNl] using hd
    | cons d ds =>
      simp only [List.isEmpty_nil, List.isEmpty_cons, if_true, Bool.false_eq_true, if_false, List.nil_append, needNl, skipNl, hdw]
      simpa using hd
  | cons k ks =>
    have hY : StopsK (if ds.isEmpty then [] else .word "define" :: .nl :: domainsToks ds) := by
      cases ds with
      | nil => left; simp
      | cons d ds => right; exact ⟨domainsToks (d :: ds), by simp⟩
    have hl := loopK (k :: ks) hks _ [] ((constsToks (k :: ks) ++
        (if ds.isEmpty then [] else .word "define" :: .nl :: domainsToks ds)).length + 1 + 1) hY
        (by have := lens_le_consts (k :: ks); simp at this ⊢; omega)
    simp only [List.isEmpty_cons, Bool.false_eq_true, if_false, List.cons_append, needNl, skipNl, hw, beq_self_eq_true, if_true,
      List.length_cons, hl]
    simpa using parse_define ds hds kind obj cs (k :: ks)

theorem progToks_eq (m : PModel) :
    progToks m = objectiveToks m ++ .nl :: .st :: .nl :: (constraintsToks m.constraints ++ declToksL m.constants m.domains) := rfl

/-- **Whole programs round-trip**: the tokens the program printer writes for a program of the fragment are read
back by the program-level parser as the same program. -/
theorem parseProgram_fmt (m : PModel) (h : WFp m) : parseProgram (progToks m) = .ok m := by
  obtain ⟨kind, obj, cs, ks, ds⟩ := m
  obtain ⟨hobj, hcs, hks, hds, hsome⟩ := h
  simp only at hobj hcs hks hds hsome
  rw [progToks_eq]
  simp only
  -- objective
  have hO : ∀ T, parseObjective (skipNl (objectiveToks { objKind := kind, objective := obj, constraints := cs, constants := ks, domains := ds } ++ .nl :: T))
      = .ok (kind, obj, .nl :: T) := by
    intro T
    cases kind with
    | solve =>
      simp only at hobj; subst hobj
      simp [objectiveToks, skipNl, parseObjective]
    | min =>
      have hw : WF obj := hobj
      simp only [objectiveToks, List.cons_append, skipNl, parseObjective, beq_self_eq_true, if_true]
      rw [expAt_fmt hw (closed_nl T)]
    | max =>
      have hw : WF obj := hobj
      have : ("max" == "min") = false := by decide
      simp only [objectiveToks, List.cons_append, skipNl, parseObjective, this, beq_self_eq_true, if_true, Bool.false_eq_true, if_false]
      rw [expAt_fmt hw (closed_nl T)]
  unfold parseProgram
  rw [hO]
  simp only [needNl, skipNl]
  cases cs with
  | nil =>
    obtain ⟨rfl, rfl⟩ : ks = [] ∧ ds = [] := by
      rcases hsome with h | h
      · exact absurd rfl h
      · exact h
    simp [constraintsToks, declToksL, skipNl, parseConstraints, constraint_stops_nil, parseDecls, parseDefineEnd, needNl]
  | cons c cs =>
    have hsk : skipNl (constraintsToks (c :: cs) ++ declToksL ks ds) = constraintsToks (c :: cs) ++ declToksL ks ds := by
      simp only [constraintsToks, List.append_assoc, List.cons_append]
      exact skipNl_constraint (hcs c List.mem_cons_self) _
    rw [hsk, firstC hcs _ (decl_stops ks ds)]
    exact parse_decls ks ds hks hds kind obj (c :: cs)

/-! ### comparison chains -/

theorem expAt_cmp (c : Cmp) (r : List Tok) : expAt (cmpTok c :: r) = .error .reject := by
  have hf : parseFuel (cmpTok c :: r) = (6 * r.length + 13) + 3 := by simp [parseFuel]; omega
  have hu : optUnary (cmpTok c :: r) = ([], cmpTok c :: r) := by cases c <;> simp [optUnary, unRule, ruleOfTok, Tok.opSpelling, cmpTok]
  have hl : leaf (6 * r.length + 13 + 1) (cmpTok c :: r) = .error .reject := by cases c <;> simp [leaf, cmpTok]
  simp only [expAt, hf, parseExp, collect, hu, hl]

/-- **A comparison chain is not a constraint**: `a <= b <= c` (any comparisons) makes the program invalid. -/
theorem comparison_chain_rejected {a b c : PExp} (ha : WF a) (hb : WF b) (hc : WF c) (c1 c2 : Cmp) :
    parseProgram (.word "solve" :: .nl :: .st :: .nl ::
      (fmtToks a ++ cmpTok c1 :: (fmtToks b ++ cmpTok c2 :: (fmtToks c ++ [.nl])))) = .error .reject := by
  have hcolon : cmpTok c1 ≠ .colon := by cases c1 <;> simp [cmpTok]
  have hname := constraintName_none (x := cmpTok c1) (tail := fmtToks b ++ cmpTok c2 :: (fmtToks c ++ [.nl]))
    (fmtToks_cons a ha) (fmtToks_expr a) hcolon
  have hfirst : parseConstraint (fmtToks a ++ cmpTok c1 :: (fmtToks b ++ cmpTok c2 :: (fmtToks c ++ [.nl]))) =
      .ok ({ name := none, lhs := a, cmp := c1, rhs := b, logic := false, iterVars := [], iters := [] },
           cmpTok c2 :: (fmtToks c ++ [.nl])) := by
    unfold parseConstraint
    rw [hname]
    unfold constraintBody
    rw [expAt_fmt ha (closed_of_term (cmpTok_term c1) _)]
    simp only [cmpOfTok_cmpTok]
    rw [expAt_fmt hb (closed_of_term (cmpTok_term c2) _)]
  have hsecond : parseConstraint (cmpTok c2 :: (fmtToks c ++ [.nl])) = .error .reject := by
    have hn : constraintName (cmpTok c2 :: (fmtToks c ++ [.nl])) = (none, cmpTok c2 :: (fmtToks c ++ [.nl])) := by
      cases c2 <;> rfl
    unfold parseConstraint
    rw [hn]
    unfold constraintBody
    rw [expAt_cmp]
  have hsk1 : skipNl (fmtToks a ++ cmpTok c1 :: (fmtToks b ++ cmpTok c2 :: (fmtToks c ++ [.nl]))) = _ := skipNl_fmt ha _
  have hsk2 : skipNl (cmpTok c2 :: (fmtToks c ++ [.nl])) = cmpTok c2 :: (fmtToks c ++ [.nl]) := by cases c2 <;> rfl
  have hneed : needNl (cmpTok c2 :: (fmtToks c ++ [.nl])) = none := by cases c2 <;> rfl
  have hlen : ∃ k, (fmtToks a ++ cmpTok c1 :: (fmtToks b ++ cmpTok c2 :: (fmtToks c ++ [.nl]))).length + 1 = k + 2 :=
    ⟨(fmtToks a).length + ((fmtToks b).length + ((fmtToks c).length + 1) + 1), by simp; omega⟩
  obtain ⟨k, hk⟩ := hlen
  have hw : ("solve" == "min") = false := by decide
  have hw2 : ("solve" == "max") = false := by decide
  have hcs : parseConstraints (k + 2) (fmtToks a ++ cmpTok c1 :: (fmtToks b ++ cmpTok c2 :: (fmtToks c ++ [.nl]))) [] =
      .ok ([{ name := none, lhs := a, cmp := c1, rhs := b, logic := false, iterVars := [], iters := [] }],
           cmpTok c2 :: (fmtToks c ++ [.nl])) := by
    simp only [parseConstraints, hsk1, hfirst, hsk2, hsecond]
    simp
  have hdecl : ∀ kind obj cs, parseDecls (cmpTok c2 :: (fmtToks c ++ [.nl])) kind obj cs = .error .reject := by
    intro kind obj cs
    simp only [parseDecls, parseDefineEnd, hneed, hsk2]
  unfold parseProgram
  simp only [skipNl, parseObjective, needNl, hsk1, hw, hw2, Bool.false_eq_true, if_false, beq_self_eq_true, if_true, hk, hcs, hdecl]

end Rooc.Syntax.Proofs
