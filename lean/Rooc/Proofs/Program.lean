/-
Round trip of whole programs of the printable fragment (`for` iterations over ranges / sets / tuples, compound
names, every variable type, named constraints, `where` constants): the tokens the program printer writes
(`progToks`) are read back by the program-level parser model (`parseProgram`: PEG phase, then the AST builders) as
the same `PModel`.
-/
import Rooc.Proofs.Format
import Rooc.Proofs.Graph
import Rooc.Syntax.Program
import Rooc.Syntax.ProgramToks
namespace Rooc.Syntax.Proofs
open Rooc Rooc.Syntax Rooc.Syntax.Doc

/-! ### one expression -/

/-- **one expression**: printed tokens followed by a terminator are read back -/
theorem expAt_fmt {e : PExp} (h : WFx e) {rest : List Tok} (hc : Closed rest) :
    expAt (fmtToks e ++ rest) = .ok (e, rest) := by
  obtain ⟨items, hk, _⟩ := fmt_tk e h
  exact parseExp_of_main (tk_main hk).1 hk.toIR hc _ (by simp [parseFuel])

theorem fmt_head {e : PExp} (h : WFx e) : ∃ tk tl, fmtToks e = tk :: tl ∧ startTok tk = true := by
  obtain ⟨items, hk, _⟩ := fmt_tk e h
  exact tk_head hk

theorem skipNl_fmt {e : PExp} (h : WFx e) (rest : List Tok) : skipNl (fmtToks e ++ rest) = fmtToks e ++ rest :=
  skipNl_start (fmt_head h) rest

theorem buildErr_fmt {e : PExp} (h : WFx e) : buildErr e = none := by
  obtain ⟨items, hk, _⟩ := fmt_tk e h
  exact tk_valid hk

theorem skipNl_word (w : String) (tl : List Tok) : skipNl (.word w :: tl) = .word w :: tl := rfl

/-- the value of a `where` constant: an expression of the fragment, or a graph literal (`GraphOK`) whose display is
written as the tokens `graphToks` -/
def WFv (v : PExp) : Prop :=
  WFx v ∨ ∃ ns, GraphOK ns ∧ v = .prim (graphText ns) ∧ fmtToks v = graphToks ns

theorem expAt_v {v : PExp} (h : WFv v) {rest : List Tok} (hc : Closed rest) :
    expAt (fmtToks v ++ rest) = .ok (v, rest) := by
  rcases h with h | ⟨ns, hg, rfl, ht⟩
  · exact expAt_fmt h hc
  · rw [ht]
    exact parseExp_graph hg hc _ (by simp [parseFuel])

theorem buildErr_v {v : PExp} (h : WFv v) : buildErr v = none := by
  rcases h with h | ⟨ns, _, rfl, _⟩
  · exact buildErr_fmt h
  · simp [buildErr]

/-! ### tokens of a rendering: no `:`, and a leading compound variable -/

theorem iterHead_no_colon {v : IterVar} {vts : List Tok} (h : IterHead v vts) : Tok.colon ∉ vts := by
  cases h with
  | single n _ => simp
  | tuple n ns =>
    have : ∀ ns : List String, Tok.colon ∉ (ns.flatMap fun m => [Tok.comma, Tok.word m]) := by
      intro ns; induction ns with
      | nil => simp
      | cons m ms ih => simp [List.flatMap_cons, ih]
    simp [this ns]

mutual
theorem tk_no_colon {t : PExp} {ts : List Tok} {items : List Item} : Tk t ts items → Tok.colon ∉ ts
  | .atom ha => by cases ha <;> simp
  | .paren h => by simp [tk_no_colon h]
  | .un h hm => by
    have : ∀ {u : UnOp} {tk : Tok}, tk ∈ unToks u → tk ≠ .colon := by
      intro u tk h; cases u <;> simp [unToks] at h <;> (first | (subst h; simp) | (rcases h with h | h <;> subst h <;> simp))
    simp [tk_no_colon h, (this hm).symm]
  | .bin hl hr _ _ hm => by
    have : ∀ {o : BinOp} {tk : Tok}, tk ∈ binToks o → tk ≠ .colon := by
      intro o tk h; cases o <;> simp [binToks] at h <;> (first | (subst h; simp) | (rcases h with h | h <;> subst h <;> simp))
    simp [tk_no_colon hl, tk_no_colon hr, (this hm).symm]
  | .imul hj hv _ => by simp [juxt_no_colon hj, varTail_no_colon hv]
  | .call _ _ ha => by simp [args_no_colon ha]
  | @Tk.arr ss _ => by
    have : ∀ ss : List String, Tok.colon ∉ intArrToks ss := by
      intro ss
      induction ss with
      | nil => simp [intArrToks]
      | cons s ss ih => cases ss <;> simp_all [intArrToks]
    simp [this ss]
  | .cvar hi => by simp [idx_no_colon hi]
  | .access _ _ hi => by simp [acc_no_colon hi]
  | .block _ _ _ _ ha => by simp [args_no_colon ha]
  | .scoped _ _ _ _ hi hb => by simp [iters_no_colon hi, tk_no_colon hb]
theorem varTail_no_colon {vs : List PExp} {vts : List Tok} : VarTail vs vts → Tok.colon ∉ vts
  | .none => by simp
  | .var n _ => by simp
  | .cvar hi => by simp [idx_no_colon hi]
theorem juxt_no_colon {es : List PExp} {ts : List Tok} : Juxt es ts → Tok.colon ∉ ts
  | .nil => by simp
  | .int _ hj => by simp [juxt_no_colon hj]
  | .num hj => by simp [juxt_no_colon hj]
  | .paren hin hj => by simp [tk_no_colon hin, juxt_no_colon hj]
theorem args_no_colon {es : List PExp} {ts : List Tok} : Args es ts → Tok.colon ∉ ts
  | .nil => by simp
  | .one h => tk_no_colon h
  | .cons h hr => by simp [tk_no_colon h, args_no_colon hr]
theorem idx_no_colon {es : List PExp} {ts : List Tok} : Idx es ts → Tok.colon ∉ ts
  | .nil => by simp
  | .var hi => by simp [idx_no_colon hi]
  | .int _ hi => by simp [idx_no_colon hi]
  | .brace he hi => by simp [tk_no_colon he, idx_no_colon hi]
theorem acc_no_colon {es : List PExp} {ts : List Tok} : Acc es ts → Tok.colon ∉ ts
  | .nil => by simp
  | .cons he hi => by simp [tk_no_colon he, acc_no_colon hi]
theorem iters_no_colon {vs : List IterVar} {es : List PExp} {ts : List Tok} : Iters vs es ts → Tok.colon ∉ ts
  | .one hv _ hi => by
    have : Tok.colon ∉ _ := iterHead_no_colon hv
    simp [this, iter_no_colon hi]
  | .cons hv _ hi hr => by
    have : Tok.colon ∉ _ := iterHead_no_colon hv
    simp [this, iter_no_colon hi, iters_no_colon hr]
theorem iter_no_colon {e : PExp} {ts : List Tok} : Iter e ts → Tok.colon ∉ ts
  | .range (incl := incl) ha hb => by cases incl <;> simp [tk_no_colon ha, tk_no_colon hb]
  | .set h => tk_no_colon h
end

/-- what follows a compound variable that begins a rendering: nothing, or a binary operator -/
def OpStart (ts' : List Tok) : Prop := ts' = [] ∨ ∃ tk tl o, ts' = tk :: tl ∧ tk ∈ binToks o

theorem binTok_ne {o : BinOp} {tk : Tok} (h : tk ∈ binToks o) : tk ≠ .colon ∧ tk ≠ .us := by
  cases o <;> simp [binToks] at h <;> (first | (subst h; simp) | (rcases h with h | h <;> subst h <;> simp))

/-- a rendering that begins `name _` begins with a compound variable, followed by an operator or nothing -/
theorem tk_head_cvar {t : PExp} {ts : List Tok} {items : List Item} : Tk t ts items → ∀ (w : String) (r : List Tok),
    ts = .word w :: .us :: r → ∃ e es its ts', Idx (e :: es) its ∧ ts = .word w :: its ++ ts' ∧ OpStart ts'
  | .atom ha, w, r, h => by cases ha <;> cases h
  | .paren _, w, r, h => by cases h
  | .un hin hm, w, r, h => by
    obtain ⟨tk, tl, ht, hs⟩ := tk_head hin
    rw [ht] at h
    injection h with _ h2; injection h2 with h3 _
    subst h3; cases hs
  | @Tk.bin o l rr L R il ir optok hl hr _ _ hm, w, r, h => by
    obtain ⟨tk, tl, ht, hs⟩ := tk_head hl
    cases tl with
    | nil =>
      rw [ht] at h
      simp only [List.cons_append, List.nil_append] at h
      injection h with _ h2; injection h2 with h3 _
      exact absurd h3 (binTok_ne hm).2
    | cons t2 tl2 =>
      rw [ht] at h
      simp only [List.cons_append] at h
      injection h with h1 h2; injection h2 with h3 h4
      subst h1 h3
      obtain ⟨e, es, its, ts', hi, hL, hop⟩ := tk_head_cvar hl w tl2 ht
      refine ⟨e, es, its, ts' ++ optok :: R, hi, by rw [hL]; simp, ?_⟩
      rcases hop with rfl | ⟨tk', tl', o', rfl, hm'⟩
      · exact Or.inr ⟨optok, R, o, rfl, hm⟩
      · exact Or.inr ⟨tk', tl' ++ optok :: R, o', rfl, hm'⟩
  | .imul hj _ _, w, r, h => by
    obtain ⟨tk, tl, ht, hk⟩ := juxt_head hj
    rw [ht] at h
    simp only [List.cons_append] at h
    injection h with h1 _
    rcases hk with ⟨s, rfl⟩ | ⟨s, rfl⟩ | rfl <;> cases h1
  | .call _ _ _, w, r, h => by simp at h
  | .arr _, w, r, h => by cases h
  | @Tk.cvar n e es its hi, w, r, h => by
    injection h with h1 _
    injection h1 with h1
    subst h1
    exact ⟨e, es, its, [], hi, by simp, Or.inl rfl⟩
  | .access _ _ hi, w, r, h => by
    obtain ⟨r0, rfl⟩ := acc_head hi
    simp at h
  | .block _ _ _ _ _, w, r, h => by simp at h
  | .scoped _ _ _ _ _ _, w, r, h => by simp at h

/-- the fuel `parseFuel` of a token list, written as a successor -/
theorem parseFuel_succ (toks : List Tok) : parseFuel toks = (6 * toks.length + 9) + 1 := by simp [parseFuel]

theorem nameAt_plain {n : String} (hk : isKeyword n = false) (r : List Tok) (hr : ∀ tl, r ≠ .us :: tl) :
    nameAt (.word n :: r) = .ok (some (.plain n), r) := by
  unfold nameAt
  rw [parseFuel_succ]
  cases r with
  | nil => simp [optVariable, hk, CName.ofExp]
  | cons tk tl => cases tk <;> first | exact absurd rfl (hr tl) | simp [optVariable, hk, CName.ofExp]

theorem nameAt_compound {n : String} {e : PExp} {es : List PExp} {its : List Tok} (hi : Idx (e :: es) its) (r : List Tok)
    (hr : ∀ tl, r ≠ .us :: tl) : nameAt (.word n :: its ++ r) = .ok (some (.compound n (e :: es)), r) := by
  obtain ⟨r0, hr0⟩ := idx_head hi
  unfold nameAt
  rw [parseFuel_succ]
  have hidx := idx_main hi r [] (6 * (Tok.word n :: its ++ r).length + 9) hr (by simp; omega)
  subst hr0
  have := optVariable_cvar (n := n) (f := 6 * (Tok.word n :: Tok.us :: r0 ++ r).length + 9) (r := r0 ++ r) (by simpa using hidx)
  simp only [List.cons_append] at this ⊢
  rw [this]
  rfl

/-- well-formed declared name: a plain name that is no keyword, or a compound variable -/
def WFname : CName → Prop
  | .plain n => isKeyword n = false
  | .compound _ idx => idx ≠ [] ∧ WFx.WFidx idx

theorem nameAt_fmt {v : CName} (h : WFname v) (r : List Tok) (hr : ∀ tl, r ≠ .us :: tl) :
    nameAt (cnameToks v ++ r) = .ok (some v, r) := by
  cases v with
  | plain n => simpa [cnameToks] using nameAt_plain h r hr
  | compound n idx =>
    cases idx with
    | nil => exact absurd rfl h.1
    | cons e es =>
      have hi := fmtIdx_tk (e :: es) h.2
      simpa [cnameToks] using nameAt_compound (n := n) hi r hr

theorem CName_buildErr {v : CName} (h : WFname v) : v.buildErr = none := by
  cases v with
  | plain n => rfl
  | compound n idx => exact idx_valid (fmtIdx_tk idx h.2)

theorem cnameToks_head {v : CName} : ∃ w tl, cnameToks v = .word w :: tl := by
  cases v <;> exact ⟨_, _, rfl⟩

theorem optVariable_word (f : Nat) (w : String) (t2 : Tok) (tl : List Tok) (hu : t2 ≠ .us) :
    optVariable (f+1) (.word w :: t2 :: tl) =
      if isKeyword w then .ok (none, .word w :: t2 :: tl) else .ok (some (.var w), t2 :: tl) := by
  cases t2 <;> first | exact absurd rfl hu | simp only [optVariable]

theorem constraintName_word (w : String) (t2 : Tok) (tl : List Tok) (h2 : t2 ≠ .colon) (hu : t2 ≠ .us) :
    constraintName (.word w :: t2 :: tl) = .ok (none, .word w :: t2 :: tl) := by
  unfold constraintName nameAt
  rw [parseFuel_succ, optVariable_word _ w t2 tl hu]
  by_cases hk : isKeyword w = true
  · simp [hk]
  · simp only [hk, Bool.false_eq_true, if_false, CName.ofExp]
    cases t2 <;> first | exact absurd rfl h2 | rfl

theorem constraintName_nonword {tk : Tok} (h : ∀ w, tk ≠ .word w) (tl : List Tok) :
    constraintName (tk :: tl) = .ok (none, tk :: tl) := by
  unfold constraintName nameAt
  rw [parseFuel_succ]
  cases tk <;> first | exact absurd rfl (h _) | simp [optVariable]

theorem constraintName_single (w : String) : constraintName [.word w] = .ok (none, [.word w]) := by
  unfold constraintName nameAt
  rw [parseFuel_succ]
  by_cases hk : isKeyword w = true <;> simp [optVariable, hk, CName.ofExp]

/-- a constraint name is not mistaken where there is none: behind the variable an expression may begin with, no `:`
follows -/
theorem constraintName_none' {t : PExp} {ts : List Tok} {items : List Item} (hk : Tk t ts items) {rest : List Tok}
    (hx : ∀ tl, rest ≠ .colon :: tl) (hxu : ∀ tl, rest ≠ .us :: tl) :
    constraintName (ts ++ rest) = .ok (none, ts ++ rest) := by
  obtain ⟨tk, tl, hts, hs⟩ := tk_head hk
  have hnc := tk_no_colon hk
  -- the first token decides
  cases tk with
  | word w =>
    cases tl with
    | nil =>
      subst hts
      cases rest with
      | nil => exact constraintName_single w
      | cons x tail =>
        exact constraintName_word w x tail (fun e => hx tail (by rw [e])) (fun e => hxu tail (by rw [e]))
    | cons t2 tl2 =>
      subst hts
      have h2 : t2 ≠ .colon := by intro e; subst e; simp at hnc
      by_cases hu : t2 = .us
      · subst hu
        obtain ⟨e, es, its, ts', hi, hL, hop⟩ := tk_head_cvar hk w tl2 rfl
        rw [hL, List.append_assoc]
        have hru : ∀ tl, ts' ++ rest ≠ .us :: tl := by
          rcases hop with rfl | ⟨tk', tl', o', rfl, hm'⟩
          · intro tl e; exact hxu tl (by simpa using e)
          · intro tl e; injection e with e _; exact (binTok_ne hm').2 e
        have := nameAt_compound (n := w) hi (ts' ++ rest) hru
        unfold constraintName
        simp only [List.cons_append] at this ⊢
        rw [this]
        rcases hop with rfl | ⟨tk', tl', o', rfl, hm'⟩
        · cases rest with
          | nil => rfl
          | cons x tail =>
            have hxc : x ≠ .colon := fun e => hx tail (by rw [e])
            cases x <;> first | exact absurd rfl hxc | rfl
        · have := (binTok_ne hm').1
          cases tk' <;> first | exact absurd rfl this | rfl
      · exact constraintName_word w t2 _ h2 hu
  | int s => subst hts; exact constraintName_nonword (by intro w e; cases e) _
  | float s => subst hts; exact constraintName_nonword (by intro w e; cases e) _
  | lpar => subst hts; exact constraintName_nonword (by intro w e; cases e) _
  | minus => subst hts; exact constraintName_nonword (by intro w e; cases e) _
  | bang => subst hts; exact constraintName_nonword (by intro w e; cases e) _
  | lbrack => subst hts; exact constraintName_nonword (by intro w e; cases e) _
  | str s => subst hts; exact constraintName_nonword (by intro w e; cases e) _
  | _ => cases hs

theorem constraintName_none {t : PExp} {ts : List Tok} {items : List Item} (hk : Tk t ts items) {x : Tok} {tail : List Tok}
    (hx : x ≠ .colon) (hxu : x ≠ .us) :
    constraintName (ts ++ x :: tail) = .ok (none, ts ++ x :: tail) :=
  constraintName_none' hk (by intro tl e; injection e with e _; exact hx e) (by intro tl e; injection e with e _; exact hxu e)

/-! ### `for` iterations behind a constraint / a declaration -/

/-- the text (after NEWLINEs) begins with a word that reads `for` in some letter case -/
def ForLike (X : List Tok) : Prop := ∃ w r, skipNl X = .word w :: r ∧ lowerWord w = "for"

theorem optFor_none {X : List Tok} (h : ¬ ForLike X) : optFor X = .ok (([], []), X) := by
  unfold optFor
  split
  · rename_i w r heq
    have : ¬ lowerWord w = "for" := fun e => h ⟨w, r, heq, e⟩
    simp [this]
  · rfl

/-- the text does not begin with a word that reads `for` in some letter case -/
def NotForHead (X : List Tok) : Prop := ∀ w r, X = .word w :: r → lowerWord w ≠ "for"

theorem notForLike_nl {X : List Tok} (hs : skipNl X = X) (h : NotForHead X) : ¬ ForLike (.nl :: X) := by
  rintro ⟨w, r, heq, hl⟩
  simp only [skipNl, hs] at heq
  exact h w r heq hl

/-- no iteration, or as many variables as iterators (at least one) -/
def WFfor (vs : List IterVar) (its : List PExp) : Prop := (vs = [] ∧ its = []) ∨ WFx.WFits vs its

theorem wfits_ne {vs : List IterVar} {its : List PExp} (h : WFx.WFits vs its) : its ≠ [] := by
  intro e; subst e
  cases vs with
  | nil => simp [WFx.WFits] at h
  | cons v vs => cases vs <;> simp [WFx.WFits] at h

theorem optFor_fmt {vs : List IterVar} {its : List PExp} (h : WFfor vs its) (rest : List Tok) (hend : IterEnd rest)
    (hnf : ¬ ForLike rest) : optFor (forToks vs its ++ rest) = .ok ((vs, its), rest) := by
  rcases h with ⟨rfl, rfl⟩ | h
  · simpa [forToks] using optFor_none hnf
  · have hne := wfits_ne h
    have hit := fmtIters_tk vs its h
    have hemp : its.isEmpty = false := by cases its <;> simp_all
    have hlow : lowerWord "for" = "for" := by decide
    unfold optFor
    simp only [forToks, hemp, Bool.false_eq_true, if_false, List.cons_append, skipNl_word, hlow, beq_self_eq_true, if_true]
    rw [iters_main hit rest [] [] _ hend (by simp [parseFuel])]
    rfl

theorem closed_forToks {vs : List IterVar} {its : List PExp} (h : WFfor vs its) (rest : List Tok) :
    Closed (forToks vs its ++ .nl :: rest) := by
  rcases h with ⟨rfl, rfl⟩ | h
  · simpa [forToks] using closed_nl rest
  · have hne := wfits_ne h
    have hemp : its.isEmpty = false := by cases its <;> simp_all
    simp only [forToks, hemp, Bool.false_eq_true, if_false, List.cons_append]
    exact closed_for _ (start_not_us (iters_head (fmtIters_tk vs its h)) _)

theorem forToks_head {vs : List IterVar} {its : List PExp} (rest : List Tok) :
    ∃ tk tl, forToks vs its ++ .nl :: rest = tk :: tl ∧ (tk = .nl ∨ tk = .word "for") := by
  unfold forToks
  split
  · exact ⟨_, _, rfl, Or.inl rfl⟩
  · exact ⟨_, _, rfl, Or.inr rfl⟩

theorem buildErr_for {vs : List IterVar} {its : List PExp} (h : WFfor vs its) : buildErrList its = none := by
  rcases h with ⟨rfl, rfl⟩ | h
  · rfl
  · exact iters_valid (fmtIters_tk vs its h)

/-! ### constraints -/

/-- well-formed constraint of the printable fragment -/
structure WFcx (c : PConstraint) : Prop where
  name : match c.name with
    | none => True
    | some n => WFname n
  lhs : WFx c.lhs
  rhs : if c.logic = true then c.cmp = .eq ∧ c.rhs = .bool true else WFx c.rhs
  iter : WFfor c.iterVars c.iters
  /-- the constraint does not begin with a word that reads `for`: it would be taken for the iteration of the
  constraint before it (`^"for"` is matched in any letter case) -/
  nofor : NotForHead (constraintToks c)

theorem cmpOfTok_cmpTok (c : Cmp) : cmpOfTok (cmpTok c) = some c := by cases c <;> rfl
theorem cmpTok_term (c : Cmp) : isTerm (cmpTok c) = true := by cases c <;> rfl
theorem closed_cmp (c : Cmp) (tl : List Tok) : Closed (cmpTok c :: tl) :=
  closed_of_term (cmpTok_term c) (by intro w e; cases c <;> cases e) tl

theorem parseConstraint_fmt {c : PConstraint} (h : WFcx c) (rest : List Tok) (hnf : ¬ ForLike (.nl :: rest)) :
    parseConstraint (constraintToks c ++ .nl :: rest) = .ok (c, .nl :: rest) := by
  obtain ⟨hn, hl, hr, hfor, _⟩ := h
  obtain ⟨name, lhs, cmp, rhs, logic, iterVars, iters⟩ := c
  simp only at hn hl hr hfor
  have hend : IterEnd (.nl :: rest) := Or.inr ⟨_, _, rfl, Or.inr rfl⟩
  have hof := optFor_fmt hfor (.nl :: rest) hend hnf
  -- the body after the (optional) name
  have hbody : ∀ nm, constraintBody nm
        (fmtToks lhs ++ ((if logic = true then [] else cmpTok cmp :: fmtToks rhs) ++ (forToks iterVars iters ++ .nl :: rest))) =
      .ok ({ name := nm, lhs := lhs, cmp := cmp, rhs := rhs, logic := logic, iterVars := iterVars, iters := iters }, .nl :: rest) := by
    intro nm
    unfold constraintBody
    cases logic with
    | true =>
      obtain ⟨hc, hrr⟩ : cmp = .eq ∧ rhs = .bool true := by simpa using hr
      subst hc hrr
      simp only [if_true, List.nil_append]
      rw [expAt_fmt hl (closed_forToks hfor rest)]
      obtain ⟨tk, tl, hh, htk⟩ := forToks_head (vs := iterVars) (its := iters) rest
      simp only [hof]
      rw [hh] at hof ⊢
      rcases htk with rfl | rfl <;> simp [cmpOfTok, hof]
    | false =>
      have hr' : WFx rhs := by simpa using hr
      simp only [Bool.false_eq_true, if_false, List.cons_append]
      rw [expAt_fmt hl (closed_cmp cmp _)]
      simp only [cmpOfTok_cmpTok]
      rw [expAt_fmt hr' (closed_forToks hfor rest)]
      simp only [hof]
  have hx : ∃ x tail, (if logic = true then [] else cmpTok cmp :: fmtToks rhs) ++ (forToks iterVars iters ++ .nl :: rest) = x :: tail
      ∧ x ≠ .colon ∧ x ≠ .us := by
    cases logic with
    | true =>
      obtain ⟨tk, tl, hh, htk⟩ := forToks_head (vs := iterVars) (its := iters) rest
      refine ⟨tk, tl, by simpa using hh, ?_, ?_⟩ <;> rcases htk with rfl | rfl <;> simp
    | false => exact ⟨cmpTok cmp, fmtToks rhs ++ (forToks iterVars iters ++ .nl :: rest), by simp, by cases cmp <;> simp [cmpTok], by cases cmp <;> simp [cmpTok]⟩
  unfold parseConstraint
  match name, hn with
  | none, _ =>
    obtain ⟨items, hk, _⟩ := fmt_tk lhs hl
    obtain ⟨x, tail, hxe, hx1, hx2⟩ := hx
    have hcn := constraintName_none hk (x := x) (tail := tail) hx1 hx2
    simp only [constraintToks, List.nil_append, List.append_assoc]
    rw [hxe, hcn]
    simp only
    rw [← hxe]
    exact hbody none
  | some n, hwn =>
    have hcn := nameAt_fmt hwn (.colon :: (fmtToks lhs ++ ((if logic = true then [] else cmpTok cmp :: fmtToks rhs) ++ (forToks iterVars iters ++ .nl :: rest))))
      (by intro tl e; cases e)
    simp only [constraintToks, List.append_assoc, List.cons_append, List.nil_append, constraintName]
    rw [hcn]
    simp only [skipNl_fmt hl]
    exact hbody (some n)

/-! ### where an expression cannot start -/

theorem expAt_nil : expAt [] = .error .reject := by
  simp [expAt, parseFuel, parseExp, collect, optUnary, leaf]

theorem expAt_keyword {w : String} (hk : isKeyword w = true) (hb : Gen.booleanWords.contains w = false) (hn : w ≠ "not")
    (r : List Tok) (hr : ∀ tl, r ≠ .lpar :: tl ∧ r ≠ .lbrace :: tl ∧ r ≠ .lbrack :: tl ∧ r ≠ .us :: tl) :
    expAt (.word w :: r) = .error .reject := by
  have hf : parseFuel (.word w :: r) = (6 * r.length + 12) + 4 := by simp [parseFuel]; omega
  have hu : optUnary (.word w :: r) = ([], .word w :: r) := optUnary_word hn r
  have hl : leaf (6 * r.length + 12 + 2) (.word w :: r) = .error .reject := by
    rw [leaf_word _ _ _ hr]; simp only [wordLeaf, hb, hk]; rfl
  simp only [expAt, hf, parseExp, collect, hu, hl]

theorem constraint_stops_nil : parseConstraint [] = .error .reject := by
  simp [parseConstraint, constraintName, nameAt, parseFuel, optVariable, constraintBody, expAt_nil]

theorem constraint_stops_kw {w : String} (hk : isKeyword w = true) (hb : Gen.booleanWords.contains w = false) (hn : w ≠ "not")
    (r : List Tok) : parseConstraint (.word w :: .nl :: r) = .error .reject := by
  have : expAt (.word w :: .nl :: r) = .error .reject := expAt_keyword hk hb hn _ (by intro tl; simp)
  have hcn := constraintName_word w .nl r (by simp) (by simp)
  simp [parseConstraint, hcn, constraintBody, this]

/-- what may follow the constraint list: nothing, `where …` or `define …` -/
def StopsC (X : List Tok) : Prop :=
  X = [] ∨ (∃ r, X = .word "where" :: .nl :: r) ∨ (∃ r, X = .word "define" :: .nl :: r)

theorem stopsC_spec {X : List Tok} (h : StopsC X) : parseConstraint X = .error .reject ∧ skipNl X = X ∧ NotForHead X := by
  rcases h with rfl | ⟨r, rfl⟩ | ⟨r, rfl⟩
  · exact ⟨constraint_stops_nil, rfl, by intro w r e; cases e⟩
  · refine ⟨constraint_stops_kw (by decide) (by decide) (by decide) r, rfl, ?_⟩
    intro w r' e; injection e with e _; injection e with e; subst e; decide
  · refine ⟨constraint_stops_kw (by decide) (by decide) (by decide) r, rfl, ?_⟩
    intro w r' e; injection e with e _; injection e with e; subst e; decide

theorem constraintToks_head {c : PConstraint} (h : WFcx c) : ∃ tk tl, constraintToks c = tk :: tl ∧ startTok tk = true := by
  unfold constraintToks
  cases hn : c.name with
  | none =>
    simp only [List.nil_append, List.append_assoc]
    exact start_append (fmt_head h.lhs) _
  | some n =>
    obtain ⟨w, tl, hw⟩ := cnameToks_head (v := n)
    simp only [hw, List.cons_append, List.append_assoc]
    exact ⟨.word w, _, rfl, rfl⟩

theorem skipNl_constraint {c : PConstraint} (h : WFcx c) (rest : List Tok) :
    skipNl (constraintToks c ++ rest) = constraintToks c ++ rest := skipNl_start (constraintToks_head h) rest

theorem notFor_append {A : List Tok} (hA : NotForHead A) (hne : A ≠ []) (B : List Tok) : NotForHead (A ++ B) := by
  intro w r e
  cases A with
  | nil => exact absurd rfl hne
  | cons a A' =>
    simp only [List.cons_append] at e
    injection e with e1 _
    exact hA w A' (by rw [e1])

/-- what follows a constraint in the list: the next constraint or what follows the list -/
theorem next_notFor : ∀ (cs : List PConstraint), (∀ c ∈ cs, WFcx c) → ∀ (X : List Tok), StopsC X →
    skipNl (constraintsToks cs ++ X) = constraintsToks cs ++ X ∧ NotForHead (constraintsToks cs ++ X)
  | [], _, X, hX => by simpa [constraintsToks] using (stopsC_spec hX).2
  | c :: cs, h, X, hX => by
    have hc := h c List.mem_cons_self
    obtain ⟨tk, tl, hh, hs⟩ := constraintToks_head hc
    simp only [constraintsToks, List.append_assoc, List.cons_append]
    exact ⟨skipNl_constraint hc _, notFor_append hc.nofor (by rw [hh]; simp) _⟩

/-- the constraint list, entered after a NEWLINE -/
theorem loopC : ∀ (cs : List PConstraint), (∀ c ∈ cs, WFcx c) → ∀ (X : List Tok) (acc : List PConstraint) (f : Nat),
    StopsC X → cs.length < f →
    parseConstraints f (.nl :: (constraintsToks cs ++ X)) acc = .ok (acc ++ cs, .nl :: X)
  | [], _, X, acc, f, hX, hf => by
    obtain ⟨f', rfl⟩ : ∃ f', f = f' + 1 := ⟨f - 1, by simp at hf; omega⟩
    obtain ⟨h1, h2, _⟩ := stopsC_spec hX
    simp [parseConstraints, constraintsToks, skipNl, h2, h1]
  | c :: cs, h, X, acc, f, hX, hf => by
    obtain ⟨f', rfl⟩ : ∃ f', f = f' + 1 := ⟨f - 1, by simp at hf; omega⟩
    have hc := h c List.mem_cons_self
    have hcs := fun d hd => h d (List.mem_cons_of_mem _ hd)
    have ih := loopC cs hcs X (acc ++ [c]) f' hX (by simp at hf; omega)
    obtain ⟨hn1, hn2⟩ := next_notFor cs hcs X hX
    simp only [parseConstraints, constraintsToks, skipNl, List.append_assoc, List.cons_append]
    rw [skipNl_constraint hc, parseConstraint_fmt hc _ (notForLike_nl hn1 hn2)]
    simp only [ih]
    simp

/-- the constraint list right after `s.t.` NEWLINE (at least one constraint) -/
theorem firstC {c : PConstraint} {cs : List PConstraint} (h : ∀ d ∈ c :: cs, WFcx d) (X : List Tok) (hX : StopsC X) :
    parseConstraints ((constraintsToks (c :: cs) ++ X).length + 1) (constraintsToks (c :: cs) ++ X) [] = .ok (c :: cs, .nl :: X) := by
  have hc := h c List.mem_cons_self
  have hcs := fun d hd => h d (List.mem_cons_of_mem _ hd)
  have hlen : cs.length < (constraintsToks (c :: cs) ++ X).length := by
    have : ∀ (l : List PConstraint), l.length ≤ (constraintsToks l).length := by
      intro l; induction l with
      | nil => simp [constraintsToks]
      | cons a l ih => simp [constraintsToks]; omega
    have := this cs
    simp [constraintsToks]; omega
  obtain ⟨hn1, hn2⟩ := next_notFor cs hcs X hX
  simp only [parseConstraints, constraintsToks, List.append_assoc, List.cons_append]
  rw [skipNl_constraint hc, parseConstraint_fmt hc _ (notForLike_nl hn1 hn2)]
  have := loopC cs hcs X [c] _ hX (by simpa [constraintsToks] using hlen)
  simpa [constraintsToks] using this

/-! ### `where` -/

/-- what may follow the constants: nothing or `define …` -/
def StopsK (Y : List Tok) : Prop := Y = [] ∨ ∃ r, Y = .word "define" :: .nl :: r

theorem loopK : ∀ (ks : List (String × PExp)), (∀ k ∈ ks, WFv k.2) → ∀ (Y : List Tok) (acc : List (String × PExp)) (f : Nat),
    StopsK Y → ks.length < f →
    parseConsts f (.nl :: (constsToks ks ++ Y)) acc = .ok (acc ++ ks, .nl :: Y)
  | [], _, Y, acc, f, hY, hf => by
    obtain ⟨f', rfl⟩ : ∃ f', f = f' + 1 := ⟨f - 1, by simp at hf; omega⟩
    rcases hY with rfl | ⟨r, rfl⟩ <;> simp [parseConsts, constsToks, needNl, skipNl]
  | (n, v) :: ks, h, Y, acc, f, hY, hf => by
    obtain ⟨f', rfl⟩ : ∃ f', f = f' + 1 := ⟨f - 1, by simp at hf; omega⟩
    have hv : WFv v := h (n, v) List.mem_cons_self
    have ih := loopK ks (fun d hd => h d (List.mem_cons_of_mem _ hd)) Y (acc ++ [(n, v)]) f' hY (by simp at hf; omega)
    simp only [parseConsts, constsToks, needNl, skipNl, List.cons_append, List.append_assoc]
    rw [expAt_v hv (closed_nl _)]
    simp only [ih]
    simp

/-! ### `define` -/

def WFtx : PVarType → Prop
  | .boolean => True
  | .nonNegReal none none => True
  | .nonNegReal (some a) (some b) => WFx a ∧ WFx b
  | .real none none => True
  | .real (some a) (some b) => WFx a ∧ WFx b
  | .intRange a b => WFx a ∧ WFx b
  | _ => False

/-- well-formed domain declaration of the printable fragment -/
structure WFdx (d : PDomain) : Prop where
  ne : d.vars ≠ []
  names : ∀ v ∈ d.vars, WFname v
  ty : WFtx d.ty
  iter : WFfor d.iterVars d.iters
  nofor : NotForHead (domainToks d)

/-- what the PEG phase reads of a printed declaration -/
def rawDomain (d : PDomain) : RawDomain :=
  let (nm, args) : String × Option (List PExp) :=
    match d.ty with
    | .boolean => ("Boolean", none)
    | .nonNegReal (some a) (some b) => ("NonNegativeReal", some [a, b])
    | .nonNegReal _ _ => ("NonNegativeReal", none)
    | .real (some a) (some b) => ("Real", some [a, b])
    | .real _ _ => ("Real", none)
    | .intRange a b => ("IntegerRange", some [a, b])
  { vars := d.vars, tyName := nm, args := args, iterVars := d.iterVars, iters := d.iters }

theorem parseDomainVars_fmt : ∀ (vs : List CName), vs ≠ [] → (∀ v ∈ vs, WFname v) → ∀ (T : List Tok) (acc : List CName) (f : Nat),
    vs.length ≤ f →
    parseDomainVars f (varListToks vs ++ .word "as" :: T) acc = .ok (acc ++ vs, .word "as" :: T)
  | [], h, _, _, _, _, _ => absurd rfl h
  | [v], _, hp, T, acc, f, hf => by
    obtain ⟨f', rfl⟩ : ∃ f', f = f' + 1 := ⟨f - 1, by simp at hf; omega⟩
    have := nameAt_fmt (hp v List.mem_cons_self) (.word "as" :: T) (by intro tl e; cases e)
    simp [parseDomainVars, varListToks, this]
  | v :: w :: rest, _, hp, T, acc, f, hf => by
    obtain ⟨f', rfl⟩ : ∃ f', f = f' + 1 := ⟨f - 1, by simp at hf; omega⟩
    have ih := parseDomainVars_fmt (w :: rest) (by simp) (fun v hv => hp v (List.mem_cons_of_mem _ hv)) T (acc ++ [v]) f'
      (by simp at hf ⊢; omega)
    have hskip : skipNl (varListToks (w :: rest) ++ .word "as" :: T) = varListToks (w :: rest) ++ .word "as" :: T := by
      obtain ⟨x, tl, hx⟩ := cnameToks_head (v := w)
      cases rest <;> simp [varListToks, hx, skipNl]
    have := nameAt_fmt (hp v List.mem_cons_self) (.comma :: (varListToks (w :: rest) ++ .word "as" :: T)) (by intro tl e; cases e)
    simp only [parseDomainVars, varListToks, List.append_assoc, List.cons_append, this]
    rw [hskip, ih]
    simp

theorem varListToks_len : ∀ (vs : List CName), vs.length ≤ (varListToks vs).length
  | [] => by simp
  | [v] => by obtain ⟨x, tl, hx⟩ := cnameToks_head (v := v); simp [varListToks, hx]
  | v :: w :: rest => by
    have := varListToks_len (w :: rest)
    obtain ⟨x, tl, hx⟩ := cnameToks_head (v := v)
    simp [varListToks, hx] at this ⊢; omega

theorem typeArgs2 {a b : PExp} (ha : WFx a) (hb : WFx b) (R : List Tok) (f : Nat) (hf : 2 ≤ f) :
    parseTypeArgs f (fmtToks a ++ .comma :: (fmtToks b ++ .rpar :: R)) [] = .ok ([a, b], R) := by
  obtain ⟨f', rfl⟩ : ∃ f', f = f' + 2 := ⟨f - 2, by omega⟩
  simp only [parseTypeArgs]
  rw [expAt_fmt ha (closed_comma _)]
  simp only [skipNl_fmt hb, List.nil_append]
  rw [expAt_fmt hb (closed_rpar _)]
  simp

theorem parseDomain_fmt {d : PDomain} (h : WFdx d) (rest : List Tok) (hnf : ¬ ForLike (.nl :: rest)) :
    parseDomain (domainToks d ++ .nl :: rest) = .ok (rawDomain d, .nl :: rest) := by
  obtain ⟨hne, hp, ht, hfor, _⟩ := h
  obtain ⟨vars, ty, iterVars, iters⟩ := d
  simp only at hne hp ht hfor
  have hend : IterEnd (.nl :: rest) := Or.inr ⟨_, _, rfl, Or.inr rfl⟩
  have hof := optFor_fmt hfor (.nl :: rest) hend hnf
  have hvars : ∀ T, parseDomainVars ((varListToks vars ++ .word "as" :: T).length + 1) (varListToks vars ++ .word "as" :: T) []
      = .ok (vars, .word "as" :: T) := by
    intro T
    have := parseDomainVars_fmt vars hne hp T [] ((varListToks vars ++ .word "as" :: T).length + 1)
      (by have := varListToks_len vars; simp; omega)
    simpa using this
  have has : lowerWord "as" = "as" := by decide
  obtain ⟨tk, tl, hh, htk⟩ := forToks_head (vs := iterVars) (its := iters) rest
  have hnl : ∀ r3, forToks iterVars iters ++ .nl :: rest ≠ .lpar :: r3 := by
    intro r3 e; rw [hh] at e; injection e with e _; rcases htk with rfl | rfl <;> cases e
  have plain : ∀ (nm : String), domainTail vars nm (forToks iterVars iters ++ .nl :: rest)
      = .ok ({ vars := vars, tyName := nm, args := none, iterVars := iterVars, iters := iters }, .nl :: rest) := by
    intro nm
    have : domainTail vars nm (forToks iterVars iters ++ .nl :: rest) = domainFinish vars nm none (forToks iterVars iters ++ .nl :: rest) := by
      unfold domainTail
      split
      · rename_i r3 heq; exact absurd heq (hnl r3)
      · rfl
    rw [this, domainFinish, hof]
  have withArgs : ∀ (nm : String) (a b : PExp), WFx a → WFx b →
      domainTail vars nm (.lpar :: (fmtToks a ++ .comma :: (fmtToks b ++ .rpar :: (forToks iterVars iters ++ .nl :: rest))))
      = .ok ({ vars := vars, tyName := nm, args := some [a, b], iterVars := iterVars, iters := iters }, .nl :: rest) := by
    intro nm a b ha hb
    simp only [domainTail]
    rw [typeArgs2 ha hb _ _ (by simp; omega)]
    simp only [domainFinish, hof]
  unfold parseDomain
  simp only [domainToks, List.append_assoc, List.cons_append]
  rw [hvars]
  simp only [skipNl_word]
  match ty, ht with
  | .boolean, _ =>
    have ht1 : isTypeName "Boolean" = true := by decide
    have ht2 : isKeyword "Boolean" = false := by decide
    simp only [typeToks, List.cons_append, List.nil_append, has, ht1, ht2, beq_self_eq_true, Bool.and_self,
      Bool.not_false, if_true]
    exact plain "Boolean"
  | .nonNegReal none none, _ =>
    have ht1 : isTypeName "NonNegativeReal" = true := by decide
    have ht2 : isKeyword "NonNegativeReal" = false := by decide
    simp only [typeToks, List.cons_append, List.nil_append, has, ht1, ht2, beq_self_eq_true, Bool.and_self,
      Bool.not_false, if_true]
    exact plain "NonNegativeReal"
  | .real none none, _ =>
    have ht1 : isTypeName "Real" = true := by decide
    have ht2 : isKeyword "Real" = false := by decide
    simp only [typeToks, List.cons_append, List.nil_append, has, ht1, ht2, beq_self_eq_true, Bool.and_self,
      Bool.not_false, if_true]
    exact plain "Real"
  | .nonNegReal (some a) (some b), ⟨ha, hb⟩ =>
    have ht1 : isTypeName "NonNegativeReal" = true := by decide
    have ht2 : isKeyword "NonNegativeReal" = false := by decide
    simp only [typeToks, List.cons_append, List.append_assoc, List.nil_append, has, ht1, ht2, beq_self_eq_true, Bool.and_self,
      Bool.not_false, if_true]
    exact withArgs "NonNegativeReal" a b ha hb
  | .real (some a) (some b), ⟨ha, hb⟩ =>
    have ht1 : isTypeName "Real" = true := by decide
    have ht2 : isKeyword "Real" = false := by decide
    simp only [typeToks, List.cons_append, List.append_assoc, List.nil_append, has, ht1, ht2, beq_self_eq_true, Bool.and_self,
      Bool.not_false, if_true]
    exact withArgs "Real" a b ha hb
  | .intRange a b, ⟨ha, hb⟩ =>
    have ht1 : isTypeName "IntegerRange" = true := by decide
    have ht2 : isKeyword "IntegerRange" = false := by decide
    simp only [typeToks, List.cons_append, List.append_assoc, List.nil_append, has, ht1, ht2, beq_self_eq_true, Bool.and_self,
      Bool.not_false, if_true]
    exact withArgs "IntegerRange" a b ha hb

theorem domainToks_head {d : PDomain} (h : WFdx d) : ∃ tk tl, domainToks d = tk :: tl ∧ startTok tk = true := by
  unfold domainToks
  cases hv : d.vars with
  | nil => exact absurd hv h.ne
  | cons v vs =>
    obtain ⟨w, tl, hw⟩ := cnameToks_head (v := v)
    cases vs with
    | nil => simp only [varListToks, hw, List.cons_append]; exact ⟨_, _, rfl, rfl⟩
    | cons v2 vs => simp only [varListToks, hw, List.cons_append, List.append_assoc]; exact ⟨_, _, rfl, rfl⟩

theorem skipNl_domain {d : PDomain} (h : WFdx d) (rest : List Tok) :
    skipNl (domainToks d ++ rest) = domainToks d ++ rest := skipNl_start (domainToks_head h) rest

theorem parseDomain_nil : parseDomain [] = .error .reject := by
  simp [parseDomain, parseDomainVars, nameAt, parseFuel, optVariable]

theorem nextD_notFor : ∀ (ds : List PDomain), (∀ d ∈ ds, WFdx d) →
    skipNl (domainsToks ds) = domainsToks ds ∧ NotForHead (domainsToks ds)
  | [], _ => ⟨rfl, by intro w r e; cases e⟩
  | d :: ds, h => by
    have hd := h d List.mem_cons_self
    obtain ⟨tk, tl, hh, hs⟩ := domainToks_head hd
    simp only [domainsToks]
    exact ⟨skipNl_domain hd _, notFor_append hd.nofor (by rw [hh]; simp) _⟩

theorem loopD : ∀ (ds : List PDomain), (∀ d ∈ ds, WFdx d) → ∀ (acc : List RawDomain) (f : Nat), ds.length < f →
    parseDomains f (.nl :: domainsToks ds) acc = .ok (acc ++ ds.map rawDomain, [.nl])
  | [], _, acc, f, hf => by
    obtain ⟨f', rfl⟩ : ∃ f', f = f' + 1 := ⟨f - 1, by simp at hf; omega⟩
    simp [parseDomains, domainsToks, needNl, skipNl, parseDomain_nil]
  | d :: ds, h, acc, f, hf => by
    obtain ⟨f', rfl⟩ : ∃ f', f = f' + 1 := ⟨f - 1, by simp at hf; omega⟩
    have hd := h d List.mem_cons_self
    have hds := fun e he => h e (List.mem_cons_of_mem _ he)
    have ih := loopD ds hds (acc ++ [rawDomain d]) f' (by simp at hf; omega)
    obtain ⟨hn1, hn2⟩ := nextD_notFor ds hds
    simp only [parseDomains, domainsToks, needNl]
    rw [skipNl_domain hd, parseDomain_fmt hd _ (notForLike_nl hn1 hn2)]
    simp only [ih]
    simp

/-! ### whole programs -/

/-- well-formed program of the printable fragment; a program with `where` / `define` has at least one constraint
(the grammar cannot express the other case) -/
structure WFpx (m : PModel) : Prop where
  obj : match m.objKind with
    | .solve => m.objective = .bool true
    | _ => WFx m.objective
  cons : ∀ c ∈ m.constraints, WFcx c
  ks : ∀ k ∈ m.constants, WFv k.2
  ds : ∀ d ∈ m.domains, WFdx d
  some_constraint : m.constraints ≠ [] ∨ (m.constants = [] ∧ m.domains = [])

theorem lens_le_consts : ∀ (ks : List (String × PExp)), ks.length ≤ (constsToks ks).length
  | [] => by simp
  | (n, v) :: ks => by have := lens_le_consts ks; simp [constsToks]; omega
theorem lens_le_domains : ∀ (ds : List PDomain), ds.length ≤ (domainsToks ds).length
  | [] => by simp
  | d :: ds => by have := lens_le_domains ds; simp [domainsToks]; omega

/-- the declarations after the constraint list -/
def declToksL (ks : List (String × PExp)) (ds : List PDomain) : List Tok :=
  (if ks.isEmpty then [] else .word "where" :: .nl :: constsToks ks)
    ++ (if ds.isEmpty then [] else .word "define" :: .nl :: domainsToks ds)

theorem decl_stops (ks : List (String × PExp)) (ds : List PDomain) : StopsC (declToksL ks ds) := by
  unfold declToksL
  cases ks with
  | nil =>
    cases ds with
    | nil => left; simp
    | cons d ds => right; right; exact ⟨domainsToks (d :: ds), by simp⟩
  | cons k ks => right; left; exact ⟨constsToks (k :: ks) ++ (if ds.isEmpty then [] else .word "define" :: .nl :: domainsToks ds), by simp⟩

theorem parse_define (ds : List PDomain) (hds : ∀ d ∈ ds, WFdx d) (obj : RawObjective)
    (cs : List PConstraint) (consts : List (String × PExp)) :
    parseDefineEnd (Tok.nl :: (if ds.isEmpty then [] else .word "define" :: .nl :: domainsToks ds)) obj cs consts
      = .ok { objective := obj, constraints := cs, constants := consts, domains := ds.map rawDomain } := by
  have hdf : lowerWord "define" = "define" := by decide
  unfold parseDefineEnd
  cases ds with
  | nil => simp [needNl, skipNl]
  | cons d ds =>
    have hl := loopD (d :: ds) hds [] ((domainsToks (d :: ds)).length + 1 + 1) (by have := lens_le_domains (d :: ds); omega)
    simp only [List.isEmpty_cons, Bool.false_eq_true, if_false, needNl, skipNl, hdf, beq_self_eq_true, if_true, List.length_cons, hl]
    simp [skipNl]

theorem parse_decls (ks : List (String × PExp)) (ds : List PDomain) (hks : ∀ k ∈ ks, WFv k.2) (hds : ∀ d ∈ ds, WFdx d)
    (obj : RawObjective) (cs : List PConstraint) :
    parseDecls (.nl :: declToksL ks ds) obj cs
      = .ok { objective := obj, constraints := cs, constants := ks, domains := ds.map rawDomain } := by
  have hw : lowerWord "where" = "where" := by decide
  have hdw : (lowerWord "define" == "where") = false := by decide
  unfold parseDecls declToksL
  cases ks with
  | nil =>
    have hd := parse_define ds hds obj cs []
    cases ds with
    | nil => simpa [needNl, skipNl] using hd
    | cons d ds =>
      simp only [List.isEmpty_nil, List.isEmpty_cons, if_true, Bool.false_eq_true, if_false, List.nil_append, needNl, skipNl, hdw]
      simpa using hd
  | cons k ks =>
    have hY : StopsK (if ds.isEmpty then [] else .word "define" :: .nl :: domainsToks ds) := by
      cases ds with
      | nil => left; simp
      | cons d ds => right; exact ⟨domainsToks (d :: ds), by simp⟩
    have hl := loopK (k :: ks) hks _ [] ((constsToks (k :: ks) ++
        (if ds.isEmpty then [] else .word "define" :: .nl :: domainsToks ds)).length + 1 + 1) hY
        (by have := lens_le_consts (k :: ks); simp at this ⊢; omega)
    simp only [List.isEmpty_cons, Bool.false_eq_true, if_false, List.cons_append, needNl, skipNl, hw, beq_self_eq_true, if_true,
      List.length_cons, hl]
    simpa using parse_define ds hds obj cs (k :: ks)

theorem progToks_eq (m : PModel) :
    progToks m = objectiveToks m ++ .nl :: .st :: .nl :: (constraintsToks m.constraints ++ declToksL m.constants m.domains) := rfl

/-- what the PEG phase reads of a printed program -/
def rawOf (m : PModel) : RawProgram :=
  { objective := { word := m.objKind.text, body := match m.objKind with | .solve => none | _ => some m.objective },
    constraints := m.constraints, constants := m.constants, domains := m.domains.map rawDomain }

/-- **PEG phase**: the printed tokens of a program of the fragment are read as its raw form -/
theorem parseProgramRaw_fmt (m : PModel) (h : WFpx m) : parseProgramRaw (progToks m) = .ok (rawOf m) := by
  obtain ⟨kind, obj, cs, ks, ds⟩ := m
  obtain ⟨hobj, hcs, hks, hds, hsome⟩ := h
  simp only at hobj hcs hks hds hsome
  rw [progToks_eq]
  simp only
  -- objective
  have hO : ∀ T, parseObjective (skipNl (objectiveToks { objKind := kind, objective := obj, constraints := cs, constants := ks, domains := ds } ++ .nl :: T))
      = .ok ((rawOf { objKind := kind, objective := obj, constraints := cs, constants := ks, domains := ds }).objective, .nl :: T) := by
    intro T
    cases kind with
    | solve =>
      simp only at hobj; subst hobj
      have h1 : (lowerWord "solve" == "min") = false := by decide
      have h2 : (lowerWord "solve" == "max") = false := by decide
      have h3 : (lowerWord "solve" == "solve") = true := by decide
      simp [objectiveToks, skipNl, parseObjective, rawOf, ObjKind.text, h1, h2, h3]
    | min =>
      have hw : WFx obj := hobj
      have h1 : (lowerWord "min" == "min") = true := by decide
      simp only [objectiveToks, List.cons_append, skipNl, parseObjective, h1, Bool.true_or, if_true]
      rw [expAt_fmt hw (closed_nl T)]
      rfl
    | max =>
      have hw : WFx obj := hobj
      have h1 : (lowerWord "max" == "max") = true := by decide
      simp only [objectiveToks, List.cons_append, skipNl, parseObjective, h1, Bool.or_true, if_true]
      rw [expAt_fmt hw (closed_nl T)]
      rfl
  unfold parseProgramRaw
  rw [hO]
  simp only [needNl, skipNl]
  cases cs with
  | nil =>
    obtain ⟨rfl, rfl⟩ : ks = [] ∧ ds = [] := by
      rcases hsome with h | h
      · exact absurd rfl h
      · exact h
    simp [constraintsToks, declToksL, skipNl, parseConstraints, constraint_stops_nil, parseDecls, parseDefineEnd, needNl, rawOf]
  | cons c cs =>
    have hsk : skipNl (constraintsToks (c :: cs) ++ declToksL ks ds) = constraintsToks (c :: cs) ++ declToksL ks ds := by
      simp only [constraintsToks, List.append_assoc, List.cons_append]
      exact skipNl_constraint (hcs c List.mem_cons_self) _
    rw [hsk, firstC hcs _ (decl_stops ks ds)]
    exact parse_decls ks ds hks hds _ (c :: cs)

/-! ### the AST builders accept it -/

theorem firstErr_none (l : List (Option String)) (h : ∀ x ∈ l, x = none) : firstErr l = none := by
  induction l with
  | nil => rfl
  | cons x xs ih =>
    have := h x List.mem_cons_self
    subst this
    simp only [firstErr]
    exact ih (fun y hy => h y (List.mem_cons_of_mem _ hy))

theorem buildDomain_raw {d : PDomain} (h : WFdx d) : buildDomain (rawDomain d) = .ok d := by
  obtain ⟨hne, hp, ht, hfor, _⟩ := h
  obtain ⟨vars, ty, iterVars, iters⟩ := d
  simp only at hne hp ht hfor
  have hv : firstErr (vars.map CName.buildErr) = none := by
    apply firstErr_none
    intro x hx
    simp only [List.mem_map] at hx
    obtain ⟨v, hv, rfl⟩ := hx
    exact CName_buildErr (hp v hv)
  have hi := buildErr_for hfor
  match ty, ht with
  | .boolean, _ => simp [buildDomain, rawDomain, hv, hi, mkVarType]
  | .nonNegReal none none, _ => simp [buildDomain, rawDomain, hv, hi, mkVarType]
  | .real none none, _ => simp [buildDomain, rawDomain, hv, hi, mkVarType]
  | .nonNegReal (some a) (some b), ⟨ha, hb⟩ =>
    simp [buildDomain, rawDomain, hv, hi, mkVarType, firstErr, buildErr_fmt ha, buildErr_fmt hb]
  | .real (some a) (some b), ⟨ha, hb⟩ =>
    simp [buildDomain, rawDomain, hv, hi, mkVarType, firstErr, buildErr_fmt ha, buildErr_fmt hb]
  | .intRange a b, ⟨ha, hb⟩ =>
    simp [buildDomain, rawDomain, hv, hi, mkVarType, firstErr, buildErr_fmt ha, buildErr_fmt hb]

theorem buildDomains_raw : ∀ (ds : List PDomain), (∀ d ∈ ds, WFdx d) → buildDomains (ds.map rawDomain) = .ok ds
  | [], _ => rfl
  | d :: ds, h => by
    simp [buildDomains, buildDomain_raw (h d List.mem_cons_self),
      buildDomains_raw ds (fun e he => h e (List.mem_cons_of_mem _ he))]

theorem constraint_buildErr {c : PConstraint} (h : WFcx c) : c.buildErr = none := by
  obtain ⟨hn, hl, hr, hfor, _⟩ := h
  unfold PConstraint.buildErr
  apply firstErr_none
  intro x hx
  simp only [List.mem_cons, List.not_mem_nil, or_false] at hx
  rcases hx with rfl | rfl | rfl | rfl
  · cases hcn : c.name with
    | none => rfl
    | some n => rw [hcn] at hn; exact CName_buildErr hn
  · exact buildErr_for hfor
  · exact buildErr_fmt hl
  · by_cases hlg : c.logic = true
    · simp only [hlg, if_true] at hr; rw [hr.2]; rfl
    · simp only [hlg] at hr; exact buildErr_fmt hr

/-- **AST builders**: the raw form of a program of the fragment is built into the program -/
theorem buildProgram_raw (m : PModel) (h : WFpx m) : buildProgram (rawOf m) = .ok m := by
  obtain ⟨kind, obj, cs, ks, ds⟩ := m
  obtain ⟨hobj, hcs, hks, hds, _⟩ := h
  simp only at hobj hcs hks hds
  have hc : firstErr (cs.map PConstraint.buildErr) = none := by
    apply firstErr_none
    intro x hx
    simp only [List.mem_map] at hx
    obtain ⟨c, hc, rfl⟩ := hx
    exact constraint_buildErr (hcs c hc)
  have hk : firstErr (ks.map fun k => buildErr k.2) = none := by
    apply firstErr_none
    intro x hx
    simp only [List.mem_map] at hx
    obtain ⟨k, hk, rfl⟩ := hx
    exact buildErr_v (hks k hk)
  have hd := buildDomains_raw ds hds
  cases kind with
  | solve =>
    simp only at hobj; subst hobj
    simp [buildProgram, rawOf, buildObjective, ObjKind.text, hc, hk, hd]
  | min =>
    have hw : WFx obj := hobj
    simp [buildProgram, rawOf, buildObjective, ObjKind.text, buildErr_fmt hw, hc, hk, hd]
  | max =>
    have hw : WFx obj := hobj
    have : ("max" == "min") = false := by decide
    simp [buildProgram, rawOf, buildObjective, ObjKind.text, buildErr_fmt hw, hc, hk, hd]

/-- **Whole programs round-trip**: the tokens the program printer writes for a program of the printable fragment
are read back by the program-level parser as the same program. -/
theorem parseProgram_fmt (m : PModel) (h : WFpx m) : parseProgram (progToks m) = .ok m := by
  simp [parseProgram, parseProgramRaw_fmt m h, buildProgram_raw m h]

/-! ### the decidable fragment predicate implies well-formedness -/

theorem blockKind_facts {k : String} (h : Gen.blockKinds.any (fun e => e.2 == k) = true) :
    isFunctionName k = true ∧ k ≠ "not" ∧ canonKind Gen.blockKinds k = k := by
  simp only [Gen.blockKinds, List.any_cons, List.any_nil, Bool.or_false, Bool.or_eq_true, beq_iff_eq] at h
  rcases h with h | h | h | h | h | h | h | h | h | h <;> subst h <;> decide

theorem scopedKind_facts {k : String} (h : Gen.scopedKinds.any (fun e => e.2 == k) = true) :
    isFunctionName k = true ∧ k ≠ "not" ∧ canonKind Gen.scopedKinds k = k ∧ scopedKindErr k = none := by
  have h' := h
  simp only [Gen.scopedKinds, List.any_cons, List.any_nil, Bool.or_false, Bool.or_eq_true, beq_iff_eq] at h
  rcases h with h | h | h | h | h | h | h | h | h | h | h <;> subst h <;> decide

theorem plainVar_notKeyword {n : String} (h : plainVar n = true) : isKeyword n = false := by
  simp only [plainVar, Bool.and_eq_true, Bool.not_eq_true'] at h; exact h.2

theorem nameVar_notKeyword {n : String} (h : nameVar n = true) : isKeyword n = false := by
  simp only [nameVar, plainVar, escapedVar, Bool.or_eq_true, Bool.and_eq_true, Bool.not_eq_true'] at h
  rcases h with h | h <;> exact h.2

theorem plainRun_ne_us {n : String} (h : isPlainRun n.toList = true) : n ≠ "_" := by
  intro e; subst e; exact absurd h (by decide)

/-- a plain run (`LETTER (LETTER | NUMBER)*`) has no underscore: as the index of a compound variable it is written bare -/
theorem plainRun_no_us {cs : List Char} (h : isPlainRun cs = true) : cs.contains '_' = false := by
  cases cs with
  | nil => simp [isPlainRun] at h
  | cons c tl =>
    simp only [isPlainRun, Bool.and_eq_true, List.all_eq_true, Bool.or_eq_true] at h
    simp only [List.contains_eq_mem, decide_eq_false_iff_not, List.mem_cons, not_or]
    refine ⟨fun e => ?_, fun hm => ?_⟩
    · have := h.1; rw [← e] at this; exact absurd this (by decide)
    · rcases h.2 _ hm with h' | h' <;> exact absurd h' (by decide)

theorem wfvar_of_printable {v : IterVar} (h : printableIterVar v = true) : WFx.WFvar v := by
  cases v with
  | single n =>
    simp only [printableIterVar, plainVar, Bool.and_eq_true] at h
    exact plainRun_ne_us h.1
  | tuple ns =>
    simp only [printableIterVar, Bool.and_eq_true, Bool.not_eq_true'] at h
    intro e; subst e; simp at h

mutual
theorem coreExp_wf : (e : PExp) → coreExp e = true → WFx e
  | .int v, h => by simpa [coreExp, WFx] using h
  | .num _, _ => by simp [WFx]
  | .bool _, _ => by simp [WFx]
  | .str _, _ => by simp [WFx]
  | .prim d, h => by
    simp only [coreExp] at h
    simp only [WFx]
    cases hd : intArrayOf d with
    | none => simp [hd] at h
    | some ns =>
      simp only [hd, Bool.and_eq_true, List.all_eq_true, decide_eq_true_eq, beq_iff_eq] at h
      exact ⟨ns, rfl, h.1, h.2⟩
  | .var n, h => by simp only [coreExp] at h; simp only [WFx]; exact nameVar_notKeyword h
  | .cvar n idx, h => by
    simp only [coreExp, Bool.and_eq_true, Bool.not_eq_true'] at h
    simp only [WFx]
    exact ⟨by intro e; subst e; simp at h, coreIdx_wf idx h.2⟩
  | .access n idx, h => by
    simp only [coreExp, Bool.and_eq_true, Bool.not_eq_true', bne_iff_ne, ne_eq] at h
    simp only [WFx]
    exact ⟨h.1.1.2, plainRun_ne_us h.1.1.1, by intro e; subst e; simp at h, coreList_wf idx h.2⟩
  | .call n args, h => by
    simp only [coreExp, Bool.and_eq_true, Bool.not_eq_true', bne_iff_ne, ne_eq] at h
    simp only [WFx]
    exact ⟨h.1.2, h.1.1, coreList_wf args h.2⟩
  | .block k es, h => by
    simp only [coreExp, Bool.and_eq_true, Bool.not_eq_true', Option.isNone_iff_eq_none] at h
    simp only [WFx]
    obtain ⟨h1, h2, h3⟩ := blockKind_facts h.1.1.1
    exact ⟨h1, h2, h3, h.1.1.2, by intro e; subst e; simp at h, coreList_wf es h.2⟩
  | .scoped k vs its b, h => by
    simp only [coreExp, Bool.and_eq_true, Bool.not_eq_true', beq_iff_eq] at h
    simp only [WFx]
    obtain ⟨h1, h2, h3, h4⟩ := scopedKind_facts h.1.1.1.1.1
    exact ⟨h1, h2, h3, h4, coreIters_wf vs its h.1.1.1.2 (by intro e; subst e; simp at h) h.1.1.2 h.1.2, coreExp_wf b h.2⟩
  | .un _ e, h => by simp only [coreExp] at h; simp only [WFx]; exact coreExp_wf e h
  | .bin _ l r, h => by
    simp only [coreExp, Bool.and_eq_true] at h
    simp only [WFx]
    exact ⟨coreExp_wf l h.1, coreExp_wf r h.2⟩
theorem coreList_wf : (es : List PExp) → coreList es = true → WFx.WFxs es
  | [], _ => by simp [WFx.WFxs]
  | e :: es, h => by
    simp only [coreList, Bool.and_eq_true] at h
    simp only [WFx.WFxs]
    exact ⟨coreExp_wf e h.1, coreList_wf es h.2⟩
theorem coreIdx_wf : (es : List PExp) → coreIdx es = true → WFx.WFidx es
  | [], _ => by simp [WFx.WFidx]
  | .num t :: es, h => by
    simp only [coreIdx, Bool.and_eq_true, Bool.not_eq_true'] at h
    simp only [WFx.WFidx]; exact ⟨h.1.1, coreIdx_wf es h.2⟩
  | .str s :: es, h => by
    simp only [coreIdx, Bool.and_eq_true, Bool.not_eq_true'] at h
    simp only [WFx.WFidx]; exact ⟨h.1.1, coreIdx_wf es h.2⟩
  | .var i :: es, h => by
    simp only [coreIdx, Bool.and_eq_true] at h
    simp only [WFx.WFidx]
    refine ⟨fun hc => ?_, coreIdx_wf es h.2⟩
    rcases Bool.or_eq_true _ _ ▸ h.1 with hp | he
    · rw [plainRun_no_us hp] at hc; exact absurd hc (by decide)
    · simp only [escapedVar, Bool.and_eq_true, Bool.not_eq_true'] at he; exact he.2
  | .int v :: es, h => by
    simp only [coreIdx, Bool.and_eq_true] at h
    simp only [WFx.WFidx]; exact ⟨coreExp_wf _ h.1, coreIdx_wf es h.2⟩
  | .bool b :: es, h => by
    simp only [coreIdx, Bool.and_eq_true] at h
    simp only [WFx.WFidx]; exact ⟨coreExp_wf _ h.1, coreIdx_wf es h.2⟩
  | .prim d :: es, h => by
    simp only [coreIdx, Bool.and_eq_true] at h
    simp only [WFx.WFidx]; exact ⟨coreExp_wf _ h.1, coreIdx_wf es h.2⟩
  | .cvar n i :: es, h => by
    simp only [coreIdx, Bool.and_eq_true] at h
    simp only [WFx.WFidx]; exact ⟨coreExp_wf _ h.1, coreIdx_wf es h.2⟩
  | .access n i :: es, h => by
    simp only [coreIdx, Bool.and_eq_true] at h
    simp only [WFx.WFidx]; exact ⟨coreExp_wf _ h.1, coreIdx_wf es h.2⟩
  | .call n i :: es, h => by
    simp only [coreIdx, Bool.and_eq_true] at h
    simp only [WFx.WFidx]; exact ⟨coreExp_wf _ h.1, coreIdx_wf es h.2⟩
  | .block n i :: es, h => by
    simp only [coreIdx, Bool.and_eq_true] at h
    simp only [WFx.WFidx]; exact ⟨coreExp_wf _ h.1, coreIdx_wf es h.2⟩
  | .scoped k vs its b :: es, h => by
    simp only [coreIdx, Bool.and_eq_true] at h
    simp only [WFx.WFidx]; exact ⟨coreExp_wf _ h.1, coreIdx_wf es h.2⟩
  | .bin o l r :: es, h => by
    simp only [coreIdx, Bool.and_eq_true] at h
    simp only [WFx.WFidx]; exact ⟨coreExp_wf _ h.1, coreIdx_wf es h.2⟩
  | .un o e :: es, h => by
    simp only [coreIdx, Bool.and_eq_true] at h
    simp only [WFx.WFidx]; exact ⟨coreExp_wf _ h.1, coreIdx_wf es h.2⟩
theorem coreIters_wf : (vs : List IterVar) → (its : List PExp) → vs.length = its.length → its ≠ [] →
    vs.all printableIterVar = true → coreIters its = true → WFx.WFits vs its
  | [v], [e], _, _, hv, hi => by
    simp only [List.all_cons, List.all_nil, Bool.and_true] at hv
    simp only [coreIters, Bool.and_true] at hi
    simp only [WFx.WFits]
    exact ⟨wfvar_of_printable hv, coreIter_wf e hi⟩
  | v :: v2 :: vs, e :: e2 :: es, hl, _, hv, hi => by
    simp only [List.all_cons, Bool.and_eq_true] at hv
    simp only [coreIters, Bool.and_eq_true] at hi
    simp only [WFx.WFits]
    refine ⟨wfvar_of_printable hv.1, coreIter_wf e hi.1, ?_⟩
    exact coreIters_wf (v2 :: vs) (e2 :: es) (by simpa using hl) (by simp) (by simp [hv.2]) (by simp [coreIters, hi.2])
  | [], [], _, hne, _, _ => absurd rfl hne
  | [], _ :: _, hl, _, _, _ => by simp at hl
  | _ :: _, [], _, hne, _, _ => absurd rfl hne
  | [_], _ :: _ :: _, hl, _, _, _ => by simp at hl
  | _ :: _ :: _, [_], hl, _, _, _ => by simp at hl
theorem coreIter_wf : (e : PExp) → coreIter e = true → WFx.WFit e
  | e, h => by
    unfold WFx.WFit
    split
    · rename_i a b incl
      simp only [coreIter, Bool.and_eq_true] at h
      exact ⟨coreExp_wf a h.1, coreExp_wf b h.2⟩
    · rename_i hne
      have : coreExp e = true := by
        unfold coreIter at h
        split at h
        · rename_i a b incl; exact absurd rfl (hne a b incl)
        · exact h
      exact coreExp_wf e this
end

/-- a graph value of the decidable fragment is a graph of the theorem, written as `graphToks` -/
theorem coreGraphValue_wf {v : PExp} (h : coreGraphValue v = true) :
    ∃ ns, GraphOK ns ∧ v = .prim (graphText ns) ∧ fmtToks v = graphToks ns := by
  cases v with
  | prim d =>
    simp only [coreGraphValue, graphCore, Bool.and_eq_true, Option.isNone_iff_eq_none] at h
    obtain ⟨hi, hg⟩ := h
    cases hgo : graphOf d with
    | none => simp [hgo] at hg
    | some ns =>
      simp only [hgo, Bool.and_eq_true, beq_iff_eq] at hg
      refine ⟨ns, graphOKb_ok hg.2, by rw [hg.1], ?_⟩
      simp only [fmtToks, hi, hgo]
  | _ => simp [coreGraphValue] at h

theorem coreName_wf {v : CName} (h : coreName v = true) : WFname v := by
  cases v with
  | plain n => exact nameVar_notKeyword h
  | compound n idx =>
    simp only [coreName, Bool.and_eq_true, Bool.not_eq_true'] at h
    exact ⟨by intro e; subst e; simp at h, coreIdx_wf idx h.2⟩

theorem coreFor_wf {vs : List IterVar} {its : List PExp} (h : coreFor vs its = true) : WFfor vs its := by
  simp only [coreFor, Bool.or_eq_true, Bool.and_eq_true, beq_iff_eq] at h
  by_cases hi : its = []
  · subst hi
    rcases h with h | h
    · left; exact ⟨by simpa using h.1, rfl⟩
    · left; exact ⟨by have := h.1.1; simpa using this, rfl⟩
  · rcases h with h | h
    · exact absurd (by simpa using h.2) hi
    · right; exact coreIters_wf vs its h.1.1 hi h.1.2 h.2

theorem notForHead_wf {X : List Tok} (h : notForHead X = true) : NotForHead X := by
  intro w r e
  subst e
  simpa [notForHead] using h

theorem coreType_wf {t : PVarType} (h : coreType t = true) : WFtx t := by
  match t, h with
  | .boolean, _ => trivial
  | .nonNegReal none none, _ => trivial
  | .real none none, _ => trivial
  | .nonNegReal (some a) (some b), h => simp only [coreType, Bool.and_eq_true] at h; exact ⟨coreExp_wf a h.1, coreExp_wf b h.2⟩
  | .real (some a) (some b), h => simp only [coreType, Bool.and_eq_true] at h; exact ⟨coreExp_wf a h.1, coreExp_wf b h.2⟩
  | .intRange a b, h => simp only [coreType, Bool.and_eq_true] at h; exact ⟨coreExp_wf a h.1, coreExp_wf b h.2⟩
  | .nonNegReal (some _) none, h => simp [coreType] at h
  | .nonNegReal none (some _), h => simp [coreType] at h
  | .real (some _) none, h => simp [coreType] at h
  | .real none (some _), h => simp [coreType] at h

/-- the decidable fragment predicate of `Rooc/Syntax/ProgramToks.lean` implies the well-formedness the round trip needs -/
theorem coreProgram_wf (m : PModel) (h : coreProgram m = true) : WFpx m := by
  simp only [coreProgram, Bool.and_eq_true, List.all_eq_true, Bool.or_eq_true, Bool.not_eq_true'] at h
  obtain ⟨⟨⟨⟨hobj, hcs⟩, hks⟩, hds⟩, hsome⟩ := h
  refine ⟨?_, ?_, ?_, ?_, ?_⟩
  · cases hk : m.objKind with
    | solve =>
      simp only [hk] at hobj ⊢
      cases ho : m.objective with
      | bool b => cases b <;> simp [ho] at hobj ⊢
      | _ => simp [ho] at hobj
    | min => simp only [hk] at hobj ⊢; exact coreExp_wf _ hobj
    | max => simp only [hk] at hobj ⊢; exact coreExp_wf _ hobj
  · intro c hc
    obtain ⟨⟨⟨⟨hn, hl⟩, hr⟩, hf⟩, hnf⟩ := hcs c hc
    refine ⟨?_, coreExp_wf _ hl, ?_, coreFor_wf hf, notForHead_wf hnf⟩
    · cases hcn : c.name with
      | none => trivial
      | some n => rw [hcn] at hn; exact coreName_wf hn
    · by_cases hlg : c.logic = true
      · simp only [hlg, if_true, Bool.and_eq_true, beq_iff_eq] at hr ⊢
        refine ⟨hr.1, ?_⟩
        cases hrr : c.rhs with
        | bool b => cases b <;> simp [hrr] at hr ⊢
        | _ => simp [hrr] at hr
      · simp only [hlg] at hr ⊢; exact coreExp_wf _ hr
  · intro k hk
    have h2 := (hks k hk).2
    rcases h2 with h2 | h2
    · exact Or.inl (coreExp_wf _ h2)
    · exact Or.inr (coreGraphValue_wf h2)
  · intro d hd
    obtain ⟨⟨⟨⟨hne, hn⟩, ht⟩, hf⟩, hnf⟩ := hds d hd
    exact ⟨by intro e; simp [e] at hne, fun v hv => coreName_wf (hn v hv), coreType_wf ht, coreFor_wf hf, notForHead_wf hnf⟩
  · rcases hsome with h | h
    · left; intro e; simp [e] at h
    · right; simp only [List.isEmpty_iff] at h; exact h

/-- **`parse (format p) = p` on the printable fragment** (token level): for every program that satisfies the
decidable predicate `printable`, the parser model reads the printed tokens back as the same program. -/
theorem parse_format_printable (m : PModel) (h : printable m = true) : parseProgram (progToks m) = .ok m :=
  parseProgram_fmt m (coreProgram_wf m h)

/-! ### comparison chains -/

theorem expAt_cmp (c : Cmp) (r : List Tok) : expAt (cmpTok c :: r) = .error .reject := by
  have hf : parseFuel (cmpTok c :: r) = (6 * r.length + 13) + 3 := by simp [parseFuel]; omega
  have hu : optUnary (cmpTok c :: r) = ([], cmpTok c :: r) :=
    optUnary_plain (by cases c <;> simp [unRule, ruleOfTok, Tok.opSpelling, cmpTok]) r
  have hl : leaf (6 * r.length + 13 + 1) (cmpTok c :: r) = .error .reject := by cases c <;> simp [leaf, cmpTok]
  simp only [expAt, hf, parseExp, collect, hu, hl]

/-- **A comparison chain is not a constraint**: `a <= b <= c` (any comparisons) makes the program invalid. -/
theorem comparison_chain_rejected {a b c : PExp} (ha : WFx a) (hb : WFx b) (hc : WFx c) (c1 c2 : Cmp) :
    parseProgram (.word "solve" :: .nl :: .st :: .nl ::
      (fmtToks a ++ cmpTok c1 :: (fmtToks b ++ cmpTok c2 :: (fmtToks c ++ [.nl])))) = .error .reject := by
  obtain ⟨items, hka, _⟩ := fmt_tk a ha
  have hname := constraintName_none hka (x := cmpTok c1) (tail := fmtToks b ++ cmpTok c2 :: (fmtToks c ++ [.nl]))
    (by cases c1 <;> simp [cmpTok]) (by cases c1 <;> simp [cmpTok])
  have hnf : ¬ ForLike (cmpTok c2 :: (fmtToks c ++ [.nl])) := by
    rintro ⟨w, r, heq, _⟩
    cases c2 <;> simp [cmpTok, skipNl] at heq
  have hfirst : parseConstraint (fmtToks a ++ cmpTok c1 :: (fmtToks b ++ cmpTok c2 :: (fmtToks c ++ [.nl]))) =
      .ok ({ name := none, lhs := a, cmp := c1, rhs := b, logic := false, iterVars := [], iters := [] },
           cmpTok c2 :: (fmtToks c ++ [.nl])) := by
    unfold parseConstraint
    rw [hname]
    simp only
    unfold constraintBody
    rw [expAt_fmt ha (closed_cmp c1 _)]
    simp only [cmpOfTok_cmpTok]
    rw [expAt_fmt hb (closed_cmp c2 _)]
    simp only [optFor_none hnf]
  have hsecond : parseConstraint (cmpTok c2 :: (fmtToks c ++ [.nl])) = .error .reject := by
    have hn : constraintName (cmpTok c2 :: (fmtToks c ++ [.nl])) = .ok (none, cmpTok c2 :: (fmtToks c ++ [.nl])) :=
      constraintName_nonword (by intro w e; cases c2 <;> cases e) _
    unfold parseConstraint
    rw [hn]
    simp only
    unfold constraintBody
    rw [expAt_cmp]
  have hsk1 : skipNl (fmtToks a ++ cmpTok c1 :: (fmtToks b ++ cmpTok c2 :: (fmtToks c ++ [.nl]))) = _ := skipNl_fmt ha _
  have hsk2 : skipNl (cmpTok c2 :: (fmtToks c ++ [.nl])) = cmpTok c2 :: (fmtToks c ++ [.nl]) := by cases c2 <;> rfl
  have hneed : needNl (cmpTok c2 :: (fmtToks c ++ [.nl])) = none := by cases c2 <;> rfl
  have hlen : ∃ k, (fmtToks a ++ cmpTok c1 :: (fmtToks b ++ cmpTok c2 :: (fmtToks c ++ [.nl]))).length + 1 = k + 2 :=
    ⟨(fmtToks a).length + ((fmtToks b).length + ((fmtToks c).length + 1) + 1), by simp; omega⟩
  obtain ⟨k, hk⟩ := hlen
  have hcs : parseConstraints (k + 2) (fmtToks a ++ cmpTok c1 :: (fmtToks b ++ cmpTok c2 :: (fmtToks c ++ [.nl]))) [] =
      .ok ([{ name := none, lhs := a, cmp := c1, rhs := b, logic := false, iterVars := [], iters := [] }],
           cmpTok c2 :: (fmtToks c ++ [.nl])) := by
    simp only [parseConstraints, hsk1, hfirst, hsk2, hsecond]
    simp
  have hdecl : ∀ obj cs, parseDecls (cmpTok c2 :: (fmtToks c ++ [.nl])) obj cs = .error .reject := by
    intro obj cs
    simp only [parseDecls, parseDefineEnd, hneed, hsk2]
  have h1 : (lowerWord "solve" == "min") = false := by decide
  have h2 : (lowerWord "solve" == "max") = false := by decide
  have h3 : (lowerWord "solve" == "solve") = true := by decide
  unfold parseProgram parseProgramRaw
  simp only [skipNl, parseObjective, needNl, hsk1, h1, h2, h3, Bool.or_self, Bool.false_eq_true, if_false, if_true, hk, hcs, hdecl]

/-! ### helpers kept for the users of the parser model (C12: `Proofs/DisplayParse.lean`) -/

/-- tokens an expression is written with (no NEWLINE, `:`, comparison, `s.t.`) -/
def isExprTok : Tok → Bool
  | .nl | .colon | .le | .ge | .eq | .lt | .gt | .st => false
  | _ => true

theorem binKwTok_expr (o : BinOp) : isExprTok (binKwTok o) = true := by cases o <;> rfl
theorem unKwTok_expr (u : UnOp) : isExprTok (unKwTok u) = true := by cases u <;> rfl

theorem mem_paren_expr {xs : List Tok} (h : ∀ tk ∈ xs, isExprTok tk = true) : ∀ tk ∈ parenToks xs, isExprTok tk = true := by
  intro tk htk
  rcases List.mem_cons.mp htk with rfl | htk
  · rfl
  · rcases List.mem_append.mp htk with htk | htk
    · exact h tk htk
    · simp at htk; subst htk; rfl

theorem skipNl_expr {tk : Tok} (h : isExprTok tk = true) (tl : List Tok) : skipNl (tk :: tl) = tk :: tl := by
  cases tk <;> simp [isExprTok] at h <;> rfl

/-- a constraint without iteration at the end of the text -/
theorem optFor_nil : optFor [] = .ok (([], []), []) := rfl

/-- the declarations of the fragment without iterations and with plain names (used by C12) -/
def plainName : CName → Prop
  | .plain n => isKeyword n = false
  | .compound _ _ => False

def WFt : PVarType → Prop
  | .boolean => True
  | .nonNegReal none none => True
  | .nonNegReal (some a) (some b) => WF a ∧ WF b
  | .real none none => True
  | .real (some a) (some b) => WF a ∧ WF b
  | .intRange a b => WF a ∧ WF b
  | _ => False

def WFd (d : PDomain) : Prop :=
  d.vars ≠ [] ∧ (∀ v ∈ d.vars, plainName v) ∧ WFt d.ty ∧ d.iterVars = [] ∧ d.iters = []

theorem wfd_wfdx {d : PDomain} (h : WFd d) (hnf : NotForHead (domainToks d)) : WFdx d := by
  obtain ⟨hne, hp, ht, hiv, hit⟩ := h
  refine ⟨hne, ?_, ?_, Or.inl ⟨hiv, hit⟩, hnf⟩
  · intro v hv
    have := hp v hv
    cases v with
    | plain n => exact this
    | compound _ _ => exact absurd this (by simp [plainName])
  · match hty : d.ty, ht with
    | .boolean, _ => trivial
    | .nonNegReal none none, _ => trivial
    | .real none none, _ => trivial
    | .nonNegReal (some a) (some b), ⟨ha, hb⟩ => exact ⟨wf_wfx a ha, wf_wfx b hb⟩
    | .real (some a) (some b), ⟨ha, hb⟩ => exact ⟨wf_wfx a ha, wf_wfx b hb⟩
    | .intRange a b, ⟨ha, hb⟩ => exact ⟨wf_wfx a ha, wf_wfx b hb⟩

/-- the AST builders on a raw program whose parts they accept -/
theorem buildProgram_ok {raw : RawProgram} {kind : ObjKind} {obj : PExp} {ds : List PDomain}
    (ho : buildObjective raw.objective = .ok (kind, obj))
    (hc : ∀ c ∈ raw.constraints, c.buildErr = none) (hk : ∀ k ∈ raw.constants, buildErr k.2 = none)
    (hd : buildDomains raw.domains = .ok ds) :
    buildProgram raw = .ok { objKind := kind, objective := obj, constraints := raw.constraints, constants := raw.constants, domains := ds } := by
  have h1 : firstErr (raw.constraints.map PConstraint.buildErr) = none := by
    apply firstErr_none
    intro x hx
    simp only [List.mem_map] at hx
    obtain ⟨c, hc', rfl⟩ := hx
    exact hc c hc'
  have h2 : firstErr (raw.constants.map fun k => buildErr k.2) = none := by
    apply firstErr_none
    intro x hx
    simp only [List.mem_map] at hx
    obtain ⟨k, hk', rfl⟩ := hx
    exact hk k hk'
  simp [buildProgram, ho, h1, h2, hd]

/-- a rendering whose leftmost leaf is not written with a word that reads `for` does not begin with one -/
theorem notForHead_tk {t : PExp} {ts : List Tok} {items : List Item} (hk : Tk t ts items)
    (h : ∀ w, headName t = some w → lowerWord w ≠ "for") (X : List Tok) : NotForHead (ts ++ X) := by
  obtain ⟨tk, tl, hts, _⟩ := tk_head hk
  intro w r e
  rw [hts] at e
  simp only [List.cons_append] at e
  injection e with e1 _
  subst e1
  exact h w (tk_head_word hk w tl hts)

end Rooc.Syntax.Proofs
