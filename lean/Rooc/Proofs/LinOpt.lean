/-
C02 at full strength: from "feasible sets correspond" (C01) and "objective values correspond" to equal optimal
values — same lower/upper bounds of the attainable objective values, optimum attained iff attained (with the
same value), same infimum/supremum, same emptiness; `Satisfy` included.
-/
import Rooc.Proofs.LinBridgeLogic
import Mathlib.Order.Bounds.Basic

set_option linter.unusedSectionVars false
set_option linter.unusedSimpArgs false
set_option linter.unusedVariables false

namespace Rooc.LinP
open Rooc Rooc.Lin Rooc.Sem Rooc.Exp

variable {K : Type} [Field K] [LinearOrder K] [IsStrictOrderedRing K] [FloorRing K]

/-- the objective values the source model attains on its feasible set. -/
def srcValues (m : Model (Ext K)) : Set K :=
  {v | ∃ ρ : String → K, srcFeasible m ρ = true ∧ eval ρ m.objective = some v}

/-- the objective values the linear model attains on its feasible set. -/
def linValues (lm : LinModel (Ext K)) : Set K :=
  {w | ∃ ρ : String → K, linFeasible lm ρ = true ∧ linObjective lm ρ = some w}

/-- what C01 + C02 give about a compiled model, in the form the optimum theorems use. -/
structure ObjLink (m : Model (Ext K)) (lm : LinModel (Ext K)) : Prop where
  /-- every source-feasible point has an objective value -/
  srcDefined : ∀ ρ : String → K, srcFeasible m ρ = true → ∃ v, eval ρ m.objective = some v
  /-- a feasible point of the linear model is source-feasible, and its linear objective is on the right side -/
  sound : ∀ ρ' : String → K, linFeasible lm ρ' = true →
    srcFeasible m ρ' = true ∧ ∀ v, eval ρ' m.objective = some v → ∃ w, linObjective lm ρ' = some w ∧ rel (objReq m) w v
  /-- a source-feasible point extends to a feasible point of the linear model with the same objective value -/
  complete : ∀ ρ : String → K, srcFeasible m ρ = true → ∀ v, eval ρ m.objective = some v →
    ∃ ρ' : String → K, linFeasible lm ρ' = true ∧ linObjective lm ρ' = some v

theorem ObjLink.values_sub {m : Model (Ext K)} {lm : LinModel (Ext K)} (L : ObjLink m lm) :
    srcValues m ⊆ linValues lm := by
  rintro v ⟨ρ, hs, hv⟩
  obtain ⟨ρ', hf, ho⟩ := L.complete ρ hs v hv
  exact ⟨ρ', hf, ho⟩

/-- every linear objective value is dominated (in the model's direction) by a source objective value. -/
theorem ObjLink.values_dom {m : Model (Ext K)} {lm : LinModel (Ext K)} (L : ObjLink m lm) :
    ∀ w ∈ linValues lm, ∃ v ∈ srcValues m, rel (objReq m) w v := by
  rintro w ⟨ρ', hf, hw⟩
  obtain ⟨hs, hobj⟩ := L.sound ρ' hf
  obtain ⟨v, hv⟩ := L.srcDefined ρ' hs
  obtain ⟨w', hw', hrel⟩ := hobj v hv
  rw [hw] at hw'; cases hw'
  exact ⟨v, ⟨ρ', hs, hv⟩, hrel⟩

/-- same feasibility status. -/
theorem ObjLink.empty_iff {m : Model (Ext K)} {lm : LinModel (Ext K)} (L : ObjLink m lm) :
    (∃ ρ : String → K, srcFeasible m ρ = true) ↔ ∃ ρ' : String → K, linFeasible lm ρ' = true := by
  constructor
  · rintro ⟨ρ, hs⟩
    obtain ⟨v, hv⟩ := L.srcDefined ρ hs
    obtain ⟨ρ', hf, _⟩ := L.complete ρ hs v hv
    exact ⟨ρ', hf⟩
  · rintro ⟨ρ', hf⟩; exact ⟨ρ', (L.sound ρ' hf).1⟩

section min
variable {m : Model (Ext K)} {lm : LinModel (Ext K)}

theorem rel_min {w v : K} (hmin : m.optType = .min) (h : rel (objReq m) w v) : v ≤ w := by
  unfold objReq at h; rw [hmin] at h; exact h
theorem rel_max {w v : K} (hmax : m.optType = .max) (h : rel (objReq m) w v) : w ≤ v := by
  unfold objReq at h; rw [hmax] at h; exact h
theorem rel_sat {w v : K} (hsat : m.optType = .satisfy) (h : rel (objReq m) w v) : w = v := by
  unfold objReq at h; rw [hsat] at h; exact h

/-- **minimisation**: the attainable values have the same lower bounds … -/
theorem ObjLink.lowerBounds_eq (L : ObjLink m lm) (hmin : m.optType = .min) :
    lowerBounds (linValues lm) = lowerBounds (srcValues m) := by
  ext c
  constructor
  · intro hc v hv; exact hc (L.values_sub hv)
  · intro hc w hw
    obtain ⟨v, hv, hrel⟩ := L.values_dom w hw
    exact le_trans (hc hv) (rel_min hmin hrel)

/-- … the minimum is attained by one iff it is attained by the other, with the same value … -/
theorem ObjLink.isLeast_iff (L : ObjLink m lm) (hmin : m.optType = .min) (v : K) :
    IsLeast (linValues lm) v ↔ IsLeast (srcValues m) v := by
  constructor
  · rintro ⟨hmem, hlb⟩
    have hlb' : v ∈ lowerBounds (srcValues m) := by rw [← L.lowerBounds_eq hmin]; exact hlb
    obtain ⟨v', hv', hrel⟩ := L.values_dom v hmem
    have : v' = v := le_antisymm (rel_min hmin hrel) (hlb' hv')
    exact ⟨this ▸ hv', hlb'⟩
  · rintro ⟨hmem, hlb⟩
    exact ⟨L.values_sub hmem, by rw [L.lowerBounds_eq hmin]; exact hlb⟩

/-- … and the infimum is the same (in any ordered field, complete or not). -/
theorem ObjLink.isGLB_iff (L : ObjLink m lm) (hmin : m.optType = .min) (c : K) :
    IsGLB (linValues lm) c ↔ IsGLB (srcValues m) c := by
  unfold IsGLB; rw [L.lowerBounds_eq hmin]

/-- unbounded below iff unbounded below. -/
theorem ObjLink.unbounded_below_iff (L : ObjLink m lm) (hmin : m.optType = .min) :
    lowerBounds (linValues lm) = ∅ ↔ lowerBounds (srcValues m) = ∅ := by
  rw [L.lowerBounds_eq hmin]

/-- **maximisation**, dually. -/
theorem ObjLink.upperBounds_eq (L : ObjLink m lm) (hmax : m.optType = .max) :
    upperBounds (linValues lm) = upperBounds (srcValues m) := by
  ext c
  constructor
  · intro hc v hv; exact hc (L.values_sub hv)
  · intro hc w hw
    obtain ⟨v, hv, hrel⟩ := L.values_dom w hw
    exact le_trans (rel_max hmax hrel) (hc hv)

theorem ObjLink.isGreatest_iff (L : ObjLink m lm) (hmax : m.optType = .max) (v : K) :
    IsGreatest (linValues lm) v ↔ IsGreatest (srcValues m) v := by
  constructor
  · rintro ⟨hmem, hub⟩
    have hub' : v ∈ upperBounds (srcValues m) := by rw [← L.upperBounds_eq hmax]; exact hub
    obtain ⟨v', hv', hrel⟩ := L.values_dom v hmem
    have : v' = v := le_antisymm (hub' hv') (rel_max hmax hrel)
    exact ⟨this ▸ hv', hub'⟩
  · rintro ⟨hmem, hub⟩
    exact ⟨L.values_sub hmem, by rw [L.upperBounds_eq hmax]; exact hub⟩

theorem ObjLink.isLUB_iff (L : ObjLink m lm) (hmax : m.optType = .max) (c : K) :
    IsLUB (linValues lm) c ↔ IsLUB (srcValues m) c := by
  unfold IsLUB; rw [L.upperBounds_eq hmax]

/-- **`Satisfy`**: exactly the same attainable objective values. -/
theorem ObjLink.values_eq (L : ObjLink m lm) (hsat : m.optType = .satisfy) : linValues lm = srcValues m := by
  apply Set.Subset.antisymm
  · intro w hw
    obtain ⟨v, hv, hrel⟩ := L.values_dom w hw
    rw [rel_sat hsat hrel]; exact hv
  · exact L.values_sub

end min

/-! ### the link holds for compiled models -/

theorem objLink_of_logic {m : Model (Ext K)} {b : BoundsMap (Ext K)} {d : List (DomVar (Ext K))}
    {lm : LinModel (Ext K)} (hm : LogicModel m d) (hdom : DomRel m d) (hbox : BoxEnforced b d)
    (h : linearizeWith m b d = .ok lm) : ObjLink m lm := by
  obtain ⟨_, hsound, hcomplete⟩ := linearizeWith_logic hm hdom.nodup hbox h
  refine ⟨?_, ?_, ?_⟩
  · intro ρ hs; exact hm.obj_defined h ρ (hdom.sound ρ hs)
  · intro ρ' hf
    obtain ⟨hd, hc, hobj⟩ := hsound ρ' hf
    exact ⟨(srcFeasible_iff m ρ').mpr ⟨hc, hdom.tight ρ' hd⟩, hobj⟩
  · intro ρ hs v hv
    obtain ⟨hc, _⟩ := (srcFeasible_iff m ρ).mp hs
    obtain ⟨ρ', _, hf, hobj⟩ := hcomplete ρ (hdom.sound ρ hs) hc
    exact ⟨ρ', hf, hobj v hv⟩

theorem objLink_of_compile {m : Model (Ext K)} {t : K} (ht : 0 ≤ t) {maxSteps : Nat} {lm : LinModel (Ext K)}
    (h : Compile.linearize m (.fin t) maxSteps = .ok lm)
    (hm : LogicModel m m.domain) (hsh : AssertShape m) (hok : DeclOK m.domain)
    (ht1 : t < 1 ∨ NoIntVars m.domain) : ObjLink m lm := by
  obtain ⟨_, an, han, hlin⟩ := (compile_ok_iff m _ maxSteps lm).mp h
  obtain ⟨hdom, hbox⟩ := pipeline_hyps_logic ht maxSteps hm hsh hok han ht1
  exact objLink_of_logic (logicModel_applyToDomain an hdom.tight hm) hdom hbox hlin

end Rooc.LinP
