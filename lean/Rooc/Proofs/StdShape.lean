/-
Right-hand sides of the standard form: `≥ 0` with exact comparisons, `≥ −tol` in general.
-/
import Rooc.Proofs.StdMain
namespace Rooc
namespace StdShape
variable {K : Type} [Field K] [LinearOrder K] [IsStrictOrderedRing K] [FloorRing K]
open StdSem StdLayout StdSplit StdNorm StdBounds StdSpec StdMain Standardize

/-- `float_lt(rhs, 0)` at `Ext K` on finite numbers. -/
theorem flt_fin (t r : K) :
    Tol.flt (Ext.fin t : Ext K) (Ext.fin r) Arith.zero = true ↔ r < 0 ∧ ¬ |r| < t := by
  simp only [Tol.flt, Tol.feq, Arith.lt, Arith.abs, Arith.sub, Arith.zero, Arith.ofInt, Ext.sub, Ext.neg, Ext.add,
    Ext.abs, Ext.lt, Bool.and_eq_true, Bool.not_eq_true']
  simp only [ef_ofInt, Int.cast_zero, ef_neg, neg_zero, ef_add, add_zero, ef_lt, decide_eq_true_eq]
  by_cases hr : r < 0
  · simp [hr, Ext.lt, abs_of_neg hr]
  · simp [hr, Ext.lt]

theorem eqNew_rhs_ge (t : K) (ht : 0 ≤ t) (c : List (Ext K)) (rhs : Ext K) (hr : isFin rhs) :
    -t ≤ toK (eqNew (Ext.fin t) c rhs).rhs ∧ (t = 0 → 0 ≤ toK (eqNew (Ext.fin t) c rhs).rhs) := by
  obtain ⟨r, rfl⟩ := isFin_iff.1 hr
  unfold eqNew
  by_cases h : Tol.flt (Ext.fin t : Ext K) (Ext.fin r) Arith.zero = true
  · rw [if_pos h]
    have := (flt_fin t r).1 h
    simp only [Arith.neg, Ext.neg, toK_fin, ef_neg]
    constructor
    · linarith [this.1]
    · intro _; linarith [this.1]
  · rw [if_neg h]
    have hn : ¬ (r < 0 ∧ ¬ |r| < t) := fun hc => h ((flt_fin t r).2 hc)
    simp only [toK_fin]
    by_cases hneg : r < 0
    · have hlt : |r| < t := by by_contra hc; exact hn ⟨hneg, hc⟩
      have := abs_lt.1 hlt
      constructor
      · linarith [this.1]
      · intro h0; rw [h0] at hlt; exact absurd hlt (not_lt.2 (abs_nonneg r))
    · have : 0 ≤ r := not_lt.1 hneg
      exact ⟨by linarith, fun _ => this⟩

/-- every normalised row is `eqNew` of something with the right-hand side of an input row. -/
theorem normalizeAll_rhs (tol : Ext K) : ∀ (rows : List (LinRow (Ext K))) (total sl su : Nat)
    (srows : List (StdRow (Ext K))) (names : List String) (total' : Nat),
    normalizeAll tol total sl su rows = .ok (srows, names, total') →
    ∀ sr ∈ srows, ∃ r ∈ rows, ∃ c, sr = eqNew tol c r.rhs
  | [], total, sl, su, srows, names, total', h, sr, hsr => by
    simp only [normalizeAll, Except.ok.injEq, Prod.mk.injEq] at h
    obtain ⟨rfl, -, -⟩ := h
    simp at hsr
  | r :: rs, total, sl, su, srows, names, total', h, sr, hsr => by
    simp only [normalizeAll] at h
    split at h
    · cases hrec : normalizeAll tol total sl su rs with
      | error e => simp [hrec] at h
      | ok res =>
        obtain ⟨rows', names', t'⟩ := res
        simp only [hrec, Except.ok.injEq, Prod.mk.injEq] at h
        obtain ⟨rfl, -, -⟩ := h
        rcases List.mem_cons.1 hsr with rfl | hsr
        · exact ⟨r, by simp, _, rfl⟩
        · obtain ⟨r', hr', c, hc⟩ := normalizeAll_rhs tol rs total sl su rows' names' t' hrec sr hsr
          exact ⟨r', List.mem_cons_of_mem _ hr', c, hc⟩
    · cases hrec : normalizeAll tol (total+1) (sl+1) su rs with
      | error e => simp [hrec] at h
      | ok res =>
        obtain ⟨rows', names', t'⟩ := res
        simp only [hrec, Except.ok.injEq, Prod.mk.injEq] at h
        obtain ⟨rfl, -, -⟩ := h
        rcases List.mem_cons.1 hsr with rfl | hsr
        · exact ⟨r, by simp, _, rfl⟩
        · obtain ⟨r', hr', c, hc⟩ := normalizeAll_rhs tol rs (total+1) (sl+1) su rows' names' t' hrec sr hsr
          exact ⟨r', List.mem_cons_of_mem _ hr', c, hc⟩
    · cases hrec : normalizeAll tol (total+1) sl (su+1) rs with
      | error e => simp [hrec] at h
      | ok res =>
        obtain ⟨rows', names', t'⟩ := res
        simp only [hrec, Except.ok.injEq, Prod.mk.injEq] at h
        obtain ⟨rfl, -, -⟩ := h
        rcases List.mem_cons.1 hsr with rfl | hsr
        · exact ⟨r, by simp, _, rfl⟩
        · obtain ⟨r', hr', c, hc⟩ := normalizeAll_rhs tol rs (total+1) sl (su+1) rows' names' t' hrec sr hsr
          exact ⟨r', List.mem_cons_of_mem _ hr', c, hc⟩
    · cases h

/-- **right-hand sides**: `≥ −tol`, and `≥ 0` when the sign test is exact. -/
theorem rhs_ge (t : K) (ht : 0 ≤ t) (lm : LinModel (Ext K)) (hW : WF lm) {sm : StdModel (Ext K)}
    (hs : standardize (Ext.fin t) lm = .ok sm) :
    ∀ r ∈ sm.rows, -t ≤ toK r.rhs ∧ (t = 0 → 0 ≤ toK r.rhs) := by
  obtain ⟨sm', srows, names, total, hstd, hnorm, -, hr, -, -, -⟩ := standardize_spec (Ext.fin t) lm hW
  rw [hs] at hstd; cases hstd
  intro r hr'
  rw [hr] at hr'
  simp only [List.mem_map] at hr'
  obtain ⟨sr, hsr, rfl⟩ := hr'
  obtain ⟨r0, hr0, c, rfl⟩ := normalizeAll_rhs _ _ _ _ _ _ _ _ hnorm sr hsr
  exact eqNew_rhs_ge t ht c r0.rhs (splitRows_ok lm hW r0 hr0).rhs

end StdShape
end Rooc
