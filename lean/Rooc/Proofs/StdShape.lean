/-
Right-hand sides of the standard form are `≥ 0` (exact sign test of `EqualityConstraint::new`).
-/
import Rooc.Proofs.StdMain
namespace Rooc
namespace StdShape
variable {K : Type} [Field K] [LinearOrder K] [IsStrictOrderedRing K] [FloorRing K]
open StdSem StdLayout StdSplit StdNorm StdBounds StdSpec StdMain Standardize

/-- `rhs < 0.0` at `Ext K` on finite numbers. -/
theorem lt_zero_fin (r : K) : Arith.lt (Ext.fin r : Ext K) Arith.zero = true ↔ r < 0 := by
  simp [Arith.lt, Arith.zero, Arith.ofInt, Ext.lt]

/-- the exact sign test makes every right-hand side non-negative. -/
theorem eqNew_rhs_nonneg (c : List (Ext K)) (rhs : Ext K) (hr : isFin rhs) : 0 ≤ toK (eqNew c rhs).rhs := by
  obtain ⟨r, rfl⟩ := isFin_iff.1 hr
  unfold eqNew
  by_cases h : Arith.lt (Ext.fin r : Ext K) Arith.zero = true
  · rw [if_pos h]
    have := (lt_zero_fin r).1 h
    simp only [Arith.neg, Ext.neg, toK_fin, ef_neg]
    linarith
  · rw [if_neg h]
    have : ¬ r < 0 := fun hc => h ((lt_zero_fin r).2 hc)
    simpa using not_lt.1 this

/-- every normalised row is `eqNew` of something with the right-hand side of an input row. -/
theorem normalizeAll_rhs : ∀ (rows : List (LinRow (Ext K))) (total sl su : Nat)
    (srows : List (StdRow (Ext K))) (names : List String) (total' : Nat),
    normalizeAll total sl su rows = .ok (srows, names, total') →
    ∀ sr ∈ srows, ∃ r ∈ rows, ∃ c, sr = eqNew c r.rhs
  | [], total, sl, su, srows, names, total', h, sr, hsr => by
    simp only [normalizeAll, Except.ok.injEq, Prod.mk.injEq] at h
    obtain ⟨rfl, -, -⟩ := h
    simp at hsr
  | r :: rs, total, sl, su, srows, names, total', h, sr, hsr => by
    simp only [normalizeAll] at h
    split at h
    · cases hrec : normalizeAll total sl su rs with
      | error e => simp [hrec] at h
      | ok res =>
        obtain ⟨rows', names', t'⟩ := res
        simp only [hrec, Except.ok.injEq, Prod.mk.injEq] at h
        obtain ⟨rfl, -, -⟩ := h
        rcases List.mem_cons.1 hsr with rfl | hsr
        · exact ⟨r, by simp, _, rfl⟩
        · obtain ⟨r', hr', c, hc⟩ := normalizeAll_rhs rs total sl su rows' names' t' hrec sr hsr
          exact ⟨r', List.mem_cons_of_mem _ hr', c, hc⟩
    · cases hrec : normalizeAll (total+1) (sl+1) su rs with
      | error e => simp [hrec] at h
      | ok res =>
        obtain ⟨rows', names', t'⟩ := res
        simp only [hrec, Except.ok.injEq, Prod.mk.injEq] at h
        obtain ⟨rfl, -, -⟩ := h
        rcases List.mem_cons.1 hsr with rfl | hsr
        · exact ⟨r, by simp, _, rfl⟩
        · obtain ⟨r', hr', c, hc⟩ := normalizeAll_rhs rs (total+1) (sl+1) su rows' names' t' hrec sr hsr
          exact ⟨r', List.mem_cons_of_mem _ hr', c, hc⟩
    · cases hrec : normalizeAll (total+1) sl (su+1) rs with
      | error e => simp [hrec] at h
      | ok res =>
        obtain ⟨rows', names', t'⟩ := res
        simp only [hrec, Except.ok.injEq, Prod.mk.injEq] at h
        obtain ⟨rfl, -, -⟩ := h
        rcases List.mem_cons.1 hsr with rfl | hsr
        · exact ⟨r, by simp, _, rfl⟩
        · obtain ⟨r', hr', c, hc⟩ := normalizeAll_rhs rs (total+1) sl (su+1) rows' names' t' hrec sr hsr
          exact ⟨r', List.mem_cons_of_mem _ hr', c, hc⟩
    · cases h

/-- **right-hand sides are non-negative** — unconditionally. -/
theorem rhs_nonneg (lm : LinModel (Ext K)) (hW : WF lm) {sm : StdModel (Ext K)}
    (hs : standardize lm = .ok sm) : ∀ r ∈ sm.rows, 0 ≤ toK r.rhs := by
  obtain ⟨sm', srows, names, total, hstd, hnorm, -, hr, -, -, -⟩ := standardize_spec lm hW
  rw [hs] at hstd; cases hstd
  intro r hr'
  rw [hr] at hr'
  simp only [List.mem_map] at hr'
  obtain ⟨sr, hsr, rfl⟩ := hr'
  obtain ⟨r0, hr0, c, rfl⟩ := normalizeAll_rhs _ _ _ _ _ _ _ hnorm sr hsr
  exact eqNew_rhs_nonneg c r0.rhs (splitRows_ok lm hW r0 hr0).rhs

end StdShape
end Rooc
