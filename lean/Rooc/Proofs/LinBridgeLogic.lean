/-
The bridge to the whole pipeline `Compile.linearize` for models with logic values and bare assertions
(Stage D): `DomRel` and `BoxEnforced` are discharged from C07 / C10 exactly as on the piecewise-linear fragment.
-/
import Rooc.Proofs.LinBridge
import Rooc.Proofs.LinD10

set_option linter.unusedSectionVars false
set_option linter.unusedSimpArgs false
set_option linter.unusedVariables false

namespace Rooc.LinP
open Rooc Rooc.Lin Rooc.Sem Rooc.BoundsProofs Rooc.BoundsSem Arith

variable {K : Type} [Field K] [LinearOrder K] [IsStrictOrderedRing K] [FloorRing K]

/-- a bare assertion is stored as `lhs = 1` (what the front end produces, and what bound inference reads). -/
def AssertShape (m : Model (Ext K)) : Prop :=
  ∀ c ∈ m.constraints, c.isAssert = true → c.cmp = .eq ∧ c.rhs = .num (Ext.fin 1)

theorem nfb_cons_assert (c0 : Constraint (Ext K)) (cs0 : List (Constraint (Ext K))) (h0 : c0.isAssert = true) :
    Compile.normalizedForBounds (c0 :: cs0) =
      (Compile.normalizedForBounds cs0).bind fun rest =>
        (normalizeExp c0.lhs).bind fun l => some ({ c0 with lhs := l } :: rest) := by
  simp only [Compile.normalizedForBounds, List.foldr_cons, h0]
  rfl

/-- the shape of `normalized_for_bounds`: comparisons have both sides normalised, assertions the left one. -/
theorem normalizedForBounds_memD : ∀ (cs0 cs : List (Constraint (Ext K))),
    Compile.normalizedForBounds cs0 = some cs →
    ∀ c' ∈ cs, ∃ c ∈ cs0, ∃ l, normalizeExp c.lhs = some l ∧
      ((c.isAssert = true ∧ c' = { c with lhs := l }) ∨
       (c.isAssert = false ∧ ∃ r, normalizeExp c.rhs = some r ∧ c' = { c with lhs := l, rhs := r }))
  | [], cs, h => by
    simp only [Compile.normalizedForBounds, List.foldr_nil, Option.some.injEq] at h
    subst h; intro c' hc'; cases hc'
  | c0 :: cs0, cs, h => by
    by_cases hA : c0.isAssert = true
    · rw [nfb_cons_assert c0 cs0 hA] at h
      cases hrest : Compile.normalizedForBounds cs0 with
      | none => simp [hrest] at h
      | some rest =>
        cases hl : normalizeExp c0.lhs with
        | none => simp [hrest, hl] at h
        | some l =>
          simp only [hrest, hl, Option.bind_some, Option.some.injEq] at h
          subst h
          intro c' hc'
          rcases List.mem_cons.mp hc' with rfl | hc'
          · exact ⟨c0, by simp, l, hl, Or.inl ⟨hA, rfl⟩⟩
          · obtain ⟨c, hc, rest'⟩ := normalizedForBounds_memD cs0 rest hrest c' hc'
            exact ⟨c, by simp [hc], rest'⟩
    · have hA' : c0.isAssert = false := by simpa using hA
      rw [nfb_cons c0 cs0 hA'] at h
      cases hrest : Compile.normalizedForBounds cs0 with
      | none => simp [hrest] at h
      | some rest =>
        cases hl : normalizeExp c0.lhs with
        | none => simp [hrest, hl] at h
        | some l =>
          cases hr : normalizeExp c0.rhs with
          | none => simp [hrest, hl, hr] at h
          | some r =>
            simp only [hrest, hl, hr, Option.bind_some, Option.some.injEq] at h
            subst h
            intro c' hc'
            rcases List.mem_cons.mp hc' with rfl | hc'
            · exact ⟨c0, by simp, l, hl, Or.inr ⟨hA', r, hr, rfl⟩⟩
            · obtain ⟨c, hc, rest'⟩ := normalizedForBounds_memD cs0 rest hrest c' hc'
              exact ⟨c, by simp [hc], rest'⟩

/-- **the published domain contains every source-feasible assignment** of a model with logic. -/
theorem sound_pipeline_logic {m : Model (Ext K)} {t : K} (ht : 0 ≤ t) (maxSteps : Nat)
    (hm : LogicModel m m.domain) (hsh : AssertShape m) (hok : DeclOK m.domain) {cs : List (Constraint (Ext K))}
    (hcs : Compile.normalizedForBounds m.constraints = some cs) (ρ : String → K) (hs : srcFeasible m ρ = true) :
    DomSat ρ (((Analyzer.analyze m.domain cs (.fin t) maxSteps).enforceable m.domain).applyToDomain m.domain) := by
  obtain ⟨hc, hd⟩ := (srcFeasible_iff m ρ).mp hs
  refine sound_pipeline_core ht maxSteps hok ρ hd ?_
  set ρ' := fixUnused ρ m.domain with hρ'
  have hag : ∀ x, inScope m.domain x → ρ' x = ρ x := fun x hx => fixUnused_used hx
  have hd' : DomSat ρ' m.domain := by
    intro dv hdv hu
    exact inDomain_of_InDomain (fixUnused_inDomain hok hd dv hdv)
  intro c' hc'
  obtain ⟨c, hcm, l, hl, hcase⟩ := normalizedForBounds_memD _ _ hcs c' hc'
  have hsc := hm.cons c hcm
  have hevl := hsc.lhs.normalize_eval hl
  have hcH : constraintHolds ρ' c = true := by
    rw [constraintHolds_congr (ρ := ρ) (fun x hx => hag x (hx.elim (hsc.lhs.vars x) (hsc.rhs.vars x)))]
    exact hc c hcm
  rcases hcase with ⟨hA, rfl⟩ | ⟨hA, r, hr, rfl⟩
  · obtain ⟨hcmp, hrhs⟩ := hsh c hcm hA
    have h1 : eval ρ' c.lhs = some 1 := (constraintHolds_assert hA ρ').mp hcH
    refine ⟨1, 1, by rw [hevl ρ' hd']; exact h1, by simp only [hrhs]; exact eval_num_fin ρ' 1, ?_⟩
    simp only [hcmp, BoundsSem.cmpHolds]
  · have hevr := hsc.rhs.normalize_eval hr
    -- a comparison that holds has two defined sides
    obtain ⟨a, b, ha, hb, hcmp⟩ : ∃ a b, eval ρ' c.lhs = some a ∧ eval ρ' c.rhs = some b ∧ cmpK c.cmp a b = true := by
      have := hcH
      simp only [constraintHolds, hA, Bool.false_eq_true, if_false] at this
      cases ha : eval ρ' c.lhs with
      | none => simp [ha] at this
      | some a =>
        cases hb : eval ρ' c.rhs with
        | none => simp [ha, hb] at this
        | some b => exact ⟨a, b, rfl, rfl, by simpa [ha, hb] using this⟩
    exact ⟨a, b, by rw [hevl ρ' hd']; exact ha, by rw [hevr ρ' hd']; exact hb, cmpHolds_of_cmpK hcmp⟩

theorem GoodE.toPublished {m : Model (Ext K)} {an : Analyzer (Ext K)} {e : Exp (Ext K)}
    (htight : ∀ ρ : String → K, DomSat ρ (an.applyToDomain m.domain) → DomSat ρ m.domain)
    (h : GoodE m.domain e) : GoodE (an.applyToDomain m.domain) e :=
  ⟨fun x hx => (inScope_applyToDomain an m.domain x).mpr (h.vars x hx), h.fin,
    fun ρ hd => h.nc ρ (htight ρ hd), fun ρ hd => h.defd ρ (htight ρ hd)⟩

theorem GoodS.toPublished {m : Model (Ext K)} {an : Analyzer (Ext K)} {e : Exp (Ext K)}
    (htight : ∀ ρ : String → K, DomSat ρ (an.applyToDomain m.domain) → DomSat ρ m.domain)
    (h : GoodS m.domain e) : GoodS (an.applyToDomain m.domain) e :=
  ⟨fun x hx => (inScope_applyToDomain an m.domain x).mpr (h.vars x hx), h.fin,
    fun ρ hd => h.nc ρ (htight ρ hd)⟩

theorem logicModel_applyToDomain {m : Model (Ext K)} (an : Analyzer (Ext K))
    (htight : ∀ ρ : String → K, DomSat ρ (an.applyToDomain m.domain) → DomSat ρ m.domain)
    (hm : LogicModel m m.domain) : LogicModel m (an.applyToDomain m.domain) :=
  ⟨hm.obj.toPublished htight, fun c hc => ⟨(hm.cons c hc).lhs.toPublished htight,
    (hm.cons c hc).rhs.toPublished htight⟩⟩

/-- `DomRel` and `BoxEnforced` for the `b`, `d` the pipeline computes, on a model with logic. -/
theorem pipeline_hyps_logic {m : Model (Ext K)} {t : K} (ht : 0 ≤ t) (maxSteps : Nat)
    (hm : LogicModel m m.domain) (hsh : AssertShape m) (hok : DeclOK m.domain) {an : Analyzer (Ext K)}
    (han : pipelineAnalyzer m (.fin t) maxSteps = some an) (ht1 : t < 1 ∨ NoIntVars m.domain) :
    DomRel m (an.applyToDomain m.domain) ∧
    BoxEnforced (Compile.toLinBounds an.variableBounds) (an.applyToDomain m.domain) := by
  unfold pipelineAnalyzer at han
  cases hcs : Compile.normalizedForBounds m.constraints with
  | none => simp [hcs] at han
  | some cs =>
    simp only [hcs, Option.map_some, Option.some.injEq] at han
    subst han
    have hA := analyzer_anOK hok cs ht ht1 maxSteps
    have hint := intRangesInBox_pipeline hok cs ht ht1 maxSteps
    refine ⟨⟨?_, tight_pipeline hA hint, sound_pipeline_logic ht maxSteps hm hsh hok hcs, ?_⟩,
      boxEnforced_pipeline hA hint hok.nodup⟩
    · have : (Analyzer.applyToDomain ((Analyzer.analyze m.domain cs (.fin t) maxSteps).enforceable m.domain)
          m.domain).map (·.name) = m.domain.map (·.name) := by
        simp only [Analyzer.applyToDomain, List.map_map]
        exact List.map_congr_left (fun d _ => applyToVar_name _ d)
      rw [this]; exact hok.nodup
    · intro dv hdv hu
      exact (inScope_applyToDomain _ m.domain dv.name).mpr ⟨dv, hdv, rfl, hu⟩

/-- the objective of a model that compiles has a value at every source-feasible assignment (definedness is a
consequence of the successful compilation, not a hypothesis). -/
theorem compile_obj_defined {m : Model (Ext K)} {t : K} (ht : 0 ≤ t) {maxSteps : Nat} {lm : LinModel (Ext K)}
    (h : Compile.linearize m (.fin t) maxSteps = .ok lm)
    (hm : LogicModel m m.domain) (hsh : AssertShape m) (hok : DeclOK m.domain)
    (ht1 : t < 1 ∨ NoIntVars m.domain) (ρ : String → K) (hs : srcFeasible m ρ = true) :
    ∃ v, eval ρ m.objective = some v := by
  obtain ⟨_, an, han, hlin⟩ := (compile_ok_iff m _ maxSteps lm).mp h
  obtain ⟨hdom, hbox⟩ := pipeline_hyps_logic ht maxSteps hm hsh hok han ht1
  exact (logicModel_applyToDomain an hdom.tight hm).obj_defined hlin ρ (hdom.sound ρ hs)

theorem compile_feasible_iff_logic {m : Model (Ext K)} {t : K} (ht : 0 ≤ t) {maxSteps : Nat} {lm : LinModel (Ext K)}
    (h : Compile.linearize m (.fin t) maxSteps = .ok lm)
    (hm : LogicModel m m.domain) (hsh : AssertShape m) (hok : DeclOK m.domain)
    (ht1 : t < 1 ∨ NoIntVars m.domain) (ρ : String → K) :
    srcFeasible m ρ = true ↔
      ∃ ρ' : String → K, (∀ x, inScope m.domain x → ρ' x = ρ x) ∧ linFeasible lm ρ' = true := by
  obtain ⟨_, an, han, hlin⟩ := (compile_ok_iff m _ maxSteps lm).mp h
  obtain ⟨hdom, hbox⟩ := pipeline_hyps_logic ht maxSteps hm hsh hok han ht1
  rw [logic_feasible_iff (logicModel_applyToDomain an hdom.tight hm) hdom hbox hlin ρ]
  constructor
  · rintro ⟨ρ', hag, hf⟩
    exact ⟨ρ', fun x hx => hag x ((inScope_applyToDomain an m.domain x).mpr hx), hf⟩
  · rintro ⟨ρ', hag, hf⟩
    exact ⟨ρ', fun x hx => hag x ((inScope_applyToDomain an m.domain x).mp hx), hf⟩

theorem compile_objective_logic {m : Model (Ext K)} {t : K} (ht : 0 ≤ t) {maxSteps : Nat} {lm : LinModel (Ext K)}
    (h : Compile.linearize m (.fin t) maxSteps = .ok lm)
    (hm : LogicModel m m.domain) (hsh : AssertShape m) (hok : DeclOK m.domain)
    (ht1 : t < 1 ∨ NoIntVars m.domain)
    (ρ : String → K) (hs : srcFeasible m ρ = true) (v : K) (hv : eval ρ m.objective = some v) :
    (∀ ρ' : String → K, (∀ x, inScope m.domain x → ρ' x = ρ x) → linFeasible lm ρ' = true →
        ∃ w, linObjective lm ρ' = some w ∧ rel (objReq m) w v) ∧
    (∃ ρ' : String → K, (∀ x, inScope m.domain x → ρ' x = ρ x) ∧ linFeasible lm ρ' = true ∧
        linObjective lm ρ' = some v) := by
  obtain ⟨_, an, han, hlin⟩ := (compile_ok_iff m _ maxSteps lm).mp h
  obtain ⟨hdom, hbox⟩ := pipeline_hyps_logic ht maxSteps hm hsh hok han ht1
  obtain ⟨h1, ρ', hag, hf, ho⟩ :=
    logic_objective (logicModel_applyToDomain an hdom.tight hm) hdom hbox hlin ρ hs v hv
  refine ⟨fun ρ'' hag'' hf'' => h1 ρ'' (fun x hx => hag'' x ((inScope_applyToDomain an m.domain x).mp hx)) hf'',
    ρ', fun x hx => hag x ((inScope_applyToDomain an m.domain x).mpr hx), hf, ho⟩

end Rooc.LinP
