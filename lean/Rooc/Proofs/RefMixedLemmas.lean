/-
Helper lemmas for C03, mixed models (`Rooc/RefMixed.lean`): substitution = override, the residual model, what the
discrete enumeration fixes, and the correctness of the combination under a contract on the delegated sub-solver.
-/
import Rooc.RefMixed
import Rooc.Proofs.RefLemmas
set_option linter.unusedSectionVars false
namespace Rooc
namespace Ref
open Sem Exp

deriving instance DecidableEq for SubVerdict
deriving instance DecidableEq for MixedVerdict

section generic
variable {K : Type} [ExactField K]

theorem over_apply (a : List (String × K)) (ρ : String → K) (s : String) :
    over a ρ s = if bound a s = true then lookup a s else ρ s := rfl

mutual
/-- substitution is evaluation under the overridden assignment. -/
theorem eval_subst (a : List (String × K)) (ρ : String → K) :
    (e : Exp (Ext K)) → eval ρ (substExp a e) = eval (over a ρ) e
  | .num x => by cases x <;> simp [substExp, eval]
  | .var s => by
    simp only [substExp, over_apply]
    by_cases h : bound a s = true <;> simp [h, eval, over_apply]
  | .abs e => by simp [substExp, eval, eval_subst a ρ e]
  | .min es => by simp [substExp, eval, evalList_subst a ρ es]
  | .max es => by simp [substExp, eval, evalList_subst a ρ es]
  | .and es => by simp [substExp, eval, evalList_subst a ρ es]
  | .or es => by simp [substExp, eval, evalList_subst a ρ es]
  | .not e => by simp [substExp, eval, eval_subst a ρ e]
  | .xor x y => by simp [substExp, eval, eval_subst a ρ x, eval_subst a ρ y]
  | .implies x y => by simp [substExp, eval, eval_subst a ρ x, eval_subst a ρ y]
  | .iff x y => by simp [substExp, eval, eval_subst a ρ x, eval_subst a ρ y]
  | .bin _ x y => by simp [substExp, eval, eval_subst a ρ x, eval_subst a ρ y]
  | .un .neg e => by simp [substExp, eval, eval_subst a ρ e]
  | .un .not e => by simp [substExp, eval, eval_subst a ρ e]
theorem evalList_subst (a : List (String × K)) (ρ : String → K) :
    (es : List (Exp (Ext K))) → evalList ρ (substList a es) = evalList (over a ρ) es
  | [] => by simp [substList, evalList]
  | e :: es => by simp [substList, evalList, eval_subst a ρ e, evalList_subst a ρ es]
end

/-- a mixed witness `discrete ++ continuous` reads as the continuous assignment overridden by the discrete one. -/
theorem lookup_append (a w : List (String × K)) : lookup (a ++ w) = over a (lookup w) := by
  funext s
  simp only [over_apply, lookup, bound, List.find?_append]
  induction a with
  | nil => simp
  | cons p a ih =>
    by_cases hp : (p.1 == s) = true
    · simp [List.find?_cons, hp]
    · have hp' : (p.1 == s) = false := by simpa using hp
      simp only [List.find?_cons, hp', List.any_cons, Bool.false_or]
      exact ih

theorem constraintHolds_subst (a : List (String × K)) (ρ : String → K) (c : Constraint (Ext K)) :
    constraintHolds ρ { c with lhs := substExp a c.lhs, rhs := substExp a c.rhs } =
      constraintHolds (over a ρ) c := by
  simp only [constraintHolds, eval_subst]

/-- a discrete assignment `a` FIXES the model's enumerated declarations correctly: it binds exactly their names and gives
each a value of its domain. -/
structure Fixes (a : List (String × K)) (m : Model (Ext K)) : Prop where
  bound_enum : ∀ d ∈ m.domain, enumerated d = true → bound a d.name = true ∧ inDomain (lookup a d.name) d.ty = true
  free_rest : ∀ d ∈ m.domain, enumerated d = false → d.usage ≠ 0 → bound a d.name = false

/-- the residual model at `ρ` is the model at `ρ` overridden by the discrete assignment. -/
theorem srcFeasible_residual {a : List (String × K)} {m : Model (Ext K)} (hfix : Fixes a m) (ρ : String → K) :
    srcFeasible (residual a m) ρ = srcFeasible m (over a ρ) := by
  simp only [srcFeasible, residual, List.all_map]
  congr 1
  · apply all_congr_mem
    intro c _
    exact constraintHolds_subst a ρ c
  · rw [Bool.eq_iff_iff]
    simp only [List.all_eq_true, List.mem_filter, Bool.not_eq_true', and_imp]
    constructor
    · intro h d hd
      by_cases he : enumerated d = true
      · simp [over_apply, (hfix.bound_enum d hd he).1, (hfix.bound_enum d hd he).2]
      · have he' : enumerated d = false := by simpa using he
        by_cases hu : d.usage = 0
        · simp [hu]
        · simpa [over_apply, hfix.free_rest d hd he' hu] using h d hd he'
    · intro h d hd he
      by_cases hu : d.usage = 0
      · simp [hu]
      · simpa [over_apply, hfix.free_rest d hd he hu] using h d hd

theorem objective_residual (a : List (String × K)) (m : Model (Ext K)) (ρ : String → K) :
    eval ρ (residual a m).objective = eval (over a ρ) m.objective := eval_subst a ρ m.objective

end generic

section field
variable {K : Type} [Field K] [LinearOrder K] [IsStrictOrderedRing K] [FloorRing K]

theorem bound_cons (n : String) (v : K) (a : List (String × K)) (s : String) :
    bound ((n, v) :: a) s = ((n == s) || bound a s) := by simp [bound]

/-- every enumerated discrete assignment fixes the model (declared names pairwise distinct). -/
theorem discreteAssignments_fix : ∀ (ds : List (DomVar (Ext K))), (ds.map (·.name)).Nodup →
    ∀ a ∈ discreteAssignments ds,
      (∀ s, bound a s = true → ∃ d ∈ ds, enumerated d = true ∧ d.name = s) ∧
      (∀ d ∈ ds, enumerated d = true → bound a d.name = true ∧ inDomain (lookup a d.name) d.ty = true)
  | [], _, a, ha => by
    simp only [discreteAssignments, List.mem_singleton] at ha
    subst ha
    simp [bound]
  | d :: ds, hnd, a, ha => by
    simp only [List.map_cons, List.nodup_cons] at hnd
    have ih := discreteAssignments_fix ds hnd.2
    unfold discreteAssignments at ha
    by_cases hu : d.usage = 0
    · simp only [hu, beq_self_eq_true, if_true] at ha
      obtain ⟨h1, h2⟩ := ih a ha
      refine ⟨fun s hs => ?_, fun d' hd' he => ?_⟩
      · obtain ⟨d', hd', he, hn⟩ := h1 s hs; exact ⟨d', by simp [hd'], he, hn⟩
      · rcases List.mem_cons.1 hd' with rfl | hd'
        · simp [enumerated, hu] at he
        · exact h2 d' hd' he
    · have hu' : (d.usage == 0) = false := by simpa using hu
      simp only [hu', Bool.false_eq_true, if_false] at ha
      cases hv : domainValues d.ty with
      | none =>
        simp only [hv] at ha
        obtain ⟨h1, h2⟩ := ih a ha
        refine ⟨fun s hs => ?_, fun d' hd' he => ?_⟩
        · obtain ⟨d', hd', he, hn⟩ := h1 s hs; exact ⟨d', by simp [hd'], he, hn⟩
        · rcases List.mem_cons.1 hd' with rfl | hd'
          · simp [enumerated, hv] at he
          · exact h2 d' hd' he
      | some vs =>
        simp only [hv, List.mem_flatMap, List.mem_map] at ha
        obtain ⟨a', ha', v, hvmem, rfl⟩ := ha
        obtain ⟨h1, h2⟩ := ih a' ha'
        have hde : enumerated d = true := by simp [enumerated, hu, hv]
        refine ⟨fun s hs => ?_, fun d' hd' he => ?_⟩
        · rw [bound_cons, Bool.or_eq_true] at hs
          rcases hs with hs | hs
          · exact ⟨d, by simp, hde, by simpa using hs⟩
          · obtain ⟨d', hd', he, hn⟩ := h1 s hs; exact ⟨d', by simp [hd'], he, hn⟩
        · rcases List.mem_cons.1 hd' with rfl | hd'
          · refine ⟨by simp [bound_cons], ?_⟩
            rw [lookup_cons_self]; exact domainValues_sound hv hvmem
          · have hne : d.name ≠ d'.name := fun he' => hnd.1 (he' ▸ List.mem_map.2 ⟨d', hd', rfl⟩)
            obtain ⟨hb, hi⟩ := h2 d' hd' he
            refine ⟨by simp [bound_cons, hb], ?_⟩
            rw [lookup_cons_ne _ _ hne]; exact hi

theorem eq_of_nodup_map' {β γ : Type} (f : β → γ) : ∀ {l : List β}, (l.map f).Nodup → ∀ {a b : β}, a ∈ l → b ∈ l →
    f a = f b → a = b
  | [], _, _, _, ha, _, _ => by cases ha
  | x :: l, hnd, a, b, ha, hb, he => by
    simp only [List.map_cons, List.nodup_cons] at hnd
    rcases List.mem_cons.1 ha with rfl | ha' <;> rcases List.mem_cons.1 hb with rfl | hb'
    · rfl
    · exact absurd (he ▸ List.mem_map.2 ⟨b, hb', rfl⟩) hnd.1
    · exact absurd (he ▸ List.mem_map.2 ⟨a, ha', rfl⟩) hnd.1
    · exact eq_of_nodup_map' f hnd.2 ha' hb' he

theorem discreteAssignments_fixes {m : Model (Ext K)} (hnd : (m.domain.map (·.name)).Nodup)
    {a : List (String × K)} (ha : a ∈ discreteAssignments m.domain) : Fixes a m := by
  obtain ⟨h1, h2⟩ := discreteAssignments_fix m.domain hnd a ha
  refine ⟨h2, fun d hd he _ => ?_⟩
  cases hb : bound a d.name with
  | false => rfl
  | true =>
    obtain ⟨d', hd', he', hn⟩ := h1 d.name hb
    have : d' = d := eq_of_nodup_map' (·.name) hnd hd' hd hn
    subst this
    rw [he] at he'; cases he'

/-- COMPLETENESS of the discrete enumeration: an assignment that puts the enumerated declarations in their domains is
left unchanged by overriding it with one of the enumerated discrete assignments. -/
theorem discreteAssignments_complete : ∀ (ds : List (DomVar (Ext K))) (ρ : String → K),
    (∀ d ∈ ds, enumerated d = true → inDomain (ρ d.name) d.ty = true) →
    ∃ a ∈ discreteAssignments ds, over a ρ = ρ
  | [], ρ, _ => ⟨[], by simp [discreteAssignments], by funext s; simp [over_apply, bound]⟩
  | d :: ds, ρ, hρ => by
    obtain ⟨a, ha, hov⟩ := discreteAssignments_complete ds ρ (fun d' hd' => hρ d' (by simp [hd']))
    unfold discreteAssignments
    by_cases hu : d.usage = 0
    · exact ⟨a, by simpa [hu] using ha, hov⟩
    · have hu' : (d.usage == 0) = false := by simpa using hu
      cases hv : domainValues d.ty with
      | none => exact ⟨a, by simpa [hu', hv] using ha, hov⟩
      | some vs =>
        have hde : enumerated d = true := by simp [enumerated, hu, hv]
        have hmem : ρ d.name ∈ vs := domainValues_complete hv (hρ d (by simp) hde)
        refine ⟨(d.name, ρ d.name) :: a, ?_, ?_⟩
        · simp only [hu', Bool.false_eq_true, if_false, hv, List.mem_flatMap, List.mem_map]
          exact ⟨a, ha, ρ d.name, hmem, rfl⟩
        · funext s
          have hs := congrFun hov s
          simp only [over_apply, bound_cons] at hs ⊢
          by_cases hn : d.name = s
          · subst hn; simp [lookup_cons_self]
          · have hn' : (d.name == s) = false := by simpa using hn
            rw [hn', Bool.false_or, lookup_cons_ne _ _ hn]
            exact hs

/-- an assignment satisfying the model puts the enumerated declarations in their domains. -/
theorem enumerated_inDomain_of_feasible {m : Model (Ext K)} {ρ : String → K} (hf : srcFeasible m ρ = true) :
    ∀ d ∈ m.domain, enumerated d = true → inDomain (ρ d.name) d.ty = true := by
  intro d hd he
  simp only [srcFeasible, Bool.and_eq_true, List.all_eq_true] at hf
  have := hf.2 d hd
  have hu : (d.usage == 0) = false := by
    simp only [enumerated, Bool.and_eq_true, bne_iff_ne, ne_eq] at he
    simpa using he.1
  simpa [hu] using this

/-- if neither beats the next, the first does not beat the last (`≤` is transitive). -/
theorem better_neg_trans (o : OptType) {a b c : K} (h1 : better o a b = false) (h2 : better o b c = false) :
    better o a c = false := by
  cases o <;> simp only [better, ef_lt, decide_eq_false_iff_not, not_lt] at * <;> first | exact le_trans h2 h1 | exact le_trans h1 h2

/-- THE CONTRACT on the delegated sub-solver, for one residual model `m'` and its answer `r`: every verdict it gives
is right (`unknown` promises nothing). -/
structure SubOK (m' : Model (Ext K)) (r : SubVerdict K) : Prop where
  infeasible : r = .infeasible → ∀ ρ : String → K, srcFeasible m' ρ = false
  optimal : ∀ v w, r = .optimal v w →
    srcFeasible m' (lookup w) = true ∧ eval (lookup w) m'.objective = some v ∧
    ∀ ρ : String → K, srcFeasible m' ρ = true → ∀ v', eval ρ m'.objective = some v' → better m'.optType v' v = false
  unbounded : r = .unbounded →
    ∀ M : K, ∃ (ρ : String → K) (v : K), srcFeasible m' ρ = true ∧ eval ρ m'.objective = some v ∧
      better m'.optType v M = true

/-- when the declarations are enumerable, every used declaration is an enumerated one. -/
theorem enumerated_of_assignments : ∀ (ds : List (DomVar (Ext K))) (asg : List (List (String × K))),
    assignments ds = some asg → ∀ d ∈ ds, d.usage ≠ 0 → enumerated d = true
  | [], _, _, d, hd, _ => by cases hd
  | d0 :: ds, asg, h, d, hd, hu => by
    unfold assignments at h
    by_cases hu0 : d0.usage = 0
    · simp only [hu0, beq_self_eq_true, if_true] at h
      rcases List.mem_cons.1 hd with rfl | hd'
      · exact absurd hu0 hu
      · exact enumerated_of_assignments ds asg h d hd' hu
    · have hu0' : (d0.usage == 0) = false := by simpa using hu0
      simp only [hu0', Bool.false_eq_true, if_false] at h
      cases hv : domainValues d0.ty with
      | none => simp [hv] at h
      | some vs =>
        cases hr : assignments ds with
        | none => simp [hv, hr] at h
        | some rest =>
          rcases List.mem_cons.1 hd with rfl | hd'
          · simp [enumerated, hu0, hv]
          · exact enumerated_of_assignments ds rest hr d hd' hu

/-- **the contract is met by plain evaluation when nothing continuous is left**: for a closed model whose used
declarations are all enumerable, every residual is variable-free — its feasibility and objective do not depend on the
assignment — so `subConst` (evaluate once) satisfies `SubOK`.  In particular `SubOK` is satisfiable for every residual of
every discrete model, and `refSolveMixed subConst` decides discrete models on its own. -/
theorem subConst_ok {m : Model (Ext K)} {asg : List (List (String × K))} (hasg : assignments m.domain = some asg)
    (hc : Closed m = true) (hnd : (m.domain.map (·.name)).Nodup) {a : List (String × K)}
    (ha : a ∈ discreteAssignments m.domain) : SubOK (residual a m) (subConst (residual a m)) := by
  have hfix := discreteAssignments_fixes hnd ha
  -- feasibility and objective of the residual are the model's at `lookup a`, whatever `ρ`
  have hagree : ∀ ρ : String → K, AgreeOn m.domain (over a ρ) (lookup a) := by
    intro ρ d hd hu
    have he := enumerated_of_assignments m.domain asg hasg d hd (by omega)
    simp [over_apply, (hfix.bound_enum d hd he).1]
  have hfeas : ∀ ρ : String → K, srcFeasible (residual a m) ρ = srcFeasible m (lookup a) := fun ρ => by
    rw [srcFeasible_residual hfix ρ, srcFeasible_congr hc (hagree ρ)]
  have hobj : ∀ ρ : String → K, eval ρ (residual a m).objective = eval (lookup a) m.objective := fun ρ => by
    rw [objective_residual, objective_congr hc (hagree ρ)]
  unfold subConst
  rw [hfeas, hobj]
  by_cases hf : srcFeasible m (lookup a) = true
  · simp only [hf, if_true]
    cases hv : eval (lookup a) m.objective with
    | none => exact ⟨(fun h => by cases h), (fun v w h => by cases h), (fun h => by cases h)⟩
    | some v =>
      refine ⟨(fun h => by cases h), (fun v' w' h => ?_), (fun h => by cases h)⟩
      cases h
      refine ⟨by rw [hfeas]; exact hf, by rw [hobj]; exact hv, fun ρ _ v' hv' => ?_⟩
      rw [hobj, hv] at hv'; cases hv'
      exact better_irrefl _ _
  · simp only [hf, Bool.false_eq_true, if_false]
    refine ⟨(fun _ ρ => by rw [hfeas]; simpa using hf), (fun v w h => by cases h), (fun h => by cases h)⟩

/-- the (value, witness) pairs `refSolveMixed` runs `best` on. -/
noncomputable def mixedVals (sub : Model (Ext K) → SubVerdict K) (m : Model (Ext K)) : List (K × List (String × K)) :=
  ((discreteAssignments m.domain).map fun a => (a, sub (residual a m))).filterMap fun r =>
    match r.2 with
    | .optimal v w => some (v, r.1 ++ w)
    | _ => none

theorem mem_mixedVals {sub : Model (Ext K) → SubVerdict K} {m : Model (Ext K)} {v : K} {w : List (String × K)} :
    (v, w) ∈ mixedVals sub m ↔
      ∃ a ∈ discreteAssignments m.domain, ∃ w', sub (residual a m) = .optimal v w' ∧ w = a ++ w' := by
  simp only [mixedVals, List.mem_filterMap, List.mem_map]
  constructor
  · rintro ⟨r, ⟨a, ha, rfl⟩, hr⟩
    cases hs : sub (residual a m) with
    | optimal v' w' =>
      simp only [hs, Option.some.injEq, Prod.mk.injEq] at hr
      exact ⟨a, ha, w', by rw [hs, hr.1], hr.2.symm⟩
    | infeasible => simp [hs] at hr
    | unbounded => simp [hs] at hr
    | unknown => simp [hs] at hr
  · rintro ⟨a, ha, w', hs, rfl⟩
    exact ⟨(a, sub (residual a m)), ⟨a, ha, rfl⟩, by simp [hs]⟩

/-- the outcomes of `refSolveMixed`, each with the facts that lead to it. -/
inductive MixedOutcome (sub : Model (Ext K) → SubVerdict K) (m : Model (Ext K)) : MixedVerdict K → Prop
  | unknown (a) : a ∈ discreteAssignments m.domain → sub (residual a m) = .unknown → MixedOutcome sub m .unknown
  | unbounded (a) : (∀ a' ∈ discreteAssignments m.domain, sub (residual a' m) ≠ .unknown) →
      a ∈ discreteAssignments m.domain → sub (residual a m) = .unbounded → MixedOutcome sub m .unbounded
  | optimal (v w) : (∀ a' ∈ discreteAssignments m.domain, sub (residual a' m) ≠ .unknown) →
      (∀ a' ∈ discreteAssignments m.domain, sub (residual a' m) ≠ .unbounded) →
      best m.optType (mixedVals sub m) = some (v, w) → MixedOutcome sub m (.optimal v w)
  | infeasible : (∀ a' ∈ discreteAssignments m.domain, sub (residual a' m) = .infeasible) →
      MixedOutcome sub m .infeasible

theorem refSolveMixed_outcome (sub : Model (Ext K) → SubVerdict K) (m : Model (Ext K)) :
    MixedOutcome sub m (refSolveMixed sub m) := by
  unfold refSolveMixed
  simp only
  split
  · next h =>
    simp only [List.any_eq_true, List.mem_map] at h
    obtain ⟨r, ⟨a, ha, rfl⟩, hr⟩ := h
    refine .unknown a ha ?_
    cases hs : sub (residual a m) <;> simp_all [SubVerdict.isUnknown]
  · next hnu =>
    have hnu' : ∀ a' ∈ discreteAssignments m.domain, sub (residual a' m) ≠ .unknown := by
      intro a' ha' hs
      apply hnu
      simp only [List.any_eq_true, List.mem_map]
      exact ⟨(a', sub (residual a' m)), ⟨a', ha', rfl⟩, by simp [hs, SubVerdict.isUnknown]⟩
    split
    · next h =>
      simp only [List.any_eq_true, List.mem_map] at h
      obtain ⟨r, ⟨a, ha, rfl⟩, hr⟩ := h
      refine .unbounded a hnu' ha ?_
      cases hs : sub (residual a m) <;> simp_all [SubVerdict.isUnbounded]
    · next hnb =>
      have hnb' : ∀ a' ∈ discreteAssignments m.domain, sub (residual a' m) ≠ .unbounded := by
        intro a' ha' hs
        apply hnb
        simp only [List.any_eq_true, List.mem_map]
        exact ⟨(a', sub (residual a' m)), ⟨a', ha', rfl⟩, by simp [hs, SubVerdict.isUnbounded]⟩
      change MixedOutcome sub m (match best m.optType (mixedVals sub m) with
        | some (v, w) => .optimal v w | none => .infeasible)
      split
      · next v w hb => exact .optimal v w hnu' hnb' hb
      · next hb =>
        rw [best_eq_none] at hb
        refine .infeasible fun a' ha' => ?_
        cases hs : sub (residual a' m) with
        | infeasible => rfl
        | unknown => exact absurd hs (hnu' a' ha')
        | unbounded => exact absurd hs (hnb' a' ha')
        | optimal v w =>
          have : (v, a' ++ w) ∈ mixedVals sub m := mem_mixedVals.2 ⟨a', ha', w, hs, rfl⟩
          rw [hb] at this; cases this

end field
end Ref
end Rooc
