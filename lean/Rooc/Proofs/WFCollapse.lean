/-
C08 helper — the up-front collapse check (`check_collapsing_logic_operands`, rooc 81a4b76 / e35561f) preserves the
state invariant of the lowering, so its errors obey the same contract: a `MissingFiniteBounds` error raised while the
check lowers a collapsed and/or node carries exactly `varsWithoutFiniteBounds e bm` for the expression being lowered
and a bounds map that agrees with the scratch one on every declared variable.
-/
import Rooc.Proofs.WFFinal

set_option linter.unusedSectionVars false
set_option linter.unusedVariables false
set_option linter.unusedTactic false
set_option linter.unreachableTactic false

namespace Rooc
namespace Lin
open Arith
variable {α : Type} [Arith α] [BCfg α] {β γ : Type}
variable {N : String → Prop} {p : α → Bool}

section collapse
variable (hN : N "") (hp : Closed p) (hs : SimpOK p) (hB : BTrack p)
include hN hp hs hB

theorem collapseNode_sp {e : Exp α} (he : allLits p e = true) (s : St α) :
    SpAt (Rel N p) (Inv N p) s (collapseNode e) (fun _ => True) := by
  have hR := rel_isPre (α := α) N p
  unfold collapseNode
  dsimp only
  apply SpAt.get_bind
  intro _
  split
  · exact SpAt.pure hR trivial
  · refine SpAt.bind hR ((linExp_block hN hp hB).1 _ _ (hs.simp e he) s) ?_
    intro c _ s1
    apply SpAt.get_bind
    intro _
    split
    · exact SpAt.fail hR trivial
    · exact SpAt.pure hR trivial

theorem collapseCheck_block :
    (∀ e : Exp α, allLits p e = true → ∀ s, SpAt (Rel N p) (Inv N p) s (collapseCheck e) (fun _ => True)) ∧
    (∀ es : List (Exp α), allLitsL p es = true →
      ∀ s, SpAt (Rel N p) (Inv N p) s (collapseCheckList es) (fun _ => True)) := by
  have hR := rel_isPre (α := α) N p
  apply collapseCheck.mutual_induct
    (motive_1 := fun e => allLits p e = true → ∀ s, SpAt (Rel N p) (Inv N p) s (collapseCheck e) (fun _ => True))
    (motive_2 := fun es => allLitsL p es = true →
      ∀ s, SpAt (Rel N p) (Inv N p) s (collapseCheckList es) (fun _ => True))
  all_goals
    (intros
     (first | simp only [collapseCheck] | simp only [collapseCheckList] | skip)
     (try simp_all only [allLits, allLitsL, Bool.and_eq_true, forall_const])
     repeat' (first
       | assumption
       | exact SpAt.pure hR trivial
       | (apply collapseNode_sp hN hp hs hB; simp_all [allLits])
       | (apply SpAt.bind hR; rotate_left; intro _ _ _; rotate_right)
       | (apply_assumption)
       | split))

theorem collapseCheckConstraints_sp : ∀ (cs : List (Constraint α)),
    (∀ c ∈ cs, allLits p c.lhs = true ∧ allLits p c.rhs = true) →
    ∀ s, SpAt (Rel N p) (Inv N p) s (collapseCheckConstraints cs) (fun _ => True)
  | [], _, s => by unfold collapseCheckConstraints; exact SpAt.pure (rel_isPre _ _) trivial
  | c :: cs, h, s => by
    have hR := rel_isPre (α := α) N p
    have hc := h c (by simp)
    unfold collapseCheckConstraints
    refine SpAt.bind hR ((collapseCheck_block hN hp hs hB).1 _ hc.1 s) ?_
    intro _ _ s1
    have ih := collapseCheckConstraints_sp cs (fun c' hc' => h c' (by simp [hc']))
    dsimp only
    split
    · refine SpAt.bind hR ((collapseCheck_block hN hp hs hB).1 _ hc.2 s1) ?_
      intro _ _ s2
      exact ih s2
    · exact ih s1

theorem collapseCheckAll_sp {m : Model α} (hobj : allLits p m.objective = true)
    (hcs : ∀ c ∈ m.constraints, allLits p c.lhs = true ∧ allLits p c.rhs = true) (s : St α) :
    SpAt (Rel N p) (Inv N p) s (collapseCheckAll m) (fun _ => True) := by
  unfold collapseCheckAll
  refine SpAt.bind (rel_isPre _ _) ((collapseCheck_block hN hp hs hB).1 _ hobj s) ?_
  intro _ _ s1
  exact collapseCheckConstraints_sp hN hp hs hB _ hcs s1

end collapse

/-- a `MissingFiniteBounds` error of the up-front collapse check, started in a state with an empty queue and no
rows: the payload is `varsWithoutFiniteBounds e bm`, and `bm` agrees with the start bounds on the start domain. -/
theorem collapse_missing_bounds {α : Type} [Arith α] {m : Model α} {s0 : St α} (hq : s0.queue = []) (hr : s0.rows = [])
    {vs : List String} (h : collapseCheckAll m s0 = .error (.missingFiniteBounds vs)) :
    ∃ (e : Exp α) (bm : BoundsMap α), vs = varsWithoutFiniteBounds e bm ∧
      ∀ x ∈ s0.domain.map (·.name), lookupB bm x = lookupB s0.bounds x := by
  have hI : Inv (fun _ => True) (fun _ : α => true) s0 :=
    ⟨by unfold StOK; simp [hq, hr], bOK_off _ _⟩
  have hsp := collapseCheckAll_sp (N := fun _ => True) (p := fun _ : α => true) trivial closed_true simpOK_true
    (bTrack_off _) (m := m) (allLits_true _) (fun c _ => ⟨allLits_true _, allLits_true _⟩) s0 hI
  obtain ⟨s', hrel, e, he⟩ := hsp.2 _ h
  exact ⟨e, s'.bounds, he, fun x hx => hrel.bnd x hx⟩

end Lin
end Rooc
