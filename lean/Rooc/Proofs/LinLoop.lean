/-
Stage E: the work-list loop of `Linearizer::linearize` on the piecewise-linear fragment, as a sound and
complete transformation of states, and the final assembly.
-/
import Rooc.Proofs.LinFrag
import Rooc.Proofs.LinSpecMin

set_option linter.unusedSectionVars false
set_option linter.unusedSimpArgs false
set_option linter.unusedVariables false

namespace Rooc.LinP
open Rooc Rooc.Lin Rooc.Sem Rooc.Exp
open Rooc.Lin.Gadget (B01)

variable {K : Type} [Field K] [LinearOrder K] [IsStrictOrderedRing K] [FloorRing K]

/-- evaluation is strict: an expression of the fragment that has a value somewhere has finite literals only. -/
theorem finE_of_definedE {ext : Bool} : ∀ e : Exp (Ext K), frag ext e = true → DefinedE e → FinE e := by
  intro e
  induction e using Exp.indL with
  | num v => intro _ h; obtain ⟨k, rfl⟩ := h.num; simp [FinE, finiteLits, isFin]
  | var x => intro _ _; simp [FinE, finiteLits]
  | bin op a b iha ihb =>
    intro hf h
    simp only [frag, Bool.and_eq_true] at hf
    have h1 := iha hf.1.2 h.bin_left
    have h2 := ihb hf.2 h.bin_right
    simp only [FinE, finiteLits, Bool.and_eq_true] at *
    exact ⟨h1, h2⟩
  | un op e ih =>
    intro hf h
    cases op with
    | neg => simp only [frag] at hf; simpa [FinE, finiteLits] using ih hf h.neg
    | not => simp [frag] at hf
  | abs e ih => intro hf h; simp only [frag] at hf; simpa [FinE, finiteLits] using ih hf h.abs
  | max es ih =>
    intro hf h
    simp only [frag, Bool.and_eq_true, fragList_iff] at hf
    simp only [FinE, finiteLits]
    exact (finiteLitsL_iff es).mpr (fun e he => ih e he (hf.2 e he) (h.max_mem e he))
  | min es ih =>
    intro hf h
    simp only [frag, Bool.and_eq_true, fragList_iff] at hf
    simp only [FinE, finiteLits]
    exact (finiteLitsL_iff es).mpr (fun e he => ih e he (hf.2 e he) (h.min_mem e he))
  | _ => intro hf; simp [frag] at hf

/-! ### comparison normalisation on fragment expressions -/

theorem pickOf_spec_fg {ext : Bool} {d : List (DomVar (Ext K))} {lhs rhs : Exp (Ext K)} {cmp cmp' : Cmp}
    {e : Exp (Ext K)} {c : Ext K}
    {S : String → Prop} (hl : FG ext S lhs) (hr : FG ext S rhs) (h : pickOf d lhs cmp rhs = some (e, cmp', c)) :
    FG ext S e ∧ isLogicValue d e = true ∧
      ∀ (ρ : String → K) (a b : K), eval ρ lhs = some a → eval ρ rhs = some b →
        ∃ x k, eval ρ e = some x ∧ c = Ext.fin k ∧ cmpK cmp a b = cmpK cmp' x k := by
  unfold pickOf at h
  split at h
  · split at h
    · simp only [Option.some.injEq, Prod.mk.injEq] at h
      obtain ⟨rfl, rfl, rfl⟩ := h
      refine ⟨hl, ‹_›, ?_⟩
      intro ρ a b ha hb
      exact ⟨a, b, ha, eval_num_some hb, rfl⟩
    · simp at h
  · split at h
    · split at h
      · simp only [Option.some.injEq, Prod.mk.injEq] at h
        obtain ⟨rfl, rfl, rfl⟩ := h
        refine ⟨hr, ‹_›, ?_⟩
        intro ρ a b ha hb
        exact ⟨b, a, hb, eval_num_some ha, (cmpK_reversed _ _ _).symm⟩
      · simp at h
    · simp at h

theorem logic_fg_cases {ext : Bool} {d : List (DomVar (Ext K))} {e : Exp (Ext K)} {S : String → Prop}
    (he : FG ext S e) (hlv : isLogicValue d e = true) :
    (∃ v, e = .num v) ∨ (∃ n, e = .var n ∧ isBoolVar d n = true ∧ S n) := by
  cases e with
  | num v => exact Or.inl ⟨v, rfl⟩
  | var n => exact Or.inr ⟨n, rfl, by simpa [isLogicValue] using hlv, FG_var.mp he⟩
  | bin op a b =>
    have := (FG_bin.mp he).1
    cases op <;> simp [isArithOp] at this <;> simp [isLogicValue] at hlv
  | un op a =>
    cases op with
    | neg => simp [isLogicValue] at hlv
    | not => simp [FG, frag] at he
  | abs a => simp [isLogicValue] at hlv
  | min es => simp [isLogicValue] at hlv
  | max es => simp [isLogicValue] at hlv
  | _ => simp [FG, frag] at he

theorem normalize_shape_fg {ext : Bool} {d : List (DomVar (Ext K))} {S : String → Prop} {lhs rhs : Exp (Ext K)}
    {cmp : Cmp} {e : Exp (Ext K)} {t : Bool} (hl : FG ext S lhs) (hr : FG ext S rhs)
    (h : tryNormalize d lhs cmp rhs = some (.assertion e t)) :
    ∃ n, e = .var n ∧ isBoolVar d n = true ∧ S n := by
  rw [tryNormalize_eq] at h
  cases hp : pickOf d lhs cmp rhs with
  | none => simp [hp] at h
  | some p =>
    obtain ⟨e', cmp', c⟩ := p
    obtain ⟨hag, hlv, _⟩ := pickOf_spec_fg hl hr hp
    rcases logic_fg_cases hag hlv with ⟨v, rfl⟩ | ⟨n, rfl, hb, hs⟩
    · simp only [hp] at h
      split at h <;> simp at h
    · simp only [hp] at h
      split at h <;> simp at h
      all_goals (obtain ⟨rfl, _⟩ := h; exact ⟨n, rfl, hb, hs⟩)

theorem normalize_sem_fg {ext : Bool} {d : List (DomVar (Ext K))} {S : String → Prop} {lhs rhs : Exp (Ext K)}
    {cmp : Cmp} {nz : Normalized (Ext K)} (hl : FG ext S lhs) (hr : FG ext S rhs)
    (h : tryNormalize d lhs cmp rhs = some nz) (ρ : String → K) (a b : K)
    (ha : eval ρ lhs = some a) (hb : eval ρ rhs = some b)
    (hB : ∀ n, S n → isBoolVar d n = true → B01 (ρ n)) : NormSem d S cmp ρ a b nz := by
  rw [tryNormalize_eq] at h
  cases hp : pickOf d lhs cmp rhs with
  | none => simp [hp] at h
  | some p =>
    obtain ⟨e', cmp', c⟩ := p
    obtain ⟨hag, hlv, hsem⟩ := pickOf_spec_fg hl hr hp
    obtain ⟨x, k, hx, rfl, hcmp⟩ := hsem ρ a b ha hb
    rcases logic_fg_cases hag hlv with ⟨v, rfl⟩ | ⟨n, rfl, hbn, hs⟩
    · simp only [hp] at h
      rw [eval_num_some hx, cmpHolds_fin] at h
      by_cases hc : cmpK cmp' x k = true
      · simp [hc] at h; subst h; simp only [NormSem, hcmp, hc]
      · simp [hc] at h; subst h; simp only [NormSem, hcmp]; simpa using hc
    · simp only [hp, ar_zero, ar_one, cmpHolds_fin, Exp.mayBeUndefined, Bool.false_eq_true, if_false] at h
      rw [eval_var] at hx
      simp only [Option.some.injEq] at hx
      have h01 := hB n hs hbn
      rw [hx] at h01
      split at h <;> simp at h <;> subst h <;> simp only [NormSem, hcmp]
      all_goals rename_i h0 h1
      · refine ⟨n, rfl, ?_⟩
        rcases h01 with rfl | rfl <;> simp [h0, h1, hx]
      · refine ⟨n, rfl, ?_⟩
        rcases h01 with rfl | rfl <;> simp [h0, h1, hx]
      · rcases h01 with rfl | rfl <;> simp [h0, h1]
      · rcases h01 with rfl | rfl <;> simp [h0, h1]

/-! ### satisfaction of a state; what a loop step must guarantee -/

def RowsSat (ρ : String → K) (s : St (Ext K)) : Prop := ∀ r ∈ s.rows, rowTrue ρ r

/-- `ρ` satisfies every declared domain, every queued constraint and every emitted row of `s`. -/
structure Sat (ρ : String → K) (s : St (Ext K)) : Prop where
  dom : DomSat ρ s.domain
  q : QSat ρ s
  rows : RowsSat ρ s

/-- a not-yet-processed source constraint: a comparison of fragment expressions over the variables of
the initial domain `d0`, defined everywhere. -/
structure SrcC (ext : Bool) (d0 : List (DomVar (Ext K))) (c : Constraint (Ext K)) : Prop where
  notAssert : c.isAssert = false
  lhs : FG ext (inScope d0) c.lhs
  rhs : FG ext (inScope d0) c.rhs
  defined : DefinedC c

/-- loop invariant. -/
structure LoopInv (ext : Bool) (d0 : List (DomVar (Ext K))) (s : St (Ext K)) : Prop where
  st : StInv (SrcC ext d0) s
  base : ∀ x, inScope d0 x → inScope s.domain x
  rowsOK : ∀ r ∈ s.rows, RowOK r ∧ ∀ x ∈ r.lhs.map (·.1), inScope s.domain x

/-- one transformation `s ↦ s'` that discharges the constraint `c`: sound and complete. -/
structure StepOK (s s' : St (Ext K)) (P : (String → K) → Prop) : Prop where
  dom : ∃ decls, s'.domain = s.domain ++ decls
  sound : ∀ ρ : String → K, Sat ρ s' → Sat ρ s ∧ P ρ
  complete : ∀ ρ : String → K, Sat ρ s → P ρ →
    ∃ ρ' : String → K, (∀ x, inScope s.domain x → ρ' x = ρ x) ∧ Sat ρ' s'

theorem rowTrue_congr {ρ ρ' : String → K} (r : MidRow (Ext K)) (h : ∀ x ∈ r.lhs.map (·.1), ρ' x = ρ x) :
    rowTrue ρ' r ↔ rowTrue ρ r := by
  simp only [rowTrue, termsVal_congr r.lhs h]

theorem boolOK_of_inv {ext : Bool} {d0 : List (DomVar (Ext K))} {s : St (Ext K)} (h : LoopInv ext d0 s)
    {ρ : String → K} (hd : DomSat ρ s.domain) : BoolOK ρ s.domain (inScope s.domain) :=
  boolOK_of_domSat h.st.nodup hd

theorem cmpK_zero (c : Cmp) (a b : K) : cmpK c (a - b) 0 = cmpK c a b := by
  have := cmpK_cancel c a b 0
  simpa using this

theorem rel_row_sound {cmp : Cmp} {A V : K} (hrel : rel (cmpForReq cmp) A V) (h : cmpK cmp A 0 = true) :
    cmpK cmp V 0 = true := by
  cases cmp <;> simp only [cmpForReq, rel, cmpK, ef_le, ef_lt, ef_eq, decide_eq_true_eq] at *
  · linarith
  · linarith
  · rw [← hrel]; exact h
  · linarith
  · linarith

/-- a state with one more row. -/
def addRow {α : Type} (s : St α) (row : MidRow α) : St α := { s with rows := s.rows ++ [row] }

/-- the invariant only looks at domain, bounds, queue. -/
theorem LoopInv.addRow {ext : Bool} {d0 : List (DomVar (Ext K))} {s : St (Ext K)} (h : LoopInv ext d0 s)
    {row : MidRow (Ext K)} (hok : RowOK row) (hsc : ∀ x ∈ row.lhs.map (·.1), inScope s.domain x) :
    LoopInv ext d0 (addRow s row) := by
  refine ⟨h.st.of_eq rfl rfl rfl, h.base, ?_⟩
  intro r hr
  simp only [Rooc.LinP.addRow, List.mem_append, List.mem_singleton] at hr
  rcases hr with hr | rfl
  · exact h.rowsOK r hr
  · exact ⟨hok, hsc⟩

/-- `emit_constraint` on fragment expressions, through the specification of `linExp`. -/
theorem emit_fg {ext : Bool} {d0 : List (DomVar (Ext K))}
    (hspec : ∀ e : Exp (Ext K), frag ext e = true → SpecHolds (SrcC ext d0) e)
    {lhs rhs : Exp (Ext K)} {cmp : Cmp} {name : String} {s : St (Ext K)} {r : Unit × St (Ext K)}
    (hinv : LoopInv ext d0 s) (hl : FG ext (inScope s.domain) lhs) (hr : FG ext (inScope s.domain) rhs)
    (hdl : DefinedE lhs) (hdr : DefinedE rhs)
    (h : emitConstraint lhs cmp rhs name s = .ok r) :
    LoopInv ext d0 r.2 ∧
    StepOK s r.2 (fun ρ => ∃ a b, eval ρ lhs = some a ∧ eval ρ rhs = some b ∧ cmpK cmp a b = true) := by
  obtain ⟨en, ctx, s1, hn, hlin, rfl⟩ := (emitConstraint_ok _ _ _ _ _ _).mp h
  have hsub : FG ext (inScope s.domain) (.bin .sub lhs rhs : Exp (Ext K)) := FG_bin.mpr ⟨rfl, hl, hr⟩
  have hen := FG_normalize hsub hn
  have hev : ∀ (ρ : String → K) a b, eval ρ lhs = some a → eval ρ rhs = some b → eval ρ en = some (a - b) := by
    intro ρ a b ha hb
    exact normalize_eval_frag hsub.1 hn (by simp [eval_bin, ha, hb, binVal])
  have hden : DefinedE en := by
    intro ρ
    obtain ⟨a, ha⟩ := hdl ρ
    obtain ⟨b, hb⟩ := hdr ρ
    exact ⟨a - b, hev ρ a b ha hb⟩
  have A := hspec en hen.1 _ _ _ _ ⟨hinv.st, hen.2, finE_of_definedE en hen.1 hden⟩ hlin
  obtain ⟨k, hk⟩ := A.cok.rhs
  set row : MidRow (Ext K) := { name := name, lhs := ctx.vars, rhs := Arith.neg ctx.rhs, cmp := cmp } with hrow
  have hrowOK : RowOK row := ⟨A.cok.fin, ⟨-k, by simp [hrow, hk]⟩, A.cok.nodup⟩
  have hrowT : ∀ ρ : String → K, rowTrue ρ row ↔ cmpK cmp (ctxVal ρ ctx) 0 = true := by
    intro ρ
    have : termsVal ρ ctx.vars = ctxVal ρ ctx - 0 - k := by simp [ctxVal, hk]
    simp only [rowTrue, hrow, hk, ar_neg, xval_fin, this, cmpK_cancel]
  have hinv1 : LoopInv ext d0 s1 := by
    refine ⟨A.inv, fun x hx => A.scopeMono (hinv.base x hx), ?_⟩
    intro r hr
    rw [A.rows] at hr
    exact ⟨(hinv.rowsOK r hr).1, fun x hx => A.scopeMono ((hinv.rowsOK r hr).2 x hx)⟩
  refine ⟨hinv1.addRow hrowOK A.cnames, A.dom, ?_, ?_⟩
  · intro ρ hs
    have hd1 : DomSat ρ s1.domain := hs.dom
    have hq1 : QSat ρ s1 := hs.q
    have hrows1 : ∀ r ∈ s1.rows, rowTrue ρ r := fun r hr => hs.rows r (by simp [hr])
    have hrt : rowTrue ρ row := hs.rows row (by simp)
    obtain ⟨a, ha⟩ := hdl ρ
    obtain ⟨b, hb⟩ := hdr ρ
    have hrel := A.sound ρ hd1 hq1 (a - b) (hev ρ a b ha hb)
    refine ⟨⟨A.keepsDom hd1, A.keepsQ hq1, fun r hr => hrows1 r (by rw [A.rows]; exact hr)⟩, a, b, ha, hb, ?_⟩
    rw [← cmpK_zero]
    exact rel_row_sound hrel ((hrowT ρ).mp hrt)
  · rintro ρ hs ⟨a, b, ha, hb, hcmp⟩
    obtain ⟨ρ', hag, hd', hq', hval⟩ := A.complete ρ hs.dom hs.q (a - b) (hev ρ a b ha hb)
    refine ⟨ρ', hag, hd', hq', ?_⟩
    intro r hr
    simp only [List.mem_append, List.mem_singleton] at hr
    rcases hr with hr | rfl
    · rw [A.rows] at hr
      rw [rowTrue_congr r (fun x hx => hag x ((hinv.rowsOK r hr).2 x hx))]
      exact hs.rows r hr
    · rw [hrowT, hval, cmpK_zero]; exact hcmp

theorem StepOK.congr {s s' : St (Ext K)} {P P' : (String → K) → Prop} (h : StepOK s s' P')
    (hiff : ∀ ρ : String → K, Sat ρ s → (P' ρ ↔ P ρ)) : StepOK s s' P :=
  { dom := h.dom
    sound := fun ρ hs => by
      obtain ⟨h1, h2⟩ := h.sound ρ hs
      exact ⟨h1, (hiff ρ h1).mp h2⟩
    complete := fun ρ hs hp => h.complete ρ hs ((hiff ρ hs).mpr hp) }

theorem StepOK.refl {s : St (Ext K)} {P : (String → K) → Prop} (hP : ∀ ρ : String → K, Sat ρ s → P ρ) :
    StepOK s s P :=
  { dom := ⟨[], by simp⟩, sound := fun ρ hs => ⟨hs, hP ρ hs⟩, complete := fun ρ hs _ => ⟨ρ, fun _ _ => rfl, hs⟩ }

theorem StepOK.scopeMono {s s' : St (Ext K)} {P : (String → K) → Prop} (h : StepOK s s' P) {x : String}
    (hx : inScope s.domain x) : inScope s'.domain x := by
  obtain ⟨decls, hd⟩ := h.dom
  rw [hd]; exact inScope_append_left hx

/-- an affine queue entry (pushed by a gadget): Stage B's `process_arith`. -/
theorem step_arith {ext : Bool} {d0 : List (DomVar (Ext K))} {c : Constraint (Ext K)} {s : St (Ext K)}
    {r : Unit × St (Ext K)} (hinv : LoopInv ext d0 s) (hc : ArithC (inScope s.domain) c) (hd : DefinedC c)
    (h : processConstraint c s = .ok r) :
    LoopInv ext d0 r.2 ∧ StepOK s r.2 (fun ρ => constraintHolds ρ c = true) := by
  obtain ⟨new, rfl, hn2, hn3⟩ := process_arith flattenSound simplifySoundArith hc h
  obtain ⟨a0, b0, ha0, hb0⟩ := hd (fun _ => 0)
  have hok := (hn3 _ a0 b0 ha0 hb0).1
  refine ⟨⟨hinv.st.of_eq rfl rfl rfl, hinv.base, ?_⟩, ⟨[], by simp⟩, ?_, ?_⟩
  · intro r hr
    simp only [List.mem_append] at hr
    rcases hr with hr | hr
    · exact hinv.rowsOK r hr
    · exact ⟨hok r hr, hn2 r hr⟩
  · intro ρ hs
    obtain ⟨a, b, ha, hb⟩ := hd ρ
    have hB := boolOK_of_inv hinv hs.dom
    have := ((hn3 ρ a b ha hb).2 hB).mp (fun row hrow => hs.rows row (by simp [hrow]))
    exact ⟨⟨hs.dom, hs.q, fun r hr => hs.rows r (by simp [hr])⟩, this⟩
  · intro ρ hs hp
    obtain ⟨a, b, ha, hb⟩ := hd ρ
    have hB := boolOK_of_inv hinv hs.dom
    have hnew := ((hn3 ρ a b ha hb).2 hB).mpr hp
    refine ⟨ρ, fun _ _ => rfl, hs.dom, hs.q, ?_⟩
    intro r hr
    simp only [List.mem_append] at hr
    rcases hr with hr | hr
    · exact hs.rows r hr
    · exact hnew r hr

/-- a source constraint of the fragment. -/
theorem step_src {ext : Bool} {d0 : List (DomVar (Ext K))}
    (hspec : ∀ e : Exp (Ext K), frag ext e = true → SpecHolds (SrcC ext d0) e)
    {c : Constraint (Ext K)} {s : St (Ext K)} {r : Unit × St (Ext K)} (hinv : LoopInv ext d0 s)
    (hc : SrcC ext d0 c) (h : processConstraint c s = .ok r) :
    LoopInv ext d0 r.2 ∧ StepOK s r.2 (fun ρ => constraintHolds ρ c = true) := by
  unfold processConstraint at h
  simp only [bind_ok, simplifyFlat_ok] at h
  obtain ⟨lhs', s1, ⟨fl1, hf1, h1⟩, rhs', s2, ⟨fl2, hf2, h2⟩, h3⟩ := h
  cases h1; cases h2
  simp only [hc.notAssert, Bool.false_eq_true, if_false] at h3
  have hl0 : FG ext (inScope s.domain) c.lhs := hc.lhs.mono hinv.base
  have hr0 : FG ext (inScope s.domain) c.rhs := hc.rhs.mono hinv.base
  have hl' : FG ext (inScope s.domain) lhs' := FG_normalize hl0 hf1
  have hr' : FG ext (inScope s.domain) rhs' := FG_normalize hr0 hf2
  have hevl : ∀ (ρ : String → K) a, eval ρ c.lhs = some a → eval ρ lhs' = some a :=
    fun ρ a ha => normalize_eval_frag hl0.1 hf1 ha
  have hevr : ∀ (ρ : String → K) b, eval ρ c.rhs = some b → eval ρ rhs' = some b :=
    fun ρ b hb => normalize_eval_frag hr0.1 hf2 hb
  have hdl : DefinedE lhs' := fun ρ => by obtain ⟨a, b, ha, hb⟩ := hc.defined ρ; exact ⟨a, hevl ρ a ha⟩
  have hdr : DefinedE rhs' := fun ρ => by obtain ⟨a, b, ha, hb⟩ := hc.defined ρ; exact ⟨b, hevr ρ b hb⟩
  -- the meaning of the constraint through the normalised sides
  have hmean : ∀ ρ : String → K, (constraintHolds ρ c = true ↔
      ∃ a b, eval ρ lhs' = some a ∧ eval ρ rhs' = some b ∧ cmpK c.cmp a b = true) := by
    intro ρ
    obtain ⟨a, b, ha, hb⟩ := hc.defined ρ
    rw [constraintHolds_arith hc.notAssert ha hb]
    constructor
    · intro h; exact ⟨a, b, hevl ρ a ha, hevr ρ b hb, h⟩
    · rintro ⟨a', b', ha', hb', h⟩
      rw [hevl ρ a ha] at ha'; rw [hevr ρ b hb] at hb'
      cases ha'; cases hb'; exact h
  unfold dispatch at h3
  simp only [bind_ok, get_ok] at h3
  obtain ⟨s0, s0', h0, h3⟩ := h3
  cases h0
  cases hN : tryNormalize s.domain lhs' c.cmp rhs' with
  | none =>
    simp only [hN] at h3
    obtain ⟨i1, i2⟩ := emit_fg hspec hinv hl' hr' hdl hdr h3
    exact ⟨i1, i2.congr (fun ρ _ => (hmean ρ).symm)⟩
  | some nz =>
    have hsem : ∀ ρ : String → K, Sat ρ s → ∀ a b, eval ρ lhs' = some a → eval ρ rhs' = some b →
        NormSem s.domain (inScope s.domain) c.cmp ρ a b nz :=
      fun ρ hs a b ha hb => normalize_sem_fg hl' hr' hN ρ a b ha hb (boolOK_of_inv hinv hs.dom)
    cases nz with
    | tautology =>
      simp only [hN, pure_ok] at h3
      subst h3
      refine ⟨hinv, StepOK.refl ?_⟩
      intro ρ hs
      obtain ⟨a, ha⟩ := hdl ρ
      obtain ⟨b, hb⟩ := hdr ρ
      have := hsem ρ hs a b ha hb
      simp only [NormSem] at this
      exact (hmean ρ).mpr ⟨a, b, ha, hb, this⟩
    | contradiction =>
      simp only [hN] at h3
      obtain ⟨i1, i2⟩ := emit_fg hspec hinv (FG_num (ext := ext) (S := inScope s.domain) _) (FG_num _)
        (definedE_of_eval (fun _ => (0 : K)) (fun ρ => by rw [ar_zero]; exact eval_num_fin ρ 0))
        (definedE_of_eval (fun _ => (1 : K)) (fun ρ => by rw [ar_one]; exact eval_num_fin ρ 1)) h3
      refine ⟨i1, i2.congr ?_⟩
      intro ρ hs
      obtain ⟨a, ha⟩ := hdl ρ
      obtain ⟨b, hb⟩ := hdr ρ
      have := hsem ρ hs a b ha hb
      simp only [NormSem] at this
      constructor
      · rintro ⟨x, y, hx, hy, hxy⟩
        rw [ar_zero, eval_num_fin] at hx; rw [ar_one, eval_num_fin] at hy
        cases hx; cases hy
        simp [cmpK] at hxy
      · intro hp
        obtain ⟨a', b', ha', hb', h'⟩ := (hmean ρ).mp hp
        rw [ha] at ha'; rw [hb] at hb'; cases ha'; cases hb'
        rw [this] at h'; cases h'
    | assertion e t =>
      simp only [hN] at h3
      obtain ⟨n, rfl, hbn, hsn⟩ := normalize_shape_fg hl' hr' hN
      rw [lowerAssertion_var_ok n t c.name s r hbn] at h3
      have hctx : ctxToExp (Ctx.fromVar n (Arith.one : Ext K)) =
          .bin .add (.num (Ext.fin 0)) (.bin .mul (.num (Ext.fin 1)) (.var n)) := by
        rw [fromVar_eq]; simp [ctxToExp]
      have hagl : FG ext (inScope s.domain) (ctxToExp (Ctx.fromVar n (Arith.one : Ext K))) := by
        rw [hctx]
        exact FG_bin.mpr ⟨rfl, FG_num _, FG_bin.mpr ⟨rfl, FG_num _, FG_var.mpr hsn⟩⟩
      have e1 : ∀ ρ : String → K, eval ρ (ctxToExp (Ctx.fromVar n (Arith.one : Ext K))) = some (ρ n) := by
        intro ρ; rw [hctx]; simp [eval_bin, eval, binVal]
      have e2 : ∀ ρ : String → K, eval ρ (.num (if t = true then (Arith.one : Ext K) else Arith.zero)) =
          some (if t = true then (1 : K) else 0) := by
        intro ρ; cases t <;> simp [eval]
      obtain ⟨i1, i2⟩ := emit_fg hspec hinv hagl (FG_num _) (definedE_of_eval _ e1) (definedE_of_eval _ e2) h3
      refine ⟨i1, i2.congr ?_⟩
      intro ρ hs
      obtain ⟨a, ha⟩ := hdl ρ
      obtain ⟨b, hb⟩ := hdr ρ
      have := hsem ρ hs a b ha hb
      simp only [NormSem] at this
      obtain ⟨n', hn', hiff⟩ := this
      cases hn'
      constructor
      · rintro ⟨x, y, hx, hy, hxy⟩
        rw [e1] at hx; rw [e2] at hy
        cases hx; cases hy
        have : ρ n = if t = true then (1 : K) else 0 := by simpa [cmpK] using hxy
        exact (hmean ρ).mpr ⟨a, b, ha, hb, hiff.mpr this⟩
      · intro hp
        obtain ⟨a', b', ha', hb', h'⟩ := (hmean ρ).mp hp
        rw [ha] at ha'; rw [hb] at hb'; cases ha'; cases hb'
        exact ⟨_, _, e1 ρ, e2 ρ, by simpa [cmpK] using hiff.mp h'⟩

/-! ### the loop -/

theorem LoopInv.pop {ext : Bool} {d0 : List (DomVar (Ext K))} {s : St (Ext K)} {c : Constraint (Ext K)}
    {rest : List (Constraint (Ext K))} (h : LoopInv ext d0 s) (hq : s.queue = c :: rest) :
    LoopInv ext d0 { s with queue := rest } := by
  refine ⟨⟨h.st.nodup, h.st.box, ?_, ?_⟩, h.base, h.rowsOK⟩
  · intro c' hc'; exact h.st.qscoped c' (by rw [hq]; exact List.mem_cons_of_mem _ hc')
  · intro c' hc'; exact h.st.qgood c' (by rw [hq]; exact List.mem_cons_of_mem _ hc')

theorem sat_pop {s : St (Ext K)} {c : Constraint (Ext K)} {rest : List (Constraint (Ext K))}
    (hq : s.queue = c :: rest) (ρ : String → K) :
    Sat ρ s ↔ Sat ρ { s with queue := rest } ∧ constraintHolds ρ c = true := by
  constructor
  · intro h
    refine ⟨⟨h.dom, fun c' hc' => h.q c' (by rw [hq]; exact List.mem_cons_of_mem _ hc'), h.rows⟩, ?_⟩
    exact h.q c (by rw [hq]; simp)
  · rintro ⟨h, hc⟩
    refine ⟨h.dom, ?_, h.rows⟩
    intro c' hc'
    rw [hq] at hc'
    rcases List.mem_cons.mp hc' with rfl | hc'
    · exact hc
    · exact h.q c' hc'

/-- the whole loop: it empties the queue, and the final state has, up to the auxiliaries, exactly the
solutions of the initial one. -/
theorem drain_spec {ext : Bool} {d0 : List (DomVar (Ext K))}
    (hspec : ∀ e : Exp (Ext K), frag ext e = true → SpecHolds (SrcC ext d0) e) :
    ∀ (n : Nat) (s : St (Ext K)) (r : Unit × St (Ext K)), LoopInv ext d0 s → drain n s = .ok r →
      LoopInv ext d0 r.2 ∧ r.2.queue = [] ∧ StepOK s r.2 (fun _ => True) := by
  intro n
  induction n with
  | zero => intro s r _ h; simp [drain, fail_ok] at h
  | succ n ih =>
    intro s r hinv h
    rw [drain_succ] at h
    simp only [bind_ok, get_ok] at h
    obtain ⟨s0, s0', h0, h⟩ := h
    cases h0
    cases hqs : s.queue with
    | nil =>
      simp only [hqs, pure_ok] at h
      subst h
      exact ⟨hinv, hqs, StepOK.refl (fun _ _ => trivial)⟩
    | cons c rest =>
      simp only [hqs, bind_ok, set_ok] at h
      obtain ⟨u, s1, h1, u2, s2, h2, h3⟩ := h
      cases h1
      have hpop := hinv.pop hqs
      have hstep : LoopInv ext d0 s2 ∧
          StepOK { s with queue := rest } s2 (fun ρ => constraintHolds ρ c = true) := by
        rcases hinv.st.qgood c (by rw [hqs]; simp) with hsrc | ⟨harith, hdef⟩
        · exact step_src hspec hpop hsrc h2
        · exact step_arith hpop harith hdef h2
      obtain ⟨hinv2, hst⟩ := hstep
      obtain ⟨hinvF, hqF, hstF⟩ := ih s2 r hinv2 h3
      obtain ⟨d1, hd1⟩ := hst.dom
      obtain ⟨d2, hd2⟩ := hstF.dom
      refine ⟨hinvF, hqF, ⟨d1 ++ d2, by rw [hd2, hd1, List.append_assoc]⟩, ?_, ?_⟩
      · intro ρ hs
        obtain ⟨hs2, _⟩ := hstF.sound ρ hs
        obtain ⟨hs1, hc⟩ := hst.sound ρ hs2
        exact ⟨(sat_pop hqs ρ).mpr ⟨hs1, hc⟩, trivial⟩
      · intro ρ hs _
        obtain ⟨hs1, hc⟩ := (sat_pop hqs ρ).mp hs
        obtain ⟨ρ1, hag1, hsat1⟩ := hst.complete ρ hs1 hc
        obtain ⟨ρ2, hag2, hsat2⟩ := hstF.complete ρ1 hsat1 trivial
        exact ⟨ρ2, fun x hx => by rw [hag2 x (hst.scopeMono hx), hag1 x hx], hsat2⟩

end Rooc.LinP
