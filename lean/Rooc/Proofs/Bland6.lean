/-
No basis set repeats along a Bland run, hence a Bland run over `n` columns has fewer than `2^n` steps.
-/
import Rooc.Proofs.Bland5
import Mathlib.Data.Finset.Powerset
import Mathlib.Data.Fintype.Card
namespace Rooc
namespace Bland
variable {K : Type} [Field K] [LinearOrder K] [IsStrictOrderedRing K]
attribute [local instance] exactArith
open Tableau TabSem

variable {tol : K} {m n N : Nat} {c0 : List K} {T : Nat → Tab K} {h t : Nat → Nat} {ρ : Nat → K}

/-- a segment of a Bland run is a Bland run. -/
theorem subrun (R : BlandRun tol m n N c0 T h t ρ) (a b : Nat) (hab : a ≤ b) (hb : b ≤ N) :
    BlandRun tol m n (b - a) c0 (fun p => T (a + p)) (fun p => h (a + p)) (fun p => t (a + p)) (fun p => ρ (a + p)) := by
  obtain ⟨hC, hO, -⟩ := run_inv R a (by omega)
  exact ⟨hC, hO, fun p hp => by simpa [Nat.add_assoc] using R.step (a + p) (by omega),
    fun p hp => R.sep (a + p) (by omega), fun p hp => R.feas (a + p) (by omega)⟩

/-- **no basis set repeats** along a Bland run. -/
theorem no_repeat (ht : 0 < tol) (R : BlandRun tol m n N c0 T h t ρ) {a b : Nat} (hab : a < b) (hb : b ≤ N) :
    ¬ (∀ j, j ∈ (T b).basis ↔ j ∈ (T a).basis) := by
  have := no_cycle ht (subrun R a b hab.le hb) (by omega)
  simpa [Nat.add_sub_cancel' hab.le] using this

/-- **a Bland run is short**: fewer than `2^n` steps (there are no more basis sets than that). -/
theorem run_length_lt (ht : 0 < tol) (R : BlandRun tol m n N c0 T h t ρ) : N < 2 ^ n := by
  let f : Fin (N+1) → Finset Nat := fun p => (T p).basis.toFinset
  have hinj : Function.Injective f := by
    intro p q hpq
    by_contra hne
    have key : ∀ a b : Fin (N+1), a.1 < b.1 → f a = f b → False := by
      intro a b hab hfe
      apply no_repeat ht R hab (by omega)
      intro j
      have := Finset.ext_iff.1 hfe j
      simp only [f, List.mem_toFinset] at this
      exact this.symm
    rcases Nat.lt_or_gt_of_ne (fun e => hne (Fin.ext e)) with h1 | h1
    · exact key p q h1 hpq
    · exact key q p h1 hpq.symm
  have hmem : ∀ p, f p ∈ (Finset.range n).powerset := by
    intro p
    rw [Finset.mem_powerset]
    intro j hj
    simp only [f, List.mem_toFinset] at hj
    obtain ⟨hC, -, -⟩ := run_inv R p.1 (by omega)
    obtain ⟨k, hk, e⟩ := mem_basis_iff.1 hj
    have := hC.inRange k (by rw [hC.rect.rows, ← hC.rect.basis]; exact hk)
    rw [e, hC.rect.costs] at this
    exact Finset.mem_range.2 this
  have hcard := Finset.card_le_card_of_injOn f (s := Finset.univ) (t := (Finset.range n).powerset)
    (fun p _ => hmem p) (fun a _ b _ hab => hinj hab)
  simp only [Finset.card_univ, Fintype.card_fin, Finset.card_powerset, Finset.card_range] at hcard
  omega

end Bland
end Rooc
