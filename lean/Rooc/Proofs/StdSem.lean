/-
Semantics used by the C13 statements (DESIGN appendix A: `LinFeasible`, `obj`) for models whose numbers
live in `Ext K` (IEEE special values, exact arithmetic) and points in `K`.
-/
import Rooc.Standardize
import Rooc.Proofs.Field
namespace Rooc
namespace StdSem
variable {K : Type} [Field K] [LinearOrder K] [IsStrictOrderedRing K] [FloorRing K]

/-- the finite value of an `Ext K` number (`0` for `nan`, `±inf`; only used on finite data). -/
def toK : Ext K → K
  | .fin k => k
  | _ => 0

def isFin : Ext K → Prop
  | .fin _ => True
  | _ => False

/-- `Σ cᵢ·xᵢ`. -/
def rowVal : List (Ext K) → List K → K
  | c :: cs, x :: xs => toK c * x + rowVal cs xs
  | _, _ => 0

def cmpHolds : Cmp → K → K → Prop
  | .le, l, r => l ≤ r
  | .ge, l, r => l ≥ r
  | .eq, l, r => l = r
  | .lt, l, r => l < r
  | .gt, l, r => l > r

/-- `InDomain` for the continuous types (`NonNegativeReal(lo, hi)` additionally means `x ≥ 0`; equivalent
to appendix A under its well-formedness hypothesis `0 ≤ lo`). -/
def InDomain : VarType (Ext K) → K → Prop
  | .real lo hi, v => Ext.le lo (.fin v) = true ∧ Ext.le (.fin v) hi = true
  | .nnreal lo hi, v => 0 ≤ v ∧ Ext.le lo (.fin v) = true ∧ Ext.le (.fin v) hi = true
  | _, _ => False

/-- `LinFeasible lm x`: every row holds and every variable is in its declared domain. -/
structure LinFeasible (lm : LinModel (Ext K)) (x : List K) : Prop where
  len : x.length = lm.vars.length
  rows : ∀ r ∈ lm.rows, cmpHolds r.cmp (rowVal r.coeffs x) (toK r.rhs)
  dom : ∀ i, i < lm.vars.length → ∃ ty, Standardize.lookup lm.domain (lm.vars.getD i "") = some ty ∧
          InDomain ty (x.getD i 0)

/-- `obj lm x = Σ oᵢ·xᵢ + offset`. -/
def obj (lm : LinModel (Ext K)) (x : List K) : K := rowVal lm.objective x + toK lm.offset

/-- feasibility for a standard form: all variables non-negative, every row an equality. -/
structure StdFeasible (sm : StdModel (Ext K)) (y : List K) : Prop where
  len : y.length = sm.vars.length
  nonneg : ∀ v ∈ y, 0 ≤ v
  rows : ∀ r ∈ sm.rows, rowVal r.coeffs y = toK r.rhs

/-- the objective of the ORIGINAL problem as recorded by the standard form:
`±(Σ cⱼ·yⱼ) + offset` (`optimal_tableau.rs:28-33`). -/
def stdObj (sm : StdModel (Ext K)) (y : List K) : K :=
  (if sm.flip then -(rowVal sm.objective y) else rowVal sm.objective y) + toK sm.offset

/-- well-formed continuous model: finite data, consistent sizes, declared continuous variables with
non-NaN bounds, non-strict comparisons, `min` or `max`. -/
structure WF (lm : LinModel (Ext K)) : Prop where
  objLen : lm.objective.length = lm.vars.length
  objFin : ∀ c ∈ lm.objective, isFin c
  offFin : isFin lm.offset
  rowLen : ∀ r ∈ lm.rows, r.coeffs.length = lm.vars.length
  rowFin : ∀ r ∈ lm.rows, (∀ c ∈ r.coeffs, isFin c) ∧ isFin r.rhs
  rowCmp : ∀ r ∈ lm.rows, r.cmp = .le ∨ r.cmp = .ge ∨ r.cmp = .eq
  declared : ∀ v ∈ lm.vars, ∃ ty, Standardize.lookup lm.domain v = some ty
  continuous : ∀ d ∈ lm.domain, Standardize.isContinuous d.ty = true
  boundsReal : ∀ d ∈ lm.domain, ∀ lo hi, d.ty = .real lo hi → (lo = .ninf ∨ isFin lo) ∧ (hi = .pinf ∨ isFin hi)
  boundsNn : ∀ d ∈ lm.domain, ∀ lo hi, d.ty = .nnreal lo hi → isFin lo ∧ (hi = .pinf ∨ isFin hi)
  opt : lm.optType = .min ∨ lm.optType = .max

end StdSem
end Rooc
