/-
`Sem.defined ρ e` — the decidable "defined when" column of DESIGN.md appendix A — and the proof that
it is exactly the domain of `Sem.eval ρ`:  `(eval ρ e).isSome = defined ρ e`.
An expression is undefined iff it contains a non-finite literal, an empty `min`/`max`, or a division
whose divisor evaluates to zero (or is itself undefined).  Generic helper file.
-/
import Rooc.Sem
namespace Rooc
namespace Sem
variable {K : Type} [ExactField K]

/-- the divisor is defined and not zero. -/
def nonzeroAt (ρ : String → K) (b : Exp (Ext K)) : Bool :=
  match eval ρ b with
  | some y => !(ExactField.eq y kzero)
  | none => false

mutual
def defined (ρ : String → K) : Exp (Ext K) → Bool
  | .num x => Ext.isFinite x
  | .var _ => true
  | .abs e => defined ρ e
  | .min es => !es.isEmpty && definedList ρ es
  | .max es => !es.isEmpty && definedList ρ es
  | .and es => definedList ρ es
  | .or es => definedList ρ es
  | .not e => defined ρ e
  | .xor a b => defined ρ a && defined ρ b
  | .implies a b => defined ρ a && defined ρ b
  | .iff a b => defined ρ a && defined ρ b
  | .bin .div a b => defined ρ a && defined ρ b && nonzeroAt ρ b
  | .bin _ a b => defined ρ a && defined ρ b
  | .un _ e => defined ρ e
def definedList (ρ : String → K) : List (Exp (Ext K)) → Bool
  | [] => true
  | e :: es => defined ρ e && definedList ρ es
end

theorem evalList_length {ρ : String → K} : ∀ {es : List (Exp (Ext K))} {vs : List K},
    evalList ρ es = some vs → vs.length = es.length
  | [], vs, h => by simp only [evalList, Option.some.injEq] at h; subst h; rfl
  | e :: es, vs, h => by
    simp only [evalList, Option.bind_eq_bind, Option.bind_eq_some_iff] at h
    obtain ⟨x, _, xs, hxs, h⟩ := h
    simp only [Option.pure_def, Option.some.injEq] at h
    subst h
    simp [evalList_length hxs]

mutual
theorem eval_isSome (ρ : String → K) : (e : Exp (Ext K)) → (eval ρ e).isSome = defined ρ e
  | .num x => by cases x <;> simp [eval, defined, Ext.isFinite]
  | .var _ => by simp [eval, defined]
  | .abs e => by simp [eval, defined, ← eval_isSome ρ e]
  | .min es => by
    have ih := evalList_isSome ρ es
    simp only [eval, defined, ← ih]
    cases h : evalList ρ es with
    | none => simp
    | some vs =>
      have := evalList_length h
      cases vs <;> cases es <;> simp_all
  | .max es => by
    have ih := evalList_isSome ρ es
    simp only [eval, defined, ← ih]
    cases h : evalList ρ es with
    | none => simp
    | some vs =>
      have := evalList_length h
      cases vs <;> cases es <;> simp_all
  | .and es => by simp [eval, defined, ← evalList_isSome ρ es]
  | .or es => by simp [eval, defined, ← evalList_isSome ρ es]
  | .not e => by simp [eval, defined, ← eval_isSome ρ e]
  | .xor a b => by
    simp only [eval, defined, ← eval_isSome ρ a, ← eval_isSome ρ b]
    cases eval ρ a <;> cases eval ρ b <;> simp [binVal]
  | .implies a b => by
    simp only [eval, defined, ← eval_isSome ρ a, ← eval_isSome ρ b]
    cases eval ρ a <;> cases eval ρ b <;> simp [binVal]
  | .iff a b => by
    simp only [eval, defined, ← eval_isSome ρ a, ← eval_isSome ρ b]
    cases eval ρ a <;> cases eval ρ b <;> simp [binVal]
  | .bin op a b => by
    cases op <;> simp only [eval, defined, nonzeroAt, ← eval_isSome ρ a, ← eval_isSome ρ b] <;>
      cases eval ρ a <;> cases hb : eval ρ b <;> simp [binVal]
    split <;> simp_all
  | .un .neg e => by simp [eval, defined, ← eval_isSome ρ e]
  | .un .not e => by simp [eval, defined, ← eval_isSome ρ e]
theorem evalList_isSome (ρ : String → K) :
    (es : List (Exp (Ext K))) → (evalList ρ es).isSome = definedList ρ es
  | [] => by simp [evalList, definedList]
  | e :: es => by
    simp only [evalList, definedList, ← eval_isSome ρ e, ← evalList_isSome ρ es]
    cases eval ρ e <;> cases evalList ρ es <;> simp
end

end Sem
end Rooc
