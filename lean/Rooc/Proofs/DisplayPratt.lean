/-
C12 helper lemmas: the item stream of `Display` reads back, by the documented grouping rules, as the
tree it was printed from (`Exp::operand_to_string` parenthesises exactly where those rules need it).
Adapted from the design-phase probe (minimal-parenthesis printer).
-/
import Rooc.DisplayItems
namespace Rooc.Display
open Rooc
set_option linter.unusedVariables false

variable {α : Type}

theorem lbp_le (o : BinOp) : lbp o ≤ 60 := by cases o <;> simp [lbp, Gen.binPrec]
theorem lbp_pos (o : BinOp) : 10 ≤ lbp o := by cases o <;> simp [lbp, Gen.binPrec]
theorem rbp_le (o : BinOp) : rbp o ≤ lbp o := by unfold rbp; split <;> omega
theorem rbp_ge (o : BinOp) : lbp o - 1 ≤ rbp o := by unfold rbp; split <;> omega

/-- number of `BinOp` nodes on the binary-operator skeleton -/
def skel : Exp α → Nat
  | .bin _ l r => skel l + skel r + 1
  | _ => 0

def topFits (r : Nat) : Exp α → Prop
  | .bin o _ _ => r < lbp o
  | _ => True

/-- the next item lets every pending right-operand parse of `t` stop -/
def stopsAfter (t : Exp α) : List (Item α) → Prop
  | [] => True
  | .infix q :: _ => match t with | .bin o _ _ => lbp q ≤ rbp o | _ => True
  | .atom _ :: _ => False
  | .group _ :: _ => False

/-- the next item, if any, is an operator -/
def OpNext : List (Item α) → Prop
  | [] => True
  | .infix _ :: _ => True
  | _ => False

theorem stopLoop {r : Nat} {t : Exp α} {rest : List (Item α)} (h : OpNext rest)
    (hr : ∀ q tl, rest = .infix q :: tl → ¬ r < lbp q) : PLoop r t rest t rest := by
  cases rest with
  | nil => exact .stopNil
  | cons i tl =>
    cases i with
    | atom e => exact absurd h (by simp [OpNext])
    | group e => exact absurd h (by simp [OpNext])
    | «infix» q => exact .stopOp (hr q tl rfl)

theorem stopsAfter_noLeaf {t : Exp α} {rest : List (Item α)} (h : stopsAfter t rest) : OpNext rest := by
  cases rest with
  | nil => trivial
  | cons i tl => cases i <;> simp_all [stopsAfter, OpNext]

/-- the rule the rendering applies is exactly "the grouping rules need parentheses here" -/
theorem parensRule_eq_needSide (parent : BinOp) (isRhs : Bool) (o : BinOp) (l r : Exp α) :
    parensRule parent isRhs o = needSide parent isRhs (.bin o l r) := by
  cases parent <;> cases isRhs <;> cases o <;> rfl

/-- an expression that is not a `BinOp` is one leaf item (an atom, or a group for a logic node under a parent) -/
theorem items_nonbin (ctx : Option (BinOp × Bool)) (e : Exp α) (h : ∀ o l r, e ≠ .bin o l r) :
    ∃ it, items ctx e = [it] ∧ it.tree? = some e := by
  cases ctx with
  | none => cases e <;> first | exact absurd rfl (h _ _ _) | exact ⟨_, rfl, rfl⟩
  | some p => cases e <;> first | exact absurd rfl (h _ _ _) | exact ⟨_, rfl, rfl⟩

/-- the shapes `items` gives a `BinOp` node -/
theorem items_bin (ctx : Option (BinOp × Bool)) (o : BinOp) (l r : Exp α) :
    items ctx (.bin o l r) = [.group (.bin o l r)] ∨
    items ctx (.bin o l r) = items (some (o, false)) l ++ [.infix o] ++ items (some (o, true)) r := by
  cases ctx with
  | none => right; simp [items]
  | some p =>
    obtain ⟨parent, isRhs⟩ := p
    by_cases h : parensRule parent isRhs o = true
    · left; simp only [items, h, if_true]
    · right; simp [items, h]

theorem items_group_of_need (parent : BinOp) (isRhs : Bool) (o : BinOp) (l r : Exp α)
    (h : needSide parent isRhs (.bin o l r) = true) :
    items (some (parent, isRhs)) (.bin o l r) = [.group (.bin o l r)] := by
  rw [← parensRule_eq_needSide] at h
  simp only [items, h, if_true]

/-- The item stream of the rendering reads back, by the grouping rules, as the printed tree. -/
theorem core (n : Nat) : ∀ (t : Exp α), skel t ≤ n → ∀ (ctx : Option (BinOp × Bool)) (r : Nat) (rest : List (Item α))
    (t' : Exp α) (rest' : List (Item α)),
    ((∃ it, items ctx t = [it] ∧ it.tree? = some t) ∨ (topFits r t ∧ stopsAfter t rest)) →
    PLoop r t rest t' rest' → PExpr r (items ctx t ++ rest) t' rest' := by
  induction n with
  | zero =>
    intro t hs ctx r rest t' rest' hc hl
    obtain ⟨it, hit, htree⟩ := items_nonbin ctx t (by
      intro o l r e; subst e; simp [skel] at hs)
    rw [hit]; exact .mk htree hl
  | succ n ih =>
    intro t hs ctx r rest t' rest' hc hl
    rcases hc with ⟨it, hleaf, htree⟩ | ⟨hfit, hstop⟩
    · rw [hleaf]; exact .mk htree hl
    · have key : ∀ (t : Exp α), (∀ o l r, t ≠ .bin o l r) → PLoop r t rest t' rest' →
          PExpr r (items ctx t ++ rest) t' rest' := by
        intro t hnb hl'
        obtain ⟨it, hit, htree⟩ := items_nonbin ctx t hnb
        rw [hit]; exact .mk htree hl'
      cases t with
      | bin o l r' =>
        simp only [skel] at hs
        simp only [topFits] at hfit
        have hstopR : ∀ q tl, rest = .infix q :: tl → ¬ rbp o < lbp q := by
          intro q tl hq; subst hq; simp [stopsAfter] at hstop; omega
        have hloopR : PLoop (rbp o) r' rest r' rest := stopLoop (stopsAfter_noLeaf hstop) hstopR
        rcases items_bin ctx o l r' with h | h
        · rw [h]; exact .mk rfl hl
        · rw [h]
          -- right operand
          have hRp : PExpr (rbp o) (items (some (o, true)) r' ++ rest) r' rest := by
            refine ih r' (by omega) (some (o, true)) (rbp o) rest r' rest ?_ hloopR
            cases r' with
            | bin o2 a b =>
              by_cases hneed : needRight o (.bin o2 a b) = true
              · left; exact ⟨_, items_group_of_need o true o2 a b (by simpa [needSide] using hneed), rfl⟩
              · right
                simp [needRight] at hneed
                refine ⟨by simpa [topFits] using hneed, ?_⟩
                cases rest with
                | nil => trivial
                | cons i tl =>
                  cases i with
                  | atom e => exact absurd (stopsAfter_noLeaf hstop) (by simp [OpNext])
                  | group e => exact absurd (stopsAfter_noLeaf hstop) (by simp [OpNext])
                  | «infix» q =>
                    have hq := hstopR q tl rfl
                    simp only [stopsAfter]
                    have := rbp_ge o2; omega
            | _ => left; apply items_nonbin; intro o l r e; cases e
          have hstep : PLoop r l (.infix o :: (items (some (o, true)) r' ++ rest)) t' rest' := .step hfit hRp hl
          have := ih l (by omega) (some (o, false)) r (.infix o :: (items (some (o, true)) r' ++ rest)) t' rest' ?_ hstep
          · simpa [List.append_assoc] using this
          · cases l with
            | bin o1 a b =>
              by_cases hneed : needLeft o (.bin o1 a b) = true
              · left; exact ⟨_, items_group_of_need o false o1 a b (by simpa [needSide] using hneed), rfl⟩
              · right
                simp [needLeft] at hneed
                have := rbp_le o1
                exact ⟨by simp [topFits]; omega, by simpa [stopsAfter] using hneed⟩
            | _ => left; apply items_nonbin; intro o l r e; cases e
      | _ =>
        refine key _ ?_ hl
        intro o l r e; cases e

end Rooc.Display
