/-
C12 helper lemmas: the item stream of `Display` reads back, by the documented grouping rules, as the
tree it was printed from — provided every parenthesis those rules need is printed (`noDefect`).
Adapted from the design-phase probe (minimal-parenthesis printer) to "any superset of the needed
parentheses", which is what `impl Display for Exp` prints outside its defective shapes.
-/
import Rooc.DisplayItems
namespace Rooc.Display
open Rooc
set_option linter.unusedVariables false

variable {α : Type}

theorem lbp_le (o : BinOp) : lbp o ≤ 60 := by cases o <;> simp [lbp, Gen.binPrec]
theorem lbp_pos (o : BinOp) : 10 ≤ lbp o := by cases o <;> simp [lbp, Gen.binPrec]
theorem rbp_le (o : BinOp) : rbp o ≤ lbp o := by unfold rbp; split <;> omega
theorem rbp_ge (o : BinOp) : lbp o - 1 ≤ rbp o := by unfold rbp; split <;> omega

/-- number of `BinOp` nodes on the binary-operator skeleton -/
def skel : Exp α → Nat
  | .bin _ l r => skel l + skel r + 1
  | _ => 0

def topFits (r : Nat) : Exp α → Prop
  | .bin o _ _ => r < lbp o
  | _ => True

/-- the next item lets every pending right-operand parse of `t` stop -/
def stopsAfter (t : Exp α) : List (Item α) → Prop
  | [] => True
  | .infix q :: _ => match t with | .bin o _ _ => lbp q ≤ rbp o | _ => True
  | .atom _ :: _ => False
  | .group _ _ :: _ => False

/-- the next item, if any, is an operator -/
def OpNext : List (Item α) → Prop
  | [] => True
  | .infix _ :: _ => True
  | _ => False

theorem stopLoop {r : Nat} {t : Exp α} {rest : List (Item α)} (h : OpNext rest)
    (hr : ∀ q tl, rest = .infix q :: tl → ¬ r < lbp q) : PLoop r t rest t rest := by
  cases rest with
  | nil => exact .stopNil
  | cons i tl =>
    cases i with
    | atom e => exact absurd h (by simp [OpNext])
    | group c e => exact absurd h (by simp [OpNext])
    | «infix» q => exact .stopOp (hr q tl rfl)

theorem stopsAfter_noLeaf {t : Exp α} {rest : List (Item α)} (h : stopsAfter t rest) : OpNext rest := by
  cases rest with
  | nil => trivial
  | cons i tl => cases i <;> simp_all [stopsAfter, OpNext]

/-- an expression that is not a `BinOp` is one leaf item -/
theorem items_nonbin (ctx : Option BinOp) (e : Exp α) (h : ∀ o l r, e ≠ .bin o l r) :
    items ctx e = [.atom e] := by
  cases e <;> first | rfl | exact absurd rfl (h _ _ _)

/-- the shapes `items` gives a `BinOp` node -/
theorem items_bin (ctx : Option BinOp) (o : BinOp) (l r : Exp α) :
    items ctx (.bin o l r) = [.group none (.bin o l r)] ∨
    items ctx (.bin o l r) = items (some o) l ++ [.infix o] ++ [.group (some o) r] ∨
    items ctx (.bin o l r) = items (some o) l ++ [.infix o] ++ items (some o) r := by
  cases ctx with
  | none => right; right; simp [items]
  | some last =>
    by_cases hp : Gen.binPrec o < Gen.binPrec last
    · left; simp [items, hp]
    · right
      by_cases hl : isLeaf r = true
      · right; cases last <;> simp [items, hp, hl]
      · cases last <;> simp [items, hp, hl]

/-- a parenthesised (`placed`) operand is one leaf item -/
theorem items_placed (p : BinOp) (e : Exp α) (h : placed p e = true) : items (some p) e = [.group none e] := by
  cases e with
  | bin o l r => simp [placed] at h; simp [items, h]
  | _ => simp [placed] at h

theorem core (n : Nat) : ∀ (t : Exp α), skel t ≤ n → ∀ (ctx : Option BinOp) (r : Nat) (rest : List (Item α))
    (t' : Exp α) (rest' : List (Item α)),
    noDefect t = true → ((∃ it, items ctx t = [it] ∧ it.tree? = some t) ∨ (topFits r t ∧ stopsAfter t rest)) →
    PLoop r t rest t' rest' → PExpr r (items ctx t ++ rest) t' rest' := by
  induction n with
  | zero =>
    intro t hs ctx r rest t' rest' hnd hc hl
    have : items ctx t = [.atom t] := by
      cases t with
      | bin o l r => simp [skel] at hs
      | _ => rfl
    rw [this]; exact .mk rfl hl
  | succ n ih =>
    intro t hs ctx r rest t' rest' hnd hc hl
    rcases hc with ⟨it, hleaf, htree⟩ | ⟨hfit, hstop⟩
    · rw [hleaf]; exact .mk htree hl
    · cases t with
      | bin o l r' =>
        simp only [skel] at hs
        simp only [noDefect, Bool.and_eq_true, Bool.or_eq_true, Bool.not_eq_true'] at hnd
        obtain ⟨⟨⟨hL, hR⟩, hndl⟩, hndr⟩ := hnd
        simp only [topFits] at hfit
        -- the pending loops can stop after the right operand
        have hstopR : ∀ q tl, rest = .infix q :: tl → ¬ rbp o < lbp q := by
          intro q tl hq; subst hq; simp [stopsAfter] at hstop; omega
        -- left operand, given the parse of the rest
        have left : ∀ (R : List (Item α)), PExpr (rbp o) (R ++ rest) r' rest →
            PExpr r (items (some o) l ++ [.infix o] ++ R ++ rest) t' rest' := by
          intro R hRp
          have hstep : PLoop r l (.infix o :: (R ++ rest)) t' rest' := .step hfit hRp hl
          have := ih l (by omega) (some o) r (.infix o :: (R ++ rest)) t' rest' hndl ?_ hstep
          · simpa [List.append_assoc] using this
          · cases l with
            | bin o1 a b =>
              rcases hL with hL | hL
              · right
                simp [needLeft] at hL
                have := rbp_le o1
                exact ⟨by simp [topFits]; omega, by simpa [stopsAfter] using hL⟩
              · left; exact ⟨_, items_placed o _ hL, rfl⟩
            | _ => left; exact ⟨_, rfl, rfl⟩
        -- the loop of the right operand stops at `rest`
        have hloopR : PLoop (rbp o) r' rest r' rest := stopLoop (stopsAfter_noLeaf hstop) hstopR
        rcases items_bin ctx o l r' with h | h | h
        · rw [h]; exact .mk rfl hl
        · rw [h]; exact left _ (.mk rfl hloopR)
        · rw [h]
          refine left _ ?_
          refine ih r' (by omega) (some o) (rbp o) rest r' rest hndr ?_ hloopR
          cases r' with
          | bin o2 a b =>
            rcases hR with hR | hR
            · right
              simp [needRight] at hR
              refine ⟨by simpa [topFits] using hR, ?_⟩
              cases rest with
              | nil => trivial
              | cons i tl =>
                cases i with
                | atom e => exact absurd (stopsAfter_noLeaf hstop) (by simp [OpNext])
                | group c e => exact absurd (stopsAfter_noLeaf hstop) (by simp [OpNext])
                | «infix» q =>
                  have hq := hstopR q tl rfl
                  simp only [stopsAfter]
                  have := rbp_ge o2; omega
            · left; exact ⟨_, items_placed o _ hR, rfl⟩
          | _ => left; exact ⟨_, rfl, rfl⟩
      | _ => exact .mk rfl hl

/-! ### the repaired rule reads back for every tree -/

theorem itemsFixed_bin (ctx : Option (BinOp × Bool)) (o : BinOp) (l r : Exp α) :
    itemsFixed ctx (.bin o l r) = [.group none (.bin o l r)] ∨
    itemsFixed ctx (.bin o l r) = itemsFixed (some (o, false)) l ++ [.infix o] ++ itemsFixed (some (o, true)) r := by
  cases ctx with
  | none => right; simp [itemsFixed]
  | some p =>
    obtain ⟨parent, isRhs⟩ := p
    by_cases h : needSide parent isRhs (.bin o l r) = true
    · left; simp only [itemsFixed, h, if_true]
    · right; simp [itemsFixed, h]

theorem coreFixed (n : Nat) : ∀ (t : Exp α), skel t ≤ n → ∀ (ctx : Option (BinOp × Bool)) (r : Nat) (rest : List (Item α))
    (t' : Exp α) (rest' : List (Item α)),
    ((∃ it, itemsFixed ctx t = [it] ∧ it.tree? = some t) ∨ (topFits r t ∧ stopsAfter t rest)) →
    PLoop r t rest t' rest' → PExpr r (itemsFixed ctx t ++ rest) t' rest' := by
  induction n with
  | zero =>
    intro t hs ctx r rest t' rest' hc hl
    have : itemsFixed ctx t = [.atom t] := by
      cases t with
      | bin o l r => simp [skel] at hs
      | _ => rfl
    rw [this]; exact .mk rfl hl
  | succ n ih =>
    intro t hs ctx r rest t' rest' hc hl
    rcases hc with ⟨it, hleaf, htree⟩ | ⟨hfit, hstop⟩
    · rw [hleaf]; exact .mk htree hl
    · cases t with
      | bin o l r' =>
        simp only [skel] at hs
        simp only [topFits] at hfit
        have hstopR : ∀ q tl, rest = .infix q :: tl → ¬ rbp o < lbp q := by
          intro q tl hq; subst hq; simp [stopsAfter] at hstop; omega
        have hloopR : PLoop (rbp o) r' rest r' rest := stopLoop (stopsAfter_noLeaf hstop) hstopR
        rcases itemsFixed_bin ctx o l r' with h | h
        · rw [h]; exact .mk rfl hl
        · rw [h]
          -- right operand
          have hRp : PExpr (rbp o) (itemsFixed (some (o, true)) r' ++ rest) r' rest := by
            refine ih r' (by omega) (some (o, true)) (rbp o) rest r' rest ?_ hloopR
            cases r' with
            | bin o2 a b =>
              by_cases hneed : needRight o (.bin o2 a b) = true
              · left; exact ⟨.group none (.bin o2 a b), by simp only [itemsFixed, needSide, hneed, if_true], rfl⟩
              · right
                simp [needRight] at hneed
                refine ⟨by simpa [topFits] using hneed, ?_⟩
                cases rest with
                | nil => trivial
                | cons i tl =>
                  cases i with
                  | atom e => exact absurd (stopsAfter_noLeaf hstop) (by simp [OpNext])
                  | group c e => exact absurd (stopsAfter_noLeaf hstop) (by simp [OpNext])
                  | «infix» q =>
                    have hq := hstopR q tl rfl
                    simp only [stopsAfter]
                    have := rbp_ge o2; omega
            | _ => left; exact ⟨_, rfl, rfl⟩
          have hstep : PLoop r l (.infix o :: (itemsFixed (some (o, true)) r' ++ rest)) t' rest' := .step hfit hRp hl
          have := ih l (by omega) (some (o, false)) r (.infix o :: (itemsFixed (some (o, true)) r' ++ rest)) t' rest' ?_ hstep
          · simpa [List.append_assoc] using this
          · cases l with
            | bin o1 a b =>
              by_cases hneed : needLeft o (.bin o1 a b) = true
              · left; exact ⟨.group none (.bin o1 a b), by simp [itemsFixed, needSide, hneed], rfl⟩
              · right
                simp [needLeft] at hneed
                have := rbp_le o1
                exact ⟨by simp [topFits]; omega, by simpa [stopsAfter] using hneed⟩
            | _ => left; exact ⟨_, rfl, rfl⟩
      | _ => exact .mk rfl hl

end Rooc.Display
