/-
For ENUMERABLE declarations the semantic contract `LinP.LogicModel` of the C01/C02/C03 composition ("at EVERY assignment
satisfying the declared domains the sides are defined and the operands of and/or are 0/1-valued" — which implies the weaker no-collapse clause `NCon` the contract now carries) reduces to the finitely
many enumerated assignments: `LogicOperands01` and definedness depend only on the variables that occur, and the
enumeration is complete.  Helper lemmas for `Rooc/Props/C03.lean`.
-/
import Rooc.Proofs.Compose
import Rooc.Proofs.LinBridgeStatic
import Rooc.Proofs.RefLemmas
set_option linter.unusedSectionVars false
namespace Rooc
namespace Ref
open Sem Exp Rooc.LinP Rooc.BoundsProofs

variable {K : Type} [Field K] [LinearOrder K] [IsStrictOrderedRing K] [FloorRing K]

theorem is01_congr {ρ ρ' : String → K} {e : Exp (Ext K)} (h : ∀ s ∈ vars e, ρ s = ρ' s) :
    Is01 (eval ρ e) ↔ Is01 (eval ρ' e) := by rw [Sem.eval_congr e h]

mutual
/-- `LogicOperands01` depends only on the variables that occur. -/
theorem lo01_congr {ρ ρ' : String → K} :
    (e : Exp (Ext K)) → (∀ s ∈ vars e, ρ s = ρ' s) → (LogicOperands01 ρ e ↔ LogicOperands01 ρ' e)
  | .num _, _ => by simp [LogicOperands01]
  | .var _, _ => by simp [LogicOperands01]
  | .abs e, h => by simpa [LogicOperands01] using lo01_congr e (by simpa [vars] using h)
  | .not e, h => by simpa [LogicOperands01] using lo01_congr e (by simpa [vars] using h)
  | .un _ e, h => by simpa [LogicOperands01] using lo01_congr e (by simpa [vars] using h)
  | .min es, h => by simpa [LogicOperands01] using lo01List_congr es (by simpa [vars] using h)
  | .max es, h => by simpa [LogicOperands01] using lo01List_congr es (by simpa [vars] using h)
  | .and es, h => by
    have h' : ∀ s ∈ varsList es, ρ s = ρ' s := by simpa [vars] using h
    simp only [LogicOperands01, lo01List_congr es h']
    have : (∀ o ∈ es, Is01 (eval ρ o)) ↔ (∀ o ∈ es, Is01 (eval ρ' o)) := by
      constructor <;> intro hh o ho
      · exact (is01_congr (fun s hs => h' s (mem_varsList.2 ⟨o, ho, hs⟩))).1 (hh o ho)
      · exact (is01_congr (fun s hs => h' s (mem_varsList.2 ⟨o, ho, hs⟩))).2 (hh o ho)
    rw [this]
  | .or es, h => by
    have h' : ∀ s ∈ varsList es, ρ s = ρ' s := by simpa [vars] using h
    simp only [LogicOperands01, lo01List_congr es h']
    have : (∀ o ∈ es, Is01 (eval ρ o)) ↔ (∀ o ∈ es, Is01 (eval ρ' o)) := by
      constructor <;> intro hh o ho
      · exact (is01_congr (fun s hs => h' s (mem_varsList.2 ⟨o, ho, hs⟩))).1 (hh o ho)
      · exact (is01_congr (fun s hs => h' s (mem_varsList.2 ⟨o, ho, hs⟩))).2 (hh o ho)
    rw [this]
  | .xor a b, h => by
    simp only [LogicOperands01, lo01_congr a (fun s hs => h s (by simp [vars, hs])),
      lo01_congr b (fun s hs => h s (by simp [vars, hs]))]
  | .implies a b, h => by
    simp only [LogicOperands01, lo01_congr a (fun s hs => h s (by simp [vars, hs])),
      lo01_congr b (fun s hs => h s (by simp [vars, hs]))]
  | .iff a b, h => by
    simp only [LogicOperands01, lo01_congr a (fun s hs => h s (by simp [vars, hs])),
      lo01_congr b (fun s hs => h s (by simp [vars, hs]))]
  | .bin op a b, h => by
    have ha : ∀ s ∈ vars a, ρ s = ρ' s := fun s hs => h s (by simp [vars, hs])
    have hb : ∀ s ∈ vars b, ρ s = ρ' s := fun s hs => h s (by simp [vars, hs])
    simp only [LogicOperands01, lo01_congr a ha, lo01_congr b hb, is01_congr ha, is01_congr hb]
theorem lo01List_congr {ρ ρ' : String → K} :
    (es : List (Exp (Ext K))) → (∀ s ∈ varsList es, ρ s = ρ' s) →
      (LogicOperands01List ρ es ↔ LogicOperands01List ρ' es)
  | [], _ => by simp [LogicOperands01List]
  | e :: es, h => by
    simp only [LogicOperands01List, lo01_congr e (fun s hs => h s (by simp [varsList, hs])),
      lo01List_congr es (fun s hs => h s (by simp [varsList, hs]))]
end

/-- the contract on one expression, from its instances at the enumerated assignments. -/
theorem goodE_of_enumerated {d : List (DomVar (Ext K))} {asg : List (List (String × K))}
    (ha : assignments d = some asg) {e : Exp (Ext K)}
    (hv : ∀ x ∈ vars e, x ∈ usedNames d) (hf : finiteLits e = true)
    (hp : ∀ a ∈ asg, LogicOperands01 (lookup a) e ∧ (eval (lookup a) e).isSome = true) : GoodE d e := by
  have hag : ∀ ρ : String → K, DomSat ρ d → ∃ a ∈ asg, ∀ s ∈ vars e, lookup a s = ρ s := by
    intro ρ hd
    obtain ⟨a, ham, hagree⟩ := assignments_complete d asg ha ρ hd
    refine ⟨a, ham, fun s hs => ?_⟩
    obtain ⟨dv, hdv, hu, rfl⟩ := mem_usedNames.1 (hv s hs)
    exact hagree dv hdv hu
  have hlo : LOon d e := by
    intro ρ hd
    obtain ⟨a, ham, hs⟩ := hag ρ hd
    exact (lo01_congr e hs).1 (hp a ham).1
  have hdef : DefOn d e := by
    intro ρ hd
    obtain ⟨a, ham, hs⟩ := hag ρ hd
    have := (hp a ham).2
    rw [Sem.eval_congr e hs] at this
    exact Option.isSome_iff_exists.1 this
  refine ⟨?_, hf, NCon.ofLO hlo hdef, hdef⟩
  intro x hx
  rw [← Rooc.Compose.vars_eq_varsOf] at hx
  obtain ⟨dv, hdv, hu, hn⟩ := mem_usedNames.1 (hv x hx)
  exact ⟨dv, hdv, hn, hu⟩

/-- every side of the model: the objective, and both sides of every constraint. -/
def sides (m : Model (Ext K)) : List (Exp (Ext K)) :=
  m.objective :: m.constraints.flatMap fun c => [c.lhs, c.rhs]

/-- the SYNTACTIC part of the contract (decidable): every side mentions declared used variables only and has finite
literals. -/
def SidesOK (m : Model (Ext K)) : Prop :=
  ∀ e ∈ sides m, (∀ x ∈ vars e, x ∈ usedNames m.domain) ∧ finiteLits e = true

/-- `SidesOK` is the static contract `LinP.StaticModel` of the pipeline theorems (declared used variables + finite
literals), spelled with `Exp.vars` / `usedNames`. -/
theorem staticModel_of_sidesOK {m : Model (Ext K)} (hs : SidesOK m) : StaticModel m := by
  have scope : ∀ e ∈ sides m, ∀ x ∈ varsOf e, inScope m.domain x := by
    intro e he x hx
    rw [← Rooc.Compose.vars_eq_varsOf] at hx
    obtain ⟨dv, hdv, hu, hn⟩ := mem_usedNames.1 ((hs e he).1 x hx)
    exact ⟨dv, hdv, hn, hu⟩
  have memL : ∀ c ∈ m.constraints, c.lhs ∈ sides m := fun c hc => by
    simp only [sides, List.mem_cons, List.mem_flatMap]; exact Or.inr ⟨c, hc, by simp⟩
  have memR : ∀ c ∈ m.constraints, c.rhs ∈ sides m := fun c hc => by
    simp only [sides, List.mem_cons, List.mem_flatMap]; exact Or.inr ⟨c, hc, by simp⟩
  exact ⟨scope _ (by simp [sides]), (hs _ (by simp [sides])).2,
    fun c hc => ⟨scope _ (memL c hc), scope _ (memR c hc), (hs _ (memL c hc)).2, (hs _ (memR c hc)).2⟩⟩

/-- the SEMANTIC part, at ONE assignment: every side is defined and its and/or operands are 0/1-valued. -/
def PointOK (m : Model (Ext K)) (ρ : String → K) : Prop :=
  ∀ e ∈ sides m, LogicOperands01 ρ e ∧ (eval ρ e).isSome = true

/-- **for enumerable declarations the contract `LogicModel` is a finite check**: its syntactic part plus `PointOK` at
the enumerated assignments. -/
theorem logicModel_of_enumerated {m : Model (Ext K)} {asg : List (List (String × K))}
    (ha : assignments m.domain = some asg) (hs : SidesOK m) (hp : ∀ a ∈ asg, PointOK m (lookup a)) :
    LogicModel m m.domain := by
  have good : ∀ e ∈ sides m, GoodE m.domain e := fun e he =>
    goodE_of_enumerated ha (hs e he).1 (hs e he).2 (fun a ham => hp a ham e he)
  -- `LogicModel` is the static contract (definedness follows from a successful compilation): `GoodE.toS`
  refine ⟨(good _ (by simp [sides])).toS, fun c hc => ⟨(good _ ?_).toS, (good _ ?_).toS⟩⟩
  · simp only [sides, List.mem_cons, List.mem_flatMap]
    exact Or.inr ⟨c, hc, by simp⟩
  · simp only [sides, List.mem_cons, List.mem_flatMap]
    exact Or.inr ⟨c, hc, by simp⟩

/-- a decidable well-formedness condition for DISCRETE declarations: Boolean, or an `IntegerRange` within `i32` that is
non-empty when the declaration is never used (the text front end rejects empty ranges altogether). -/
def DiscreteDeclOK (d : DomVar (Ext K)) : Prop :=
  d.ty = .bool ∨ ∃ lo hi, d.ty = .int lo hi ∧ i32Min ≤ lo ∧ hi ≤ i32Max ∧ (d.usage = 0 → lo ≤ hi)

/-- for purely discrete declarations `DeclOK` is that decidable condition plus distinct names. -/
theorem declOK_of_discrete {domain : List (DomVar (Ext K))} (hnd : (domain.map (·.name)).Nodup)
    (h : ∀ d ∈ domain, DiscreteDeclOK d) : DeclOK domain := by
  refine ⟨hnd, ?_, ?_, ?_, ?_⟩
  · intro d hd lo hi hty
    rcases h d hd with hb | ⟨lo', hi', hty', h1, h2, _⟩
    · rw [hb] at hty; cases hty
    · rw [hty'] at hty; cases hty; exact ⟨h1, h2⟩
  · intro d hd
    rcases h d hd with hb | ⟨lo', hi', hty', _⟩
    · rw [hb]; trivial
    · rw [hty']; trivial
  · intro d hd
    rcases h d hd with hb | ⟨lo', hi', hty', _⟩
    · rw [hb]; trivial
    · rw [hty']; trivial
  · intro d hd hu
    rcases h d hd with hb | ⟨lo', hi', hty', _, _, hne⟩
    · rw [hb]; exact ⟨0, Or.inl (by simp)⟩
    · rw [hty']; exact ⟨(lo' : K), lo', by simp, le_refl _, hne hu⟩

end Ref
end Rooc
