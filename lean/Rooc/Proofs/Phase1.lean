/-
Phase 1 of `into_tableau_two_phase`: the artificial-variable tableau is canonical and feasible, represents
the phase-1 objective `Σ artificials`, and extends the standard form (`A x + z = b`).  Consequence: if the
standard form has a feasible point `x`, the value phase 1 stops at satisfies `−value ≤ tol·Σx`.
-/
import Rooc.Proofs.StartMain
namespace Rooc
namespace Phase1
variable {K : Type} [Field K] [LinearOrder K] [IsStrictOrderedRing K]
attribute [local instance] exactArith
open Tableau TabSem PivotLemmas BasicSol

theorem dot_append : ∀ (a b x y : List K), a.length = x.length → dot (a ++ b) (x ++ y) = dot a x + dot b y
  | [], b, [], y, _ => by simp
  | p :: ps, b, q :: qs, y, h => by
    simp [dot_append ps b qs y (by simpa using h)]; ring
  | [], _, _ :: _, _, h => by simp at h
  | _ :: _, _, [], _, h => by simp at h

theorem dot_comm : ∀ (a x : List K), dot a x = dot x a
  | [], x => by simp
  | a :: as, [] => by simp
  | a :: as, x :: xs => by simp [dot_comm as xs]; ring

theorem subRow_eq (c r : List K) : subRow c r = rowSubMul 1 c r := by
  induction c generalizing r with
  | nil => cases r <;> simp [subRow, rowSubMul]
  | cons x xs ih => cases r with
    | nil => simp [subRow, rowSubMul]
    | cons p ps => simp [subRow, rowSubMul, ih]

/-- the `i`-th phase-1 row: the original coefficients followed by the `i`-th unit vector of length `m`. -/
noncomputable def artRow (n m : Nat) (r : List K) (i : Nat) : List K :=
  (Standardize.resize r (n + m) 0).set (i + n) 1

theorem artRow_eq {n m : Nat} {r : List K} (hr : r.length = n) (i : Nat) :
    artRow n m r i = r ++ (List.replicate m (0:K)).set i 1 := by
  unfold artRow Standardize.resize
  rw [List.take_of_length_le (by omega), hr, Nat.add_sub_cancel_left]
  rw [List.set_append_right _ _ (by omega), hr, Nat.add_sub_cancel]

theorem artRow_length {n m : Nat} {r : List K} (hr : r.length = n) (i : Nat) : (artRow n m r i).length = n + m := by
  rw [artRow_eq hr]; simp [hr]

theorem dot_unit (m i : Nat) (z : List K) (hz : z.length = m) (hi : i < m) :
    dot ((List.replicate m (0:K)).set i 1) z = nth z i := by
  rw [dot_comm, dot_set z _ i 1 (by simpa using hi) (by simp [hz]), dot_replicate_zero, nth_replicate_zero]
  ring

theorem dot_artRow {n m : Nat} {r : List K} (hr : r.length = n) {i : Nat} (hi : i < m) (x z : List K)
    (hx : x.length = n) (hz : z.length = m) : dot (artRow n m r i) (x ++ z) = dot r x + nth z i := by
  rw [artRow_eq hr, dot_append _ _ _ _ (by rw [hr, hx]), dot_unit m i z hz hi]

theorem nth_append_right' (a b : List K) (k : Nat) : nth (a ++ b) (k + a.length) = nth b k := by
  simp [nth, List.getD_eq_getElem?_getD, List.getElem?_append_right]

theorem nth_artRow_art {n m : Nat} {r : List K} (hr : r.length = n) {i k : Nat} (hi : i < m) :
    nth (artRow n m r i) (k + n) = if i = k then 1 else 0 := by
  rw [artRow_eq hr]
  have := nth_append_right' r ((List.replicate m (0:K)).set i 1) k
  rw [hr] at this
  rw [this, nth_set _ _ _ _ (by simpa using hi), nth_replicate_zero]
  by_cases e : k = i
  · simp [e]
  · have : ¬ i = k := fun h => e h.symm
    simp [e, this]

/-- the phase-1 rows from index `i0` on. -/
noncomputable def artRows (n m : Nat) : Nat → List (List K) → List (List K)
  | _, [] => []
  | i0, r :: rs => artRow n m r i0 :: artRows n m (i0+1) rs

theorem artRows_eq_map (n m : Nat) : ∀ (rows : List (StdRow K)) (i0 : Nat),
    (rows.zipIdx i0).map (fun (p : StdRow K × Nat) => (Standardize.resize p.1.coeffs (n + m) (0:K)).set (p.2 + n) 1) =
      artRows n m i0 (rows.map (·.coeffs))
  | [], _ => by simp [artRows]
  | r :: rs, i0 => by simp [List.zipIdx_cons, artRows, artRow, artRows_eq_map n m rs (i0+1)]

theorem artRows_length (n m : Nat) : ∀ (rs : List (List K)) (i0 : Nat), (artRows n m i0 rs).length = rs.length
  | [], _ => by simp [artRows]
  | r :: rs, i0 => by simp [artRows, artRows_length n m rs (i0+1)]

theorem row_artRows (n m : Nat) : ∀ (rs : List (List K)) (i0 i : Nat), i < rs.length →
    row (artRows n m i0 rs) i = artRow n m (row rs i) (i0 + i)
  | [], _, i, h => by simp at h
  | r :: rs, i0, 0, _ => by simp [artRows, row]
  | r :: rs, i0, i+1, h => by
    have := row_artRows n m rs (i0+1) i (by simpa using h)
    simp only [row, artRows, List.getD_cons_succ] at this ⊢
    rw [this]; congr 1; omega

/-- the phase-1 cost row, column by column. -/
theorem nth_fold_subRow {n m : Nat} (k : Nat) (hk : k < m) : ∀ (rs : List (List K)) (i0 : Nat) (c : List K),
    (∀ r ∈ rs, r.length = n) → c.length = n + m → i0 + rs.length ≤ m →
    nth ((artRows n m i0 rs).foldl subRow c) (k + n) = nth c (k + n) - (if i0 ≤ k ∧ k < i0 + rs.length then 1 else 0)
  | [], i0, c, _, _, _ => by
    have : ¬ (i0 ≤ k ∧ k < i0) := by omega
    simp [artRows, this]
  | r :: rs, i0, c, hr, hc, hm => by
    have hr0 : r.length = n := hr r (by simp)
    simp only [artRows, List.foldl_cons]
    have hlen : (subRow c (artRow n m r i0)).length = n + m := by
      rw [subRow_eq, length_rowSubMul _ _ _ (by rw [hc, artRow_length hr0]), hc]
    rw [nth_fold_subRow k hk rs (i0+1) _ (fun r' h' => hr r' (List.mem_cons_of_mem _ h')) hlen
      (by simp only [List.length_cons] at hm; omega)]
    rw [subRow_eq, nth_rowSubMul _ _ _ _ (by rw [hc, artRow_length hr0]),
      nth_artRow_art hr0 (by simp only [List.length_cons] at hm; omega)]
    simp only [List.length_cons]
    by_cases e : i0 = k
    · subst e
      have h1 : ¬ (i0 + 1 ≤ i0 ∧ i0 < i0 + 1 + rs.length) := by omega
      have h2 : i0 ≤ i0 ∧ i0 < i0 + (rs.length + 1) := by omega
      rw [if_pos rfl, if_neg h1, if_pos h2]; ring
    · by_cases e2 : i0 + 1 ≤ k ∧ k < i0 + 1 + rs.length
      · have h2 : i0 ≤ k ∧ k < i0 + (rs.length + 1) := by omega
        rw [if_neg e, if_pos e2, if_pos h2]; ring
      · have h2 : ¬ (i0 ≤ k ∧ k < i0 + (rs.length + 1)) := by omega
        rw [if_neg e, if_neg e2, if_neg h2]; ring

theorem length_fold_subRow {n m : Nat} : ∀ (rs : List (List K)) (i0 : Nat) (c : List K),
    (∀ r ∈ rs, r.length = n) → c.length = n + m → ((artRows n m i0 rs).foldl subRow c).length = n + m
  | [], _, c, _, hc => by simpa [artRows] using hc
  | r :: rs, i0, c, hr, hc => by
    simp only [artRows, List.foldl_cons]
    apply length_fold_subRow rs (i0+1) _ (fun r' h' => hr r' (List.mem_cons_of_mem _ h'))
    rw [subRow_eq, length_rowSubMul _ _ _ (by rw [hc, artRow_length (hr r (by simp))]), hc]

/-- the phase-1 cost row and value, as functionals: subtracting every satisfied row leaves `c·y − v` unchanged. -/
theorem dot_fold_subRow {n m : Nat} (y : List K) : ∀ (rs : List (List K)) (bs : List K) (i0 : Nat) (c : List K) (v : K),
    rs.length = bs.length → (∀ r ∈ rs, r.length = n) → c.length = n + m →
    (∀ i, i < rs.length → dot (artRow n m (row rs i) (i0 + i)) y = nth bs i) →
    dot ((artRows n m i0 rs).foldl subRow c) y - bs.foldl (fun v bi => v - bi) v = dot c y - v
  | [], [], _, c, v, _, _, _, _ => by simp [artRows]
  | r :: rs, b :: bs, i0, c, v, hl, hr, hc, hs => by
    have hr0 : r.length = n := hr r (by simp)
    simp only [artRows, List.foldl_cons]
    have hlen : (subRow c (artRow n m r i0)).length = n + m := by
      rw [subRow_eq, length_rowSubMul _ _ _ (by rw [hc, artRow_length hr0]), hc]
    rw [dot_fold_subRow y rs bs (i0+1) _ (v - b) (by simpa using hl) (fun r' h' => hr r' (List.mem_cons_of_mem _ h')) hlen
      (by intro i hi
          have := hs (i+1) (by simpa using hi)
          simpa [row, nth, Nat.add_assoc, Nat.add_comm 1 i] using this)]
    have h0 := hs 0 (by simp)
    simp only [row, nth, List.getD_cons_zero, Nat.add_zero] at h0
    rw [subRow_eq, dot_rowSubMul _ _ _ _ (by rw [hc, artRow_length hr0]), h0]; ring
  | [], _ :: _, _, _, _, h, _, _, _ => by simp at h
  | _ :: _, [], _, _, _, h, _, _, _ => by simp at h

/-- the phase-1 objective: cost `1` on every artificial column. -/
def phase1Cost (n m : Nat) : List K := List.replicate n 0 ++ List.replicate m 1

theorem phase1Tab_a (sm : StdModel K) :
    (phase1Tab sm).a = artRows sm.vars.length sm.rows.length 0 (sm.rows.map (·.coeffs)) := by
  have := artRows_eq_map (K := K) sm.vars.length sm.rows.length sm.rows 0
  simp only [phase1Tab, ExactK.zero_eq, ExactK.one_eq]
  exact this

theorem phase1Tab_c (sm : StdModel K) :
    (phase1Tab sm).c = (artRows sm.vars.length sm.rows.length 0 (sm.rows.map (·.coeffs))).foldl subRow
      (phase1Cost sm.vars.length sm.rows.length) := by
  have := artRows_eq_map (K := K) sm.vars.length sm.rows.length sm.rows 0
  simp only [phase1Tab, ExactK.zero_eq, ExactK.one_eq, phase1Cost]
  rw [← this]

theorem phase1Tab_value (sm : StdModel K) :
    (phase1Tab sm).value = (sm.rows.map (·.rhs)).foldl (fun v bi => v - bi) 0 := by
  simp [phase1Tab]

theorem row_mem {A : List (List K)} {i : Nat} (hi : i < A.length) : row A i ∈ A := by
  simp only [row, List.getD_eq_getElem?_getD, List.getElem?_eq_getElem hi, Option.getD_some]
  exact List.getElem_mem hi

/-- **the phase-1 tableau is canonical**, represents `Σ artificials`, extends the standard form by one
artificial variable per row, and is feasible when `b ≥ 0`. -/
theorem phase1_canonical (sm : StdModel K) (hrows : ∀ r ∈ sm.rows, r.coeffs.length = sm.vars.length) :
    Canon (phase1Tab sm) sm.rows.length (sm.vars.length + sm.rows.length) ∧
    ObjInv (phase1Tab sm) (phase1Cost sm.vars.length sm.rows.length) ∧
    (∀ x z : List K, x.length = sm.vars.length → z.length = sm.rows.length →
      (Sol (phase1Tab sm) (x ++ z) ↔
        ∀ i, i < sm.rows.length → dot (row (sm.rows.map (·.coeffs)) i) x + nth z i = nth (sm.rows.map (·.rhs)) i)) ∧
    ((∀ r ∈ sm.rows, 0 ≤ r.rhs) → Feasible (phase1Tab sm)) := by
  set m := sm.rows.length with hm
  set n := sm.vars.length with hn
  set A := sm.rows.map (·.coeffs) with hA
  set b := sm.rows.map (·.rhs) with hb
  have hAl : A.length = m := by simp [hA, hm]
  have hAr : ∀ r ∈ A, r.length = n := by
    intro r hr; simp only [hA, List.mem_map] at hr
    obtain ⟨r0, h0, rfl⟩ := hr; exact hrows r0 h0
  have ha := phase1Tab_a sm
  have hc := phase1Tab_c sm
  have hv := phase1Tab_value sm
  have hbT : (phase1Tab sm).b = b := by simp [phase1Tab, hb]
  have hbasis : (phase1Tab sm).basis = (List.range m).map (· + n) := by simp [phase1Tab, hm, hn]
  have hal : (phase1Tab sm).a.length = m := by rw [ha, artRows_length, hAl]
  have hrowT : ∀ i, i < m → row (phase1Tab sm).a i = artRow n m (row A i) i := by
    intro i hi; rw [ha, row_artRows n m A 0 i (by rw [hAl]; exact hi), Nat.zero_add]
  have hrl : ∀ i, i < m → (row A i).length = n := fun i hi => hAr _ (row_mem (by rw [hAl]; exact hi))
  have hc0 : (phase1Cost n m : List K).length = n + m := by simp [phase1Cost]
  have hbget : ∀ k, k < m → (phase1Tab sm).basis.getD k 0 = k + n := by
    intro k hk; rw [hbasis]; simp [List.getD_eq_getElem?_getD, hk]
  have hsolrow : ∀ (y : List K), Sol (phase1Tab sm) y ↔ ∀ i, i < m → dot (artRow n m (row A i) i) y = nth b i := by
    intro y
    simp only [Sol, hal, hbT]
    constructor <;> intro h i hi
    · rw [← hrowT i hi]; exact h i hi
    · rw [hrowT i hi]; exact h i hi
  refine ⟨⟨⟨hal, by rw [hbT]; simp [hb, hm], by rw [hbasis]; simp, ?_, ?_⟩, ?_, ?_, ?_⟩, ?_, ?_, ?_⟩
  · rw [hc]; exact length_fold_subRow A 0 _ hAr hc0
  · intro i hi; rw [hrowT i hi]; exact artRow_length (hrl i hi) i
  · intro i k hi hk
    rw [hal] at hi hk
    rw [hrowT i hi, hbget k hk, nth_artRow_art (hrl i hi) hi]; simp
  · intro k hk
    rw [hal] at hk
    rw [hbget k hk, hc, length_fold_subRow A 0 _ hAr hc0]; omega
  · intro k hk
    rw [hal] at hk
    rw [hbget k hk, hc, nth_fold_subRow k hk A 0 _ hAr hc0 (by rw [hAl]; omega)]
    have h1 : nth (phase1Cost n m : List K) (k + n) = 1 := by
      have := nth_append_right' (List.replicate n (0:K)) (List.replicate m 1) k
      simp only [List.length_replicate] at this
      rw [phase1Cost, this]; simp [nth, List.getD_eq_getElem?_getD, hk]
    have h2 : 0 ≤ k ∧ k < 0 + A.length := by rw [hAl]; omega
    rw [h1, if_pos h2]; simp
  · intro y hy hS
    have hyl : y.length = n + m := by rw [hy, hc, length_fold_subRow A 0 _ hAr hc0]
    have := dot_fold_subRow (n := n) (m := m) y A b 0 (phase1Cost n m) 0 (by simp [hA, hb]) hAr hc0
      (by intro i hi; rw [Nat.zero_add]; exact (hsolrow y).1 hS i (by rw [← hAl]; exact hi))
    rw [hc, hv]
    simp only [ExactK.sub_eq]
    linarith
  · intro x z hx hz
    rw [hsolrow]
    constructor <;> intro h i hi
    · rw [← dot_artRow (hrl i hi) hi x z hx hz]; exact h i hi
    · rw [dot_artRow (hrl i hi) hi x z hx hz]; exact h i hi
  · intro h0 i hi
    rw [hal] at hi
    rw [hbT]
    have hi2 : i < sm.rows.length := hi
    have : nth b i = (sm.rows[i]).rhs := by simp [nth, hb, List.getD_eq_getElem?_getD, hi2]
    simp only [ExactK.zero_eq, ExactK.le_eq, decide_eq_true_eq]
    rw [this]; exact h0 _ (List.getElem_mem hi2)

open StepLemmas Optimal in
/-- when the loop stops with success, its last `step_inner` answered `Finished` on the final tableau. -/
theorem solveLoop_ok_finished {tol : K} {prefer : List Nat} {stallLimit : Nat} :
    ∀ (fuel : Nat) (T : Tab K) (stalls : Nat) (last : K) (acc : List (Tab K × Nat × Nat × K)),
      (solveLoop tol prefer stallLimit fuel T stalls last acc).result = .ok () →
      ∃ bland, stepInner tol (solveLoop tol prefer stallLimit fuel T stalls last acc).final prefer bland =
        .ok (.finished, (solveLoop tol prefer stallLimit fuel T stalls last acc).final)
  | 0, T, stalls, last, acc, h => by simp [solveLoop] at h
  | fuel+1, T, stalls, last, acc, h => by
    simp only [solveLoop] at h ⊢
    split at h
    · simp at h
    · rename_i T' hs
      obtain ⟨rfl, -⟩ := stepInner_finished hs
      exact ⟨_, hs⟩
    · rename_i hh t ratio T' hs
      split at h
      · rename_i hfe
        simp only [hfe, if_true]
        exact solveLoop_ok_finished fuel T' (stalls+1) last _ h
      · rename_i hfe
        simp only [hfe, if_false]
        exact solveLoop_ok_finished fuel T' 0 T'.value _ h

theorem sum_append_zeros (x : List K) (m : Nat) : (x ++ List.replicate m (0:K)).sum = x.sum := by
  simp

theorem dot_zeros_left : ∀ (n : Nat) (x : List K), dot (List.replicate n (0:K)) x = 0
  | 0, x => by simp
  | n+1, [] => by simp
  | n+1, x :: xs => by simp [List.replicate_succ, dot_zeros_left n xs]

open StepLemmas Optimal in
/-- **phase-1 value bound.**  If the standard form `A x = b, x ≥ 0` has a feasible point `x`, then the value
`v` at which phase 1 stops with success satisfies `−v ≤ tol·Σx` (for exact optimality tests: `−v ≤ 0`, i.e. the
artificial variables can be driven to zero).  Contrapositive: an "infeasible" report (`|v| ≥ tol`, `v ≤ 0`)
excludes every feasible point with `Σx < 1`. -/
theorem phase1_value_bound {tol : K} (htol : 0 ≤ tol) (sm : StdModel K)
    (hrows : ∀ r ∈ sm.rows, r.coeffs.length = sm.vars.length) (stallExtra limit : Nat) (prefer : List Nat)
    (hok : (solve tol stallExtra limit prefer (phase1Tab sm)).result = .ok ())
    (x : List K) (hxl : x.length = sm.vars.length)
    (hx : ∀ i, i < sm.rows.length → dot (row (sm.rows.map (·.coeffs)) i) x = nth (sm.rows.map (·.rhs)) i)
    (hnn : ∀ v ∈ x, 0 ≤ v) :
    -(solve tol stallExtra limit prefer (phase1Tab sm)).final.value ≤ tol * x.sum := by
  obtain ⟨hC, hO, hS, -⟩ := phase1_canonical sm hrows
  obtain ⟨hCf, hSf, hOf⟩ := solveLoop_preserves (tol := tol) (prefer := prefer)
    (stallLimit := (phase1Tab sm).c.length + (phase1Tab sm).a.length + stallExtra) limit (phase1Tab sm) 0
    (phase1Tab sm).value [] hC
  obtain ⟨bland, hfin⟩ := solveLoop_ok_finished (tol := tol) (prefer := prefer)
    (stallLimit := (phase1Tab sm).c.length + (phase1Tab sm).a.length + stallExtra) limit (phase1Tab sm) 0
    (phase1Tab sm).value [] hok
  set y := x ++ List.replicate sm.rows.length (0:K) with hy
  have hyS : Sol (phase1Tab sm) y := by
    rw [hy, hS x _ hxl (by simp)]
    intro i hi
    rw [hx i hi, nth_replicate_zero]; ring
  have hynn : NonNeg y := by
    intro j hj
    have : nth y j ∈ y := Optimal.mem_of_nth hj
    simp only [hy, List.mem_append, List.mem_replicate] at this
    simp only [ExactK.zero_eq, ExactK.le_eq, decide_eq_true_eq]
    rcases this with h | h
    · exact hnn _ h
    · rw [h.2]
  have hopt := finished_near_optimal htol hCf (hOf _ hO) hfin y (by simp [hy, hxl]) ((hSf y).2 hyS) hynn
  rw [BasicSol.basicSolution_objective hCf (hOf _ hO)] at hopt
  have hdot : dot (phase1Cost sm.vars.length sm.rows.length) y = 0 := by
    rw [hy, phase1Cost, dot_append _ _ _ _ (by simp [hxl]), dot_zeros_left, dot_replicate_zero]; ring
  rw [hdot, hy, sum_append_zeros] at hopt
  simpa [solve] using hopt

/-- what an `Infesible` answer of `into_tableau_two_phase` means: phase 1 stopped with success at a value with
`|v| ≥ tol`. -/
theorem twoPhase_infeasible {tol : K} {stallExtra limit : Nat} {sm : StdModel K}
    (h : twoPhase tol stallExtra limit sm = .error .infeasible) :
    (solve tol stallExtra limit ((List.range sm.rows.length).map (· + sm.vars.length)) (phase1Tab sm)).result = .ok () ∧
    tol ≤ |(solve tol stallExtra limit ((List.range sm.rows.length).map (· + sm.vars.length)) (phase1Tab sm)).final.value| := by
  unfold twoPhase at h
  simp only at h
  split at h
  · cases h
  · rename_i hres
    split at h
    · rename_i hne
      refine ⟨hres, ?_⟩
      have := (ExactK.fne_iff tol _ 0).1 (by simpa using hne)
      simpa using not_lt.1 this
    · split at h <;> [skip; skip] <;> simp at h <;> split at h <;> cases h

/-- **an infeasibility report excludes every feasible point with `Σx < 1`** (given that phase 1 stopped at a
non-positive value, as it does whenever its final basic solution is non-negative). -/
theorem infeasible_report (tol : K) (htol : 0 < tol) (sm : StdModel K)
    (hrows : ∀ r ∈ sm.rows, r.coeffs.length = sm.vars.length) (stallExtra limit : Nat)
    (h : twoPhase tol stallExtra limit sm = .error .infeasible)
    (hv : (solve tol stallExtra limit ((List.range sm.rows.length).map (· + sm.vars.length)) (phase1Tab sm)).final.value ≤ 0)
    (x : List K) (hxl : x.length = sm.vars.length)
    (hx : ∀ i, i < sm.rows.length → dot (row (sm.rows.map (·.coeffs)) i) x = nth (sm.rows.map (·.rhs)) i)
    (hnn : ∀ v ∈ x, 0 ≤ v) : 1 ≤ x.sum := by
  obtain ⟨hok, habs⟩ := twoPhase_infeasible h
  have hb := phase1_value_bound htol.le sm hrows stallExtra limit _ hok x hxl hx hnn
  rw [abs_of_nonpos hv] at habs
  have : tol * 1 ≤ tol * x.sum := by linarith
  exact le_of_mul_le_mul_left this htol

end Phase1
end Rooc
