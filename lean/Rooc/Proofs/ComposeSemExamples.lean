/-
Concrete instances (`K = ℚ`) for the by-name / positional adapter and the solver contract of the built-in simplex
(`Rooc/Props/C05.lean`): `exMax` = `max x s.t. c: x ≤ 2`, `x ≥ 0`; its standard form (sign flip for `max`) is computed by
the kernel; the start tableau `exTM` is canonical for it; the loop pivots once and stops `Finished`; the mapped-back
point is `x = 2` with value 2.  (`exMax` is what `Compile.linearize` returns for the source model `exSrc` of
`Proofs/ComposeE2EExamples.lean`.)
-/
import Rooc.Proofs.ComposeSem
import Rooc.Proofs.ComposeSimplexExamples

set_option linter.unusedSectionVars false
set_option linter.unusedSimpArgs false
set_option linter.unusedVariables false

namespace Rooc.ComposeSem
open Rooc Rooc.Sem ComposeSimplex
attribute [local instance 2000] fieldExact

def exMax : LinModel (Ext ℚ) :=
  { optType := .max, objective := [.fin 1], offset := .fin 0, vars := ["x"],
    domain := [{ name := "x", ty := .nnreal (.fin 0) .pinf, usage := 1 }],
    rows := [{ name := "c", coeffs := [.fin 1], cmp := .le, rhs := .fin 2 }] }

/-! ### the compiled model: well-formed, standard form, tableau, run -/

section
open Tableau TabSem StdSem StdMain StdSpec StdSplit StdLayout Standardize
attribute [local instance] exactArith

theorem exMax_wf : WF exMax := by
  refine ⟨rfl, ?_, ?_, ?_, ?_, ?_, ?_, ?_, ?_, ?_, Or.inr rfl⟩
  · simp [exMax, isFin]
  · simp [exMax, isFin]
  · simp [exMax]
  · simp [exMax, isFin]
  · simp [exMax]
  · simp [exMax, lookup]
  · simp [exMax, isContinuous]
  · simp [exMax]
  · simp [exMax, isFin]

theorem exMax_nnok : ∀ d ∈ exMax.domain, NNOK d.ty := by
  intro d hd
  simp only [exMax, List.mem_singleton] at hd
  subst hd; simp [NNOK, Ext.le]

theorem exMax_domVars : DomVars exMax := ⟨by simp [exMax], by simp [exMax]⟩

theorem exMax_nodup : exMax.vars.Nodup := by simp [exMax]

/-- `max x` becomes `min −x` with the flip recorded. -/
def exMaxStd : StdModel (Ext ℚ) :=
  { vars := ["x", "$sl_1"], objective := [.fin (-1), .fin 0], offset := .fin 0, flip := true,
    rows := [{ coeffs := [.fin 1, .fin 1], rhs := .fin 2 }] }

theorem exMax_std : standardize exMax = .ok exMaxStd := by rw [fieldExact_rat]; decide +kernel

/-- start and final tableau (those of `exMin`, with the flip set). -/
def exTM : Tab ℚ := { c := [-1, 0], a := [[1, 1]], b := [2], basis := [1], value := 0, offset := 0, flip := true }
def exTM' : Tab ℚ := { c := [0, 1], a := [[1, 1]], b := [2], basis := [0], value := 2, offset := 0, flip := true }

theorem exTM_step : stepInner (0:ℚ) exTM [] false = .ok (.pivot 0 0 2, exTM') := by
  simp [stepInner, isOptimal, findH, findT, eligible, ratios, minByFirst, pivot, rowSubMul, rowDiv, exTM, exTM',
    Tol.fge, Tol.feq, Tol.flt, Tol.fgt, nth, row, List.zipIdx]

theorem exTM'_step : stepInner (0:ℚ) exTM' [] false = .ok (.finished, exTM') := by
  simp [stepInner, isOptimal, findH, eligible, minByFirst, exTM', Tol.fge, Tol.feq, Tol.flt, List.zipIdx]

theorem exTM_canonicalFor : CanonicalFor exTM (stdK exMaxStd) := by
  refine ⟨⟨1, ?_⟩, ?_, ?_, ?_, rfl, rfl⟩
  · exact Unbounded.canon_of_one_row exTM [1, 1] 2 1 rfl rfl rfl rfl (by decide) (by simp [nth]) (by simp [exTM, nth])
  · intro x _ _; simp [exTM, stdK, exMaxStd, toK]
  · intro x
    simp [Sol, Start.stdTab, stdK, exMaxStd, exTM, toK]
  · intro i hi
    have : i = 0 := by simp [exTM] at hi; omega
    subst this; simp [exTM, nth]

theorem exTM_solve : (solve (0:ℚ) 1 10 [] exTM).result = .ok () ∧ (solve (0:ℚ) 1 10 [] exTM).final = exTM' := by
  have h1 : decide (0 > (exTM.c.length + exTM.a.length + 1)) = false := by decide
  have hv : Tol.feq (0:ℚ) exTM'.value exTM.value = false := by simp [Tol.feq]
  simp only [solve, solveLoop, h1, exTM_step, hv, Bool.false_eq_true, if_false, exTM'_step, and_self]

theorem exTM'_preimage : preimage exMax (basicSolution exTM') = [2] := by
  have hb : basicSolution exTM' = [2, 0] := by
    simp [basicSolution, variablesValues, exTM', nth, List.zipIdx]
  have hf : flags exMax = [false] := by simp [flags, tys, tyOf, lookup, exMax, isFree]
  simp [preimage, hb, hf, countF, countT, back]

/-- what `into_tableau` (tolerance `1e-5`) returns for `exMax`: `x` is the first independent column, the start is already
optimal. -/
theorem exMax_intoTableau : intoTableau (1/100000 : ℚ) 1 10 (stdK exMaxStd) = .ok exTM' := by
  have hr : (stdK exMaxStd).rows.map (·.coeffs) = [[1, 1]] := by simp [stdK, exMaxStd, toK]
  have hn : (stdK exMaxStd).vars.length = 2 := rfl
  have hm : (stdK exMaxStd).rows.length = 1 := rfl
  unfold intoTableau
  simp only [hr, hn, hm, Props.C14.sm0_independent]
  simp [selectPerRow, List.range, List.range.loop, canonicalise, rowDiv, rowSubMul, stdK, exMaxStd, toK, nth, row,
    exTM', List.modify]

theorem exMax_startFacts : StartFacts (1/100000 : ℚ) 1 10 (stdK exMaxStd) := by
  have h1 : |(1:ℚ)| = 1 := abs_one
  have hr : (stdK exMaxStd).rows.map (·.coeffs) = [[1, 1]] := by simp [stdK, exMaxStd, toK]
  have hn : (stdK exMaxStd).vars.length = 2 := rfl
  have hm : (stdK exMaxStd).rows.length = 1 := rfl
  refine Or.inl ⟨?_, ?_⟩
  · unfold DirectStart
    rw [hr, hn, hm, Props.C14.sm0_independent]
    exact ⟨by simp, by simp [selectPerRow, List.range, List.range.loop]⟩
  · rw [hr]
    intro r hr' x hx
    simp at hr'; subst hr'
    simp at hx; subst hx
    right; rw [h1]; norm_num

theorem exTM'_solve : (solve (0:ℚ) 1 10 [] exTM').result = .ok () ∧ (solve (0:ℚ) 1 10 [] exTM').final = exTM' := by
  have h1 : decide (0 > (exTM'.c.length + exTM'.a.length + 1)) = false := by decide
  simp only [solve, solveLoop, h1, exTM'_step, and_self]

theorem exTM'_value : optimalValue exTM' = 2 := by
  simp [optimalValue, exTM']

end

end Rooc.ComposeSem
