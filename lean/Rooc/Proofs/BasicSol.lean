/-
The basic solution of a canonical tableau (`variables_values`): it solves the system, its reduced-cost
form vanishes, it is non-negative when the tableau is feasible.
-/
import Rooc.Proofs.Step
import Mathlib.Data.List.Nodup
namespace Rooc
namespace BasicSol
variable {K : Type} [Field K] [LinearOrder K] [IsStrictOrderedRing K]
attribute [local instance] exactArith
open Tableau TabSem PivotLemmas

theorem dot_replicate_zero : ∀ (r : List K) (n : Nat), dot r (List.replicate n (0 : K)) = 0
  | [], n => by simp
  | a :: as, 0 => by simp
  | a :: as, n+1 => by simp [List.replicate_succ, dot_replicate_zero as n]

theorem nth_replicate_zero (n j : Nat) : nth (List.replicate n (0 : K)) j = 0 := by
  simp only [nth, List.getD_eq_getElem?_getD]
  rcases Nat.lt_or_ge j n with h | h
  · simp [h]
  · simp [h]

/-- changing one component changes the dot product by `r[j]·(y − v[j])`. -/
theorem dot_set : ∀ (r v : List K) (j : Nat) (y : K), j < v.length → r.length = v.length →
    dot r (v.set j y) = dot r v + nth r j * (y - nth v j)
  | [], [], j, y, h, _ => by simp at h
  | a :: as, x :: xs, 0, y, _, _ => by simp [nth]; ring
  | a :: as, x :: xs, j+1, y, h, hl => by
    have ih := dot_set as xs j y (by simpa using h) (by simpa using hl)
    simp only [List.set_cons_succ, dot_cons, ih]
    simp [nth]; ring
  | [], _ :: _, _, _, _, hl => by simp at hl
  | _ :: _, [], _, _, _, hl => by simp at hl

theorem nth_set (v : List K) (j i : Nat) (y : K) (hj : j < v.length) :
    nth (v.set j y) i = if i = j then y else nth v i := by
  simp only [nth, List.getD_eq_getElem?_getD]
  by_cases h : i = j
  · subst h; simp [hj]
  · simp [h, List.getElem?_set_ne (Ne.symm h)]

/-- the fold of `variables_values` over the tail `l` of the basis (positions `k0, k0+1, …`). -/
noncomputable def fill (b : List K) (l : List Nat) (k0 : Nat) (v : List K) : List K :=
  (l.zipIdx k0).foldl (fun vals (p : Nat × Nat) => vals.set p.1 (nth b p.2)) v

theorem fill_nil (b : List K) (k0 : Nat) (v : List K) : fill b [] k0 v = v := by simp [fill]
theorem fill_cons (b : List K) (j : Nat) (l : List Nat) (k0 : Nat) (v : List K) :
    fill b (j :: l) k0 v = fill b l (k0+1) (v.set j (nth b k0)) := by
  simp [fill, List.zipIdx_cons]

theorem fill_length (b : List K) : ∀ (l : List Nat) (k0 : Nat) (v : List K), (fill b l k0 v).length = v.length
  | [], k0, v => by simp [fill_nil]
  | j :: l, k0, v => by rw [fill_cons, fill_length b l]; simp

/-- core induction: a row that reads `g (k0+k)` in the `k`-th remaining basic column picks up exactly
`g i · b i` for … here specialised to the two shapes needed: unit rows and zero rows. -/
theorem dot_fill_unit (b : List K) (r : List K) (i : Nat) :
    ∀ (l : List Nat) (k0 : Nat) (v : List K), r.length = v.length → l.Nodup → (∀ j ∈ l, j < v.length) →
      (∀ j ∈ l, nth v j = 0) →
      (∀ k, k < l.length → nth r (l.getD k 0) = if i = k0 + k then 1 else 0) →
      dot r (fill b l k0 v) = dot r v + (if k0 ≤ i ∧ i < k0 + l.length then nth b i else 0)
  | [], k0, v, _, _, _, _, _ => by simp [fill_nil]
  | j :: l, k0, v, hl, hnd, hlt, hz, hr => by
    rw [fill_cons]
    have hj : j < v.length := hlt j (by simp)
    have hnd' := List.nodup_cons.1 hnd
    have ih := dot_fill_unit b r i l (k0+1) (v.set j (nth b k0)) (by simpa using hl) hnd'.2
      (by intro j' hj'; simpa using hlt j' (List.mem_cons_of_mem _ hj'))
      (by intro j' hj'
          have hne : j' ≠ j := fun e => hnd'.1 (e ▸ hj')
          rw [nth_set _ _ _ _ hj]; simp [hne, hz j' (List.mem_cons_of_mem _ hj')])
      (by intro k hk
          have := hr (k+1) (by simpa using hk)
          simpa [Nat.add_assoc, Nat.add_comm 1 k] using this)
    rw [ih, dot_set _ _ _ _ hj hl, hz j (by simp)]
    have h0 := hr 0 (by simp)
    simp only [List.getD_cons_zero, Nat.add_zero] at h0
    rw [h0]
    by_cases e : i = k0
    · have e1 : ¬ (k0 + 1 ≤ i ∧ i < k0 + 1 + l.length) := by omega
      have e2 : k0 ≤ i ∧ i < k0 + (j :: l).length := by simp only [List.length_cons]; omega
      rw [if_pos e, if_neg e1, if_pos e2, e]; ring
    · by_cases e2 : k0 + 1 ≤ i ∧ i < k0 + 1 + l.length
      · have e3 : k0 ≤ i ∧ i < k0 + (j :: l).length := by simp only [List.length_cons]; omega
        rw [if_neg e, if_pos e2, if_pos e3]; ring
      · have e3 : ¬ (k0 ≤ i ∧ i < k0 + (j :: l).length) := by simp only [List.length_cons]; omega
        rw [if_neg e, if_neg e2, if_neg e3]; ring

theorem dot_fill_zero (b : List K) (r : List K) :
    ∀ (l : List Nat) (k0 : Nat) (v : List K), r.length = v.length → (∀ j ∈ l, j < v.length) →
      (∀ j ∈ l, nth r j = 0) → dot r (fill b l k0 v) = dot r v
  | [], k0, v, _, _, _ => by simp [fill_nil]
  | j :: l, k0, v, hl, hlt, hr => by
    rw [fill_cons]
    have hj : j < v.length := hlt j (by simp)
    rw [dot_fill_zero b r l (k0+1) _ (by simpa using hl)
      (by intro j' hj'; simpa using hlt j' (List.mem_cons_of_mem _ hj'))
      (by intro j' hj'; exact hr j' (List.mem_cons_of_mem _ hj')),
      dot_set _ _ _ _ hj hl, hr j (by simp)]
    simp

theorem fill_nonneg (b : List K) (hb : ∀ k, 0 ≤ nth b k) :
    ∀ (l : List Nat) (k0 : Nat) (v : List K), (∀ j ∈ l, j < v.length) → (∀ j, 0 ≤ nth v j) →
      ∀ j, 0 ≤ nth (fill b l k0 v) j
  | [], k0, v, _, hv => by simpa [fill_nil] using hv
  | j :: l, k0, v, hlt, hv => by
    rw [fill_cons]
    have hj : j < v.length := hlt j (by simp)
    apply fill_nonneg b hb l
    · intro j' hj'; simpa using hlt j' (List.mem_cons_of_mem _ hj')
    · intro i; rw [nth_set _ _ _ _ hj]; split
      · exact hb k0
      · exact hv i

theorem variablesValues_eq (T : Tab K) :
    variablesValues T = fill T.b T.basis 0 (List.replicate T.c.length 0) := by
  simp [variablesValues, fill]

theorem basis_mem {T : Tab K} {j : Nat} (hj : j ∈ T.basis) : ∃ k, k < T.basis.length ∧ T.basis.getD k 0 = j := by
  obtain ⟨k, hk, e⟩ := List.mem_iff_getElem.1 hj
  exact ⟨k, hk, by simp [List.getD_eq_getElem?_getD, hk, e]⟩

theorem basis_nodup {T : Tab K} {m n : Nat} (hC : Canon T m n) : T.basis.Nodup := by
  rw [List.nodup_iff_getElem?_ne_getElem?]
  intro i j hij hj he
  have hjm : j < T.a.length := by rw [hC.rect.rows, ← hC.rect.basis]; exact hj
  have him : i < T.a.length := lt_trans hij hjm
  have e : T.basis.getD i 0 = T.basis.getD j 0 := by simp [List.getD_eq_getElem?_getD, he]
  have h1 := hC.unit i i him him
  have h2 := hC.unit i j him hjm
  rw [e] at h1
  rw [h1] at h2
  simp [Nat.ne_of_lt hij] at h2

theorem basicSolution_length {T : Tab K} : (basicSolution T).length = T.c.length := by
  simp [basicSolution, variablesValues_eq, fill_length]

theorem basis_lt {T : Tab K} {m n : Nat} (hC : Canon T m n) : ∀ j ∈ T.basis, j < (List.replicate T.c.length (0:K)).length := by
  intro j hj
  obtain ⟨k, hk, e⟩ := basis_mem hj
  have := hC.inRange k (by rw [hC.rect.rows, ← hC.rect.basis]; exact hk)
  rw [e] at this; simpa using this

/-- **The basic solution satisfies every row.** -/
theorem basicSolution_sol {T : Tab K} {m n : Nat} (hC : Canon T m n) : Sol T (basicSolution T) := by
  intro i hi
  have him : i < m := hC.rect.rows ▸ hi
  rw [basicSolution, variablesValues_eq,
    dot_fill_unit T.b (row T.a i) i T.basis 0 _ (by simp [hC.rect.width i him, hC.rect.costs]) (basis_nodup hC)
      (basis_lt hC) (fun j _ => nth_replicate_zero _ _)
      (by intro k hk
          have := hC.unit i k hi (by rw [hC.rect.rows, ← hC.rect.basis]; exact hk)
          simpa using this)]
  have : 0 ≤ i ∧ i < 0 + T.basis.length := ⟨Nat.zero_le _, by rw [hC.rect.basis]; simpa using him⟩
  rw [if_pos this, dot_replicate_zero]; simp

/-- the reduced-cost form vanishes at the basic solution. -/
theorem basicSolution_costs {T : Tab K} {m n : Nat} (hC : Canon T m n) : dot T.c (basicSolution T) = 0 := by
  rw [basicSolution, variablesValues_eq,
    dot_fill_zero T.b T.c T.basis 0 _ (by simp) (basis_lt hC)
      (by intro j hj
          obtain ⟨k, hk, e⟩ := basis_mem hj
          have := hC.costs k (by rw [hC.rect.rows, ← hC.rect.basis]; exact hk)
          rw [e] at this; simpa using this),
    dot_replicate_zero]

/-- **`current_value` is minus the objective of the basic solution.** -/
theorem basicSolution_objective {T : Tab K} {m n : Nat} (hC : Canon T m n) {c0 : List K} (hO : ObjInv T c0) :
    dot c0 (basicSolution T) = -T.value := by
  rw [hO _ basicSolution_length (basicSolution_sol hC), basicSolution_costs hC]; simp

theorem basicSolution_nonneg {T : Tab K} {m n : Nat} (hC : Canon T m n) (hF : Feasible T) :
    ∀ j, 0 ≤ nth (basicSolution T) j := by
  rw [basicSolution, variablesValues_eq]
  apply fill_nonneg
  · intro k
    by_cases hk : k < T.a.length
    · simpa using hF k hk
    · have : T.b.length ≤ k := by rw [hC.rect.rhs, ← hC.rect.rows]; exact Nat.le_of_not_lt hk
      simp [nth, List.getD_eq_getElem?_getD, List.getElem?_eq_none this]
  · exact basis_lt hC
  · intro j; rw [nth_replicate_zero]

end BasicSol
end Rooc
