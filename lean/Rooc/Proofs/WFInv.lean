/-
C08 helpers — the state invariant of the linearizer and its preservation by every action.

`Rel N p s s'` (reflexive, transitive):
* the domain only grows, by appending variables with usage mark 1 and a `$`-prefixed name;
* pairwise distinct domain names stay pairwise distinct (`declareVariable` refuses an existing name);
* if every queued constraint / emitted row of `s` has a name in `N` and literals / coefficients
  satisfying `p`, the same holds in `s'`.
`p` is any predicate on numbers closed under the arithmetic the linearizer performs (`Closed p`):
`fun _ => true` gives the purely structural facts for every number type, `isFinite` at `Ext K` gives
`finite_out_partial`.
-/
import Rooc.Proofs.WFMonad
import Rooc.Proofs.WFList
import Rooc.Proofs.WFBounds
import Rooc.WellFormed
import Batteries.Tactic.SeqFocus

set_option linter.unusedSectionVars false

namespace Rooc
namespace Lin
open Arith
variable {α : Type} [Arith α] {β γ : Type}

/-! ### literals of an expression -/

-- `allLits p e`: every numeric literal of the expression satisfies `p`.
mutual
def allLits (p : α → Bool) : Exp α → Bool
  | .num v => p v
  | .var _ => true
  | .abs e | .not e | .un _ e => allLits p e
  | .min es | .max es | .and es | .or es => allLitsL p es
  | .xor a b | .implies a b | .iff a b | .bin _ a b => allLits p a && allLits p b
def allLitsL (p : α → Bool) : List (Exp α) → Bool
  | [] => true
  | e :: es => allLits p e && allLitsL p es
end

theorem allLitsL_iff (p : α → Bool) (es : List (Exp α)) :
    allLitsL p es = true ↔ ∀ e ∈ es, allLits p e = true := by
  induction es with
  | nil => simp [allLitsL]
  | cons e es ih => simp [allLitsL, ih]

/-- closure of a predicate on numbers under the arithmetic performed by flatten / simplify / linearize. -/
structure Closed (p : α → Bool) : Prop where
  ofInt : ∀ i : Int, p (Arith.ofInt i) = true
  add : ∀ a b, p a = true → p b = true → p (Arith.add a b) = true
  sub : ∀ a b, p a = true → p b = true → p (Arith.sub a b) = true
  mul : ∀ a b, p a = true → p b = true → p (Arith.mul a b) = true
  neg : ∀ a, p a = true → p (Arith.neg a) = true
  abs : ∀ a, p a = true → p (Arith.abs a) = true
  div : ∀ a b, p a = true → p b = true → Arith.eq b Arith.zero = false → p (Arith.div a b) = true
  fmax : ∀ a b, p a = true → p b = true → p (Arith.fmax a b) = true
  fmin : ∀ a b, p a = true → p b = true → p (Arith.fmin a b) = true
  fmaxNegInf : ∀ a, p a = true → p (Arith.fmax Arith.negInf a) = true
  fminPosInf : ∀ a, p a = true → p (Arith.fmin Arith.posInf a) = true
  ofFinite : ∀ a, Arith.isFinite a = true → p a = true

theorem closed_true : Closed (α := α) (fun _ => true) := by
  constructor <;> intros <;> rfl

/-! ### contexts -/

def CtxOK (p : α → Bool) (c : Ctx α) : Prop := (∀ q ∈ c.vars, p q.2 = true) ∧ p c.rhs = true


section ctx
variable {p : α → Bool} (hp : Closed p)
include hp

theorem CtxOK.new : CtxOK p (Ctx.new : Ctx α) := ⟨by simp [Ctx.new], hp.ofInt 0⟩

theorem CtxOK.addVar {c : Ctx α} (hc : CtxOK p c) (n : String) {m : α} (hm : p m = true) :
    CtxOK p (c.addVar n m) := by
  unfold Ctx.addVar
  split
  · refine ⟨?_, hc.2⟩
    intro q hq
    simp only [List.mem_map] at hq
    obtain ⟨⟨n', v⟩, hmem, rfl⟩ := hq
    dsimp only
    split
    · exact hp.add _ _ (hc.1 _ hmem) hm
    · exact hc.1 _ hmem
  · refine ⟨?_, hc.2⟩
    intro q hq
    simp only [List.mem_append, List.mem_singleton] at hq
    rcases hq with hq | rfl
    · exact hc.1 _ hq
    · exact hm

theorem CtxOK.addRhs {c : Ctx α} (hc : CtxOK p c) {r : α} (hr : p r = true) : CtxOK p (c.addRhs r) :=
  ⟨hc.1, hp.add _ _ hc.2 hr⟩

theorem CtxOK.fromRhs {v : α} (h : p v = true) : CtxOK p (Ctx.fromRhs v) :=
  (CtxOK.new hp).addRhs hp h

theorem CtxOK.fromVar (n : String) {v : α} (h : p v = true) : CtxOK p (Ctx.fromVar n v) :=
  (CtxOK.new hp).addVar hp n h

theorem CtxOK.foldAdd (f : α → α) (hf : ∀ a, p a = true → p (f a) = true) (vs : List (String × α))
    (hvs : ∀ q ∈ vs, p q.2 = true) (c : Ctx α) (hc : CtxOK p c) :
    CtxOK p (vs.foldl (fun acc (q : String × α) => acc.addVar q.1 (f q.2)) c) := by
  induction vs generalizing c with
  | nil => exact hc
  | cons q qs ih =>
    simp only [List.foldl_cons]
    exact ih (fun q' hq' => hvs q' (by simp [hq'])) _ (hc.addVar hp _ (hf _ (hvs q (by simp))))

theorem CtxOK.mergeAdd {c o : Ctx α} (hc : CtxOK p c) (ho : CtxOK p o) : CtxOK p (c.mergeAdd o) := by
  unfold Ctx.mergeAdd
  exact (CtxOK.foldAdd hp id (fun _ h => h) o.vars ho.1 c hc).addRhs hp ho.2

theorem CtxOK.mergeSub {c o : Ctx α} (hc : CtxOK p c) (ho : CtxOK p o) : CtxOK p (c.mergeSub o) := by
  unfold Ctx.mergeSub
  exact (CtxOK.foldAdd hp Arith.neg hp.neg o.vars ho.1 c hc).addRhs hp (hp.neg _ ho.2)

theorem CtxOK.mulBy {c : Ctx α} (hc : CtxOK p c) {m : α} (hm : p m = true) : CtxOK p (c.mulBy m) := by
  refine ⟨?_, hp.mul _ _ hc.2 hm⟩
  intro q hq
  simp only [Ctx.mulBy, List.mem_map] at hq
  obtain ⟨⟨n, v⟩, hmem, rfl⟩ := hq
  exact hp.mul _ _ (hc.1 _ hmem) hm

theorem CtxOK.divBy {c : Ctx α} (hc : CtxOK p c) {d : α} (hd : p d = true) (hz : Arith.eq d Arith.zero = false) :
    CtxOK p (c.divBy d) := by
  refine ⟨?_, hp.div _ _ hc.2 hd hz⟩
  intro q hq
  simp only [Ctx.divBy, List.mem_map] at hq
  obtain ⟨⟨n, v⟩, hmem, rfl⟩ := hq
  exact hp.div _ _ (hc.1 _ hmem) hd hz

theorem CtxOK.negate {c : Ctx α} (hc : CtxOK p c) : CtxOK p ((c.mulBy (Arith.ofInt (-1))).addRhs Arith.one) :=
  (hc.mulBy hp (hp.ofInt _)).addRhs hp (hp.ofInt 1)

theorem allLits_ctxToExp {c : Ctx α} (hc : CtxOK p c) : allLits p (ctxToExp c) = true := by
  unfold ctxToExp
  suffices h : ∀ (vs : List (String × α)) (e : Exp α), (∀ q ∈ vs, p q.2 = true) → allLits p e = true →
      allLits p (vs.foldl (fun e (q : String × α) => .bin .add e (.bin .mul (.num q.2) (.var q.1))) e) = true from
    h c.vars _ hc.1 (by simp [allLits, hc.2])
  intro vs
  induction vs with
  | nil => intro e _ he; exact he
  | cons q qs ih =>
    intro e hq he
    simp only [List.foldl_cons]
    exact ih _ (fun q' hq' => hq q' (by simp [hq'])) (by simp [allLits, he, hq q (by simp)])

theorem allLits_sumExps {es : List (Exp α)} (h' : allLitsL p es = true) : allLits p (sumExps es) = true := by
  have h := (allLitsL_iff p es).mp h'
  cases es with
  | nil => simp [sumExps, allLits]; exact hp.ofInt 0
  | cons e es =>
    simp only [sumExps]
    suffices h' : ∀ (es : List (Exp α)) (e : Exp α), (∀ x ∈ es, allLits p x = true) → allLits p e = true →
        allLits p (es.foldl addExp e) = true from
      h' es e (fun x hx => h x (by simp [hx])) (h e (by simp))
    intro es
    induction es with
    | nil => intro e _ he; exact he
    | cons x xs ih =>
      intro e hx he
      simp only [List.foldl_cons]
      exact ih _ (fun y hy => hx y (by simp [hy])) (by simp [addExp, allLits, he, hx x (by simp)])

end ctx

/-! ### the invariant -/

/-- a name the compiler may introduce. -/
def isAux (s : String) : Prop := WF.isAuxName s = true

theorem isAux_dollar (b : String) : isAux ("$" ++ b) := by
  unfold isAux WF.isAuxName
  rw [String.startsWith_string_iff, String.toList_append]
  exact ⟨b.toList, rfl⟩

theorem isAux_append {a : String} (h : isAux a) (b : String) : isAux (a ++ b) := by
  unfold isAux WF.isAuxName at *
  rw [String.startsWith_string_iff] at *
  rw [String.toList_append]
  obtain ⟨t, ht⟩ := h
  exact ⟨t ++ b.toList, by rw [← ht, List.append_assoc]⟩

def QOK (N : String → Prop) (p : α → Bool) (c : Constraint α) : Prop :=
  N c.name ∧ allLits p c.lhs = true ∧ allLits p c.rhs = true

def RowOK (N : String → Prop) (p : α → Bool) (r : MidRow α) : Prop :=
  N r.name ∧ (∀ q ∈ r.lhs, p q.2 = true) ∧ p r.rhs = true

def StOK (N : String → Prop) (p : α → Bool) (s : St α) : Prop :=
  (∀ c ∈ s.queue, QOK N p c) ∧ (∀ r ∈ s.rows, RowOK N p r)

def domNames (s : St α) : List String := s.domain.map (·.name)

/-! ### optional second half of the invariant: proper ranges

`BCfg.track α` switches it on (default: off, so that the structural and finiteness theorems need no order
axioms on the numbers).  A lower end is PROPER when it satisfies `p` or is `−inf`, an upper end when it satisfies
`p` or is `+inf`; with `p = isFinite` over `Ext K`: no NaN, no lower end `+inf`, no upper end `−inf`. -/

class BCfg (α : Type) where
  track : Bool
  /-- an additional predicate on ranges carried along with properness (e.g. `lower ≤ upper`); default: none -/
  exB : Bounds α → Prop := fun _ => True
  /-- … and the corresponding predicate on declared types -/
  exT : VarType α → Prop := fun _ => True

instance (priority := low) defaultBCfg : BCfg α := { track := false }

def LOK (p : α → Bool) (a : α) : Prop := p a = true ∨ Arith.eq a negInf = true
def UOK (p : α → Bool) (a : α) : Prop := p a = true ∨ Arith.eq a posInf = true
/-- a proper range. -/
def BP (p : α → Bool) (b : Bounds α) : Prop := LOK p b.lower ∧ UOK p b.upper
/-- a proper variable type (`NonNegativeReal(lo, hi)`: `lo` satisfies `p` and `0 ≤ lo`). -/
def TP (p : α → Bool) : VarType α → Prop
  | .bool => True
  | .int _ _ => True
  | .real lo hi => LOK p lo ∧ UOK p hi
  | .nnreal lo hi => p lo = true ∧ Arith.le zero lo = true ∧ UOK p hi

/-- what the arithmetic of `Bounds` has to satisfy for properness to be an invariant. -/
structure BAx (p : α → Bool) : Prop where
  unbL : LOK p (negInf : α)
  unbU : UOK p (posInf : α)
  negL : ∀ a, LOK p a → UOK p (Arith.neg a)
  negU : ∀ a, UOK p a → LOK p (Arith.neg a)
  lsum : ∀ a b, LOK p a → LOK p b → LOK p (Bounds.lowerSum a b)
  usum : ∀ a b, UOK p a → UOK p b → UOK p (Bounds.upperSum a b)
  scale : ∀ (b : Bounds α) c, BP p b → p c = true → BP p (b.scale c)
  divBy : ∀ (b : Bounds α) d, BP p b → p d = true → BP p (b.divBy d)
  abs : ∀ (b : Bounds α), BP p b → BP p b.abs
  fminL : ∀ a b, LOK p a → LOK p b → LOK p (Arith.fmin a b)
  fminU : ∀ a b, UOK p a → UOK p b → UOK p (Arith.fmin a b)
  fmaxL : ∀ a b, LOK p a → LOK p b → LOK p (Arith.fmax a b)
  fmaxU : ∀ a b, UOK p a → UOK p b → UOK p (Arith.fmax a b)
  /-- the upper end of the `$abs_k` auxiliary when the operand may change sign -/
  absHi : ∀ (b : Bounds α), BP p b → Arith.ge b.lower zero = false → Arith.le b.upper zero = false →
    UOK p (Arith.fmax (Arith.neg b.lower) b.upper)
  le00 : Arith.le (zero : α) zero = true

/-- proper and satisfying the additional predicate of the configuration. -/
def BPx [BCfg α] (p : α → Bool) (b : Bounds α) : Prop := BP p b ∧ BCfg.exB b
def TPx [BCfg α] (p : α → Bool) (ty : VarType α) : Prop := TP p ty ∧ BCfg.exT ty

/-- what the additional predicate has to satisfy: it holds for the range of a good declared type, it is kept by
the interval evaluation `boundsOf` (over a bounds map all of whose entries are good), and the three kinds of
auxiliary type (`Boolean`, `NonNegativeReal(0, max(−lo, hi))`, `Real(lo, hi)`) built from a good range are good. -/
structure ExAx [BCfg α] (p : α → Bool) : Prop where
  ofTy : ∀ ty : VarType α, TP p ty → BCfg.exT ty → BCfg.exB (Bounds.ofVarType ty)
  boundsOf : ∀ bm : BoundsMap α, (∀ x, BPx p (varBounds bm x)) → ∀ e, allLits p e = true → BCfg.exB (boundsOf bm e)
  bool : BCfg.exT (VarType.bool : VarType α)
  absT : ∀ b : Bounds α, BP p b → BCfg.exB b → BCfg.exT (.nnreal zero (fmax (Arith.neg b.lower) b.upper))
  realT : ∀ b : Bounds α, BCfg.exB b → BCfg.exT (.real b.lower b.upper)

def BOK [BCfg α] (p : α → Bool) (s : St α) : Prop :=
  BCfg.track α = true → (∀ x, BPx p (varBounds s.bounds x)) ∧ (∀ v ∈ s.domain, TPx p v.ty)

/-- the arithmetic axioms are needed only when the tracking is on. -/
def BTrack [BCfg α] (p : α → Bool) : Prop := BCfg.track α = true → BAx p ∧ ExAx p

/-- the invariant of the linearizer state. -/
def Inv [BCfg α] (N : String → Prop) (p : α → Bool) (s : St α) : Prop := StOK N p s ∧ BOK p s

structure Rel (N : String → Prop) (p : α → Bool) (s s' : St α) : Prop where
  grow : ∃ added : List (DomVar α), s'.domain = s.domain ++ added ∧ ∀ v ∈ added, v.usage = 1 ∧ isAux v.name
  nodup : (domNames s).Nodup → (domNames s').Nodup
  ok : StOK N p s → StOK N p s'
  /-- the bound of a variable that is already declared never changes (`declareVariable` only writes the
  entry of the fresh name). -/
  bnd : ∀ x ∈ domNames s, lookupB s'.bounds x = lookupB s.bounds x

theorem domNames_subset_of_grow {s s' : St α} {added : List (DomVar α)} (h : s'.domain = s.domain ++ added) :
    ∀ x ∈ domNames s, x ∈ domNames s' := by
  intro x hx
  unfold domNames at *
  rw [h, List.map_append]
  exact List.mem_append_left _ hx

theorem rel_isPre (N : String → Prop) (p : α → Bool) : IsPre (Rel (α := α) N p) where
  refl s := ⟨⟨[], by simp, by simp⟩, id, id, fun _ _ => rfl⟩
  trans := by
    intro a b c h1 h2
    obtain ⟨x, hx, hxa⟩ := h1.grow
    obtain ⟨y, hy, hya⟩ := h2.grow
    refine ⟨⟨x ++ y, by rw [hy, hx, List.append_assoc], ?_⟩, fun h => h2.nodup (h1.nodup h),
      fun h => h2.ok (h1.ok h), ?_⟩
    · intro v hv
      rcases List.mem_append.mp hv with hv | hv
      · exact hxa v hv
      · exact hya v hv
    · intro n hn
      rw [h2.bnd n (domNames_subset_of_grow hx n hn), h1.bnd n hn]

/-- a state change that leaves the domain and the bounds map alone. -/
theorem Rel.of_domain_eq {N : String → Prop} {p : α → Bool} {s s' : St α} (hd : s'.domain = s.domain)
    (hb : s'.bounds = s.bounds) (hok : StOK N p s → StOK N p s') : Rel N p s s' :=
  ⟨⟨[], by simp [hd], by simp⟩, by unfold domNames; rw [hd]; exact id, hok, fun _ _ => by rw [hb]⟩

/-! ### the bounds map under `insert_variable` -/

theorem lookupB_append_ne (m : BoundsMap α) (n x : String) (b : Bounds α) (h : x ≠ n) :
    lookupB (m ++ [(n, b)]) x = lookupB m x := by
  unfold lookupB
  rw [List.find?_append]
  cases hf : m.find? (fun q => q.1 == x) with
  | some q => simp
  | none =>
    have : (n == x) = false := by simpa using (Ne.symm h)
    simp [List.find?, this]

theorem lookupB_replace_ne (m : BoundsMap α) (n x : String) (b : Bounds α) (h : x ≠ n) :
    lookupB (m.map fun (q : String × Bounds α) => if q.1 == n then (q.1, b) else (q.1, q.2)) x = lookupB m x := by
  unfold lookupB
  induction m with
  | nil => rfl
  | cons q qs ih =>
    obtain ⟨k, v⟩ := q
    simp only [List.map_cons, List.find?_cons]
    by_cases hk : (k == n) = true
    · have hkn : k = n := by simpa using hk
      have hkx : (k == x) = false := by rw [hkn]; simpa using (Ne.symm h)
      simp only [hk, if_true, hkx]
      exact ih
    · simp only [hk, if_false, Bool.false_eq_true]
      cases hkx : (k == x)
      · exact ih
      · rfl

theorem lookupB_append_self (m : BoundsMap α) (n : String) (b : Bounds α)
    (h : m.any (fun q => q.1 == n) = false) : lookupB (m ++ [(n, b)]) n = some b := by
  unfold lookupB
  rw [List.find?_append]
  have : m.find? (fun q => q.1 == n) = none := by
    rw [List.find?_eq_none]
    intro q hq hqn
    have : m.any (fun q => q.1 == n) = true := List.any_eq_true.mpr ⟨q, hq, hqn⟩
    rw [h] at this; cases this
  simp [this]

theorem lookupB_replace_self (m : BoundsMap α) (n : String) (b : Bounds α)
    (h : m.any (fun q => q.1 == n) = true) :
    lookupB (m.map fun (q : String × Bounds α) => if q.1 == n then (q.1, b) else (q.1, q.2)) n = some b := by
  unfold lookupB
  induction m with
  | nil => simp at h
  | cons q qs ih =>
    obtain ⟨k, v⟩ := q
    simp only [List.map_cons, List.find?_cons]
    by_cases hk : (k == n) = true
    · simp [hk]
    · have hk' : (k == n) = false := by simpa using hk
      simp only [hk', if_false, Bool.false_eq_true]
      apply ih
      simpa [List.any_cons, hk'] using h

/-! ### the primitive actions -/

section prims
variable [BCfg α] {N : String → Prop} {p : α → Bool}

/-- a proper type has proper bounds. -/
theorem BP_ofVarType (hp : Closed p) {ty : VarType α} (h : TP p ty) : BP p (Bounds.ofVarType ty) := by
  cases ty with
  | bool => exact ⟨Or.inl (hp.ofInt 0), Or.inl (hp.ofInt 1)⟩
  | int lo hi => exact ⟨Or.inl (hp.ofInt lo), Or.inl (hp.ofInt hi)⟩
  | real lo hi => exact h
  | nnreal lo hi => exact ⟨Or.inl h.1, h.2.2⟩

/-- a state change that keeps queue, rows, domain and bounds keeps the invariant. -/
theorem Inv.of_eq {s s' : St α} (hd : s'.domain = s.domain) (hb : s'.bounds = s.bounds)
    (hq : s'.queue = s.queue) (hr : s'.rows = s.rows) (h : Inv N p s) : Inv N p s' := by
  refine ⟨?_, ?_⟩
  · unfold StOK; rw [hq, hr]; exact h.1
  · intro ht; rw [hd, hb]; exact h.2 ht

theorem declareVariable_sp (hp : Closed p) {v : String} (hv : isAux v) {ty : VarType α}
    (hty : BCfg.track α = true → TPx p ty ∧ BCfg.exB (Bounds.ofVarType ty)) (s : St α) :
    SpAt (Rel N p) (Inv N p) s (declareVariable v ty) (fun _ => True) := by
  unfold declareVariable
  apply SpAt.get_bind
  intro hI
  split
  · exact SpAt.fail (rel_isPre _ _) trivial
  · rename_i hnot
    have hfresh : ∀ x ∈ domNames s, x ≠ v := by
      intro x hx hxv
      apply hnot
      simp only [domNames, List.mem_map] at hx
      obtain ⟨d, hd, hdn⟩ := hx
      simp only [List.any_eq_true, beq_iff_eq]
      exact ⟨d, hd, hdn.trans hxv⟩
    refine SpAt.set ?_ ?_ trivial
    · refine ⟨⟨[_], rfl, ?_⟩, ?_, id, ?_⟩
      · intro x hx
        simp only [List.mem_singleton] at hx
        subst hx
        exact ⟨rfl, hv⟩
      · intro hnd
        simp only [domNames, List.map_append, List.map_cons, List.map_nil]
        refine List.nodup_append.mpr ⟨hnd, by simp, ?_⟩
        intro a ha b hb
        simp only [List.mem_singleton] at hb
        subst hb
        exact hfresh a ha
      · intro x hx
        dsimp only
        split
        · exact lookupB_replace_ne _ _ _ _ (hfresh x hx)
        · exact lookupB_append_ne _ _ _ _ (hfresh x hx)
    · intro hI'
      refine ⟨hI'.1, ?_⟩
      intro ht
      obtain ⟨hb, hd⟩ := hI'.2 ht
      refine ⟨?_, ?_⟩
      · intro x
        dsimp only
        by_cases hx : x = v
        · subst hx
          unfold varBounds
          split
          · rename_i hany
            rw [lookupB_replace_self _ _ _ hany]
            exact ⟨BP_ofVarType hp (hty ht).1.1, (hty ht).2⟩
          · rename_i hany
            rw [lookupB_append_self _ _ _ (Bool.eq_false_iff.mpr hany)]
            exact ⟨BP_ofVarType hp (hty ht).1.1, (hty ht).2⟩
        · unfold varBounds
          split
          · rw [lookupB_replace_ne _ _ _ _ hx]; exact hb x
          · rw [lookupB_append_ne _ _ _ _ hx]; exact hb x
      · intro d hd'
        dsimp only at hd'
        rcases List.mem_append.mp hd' with h | h
        · exact hd d h
        · simp only [List.mem_singleton] at h
          subst h
          exact (hty ht).1

theorem addConstraint_sp {c : Constraint α} (hc : QOK N p c) (s : St α) :
    SpAt (Rel N p) (Inv N p) s (addConstraint c) (fun _ => True) := by
  unfold addConstraint
  have hok : StOK N p s → StOK N p { s with queue := c :: s.queue } := by
    intro hok
    refine ⟨?_, hok.2⟩
    intro c' hc'
    rcases List.mem_cons.mp hc' with rfl | h
    · exact hc
    · exact hok.1 _ h
  exact SpAt.modify (Rel.of_domain_eq rfl rfl hok) (fun hI => ⟨hok hI.1, hI.2⟩) trivial

theorem mkC_ok (hN : N "") {l r : Exp α} {c : Cmp} (hl : allLits p l = true) (hr : allLits p r = true) :
    QOK N p (mkC l c r) := ⟨hN, hl, hr⟩

/-- bumping a fresh-name counter (or any change that keeps queue, rows and domain). -/
theorem Rel.counter {s s' : St α} (hd : s'.domain = s.domain) (hb : s'.bounds = s.bounds)
    (hq : s'.queue = s.queue) (hr : s'.rows = s.rows) : Rel N p s s' :=
  Rel.of_domain_eq hd hb (by intro h; unfold StOK; rw [hq, hr]; exact h)

end prims

/-! ### `bounds_of` yields proper ranges -/

section boundsOf
variable {p : α → Bool} (hp : Closed p) (hB : BAx p)
include hp hB

theorem BP_unbounded : BP p (Bounds.unbounded : Bounds α) := ⟨hB.unbL, hB.unbU⟩
theorem BP_zeroOne : BP p (⟨Arith.zero, Arith.one⟩ : Bounds α) := ⟨Or.inl (hp.ofInt 0), Or.inl (hp.ofInt 1)⟩
theorem BP_neg {b : Bounds α} (h : BP p b) : BP p b.neg := ⟨hB.negU _ h.2, hB.negL _ h.1⟩
theorem BP_add {a b : Bounds α} (ha : BP p a) (hb : BP p b) : BP p (a.add b) :=
  ⟨hB.lsum _ _ ha.1 hb.1, hB.usum _ _ ha.2 hb.2⟩

theorem BP_foldMin : ∀ (bs : List (Bounds α)) (b : Bounds α), BP p b → (∀ x ∈ bs, BP p x) →
    BP p (bs.foldl (fun c n => ⟨fmin c.lower n.lower, fmin c.upper n.upper⟩) b)
  | [], b, hb, _ => hb
  | x :: xs, b, hb, h =>
    BP_foldMin xs _ ⟨hB.fminL _ _ hb.1 (h x (by simp)).1, hB.fminU _ _ hb.2 (h x (by simp)).2⟩
      (fun y hy => h y (by simp [hy]))

theorem BP_foldMax : ∀ (bs : List (Bounds α)) (b : Bounds α), BP p b → (∀ x ∈ bs, BP p x) →
    BP p (bs.foldl (fun c n => ⟨fmax c.lower n.lower, fmax c.upper n.upper⟩) b)
  | [], b, hb, _ => hb
  | x :: xs, b, hb, h =>
    BP_foldMax xs _ ⟨hB.fmaxL _ _ hb.1 (h x (by simp)).1, hB.fmaxU _ _ hb.2 (h x (by simp)).2⟩
      (fun y hy => h y (by simp [hy]))

/-- with a proper bounds map, the derived range of an expression whose literals satisfy `p` is proper. -/
theorem boundsOf_BP (bm : BoundsMap α) (hbm : ∀ x, BP p (varBounds bm x)) (e : Exp α) :
    allLits p e = true → BP p (boundsOf bm e) := by
  apply boundsOf.induct bm
    (motive_1 := fun e => allLits p e = true → BP p (boundsOf bm e))
    (motive_2 := fun es => allLitsL p es = true → ∀ x ∈ boundsOfList bm es, BP p x)
  case case1 => intro v h; simp only [allLits] at h; simp only [boundsOf]; exact ⟨Or.inl h, Or.inl h⟩
  case case2 => intro n _; simp only [boundsOf]; exact hbm n
  case case3 => intro e ih h; simp only [allLits] at h; simp only [boundsOf]; exact hB.abs _ (ih h)
  case case4 => intro es hl _ _; simp only [boundsOf, hl]; exact BP_unbounded hp hB
  case case5 =>
    intro es b bs hl ih h
    simp only [allLits] at h
    simp only [boundsOf, hl]
    have := ih h
    rw [hl] at this
    exact BP_foldMin hp hB bs b (this b (by simp)) (fun x hx => this x (by simp [hx]))
  case case6 => intro es hl _ _; simp only [boundsOf, hl]; exact BP_unbounded hp hB
  case case7 =>
    intro es b bs hl ih h
    simp only [allLits] at h
    simp only [boundsOf, hl]
    have := ih h
    rw [hl] at this
    exact BP_foldMax hp hB bs b (this b (by simp)) (fun x hx => this x (by simp [hx]))
  case case8 => intro es _; simp only [boundsOf]; exact BP_zeroOne hp hB
  case case9 => intro es _; simp only [boundsOf]; exact BP_zeroOne hp hB
  case case10 => intro e _; simp only [boundsOf]; exact BP_zeroOne hp hB
  case case11 => intro a b _; simp only [boundsOf]; exact BP_zeroOne hp hB
  case case12 => intro a b _; simp only [boundsOf]; exact BP_zeroOne hp hB
  case case13 => intro a b _; simp only [boundsOf]; exact BP_zeroOne hp hB
  case case14 =>
    intro a b iha ihb h
    simp only [allLits, Bool.and_eq_true] at h
    simp only [boundsOf]; exact BP_add hp hB (iha h.1) (ihb h.2)
  case case15 =>
    intro a b iha ihb h
    simp only [allLits, Bool.and_eq_true] at h
    simp only [boundsOf, Bounds.sub]; exact BP_add hp hB (iha h.1) (BP_neg hp hB (ihb h.2))
  case case16 =>
    intro v b ih h
    simp only [allLits, Bool.and_eq_true] at h
    simp only [boundsOf]; exact hB.scale _ _ (ih h.2) h.1
  case case17 =>
    intro a v hna ih h
    simp only [allLits, Bool.and_eq_true] at h
    rw [boundsOf]
    · exact hB.scale _ _ (ih h.1) h.2
    · exact hna
  case case18 =>
    intro a b hna hnb _
    rw [boundsOf]
    · exact BP_unbounded hp hB
    · exact hna
    · exact hnb
  case case19 =>
    intro a v hv ih h
    simp only [allLits, Bool.and_eq_true] at h
    simp only [boundsOf, hv, if_true]; exact hB.divBy _ _ (ih h.1) h.2
  case case20 =>
    intro a v hv _
    simp only [boundsOf, hv, if_false, Bool.false_eq_true]; exact BP_unbounded hp hB
  case case21 =>
    intro a b hnb _
    rw [boundsOf]
    · exact BP_unbounded hp hB
    · exact hnb
  case case22 =>
    intro op a b h1 h2 h3 h4 h5 h6 h7 _
    rw [boundsOf]
    · exact BP_zeroOne hp hB
    all_goals assumption
  case case23 => intro e ih h; simp only [allLits] at h; simp only [boundsOf]; exact BP_neg hp hB (ih h)
  case case24 => intro e _; simp only [boundsOf]; exact BP_zeroOne hp hB
  case case25 => intro _ x hx; simp [boundsOfList] at hx
  case case26 =>
    intro e es ih1 ih2 h x hx
    simp only [allLitsL, Bool.and_eq_true] at h
    simp only [boundsOfList, List.mem_cons] at hx
    rcases hx with rfl | hx
    · exact ih1 h.1
    · exact ih2 h.2 x hx

theorem boundsOfList_BP (bm : BoundsMap α) (hbm : ∀ x, BP p (varBounds bm x)) :
    ∀ (es : List (Exp α)), allLitsL p es = true → ∀ x ∈ boundsOfList bm es, BP p x
  | [], _, x, hx => by simp [boundsOfList] at hx
  | e :: es, h, x, hx => by
    simp only [allLitsL, Bool.and_eq_true] at h
    simp only [boundsOfList, List.mem_cons] at hx
    rcases hx with rfl | hx
    · exact boundsOf_BP hp hB bm hbm e h.1
    · exact boundsOfList_BP bm hbm es h.2 x hx

end boundsOf

/-! ### the types of the auxiliaries are proper -/

section auxTypes
variable [BCfg α] {N : String → Prop} {p : α → Bool}

theorem tp_bool (hB : BTrack p) : BCfg.track α = true →
    TPx p (VarType.bool : VarType α) ∧ BCfg.exB (Bounds.ofVarType (VarType.bool : VarType α)) :=
  fun ht => ⟨⟨trivial, (hB ht).2.bool⟩, (hB ht).2.ofTy _ trivial (hB ht).2.bool⟩

/-- the ranges of the bounds map without the additional predicate. -/
theorem Inv.bp {s : St α} (hI : Inv N p s) (ht : BCfg.track α = true) : ∀ x, BP p (varBounds s.bounds x) :=
  fun x => ((hI.2 ht).1 x).1

theorem allLitsL_selectFlagged : ∀ (es : List (Exp α)) (fs : List Bool), allLitsL p es = true →
    allLitsL p (selectFlagged es fs) = true
  | [], _, _ => by simp [selectFlagged, allLitsL]
  | _ :: _, [], _ => by simp [selectFlagged, allLitsL]
  | e :: es, f :: fs, h => by
    simp only [allLitsL, Bool.and_eq_true] at h
    have ih := allLitsL_selectFlagged es fs h.2
    cases f <;> simp [selectFlagged, allLitsL, h.1, ih]

/-- the type of `$abs_k`. -/
theorem tp_abs (hp : Closed p) (hB : BTrack p) {s : St α} (hI : Inv N p s) {e : Exp α}
    (he : allLits p e = true) (h1 : ¬ Arith.ge (boundsOf s.bounds e).lower zero = true)
    (h2 : ¬ Arith.le (boundsOf s.bounds e).upper zero = true) :
    BCfg.track α = true →
      TPx p (.nnreal zero (fmax (Arith.neg (boundsOf s.bounds e).lower) (boundsOf s.bounds e).upper)) ∧
      BCfg.exB (Bounds.ofVarType
        (.nnreal zero (fmax (Arith.neg (boundsOf s.bounds e).lower) (boundsOf s.bounds e).upper))) := by
  intro ht
  have hb := boundsOf_BP hp (hB ht).1 s.bounds (hI.bp ht) e he
  have hx := (hB ht).2.boundsOf s.bounds (hI.2 ht).1 e he
  have htp : TP p (.nnreal zero (fmax (Arith.neg (boundsOf s.bounds e).lower) (boundsOf s.bounds e).upper)) :=
    ⟨hp.ofInt 0, (hB ht).1.le00, (hB ht).1.absHi _ hb (by simpa using h1) (by simpa using h2)⟩
  have hxt := (hB ht).2.absT _ hb hx
  exact ⟨⟨htp, hxt⟩, (hB ht).2.ofTy _ htp hxt⟩

/-- the type of `$min_k`. -/
theorem tp_min (hp : Closed p) (hB : BTrack p) {s : St α} (hI : Inv N p s) {es : List (Exp α)}
    (he : allLitsL p es = true) (fs : List Bool) :
    BCfg.track α = true →
      TPx p (.real (boundsOf s.bounds (.min (selectFlagged es fs))).lower
        (boundsOf s.bounds (.min (selectFlagged es fs))).upper) ∧
      BCfg.exB (Bounds.ofVarType (.real (boundsOf s.bounds (.min (selectFlagged es fs))).lower
        (boundsOf s.bounds (.min (selectFlagged es fs))).upper)) := by
  intro ht
  have hl : allLits p (.min (selectFlagged es fs)) = true := by
    simp only [allLits]; exact allLitsL_selectFlagged es fs he
  have htp := boundsOf_BP hp (hB ht).1 s.bounds (hI.bp ht) _ hl
  have hxt := (hB ht).2.realT _ ((hB ht).2.boundsOf s.bounds (hI.2 ht).1 _ hl)
  exact ⟨⟨htp, hxt⟩, (hB ht).2.ofTy _ htp hxt⟩

/-- the type of `$max_k`. -/
theorem tp_max (hp : Closed p) (hB : BTrack p) {s : St α} (hI : Inv N p s) {es : List (Exp α)}
    (he : allLitsL p es = true) (fs : List Bool) :
    BCfg.track α = true →
      TPx p (.real (boundsOf s.bounds (.max (selectFlagged es fs))).lower
        (boundsOf s.bounds (.max (selectFlagged es fs))).upper) ∧
      BCfg.exB (Bounds.ofVarType (.real (boundsOf s.bounds (.max (selectFlagged es fs))).lower
        (boundsOf s.bounds (.max (selectFlagged es fs))).upper)) := by
  intro ht
  have hl : allLits p (.max (selectFlagged es fs)) = true := by
    simp only [allLits]; exact allLitsL_selectFlagged es fs he
  have htp := boundsOf_BP hp (hB ht).1 s.bounds (hI.bp ht) _ hl
  have hxt := (hB ht).2.realT _ ((hB ht).2.boundsOf s.bounds (hI.2 ht).1 _ hl)
  exact ⟨⟨htp, hxt⟩, (hB ht).2.ofTy _ htp hxt⟩

end auxTypes

/-! ### `reify_logic_variable` -/

theorem reify_sp [BCfg α] {N : String → Prop} {p : α → Bool} (hN : N "") (hp : Closed p) (hB : BTrack p)
    {v : String} (hv : isAux v)
    {cs : List (Cmp × Exp α)} (hcs : ∀ q ∈ cs, allLits p q.2 = true) (s : St α) :
    SpAt (Rel N p) (Inv N p) s (reify v cs) (CtxOK p) := by
  unfold reify
  refine SpAt.bind (rel_isPre _ _) (SpAt.forIn (rel_isPre _ _) _ _ _ ?_ s) ?_
  · intro q hq b s1
    obtain ⟨c, rhs⟩ := q
    dsimp only
    refine SpAt.bind (rel_isPre _ _) (addConstraint_sp (mkC_ok hN (by simp [allLits]) (hcs _ hq)) s1) ?_
    intro _ _ s2
    exact SpAt.pure (rel_isPre _ _) trivial
  · intro _ _ s1
    refine SpAt.bind (rel_isPre _ _) (declareVariable_sp (ty := .bool) hp hv (tp_bool hB) s1) ?_
    intro _ _ s2
    exact SpAt.pure (rel_isPre _ _) (CtxOK.fromVar hp _ (hp.ofInt 1))

/-! ### the auxiliary-name prefixes -/

theorem isAux_and : isAux (toString "$and_") := isAux_dollar "and_"
theorem isAux_or : isAux (toString "$or_") := isAux_dollar "or_"
theorem isAux_xor : isAux (toString "$xor_") := isAux_dollar "xor_"
theorem isAux_implies : isAux (toString "$implies_") := isAux_dollar "implies_"
theorem isAux_iff : isAux (toString "$iff_") := isAux_dollar "iff_"
theorem isAux_abs : isAux (toString "$abs_") := isAux_dollar "abs_"
theorem isAux_witness : isAux (toString "$logic_witness_") := isAux_dollar "logic_witness_"
theorem isAux_bare : isAux (toString "$") := isAux_dollar ""

theorem cs_map_append {p : α → Bool} (c c2 : Cmp) (ops : List (Exp α)) (e : Exp α)
    (hops : allLitsL p ops = true) (he : allLits p e = true) :
    ∀ q ∈ ops.map (fun o => (c, o)) ++ [(c2, e)], allLits p q.2 = true := by
  intro q hq
  rcases List.mem_append.mp hq with hq | hq
  · obtain ⟨o, ho, rfl⟩ := List.mem_map.mp hq
    exact (allLitsL_iff p _).mp hops o ho
  · simp only [List.mem_singleton] at hq
    subst hq
    exact he

theorem isAux_of_mem_map {β : Type} {f : β → String} {l : List β} {x : String}
    (hf : ∀ i, isAux (f i)) (h : x ∈ l.map f) : isAux x := by
  obtain ⟨i, _, rfl⟩ := List.mem_map.mp h
  exact hf i

theorem mem_zip3 {A B C : Type} {as : List A} {bs : List B} {cs : List C} {x : (A × B) × C}
    (h : x ∈ (as.zip bs).zip cs) : x.1.1 ∈ as ∧ x.1.2 ∈ bs ∧ x.2 ∈ cs := by
  obtain ⟨⟨a, b⟩, c⟩ := x
  have h1 := List.of_mem_zip h
  have h2 := List.of_mem_zip h1.1
  exact ⟨h2.1, h2.2, h1.2⟩

theorem allLits_of_mem_vars {p : α → Bool} {x : Exp α} {names : List String} (h : x ∈ names.map Exp.var) :
    allLits p x = true := by
  obtain ⟨n, _, rfl⟩ := List.mem_map.mp h
  simp [allLits]

theorem allLitsL_map_var {p : α → Bool} (names : List String) : allLitsL p (names.map Exp.var) = true :=
  (allLitsL_iff p _).mpr (fun _ h => allLits_of_mem_vars h)

theorem hasFinite_of_guard {one fin : Bool} (h : ¬ (!one && !fin) = true) (h1 : ¬ one = true) : fin = true := by
  cases one <;> cases fin <;> simp_all

/-- the finiteness check guarding an exact big-M lowering. -/
theorem finite_of_guard {a b : α} {c : Bool}
    (h : ¬ (c && (!(Arith.isFinite a) || !(Arith.isFinite b))) = true) (hc : c = true) :
    Arith.isFinite a = true ∧ Arith.isFinite b = true := by
  subst hc
  cases ha : Arith.isFinite a <;> cases hb : Arith.isFinite b <;> simp_all

/-! ### proof automation: one rule per program construct -/

theorem CtxOK.fromVarOne {p : α → Bool} (hp : Closed p) (n : String) : CtxOK p (Ctx.fromVar n Arith.one) :=
  CtxOK.fromVar hp n (hp.ofInt 1)
theorem CtxOK.fromRhsInt {p : α → Bool} (hp : Closed p) (i : Int) : CtxOK p (Ctx.fromRhs (Arith.ofInt i)) :=
  CtxOK.fromRhs hp (hp.ofInt i)

/-- side conditions: literal predicates, context predicates. -/
syntax "sp_side" : tactic
macro_rules
  | `(tactic| sp_side) => `(tactic| first
    | trivial
    | assumption
    | contradiction
    | exact absurd trivial (by assumption)
    | (apply CtxOK.mergeAdd (by assumption) <;> sp_side)
    | (apply CtxOK.mergeSub (by assumption) <;> sp_side)
    | (apply CtxOK.negate (by assumption); sp_side)
    | (apply CtxOK.mulBy (by assumption) <;> sp_side)
    | (apply CtxOK.divBy (by assumption) <;> sp_side)
    | (apply CtxOK.fromVarOne (by assumption))
    | (apply CtxOK.fromRhs (by assumption); sp_side)
    | (apply Closed.ofInt (by assumption))
    | (apply allLits_ctxToExp (by assumption); sp_side)
    | (apply allLits_sumExps (by assumption); sp_side)
    | (apply cs_map_append <;> sp_side)
    | exact allLitsL_map_var _
    | exact (allLitsL_iff _ _).mp (by assumption) _ (by assumption)
    | (apply Closed.mul (by assumption) <;> sp_side)
    | (apply Closed.sub (by assumption) <;> sp_side)
    | (apply Closed.ofFinite (by assumption); sp_side)
    | exact (finite_of_guard (by assumption) (by assumption)).1
    | exact (finite_of_guard (by assumption) (by assumption)).2
    | (simp only [List.mem_cons, List.mem_nil_iff, or_false, forall_eq_or_imp, forall_eq]; sp_side)
    | ((simp only [allLits, allLitsL, addExp, subExp, mulExp, Bool.and_eq_true]; repeat' constructor) <;> sp_side)
    | (simp_all [allLits, allLitsL, addExp, subExp, mulExp]; done))

/-- `isAux (toString "$…" ++ …)`. -/
syntax "sp_aux" : tactic
macro_rules
  | `(tactic| sp_aux) => `(tactic| first
    | assumption
    | exact isAux_and | exact isAux_or | exact isAux_xor | exact isAux_implies | exact isAux_iff
    | exact isAux_abs | exact isAux_witness | exact isAux_bare
    | (apply isAux_append; sp_aux)
    | (refine isAux_of_mem_map ?_ (by assumption); intro _; beta_reduce; sp_aux))

/-- a call whose spec is known. -/
macro "sp_call" : tactic => `(tactic| first
    | apply_sp_hyp
    | (apply declareVariable_sp (by assumption))
    | (apply addConstraint_sp; apply mkC_ok (by assumption))
    | (apply reify_sp (by assumption) (by assumption) (by assumption))
    | (refine SpAt.forIn (rel_isPre _ _) _ _ _ ?_ _; intro _ _ _ _))

/-- a goal that is not a program: auxiliary name, literal / context side condition, or properness of a type. -/
macro "sp_leaf" : tactic => `(tactic| first
    | sp_aux
    | sp_side
    | exact tp_bool (by assumption)
    | exact tp_abs (by assumption) (by assumption) (by assumption) (by assumption) (by assumption) (by assumption)
    | exact tp_min (by assumption) (by assumption) (by assumption) (by assumption) _
    | exact tp_max (by assumption) (by assumption) (by assumption) (by assumption) _)

open Lean Elab Tactic Meta in
/-- apply the rule for the head construct of the program (or try to close a side condition). -/
elab "sp_step" : tactic => do
  let g ← getMainGoal
  let k ← spKind (← g.getType)
  let tac ← match k with
    | "pure" => `(tactic| (apply SpAt.pure (rel_isPre _ _)))
    | "fail" => `(tactic| exact SpAt.fail (rel_isPre _ _) (by first | trivial | exact ⟨_, rfl⟩))
    | "ite" => `(tactic| split)
    | "match" => `(tactic| split)
    | "let" => `(tactic| dsimp only)
    | "beta" => `(tactic| dsimp only)
    | "get" => `(tactic| (apply SpAt.get_bind; intro _))
    | "set" => `(tactic| (refine SpAt.set_bind (rel_isPre _ _) (Rel.counter rfl rfl rfl rfl) (Inv.of_eq rfl rfl rfl rfl) ?_))
    | "set1" => `(tactic| (refine SpAt.set (Rel.counter rfl rfl rfl rfl) (Inv.of_eq rfl rfl rfl rfl) trivial))
    | "bind" => `(tactic| (apply SpAt.bind (rel_isPre _ _); rotate_left; intro _ _ _; rotate_right; sp_call))
    | "call" => `(tactic| sp_call)
    | _ => `(tactic| sp_leaf)
  evalTactic (← `(tactic| first | contradiction | exact absurd trivial (by assumption) | ($tac:tactic)))

macro "sp_go" : tactic => `(tactic| repeat' sp_step)

end Lin
end Rooc
