/-
The harness flag `nary-singleton-nonbinary` in Lean: `collapsesNonbinary` is the port of
`harness/src/props/c01.rs::collapses_nonbinary`; when it answers `false` and the Boolean variables are 0/1,
no and/or node collapses to a non-0/1 value (`NC`).
-/
import Rooc.Proofs.LinNC

set_option linter.unusedSectionVars false
set_option linter.unusedSimpArgs false
set_option linter.unusedVariables false

namespace Rooc.LinP
open Rooc Rooc.Lin Rooc.Sem Rooc.Exp
open Rooc.Lin.Gadget (B01)

variable {K : Type} [Field K] [LinearOrder K] [IsStrictOrderedRing K] [FloorRing K]

/-- `here` of the harness: does the and/or node `n` simplify to a single operand that is not a 0/1
expression? (`true` = flagged) -/
noncomputable def collapseHere (isBool : String → Bool) (n : Exp (Ext K)) : Bool :=
  match simplify n with
  | .and _ | .or _ | .num _ | .not _ | .xor _ _ | .implies _ _ | .iff _ _ => false
  | .var x => !(isBool x)
  | _ => true

mutual
/-- port of `collapses_nonbinary` (harness/src/props/c01.rs). -/
noncomputable def collapsesNonbinary (isBool : String → Bool) : Exp (Ext K) → Bool
  | .num _ => false
  | .var _ => false
  | .abs e => collapsesNonbinary isBool e
  | .not e => collapsesNonbinary isBool e
  | .un _ e => collapsesNonbinary isBool e
  | .min es => collapsesNonbinaryAny isBool es
  | .max es => collapsesNonbinaryAny isBool es
  | .and es => collapseHere isBool (.and es) || collapsesNonbinaryAny isBool es
  | .or es => collapseHere isBool (.or es) || collapsesNonbinaryAny isBool es
  | .xor a b => collapsesNonbinary isBool a || collapsesNonbinary isBool b
  | .implies a b => collapsesNonbinary isBool a || collapsesNonbinary isBool b
  | .iff a b => collapsesNonbinary isBool a || collapsesNonbinary isBool b
  | .bin op a b =>
    (match op with
     | .and | .or => collapseHere isBool (.bin op a b)
     | _ => false) || collapsesNonbinary isBool a || collapsesNonbinary isBool b
noncomputable def collapsesNonbinaryAny (isBool : String → Bool) : List (Exp (Ext K)) → Bool
  | [] => false
  | e :: es => collapsesNonbinary isBool e || collapsesNonbinaryAny isBool es
end

theorem collapsesNonbinaryAny_false (isBool : String → Bool) : ∀ es : List (Exp (Ext K)),
    collapsesNonbinaryAny isBool es = false ↔ ∀ e ∈ es, collapsesNonbinary isBool e = false
  | [] => by simp [collapsesNonbinaryAny]
  | e :: es => by simp [collapsesNonbinaryAny, collapsesNonbinaryAny_false isBool es]

/-- a numeral produced by the n-ary step is `0` or `1`. -/
theorem naryCore_num (isAnd : Bool) (cs : List (Exp (Ext K))) {c : Ext K} (h : naryCore isAnd cs = .num c) :
    c = Ext.fin 0 ∨ c = Ext.fin 1 := by
  rcases naryCore_cases isAnd cs with ⟨_, h2⟩ | ⟨_, h2⟩ | ⟨e, h1, h2⟩ | ⟨res, _, _, h2⟩
  · rw [h2] at h; cases isAnd <;> simp at h <;> simp [← h]
  · rw [h2] at h; cases isAnd <;> simp [logicNumber] at h <;> simp [← h]
  · rw [h2] at h; subst h
    exfalso
    unfold naryStep at h1
    split at h1
    · rename_i hu
      simp only [Option.some.injEq] at h1
      rw [naryKeep_eq_filter] at h1
      obtain ⟨x, hx, hxu⟩ := (mayBeUndefinedAny_iff _).1 hu
      have hxf : x ∈ (naryFlatten isAnd cs).filter (fun x => !(isIdentityLit isAnd x)) := by
        refine List.mem_filter.mpr ⟨hx, ?_⟩
        cases x <;> simp_all [isIdentityLit, mayBeUndefined]
      rw [h1] at hxf
      simp only [List.mem_singleton] at hxf
      subst hxf
      simp [mayBeUndefined] at hxu
    · have := naryScan_some h1
      have hm : Exp.num c ∈ [Exp.num c] := by simp
      rw [this] at hm
      have := (List.mem_filter.mp hm).2
      simp [isNum] at this
  · rw [h2] at h; cases isAnd <;> simp [mkNary] at h

theorem simplify_andOr_num {n : Exp (Ext K)} {c : Ext K}
    (hn : (∃ es, n = .and es) ∨ (∃ es, n = .or es) ∨ (∃ a b, n = .bin .and a b) ∨ (∃ a b, n = .bin .or a b))
    (h : simplify n = .num c) : c = Ext.fin 0 ∨ c = Ext.fin 1 := by
  rcases hn with ⟨es, rfl⟩ | ⟨es, rfl⟩ | ⟨a, b, rfl⟩ | ⟨a, b, rfl⟩
  · rw [simplify_and] at h; exact naryCore_num _ _ h
  · rw [simplify_or] at h; exact naryCore_num _ _ h
  · rw [simplify_bin, binCore] at h; exact naryCore_num _ _ h
  · rw [simplify_bin, binCore] at h; exact naryCore_num _ _ h

theorem is01_of_ofBoolish {ρ : String → K} {e : Exp (Ext K)}
    (h : ∀ v, eval ρ e = some v → ∃ b : Bool, v = ofBool b) : Is01 (eval ρ e) := by
  intro v hv; obtain ⟨b, rfl⟩ := h v hv; exact is01_ofBool b _ rfl

/-- an unflagged and/or node does not collapse to a non-0/1 value. -/
theorem collapseOK_of_here {isBool : String → Bool} {ρ : String → K} {n : Exp (Ext K)}
    (hB : ∀ x ∈ varsOf n, isBool x = true → B01 (ρ x))
    (hn : (∃ es, n = .and es) ∨ (∃ es, n = .or es) ∨ (∃ a b, n = .bin .and a b) ∨ (∃ a b, n = .bin .or a b))
    (h : collapseHere isBool n = false) : CollapseOK ρ n := by
  unfold CollapseOK
  unfold collapseHere at h
  cases hs : simplify n with
  | and es => exact is01_eval_and ρ es
  | or es => exact is01_eval_or ρ es
  | num c =>
    rcases simplify_andOr_num hn hs with rfl | rfl <;> intro v hv <;> rw [eval_num_fin] at hv <;> cases hv <;> simp
  | not e =>
    refine is01_of_ofBoolish (fun v hv => ?_)
    simp only [eval, Option.map_eq_some_iff] at hv
    obtain ⟨a, _, rfl⟩ := hv; exact ⟨_, rfl⟩
  | xor a b =>
    intro v hv
    simp only [eval] at hv
    cases ha : eval ρ a <;> cases hb : eval ρ b <;> simp [ha, hb, binVal] at hv
    rw [← hv]; exact is01_ofBool _ _ rfl
  | implies a b =>
    intro v hv
    simp only [eval] at hv
    cases ha : eval ρ a <;> cases hb : eval ρ b <;> simp [ha, hb, binVal] at hv
    rw [← hv]; exact is01_ofBool _ _ rfl
  | iff a b =>
    intro v hv
    simp only [eval] at hv
    cases ha : eval ρ a <;> cases hb : eval ρ b <;> simp [ha, hb, binVal] at hv
    rw [← hv]; exact is01_ofBool _ _ rfl
  | var x =>
    simp only [hs, Bool.not_eq_false'] at h
    intro v hv
    simp only [eval, Option.some.injEq] at hv
    subst hv
    refine hB x ?_ h
    have := varsIn_simplify (varsOf n) n (fun y hy => hy)
    rw [hs] at this
    exact this x (by simp [varsOf])
  | abs e => simp [hs] at h
  | min es => simp [hs] at h
  | max es => simp [hs] at h
  | bin op a b => simp [hs] at h
  | un op e => simp [hs] at h

/-- **unflagged ⇒ no collapsing node**, at every assignment whose Boolean variables are 0/1. -/
theorem NC_of_not_collapses {isBool : String → Bool} {ρ : String → K} {S : String → Prop}
    (hB : ∀ x, S x → isBool x = true → B01 (ρ x)) :
    ∀ e : Exp (Ext K), (∀ x ∈ varsOf e, S x) → collapsesNonbinary isBool e = false → NC ρ e := by
  intro e
  induction e using Exp.ind with
  | num v => intro _ _; simp [NC]
  | var s => intro _ _; simp [NC]
  | abs e ih => intro hs h; simp only [collapsesNonbinary] at h; simpa [NC] using ih (by simpa [varsOf] using hs) h
  | not e ih => intro hs h; simp only [collapsesNonbinary] at h; simpa [NC] using ih (by simpa [varsOf] using hs) h
  | un op e ih => intro hs h; simp only [collapsesNonbinary] at h; simpa [NC] using ih (by simpa [varsOf] using hs) h
  | min es ih =>
    intro hs h
    simp only [collapsesNonbinary, collapsesNonbinaryAny_false] at h
    simp only [NC, NCList_iff]
    exact fun e he => ih e he (fun x hx => hs x (by simp only [varsOf]; exact mem_varsOfList.mpr ⟨e, he, hx⟩)) (h e he)
  | max es ih =>
    intro hs h
    simp only [collapsesNonbinary, collapsesNonbinaryAny_false] at h
    simp only [NC, NCList_iff]
    exact fun e he => ih e he (fun x hx => hs x (by simp only [varsOf]; exact mem_varsOfList.mpr ⟨e, he, hx⟩)) (h e he)
  | and es ih =>
    intro hs h
    simp only [collapsesNonbinary, Bool.or_eq_false_iff, collapsesNonbinaryAny_false] at h
    simp only [NC, NCList_iff]
    exact ⟨collapseOK_of_here (fun x hx => hB x (hs x hx)) (Or.inl ⟨es, rfl⟩) h.1,
      fun e he => ih e he (fun x hx => hs x (by simp only [varsOf]; exact mem_varsOfList.mpr ⟨e, he, hx⟩)) (h.2 e he)⟩
  | or es ih =>
    intro hs h
    simp only [collapsesNonbinary, Bool.or_eq_false_iff, collapsesNonbinaryAny_false] at h
    simp only [NC, NCList_iff]
    exact ⟨collapseOK_of_here (fun x hx => hB x (hs x hx)) (Or.inr (Or.inl ⟨es, rfl⟩)) h.1,
      fun e he => ih e he (fun x hx => hs x (by simp only [varsOf]; exact mem_varsOfList.mpr ⟨e, he, hx⟩)) (h.2 e he)⟩
  | xor a b iha ihb =>
    intro hs h; simp only [collapsesNonbinary, Bool.or_eq_false_iff] at h
    exact ⟨iha (fun x hx => hs x (by simp [varsOf, hx])) h.1, ihb (fun x hx => hs x (by simp [varsOf, hx])) h.2⟩
  | implies a b iha ihb =>
    intro hs h; simp only [collapsesNonbinary, Bool.or_eq_false_iff] at h
    exact ⟨iha (fun x hx => hs x (by simp [varsOf, hx])) h.1, ihb (fun x hx => hs x (by simp [varsOf, hx])) h.2⟩
  | iff a b iha ihb =>
    intro hs h; simp only [collapsesNonbinary, Bool.or_eq_false_iff] at h
    exact ⟨iha (fun x hx => hs x (by simp [varsOf, hx])) h.1, ihb (fun x hx => hs x (by simp [varsOf, hx])) h.2⟩
  | bin op a b iha ihb =>
    intro hs h
    simp only [collapsesNonbinary, Bool.or_eq_false_iff] at h
    refine ⟨iha (fun x hx => hs x (by simp [varsOf, hx])) h.1.2, ihb (fun x hx => hs x (by simp [varsOf, hx])) h.2, ?_⟩
    rintro (rfl | rfl)
    · exact collapseOK_of_here (fun x hx => hB x (hs x hx)) (Or.inr (Or.inr (Or.inl ⟨a, b, rfl⟩))) (by simpa using h.1.1)
    · exact collapseOK_of_here (fun x hx => hB x (hs x hx)) (Or.inr (Or.inr (Or.inr ⟨a, b, rfl⟩))) (by simpa using h.1.1)

/-! ### `LogicOperands01` is the stronger condition -/

theorem NC_of_LO (ρ : String → K) : ∀ e : Exp (Ext K), LogicOperands01 ρ e → (∃ v, eval ρ e = some v) → NC ρ e := by
  intro e
  have node : ∀ n : Exp (Ext K), LogicOperands01 ρ n → (∃ v, eval ρ n = some v) → Is01 (eval ρ n) → CollapseOK ρ n := by
    intro n hlo ⟨v, hv⟩ h01
    unfold CollapseOK
    rw [(Rooc.simplify_sound_aux ρ n hlo v hv).1, ← hv]; exact h01
  induction e using Exp.ind with
  | num v => intro _ _; simp [NC]
  | var s => intro _ _; simp [NC]
  | abs e ih =>
    intro h ⟨v, hv⟩
    simp only [LogicOperands01] at h
    simp only [eval, Option.map_eq_some_iff] at hv
    obtain ⟨a, ha, _⟩ := hv
    simpa [NC] using ih h ⟨a, ha⟩
  | not e ih =>
    intro h ⟨v, hv⟩
    simp only [LogicOperands01] at h
    simp only [eval, Option.map_eq_some_iff] at hv
    obtain ⟨a, ha, _⟩ := hv
    simpa [NC] using ih h ⟨a, ha⟩
  | un op e ih =>
    intro h ⟨v, hv⟩
    simp only [LogicOperands01] at h
    have : ∃ a, eval ρ e = some a := by
      cases op <;> simp only [eval, Option.map_eq_some_iff] at hv <;> (obtain ⟨a, ha, _⟩ := hv; exact ⟨a, ha⟩)
    simpa [NC] using ih h this
  | min es ih =>
    intro h ⟨v, hv⟩
    simp only [LogicOperands01, LogicOperands01List_iff] at h
    simp only [NC, NCList_iff]
    simp only [eval] at hv
    split at hv
    · rename_i x xs hx
      exact fun e he => ih e he (h e he) ⟨_, eval_of_Def ((evalList_some_iff.1 hx).1 e he)⟩
    · cases hv
  | max es ih =>
    intro h ⟨v, hv⟩
    simp only [LogicOperands01, LogicOperands01List_iff] at h
    simp only [NC, NCList_iff]
    simp only [eval] at hv
    split at hv
    · rename_i x xs hx
      exact fun e he => ih e he (h e he) ⟨_, eval_of_Def ((evalList_some_iff.1 hx).1 e he)⟩
    · cases hv
  | and es ih =>
    intro h ⟨v, hv⟩
    have hn := node _ h ⟨v, hv⟩ (is01_eval_and ρ es)
    simp only [LogicOperands01, LogicOperands01List_iff] at h
    obtain ⟨hd, _⟩ := eval_and_iff.1 hv
    simp only [NC, NCList_iff]
    exact ⟨hn, fun e he => ih e he (h.1 e he) ⟨_, eval_of_Def (hd e he)⟩⟩
  | or es ih =>
    intro h ⟨v, hv⟩
    have hn := node _ h ⟨v, hv⟩ (is01_eval_or ρ es)
    simp only [LogicOperands01, LogicOperands01List_iff] at h
    obtain ⟨hd, _⟩ := eval_or_iff.1 hv
    simp only [NC, NCList_iff]
    exact ⟨hn, fun e he => ih e he (h.1 e he) ⟨_, eval_of_Def (hd e he)⟩⟩
  | xor a b iha ihb =>
    intro h ⟨v, hv⟩
    simp only [LogicOperands01] at h
    simp only [eval] at hv
    cases ha : eval ρ a <;> cases hb : eval ρ b <;> simp [ha, hb] at hv
    exact ⟨iha h.1 ⟨_, ha⟩, ihb h.2 ⟨_, hb⟩⟩
  | implies a b iha ihb =>
    intro h ⟨v, hv⟩
    simp only [LogicOperands01] at h
    simp only [eval] at hv
    cases ha : eval ρ a <;> cases hb : eval ρ b <;> simp [ha, hb] at hv
    exact ⟨iha h.1 ⟨_, ha⟩, ihb h.2 ⟨_, hb⟩⟩
  | iff a b iha ihb =>
    intro h ⟨v, hv⟩
    simp only [LogicOperands01] at h
    simp only [eval] at hv
    cases ha : eval ρ a <;> cases hb : eval ρ b <;> simp [ha, hb] at hv
    exact ⟨iha h.1 ⟨_, ha⟩, ihb h.2 ⟨_, hb⟩⟩
  | bin op a b iha ihb =>
    intro h ⟨v, hv⟩
    obtain ⟨x, y, hx, hy, _⟩ := eval_bin_some hv
    have h' := h
    simp only [LogicOperands01] at h'
    refine ⟨iha h'.1 ⟨x, hx⟩, ihb h'.2.1 ⟨y, hy⟩, fun hop => ?_⟩
    exact node _ h ⟨v, hv⟩ (is01_eval_binAndOr ρ a b hop)

end Rooc.LinP
