/-
What a `Finished` answer means: every reduced cost is `≥ −tol`, hence the basic solution is optimal
up to `tol·Σx` (exactly optimal for `tol = 0`).
-/
import Rooc.Proofs.BasicSol
namespace Rooc
namespace Optimal
variable {K : Type} [Field K] [LinearOrder K] [IsStrictOrderedRing K]
attribute [local instance] exactArith
open Tableau TabSem PivotLemmas StepLemmas BasicSol

theorem mem_of_nth {l : List K} {j : Nat} (hj : j < l.length) : nth l j ∈ l := by
  simp only [nth, List.getD_eq_getElem?_getD, List.getElem?_eq_getElem hj, Option.getD_some]
  exact List.getElem_mem hj

theorem exists_nth_of_mem {l : List K} {y : K} (hy : y ∈ l) : ∃ j, j < l.length ∧ nth l j = y := by
  obtain ⟨j, hj, e⟩ := List.mem_iff_getElem.1 hy
  exact ⟨j, hj, by simp [nth, List.getD_eq_getElem?_getD, hj, e]⟩

theorem eligible_nil_of_findH_none {tol : K} {T : Tab K} {bland : Bool} (h : findH tol T bland = none) :
    eligible tol T = [] := by
  unfold findH at h
  cases hl : eligible tol T with
  | nil => rfl
  | cons p ps => cases bland <;> simp [hl, minByFirst] at h

/-- after `Finished`, every reduced cost is `≥ −tol`. -/
theorem costs_ge_of_finished {tol : K} (htol : 0 ≤ tol) {T T' : Tab K} {m n : Nat} (hC : Canon T m n)
    {prefer : List Nat} {bland : Bool} (hs : stepInner tol T prefer bland = .ok (.finished, T')) :
    ∀ y ∈ T.c, -tol ≤ y := by
  obtain ⟨-, h | h⟩ := stepInner_finished hs
  · intro y hy
    have := List.all_eq_true.1 h y hy
    rcases (ExactK.fge_iff tol y 0).1 (by simpa using this) with h1 | h1
    · linarith
    · have := abs_lt.1 (by simpa using h1 : |y| < tol); linarith [this.1]
  · intro y hy
    obtain ⟨j, hj, rfl⟩ := exists_nth_of_mem hy
    have hnil := eligible_nil_of_findH_none h
    simp only [eligible, List.filterMap_eq_nil_iff] at hnil
    have hmem : (nth T.c j, j) ∈ T.c.zipIdx := by
      rw [List.mem_zipIdx_iff_getElem?]
      simp [nth, List.getD_eq_getElem?_getD, hj]
    have := hnil _ hmem
    simp only [ExactK.zero_eq, ite_eq_right_iff, reduceCtorEq, imp_false, Bool.and_eq_true,
      Bool.not_eq_true', not_and, Bool.not_eq_true] at this
    by_cases hb : T.basis.contains j = true
    · have hjb : j ∈ T.basis := by simpa using hb
      obtain ⟨k, hk, e⟩ := basis_mem hjb
      have := hC.costs k (by rw [hC.rect.rows, ← hC.rect.basis]; exact hk)
      rw [e] at this
      have h0 : nth T.c j = 0 := by simpa using this
      rw [h0]; linarith
    · have hf := this (by simpa using hb)
      have hn : ¬ (nth T.c j < 0 ∧ ¬ |nth T.c j - 0| < tol) := by
        intro hc; rw [(ExactK.flt_iff tol _ 0).2 hc] at hf; cases hf
      by_cases hneg : nth T.c j < 0
      · have : |nth T.c j - 0| < tol := by by_contra hc; exact hn ⟨hneg, hc⟩
        have := abs_lt.1 (by simpa using this : |nth T.c j| < tol); linarith [this.1]
      · linarith [not_lt.1 hneg]

theorem sum_nonneg' : ∀ (x : List K), (∀ y ∈ x, 0 ≤ y) → 0 ≤ x.sum
  | [], _ => by simp
  | a :: as, h => by
    simp only [List.sum_cons]
    have := sum_nonneg' as (fun y hy => h y (List.mem_cons_of_mem _ hy))
    have := h a (by simp)
    linarith

theorem dot_lower (tol : K) (htol : 0 ≤ tol) : ∀ (c x : List K), (∀ y ∈ c, -tol ≤ y) → (∀ y ∈ x, 0 ≤ y) →
    -tol * x.sum ≤ dot c x + tol * (x.drop c.length).sum
  | [], x, _, hx => by
    have := sum_nonneg' x hx
    simp only [dot_nil_left, List.length_nil, List.drop_zero, zero_add]
    nlinarith
  | a :: as, [], _, _ => by simp
  | a :: as, x :: xs, hc, hx => by
    have ih := dot_lower tol htol as xs (fun y hy => hc y (List.mem_cons_of_mem _ hy)) (fun y hy => hx y (List.mem_cons_of_mem _ hy))
    have ha := hc a (by simp)
    have hx0 := hx x (by simp)
    simp only [List.sum_cons, dot_cons, List.length_cons, List.drop_succ_cons]
    nlinarith

theorem nonneg_mem {x : List K} (hx : NonNeg x) : ∀ y ∈ x, 0 ≤ y := by
  intro y hy
  obtain ⟨j, hj, rfl⟩ := exists_nth_of_mem hy
  simpa using hx j hj

/-- **`Finished` ⇒ optimal up to the tolerance**: for every feasible point `x` of the system,
`c0·x_B ≤ c0·x + tol·Σx`.  With exact comparisons (`tol = 0`) the basic solution is optimal. -/
theorem finished_near_optimal {tol : K} (htol : 0 ≤ tol) {T T' : Tab K} {m n : Nat} (hC : Canon T m n)
    {c0 : List K} (hO : ObjInv T c0) {prefer : List Nat} {bland : Bool}
    (hs : stepInner tol T prefer bland = .ok (.finished, T')) (x : List K) (hxl : x.length = n)
    (hS : Sol T x) (hx : NonNeg x) :
    dot c0 (basicSolution T) ≤ dot c0 x + tol * x.sum := by
  rw [basicSolution_objective hC hO, hO x (by rw [hxl, hC.rect.costs]) hS]
  have h := dot_lower tol htol T.c x (costs_ge_of_finished htol hC hs) (nonneg_mem hx)
  have hd : x.drop T.c.length = [] := by rw [List.drop_eq_nil_iff]; rw [hxl, hC.rect.costs]
  rw [hd] at h
  simp only [List.sum_nil, mul_zero, add_zero, ExactK.sub_eq] at h ⊢
  linarith

end Optimal
end Rooc
