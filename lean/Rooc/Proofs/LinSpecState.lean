/-
Stage C, part 2: how `declare_variable` / `add_constraint` act on the state invariant, and evaluation of
the expressions the gadgets are built from.
-/
import Rooc.Proofs.LinSpecArith

set_option linter.unusedSectionVars false
set_option linter.unusedSimpArgs false
set_option linter.unusedVariables false

namespace Rooc.LinP
open Rooc Rooc.Lin Rooc.Sem Rooc.Exp
open Rooc.Lin.Gadget (B01)

variable {K : Type} [Field K] [LinearOrder K] [IsStrictOrderedRing K] [FloorRing K]
variable {Src : Constraint (Ext K) → Prop}

/-! ### `declare_variable` -/

/-- the bounds map after `declare_variable name ty`. -/
def declBounds {α : Type} (bm : BoundsMap α) (name : String) (b : Bounds α) : BoundsMap α :=
  if bm.any (·.1 == name) then bm.map fun (p : String × Bounds α) => if p.1 == name then (p.1, b) else (p.1, p.2)
  else bm ++ [(name, b)]

/-- the state after `declare_variable name ty`. -/
def declState {α : Type} [Arith α] (s : St α) (name : String) (ty : VarType α) : St α :=
  { s with bounds := declBounds s.bounds name (Bounds.ofVarType ty),
           domain := s.domain ++ [({ name := name, ty := ty, usage := 1 } : DomVar α)] }

theorem declareVariable_ok {α : Type} [Arith α] (name : String) (ty : VarType α) (s : St α) (r : Unit × St α) :
    declareVariable name ty s = .ok r ↔
      name ∉ s.domain.map (·.name) ∧ r = ((), declState s name ty) := by
  unfold declareVariable
  simp only [bind_ok, get_ok]
  have hany : (s.domain.any (·.name == name) = true) ↔ name ∈ s.domain.map (·.name) := by
    simp only [List.any_eq_true, beq_iff_eq, List.mem_map]
  constructor
  · rintro ⟨a, s1, h1, h2⟩
    cases h1
    by_cases hm : name ∈ s.domain.map (·.name)
    · rw [if_pos (hany.mpr hm)] at h2; simp [fail_ok] at h2
    · have hn : ¬ (s.domain.any (·.name == name) = true) := fun h => hm (hany.mp h)
      rw [if_neg hn] at h2
      simp only [set_ok] at h2
      exact ⟨hm, h2⟩
  · rintro ⟨hm, rfl⟩
    refine ⟨s, s, rfl, ?_⟩
    have hn : ¬ (s.domain.any (·.name == name) = true) := fun h => hm (hany.mp h)
    rw [if_neg hn]
    simp only [set_ok]
    rfl

section lookup
variable {α : Type}

theorem lookupB_cons (p : String × Bounds α) (bm : BoundsMap α) (n : String) :
    lookupB (p :: bm) n = if p.1 = n then some p.2 else lookupB bm n := by
  unfold lookupB
  by_cases h : p.1 = n
  · simp [h]
  · have : (p.1 == n) = false := by simpa using h
    simp [List.find?_cons, this, h]

theorem lookupB_none_of_not_mem (bm : BoundsMap α) (n : String) (h : n ∉ bm.map (·.1)) : lookupB bm n = none := by
  induction bm with
  | nil => rfl
  | cons p bm ih =>
    simp only [List.map_cons, List.mem_cons, not_or] at h
    rw [lookupB_cons, if_neg (fun hp => h.1 hp.symm), ih h.2]

def updB (name : String) (b : Bounds α) (p : String × Bounds α) : String × Bounds α :=
  if p.1 == name then (p.1, b) else (p.1, p.2)

theorem updB_fst (name : String) (b : Bounds α) (p : String × Bounds α) : (updB name b p).1 = p.1 := by
  unfold updB; split <;> rfl

theorem lookupB_map_upd (name : String) (b : Bounds α) (n : String) : ∀ bm : BoundsMap α,
    lookupB (bm.map (updB name b)) n =
      if n = name ∧ name ∈ bm.map (·.1) then some b else lookupB bm n
  | [] => by simp [lookupB]
  | p :: bm => by
    rw [List.map_cons, lookupB_cons, updB_fst, lookupB_map_upd name b n bm, lookupB_cons]
    by_cases hpn : p.1 = n
    · by_cases hp : p.1 = name
      · have hn : n = name := hpn ▸ hp
        have : (p.1 == name) = true := by simpa using hp
        simp [hpn, hn, updB, this]
      · have hn : ¬ n = name := fun h => hp (hpn.trans h)
        have : (p.1 == name) = false := by simpa using hp
        simp [hpn, hn, updB, this]
    · simp only [hpn, if_false]
      by_cases hn : n = name
      · have hp : ¬ name = p.1 := fun h => hpn (h.symm.trans hn.symm)
        subst hn
        simp only [List.map_cons, List.mem_cons, hp, false_or]
      · simp [hn]

theorem lookupB_append_single (name : String) (b : Bounds α) (n : String) : ∀ bm : BoundsMap α,
    lookupB (bm ++ [(name, b)]) n =
      match lookupB bm n with
      | some x => some x
      | none => if n = name then some b else none
  | [] => by
    rw [List.nil_append, lookupB_cons]
    simp only [lookupB, List.find?_nil, Option.map_none]
    by_cases h : name = n
    · simp [h]
    · have : ¬ n = name := fun h' => h h'.symm
      simp [h, this]
  | p :: bm => by
    rw [List.cons_append, lookupB_cons, lookupB_cons, lookupB_append_single name b n bm]
    by_cases hpn : p.1 = n <;> simp [hpn]

theorem lookupB_declBounds (bm : BoundsMap α) (name : String) (b : Bounds α) (n : String) :
    lookupB (declBounds bm name b) n = if n = name then some b else lookupB bm n := by
  unfold declBounds
  have hany : (bm.any (·.1 == name) = true) ↔ name ∈ bm.map (·.1) := by
    simp only [List.any_eq_true, beq_iff_eq, List.mem_map]
  by_cases hm : name ∈ bm.map (·.1)
  · rw [if_pos (hany.mpr hm)]
    have := lookupB_map_upd name b n bm
    unfold updB at this
    rw [this]
    by_cases hn : n = name <;> simp [hn, hm]
  · have : ¬ (bm.any (·.1 == name) = true) := fun h => hm (hany.mp h)
    rw [if_neg this, lookupB_append_single]
    by_cases hn : n = name
    · subst hn; rw [lookupB_none_of_not_mem bm n hm]
    · simp only [hn, if_false]
      cases lookupB bm n <;> rfl
end lookup

theorem encl_of_inDomain {x : K} {ty : VarType (Ext K)} (h : inDomain x ty = true) :
    Encl (Bounds.ofVarType ty) x := by
  cases ty with
  | bool =>
    simp only [inDomain, Bool.or_eq_true] at h
    simp only [Bounds.ofVarType, Encl, ar_zero, ar_one, lowerOK, upperOK]
    rcases h with h | h <;> simp at h <;> subst h <;> simp
  | nnreal lo hi =>
    simp only [inDomain, Bool.and_eq_true, geExt_iff, leExt_iff] at h
    exact h
  | real lo hi =>
    simp only [inDomain, Bool.and_eq_true, geExt_iff, leExt_iff] at h
    exact h
  | int lo hi =>
    simp only [inDomain, Bool.and_eq_true] at h
    simp only [Bounds.ofVarType, Encl, ar_ofInt, lowerOK, upperOK]
    obtain ⟨⟨_, h1⟩, h2⟩ := h
    simp at h1 h2
    exact ⟨h1, h2⟩

theorem domSat_append {ρ : String → K} {d d' : List (DomVar (Ext K))} :
    DomSat ρ (d ++ d') ↔ DomSat ρ d ∧ DomSat ρ d' := by
  simp only [DomSat, List.mem_append]
  constructor
  · intro h; exact ⟨fun dv hdv => h dv (Or.inl hdv), fun dv hdv => h dv (Or.inr hdv)⟩
  · rintro ⟨h1, h2⟩ dv (hdv | hdv); exacts [h1 dv hdv, h2 dv hdv]

theorem inScope_declState {s : St (Ext K)} {name : String} {ty : VarType (Ext K)} {x : String} :
    inScope (declState s name ty).domain x ↔ inScope s.domain x ∨ x = name := by
  simp only [declState, inScope, List.mem_append, List.mem_singleton]
  constructor
  · rintro ⟨dv, hdv | rfl, hn, hu⟩
    · exact Or.inl ⟨dv, hdv, hn, hu⟩
    · exact Or.inr hn.symm
  · rintro (⟨dv, hdv, hn, hu⟩ | rfl)
    · exact ⟨dv, Or.inl hdv, hn, hu⟩
    · exact ⟨_, Or.inr rfl, rfl, by simp⟩

/-- the invariant survives a declaration of a fresh name. -/
theorem StInv.declare {s : St (Ext K)} (h : StInv Src s) {name : String} (ty : VarType (Ext K))
    (hfresh : name ∉ s.domain.map (·.name)) : StInv Src (declState s name ty) := by
  refine ⟨?_, ?_, ?_, ?_⟩
  · simp only [declState, List.map_append, List.map_cons, List.map_nil]
    rw [List.nodup_append]
    refine ⟨h.nodup, by simp, ?_⟩
    intro a ha b hb
    simp only [List.mem_singleton] at hb
    subst hb
    intro hab; subst hab; exact hfresh ha
  · intro ρ hd
    have hd' := domSat_append.mp hd
    have hbox := h.box ρ hd'.1
    intro n b hsn hl
    simp only [declState, lookupB_declBounds] at hl
    by_cases hn : n = name
    · rw [if_pos hn] at hl
      simp only [Option.some.injEq] at hl
      subst hl; subst hn
      exact encl_of_inDomain (hd'.2 ({ name := n, ty := ty, usage := 1 } : DomVar (Ext K)) (by simp) (by simp))
    · rw [if_neg hn] at hl
      rcases inScope_declState.mp hsn with hs | hs
      · exact hbox n b hs hl
      · exact absurd hs hn
  · intro c hc x hx
    exact inScope_declState.mpr (Or.inl (h.qscoped c hc x hx))
  · intro c hc
    rcases h.qgood c hc with hs | ⟨ha, hd⟩
    · exact Or.inl hs
    · exact Or.inr ⟨ha.mono (fun x hx => inScope_declState.mpr (Or.inl hx)), hd⟩

/-- the invariant survives pushing an affine, defined, scoped constraint. -/
theorem StInv.push {s : St (Ext K)} (h : StInv Src s) {c : Constraint (Ext K)}
    (hc : ArithC (inScope s.domain) c) (hd : DefinedC c) : StInv Src { s with queue := c :: s.queue } := by
  refine ⟨h.nodup, h.box, ?_, ?_⟩
  · intro c' hc'
    rcases List.mem_cons.mp hc' with rfl | hc'
    · exact hc.toScoped
    · exact h.qscoped c' hc'
  · intro c' hc'
    rcases List.mem_cons.mp hc' with rfl | hc'
    · exact Or.inr ⟨hc, hd⟩
    · exact h.qgood c' hc'

theorem addConstraint_ok (c : Constraint (Ext K)) (s : St (Ext K)) (r : Unit × St (Ext K)) :
    addConstraint c s = .ok r ↔ r = ((), { s with queue := c :: s.queue }) := by
  unfold addConstraint; rw [modify_ok]

/-! ### the expressions gadget rows are made of -/

theorem AG_ctxToExp_fold {S : String → Prop} (ts : List (String × Ext K)) (hts : ∀ x ∈ ts.map (·.1), S x) :
    ∀ acc : Exp (Ext K), AG S acc →
      AG S (ts.foldl (fun e (p : String × Ext K) => match p with
        | (n, k) => Exp.bin .add e (.bin .mul (.num k) (.var n))) acc) := by
  induction ts with
  | nil => intro acc h; exact h
  | cons p ts ih =>
    intro acc h
    obtain ⟨n, k⟩ := p
    simp only [List.foldl_cons]
    apply ih (fun x hx => hts x (by simp [hx]))
    exact AG_bin.mpr ⟨rfl, h, AG_bin.mpr ⟨rfl, AG_num _, AG_var.mpr (hts n (by simp))⟩⟩

theorem AG_ctxToExp {S : String → Prop} {c : Ctx (Ext K)} (h : ∀ x ∈ ctxNames c, S x) : AG S (ctxToExp c) := by
  unfold ctxToExp
  exact AG_ctxToExp_fold c.vars h _ (AG_num _)

theorem definedE_ctxToExp {c : Ctx (Ext K)} (h : CtxOK c) : DefinedE (ctxToExp c) :=
  fun ρ => ⟨_, ctxToExp_eval ρ h⟩

theorem holds_mkC (ρ : String → K) (l r : Exp (Ext K)) (cmp : Cmp) {a b : K}
    (ha : eval ρ l = some a) (hb : eval ρ r = some b) :
    constraintHolds ρ (mkC l cmp r) = cmpK cmp a b := by
  simp [constraintHolds, mkC, ha, hb]

theorem arithC_mkC {S : String → Prop} {l r : Exp (Ext K)} (cmp : Cmp) (hl : AG S l) (hr : AG S r) :
    ArithC S (mkC l cmp r) := ⟨rfl, hl, hr⟩

theorem definedC_mkC {l r : Exp (Ext K)} (cmp : Cmp) (hl : DefinedE l) (hr : DefinedE r) :
    DefinedC (mkC l cmp r) := by
  intro ρ
  obtain ⟨a, ha⟩ := hl ρ
  obtain ⟨b, hb⟩ := hr ρ
  exact ⟨a, b, ha, hb⟩

end Rooc.LinP

namespace Rooc.LinP
open Rooc Rooc.Lin Rooc.Sem Rooc.Exp

variable {K : Type} [Field K] [LinearOrder K] [IsStrictOrderedRing K] [FloorRing K]
variable {Src : Constraint (Ext K) → Prop}

/-! ### frames: a state extended by fresh declarations and pushed constraints -/

/-- `add_constraint`. -/
def pushC {α : Type} (s : St α) (c : Constraint α) : St α := { s with queue := c :: s.queue }

@[simp] theorem pushC_domain {α : Type} (s : St α) (c : Constraint α) : (pushC s c).domain = s.domain := rfl
@[simp] theorem pushC_rows {α : Type} (s : St α) (c : Constraint α) : (pushC s c).rows = s.rows := rfl
@[simp] theorem pushC_queue {α : Type} (s : St α) (c : Constraint α) : (pushC s c).queue = c :: s.queue := rfl
@[simp] theorem pushC_bounds {α : Type} (s : St α) (c : Constraint α) : (pushC s c).bounds = s.bounds := rfl
@[simp] theorem declState_rows {α : Type} [Arith α] (s : St α) (n : String) (ty : VarType α) :
    (declState s n ty).rows = s.rows := rfl
@[simp] theorem declState_queue {α : Type} [Arith α] (s : St α) (n : String) (ty : VarType α) :
    (declState s n ty).queue = s.queue := rfl
@[simp] theorem declState_domain {α : Type} [Arith α] (s : St α) (n : String) (ty : VarType α) :
    (declState s n ty).domain = s.domain ++ [{ name := n, ty := ty, usage := 1 }] := rfl

theorem StInv.pushC {s : St (Ext K)} (h : StInv Src s) {c : Constraint (Ext K)}
    (hc : ArithC (inScope s.domain) c) (hd : DefinedC c) : StInv Src (pushC s c) := h.push hc hd

theorem StInv.of_eq {s s' : St (Ext K)} (h : StInv Src s) (hd : s'.domain = s.domain) (hb : s'.bounds = s.bounds)
    (hq : s'.queue = s.queue) : StInv Src s' := by
  refine ⟨by rw [hd]; exact h.nodup, by rw [hd, hb]; exact h.box, ?_, ?_⟩
  · rw [hq, hd]; exact h.qscoped
  · rw [hq, hd]; exact h.qgood

/-- a frame: `sF` extends `s1` by declarations `decls` and queue entries `new`. -/
structure Frame (s1 sF : St (Ext K)) (decls : List (DomVar (Ext K))) (new : List (Constraint (Ext K))) : Prop where
  rows : sF.rows = s1.rows
  dom : sF.domain = s1.domain ++ decls
  queue : sF.queue = new ++ s1.queue

theorem Frame.keeps {s1 sF : St (Ext K)} {decls : List (DomVar (Ext K))} {new : List (Constraint (Ext K))}
    (F : Frame s1 sF decls new) {ρ : String → K} (hd : DomSat ρ sF.domain) (hq : QSat ρ sF) :
    DomSat ρ s1.domain ∧ DomSat ρ decls ∧ QSat ρ s1 ∧ ∀ c ∈ new, constraintHolds ρ c = true := by
  rw [F.dom] at hd
  obtain ⟨h1, h2⟩ := domSat_append.mp hd
  refine ⟨h1, h2, ?_, ?_⟩
  · intro c hc; exact hq c (by rw [F.queue]; exact List.mem_append_right _ hc)
  · intro c hc; exact hq c (by rw [F.queue]; exact List.mem_append_left _ hc)

/-- an assignment that agrees with a solution of `s1` on `s1`'s variables and satisfies the new
declarations and constraints is a solution of `sF`. -/
theorem Frame.lift {s1 sF : St (Ext K)} {decls : List (DomVar (Ext K))} {new : List (Constraint (Ext K))}
    (F : Frame s1 sF decls new) (hinv : StInv Src s1) {ρ1 ρ2 : String → K}
    (hd1 : DomSat ρ1 s1.domain) (hq1 : QSat ρ1 s1) (hag : ∀ x, inScope s1.domain x → ρ2 x = ρ1 x)
    (hdecl : DomSat ρ2 decls) (hnew : ∀ c ∈ new, constraintHolds ρ2 c = true) :
    DomSat ρ2 sF.domain ∧ QSat ρ2 sF := by
  constructor
  · rw [F.dom]
    refine domSat_append.mpr ⟨?_, hdecl⟩
    intro dv hdv hu
    rw [hag _ ⟨dv, hdv, rfl, hu⟩]; exact hd1 dv hdv hu
  · intro c hc
    rw [F.queue] at hc
    rcases List.mem_append.mp hc with h | h
    · exact hnew c h
    · rw [constraintHolds_congr (ρ := ρ1) (fun x hx => hag x (hinv.qscoped c h x hx))]
      exact hq1 c h

theorem Frame.scopeMono {s1 sF : St (Ext K)} {decls : List (DomVar (Ext K))} {new : List (Constraint (Ext K))}
    (F : Frame s1 sF decls new) {x : String} (h : inScope s1.domain x) : inScope sF.domain x := by
  rw [F.dom]; exact inScope_append_left h

end Rooc.LinP
