/-
C17 helper lemmas, part 4: the token-level parser of the independent reader on the tokens of the
exported text gives `denote lm`.
-/
import Rooc.Proofs.LpTwinLx
import Rooc.Proofs.LpBasic
namespace Rooc.Lp
open Rooc Arith
set_option linter.unusedSectionVars false

variable {K : Type} [Field K] [LinearOrder K] [IsStrictOrderedRing K] [FloorRing K]
variable (tok : Ext K → List Char) (lexN : List Char → Option (Ext K))

def toksOf (wts : List WT) : List Tok := wts.flatMap (·.2)

@[simp] theorem toksOf_nil : toksOf [] = [] := rfl
@[simp] theorem toksOf_cons (p : WT) (ps : List WT) : toksOf (p :: ps) = p.2 ++ toksOf ps := by simp [toksOf]
@[simp] theorem toksOf_append (a b : List WT) : toksOf (a ++ b) = toksOf a ++ toksOf b := by simp [toksOf]

/-! ### `Ext K` arithmetic used by the reader -/

theorem ext_neg_abs {c : Ext K} (hf : Arith.isFinite c = true) (h : Arith.lt c (zero : Ext K) = true) :
    Arith.neg (Arith.abs c) = c := by
  cases c with
  | fin k =>
    simp only [Arith.lt, Ext.lt, Arith.zero, Arith.ofInt, ef_lt, ef_ofInt, decide_eq_true_eq, Int.cast_zero] at h
    simp [Arith.neg, Arith.abs, Ext.neg, Ext.abs, h]
  | _ => simp [Arith.isFinite, Ext.isFinite] at hf

theorem ext_abs_nonneg {c : Ext K} (hf : Arith.isFinite c = true) (h : Arith.lt c (zero : Ext K) = false) :
    Arith.abs c = c := by
  cases c with
  | fin k =>
    simp only [Arith.lt, Ext.lt, Arith.zero, Arith.ofInt, ef_lt, ef_ofInt, decide_eq_false_iff_not, Int.cast_zero] at h
    simp [Arith.abs, Ext.abs, h]
  | _ => simp [Arith.isFinite, Ext.isFinite] at hf

/-- the coefficient the reader reconstructs from sign, optional magnitude token and the implicit 1 -/
theorem coef_roundtrip {c : Ext K} (hf : Arith.isFinite c = true) :
    signed (Arith.lt c (zero : Ext K)) (if Arith.eq (Arith.abs c) (one : Ext K) then one else Arith.abs c) = c := by
  have habs : (if Arith.eq (Arith.abs c) (one : Ext K) then (one : Ext K) else Arith.abs c) = Arith.abs c := by
    split
    · rename_i h; exact (ext_eq_true h).symm
    · rfl
  rw [habs]
  unfold signed
  cases h : Arith.lt c (zero : Ext K) with
  | true => simpa using ext_neg_abs hf h
  | false => simpa using ext_abs_nonneg hf h

/-! ### linear expressions -/

/-- what the parser lemmas need about one coefficient -/
def CoefOk (c : Ext K) : Prop := Arith.isFinite c = true ∧ lexN (tok (Arith.abs c)) = some (Arith.abs c)

theorem parseTail_tailWTs (cs : List (Ext K)) (vs : List String) (hc : ∀ c ∈ cs, CoefOk tok lexN c)
    (hv : ∀ v ∈ vs, isReserved v.toList = false) (R : List Tok) (k : Ext K) (R' : List Tok)
    (hR : parseTail lexN R = some ([], k, R')) :
    parseTail lexN (toksOf (tailWTs tok cs vs) ++ R) = some (denoteTerms cs vs, k, R') := by
  induction cs generalizing vs with
  | nil => simpa [tailWTs, denoteTerms] using hR
  | cons c cs ih =>
    cases vs with
    | nil => simpa [tailWTs, denoteTerms] using hR
    | cons v vs =>
      have ih' := ih vs (fun c' h' => hc c' (by simp [h'])) (fun v' h' => hv v' (by simp [h']))
      have hres := hv v (by simp)
      obtain ⟨hf, hlex⟩ := hc c (by simp)
      simp only [tailWTs, denoteTerms]
      split
      · exact ih'
      · have hco := coef_roundtrip hf
        by_cases h1 : Arith.eq (Arith.abs c) (one : Ext K) = true <;>
          by_cases h2 : Arith.lt c (zero : Ext K) = true <;>
          simp [h1, h2, signed] at hco <;>
          simp [h1, h2, signWT, coefWTs, absWT, nameWT, parseTail, hres, hlex, ih'] <;>
          exact hco

theorem denoteTerms_nil_of_not_hasTerm (cs : List (Ext K)) (vs : List String) (h : hasTerm cs vs = false) :
    denoteTerms cs vs = [] := by
  induction cs generalizing vs with
  | nil => simp [denoteTerms]
  | cons c cs ih =>
    cases vs with
    | nil => simp [denoteTerms]
    | cons v vs =>
      simp only [hasTerm, Bool.or_eq_false_iff, Bool.not_eq_false'] at h
      simp [denoteTerms, h.1, ih vs h.2]

theorem parseExpr_firstWTs (cs : List (Ext K)) (vs : List String) (hc : ∀ c ∈ cs, CoefOk tok lexN c)
    (hv : ∀ v ∈ vs, isReserved v.toList = false) (R : List Tok) (k : Ext K) (R' : List Tok)
    (hR : parseTail lexN R = some ([], k, R')) (ht : hasTerm cs vs = true) :
    parseExpr lexN (toksOf (firstWTs tok cs vs) ++ R) = some (denoteTerms cs vs, k, R') := by
  induction cs generalizing vs with
  | nil => simp [hasTerm] at ht
  | cons c cs ih =>
    cases vs with
    | nil => simp [hasTerm] at ht
    | cons v vs =>
      have hc' : ∀ c' ∈ cs, CoefOk tok lexN c' := fun c' h' => hc c' (by simp [h'])
      have hv' : ∀ v' ∈ vs, isReserved v'.toList = false := fun v' h' => hv v' (by simp [h'])
      have htail := parseTail_tailWTs tok lexN cs vs hc' hv' R k R' hR
      have hres := hv v (by simp)
      obtain ⟨hf, hlex⟩ := hc c (by simp)
      simp only [firstWTs, denoteTerms]
      by_cases hz : isZero c = true
      · simp only [hz, if_true]
        simp only [hasTerm, hz, Bool.not_true, Bool.false_or] at ht
        exact ih vs hc' hv' ht
      · have hco := coef_roundtrip hf
        by_cases h1 : Arith.eq (Arith.abs c) (one : Ext K) = true <;>
          by_cases h2 : Arith.lt c (zero : Ext K) = true <;>
          simp [h1, h2, signed] at hco <;>
          simp [hz, h1, h2, coefWTs, absWT, nameWT, parseExpr, parseTail, hres, hlex, htail] <;>
          exact hco

theorem parseExpr_termWTs (cs : List (Ext K)) (vs : List String) (hc : ∀ c ∈ cs, CoefOk tok lexN c)
    (hv : ∀ v ∈ vs, isReserved v.toList = false) (hz : lexN ['0'] = some zero) (R : List Tok) (k : Ext K) (R' : List Tok)
    (hR : parseTail lexN R = some ([], k, R')) (hn : ∀ v rest, R = .name v :: rest → isReserved v = true) :
    parseExpr lexN (toksOf (termWTs tok cs vs) ++ R) =
      some (denoteTerms cs vs, (if hasTerm cs vs then k else Arith.add zero k), R') := by
  unfold termWTs
  cases ht : hasTerm cs vs with
  | true => simpa using parseExpr_firstWTs tok lexN cs vs hc hv R k R' hR ht
  | false =>
    simp only [Bool.false_eq_true, if_false, denoteTerms_nil_of_not_hasTerm cs vs ht, toksOf_cons, toksOf_nil,
      List.append_nil, List.cons_append, List.nil_append]
    cases R with
    | nil =>
      simp [parseTail] at hR
      simp [parseExpr, hz, parseTail, hR]
    | cons t rest =>
      cases t with
      | name v =>
        have hr := hn v rest rfl
        simp [parseTail] at hR
        simp [parseExpr, hz, hr, hR]
      | _ => simp [parseExpr, hz, hR]

/-! ### objective -/

theorem ext_add_zero {c : Ext K} (hf : Arith.isFinite c = true) : Arith.add c (zero : Ext K) = c := by
  cases c <;> simp_all [Arith.add, Ext.add, Arith.zero, Arith.ofInt, Arith.isFinite, Ext.isFinite]
theorem ext_zero_add {c : Ext K} (hf : Arith.isFinite c = true) : Arith.add (zero : Ext K) c = c := by
  cases c <;> simp_all [Arith.add, Ext.add, Arith.zero, Arith.ofInt, Arith.isFinite, Ext.isFinite]
theorem ext_zero_finite : Arith.isFinite (zero : Ext K) = true := rfl
theorem ext_isZero {c : Ext K} (h : isZero c = true) : c = zero := ext_eq_true h

theorem signed_abs {c : Ext K} (hf : Arith.isFinite c = true) :
    signed (Arith.lt c (zero : Ext K)) (Arith.abs c) = c := by
  unfold signed
  cases h : Arith.lt c (zero : Ext K) with
  | true => simpa using ext_neg_abs hf h
  | false => simpa using ext_abs_nonneg hf h

/-- the objective: terms, then the optional constant, up to `Subject To` -/
theorem parseExpr_objective (lm : LinModel (Ext K)) (hc : ∀ c ∈ lm.objective, CoefOk tok lexN c)
    (hoff : CoefOk tok lexN lm.offset) (hv : ∀ v ∈ lm.vars, isReserved v.toList = false)
    (hz : lexN ['0'] = some zero) (REST : List Tok) :
    parseExpr lexN (toksOf (termWTs tok lm.objective lm.vars ++ offsetWTs tok lm.offset)
        ++ .name "Subject".toList :: .name "To".toList :: REST) =
      some (denoteTerms lm.objective lm.vars, lm.offset, .name "Subject".toList :: .name "To".toList :: REST) := by
  have hres : isReserved "Subject".toList = true := by decide
  have hres' : isReserved ['S', 'u', 'b', 'j', 'e', 'c', 't'] = true := by decide
  obtain ⟨hf, hlex⟩ := hoff
  rw [toksOf_append, List.append_assoc]
  by_cases hzo : isZero lm.offset = true
  · have hR : parseTail lexN (toksOf (offsetWTs tok lm.offset) ++ .name "Subject".toList :: .name "To".toList :: REST)
        = some ([], zero, .name "Subject".toList :: .name "To".toList :: REST) := by
      simp [offsetWTs, hzo, parseTail]
    rw [parseExpr_termWTs tok lexN _ _ hc hv hz _ _ _ hR (by
      intro v rest e; simp [offsetWTs, hzo] at e; rw [← e.1]; exact hres)]
    have : lm.offset = zero := ext_isZero hzo
    cases hasTerm lm.objective lm.vars <;> simp [this, ext_add_zero ext_zero_finite]
  · have hs := signed_abs hf
    have hR : parseTail lexN (toksOf (offsetWTs tok lm.offset) ++ .name "Subject".toList :: .name "To".toList :: REST)
        = some ([], lm.offset, .name "Subject".toList :: .name "To".toList :: REST) := by
      by_cases h2 : Arith.lt lm.offset (zero : Ext K) = true
      · simp only [h2, signed, if_true] at hs
        simp [offsetWTs, hzo, signWT, absWT, h2, parseTail, hlex, hres']
        rw [hs, ext_add_zero hf]
      · simp only [h2, signed, Bool.false_eq_true, if_false] at hs
        simp [offsetWTs, hzo, signWT, absWT, h2, parseTail, hlex, hres']
        rw [hs, ext_add_zero hf]
    rw [parseExpr_termWTs tok lexN _ _ hc hv hz _ _ _ hR (by
      intro v rest e
      by_cases h2 : Arith.lt lm.offset (zero : Ext K) = true <;> simp [offsetWTs, hzo, signWT, h2] at e)]
    cases hasTerm lm.objective lm.vars <;> simp [ext_zero_add hf]

/-! ### rows -/

theorem parseSignedNum_signed {v : Ext K} (h : CoefOk tok lexN v) (NEXT : List Tok) :
    parseSignedNum lexN (signedNumToks tok v ++ NEXT) = some (v, NEXT) := by
  obtain ⟨hf, hlex⟩ := h
  unfold signedNumToks
  cases h2 : Arith.lt v (zero : Ext K) with
  | true => simp [parseSignedNum, hlex, ext_neg_abs hf h2]
  | false =>
    have := ext_abs_nonneg hf h2
    rw [this] at hlex
    simp [parseSignedNum, hlex]

theorem isKw_append_left {a b : List (List Char)} {w : List Char} (h : isKw a w = true) : isKw (a ++ b) w = true := by
  simp only [isKw, List.contains_iff_mem, List.mem_append] at h ⊢; exact Or.inl h
theorem isKw_append_right {a b : List (List Char)} {w : List Char} (h : isKw b w = true) : isKw (a ++ b) w = true := by
  simp only [isKw, List.contains_iff_mem, List.mem_append] at h ⊢; exact Or.inr h

theorem sectionKw_reserved {w : List Char} (h : isSectionKw w = true) : isReserved w = true := by
  simp only [isSectionKw, Bool.or_eq_true, isKw, List.contains_iff_mem] at h
  simp only [isReserved, reserved, isKw, List.contains_iff_mem, List.mem_append]
  rcases h with ((h | h) | h) | h <;> simp [h]

theorem not_sectionKw_of_not_reserved {w : List Char} (h : isReserved w = false) : isSectionKw w = false := by
  cases hs : isSectionKw w with
  | false => rfl
  | true => rw [sectionKw_reserved hs] at h; cases h

theorem relWT_toks (c : Cmp) : ∃ t, (relWT c).2 = [t] ∧ relOf t = some (denoteRel c) ∧
    (∀ X, parseTail lexN (t :: X) = some ([], zero, t :: X)) ∧ (∀ v, t ≠ .name v) := by
  cases c <;> exact ⟨_, rfl, rfl, fun X => by simp [parseTail], fun v => by simp⟩

theorem parseRows_rowLinesT (vars : List String) (hv : ∀ v ∈ vars, isReserved v.toList = false)
    (hz : lexN ['0'] = some zero) (w : List Char) (R0 : List Tok) (hw : isSectionKw w = true)
    (rows : List (LinRow (Ext K)))
    (hr : ∀ r ∈ rows, (∀ c ∈ r.coeffs, CoefOk tok lexN c) ∧ CoefOk tok lexN r.rhs) :
    ∀ (ns : List (List Char)), (∀ n ∈ ns, RowNameOk n) → ∀ (fuel : Nat), rows.length + 1 ≤ fuel →
      parseRows lexN fuel (fileToks (rowLinesT tok vars ns rows) ++ .name w :: R0) =
        some (denoteRows vars ns rows, .name w :: R0) := by
  induction rows with
  | nil =>
    intro ns _ fuel hf
    obtain ⟨f, rfl⟩ : ∃ f, fuel = f + 1 := ⟨fuel - 1, by omega⟩
    cases ns <;> simp [rowLinesT, fileToks, parseRows, hw, denoteRows]
  | cons r rs ih =>
    intro ns hns fuel hf
    obtain ⟨f, rfl⟩ : ∃ f, fuel = f + 1 := ⟨fuel - 1, by simp at hf; omega⟩
    cases ns with
    | nil => simp [rowLinesT, fileToks, parseRows, hw, denoteRows]
    | cons n ns =>
      obtain ⟨h2, h3⟩ := hr r (by simp)
      have hnr := (hns n (by simp)).2
      have hnsk := not_sectionKw_of_not_reserved hnr
      obtain ⟨t, ht, hrel, htail, htn⟩ := relWT_toks lexN r.cmp
      have ih' := ih (fun r' h' => hr r' (by simp [h'])) ns (fun n' h' => hns n' (by simp [h'])) f (by simp at hf; omega)
      have hexpr := parseExpr_termWTs tok lexN r.coeffs vars h2 hv hz
        (t :: (signedNumToks tok r.rhs ++ (fileToks (rowLinesT tok vars ns rs) ++ .name w :: R0))) zero _
        (htail _) (by intro v rest e; exact absurd (List.cons.inj e).1 (htn v))
      have hk : (if hasTerm r.coeffs vars then (zero : Ext K) else Arith.add zero zero) = zero := by
        split
        · rfl
        · exact ext_add_zero ext_zero_finite
      simp only [rowLinesT, fileToks, Line.toks, rowLineT, List.flatMap_cons, List.flatMap_append, List.flatMap_nil,
        List.append_assoc, List.cons_append, List.nil_append, ht, numWT, List.append_nil]
      simp only [parseRows, hnsk, Bool.false_eq_true, if_false, parseRows.parseRow, parseLabel]
      have e : List.flatMap (fun x => x.2) (termWTs tok r.coeffs vars) = toksOf (termWTs tok r.coeffs vars) := rfl
      rw [e, hexpr]
      simp only [hrel, parseSignedNum_signed tok lexN h3, ih', denoteRows, hk]

/-! ### bounds, markings, end -/

theorem infKw_reserved {w : List Char} (h : isKw kwInf w = true) : isReserved w = true := by
  simp only [isKw, List.contains_iff_mem] at h
  simp only [isReserved, reserved, isKw, List.contains_iff_mem, List.mem_append]
  simp [h]

theorem not_infKw_of_not_reserved {w : List Char} (h : isReserved w = false) : isKw kwInf w = false := by
  cases hs : isKw kwInf w with
  | false => rfl
  | true => rw [infKw_reserved hs] at h; cases h

theorem ext_neg_ofInt (n : Nat) (i : Int) (hi : i < 0) (hn : n = i.natAbs) :
    Arith.neg (Arith.ofInt (n : Int) : Ext K) = Arith.ofInt i := by
  have : (i : K) = -((n : Int) : K) := by
    have : i = -(n : Int) := by omega
    rw [this]; push_cast; ring
  simp [Arith.neg, Ext.neg, Arith.ofInt, this]

theorem ext_neg_ofInt_abs (i : Int) (hi : i < 0) : Arith.neg (Arith.ofInt |i| : Ext K) = Arith.ofInt i := by
  have : ((|i| : Int) : K) = -(i : K) := by
    rw [abs_of_neg hi]; push_cast; ring
  simp [Arith.neg, Ext.neg, Arith.ofInt, this]

theorem parseBoundVal_int (i : Int) (hlex : lexN (natChars i.natAbs) = some (Arith.ofInt (i.natAbs : Int)))
    (NEXT : List Tok) : parseBoundVal lexN (intToks i ++ NEXT) = some (Arith.ofInt i, NEXT) := by
  unfold intToks
  by_cases hi : i < 0
  · simp [hi, parseBoundVal, parseSignedNum, hlex, ext_neg_ofInt_abs i hi]
  · have : ((i.natAbs : Int)) = i := by omega
    simp [hi, parseBoundVal, parseSignedNum, hlex, this]

theorem parseBoundVal_bound {v : Ext K} (hn : Arith.isNaN v = false)
    (hok : Arith.isFinite v = true → CoefOk tok lexN v) (NEXT : List Tok) :
    parseBoundVal lexN (boundToks tok v ++ NEXT) = some (v, NEXT) := by
  unfold boundToks
  cases h1 : Arith.eq v (posInf : Ext K) with
  | true =>
    have : isKw kwInf "infinity".toList = true := by decide
    have hk : isKw kwInf ['i', 'n', 'f', 'i', 'n', 'i', 't', 'y'] = true := by decide
    simp [parseBoundVal, hk, (ext_eq_true h1).symm]
  | false =>
    cases h2 : Arith.eq v (negInf : Ext K) with
    | true =>
      have hk : isKw kwInf ['i', 'n', 'f', 'i', 'n', 'i', 't', 'y'] = true := by decide
      simp [parseBoundVal, hk, (ext_eq_true h2).symm]
    | false =>
      have hc := hok (finite_of_not_inf h1 h2 hn)
      have := parseSignedNum_signed tok lexN hc NEXT
      simp only [Bool.false_eq_true, if_false]
      unfold signedNumToks at this ⊢
      split <;> simp_all [parseBoundVal]

/-- an entry `l <= x <= u` whose values `parseBoundVal` reads as `l`, `u` -/
theorem parseBounds_range (f : Nat) (lo hi : List Tok) (l u : Ext K) (x : String) (NEXT : List Tok)
    (hx : isReserved x.toList = false)
    (hlo : ∀ X, parseBoundVal lexN (lo ++ X) = some (l, X)) (hhi : ∀ X, parseBoundVal lexN (hi ++ X) = some (u, X))
    (hhead : ∃ t ts, lo = t :: ts ∧ ∀ n, t ≠ .name n) :
    parseBounds lexN (f + 1) (lo ++ .le :: .name x.toList :: .le :: (hi ++ NEXT)) =
      parseBounds.cont lexN f { var := x, lo := some l, hi := some u } NEXT := by
  obtain ⟨t, ts, rfl, hn⟩ := hhead
  have e1 : parseBounds lexN (f + 1) (t :: ts ++ .le :: .name x.toList :: .le :: (hi ++ NEXT)) =
      parseBounds.entryVal lexN f (t :: ts ++ .le :: .name x.toList :: .le :: (hi ++ NEXT)) := by
    cases t <;> first | exact absurd rfl (hn _) | simp [parseBounds]
  rw [e1]
  simp only [parseBounds.entryVal, parseBoundsEntryVal, hlo, hx, hhi, Bool.false_eq_true, if_false,
    String.ofList_toList]

theorem intToks_head (i : Int) : ∃ t ts, intToks i = t :: ts ∧ ∀ n, t ≠ .name n := by
  unfold intToks; split <;> exact ⟨_, _, rfl, fun n => by simp⟩
theorem boundToks_head (v : Ext K) : ∃ t ts, boundToks tok v = t :: ts ∧ ∀ n, t ≠ .name n := by
  unfold boundToks signedNumToks
  split
  · exact ⟨_, _, rfl, fun n => by simp⟩
  · split
    · exact ⟨_, _, rfl, fun n => by simp⟩
    · split <;> exact ⟨_, _, rfl, fun n => by simp⟩

theorem parseBounds_boundLinesT (w : List Char) (R0 : List Tok) (hw : isSectionKw w = true)
    (ds : List (DomVar (Ext K))) (hname : ∀ d ∈ ds, isReserved d.name.toList = false)
    (hn : ∀ v ∈ boundNums ds, Arith.isNaN v = false)
    (hok : ∀ v ∈ boundNums ds, Arith.isFinite v = true → CoefOk tok lexN v)
    (hint : ∀ i ∈ intBounds ds, lexN (natChars i.natAbs) = some (Arith.ofInt (i.natAbs : Int))) :
    ∀ fuel, (boundLinesT tok ds).length + 1 ≤ fuel →
      parseBounds lexN fuel (fileToks (boundLinesT tok ds) ++ .name w :: R0) = some (denoteBounds ds, .name w :: R0) := by
  induction ds with
  | nil =>
    intro fuel hf
    obtain ⟨f, rfl⟩ : ∃ f, fuel = f + 1 := ⟨fuel - 1, by simp [boundLinesT] at hf; omega⟩
    simp only [boundLinesT, fileToks, denoteBounds, List.nil_append]
    rw [parseBounds.eq_def]; simp [hw]
  | cons d ds ih =>
    intro fuel hf
    have hx := hname d (by simp)
    have hname' : ∀ d' ∈ ds, isReserved d'.name.toList = false := fun d' h' => hname d' (by simp [h'])
    cases hty : d.ty with
    | bool =>
      simp only [boundLinesT, denoteBounds, hty] at hf ⊢
      exact ih hname' (fun v hv => hn v (by simp [boundNums, hty, hv])) (fun v hv => hok v (by simp [boundNums, hty, hv]))
        (fun i hi => hint i (by simp [intBounds, hty, hi])) fuel hf
    | int lo hi =>
      simp only [boundLinesT, denoteBounds, hty] at hf ⊢
      obtain ⟨f, rfl⟩ : ∃ f, fuel = f + 1 := ⟨fuel - 1, by simp at hf; omega⟩
      have ih' := ih hname' (fun v hv => hn v (by simp [boundNums, hty, hv])) (fun v hv => hok v (by simp [boundNums, hty, hv]))
        (fun i hi => hint i (by simp [intBounds, hty, hi])) f (by simp at hf; omega)
      have := parseBounds_range lexN f (intToks lo) (intToks hi) (Arith.ofInt lo) (Arith.ofInt hi) d.name
        (fileToks (boundLinesT tok ds) ++ .name w :: R0) hx
        (fun X => parseBoundVal_int lexN lo (hint lo (by simp [intBounds, hty])) X)
        (fun X => parseBoundVal_int lexN hi (hint hi (by simp [intBounds, hty])) X) (intToks_head lo)
      simp only [fileToks, Line.toks, List.flatMap_cons, List.flatMap_nil, intWT, leWT, nameWT, List.append_assoc,
        List.cons_append, List.nil_append, List.append_nil]
      rw [this]; simp [parseBounds.cont, ih']
    | nnreal lo hi =>
      have hn' : ∀ v ∈ boundNums ds, Arith.isNaN v = false := fun v hv => hn v (by simp [boundNums, hty, hv])
      have hok' : ∀ v ∈ boundNums ds, Arith.isFinite v = true → CoefOk tok lexN v :=
        fun v hv => hok v (by simp [boundNums, hty, hv])
      have hint' : ∀ i ∈ intBounds ds, lexN (natChars i.natAbs) = some (Arith.ofInt (i.natAbs : Int)) :=
        fun i hi => hint i (by simp [intBounds, hty, hi])
      simp only [boundLinesT, denoteBounds, hty] at hf ⊢
      split
      · rename_i hcond
        simp only [hcond, if_true, List.length_cons] at hf
        obtain ⟨f, rfl⟩ : ∃ f, fuel = f + 1 := ⟨fuel - 1, by omega⟩
        have ih' := ih hname' hn' hok' hint' f (by omega)
        have := parseBounds_range lexN f (boundToks tok lo) (boundToks tok hi) lo hi d.name
          (fileToks (boundLinesT tok ds) ++ .name w :: R0) hx
          (fun X => parseBoundVal_bound tok lexN (hn lo (by simp [boundNums, hty])) (hok lo (by simp [boundNums, hty])) X)
          (fun X => parseBoundVal_bound tok lexN (hn hi (by simp [boundNums, hty])) (hok hi (by simp [boundNums, hty])) X)
          (boundToks_head tok lo)
        simp only [fileToks, Line.toks, List.flatMap_cons, List.flatMap_nil, boundWT, leWT, nameWT, List.append_assoc,
          List.cons_append, List.nil_append, List.append_nil]
        rw [this]; simp [parseBounds.cont, ih']
      · rename_i hcond
        rw [if_neg hcond] at hf
        exact ih hname' hn' hok' hint' fuel hf
    | real lo hi =>
      have hn' : ∀ v ∈ boundNums ds, Arith.isNaN v = false := fun v hv => hn v (by simp [boundNums, hty, hv])
      have hok' : ∀ v ∈ boundNums ds, Arith.isFinite v = true → CoefOk tok lexN v :=
        fun v hv => hok v (by simp [boundNums, hty, hv])
      have hint' : ∀ i ∈ intBounds ds, lexN (natChars i.natAbs) = some (Arith.ofInt (i.natAbs : Int)) :=
        fun i hi => hint i (by simp [intBounds, hty, hi])
      simp only [boundLinesT, denoteBounds, hty] at hf ⊢
      split
      · rename_i hcond
        simp only [hcond, if_true, List.length_cons] at hf
        obtain ⟨f, rfl⟩ : ∃ f, fuel = f + 1 := ⟨fuel - 1, by omega⟩
        have ih' := ih hname' hn' hok' hint' f (by omega)
        simp only [Bool.and_eq_true] at hcond
        have hfree : isKw kwFree "free".toList = true := by decide
        have hfree' : isKw kwFree ['f', 'r', 'e', 'e'] = true := by decide
        simp only [fileToks, Line.toks, List.flatMap_cons, List.flatMap_nil, kw, nameWT, List.append_assoc,
          List.cons_append, List.nil_append, List.append_nil]
        rw [parseBounds.eq_def]
        simp [not_sectionKw_of_not_reserved hx, not_infKw_of_not_reserved hx, hx, hfree', parseBounds.cont,
          ih', ext_eq_true hcond.1, ext_eq_true hcond.2]
      · rename_i hcond
        rw [if_neg hcond] at hf
        simp only [List.length_cons] at hf
        obtain ⟨f, rfl⟩ : ∃ f, fuel = f + 1 := ⟨fuel - 1, by omega⟩
        have ih' := ih hname' hn' hok' hint' f (by omega)
        have := parseBounds_range lexN f (boundToks tok lo) (boundToks tok hi) lo hi d.name
          (fileToks (boundLinesT tok ds) ++ .name w :: R0) hx
          (fun X => parseBoundVal_bound tok lexN (hn lo (by simp [boundNums, hty])) (hok lo (by simp [boundNums, hty])) X)
          (fun X => parseBoundVal_bound tok lexN (hn hi (by simp [boundNums, hty])) (hok hi (by simp [boundNums, hty])) X)
          (boundToks_head tok lo)
        simp only [fileToks, Line.toks, List.flatMap_cons, List.flatMap_nil, boundWT, leWT, nameWT, List.append_assoc,
          List.cons_append, List.nil_append, List.append_nil]
        rw [this]; simp [parseBounds.cont, ih']

theorem parseNames_names (w : List Char) (R0 : List Tok) (hw : isSectionKw w = true) (ns : List String)
    (hn : ∀ n ∈ ns, isReserved n.toList = false) :
    parseNames (toksOf (ns.map nameWT) ++ .name w :: R0) = some (ns, .name w :: R0) := by
  induction ns with
  | nil => simp [parseNames, hw]
  | cons n ns ih =>
    have h1 := hn n (by simp)
    have ih' := ih (fun n' h' => hn n' (by simp [h']))
    simp [nameWT] at ih' ⊢
    simp [parseNames, not_sectionKw_of_not_reserved h1, h1, ih']

theorem denoteBounds_nil_of (ds : List (DomVar (Ext K))) (h : boundLinesT tok ds = []) : denoteBounds ds = [] := by
  induction ds with
  | nil => rfl
  | cons d ds ih =>
    cases hty : d.ty with
    | bool => simp only [boundLinesT, denoteBounds, hty] at h ⊢; exact ih h
    | int lo hi => simp [boundLinesT, hty] at h
    | nnreal lo hi =>
      simp only [boundLinesT, denoteBounds, hty] at h ⊢
      split
      · rename_i hc; simp [hc] at h
      · rename_i hc; rw [if_neg hc] at h; exact ih h
    | real lo hi =>
      simp only [boundLinesT, hty] at h
      split at h <;> simp at h

theorem fileToks_length_ge (ls : List Line) (h : ∀ l ∈ ls, l.toks ≠ []) : ls.length ≤ (fileToks ls).length := by
  induction ls with
  | nil => simp [fileToks]
  | cons l ls ih =>
    have h1 : l.toks ≠ [] := h l (by simp)
    have := ih (fun l' h' => h l' (by simp [h']))
    have h2 : 0 < l.toks.length := List.length_pos_iff.mpr h1
    simp only [fileToks, List.length_cons, List.length_append]
    omega

theorem rowLinesT_toks_ne (vars : List String) (ns : List (List Char)) (rows : List (LinRow (Ext K))) :
    ∀ l ∈ rowLinesT tok vars ns rows, l.toks ≠ [] := by
  induction rows generalizing ns with
  | nil => cases ns <;> simp [rowLinesT]
  | cons r rs ih =>
    cases ns with
    | nil => simp [rowLinesT]
    | cons n ns =>
      intro l hl
      simp only [rowLinesT] at hl
      rcases List.mem_cons.mp hl with rfl | hl
      · simp [rowLineT, Line.toks]
      · exact ih ns l hl

theorem rowNamesFrom_length {α : Type} (used : List (List Char)) (i : Nat) (rows : List (LinRow α)) :
    (rowNamesFrom used i rows).length = rows.length := by
  induction rows generalizing used i with
  | nil => rfl
  | cons r rs ih => simp only [rowNamesFrom]; split <;> simp [ih]

theorem rowLinesT_length (vars : List String) (ns : List (List Char)) (rows : List (LinRow (Ext K)))
    (h : ns.length = rows.length) : (rowLinesT tok vars ns rows).length = rows.length := by
  induction rows generalizing ns with
  | nil => cases ns <;> rfl
  | cons r rs ih =>
    cases ns with
    | nil => simp at h
    | cons n ns => simp only [rowLinesT, List.length_cons]; rw [ih ns (by simpa using h)]

theorem boundLinesT_toks_ne (ds : List (DomVar (Ext K))) : ∀ l ∈ boundLinesT tok ds, l.toks ≠ [] := by
  induction ds with
  | nil => simp [boundLinesT]
  | cons d ds ih =>
    intro l hl
    unfold boundLinesT at hl
    split at hl
    · exact ih l hl
    · rcases List.mem_cons.mp hl with rfl | hl
      · simp [Line.toks, leWT]
      · exact ih l hl
    · split at hl
      · rcases List.mem_cons.mp hl with rfl | hl
        · simp [Line.toks, leWT]
        · exact ih l hl
      · exact ih l hl
    · split at hl
      · rcases List.mem_cons.mp hl with rfl | hl
        · simp [Line.toks, nameWT]
        · exact ih l hl
      · rcases List.mem_cons.mp hl with rfl | hl
        · simp [Line.toks, leWT]
        · exact ih l hl

/-- the lines after the rows -/
noncomputable def sectionLinesT (ds : List (DomVar (Ext K))) : List Line :=
  (if !(boundLinesT tok ds).isEmpty then ⟨false, [kw "Bounds"]⟩ :: boundLinesT tok ds else [])
    ++ (if !(binaryNames ds).isEmpty then [⟨false, [kw "Binary"]⟩, ⟨true, (binaryNames ds).map nameWT⟩] else [])
    ++ (if !(generalNames ds).isEmpty then [⟨false, [kw "General"]⟩, ⟨true, (generalNames ds).map nameWT⟩] else [])
    ++ [⟨false, [kw "End"]⟩]

theorem linesLP_split (lm : LinModel (Ext K)) :
    linesLP tok lm = [⟨false, [dirWT lm.optType]⟩, objLineT tok lm, ⟨false, [kw "Subject", kw "To"]⟩]
      ++ rowLinesT tok lm.vars (rowNames lm.rows) lm.rows ++ sectionLinesT tok lm.domain := by
  simp [linesLP, sectionLinesT, List.append_assoc]

/-- tokens of the General part and End -/
def genEndToks (ds : List (DomVar (Ext K))) : List Tok :=
  (if !(generalNames ds).isEmpty then Tok.name "General".toList :: toksOf ((generalNames ds).map nameWT) else [])
    ++ [.name "End".toList]
def binToks (ds : List (DomVar (Ext K))) : List Tok :=
  (if !(binaryNames ds).isEmpty then Tok.name "Binary".toList :: toksOf ((binaryNames ds).map nameWT) else [])
noncomputable def bndToks (ds : List (DomVar (Ext K))) : List Tok :=
  (if !(boundLinesT tok ds).isEmpty then Tok.name "Bounds".toList :: fileToks (boundLinesT tok ds) else [])

theorem fileToks_sectionLinesT (ds : List (DomVar (Ext K))) :
    fileToks (sectionLinesT tok ds) = bndToks tok ds ++ (binToks ds ++ genEndToks ds) := by
  unfold sectionLinesT bndToks binToks genEndToks
  simp only [fileToks_append]
  cases (boundLinesT tok ds).isEmpty <;> cases (binaryNames ds).isEmpty <;> cases (generalNames ds).isEmpty <;>
    simp [fileToks, Line.toks, kw, toksOf]

theorem genEndToks_head (ds : List (DomVar (Ext K))) :
    ∃ w R0, genEndToks ds = .name w :: R0 ∧ isSectionKw w = true ∧ isKw kwBounds w = false ∧ isKw kwBinary w = false := by
  unfold genEndToks
  cases (generalNames ds).isEmpty
  · exact ⟨_, _, rfl, by decide, by decide, by decide⟩
  · exact ⟨_, _, rfl, by decide, by decide, by decide⟩

theorem binGenEnd_head (ds : List (DomVar (Ext K))) :
    ∃ w R0, binToks ds ++ genEndToks ds = .name w :: R0 ∧ isSectionKw w = true ∧ isKw kwBounds w = false := by
  unfold binToks
  cases (binaryNames ds).isEmpty
  · exact ⟨_, _, rfl, by decide, by decide⟩
  · obtain ⟨w, R0, e, h1, h2, _⟩ := genEndToks_head ds
    exact ⟨w, R0, by simpa using e, h1, h2⟩

theorem parseSections_sections (ds : List (DomVar (Ext K))) (hname : ∀ d ∈ ds, isReserved d.name.toList = false)
    (hn : ∀ v ∈ boundNums ds, Arith.isNaN v = false)
    (hok : ∀ v ∈ boundNums ds, Arith.isFinite v = true → CoefOk tok lexN v)
    (hint : ∀ i ∈ intBounds ds, lexN (natChars i.natAbs) = some (Arith.ofInt (i.natAbs : Int))) :
    parseSections lexN (fileToks (sectionLinesT tok ds)) =
      some (denoteBounds ds, binaryNames ds, generalNames ds) := by
  rw [fileToks_sectionLinesT]
  -- names in the marking sections are declared names
  have hbin : ∀ n ∈ binaryNames ds, isReserved n.toList = false := fun n hn' => by
    obtain ⟨d, hd, e⟩ := mem_binaryNames_sub hn'; rw [← e]; exact hname d hd
  have hgen : ∀ n ∈ generalNames ds, isReserved n.toList = false := fun n hn' => by
    obtain ⟨d, hd, e⟩ := mem_generalNames_sub hn'; rw [← e]; exact hname d hd
  obtain ⟨w1, R1, e1, hs1, hb1⟩ := binGenEnd_head ds
  obtain ⟨w2, R2, e2, hs2, hb2, hi2⟩ := genEndToks_head ds
  -- step 1: Bounds
  have step1 : optSection kwBounds (fun rest => parseBounds lexN (rest.length + 1) rest) []
      (bndToks tok ds ++ (binToks ds ++ genEndToks ds)) = some (denoteBounds ds, binToks ds ++ genEndToks ds) := by
    unfold optSection
    unfold bndToks
    cases hbe : (boundLinesT tok ds).isEmpty with
    | true =>
      have : boundLinesT tok ds = [] := by simpa using hbe
      simp only [Bool.not_true, Bool.false_eq_true, if_false, List.nil_append, e1, hb1,
        denoteBounds_nil_of tok ds this]
    | false =>
      have hk : isKw kwBounds "Bounds".toList = true := by decide
      simp only [Bool.not_false, if_true, List.cons_append, hk]
      rw [e1]
      apply parseBounds_boundLinesT tok lexN w1 R1 hs1 ds hname hn hok hint
      have := fileToks_length_ge _ (boundLinesT_toks_ne tok ds)
      simp only [List.length_append, List.length_cons]; omega
  -- step 2: Binary
  have step2 : optSection kwBinary parseNames [] (binToks ds ++ genEndToks ds) = some (binaryNames ds, genEndToks ds) := by
    unfold optSection
    unfold binToks
    cases hbe : (binaryNames ds).isEmpty with
    | true =>
      have : binaryNames ds = [] := by simpa using hbe
      simp only [Bool.not_true, Bool.false_eq_true, if_false, List.nil_append, e2, hi2, this]
    | false =>
      have hk : isKw kwBinary "Binary".toList = true := by decide
      simp only [Bool.not_false, if_true, List.cons_append, hk]
      rw [e2]
      exact parseNames_names w2 R2 hs2 _ hbin
  -- step 3: General and End
  have step3 : optSection kwGeneral parseNames [] (genEndToks ds) = some (generalNames ds, [.name "End".toList]) := by
    unfold optSection
    unfold genEndToks
    cases hbe : (generalNames ds).isEmpty with
    | true =>
      have : generalNames ds = [] := by simpa using hbe
      have hk : isKw kwGeneral ['E', 'n', 'd'] = false := by decide
      simp [this, hk]
    | false =>
      have hk : isKw kwGeneral "General".toList = true := by decide
      simp only [Bool.not_false, if_true, List.cons_append, hk]
      exact parseNames_names "End".toList [] (by decide) _ hgen
  have hend : isKw kwEnd "End".toList = true := by decide
  unfold parseSections
  simp only [step1, step2, step3, hend, if_true]


/-! ### the whole file -/

theorem nameOk_not_reserved {s : String} (h : nameOk s = true) : isReserved s.toList = false := by
  simp only [nameOk, Bool.and_eq_true, Bool.not_eq_true'] at h; exact h.2

theorem coefOk_of_good {v : Ext K} (hf : Arith.isFinite v = true) (h : Good tok lexN v) : CoefOk tok lexN v :=
  ⟨hf, (h.2.nonneg (abs_not_neg _)).2⟩

theorem sectionLinesT_head (ds : List (DomVar (Ext K))) :
    ∃ w R0, fileToks (sectionLinesT tok ds) = .name w :: R0 ∧ isSectionKw w = true := by
  rw [fileToks_sectionLinesT]
  unfold bndToks
  cases (boundLinesT tok ds).isEmpty
  · exact ⟨_, _, rfl, by decide⟩
  · obtain ⟨w, R0, e, h, _⟩ := binGenEnd_head ds
    exact ⟨w, R0, by simpa using e, h⟩

/-- The token-level parser reads the tokens of the exported text as `denote lm`. -/
theorem parseLP_linesLP (lm : LinModel (Ext K)) (wf : WellFormed tok lexN lm) :
    parseLP lexN (fileToks (linesLP tok lm)) = some (denote lm) := by
  have good : ∀ v ∈ coefNums lm, CoefOk tok lexN v :=
    fun v hv => coefOk_of_good tok lexN (wf.finite v hv) (wf.toks v (by simp [hv]) (wf.finite v hv))
  have hobj : ∀ c ∈ lm.objective, CoefOk tok lexN c := fun c hc => good c (by simp [coefNums, hc])
  have hoff : CoefOk tok lexN lm.offset := good _ (by simp [coefNums])
  have hv : ∀ v ∈ lm.vars, isReserved v.toList = false := fun v h => nameOk_not_reserved (wf.vars_ok v h)
  have hrows : ∀ r ∈ lm.rows, (∀ c ∈ r.coeffs, CoefOk tok lexN c) ∧ CoefOk tok lexN r.rhs := by
    intro r hr
    refine ⟨fun c hc => good c ?_, good _ ?_⟩
    · simp only [coefNums, List.mem_append, List.mem_flatMap]; right; exact ⟨r, hr, by simp [hc]⟩
    · simp only [coefNums, List.mem_append, List.mem_flatMap]; right; exact ⟨r, hr, by simp⟩
  have hdom : ∀ d ∈ lm.domain, isReserved d.name.toList = false := fun d h => nameOk_not_reserved (wf.dom_ok d h)
  have hbok : ∀ v ∈ boundNums lm.domain, Arith.isFinite v = true → CoefOk tok lexN v :=
    fun v hv' hf => coefOk_of_good tok lexN hf (wf.toks v (by simp [hv']) hf)
  obtain ⟨w, R0, eS, hw⟩ := sectionLinesT_head tok lm.domain
  rw [linesLP_split]
  simp only [fileToks_append, fileToks, List.append_nil]
  -- sense, label, objective
  have hsense : parseSense ((Line.mk false [dirWT lm.optType]).toks ++
      ((objLineT tok lm).toks ++ ((Line.mk false [kw "Subject", kw "To"]).toks ++
        (fileToks (rowLinesT tok lm.vars (rowNames lm.rows) lm.rows) ++ fileToks (sectionLinesT tok lm.domain))))) =
      some ((match lm.optType with | .max => Sense.max | _ => Sense.min),
        (objLineT tok lm).toks ++ ((Line.mk false [kw "Subject", kw "To"]).toks ++
        (fileToks (rowLinesT tok lm.vars (rowNames lm.rows) lm.rows) ++ fileToks (sectionLinesT tok lm.domain)))) := by
    have h1 : isKw kwMin ['M', 'i', 'n', 'i', 'm', 'i', 'z', 'e'] = true := by decide
    have h2 : isKw kwMax ['M', 'a', 'x', 'i', 'm', 'i', 'z', 'e'] = true := by decide
    have h3 : isKw kwMin ['M', 'a', 'x', 'i', 'm', 'i', 'z', 'e'] = false := by decide
    cases lm.optType <;> simp [Line.toks, dirWT, kw, parseSense, h1, h2, h3]
  unfold parseLP
  simp only [List.append_assoc, hsense]
  have hobjline : (objLineT tok lm).toks = .name "obj".toList :: .colon ::
      toksOf (termWTs tok lm.objective lm.vars ++ offsetWTs tok lm.offset) := by
    simp [objLineT, Line.toks, toksOf]
  have hst : (Line.mk false [kw "Subject", kw "To"]).toks = [.name "Subject".toList, .name "To".toList] := by
    simp [Line.toks, kw]
  simp only [hobjline, hst, List.cons_append, List.nil_append, parseLabel]
  rw [parseExpr_objective tok lexN lm hobj hoff hv wf.zero_tok]
  have hsub : parseSubjectTo (.name "Subject".toList :: .name "To".toList ::
      (fileToks (rowLinesT tok lm.vars (rowNames lm.rows) lm.rows) ++ fileToks (sectionLinesT tok lm.domain))) =
      some (fileToks (rowLinesT tok lm.vars (rowNames lm.rows) lm.rows) ++ fileToks (sectionLinesT tok lm.domain)) := by
    have h1 : lower ['S', 'u', 'b', 'j', 'e', 'c', 't'] = ['s', 'u', 'b', 'j', 'e', 'c', 't'] := by decide
    have h2 : lower ['T', 'o'] = ['t', 'o'] := by decide
    simp [parseSubjectTo, h1, h2]
  simp only [hsub]
  rw [eS, parseRows_rowLinesT tok lexN lm.vars hv wf.zero_tok w R0 hw lm.rows hrows (rowNames lm.rows)
    (rowNamesFrom_ok lm.rows wf.rows_ok _ _) _ (by
    have := fileToks_length_ge _ (rowLinesT_toks_ne tok lm.vars (rowNames lm.rows) lm.rows)
    rw [rowLinesT_length tok lm.vars (rowNames lm.rows) lm.rows (rowNamesFrom_length _ _ _)] at this
    simp only [List.length_append, List.length_cons]; omega)]
  simp only [← eS, parseSections_sections tok lexN lm.domain hdom wf.bounds_not_nan hbok wf.int_toks]
  rfl

end Rooc.Lp
