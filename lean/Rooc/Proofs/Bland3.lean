/-
Degenerate pivots keep the basic solution; two canonical tableaus of the same system with the same basis set
have the same value.
-/
import Rooc.Proofs.Bland2
namespace Rooc
namespace Bland
variable {K : Type} [Field K] [LinearOrder K] [IsStrictOrderedRing K]
attribute [local instance] exactArith
open Tableau TabSem PivotLemmas BasicSol Unbounded

theorem dot_eq_zero_of : ∀ (c x : List K), (∀ j, nth c j = 0 ∨ nth x j = 0) → dot c x = 0
  | [], x, _ => by simp
  | a :: as, [], _ => by simp
  | a :: as, x :: xs, h => by
    have h0 := h 0
    simp only [nth, List.getD_cons_zero] at h0
    have ih := dot_eq_zero_of as xs (fun j => by simpa [nth] using h (j+1))
    rw [dot_cons, ih]
    rcases h0 with h0 | h0 <;> simp [h0]

/-- value of variable `j` in the basic solution. -/
noncomputable def val (T : Tab K) (j : Nat) : K := nth (basicSolution T) j

theorem nth_fill_mem (b : List K) : ∀ (l : List Nat) (k0 : Nat) (v : List K), l.Nodup → (∀ j ∈ l, j < v.length) →
    ∀ k, (hk : k < l.length) → nth (fill b l k0 v) (l.getD k 0) = nth b (k0 + k)
  | [], _, _, _, _, k, hk => by simp at hk
  | j :: l, k0, v, hnd, hlt, k, hk => by
    rw [fill_cons]
    have hnd' := List.nodup_cons.1 hnd
    have hj : j < v.length := hlt j (by simp)
    cases k with
    | zero =>
      simp only [List.getD_cons_zero, Nat.add_zero]
      rw [nth_fill_not_mem b l (k0+1) _ j (by intro j' hj'; simpa using hlt j' (List.mem_cons_of_mem _ hj')) hnd'.1,
        nth_set _ _ _ _ hj]; simp
    | succ k =>
      have := nth_fill_mem b l (k0+1) (v.set j (nth b k0)) hnd'.2
        (by intro j' hj'; simpa using hlt j' (List.mem_cons_of_mem _ hj')) k (by simpa using hk)
      simpa [Nat.add_assoc, Nat.add_comm 1 k] using this

theorem val_basic {T : Tab K} {m n : Nat} (hC : Canon T m n) {k : Nat} (hk : k < m) :
    val T (T.basis.getD k 0) = nth T.b k := by
  unfold val
  rw [basicSolution, variablesValues_eq, nth_fill_mem T.b T.basis 0 _ (basis_nodup hC) (basis_lt hC) k
    (by rw [hC.rect.basis]; exact hk), Nat.zero_add]

theorem val_nonbasic {T : Tab K} {m n : Nat} (hC : Canon T m n) {j : Nat} (hj : j ∉ T.basis) : val T j = 0 := by
  unfold val
  rw [basicSolution, variablesValues_eq, nth_fill_not_mem T.b T.basis 0 _ j (basis_lt hC) hj, nth_replicate_zero]

theorem mem_basis_iff {T : Tab K} {j : Nat} : j ∈ T.basis ↔ ∃ k, k < T.basis.length ∧ T.basis.getD k 0 = j := by
  constructor
  · exact basis_mem
  · rintro ⟨k, hk, rfl⟩
    simp only [List.getD_eq_getElem?_getD, List.getElem?_eq_getElem hk, Option.getD_some]
    exact List.getElem_mem hk

/-- **a degenerate pivot (`b_t = 0`) does not move the basic solution.** -/
theorem val_pivot_degenerate {T : Tab K} {m n : Nat} (hC : Canon T m n) {t h : Nat} (ht : t < m) (hh : h < n)
    (hnb : h ∉ T.basis) (hp : nth (row T.a t) h ≠ 0) (hb : nth T.b t = 0) (j : Nat) :
    val (pivot T t h) j = val T j := by
  have hC' := pivot_canon hC ht hh hp
  have hbl : T.basis.length = m := hC.rect.basis
  have hget : ∀ k, k < m → (pivot T t h).basis.getD k 0 = if k = t then h else T.basis.getD k 0 :=
    fun k hk => pivot_basis_get T t h k (by rw [hbl]; exact hk)
  have hb' : ∀ k, k < m → nth (pivot T t h).b k = nth T.b k := by
    intro k hk
    rw [pivot_b T t h (by rw [hC.rect.rhs]; exact hk), hb]
    by_cases e : k = t
    · simp [e, hb]
    · simp [e]
  by_cases hj : j ∈ (pivot T t h).basis
  · obtain ⟨k, hk, e⟩ := mem_basis_iff.1 hj
    have hkm : k < m := by rw [pivot_basis_length, hbl] at hk; exact hk
    rw [← e, val_basic hC' hkm, hb' k hkm, hget k hkm]
    by_cases ekt : k = t
    · simp only [ekt, if_true]; rw [hb, val_nonbasic hC hnb]
    · simp only [ekt, if_false]; rw [val_basic hC hkm]
  · rw [val_nonbasic hC' hj]
    by_cases hj0 : j ∈ T.basis
    · obtain ⟨k, hk, e⟩ := mem_basis_iff.1 hj0
      have hkm : k < m := by rw [hbl] at hk; exact hk
      have ekt : k = t := by
        by_contra ekt
        apply hj
        refine mem_basis_iff.2 ⟨k, by rw [pivot_basis_length]; exact hk, ?_⟩
        rw [hget k hkm, if_neg ekt]; exact e
      rw [← e, val_basic hC hkm, ekt, hb]
    · rw [val_nonbasic hC hj0]

/-- **same basis set ⇒ same value** (for canonical tableaus of one system and one objective). -/
theorem value_eq_of_basis_subset {D D' : Tab K} {m n : Nat} (hC : Canon D m n) (hC' : Canon D' m n)
    (hS : ∀ x, Sol D' x ↔ Sol D x) {c0 : List K} (hO : ObjInv D c0) (hO' : ObjInv D' c0)
    (hsub : ∀ j, j ∈ D.basis → j ∈ D'.basis) : D'.value = D.value := by
  have hx := basicSolution_sol hC
  have e1 := basicSolution_objective hC hO
  have e2 := hO' _ (by rw [basicSolution_length, hC.rect.costs, hC'.rect.costs]) ((hS _).2 hx)
  have hz : dot D'.c (basicSolution D) = 0 := by
    apply dot_eq_zero_of
    intro j
    by_cases hj : j ∈ D.basis
    · left
      obtain ⟨k, hk, e⟩ := mem_basis_iff.1 (hsub j hj)
      have := hC'.costs k (by rw [hC'.rect.rows, ← hC'.rect.basis]; exact hk)
      rw [e] at this; simpa using this
    · right; exact val_nonbasic hC hj
  rw [e1, hz] at e2
  simp only [ExactK.sub_eq] at e2
  linarith

end Bland
end Rooc
