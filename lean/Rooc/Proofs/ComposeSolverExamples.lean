/-
A concrete instance of the default-solver statement of C03 (every ordered field): the Boolean model `exBool`
(`min x s.t. c: x ≤ y`) is compiled by the whole pipeline (every tolerance, step limit 0; symbolic run of the port) to the
linear model `lmBool`; for microlp's answer `outBool` (optimal, objective 0, `x = y = 0`) rooc's wrapper
`SolverWrap.wrapAuto` returns `solBool` (read-back `false, false`, value `0 + offset`, activity of row `c`), and the
assumption `SolverSpec lmBool outBool` HOLDS — so it is satisfiable by a real solution, not only vacuously.
-/
import Rooc.Proofs.ComposeExamples
import Rooc.Proofs.ComposeSolver

set_option linter.unusedSectionVars false
set_option linter.unusedSimpArgs false
set_option linter.unusedVariables false
set_option linter.unnecessarySeqFocus false

namespace Rooc.Compose
open Rooc Rooc.Lin Rooc.Sem Rooc.LinP Rooc.Exp Rooc.SolverWrap
variable {K : Type} [Field K] [LinearOrder K] [IsStrictOrderedRing K] [FloorRing K]

/-- what `Compile.linearize` returns for `exBool`. -/
def lmBool : LinModel (Ext K) :=
  { optType := .min, objective := [.fin 1, .fin 0], offset := .fin 0, vars := ["x", "y"],
    domain := [{ name := "x", ty := .bool, usage := 1 }, { name := "y", ty := .bool, usage := 1 }],
    rows := [{ name := "c", coeffs := [.fin 1, .fin (-1)], cmp := .le, rhs := .fin 0 }] }

theorem exBool_lin (b : BoundsMap (Ext K)) : linearizeWith (exBool : Model (Ext K)) b (exBool : Model (Ext K)).domain = .ok lmBool := by
  let s0 : St (Ext K) := { queue := (exBool : Model (Ext K)).constraints, domain := (exBool : Model (Ext K)).domain, bounds := b }
  refine (linearizeWith_ok_iff _ _ _ _).mpr
    ⟨.var "x", s0, Ctx.fromVar "x" Arith.one, s0, _, exAffine_sf "x" _, ?_, exAffine_drain s0 rfl, ?_⟩
  · simp [linExp, pure_ok]
  · simp [assemble, lmBool, exBool, s0, exRow, dedupNames, sortStr, insertSortedDup, extractCoeffs, indexOf, indexOf.go, fromVar_eq]

theorem exBool_analyzer (tol : Ext K) :
    (Analyzer.analyze (exBool : Model (Ext K)).domain (exBool : Model (Ext K)).constraints tol 0).enforceable
      (exBool : Model (Ext K)).domain
    = { Analyzer.fromDomain (exBool : Model (Ext K)).domain tol with reachedIterationLimit := true } := by
  have h1 : Analyzer.analyze (exBool : Model (Ext K)).domain (exBool : Model (Ext K)).constraints tol 0
      = { Analyzer.fromDomain (exBool : Model (Ext K)).domain tol with reachedIterationLimit := true } := by
    simp [Analyzer.analyze, Analyzer.propagate, exBool, Analyzer.propagateLoop, List.range, List.range.loop]
  rw [h1]
  simp [Analyzer.enforceable, Analyzer.emptyIntegerRange, Analyzer.roundIntegerRanges, Analyzer.roundStep,
    Analyzer.fromDomain, exBool]

theorem exBool_compile0 (tol : Ext K) : Compile.linearize (exBool : Model (Ext K)) tol 0 = .ok lmBool := by
  have hd : ({ Analyzer.fromDomain (exBool : Model (Ext K)).domain tol with reachedIterationLimit := true } : Analyzer (Ext K)).applyToDomain
      (exBool : Model (Ext K)).domain = (exBool : Model (Ext K)).domain := by
    simp [Analyzer.applyToDomain, Analyzer.applyToVar, Analyzer.fromDomain, exBool, AList.insert, AList.get?,
      Bounds.ofVarType]
  refine (compile_ok_iff _ _ _ _).mpr
    ⟨scratchOK_of_fragCheck _ _ (by simp [fragCheck, exBool, frag, fragList]),
     { Analyzer.fromDomain (exBool : Model (Ext K)).domain tol with reachedIterationLimit := true }, ?_, ?_⟩
  · simp only [pipelineAnalyzer, exBool_normalized, Option.map_some, exBool_analyzer]
  · rw [hd]; exact exBool_lin _

/-- microlp's answer on `lmBool`: optimal, objective 0, `x = y = 0`. -/
def outBool : MlpOutcome (Ext K) := .ok .optimal (.fin 0) [.fin 0, .fin 0]

def solBool : Solution (Ext K) :=
  { status := .optimal, value := .fin 0, assignment := [("x", .bool false), ("y", .bool false)],
    constraints := [("c", .fin 0)], shadow := [] }

theorem wrapAuto_lmBool : wrapAuto (lmBool : LinModel (Ext K)) outBool = .ok solBool := by
  simp [wrapAuto, wrapMilp, lmBool, outBool, solBool, domainOf, isStrict, zipNames, readBack, constraintsMap,
    calcConstraints, sumProducts, imCollect, imInsert, lpSolutionNew, Arith.ne, Arith.eq, Ext.eq]

theorem assignmentOf_solBool : assignmentOf (solBool : Solution (Ext K)) = fun _ => 0 := by
  funext v
  by_cases hx : "x" = v
  · subst hx
    simp [assignmentOf, Solution.valueOf, solBool, buildAssignmentMap, imGet, Val.toNum, StdSem.toK, Arith.ofInt]
  · by_cases hy : "y" = v
    · subst hy
      simp [assignmentOf, Solution.valueOf, solBool, buildAssignmentMap, imGet, Val.toNum, StdSem.toK, Arith.ofInt]
    · simp [assignmentOf, Solution.valueOf, solBool, buildAssignmentMap, imGet, hx, hy]

theorem lmBool_optimal : LinOptimal (lmBool : LinModel (Ext K)) (fun _ => 0) := by
  refine ⟨by simp [linFeasible, lmBool, rowHolds, dotK, cmpK, inDomain, kzero], ?_⟩
  intro ρ' hf w w' hw hw'
  have hx : ρ' "x" = 0 ∨ ρ' "x" = 1 := by
    simp only [linFeasible, lmBool, Bool.and_eq_true, List.all_cons, List.all_nil, Bool.and_true, inDomain] at hf
    simpa [kzero, kone] using hf.2.1
  have e1 : w = 0 := by simpa [linObjective, lmBool, dotK, kzero] using hw.symm
  have e2 : w' = ρ' "x" := by simpa [linObjective, lmBool, dotK, kzero] using hw'.symm
  subst e1 e2
  simp only [lmBool, better_min, decide_eq_false_iff_not, not_lt]
  rcases hx with h | h <;> rw [h] <;> norm_num

/-- the assumption about the solver holds for this answer: `SolverSpec` is satisfiable with a REAL solution. -/
theorem solverSpec_lmBool : SolverSpec (lmBool : LinModel (Ext K)) outBool := by
  refine ⟨fun sol hsol _ => ?_, fun herr => ?_⟩
  · rw [wrapAuto_lmBool] at hsol
    cases hsol
    rw [assignmentOf_solBool]
    exact ⟨lmBool_optimal, 0, rfl, by simp [linObjective, lmBool, dotK, kzero]⟩
  · rw [wrapAuto_lmBool] at herr; cases herr
end Rooc.Compose
