/-
C08 helpers — determinism up to the ORDER of the domain map, the part that is proved:
every READ of the declared domain (`domainType`, `isBoolVar`, `isBinaryCtx`, `binaryAffineValue`, `isLogicValue`,
`tryNormalize`) and of the bounds map (`boundsOf`, `boundsOfList`, `varsWithoutFiniteBounds`) made by the lowering
depends only on the name → entry LOOKUP, which a permutation of a duplicate-free map does not change; and the tail
of `Linearizer::linearize` (`assemble`) produces the same variables, objective, offset and rows for two final states
that differ by the order of their domains, with permuted output domains.
(The composition into an invariance theorem for the whole of `Compile.linearize` needs a relational pass over the
analyzer and the lowering; the implementation is checked metamorphically, harness stream `domain-permutation`.)
-/
import Rooc.Proofs.WFFinal

set_option linter.unusedSectionVars false

namespace Rooc
namespace Lin
open Arith WFList
variable {α : Type} [Arith α]

/-! ### reads of the domain -/

theorem find?_name_perm {d d' : List (DomVar α)} (hp : d.Perm d') (hn : (d.map (·.name)).Nodup) (x : String) :
    d.find? (·.name == x) = d'.find? (·.name == x) := by
  have hn' : (d'.map (·.name)).Nodup := (hp.map _).nodup_iff.mp hn
  -- both sides are determined by membership, names being unique
  have key : ∀ (l : List (DomVar α)), (l.map (·.name)).Nodup → ∀ v, l.find? (·.name == x) = some v ↔ (v ∈ l ∧ v.name = x) := by
    intro l hl v
    constructor
    · intro h
      exact ⟨List.mem_of_find?_eq_some h, by simpa using List.find?_some h⟩
    · rintro ⟨hv, hx⟩
      induction l with
      | nil => cases hv
      | cons a l ih =>
        simp only [List.map_cons, List.nodup_cons] at hl
        simp only [List.find?_cons]
        rcases List.mem_cons.mp hv with rfl | hv'
        · simp [hx]
        · have hne : a.name ≠ x := by
            intro ha
            exact hl.1 (List.mem_map.mpr ⟨v, hv', by rw [hx, ha]⟩)
          have : (a.name == x) = false := by simpa using hne
          simp only [this]
          exact ih hl.2 hv'
  cases h : d.find? (·.name == x) with
  | some v =>
    have := (key d hn v).mp h
    exact ((key d' hn' v).mpr ⟨hp.mem_iff.mp this.1, this.2⟩).symm
  | none =>
    cases h' : d'.find? (·.name == x) with
    | none => rfl
    | some v =>
      have := (key d' hn' v).mp h'
      have := (key d hn v).mpr ⟨hp.mem_iff.mpr this.1, this.2⟩
      rw [h] at this; cases this

theorem domainType_perm {d d' : List (DomVar α)} (hp : d.Perm d') (hn : (d.map (·.name)).Nodup) (x : String) :
    domainType d x = domainType d' x := by
  unfold domainType; rw [find?_name_perm hp hn]

theorem isBoolVar_perm {d d' : List (DomVar α)} (hp : d.Perm d') (hn : (d.map (·.name)).Nodup) (x : String) :
    isBoolVar d x = isBoolVar d' x := by
  unfold isBoolVar; rw [domainType_perm hp hn]

theorem isBinaryCtx_perm {d d' : List (DomVar α)} (hp : d.Perm d') (hn : (d.map (·.name)).Nodup) (c : Ctx α) :
    isBinaryCtx c d = isBinaryCtx c d' := by
  unfold isBinaryCtx
  split
  · rfl
  · rw [isBoolVar_perm hp hn]
  · rfl

theorem binaryAffineValue_perm {d d' : List (DomVar α)} (hp : d.Perm d') (hn : (d.map (·.name)).Nodup)
    (e : Exp α) : binaryAffineValue d e = binaryAffineValue d' e := by
  fun_induction binaryAffineValue d e <;> simp_all [binaryAffineValue, isBoolVar_perm hp hn]

theorem isLogicValue_perm {d d' : List (DomVar α)} (hp : d.Perm d') (hn : (d.map (·.name)).Nodup)
    (e : Exp α) : isLogicValue d e = isLogicValue d' e := by
  fun_induction isLogicValue d e <;> simp_all [isLogicValue, isBoolVar_perm hp hn]

theorem tryNormalize_perm {d d' : List (DomVar α)} (hp : d.Perm d') (hn : (d.map (·.name)).Nodup)
    (lhs rhs : Exp α) (cmp : Cmp) : tryNormalize d lhs cmp rhs = tryNormalize d' lhs cmp rhs := by
  unfold tryNormalize
  simp only [isLogicValue_perm hp hn]

theorem declared_perm {d d' : List (DomVar α)} (hp : d.Perm d') (x : String) :
    (d.any fun v => v.name == x) = (d'.any fun v => v.name == x) := by
  rw [Bool.eq_iff_iff]
  simp only [List.any_eq_true]
  exact ⟨fun ⟨v, hv, h⟩ => ⟨v, hp.mem_iff.mp hv, h⟩, fun ⟨v, hv, h⟩ => ⟨v, hp.mem_iff.mpr hv, h⟩⟩

/-! ### reads of the bounds map -/

theorem boundsOf_ext {b b' : BoundsMap α} (h : ∀ x, lookupB b x = lookupB b' x) (e : Exp α) :
    boundsOf b e = boundsOf b' e := by
  apply boundsOf.induct b (motive_1 := fun e => boundsOf b e = boundsOf b' e)
    (motive_2 := fun es => boundsOfList b es = boundsOfList b' es)
  case case2 => intro n; simp only [boundsOf, h]
  case case17 => intro a v hna ih; rw [boundsOf, boundsOf, ih] <;> exact hna
  case case18 => intro a b hna hnb; rw [boundsOf, boundsOf] <;> assumption
  case case21 => intro a b hnb; rw [boundsOf, boundsOf] <;> exact hnb
  case case22 => intro op a b h1 h2 h3 h4 h5 h6 h7; rw [boundsOf, boundsOf] <;> assumption
  all_goals (intros; simp_all [boundsOf, boundsOfList])

theorem boundsOfList_ext {b b' : BoundsMap α} (h : ∀ x, lookupB b x = lookupB b' x) :
    ∀ es : List (Exp α), boundsOfList b es = boundsOfList b' es
  | [] => rfl
  | e :: es => by simp only [boundsOfList, boundsOf_ext h e, boundsOfList_ext h es]

theorem varsWithoutFiniteBounds_ext {b b' : BoundsMap α} (h : ∀ x, lookupB b x = lookupB b' x) (e : Exp α) :
    varsWithoutFiniteBounds e b = varsWithoutFiniteBounds e b' := by
  unfold varsWithoutFiniteBounds
  simp only [boundsOf, h]

/-! ### the tail -/

theorem usedNames_perm {s s' : St α} (hp : s.domain.Perm s'.domain) : (usedNames s).Perm (usedNames s') :=
  (hp.filter _).map _

theorem sortStr_eq_of_perm {xs ys : List String} (h : xs.Perm ys) : sortStr xs = sortStr ys := by
  have h1 := sortStr_sorted xs
  have h2 := sortStr_sorted ys
  have hp : (sortStr xs).Perm (sortStr ys) := (sortStr_perm xs).trans (h.trans (sortStr_perm ys).symm)
  exact List.Perm.eq_of_pairwise (fun a b _ _ hab hba => le_antisymm hab hba) h1 h2 hp

/-- two final states with the same rows whose domains differ by a permutation assemble to the same variables,
objective, offset and rows, and to permuted domains. -/
theorem assemble_perm (m : Model α) (obj : Ctx α) {s s' : St α} (hp : s.domain.Perm s'.domain)
    (hr : s.rows = s'.rows) :
    let lm := assemble m obj s
    let lm' := assemble m obj s'
    lm.vars = lm'.vars ∧ lm.objective = lm'.objective ∧ lm.offset = lm'.offset ∧ lm.rows = lm'.rows ∧
      lm.optType = lm'.optType ∧ lm.domain.Perm lm'.domain := by
  have hv : sortStr (usedNames s) = sortStr (usedNames s') := sortStr_eq_of_perm (usedNames_perm hp)
  have hv' : (assemble m obj s).vars = (assemble m obj s').vars := hv
  refine ⟨hv', ?_, rfl, ?_, rfl, ?_⟩
  · show extractCoeffs obj.vars (sortStr (usedNames s)) = extractCoeffs obj.vars (sortStr (usedNames s'))
    rw [hv]
  · show (dedupNames s.rows).map _ = (dedupNames s'.rows).map _
    rw [hr]
    apply List.map_congr_left
    intro r _
    show ({ name := r.name, coeffs := extractCoeffs r.lhs (sortStr (usedNames s)), cmp := r.cmp, rhs := r.rhs } : LinRow α) = _
    rw [hv]
    rfl
  · show (s.domain.filter fun d => (sortStr (usedNames s)).contains d.name).Perm
      (s'.domain.filter fun d => (sortStr (usedNames s')).contains d.name)
    rw [hv]
    exact hp.filter _

end Lin
end Rooc
