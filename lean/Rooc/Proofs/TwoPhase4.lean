/-
The tail of `into_tableau_two_phase`, part 4: the tableau it returns is canonical for the standard form.
-/
import Rooc.Proofs.TwoPhase3
namespace Rooc
namespace TwoPhase
variable {K : Type} [Field K] [LinearOrder K] [IsStrictOrderedRing K]
attribute [local instance] exactArith
open Tableau TabSem PivotLemmas BasicSol Phase1 StepLemmas

/-- the rows that survive the drop, in order. -/
def keepRows (len : Nat) (drop : List Nat) : List Nat := (List.range len).filter (fun r => !(drop.contains r))

theorem mem_keepRows {len : Nat} {drop : List Nat} {r : Nat} : r ∈ keepRows len drop ↔ r < len ∧ r ∉ drop := by
  simp [keepRows]

theorem keepRows_nodup (len : Nat) (drop : List Nat) : (keepRows len drop).Nodup :=
  List.Nodup.filter _ List.nodup_range

/-- phase-2 tableau without its cost row: surviving rows, structural columns only. -/
noncomputable def tailTab (n : Nat) (Y : Tab K) (drop : List Nat) (c : List K) (v off : K) (fl : Bool) : Tab K :=
  { c := c, a := (keepRows Y.a.length drop).map fun r => (row Y.a r).take n,
    b := (keepRows Y.a.length drop).map fun r => nth Y.b r,
    basis := (keepRows Y.a.length drop).map fun r => Y.basis.getD r 0, value := v, offset := off, flip := fl }

section
variable {n : Nat} {Y : Tab K} {drop : List Nat} {c : List K} {v off : K} {fl : Bool}

theorem tail_row {p : Nat} (hp : p < (keepRows Y.a.length drop).length) :
    row (tailTab n Y drop c v off fl).a p = (row Y.a (keepRows Y.a.length drop)[p]).take n := by
  simp [tailTab, row, List.getD_eq_getElem?_getD, hp]
theorem tail_b {p : Nat} (hp : p < (keepRows Y.a.length drop).length) :
    nth (tailTab n Y drop c v off fl).b p = nth Y.b (keepRows Y.a.length drop)[p] := by
  simp [tailTab, nth, List.getD_eq_getElem?_getD, hp]
theorem tail_basis {p : Nat} (hp : p < (keepRows Y.a.length drop).length) :
    (tailTab n Y drop c v off fl).basis.getD p 0 = Y.basis.getD (keepRows Y.a.length drop)[p] 0 := by
  simp [tailTab, List.getD_eq_getElem?_getD, hp]

theorem nth_take {r : List K} {n j : Nat} (hj : j < n) : nth (r.take n) j = nth r j := by
  simp [nth, List.getD_eq_getElem?_getD, List.getElem?_take, hj]
end

/-- the kept part of a drive-out result is a rectangular tableau over the structural columns with unit basic
columns, equivalent — on points padded with zeros for the artificial columns — to the drive-out result. -/
theorem tail_props {P Y : Tab K} {m n : Nat} {drop : List Nat} (hD : DO P m (n + m) m Y drop)
    (hbasis : ∀ r ∈ keepRows Y.a.length drop, Y.basis.getD r 0 < n)
    (hd : ∀ r ∈ drop, ∀ j, j < n → nth (row Y.a r) j = 0) (c : List K) (hc : c.length = n) (v off : K) (fl : Bool) :
    Rect (tailTab n Y drop c v off fl) (keepRows Y.a.length drop).length n ∧
    UnitCols (tailTab n Y drop c v off fl) ∧ BasisInRange (tailTab n Y drop c v off fl) ∧
    (∀ x : List K, x.length = n → (Sol (tailTab n Y drop c v off fl) x ↔ Sol Y (x ++ List.replicate m 0))) := by
  set keep := keepRows Y.a.length drop with hkeep
  have hYa : Y.a.length = m := hD.rect.rows
  have hkm : ∀ p, (hp : p < keep.length) → keep[p] < m := fun p hp => by
    have := (mem_keepRows.1 (List.getElem_mem hp)).1; rw [hYa] at this; exact this
  have hw : ∀ r, r < m → (row Y.a r).length = n + m := hD.rect.width
  refine ⟨⟨by simp [tailTab, hkeep], by simp [tailTab, hkeep], by simp [tailTab, hkeep], hc, ?_⟩, ?_, ?_, ?_⟩
  · intro p hp
    rw [tail_row hp, List.length_take, hw _ (hkm p hp)]; omega
  · intro p q hp hq
    have hp' : p < keep.length := by simpa [tailTab] using hp
    have hq' : q < keep.length := by simpa [tailTab] using hq
    rw [tail_row hp', tail_basis hq', nth_take (hbasis _ (List.getElem_mem hq'))]
    have := hD.unit keep[p] keep[q] (by rw [hYa]; exact hkm p hp') (by rw [hYa]; exact hkm q hq')
    rw [this]
    by_cases e : p = q
    · subst e; simp
    · have : keep[p] ≠ keep[q] := fun h => e ((List.Nodup.getElem_inj_iff (keepRows_nodup _ _)).1 h)
      simp [e, this]
  · intro q hq
    have hq' : q < keep.length := by simpa [tailTab] using hq
    rw [tail_basis hq']
    show _ < c.length
    rw [hc]; exact hbasis _ (List.getElem_mem hq')
  · intro x hx
    have hrowval : ∀ r, r < m → dot (row Y.a r) (x ++ List.replicate m 0) = dot ((row Y.a r).take n) x :=
      fun r hr => dot_append_zeros _ x n m hx (by rw [hw r hr]; omega)
    constructor
    · intro hS r hr
      rw [hYa] at hr
      rw [hrowval r hr]
      by_cases hdr : r ∈ drop
      · have hz : dot ((row Y.a r).take n) x = 0 := by
          apply Bland.dot_eq_zero_of
          intro j
          left
          by_cases hj : j < n
          · rw [nth_take hj]; exact hd r hdr j hj
          · simp [nth, List.getD_eq_getElem?_getD, List.getElem?_take, hj]
        rw [hz, hD.bsame r, (hD.dropz r hdr).2]
      · have hmem : r ∈ keep := mem_keepRows.2 ⟨by rw [hYa]; exact hr, hdr⟩
        obtain ⟨p, hp, e⟩ := List.mem_iff_getElem.1 hmem
        have := hS p (by simpa [tailTab] using hp)
        rw [tail_row hp, tail_b hp, e] at this
        exact this
    · intro hS p hp
      have hp' : p < keep.length := by simpa [tailTab] using hp
      rw [tail_row hp', tail_b hp', ← hrowval _ (hkm p hp')]
      exact hS _ (by rw [hYa]; exact hkm p hp')

end TwoPhase
end Rooc
