/-
Lemmas about rooc's wrapper code (`Rooc/SolverWrap.lean`) at the exact instantiation `Ext K`.
-/
import Rooc.SolverWrap
import Rooc.Cert
import Rooc.Proofs.Field
import Rooc.Proofs.Cert

namespace Rooc
namespace SolverWrap
variable {K : Type} [Field K] [LinearOrder K] [IsStrictOrderedRing K] [FloorRing K]

/-! ### `Ext K` arithmetic on finite values -/

@[simp] theorem ext_add_fin (a b : K) : Arith.add (Ext.fin a) (Ext.fin b) = Ext.fin (a + b) := by
  simp [Arith.add, Ext.add]
@[simp] theorem ext_sub_fin (a b : K) : Arith.sub (Ext.fin a) (Ext.fin b) = Ext.fin (a - b) := by
  simp [Arith.sub, Ext.sub, Ext.add, Ext.neg, sub_eq_add_neg]
@[simp] theorem ext_mul_fin (a b : K) : Arith.mul (Ext.fin a) (Ext.fin b) = Ext.fin (a * b) := by
  simp [Arith.mul, Ext.mul]
@[simp] theorem ext_neg_fin (a : K) : Arith.neg (Ext.fin a) = Ext.fin (-a) := by
  simp [Arith.neg, Ext.neg]
@[simp] theorem ext_ofInt (i : Int) : (Arith.ofInt i : Ext K) = Ext.fin (i : K) := by
  simp [Arith.ofInt]

/-- the wrapper's `Σ cᵢ·vᵢ` (a left fold starting at `-0.0`) is the dot product on finite data. -/
theorem foldl_add_fin : ∀ (cs vs : List K) (acc : K),
    (List.zipWith Arith.mul (cs.map Ext.fin) (vs.map Ext.fin)).foldl Arith.add (Ext.fin acc)
      = Ext.fin (acc + Cert.dot cs vs)
  | [], vs, acc => by simp
  | c :: cs, [], acc => by simp
  | c :: cs, v :: vs, acc => by
    have ih := foldl_add_fin cs vs (acc + c * v)
    simp only [List.map_cons, List.zipWith_cons_cons, List.foldl_cons, ext_mul_fin, ext_add_fin, Cert.dot_cons]
    rw [ih]; congr 1; ring

theorem sumProducts_fin (cs vs : List K) :
    sumProducts (cs.map Ext.fin) (vs.map Ext.fin) = Ext.fin (Cert.dot cs vs) := by
  unfold sumProducts
  have := foldl_add_fin cs vs 0
  simp only [ext_ofInt, ext_neg_fin, Int.cast_zero, neg_zero, zero_add] at this ⊢
  exact this

/-! ### by-name maps -/

section Maps
variable {β : Type}

theorem imGet_append (m : List (String × β)) (p : String × β) (k : String) :
    imGet (m ++ [p]) k = (imGet m k).or (if p.1 == k then some p.2 else none) := by
  unfold imGet
  rw [List.find?_append]
  cases h : List.find? (fun x => x.1 == k) m with
  | some q => simp
  | none =>
    by_cases hp : p.1 == k <;> simp [hp]

theorem any_key_iff (m : List (String × β)) (k : String) :
    m.any (fun p => p.1 == k) = (imGet m k).isSome := by
  unfold imGet
  induction m with
  | nil => simp
  | cons q qs ih =>
    by_cases hq : q.1 == k <;> simp [List.find?_cons, hq, ih]

/-- `build_assignment_map`: the by-name map returns the value of the FIRST assignment with that name. -/
theorem buildAssignmentMap_get (l : List (String × β)) (k : String) :
    imGet (buildAssignmentMap l) k = (l.find? (fun p => p.1 == k)).map (·.2) := by
  unfold buildAssignmentMap
  suffices h : ∀ (acc : List (String × β)),
      imGet (l.foldl (fun m p => if m.any (fun q => q.1 == p.1) then m else m ++ [p]) acc) k
        = (imGet acc k).or ((l.find? (fun p => p.1 == k)).map (·.2)) by
    have := h []
    simpa [imGet] using this
  induction l with
  | nil => intro acc; simp
  | cons p ps ih =>
    intro acc
    simp only [List.foldl_cons]
    rw [ih]
    by_cases hany : acc.any (fun q => q.1 == p.1)
    · simp only [hany, if_true]
      -- the key of `p` is already present: if `k` is that key, `acc` answers
      by_cases hpk : p.1 == k
      · have hk : p.1 = k := by simpa using hpk
        have : (imGet acc k).isSome := by rw [← any_key_iff, ← hk]; exact hany
        cases hg : imGet acc k with
        | none => simp [hg] at this
        | some v => simp
      · simp [List.find?_cons, hpk]
    · simp only [hany, Bool.false_eq_true, if_false]
      rw [imGet_append]
      by_cases hpk : p.1 == k
      · cases hg : imGet acc k <;> simp [List.find?_cons, hpk]
      · cases hg : imGet acc k <;> simp [List.find?_cons, hpk]

/-- the value of the LAST pair with key `k`. -/
def lastVal : List (String × β) → String → Option β
  | [], _ => none
  | p :: ps, k => (lastVal ps k).or (if p.1 == k then some p.2 else none)

theorem imGet_map_replace (m : List (String × β)) (k' k : String) (v : β) :
    imGet (m.map fun p => if p.1 == k' then (k', v) else p) k
      = if k' == k then (if m.any (fun p => p.1 == k') then some v else none) else imGet m k := by
  unfold imGet
  induction m with
  | nil => simp
  | cons q qs ih =>
    simp only [List.map_cons, List.find?_cons, List.any_cons]
    by_cases hq : q.1 == k'
    · have hq' : q.1 = k' := by simpa using hq
      by_cases hk : k' == k
      · simp [hq, hk]
      · have : ¬ (q.1 == k) = true := by rw [hq']; exact hk
        simp only [hq, if_true, hk, Bool.false_eq_true, if_false, this]
        simpa [hk] using ih
    · by_cases hk : k' == k
      · have hk' : k' = k := by simpa using hk
        have : ¬ (q.1 == k) = true := by rw [← hk']; exact hq
        simp only [hq, Bool.false_eq_true, if_false, this, hk, if_true, Bool.false_or]
        simpa [hk] using ih
      · simp only [hq, Bool.false_eq_true, if_false, hk]
        by_cases hqk : q.1 == k
        · simp [hqk]
        · simp only [hqk, Bool.false_eq_true, if_false]
          simpa [hk] using ih

theorem imGet_imInsert (m : List (String × β)) (k' k : String) (v : β) :
    imGet (imInsert m k' v) k = if k' == k then some v else imGet m k := by
  unfold imInsert
  by_cases hany : m.any (fun p => p.1 == k')
  · simp only [hany, if_true]
    rw [imGet_map_replace]
    by_cases hk : k' == k <;> simp [hk, hany]
  · simp only [hany, Bool.false_eq_true, if_false]
    rw [imGet_append]
    by_cases hk : k' == k
    · have hk' : k' = k := by simpa using hk
      have : imGet m k = none := by
        cases hg : imGet m k with
        | none => rfl
        | some w =>
          have : (imGet m k).isSome := by simp [hg]
          rw [← any_key_iff, ← hk'] at this
          exact absurd this hany
      simp [hk, this]
    · cases hg : imGet m k <;> simp [hk]

/-- `collect::<IndexMap>()`: the map returns the value of the LAST pair with that key. -/
theorem imCollect_get (l : List (String × β)) (k : String) : imGet (imCollect l) k = lastVal l k := by
  unfold imCollect
  suffices h : ∀ (acc : List (String × β)),
      imGet (l.foldl (fun m p => imInsert m p.1 p.2) acc) k = (lastVal l k).or (imGet acc k) by
    have := h []
    simpa [imGet] using this
  induction l with
  | nil => intro acc; simp [lastVal]
  | cons p ps ih =>
    intro acc
    simp only [List.foldl_cons, lastVal]
    rw [ih, imGet_imInsert]
    by_cases hp : p.1 == k <;> cases hl : lastVal ps k <;> simp [hp]

/-- every key of the collected map is the key of some input pair. -/
theorem imCollect_key_mem (l : List (String × β)) (p : String × β) (hp : p ∈ imCollect l) :
    ∃ q ∈ l, q.1 = p.1 := by
  have hget : (imGet (imCollect l) p.1).isSome := by
    rw [← any_key_iff]
    exact List.any_eq_true.mpr ⟨p, hp, by simp⟩
  rw [imCollect_get] at hget
  clear hp
  induction l with
  | nil => simp [lastVal] at hget
  | cons q qs ih =>
    simp only [lastVal] at hget
    cases hl : lastVal qs p.1 with
    | some w =>
      obtain ⟨q', hq', he⟩ := ih (by simp [hl])
      exact ⟨q', by simp [hq'], he⟩
    | none =>
      by_cases hq : q.1 == p.1
      · exact ⟨q, by simp, by simpa using hq⟩
      · simp [hl, hq] at hget

/-- filtering by a predicate on the KEY does not change the last value of a key that passes the filter. -/
theorem lastVal_filter (P : String → Bool) (l : List (String × β)) (k : String) (hk : P k = true) :
    lastVal (l.filter fun p => P p.1) k = lastVal l k := by
  induction l with
  | nil => rfl
  | cons q qs ih =>
    by_cases hq : P q.1 = true
    · simp only [List.filter_cons, hq, if_true, lastVal, ih]
    · have hne : ¬ (q.1 == k) = true := by
        intro he
        have : q.1 = k := by simpa using he
        rw [this] at hq
        exact hq hk
      simp only [List.filter_cons, hq, Bool.false_eq_true, if_false, lastVal, hne, ih]
      simp

end Maps

end SolverWrap
end Rooc
