/-
`OptimalTableau::as_lp_solution` (`SolverWrap.asLpAssignment`) on the variable names that `to_standard_form`
(`Standardize.standardize`) generates: the NAME-based recombination (`x = $px − $mx`, slack / surplus columns dropped by
prefix) computes C13's POSITIONAL map back (`StdMain.preimage`).  This is the adapter between C13's theorems (positional)
and rooc's mapping code (by name) that C04's `asLpSolution_feasible` needs.

Hypotheses on the ORIGINAL names: pairwise distinct and `plain` (none of the internal prefixes `$su_ $sl_ $a_ $m $p`) —
the excluded region is the known finding "the tableau simplex loses user variables whose names start with its internal
prefixes" (`Rooc.Props.C04.asLpAssignment_prefix_collision_counterexample`).
-/
import Rooc.Proofs.SolverWrap
import Rooc.Proofs.StdShape

set_option linter.unusedSectionVars false
set_option linter.unusedSimpArgs false
set_option linter.unusedVariables false

namespace Rooc.ComposeNames
open Rooc SolverWrap StdSem StdMain StdSpec StdSplit StdLayout

variable {K : Type} [Field K] [LinearOrder K] [IsStrictOrderedRing K] [FloorRing K]

/-! ### names -/

/-- the two column names of a split free variable. -/
def pmN (v : String) : List String := ["$p" ++ v, "$m" ++ v]

/-- none of the internal prefixes (`Rooc.Props.C04.plainName`). -/
def plain (n : String) : Bool :=
  !(n.startsWith "$su_" || n.startsWith "$sl_" || n.startsWith "$a_" || n.startsWith "$m" || n.startsWith "$p")

/-- a slack / surplus column name. -/
def isSlackName (n : String) : Bool := n.startsWith "$su_" || n.startsWith "$sl_"

theorem sw_false {p s : String} : s.startsWith p = false ↔ ¬ p.toList <+: s.toList := by
  rw [← String.startsWith_string_iff]; simp

theorem lit_p : "$p".toList = ['$', 'p'] := by decide
theorem lit_m : "$m".toList = ['$', 'm'] := by decide
theorem lit_su : "$su_".toList = ['$', 's', 'u', '_'] := by decide
theorem lit_sl : "$sl_".toList = ['$', 's', 'l', '_'] := by decide
theorem lit_a : "$a_".toList = ['$', 'a', '_'] := by decide

theorem p_sw_p (v : String) : ("$p" ++ v).startsWith "$p" = true := by
  rw [String.startsWith_string_iff, String.toList_append]; exact ⟨v.toList, rfl⟩
theorem m_sw_m (v : String) : ("$m" ++ v).startsWith "$m" = true := by
  rw [String.startsWith_string_iff, String.toList_append]; exact ⟨v.toList, rfl⟩
theorem p_sw_m (v : String) : ("$p" ++ v).startsWith "$m" = false := by
  rw [sw_false, String.toList_append, lit_p, lit_m]; rintro ⟨t, ht⟩; simp at ht
theorem p_sw_su (v : String) : ("$p" ++ v).startsWith "$su_" = false := by
  rw [sw_false, String.toList_append, lit_p, lit_su]; rintro ⟨t, ht⟩; simp at ht
theorem p_sw_sl (v : String) : ("$p" ++ v).startsWith "$sl_" = false := by
  rw [sw_false, String.toList_append, lit_p, lit_sl]; rintro ⟨t, ht⟩; simp at ht
theorem p_sw_a (v : String) : ("$p" ++ v).startsWith "$a_" = false := by
  rw [sw_false, String.toList_append, lit_p, lit_a]; rintro ⟨t, ht⟩; simp at ht
theorem m_sw_su (v : String) : ("$m" ++ v).startsWith "$su_" = false := by
  rw [sw_false, String.toList_append, lit_m, lit_su]; rintro ⟨t, ht⟩; simp at ht
theorem m_sw_sl (v : String) : ("$m" ++ v).startsWith "$sl_" = false := by
  rw [sw_false, String.toList_append, lit_m, lit_sl]; rintro ⟨t, ht⟩; simp at ht
theorem m_sw_a (v : String) : ("$m" ++ v).startsWith "$a_" = false := by
  rw [sw_false, String.toList_append, lit_m, lit_a]; rintro ⟨t, ht⟩; simp at ht

theorem strip_p (v : String) : stripPrefix "$p" ("$p" ++ v) = some v := by
  have l : "$p".length = 2 := by decide
  simp [stripPrefix, p_sw_p, l, String.toList_append, lit_p]
theorem strip_m (v : String) : stripPrefix "$m" ("$m" ++ v) = some v := by
  have l : "$m".length = 2 := by decide
  simp [stripPrefix, m_sw_m, l, String.toList_append, lit_m]
theorem strip_m_p (v : String) : stripPrefix "$m" ("$p" ++ v) = none := by
  simp [stripPrefix, p_sw_m]

theorem plain_iff {n : String} : plain n = true ↔
    n.startsWith "$su_" = false ∧ n.startsWith "$sl_" = false ∧ n.startsWith "$a_" = false ∧
    n.startsWith "$m" = false ∧ n.startsWith "$p" = false := by
  simp [plain, and_assoc]

theorem append_inj_right {a v w : String} (h : a ++ v = a ++ w) : v = w := by
  have := congrArg String.toList h
  rw [String.toList_append, String.toList_append] at this
  have := List.append_cancel_left this
  rw [← String.ofList_toList (s := v), ← String.ofList_toList (s := w), this]

theorem p_ne_m (v w : String) : "$p" ++ v ≠ "$m" ++ w := by
  intro h
  have := p_sw_m v
  rw [h, m_sw_m] at this
  cases this

theorem plain_ne_p {u : String} (hu : plain u = true) (w : String) : u ≠ "$p" ++ w := by
  rintro rfl
  have := (plain_iff.1 hu).2.2.2.2
  rw [p_sw_p] at this; cases this
theorem plain_ne_m {u : String} (hu : plain u = true) (w : String) : u ≠ "$m" ++ w := by
  rintro rfl
  have := (plain_iff.1 hu).2.2.2.1
  rw [m_sw_m] at this; cases this
theorem slack_ne_p {n : String} (hn : isSlackName n = true) (w : String) : n ≠ "$p" ++ w := by
  rintro rfl
  simp [isSlackName, p_sw_su, p_sw_sl] at hn
theorem slack_ne_m {n : String} (hn : isSlackName n = true) (w : String) : n ≠ "$m" ++ w := by
  rintro rfl
  simp [isSlackName, m_sw_su, m_sw_sl] at hn

/-! ### one step of the recombination, with the by-name map abstracted to a function `g` -/

/-- the body of the loop of `as_lp_solution`. -/
noncomputable def recomb (g : String → Option (Ext K)) (p : String × Ext K) : Option (String × Val (Ext K)) :=
  if p.1.startsWith "$su_" || p.1.startsWith "$sl_" || p.1.startsWith "$a_" then none
  else
    match (stripPrefix "$m" p.1).bind (fun rest => g ("$p" ++ rest)) with
    | some _ => none
    | none =>
      match stripPrefix "$p" p.1 with
      | some rest =>
        match g ("$m" ++ rest) with
        | some minus => some (rest, .real (Arith.sub p.2 minus))
        | none => some (p.1, .real p.2)
      | none => some (p.1, .real p.2)

theorem asLpAssignment_eq (names : List String) (values : List (Ext K)) :
    asLpAssignment names values =
      (zipNames names values).filterMap (recomb (imGet (imCollect (zipNames names values)))) := by
  unfold asLpAssignment
  apply List.filterMap_congr
  rintro ⟨n, v⟩ _
  simp only [recomb]
  split
  · rfl
  · cases h1 : (stripPrefix "$m" n).bind fun rest => imGet (imCollect (zipNames names values)) ("$p" ++ rest) with
    | some w => rfl
    | none =>
      simp only
      cases h2 : stripPrefix "$p" n with
      | none => rfl
      | some rest =>
        simp only
        cases h3 : imGet (imCollect (zipNames names values)) ("$m" ++ rest) <;> rfl

theorem recomb_plain (g : String → Option (Ext K)) {v : String} (x : Ext K) (hv : plain v = true) :
    recomb g (v, x) = some (v, .real x) := by
  obtain ⟨h1, h2, h3, h4, h5⟩ := plain_iff.1 hv
  simp [recomb, h1, h2, h3, stripPrefix, h4, h5]

theorem recomb_slack (g : String → Option (Ext K)) {n : String} (x : Ext K) (hn : isSlackName n = true) :
    recomb g (n, x) = none := by
  simp only [isSlackName, Bool.or_eq_true] at hn
  rcases hn with h | h <;> simp [recomb, h]

theorem recomb_p (g : String → Option (Ext K)) (v : String) (x mv : Ext K) (hm : g ("$m" ++ v) = some mv) :
    recomb g ("$p" ++ v, x) = some (v, .real (Arith.sub x mv)) := by
  simp [recomb, p_sw_su, p_sw_sl, p_sw_a, strip_m_p, strip_p, hm]

theorem recomb_m (g : String → Option (Ext K)) (v : String) (x pv : Ext K) (hp : g ("$p" ++ v) = some pv) :
    recomb g ("$m" ++ v, x) = none := by
  simp [recomb, m_sw_su, m_sw_sl, m_sw_a, strip_m, hp]

/-! ### the by-name map: value of the LAST pair with a key (`imCollect_get`) -/

section Maps
variable {β : Type}

theorem lastVal_append (l1 l2 : List (String × β)) (k : String) :
    lastVal (l1 ++ l2) k = (lastVal l2 k).or (lastVal l1 k) := by
  induction l1 with
  | nil => simp [lastVal]
  | cons p ps ih => simp only [List.cons_append, lastVal, ih, Option.or_assoc]

theorem lastVal_none {l : List (String × β)} {k : String} (h : ∀ p ∈ l, p.1 ≠ k) : lastVal l k = none := by
  induction l with
  | nil => rfl
  | cons p ps ih =>
    have hp : (p.1 == k) = false := by simpa using h p (by simp)
    simp [lastVal, ih (fun q hq => h q (List.mem_cons_of_mem _ hq)), hp]

/-- with distinct keys, a member is what the first-match lookup returns. -/
theorem find_of_mem_nodup : ∀ {l : List (String × β)} {k : String} {v : β}, (l.map (·.1)).Nodup → (k, v) ∈ l →
    l.find? (fun p => p.1 == k) = some (k, v)
  | [], _, _, _, h => by simp at h
  | q :: qs, k, v, hnd, h => by
    simp only [List.map_cons, List.nodup_cons] at hnd
    rcases List.mem_cons.1 h with rfl | h'
    · simp
    · have hne : (q.1 == k) = false := by
        simp only [beq_eq_false_iff_ne, ne_eq]
        rintro rfl
        exact hnd.1 (List.mem_map.2 ⟨(q.1, v), h', rfl⟩)
      simp only [List.find?_cons, hne]
      exact find_of_mem_nodup hnd.2 h'

end Maps

/-! ### the split columns: names `F`, values `(p, m)` per name -/

/-- names of split variables with their two values. -/
def triples : List String → List K → List (String × K × K)
  | v :: F, p :: m :: r => (v, p, m) :: triples F r
  | _, _ => []

/-- the (name, value) pairs of the split columns. -/
def bPairs (T : List (String × K × K)) : List (String × Ext K) :=
  T.flatMap fun t => [("$p" ++ t.1, Ext.fin t.2.1), ("$m" ++ t.1, Ext.fin t.2.2)]

/-- the recombined assignments `v = p − m`. -/
def diffs (T : List (String × K × K)) : List (String × Val (Ext K)) :=
  T.map fun t => (t.1, Val.real (Ext.fin (t.2.1 - t.2.2)))

theorem triples_fst : ∀ (F : List String) (pmu : List K), pmu.length = 2 * F.length →
    (triples F pmu).map (·.1) = F
  | [], _, _ => by simp [triples]
  | v :: F, [], h => by simp at h
  | v :: F, [_], h => by simp at h; omega
  | v :: F, p :: m :: r, h => by
    simp only [triples, List.map_cons, triples_fst F r (by simp at h; omega)]

theorem zip_pmN : ∀ (F : List String) (pmu : List K), pmu.length = 2 * F.length →
    List.zip (F.flatMap pmN) (pmu.map Ext.fin) = bPairs (triples F pmu)
  | [], _, _ => by simp [triples, bPairs]
  | v :: F, [], h => by simp at h
  | v :: F, [_], h => by simp at h; omega
  | v :: F, p :: m :: r, h => by
    have ih := zip_pmN F r (by simp at h; omega)
    simp only [bPairs] at ih ⊢
    simp [triples, pmN, ih]

theorem bPairs_keys {T : List (String × K × K)} {q : String × Ext K} (hq : q ∈ bPairs T) :
    ∃ t ∈ T, q.1 = "$p" ++ t.1 ∨ q.1 = "$m" ++ t.1 := by
  simp only [bPairs, List.mem_flatMap, List.mem_cons, List.mem_nil_iff, or_false] at hq
  obtain ⟨t, ht, rfl | rfl⟩ := hq
  · exact ⟨t, ht, Or.inl rfl⟩
  · exact ⟨t, ht, Or.inr rfl⟩

/-- with distinct names, the by-name map of the split columns returns the two values of every split variable. -/
theorem lastVal_bPairs : ∀ (T : List (String × K × K)), (T.map (·.1)).Nodup → ∀ t ∈ T,
    lastVal (bPairs T) ("$p" ++ t.1) = some (Ext.fin t.2.1) ∧ lastVal (bPairs T) ("$m" ++ t.1) = some (Ext.fin t.2.2)
  | [], _, t, ht => by simp at ht
  | t0 :: T, hnd, t, ht => by
    simp only [List.map_cons, List.nodup_cons] at hnd
    have hb : bPairs (t0 :: T) = ("$p" ++ t0.1, Ext.fin t0.2.1) :: ("$m" ++ t0.1, Ext.fin t0.2.2) :: bPairs T := by
      simp [bPairs]
    rw [hb]
    rcases List.mem_cons.1 ht with rfl | ht'
    · -- the head: no later pair carries its keys
      have hnone : ∀ k, (k = "$p" ++ t.1 ∨ k = "$m" ++ t.1) → lastVal (bPairs T) k = none := by
        intro k hk
        apply lastVal_none
        intro q hq
        obtain ⟨t', ht', hq'⟩ := bPairs_keys hq
        have hne : t'.1 ≠ t.1 := fun e => hnd.1 (List.mem_map.2 ⟨t', ht', e⟩)
        rcases hk with rfl | rfl <;> rcases hq' with e | e <;> rw [e]
        · exact fun h => hne (append_inj_right h)
        · exact fun h => p_ne_m _ _ h.symm
        · exact p_ne_m _ _
        · exact fun h => hne (append_inj_right h)
      have h1 : ("$m" ++ t.1 == "$p" ++ t.1) = false := by
        simp only [beq_eq_false_iff_ne, ne_eq]; exact fun h => p_ne_m _ _ h.symm
      have h2 : ("$p" ++ t.1 == "$m" ++ t.1) = false := by
        simp only [beq_eq_false_iff_ne, ne_eq]; exact p_ne_m _ _
      simp [lastVal, hnone _ (Or.inl rfl), hnone _ (Or.inr rfl), h1, h2]
    · obtain ⟨ih1, ih2⟩ := lastVal_bPairs T hnd.2 t ht'
      simp [lastVal, ih1, ih2]

/-- the loop body on the split columns: `$p‹v›` yields `v = p − m`, `$m‹v›` is skipped. -/
theorem filterMap_bPairs (g : String → Option (Ext K)) : ∀ (T : List (String × K × K)),
    (∀ t ∈ T, g ("$p" ++ t.1) = some (Ext.fin t.2.1) ∧ g ("$m" ++ t.1) = some (Ext.fin t.2.2)) →
    (bPairs T).filterMap (recomb g) = diffs T
  | [], _ => by simp [bPairs, diffs]
  | t :: T, h => by
    have hb : bPairs (t :: T) = ("$p" ++ t.1, Ext.fin t.2.1) :: ("$m" ++ t.1, Ext.fin t.2.2) :: bPairs T := by
      simp [bPairs]
    obtain ⟨hp, hm⟩ := h t (by simp)
    have ih := filterMap_bPairs g T (fun t' ht' => h t' (List.mem_cons_of_mem _ ht'))
    rw [hb, List.filterMap_cons, recomb_p g t.1 _ _ hm, List.filterMap_cons, recomb_m g t.1 _ _ hp, ih]
    simp [diffs]

theorem filterMap_plain (g : String → Option (Ext K)) : ∀ (A : List String) (a : List K),
    (∀ v ∈ A, plain v = true) →
    (List.zip A (a.map Ext.fin)).filterMap (recomb g) = (List.zip A a).map fun p => (p.1, Val.real (Ext.fin p.2))
  | [], _, _ => by simp
  | _ :: _, [], _ => by simp
  | v :: A, x :: a, h => by
    simp only [List.map_cons, List.zip_cons_cons, List.filterMap_cons, recomb_plain g _ (h v (by simp)),
      filterMap_plain g A a (fun w hw => h w (List.mem_cons_of_mem _ hw))]

theorem filterMap_slack (g : String → Option (Ext K)) : ∀ (C : List String) (c : List (Ext K)),
    (∀ n ∈ C, isSlackName n = true) → (List.zip C c).filterMap (recomb g) = []
  | [], _, _ => by simp
  | _ :: _, [], _ => by simp
  | n :: C, x :: c, h => by
    simp only [List.zip_cons_cons, List.filterMap_cons, recomb_slack g _ (h n (by simp)),
      filterMap_slack g C c (fun w hw => h w (List.mem_cons_of_mem _ hw))]

/-- **`as_lp_solution` on a name list of the shape `kept ++ split pairs ++ slacks`**: kept variables keep name and
value, every split pair is recombined into `v = p − m`, slack columns disappear. -/
theorem asLp_closed (A F C : List String) (a pmu c : List K) (hA : A.length = a.length)
    (hpm : pmu.length = 2 * F.length) (hAp : ∀ v ∈ A, plain v = true)
    (hFn : F.Nodup) (hC : ∀ n ∈ C, isSlackName n = true) :
    asLpAssignment (A ++ (F.flatMap pmN ++ C)) ((a ++ (pmu ++ c)).map Ext.fin) =
      ((List.zip A a).map fun p => (p.1, Val.real (Ext.fin p.2))) ++ diffs (triples F pmu) := by
  have hBl : (F.flatMap pmN).length = (pmu.map Ext.fin).length := by
    rw [List.length_map, hpm]
    clear hFn hpm
    induction F with
    | nil => rfl
    | cons v F ih => simp [pmN] at ih ⊢; omega
  have hz : zipNames (A ++ (F.flatMap pmN ++ C)) ((a ++ (pmu ++ c)).map Ext.fin) =
      List.zip A (a.map Ext.fin) ++ (bPairs (triples F pmu) ++ List.zip C (c.map Ext.fin)) := by
    unfold zipNames
    rw [List.map_append, List.map_append, List.zip_append (by simpa using hA), List.zip_append hBl, zip_pmN F pmu hpm]
  rw [asLpAssignment_eq, hz, List.filterMap_append, List.filterMap_append, filterMap_plain _ A a hAp,
    filterMap_slack _ C _ hC]
  rw [filterMap_bPairs]
  · simp
  · -- the by-name map answers the split columns' values
    intro t ht
    have hT := lastVal_bPairs (triples F pmu) (by rw [triples_fst F pmu hpm]; exact hFn) t ht
    have hmem : t.1 ∈ F := by
      rw [← triples_fst F pmu hpm]; exact List.mem_map.2 ⟨t, ht, rfl⟩
    have key : ∀ k, (k = "$p" ++ t.1 ∨ k = "$m" ++ t.1) →
        imGet (imCollect (List.zip A (a.map Ext.fin) ++ (bPairs (triples F pmu) ++ List.zip C (c.map Ext.fin)))) k =
          lastVal (bPairs (triples F pmu)) k := by
      intro k hk
      rw [imCollect_get, lastVal_append, lastVal_append]
      have hAn : lastVal (List.zip A (a.map Ext.fin)) k = none := by
        apply lastVal_none
        rintro ⟨n, x⟩ hq
        have hn := hAp n (List.of_mem_zip hq).1
        rcases hk with rfl | rfl
        · exact plain_ne_p hn _
        · exact plain_ne_m hn _
      have hCn : lastVal (List.zip C (c.map Ext.fin)) k = none := by
        apply lastVal_none
        rintro ⟨n, x⟩ hq
        have hn := hC n (List.of_mem_zip hq).1
        rcases hk with rfl | rfl
        · exact slack_ne_p hn _
        · exact slack_ne_m hn _
      rw [hAn, hCn]; simp
    rw [key _ (Or.inl rfl), key _ (Or.inr rfl)]
    exact hT

/-! ### the positional map back (`StdSplit.back`) as a by-name assignment -/

/-- the flagged (free) names. -/
def freeOf (fl : List Bool) (V : List String) : List String := pairs (fun v => [v]) fl V

theorem pairs_pmN : ∀ (fl : List Bool) (V : List String), pairs pmN fl V = (freeOf fl V).flatMap pmN
  | [], _ => by simp [pairs, freeOf]
  | _ :: _, [] => by simp [pairs, freeOf]
  | f :: fs, v :: V => by
    cases f <;> simp [pairs, freeOf, pairs_pmN fs V]

theorem freeOf_length : ∀ (fl : List Bool) (V : List String), V.length = fl.length → (freeOf fl V).length = countT fl
  | [], [], _ => by simp [freeOf, pairs, countT]
  | f :: fs, v :: V, h => by
    have ih := freeOf_length fs V (by simpa using h)
    cases f <;> simp [freeOf, pairs, countT] at ih ⊢ <;> omega
  | [], _ :: _, h => by simp at h
  | _ :: _, [], h => by simp at h

theorem freeOf_sublist : ∀ (fl : List Bool) (V : List String), (freeOf fl V).Sublist V
  | [], V => by simp [freeOf, pairs]
  | _ :: _, [] => by simp [freeOf, pairs]
  | f :: fs, v :: V => by
    have ih := freeOf_sublist fs V
    cases f
    · simpa [freeOf, pairs] using ih.cons v
    · simpa [freeOf, pairs] using ih.cons_cons v

theorem keep_sublist {β : Type} : ∀ (fl : List Bool) (V : List β), (keep fl V).Sublist V
  | [], V => by simp [keep]
  | _ :: _, [] => by simp [keep]
  | f :: fs, v :: V => by
    have ih := keep_sublist fs V
    cases f
    · simpa [keep] using ih.cons_cons v
    · simpa [keep] using ih.cons v

/-- the by-name assignment `kept ++ recombined` is, up to order, `names ↦ back fl ku pmu`. -/
theorem closed_perm_back : ∀ (fl : List Bool) (V : List String) (ku pmu : List K), V.length = fl.length →
    ku.length = countF fl → pmu.length = 2 * countT fl →
    (((List.zip (keep fl V) ku).map fun p => (p.1, Val.real (Ext.fin p.2))) ++ diffs (triples (freeOf fl V) pmu)).Perm
      ((List.zip V (back fl ku pmu)).map fun p => (p.1, Val.real (Ext.fin p.2)))
  | [], [], _, _, _, _, _ => by simp [keep, freeOf, pairs, triples, diffs, back]
  | [], _ :: _, _, _, h, _, _ => by simp at h
  | _ :: _, [], _, _, h, _, _ => by simp at h
  | true :: fs, v :: V, ku, [], _, _, h => by simp [countT] at h
  | true :: fs, v :: V, ku, [_], _, _, h => by simp [countT] at h; omega
  | true :: fs, v :: V, ku, p :: m :: r, hV, hk, hp => by
    have ih := closed_perm_back fs V ku r (by simpa using hV) (by simpa [countF] using hk)
      (by simp [countT] at hp; omega)
    have e1 : keep (true :: fs) (v :: V) = keep fs V := by simp [keep]
    have e2 : freeOf (true :: fs) (v :: V) = v :: freeOf fs V := by simp [freeOf, pairs]
    rw [e1, e2]
    simp only [triples, diffs, List.map_cons, back, List.zip_cons_cons]
    exact List.perm_middle.trans (List.Perm.cons _ ih)
  | false :: fs, v :: V, [], pmu, _, h, _ => by simp [countF] at h; omega
  | false :: fs, v :: V, k :: ku, pmu, hV, hk, hp => by
    have ih := closed_perm_back fs V ku pmu (by simpa using hV) (by simp [countF] at hk; omega)
      (by simpa [countT] using hp)
    have e1 : keep (false :: fs) (v :: V) = v :: keep fs V := by simp [keep]
    have e2 : freeOf (false :: fs) (v :: V) = freeOf fs V := by simp [freeOf, pairs]
    rw [e1, e2]
    simp only [back, List.zip_cons_cons, List.map_cons, List.cons_append]
    exact List.Perm.cons _ ih

/-! ### the names `to_standard_form` generates -/

section Std
open Standardize

theorem append_sw (a x : String) : (a ++ x).startsWith a = true := by
  rw [String.startsWith_string_iff, String.toList_append]; exact ⟨x.toList, rfl⟩

/-- every column `normalize_constraint` adds is called `$sl_k` or `$su_k`. -/
theorem normalizeAll_names {α : Type} [Arith α] : ∀ (rows : List (LinRow α)) (total sl su : Nat)
    (srows : List (StdRow α)) (names : List String) (total' : Nat),
    normalizeAll total sl su rows = .ok (srows, names, total') → ∀ n ∈ names, isSlackName n = true
  | [], total, sl, su, srows, names, total', h, n, hn => by
    simp only [normalizeAll, Except.ok.injEq, Prod.mk.injEq] at h
    obtain ⟨-, rfl, -⟩ := h
    simp at hn
  | r :: rs, total, sl, su, srows, names, total', h, n, hn => by
    simp only [normalizeAll] at h
    split at h
    · cases hrec : normalizeAll total sl su rs with
      | error e => simp [hrec] at h
      | ok res =>
        obtain ⟨rows', names', t'⟩ := res
        simp only [hrec, Except.ok.injEq, Prod.mk.injEq] at h
        obtain ⟨-, rfl, -⟩ := h
        exact normalizeAll_names rs total sl su rows' names' t' hrec n hn
    · cases hrec : normalizeAll (total+1) (sl+1) su rs with
      | error e => simp [hrec] at h
      | ok res =>
        obtain ⟨rows', names', t'⟩ := res
        simp only [hrec, Except.ok.injEq, Prod.mk.injEq] at h
        obtain ⟨-, rfl, -⟩ := h
        rcases List.mem_cons.1 hn with rfl | hn'
        · simp [isSlackName, append_sw]
        · exact normalizeAll_names rs (total+1) (sl+1) su rows' names' t' hrec n hn'
    · cases hrec : normalizeAll (total+1) sl (su+1) rs with
      | error e => simp [hrec] at h
      | ok res =>
        obtain ⟨rows', names', t'⟩ := res
        simp only [hrec, Except.ok.injEq, Prod.mk.injEq] at h
        obtain ⟨-, rfl, -⟩ := h
        rcases List.mem_cons.1 hn with rfl | hn'
        · simp [isSlackName, append_sw]
        · exact normalizeAll_names rs (total+1) sl (su+1) rows' names' t' hrec n hn'
    · cases h

/-- the variable list of ANY successful conversion: the original names with two names `$p‹v›`, `$m‹v›` appended per
free variable, the free positions removed, then the slack / surplus names. -/
theorem standardize_vars_raw {α : Type} [Arith α] {lm : LinModel α} {s : StdModel α} (h : standardize lm = .ok s) :
    ∃ free names, freeIdx lm.domain 0 lm.vars = some free ∧ (∀ n ∈ names, isSlackName n = true) ∧
      s.vars = removeMany (lm.vars ++ free.flatMap (fun i => pmN (lm.vars.getD i ""))) free ++ names := by
  unfold standardize at h
  split at h
  · cases h
  · simp only at h
    split at h
    · rename_i brows free hb hf
      split at h
      · rename_i rows obj hr ho
        split at h
        · cases h
        · rename_i srows names total hn
          have hnames := normalizeAll_names _ _ _ _ _ _ _ hn
          split at h
          · simp only [Except.ok.injEq] at h; subst h; exact ⟨free, names, hf, hnames, rfl⟩
          · simp only [Except.ok.injEq] at h; subst h; exact ⟨free, names, hf, hnames, rfl⟩
          · cases h
      · cases h
    · cases h

theorem flatMap_flags_gen {β γ : Type} (g : β → List γ) (d : β) (r : List β) : ∀ (fl : List Bool) (k : Nat),
    k + fl.length ≤ r.length → (flagsIdx k fl).flatMap (fun i => g (r.getD i d)) = pairs g fl (r.drop k)
  | [], k, _ => by simp [flagsIdx, pairs]
  | f :: fs, k, h => by
    have hk : k < r.length := by simp only [List.length_cons] at h; omega
    have hd : r.drop k = r.getD k d :: r.drop (k+1) := by
      rw [List.drop_eq_getElem_cons hk]; simp [List.getD_eq_getElem?_getD, hk]
    have ih := flatMap_flags_gen g d r fs (k+1) (by simp only [List.length_cons] at h; omega)
    cases f with
    | true => simp only [flagsIdx, if_true, List.flatMap_cons, ih, hd, pairs]
    | false => simp only [flagsIdx, Bool.false_eq_true, if_false, ih, hd, pairs]

/-- **the variable list of the standard form of a well-formed model, in closed form**: kept (non-free) names in order,
then `$p‹v›, $m‹v›` for every free `v` in order, then slack / surplus names. -/
theorem standardize_vars (lm : LinModel (Ext K)) (hW : WF lm) {s : StdModel (Ext K)} (hs : standardize lm = .ok s) :
    ∃ names, (∀ n ∈ names, isSlackName n = true) ∧
      s.vars = keep (flags lm) lm.vars ++ ((freeOf (flags lm) lm.vars).flatMap pmN ++ names) := by
  obtain ⟨free, names, hf, hnames, hv⟩ := standardize_vars_raw hs
  have hf' := freeIdx_eq lm lm.vars 0 hW.declared
  rw [hf] at hf'
  cases hf'
  refine ⟨names, hnames, ?_⟩
  have hlen : lm.vars.length = (flags lm).length := (flags_length lm).symm
  have hfl : flagsIdx 0 ((lm.vars.map (tyOf lm)).map isFree) = flagsIdx 0 (flags lm) := rfl
  rw [hv, hfl, ← List.append_assoc]
  congr 1
  unfold removeMany
  rw [removeManyFrom_append _ _ _ _ (fun j hj => by have := flagsIdx_lt (flags lm) 0 j hj; omega),
    removeManyFrom_flags (flags lm) 0 lm.vars hlen, flatMap_flags_gen pmN "" lm.vars (flags lm) 0 (by omega),
    List.drop_zero, pairs_pmN]

/-- **`as_lp_solution` computes C13's map back.**  For a well-formed `lm` whose variable names are pairwise distinct and
carry none of the internal prefixes WHERE IT MATTERS — only the variables that are kept as one column (the non-free ones,
`keep (flags lm) lm.vars`) need a `plain` name; a free variable `v` only occurs as `$p‹v›` / `$m‹v›` and may be called
anything —, its standard form `s` and ANY value vector `y` with one value per column of `s`:
the assignment `asLpAssignment s.vars y` names every variable of `lm` exactly once (a permutation of `lm.vars`) and the
first-match lookup of the `i`-th variable returns the `i`-th component of `preimage lm y`. -/
theorem asLp_standardize_kept (lm : LinModel (Ext K)) (hW : WF lm) (hnd : lm.vars.Nodup)
    (hpl : ∀ v ∈ keep (flags lm) lm.vars, plain v = true) {s : StdModel (Ext K)} (hs : standardize lm = .ok s)
    (y : List K) (hy : y.length = s.vars.length) :
    ((asLpAssignment s.vars (y.map Ext.fin)).map (·.1)).Perm lm.vars ∧
    ∀ i (hi : i < lm.vars.length),
      (asLpAssignment s.vars (y.map Ext.fin)).find? (fun p => p.1 == lm.vars[i]) =
        some (lm.vars[i], Val.real (Ext.fin ((preimage lm y).getD i 0))) := by
  obtain ⟨names, hnames, hv⟩ := standardize_vars lm hW hs
  set fl := flags lm with hfl
  set V := lm.vars with hV
  have hVl : V.length = fl.length := (flags_length lm).symm
  have hkl : (keep fl V).length = countF fl := keep_length fl V hVl
  have hFl : (freeOf fl V).length = countT fl := freeOf_length fl V hVl
  have hBl : ((freeOf fl V).flatMap pmN).length = 2 * countT fl := by
    rw [← hFl]
    generalize freeOf fl V = F
    induction F with
    | nil => rfl
    | cons v F ih => simp [pmN] at ih ⊢; omega
  have hyl : y.length = countF fl + (2 * countT fl + names.length) := by
    rw [hy, hv, List.length_append, List.length_append, hkl, hBl]
  -- split the value vector like the name vector
  set ku := y.take (countF fl) with hku
  set pmu := (y.drop (countF fl)).take (2 * countT fl) with hpmu
  set sl := (y.drop (countF fl)).drop (2 * countT fl) with hsl
  have hysplit : y = ku ++ (pmu ++ sl) := by
    rw [hku, hpmu, hsl, List.take_append_drop, List.take_append_drop]
  have hkul : ku.length = countF fl := by rw [hku, List.length_take]; omega
  have hpml : pmu.length = 2 * countT fl := by rw [hpmu, List.length_take, List.length_drop]; omega
  have hpre : preimage lm y = back fl ku pmu := rfl
  have hclosed := asLp_closed (keep fl V) (freeOf fl V) names ku pmu sl (by rw [hkl, hkul]) (by rw [hpml, hFl])
    (fun v hv' => hpl v hv')
    ((freeOf_sublist fl V).nodup hnd) hnames
  rw [← hv, ← hysplit] at hclosed
  have hperm := closed_perm_back fl V ku pmu hVl hkul hpml
  rw [← hclosed, ← hpre] at hperm
  have hbl : (preimage lm y).length = V.length := by rw [hpre, back_length, hVl]
  have hkeys : ((List.zip V (preimage lm y)).map fun p => (p.1, Val.real (Ext.fin p.2))).map (·.1) = V := by
    rw [List.map_map]
    exact List.map_fst_zip (le_of_eq hbl.symm)
  have hpermK : ((asLpAssignment s.vars (y.map Ext.fin)).map (·.1)).Perm V := by
    have := hperm.map (·.1)
    rwa [hkeys] at this
  refine ⟨hpermK, fun i hi => ?_⟩
  apply find_of_mem_nodup (hpermK.nodup_iff.mpr hnd)
  rw [hperm.mem_iff, List.mem_map]
  have hiz : i < (List.zip V (preimage lm y)).length := by rw [List.length_zip, hbl]; simpa using hi
  refine ⟨(List.zip V (preimage lm y))[i], List.getElem_mem hiz, ?_⟩
  rw [List.getElem_zip]
  have hib : i < (preimage lm y).length := by rw [hbl]; exact hi
  simp [List.getD_eq_getElem?_getD, hib]

/-- the same under the simpler (stronger) hypothesis that every variable name is `plain`. -/
theorem asLp_standardize (lm : LinModel (Ext K)) (hW : WF lm) (hnd : lm.vars.Nodup)
    (hpl : ∀ v ∈ lm.vars, plain v = true) {s : StdModel (Ext K)} (hs : standardize lm = .ok s)
    (y : List K) (hy : y.length = s.vars.length) :
    ((asLpAssignment s.vars (y.map Ext.fin)).map (·.1)).Perm lm.vars ∧
    ∀ i (hi : i < lm.vars.length),
      (asLpAssignment s.vars (y.map Ext.fin)).find? (fun p => p.1 == lm.vars[i]) =
        some (lm.vars[i], Val.real (Ext.fin ((preimage lm y).getD i 0))) :=
  asLp_standardize_kept lm hW hnd (fun v hv => hpl v ((keep_sublist _ _).subset hv)) hs y hy

end Std

end Rooc.ComposeNames
