/-
Inversion lemmas for `Cert.ofLinModel` (the problem a `LinearModel` denotes) and the facts about
`SolverWrap.wrapMilp` needed by `Props/C05.wrapMilp_adds_no_error`: on a model that denotes a problem the wrapper's
pre-checks pass, its read-back is exact on a point that satisfies the domains, and the value it reports is the
objective with the offset.
-/
import Rooc.Proofs.Cert
import Rooc.Proofs.SolverWrap
import Mathlib.Data.List.Forall2

namespace Rooc
namespace Cert
open SolverWrap
variable {K : Type} [Field K] [LinearOrder K] [IsStrictOrderedRing K] [FloorRing K]

theorem listM_forall₂ {ε α β : Type} (f : α → Except ε β) :
    ∀ (l : List α) (l' : List β), listM f l = .ok l' → List.Forall₂ (fun a b => f a = .ok b) l l'
  | [], l', h => by
    simp [listM] at h; subst h; exact List.Forall₂.nil
  | a :: as, l', h => by
    simp only [listM] at h
    cases hf : f a with
    | error e => simp [hf] at h
    | ok y =>
      cases hr : listM f as with
      | error e => simp [hf, hr] at h
      | ok ys =>
        simp [hf, hr] at h
        subst h
        exact List.Forall₂.cons hf (listM_forall₂ f as ys hr)

theorem forall₂_exists_left {α β : Type} {R : α → β → Prop} : ∀ {l : List α} {l' : List β},
    List.Forall₂ R l l' → ∀ a ∈ l, ∃ b ∈ l', R a b
  | _, _, .nil, a, ha => by simp at ha
  | _, _, .cons (a := a0) (b := b0) h t, a, ha => by
    rcases List.mem_cons.mp ha with rfl | hm
    · exact ⟨b0, by simp, h⟩
    · obtain ⟨b, hb, hr⟩ := forall₂_exists_left t a hm
      exact ⟨b, by simp [hb], hr⟩

omit [Field K] [LinearOrder K] [IsStrictOrderedRing K] [FloorRing K] in
theorem extFin_inv {e : Ext K} {v : K} (h : extFin e = .ok v) : e = .fin v := by
  cases e <;> simp [extFin] at h
  rw [h]

omit [Field K] [LinearOrder K] [IsStrictOrderedRing K] [FloorRing K] in
theorem listM_extFin_inv : ∀ (l : List (Ext K)) (l' : List K), listM extFin l = .ok l' → l = l'.map Ext.fin
  | [], l', h => by simp [listM] at h; subst h; rfl
  | e :: es, l', h => by
    simp only [listM] at h
    cases hf : extFin e with
    | error _ => simp [hf] at h
    | ok y =>
      cases hr : listM extFin es with
      | error _ => simp [hf, hr] at h
      | ok ys =>
        simp [hf, hr] at h
        subst h
        rw [List.map_cons, ← extFin_inv hf, ← listM_extFin_inv es ys hr]

omit [Field K] [LinearOrder K] [IsStrictOrderedRing K] [FloorRing K] in
/-- what a successful `ofLinModel` says about the model. -/
theorem ofLinModel_inv {lm : LinModel (Ext K)} {p : Prob K} (h : ofLinModel lm = .ok p) :
    listM (domOf lm) lm.vars = .ok p.doms ∧ listM (rowOf lm.vars.length) lm.rows = .ok p.rows ∧
    lm.objective = p.obj.map Ext.fin ∧ lm.offset = Ext.fin p.offset ∧
    lm.objective.length = lm.vars.length ∧ p.sense = lm.optType := by
  unfold ofLinModel at h
  cases h1 : listM (domOf lm) lm.vars with
  | error e => simp [h1] at h
  | ok doms =>
    cases h2 : listM (rowOf lm.vars.length) lm.rows with
    | error e => simp [h1, h2] at h
    | ok rows =>
      cases h3 : listM extFin lm.objective with
      | error e => simp [h1, h2, h3] at h
      | ok obj =>
        cases h4 : extFin lm.offset with
        | error e => simp [h1, h2, h3, h4] at h
        | ok off =>
          simp only [h1, h2, h3, h4] at h
          split at h
          · simp at h
          · rename_i hlen
            simp only [Except.ok.injEq] at h
            subst h
            exact ⟨rfl, rfl, listM_extFin_inv _ _ h3, extFin_inv h4, by simpa using hlen, rfl⟩

/-- the relation between a variable name and the domain it denotes. -/
def VarDenotes (lm : LinModel (Ext K)) (v : String) (d : Dom K) : Prop :=
  ∃ ty, domainOf lm v = some ty ∧ tyDom ty = .ok d

omit [Field K] [LinearOrder K] [IsStrictOrderedRing K] [FloorRing K] in
theorem domOf_inv {lm : LinModel (Ext K)} {v : String} {d : Dom K} (h : domOf lm v = .ok d) : VarDenotes lm v d := by
  unfold domOf at h
  cases hf : lm.domain.find? (fun x => x.name == v) with
  | none => simp [hf] at h
  | some dv =>
    simp only [hf] at h
    exact ⟨dv.ty, by simp [domainOf, hf], h⟩

omit [Field K] [LinearOrder K] [IsStrictOrderedRing K] [FloorRing K] in
theorem rowOf_inv {n : Nat} {r : LinRow (Ext K)} {row : Row K} (h : rowOf n r = .ok row) :
    isStrict r.cmp = false ∧ r.coeffs.length = n := by
  unfold rowOf at h
  cases h1 : relOf r.cmp with
  | error e => simp [h1] at h
  | ok rel =>
    cases h2 : listM extFin r.coeffs with
    | error e => simp [h1, h2] at h
    | ok cs =>
      cases h3 : extFin r.rhs with
      | error e => simp [h1, h2, h3] at h
      | ok rhs =>
        simp only [h1, h2, h3] at h
        split at h
        · simp at h
        · rename_i hl
          refine ⟨?_, by simpa using hl⟩
          cases hc : r.cmp <;> simp [relOf, hc] at h1 <;> simp [isStrict]

/-- all integer ranges of the problem fit `i32` (they do in the Rust: `IntegerRange(i32, i32)`). -/
def I32Ranges (ds : List (Dom K)) : Prop :=
  ∀ d ∈ ds, match d with
    | .int lo hi => -2147483648 ≤ lo ∧ hi ≤ 2147483647
    | _ => True

/-- read-back of a value that satisfies its domain exactly denotes the same number. -/
theorem readBack_of_domSat {ty : VarType (Ext K)} {d : Dom K} {v : K} (hty : tyDom ty = .ok d)
    (hsat : DomSatTol 0 v d)
    (hi32 : match d with | .int lo hi => -2147483648 ≤ lo ∧ hi ≤ 2147483647 | _ => True) :
    (readBack ty (Ext.fin v)).toNum = Ext.fin v := by
  cases ty with
  | real a b => simp [readBack, Val.toNum]
  | nnreal a b => simp [readBack, Val.toNum]
  | int a b =>
    simp [tyDom] at hty
    subst hty
    obtain ⟨n, hn, h1, h2⟩ := hsat
    have hv : v = (n : K) := sub_eq_zero.mp (abs_nonpos_iff.mp hn)
    subst hv
    simp only at hi32
    have a1 : ¬ n < -2147483648 := not_lt.mpr (le_trans hi32.1 h1)
    have a2 : ¬ n > 2147483647 := not_lt.mpr (le_trans h2 hi32.2)
    simp [readBack, Val.toNum, Arith.toI32, Ext.toIntSat, Ext.clampInt, a1, a2, Arith.ofInt]
  | bool =>
    simp [tyDom] at hty
    subst hty
    rcases hsat with h0 | h1
    · have : v = 0 := by simpa using abs_nonpos_iff.mp h0
      subst this
      simp [readBack, Val.toNum, Arith.ne, Arith.eq, Ext.eq, Arith.ofInt]
    · have : v = 1 := sub_eq_zero.mp (abs_nonpos_iff.mp h1)
      subst this
      simp [readBack, Val.toNum, Arith.ne, Arith.eq, Ext.eq, Arith.ofInt]

/-- the assignment the MILP wrapper builds names the variables in order and denotes the solver's point. -/
theorem assignment_exact (lm : LinModel (Ext K)) : ∀ (vars : List String) (ds : List (Dom K)) (vals : List K),
    List.Forall₂ (VarDenotes lm) vars ds → DomsSatTol 0 vals ds → I32Ranges ds →
    let asg := (zipNames vars (vals.map Ext.fin)).map fun (x : String × Ext K) =>
      match domainOf lm x.1 with
      | some ty => (x.1, readBack ty x.2)
      | none => (x.1, Val.real x.2)
    asg.map (·.1) = vars ∧ asg.map (fun a => a.2.toNum) = vals.map Ext.fin
  | [], [], [], _, _, _ => by simp [zipNames]
  | v :: vs, d :: ds, x :: xs, hF, hS, hI => by
    cases hF with
    | cons hd htl =>
      obtain ⟨ty, hdom, hty⟩ := hd
      have ih := assignment_exact lm vs ds xs htl hS.2 (fun d' hd' => hI d' (by simp [hd']))
      simp only [zipNames, List.map_cons, List.zip_cons_cons] at ih ⊢
      simp only [hdom]
      refine ⟨by rw [ih.1], ?_⟩
      rw [ih.2, readBack_of_domSat hty hS.1 (hI d (by simp))]
  | [], [], _ :: _, _, hS, _ => by simp [DomsSatTol] at hS
  | _ :: _, _ :: _, [], _, hS, _ => by simp [DomsSatTol] at hS
  | [], _ :: _, _, hF, _, _ => by cases hF
  | _ :: _, [], _, hF, _, _ => by cases hF

theorem domsSatTol_length {tol : K} : ∀ (x : List K) (ds : List (Dom K)), DomsSatTol tol x ds → x.length = ds.length
  | [], [], _ => rfl
  | _ :: xs, _ :: ds, h => by simp [domsSatTol_length xs ds h.2]
  | [], _ :: _, h => by simp [DomsSatTol] at h
  | _ :: _, [], h => by simp [DomsSatTol] at h

end Cert
end Rooc
