/-
Regression for the singleton collapse (rooc 81a4b76 + e35561f): the counterexample model of
`c01_logic_counterexample`, `min x  s.t.  c: (x and 1) = 3`, `x ∈ Real(0, 4)`, is now REJECTED by the whole
pipeline `Compile.linearize` with `NonBinaryLogicOperand` — at every tolerance and step limit.  (`linearizeWith`
alone still lowers it to the row `x = 3`: the check runs in `Linearizer::linearize`, before bound inference.)
-/
import Rooc.Proofs.LinDExamples2
import Rooc.Proofs.LinCheck

set_option linter.unusedSectionVars false
set_option linter.unusedSimpArgs false
set_option linter.unusedVariables false

namespace Rooc.LinP
open Rooc Rooc.Lin Rooc.Sem Rooc.Exp Rooc.BoundsProofs

variable {K : Type} [Field K] [LinearOrder K] [IsStrictOrderedRing K] [FloorRing K]

theorem exAndOne_simplify : simplify (.and [.var "x", .num (.fin 1)] : Exp (Ext K)) = .var "x" := by
  simp [simplify, naryCore, naryFlatten, naryStep, naryScan, mayBeUndefinedAny, mayBeUndefined, numTruthy,
    Arith.eq, Ext.eq]

theorem exAndOne_node (s : St (Ext K)) (hx : isBoolVar s.domain "x" = false) :
    collapseNode (.and [.var "x", .num (.fin 1)] : Exp (Ext K)) s = .error .nonBinaryLogicOperand := by
  unfold collapseNode
  simp only [exAndOne_simplify]
  rw [bind_err]
  refine Or.inr ⟨s, s, rfl, ?_⟩
  simp only [isLogicValue, hx, Bool.false_eq_true, if_false]
  rw [bind_err]
  refine Or.inr ⟨Ctx.fromVar "x" Arith.one, s, by rw [linExp]; rfl, ?_⟩
  rw [bind_err]
  refine Or.inr ⟨s, s, rfl, ?_⟩
  simp [isBinaryCtx, Ctx.fromVar, Ctx.addVar, Ctx.new, hx]
  rfl

theorem exAndOne_check (s : St (Ext K)) (hx : isBoolVar s.domain "x" = false) :
    collapseCheckAll (exAndOne : Model (Ext K)) s = .error .nonBinaryLogicOperand := by
  unfold collapseCheckAll
  rw [bind_err]
  refine Or.inr ⟨⟨⟩, s, by simp only [exAndOne]; rw [collapseCheck]; rfl, ?_⟩
  show collapseCheckConstraints [exAndOneC] s = _
  rw [collapseCheckConstraints, bind_err]
  refine Or.inl ?_
  simp only [exAndOneC]
  rw [collapseCheck, bind_err]
  refine Or.inr ⟨⟨⟩, s, ?_, exAndOne_node s hx⟩
  simp only [collapseCheckList, bind_ok]
  exact ⟨⟨⟩, _, by rw [collapseCheck]; rfl, ⟨⟩, _, by rw [collapseCheck]; rfl, rfl⟩

/-- **the counterexample of `c01_logic_counterexample` is rejected by the pipeline.** -/
theorem exAndOne_compile_rejected (tol : Ext K) (maxSteps : Nat) :
    Compile.linearize (exAndOne : Model (Ext K)) tol maxSteps = .error .nonBinaryLogicOperand := by
  have h := exAndOne_check (K := K) (Compile.scratchState exAndOne tol maxSteps)
    (by simp [Compile.scratchState, exAndOne, isBoolVar, domainType])
  unfold Compile.linearize
  simp only [h]

end Rooc.LinP
