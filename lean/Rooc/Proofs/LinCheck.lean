/-
`check_collapsing_logic_operands` (rooc 81a4b76, e35561f): the specification.  The check lowers every and/or node
that `simplify` collapses to a non-logic value in its scratch context; as a step between states it is sound and
complete with no side condition (what it lowers is defined everywhere, `def_of_linExp`), and at every solution of
the state it leaves NO and/or NODE OF THE CHECKED EXPRESSION COLLAPSES TO A NON-0/1 VALUE (`NC`).  Run on the
scratch context of `Linearizer::linearize` (declared domains, declared boxes, empty queue) this gives `NCon` on the
declared domains — the clause the contract of the pipeline theorems used to assume.
-/
import Rooc.Proofs.LinBridgeLogic

set_option linter.unusedSectionVars false
set_option linter.unusedSimpArgs false
set_option linter.unusedVariables false
set_option linter.unusedTactic false
set_option linter.unreachableTactic false

namespace Rooc.LinP
open Rooc Rooc.Lin Rooc.Sem Rooc.Exp
open Rooc.Lin.Gadget
open Rooc.BoundsProofs Rooc.BoundsSem

variable {K : Type} [Field K] [LinearOrder K] [IsStrictOrderedRing K] [FloorRing K]

theorem collapseNode_ok (e : Exp (Ext K)) (s s' : St (Ext K)) :
    collapseNode e s = .ok ((), s') ↔
      (isLogicValue s.domain (simplify e) = true ∧ s' = s) ∨
      (isLogicValue s.domain (simplify e) = false ∧
        ∃ c, linExp (simplify e) .exact s = .ok (c, s') ∧ isBinaryCtx c s'.domain = true) := by
  unfold collapseNode
  simp only [bind_ok, get_ok]
  constructor
  · rintro ⟨s0, s0', h0, h⟩
    cases h0
    cases hlv : isLogicValue s.domain (simplify e)
    · right
      simp only [hlv, Bool.false_eq_true, if_false, bind_ok, get_ok] at h
      obtain ⟨c, s1, hc, s2, s2', h2, h3⟩ := h
      cases h2
      cases hb : isBinaryCtx c s1.domain
      · simp [hb, fail_ok] at h3
      · simp only [hb, Bool.not_true, Bool.false_eq_true, if_false, pure_ok, Prod.mk.injEq, true_and] at h3
        subst h3
        exact ⟨rfl, c, hc, hb⟩
    · left
      simp only [hlv, if_true, pure_ok, Prod.mk.injEq, true_and] at h
      exact ⟨rfl, h⟩
  · rintro (⟨hlv, rfl⟩ | ⟨hlv, c, hc, hb⟩)
    · exact ⟨s', s', rfl, by simp [hlv, pure_ok]⟩
    · refine ⟨s, s, rfl, ?_⟩
      simp only [hlv, Bool.false_eq_true, if_false, bind_ok, get_ok]
      exact ⟨c, s', hc, s', s', rfl, by simp [hb, pure_ok]⟩

/-- what a check step guarantees: invariant kept, sound and complete as a loop step with no side condition, and
`P` at every solution of the new state. -/
structure ChkOK (d0 : List (DomVar (Ext K))) (s s' : St (Ext K)) (P : (String → K) → Prop) : Prop where
  inv : LoopInvD d0 s'
  step : StepOK s s' (fun _ => True)
  ok : ∀ ρ : String → K, Sat ρ s' → P ρ

theorem ChkOK.refl {d0 : List (DomVar (Ext K))} {s : St (Ext K)} (hinv : LoopInvD d0 s) {P : (String → K) → Prop}
    (hP : ∀ ρ : String → K, Sat ρ s → P ρ) : ChkOK d0 s s P :=
  ⟨hinv, StepOK.refl (fun _ _ => trivial), hP⟩

theorem ChkOK.seq {d0 : List (DomVar (Ext K))} {s s1 s2 : St (Ext K)} {P Q R : (String → K) → Prop}
    (A : ChkOK d0 s s1 P) (B : ChkOK d0 s1 s2 Q) (hR : ∀ ρ, P ρ → Q ρ → R ρ) : ChkOK d0 s s2 R :=
  ⟨B.inv, (A.step.seq B.step (fun _ _ _ => Iff.rfl)).congr (fun _ _ => by simp),
    fun ρ hs => hR ρ (A.ok ρ (B.step.sound ρ hs).1) (B.ok ρ hs)⟩

theorem ChkOK.weaken {d0 : List (DomVar (Ext K))} {s s' : St (Ext K)} {P Q : (String → K) → Prop}
    (A : ChkOK d0 s s' P) (h : ∀ ρ, P ρ → Q ρ) : ChkOK d0 s s' Q :=
  ⟨A.inv, A.step, fun ρ hs => h ρ (A.ok ρ hs)⟩

theorem ChkOK.scope {d0 : List (DomVar (Ext K))} {s s' : St (Ext K)} {P : (String → K) → Prop}
    (A : ChkOK d0 s s' P) {x : String} (hx : inScope s.domain x) : inScope s'.domain x :=
  A.step.scopeMono hx

/-- the test at one and/or node. -/
theorem collapseNode_spec {d0 : List (DomVar (Ext K))} {n : Exp (Ext K)} {s s' : St (Ext K)}
    (hinv : LoopInvD d0 s) (hsc : ∀ x ∈ varsOf n, inScope s.domain x) (hfin : FinE n)
    (h : collapseNode n s = .ok ((), s')) : ChkOK d0 s s' (fun ρ => CollapseOK ρ n) := by
  have hscS : ∀ x ∈ varsOf (simplify n), inScope s.domain x := fun x hx =>
    hsc x (varsIn_simplify (varsOf n) n (fun y hy => hy) x hx)
  have hfinS : FinE (simplify n) := finiteLits_simplify n hfin
  rcases (collapseNode_ok n s s').mp h with ⟨hlv, rfl⟩ | ⟨_, c, hc, hb⟩
  · refine ChkOK.refl hinv (fun ρ hs v hv => ?_)
    exact logicValue_b01 hlv hscS (hinv.boolOK hs.dom) hv
  · have A := lin_spec_all (Src := SrcD d0) (simplify n) .exact s c s' ⟨hinv.st, hscS, hfinS⟩ hc
    obtain ⟨hinv1, hback, hfwd⟩ := spec_states hinv A
    refine ⟨hinv1, ⟨A.dom, fun ρ hs => ⟨hback ρ hs, trivial⟩, ?_⟩, ?_⟩
    · intro ρ hs _
      obtain ⟨v, hv⟩ := def_iff_exists.mp (def_of_linExp hc hfinS ρ)
      obtain ⟨ρ', hag, hd', hq', _⟩ := A.complete ρ hs.dom hs.q v hv
      exact ⟨ρ', hag, hfwd ρ ρ' hs hag hd' hq'⟩
    · intro ρ hs v hv
      have hrel := A.sound ρ hs.dom hs.q v hv
      simp only [rel] at hrel
      have hb01 := binaryCtx_B01 hinv1.st.nodup hb A.cnames hs.dom
      rw [hrel] at hb01
      exact hb01

def ChkSpec (d0 : List (DomVar (Ext K))) (e : Exp (Ext K)) : Prop :=
  ∀ (s s' : St (Ext K)), LoopInvD d0 s → (∀ x ∈ varsOf e, inScope s.domain x) → FinE e →
    collapseCheck e s = .ok ((), s') → ChkOK d0 s s' (fun ρ => NC ρ e)

theorem collapseCheckList_spec {d0 : List (DomVar (Ext K))} : ∀ (es : List (Exp (Ext K))),
    (∀ e ∈ es, ChkSpec d0 e) → ∀ (s s' : St (Ext K)), LoopInvD d0 s →
      (∀ e ∈ es, ∀ x ∈ varsOf e, inScope s.domain x) → (∀ e ∈ es, FinE e) →
      collapseCheckList es s = .ok ((), s') → ChkOK d0 s s' (fun ρ => NCList ρ es)
  | [], _, s, s', hinv, _, _, h => by
    rw [collapseCheckList] at h
    simp only [pure_ok, Prod.mk.injEq, true_and] at h
    subst h
    exact ChkOK.refl hinv (fun _ _ => by simp [NCList])
  | e :: es, hall, s, s', hinv, hsc, hfin, h => by
    rw [collapseCheckList] at h
    simp only [bind_ok] at h
    obtain ⟨u, s1, h1, h2⟩ := h
    have A := hall e (by simp) s s1 hinv (hsc e (by simp)) (hfin e (by simp)) h1
    have B := collapseCheckList_spec es (fun x hx => hall x (by simp [hx])) s1 s' A.inv
      (fun x hx y hy => A.scope (hsc x (by simp [hx]) y hy)) (fun x hx => hfin x (by simp [hx])) h2
    exact A.seq B (fun ρ h1 h2 => by simp only [NCList]; exact ⟨h1, h2⟩)

theorem vars_of_list {d : List (DomVar (Ext K))} {es : List (Exp (Ext K))}
    (h : ∀ y ∈ varsOfList es, inScope d y) : ∀ e ∈ es, ∀ y ∈ varsOf e, inScope d y :=
  fun e he y hy => h y (mem_varsOfList.mpr ⟨e, he, hy⟩)

/-- two sub-expressions, then possibly the node itself. -/
theorem chk_pair {d0 : List (DomVar (Ext K))} {a b : Exp (Ext K)} (iha : ChkSpec d0 a) (ihb : ChkSpec d0 b)
    {s s' : St (Ext K)} (hinv : LoopInvD d0 s) (hsa : ∀ x ∈ varsOf a, inScope s.domain x)
    (hsb : ∀ x ∈ varsOf b, inScope s.domain x) (hfa : FinE a) (hfb : FinE b)
    (h : (do collapseCheck a; collapseCheck b : M (Ext K) Unit) s = .ok ((), s')) :
    ChkOK d0 s s' (fun ρ => NC ρ a ∧ NC ρ b) := by
  simp only [bind_ok] at h
  obtain ⟨u, s1, h1, h2⟩ := h
  have A := iha s s1 hinv hsa hfa h1
  have B := ihb s1 s' A.inv (fun x hx => A.scope (hsb x hx)) hfb h2
  exact A.seq B (fun ρ h1 h2 => ⟨h1, h2⟩)

/-- **`check_collapsing_logic_operands`**: a sound and complete loop step after which, at every solution of the
state, no and/or node of the expression collapses to a non-0/1 value. -/
theorem collapseCheck_spec {d0 : List (DomVar (Ext K))} : ∀ e : Exp (Ext K), ChkSpec d0 e := by
  intro e
  induction e using Exp.indL with
  | num v =>
    intro s s' hinv _ _ h
    rw [collapseCheck] at h; simp only [pure_ok, Prod.mk.injEq, true_and] at h; subst h
    exact ChkOK.refl hinv (fun _ _ => by simp [NC])
  | var x =>
    intro s s' hinv _ _ h
    rw [collapseCheck] at h; simp only [pure_ok, Prod.mk.injEq, true_and] at h; subst h
    exact ChkOK.refl hinv (fun _ _ => by simp [NC])
  | abs e ih =>
    intro s s' hinv hsc hfin h
    rw [collapseCheck] at h
    exact (ih s s' hinv (by simpa [varsOf] using hsc) hfin.abs h).weaken (fun ρ h => by simpa [NC] using h)
  | not e ih =>
    intro s s' hinv hsc hfin h
    rw [collapseCheck] at h
    exact (ih s s' hinv (by simpa [varsOf] using hsc) hfin.not h).weaken (fun ρ h => by simpa [NC] using h)
  | un op e ih =>
    intro s s' hinv hsc hfin h
    rw [collapseCheck] at h
    have hf : FinE e := by cases op <;> simpa only [FinE, finiteLits] using hfin
    exact (ih s s' hinv (by simpa [varsOf] using hsc) hf h).weaken (fun ρ h => by simpa [NC] using h)
  | min es ih =>
    intro s s' hinv hsc hfin h
    rw [collapseCheck] at h
    exact (collapseCheckList_spec es ih s s' hinv (vars_of_list (by simpa [varsOf] using hsc)) hfin.min_mem h).weaken
      (fun ρ h => by simpa [NC] using h)
  | max es ih =>
    intro s s' hinv hsc hfin h
    rw [collapseCheck] at h
    exact (collapseCheckList_spec es ih s s' hinv (vars_of_list (by simpa [varsOf] using hsc)) hfin.max_mem h).weaken
      (fun ρ h => by simpa [NC] using h)
  | and es ih =>
    intro s s' hinv hsc hfin h
    rw [collapseCheck] at h
    simp only [bind_ok] at h
    obtain ⟨u, s1, h1, h2⟩ := h
    have A := collapseCheckList_spec es ih s s1 hinv (vars_of_list (by simpa [varsOf] using hsc)) hfin.and_mem h1
    have B := collapseNode_spec A.inv (fun x hx => A.scope (hsc x hx)) hfin h2
    exact A.seq B (fun ρ h1 h2 => by simp only [NC]; exact ⟨h2, h1⟩)
  | or es ih =>
    intro s s' hinv hsc hfin h
    rw [collapseCheck] at h
    simp only [bind_ok] at h
    obtain ⟨u, s1, h1, h2⟩ := h
    have A := collapseCheckList_spec es ih s s1 hinv (vars_of_list (by simpa [varsOf] using hsc)) hfin.or_mem h1
    have B := collapseNode_spec A.inv (fun x hx => A.scope (hsc x hx)) hfin h2
    exact A.seq B (fun ρ h1 h2 => by simp only [NC]; exact ⟨h2, h1⟩)
  | xor a b iha ihb =>
    intro s s' hinv hsc hfin h
    rw [collapseCheck] at h
    exact (chk_pair iha ihb hinv (fun x hx => hsc x (by simp [varsOf, hx])) (fun x hx => hsc x (by simp [varsOf, hx]))
      (hfin.xor_mem a (by simp)) (hfin.xor_mem b (by simp)) h).weaken (fun ρ h => by simpa [NC] using h)
  | implies a b iha ihb =>
    intro s s' hinv hsc hfin h
    rw [collapseCheck] at h
    exact (chk_pair iha ihb hinv (fun x hx => hsc x (by simp [varsOf, hx])) (fun x hx => hsc x (by simp [varsOf, hx]))
      (hfin.implies_mem a (by simp)) (hfin.implies_mem b (by simp)) h).weaken (fun ρ h => by simpa [NC] using h)
  | iff a b iha ihb =>
    intro s s' hinv hsc hfin h
    rw [collapseCheck] at h
    exact (chk_pair iha ihb hinv (fun x hx => hsc x (by simp [varsOf, hx])) (fun x hx => hsc x (by simp [varsOf, hx]))
      (hfin.iff_mem a (by simp)) (hfin.iff_mem b (by simp)) h).weaken (fun ρ h => by simpa [NC] using h)
  | bin op a b iha ihb =>
    intro s s' hinv hsc hfin h
    have hsa : ∀ x ∈ varsOf a, inScope s.domain x := fun x hx => hsc x (by simp [varsOf, hx])
    have hsb : ∀ x ∈ varsOf b, inScope s.domain x := fun x hx => hsc x (by simp [varsOf, hx])
    have key : ∀ (k : M (Ext K) Unit), (do collapseCheck a; collapseCheck b; k : M (Ext K) Unit) s = .ok ((), s') →
        ∃ s1, ChkOK d0 s s1 (fun ρ => NC ρ a ∧ NC ρ b) ∧ k s1 = .ok ((), s') := by
      intro k hk
      simp only [bind_ok] at hk
      obtain ⟨u, s1, h1, u2, s2, h2, h3⟩ := hk
      exact ⟨s2, chk_pair iha ihb hinv hsa hsb hfin.bin_left hfin.bin_right
        (by simp only [bind_ok]; exact ⟨u, s1, h1, h2⟩), h3⟩
    have hnode : ∀ s1, ChkOK d0 s s1 (fun ρ => NC ρ a ∧ NC ρ b) → collapseNode (.bin op a b) s1 = .ok ((), s') →
        ChkOK d0 s s' (fun ρ => NC ρ (.bin op a b)) := by
      intro s1 A h2
      have B := collapseNode_spec A.inv (fun x hx => A.scope (hsc x hx)) hfin h2
      exact A.seq B (fun ρ h1 h2 => by simp only [NC]; exact ⟨h1.1, h1.2, fun _ => h2⟩)
    have hpure : (op = .and ∨ op = .or → False) → ∀ s1, ChkOK d0 s s1 (fun ρ => NC ρ a ∧ NC ρ b) →
        (pure () : M (Ext K) Unit) s1 = .ok ((), s') → ChkOK d0 s s' (fun ρ => NC ρ (.bin op a b)) := by
      intro hop s1 A h2
      simp only [pure_ok, Prod.mk.injEq, true_and] at h2
      subst h2
      exact A.weaken (fun ρ h => by simp only [NC]; exact ⟨h.1, h.2, fun ho => absurd ho hop⟩)
    cases op
    case and => rw [collapseCheck] at h; obtain ⟨s1, A, h2⟩ := key _ h; exact hnode s1 A h2
    case or => rw [collapseCheck] at h; obtain ⟨s1, A, h2⟩ := key _ h; exact hnode s1 A h2
    all_goals
      rw [collapseCheck] at h
      · obtain ⟨s1, A, h2⟩ := key _ h
        exact hpure (by simp) s1 A h2
      all_goals (intro hh; cases hh)

/-! ### the whole up-front check -/

/-- what the check establishes for a model at an assignment. -/
def NCModelAt (m : Model (Ext K)) (ρ : String → K) : Prop :=
  NC ρ m.objective ∧ ∀ c ∈ m.constraints, NC ρ c.lhs ∧ (c.isAssert = false → NC ρ c.rhs)

theorem collapseCheckConstraints_spec {d0 : List (DomVar (Ext K))} : ∀ (cs : List (Constraint (Ext K))),
    (∀ c ∈ cs, (∀ x ∈ varsOf c.lhs, inScope d0 x) ∧ (∀ x ∈ varsOf c.rhs, inScope d0 x) ∧ FinE c.lhs ∧ FinE c.rhs) →
    ∀ (s s' : St (Ext K)), LoopInvD d0 s → collapseCheckConstraints cs s = .ok ((), s') →
      ChkOK d0 s s' (fun ρ => ∀ c ∈ cs, NC ρ c.lhs ∧ (c.isAssert = false → NC ρ c.rhs))
  | [], _, s, s', hinv, h => by
    rw [collapseCheckConstraints] at h
    simp only [pure_ok, Prod.mk.injEq, true_and] at h
    subst h
    exact ChkOK.refl hinv (fun _ _ c hc => by cases hc)
  | c :: cs, hall, s, s', hinv, h => by
    obtain ⟨hvl, hvr, hfl, hfr⟩ := hall c (by simp)
    rw [collapseCheckConstraints] at h
    obtain ⟨s1, s2, h1, h2, h3⟩ : ∃ s1 s2, collapseCheck c.lhs s = .ok ((), s1) ∧
        ((c.isAssert = false ∧ collapseCheck c.rhs s1 = .ok ((), s2)) ∨ (c.isAssert = true ∧ s2 = s1)) ∧
        collapseCheckConstraints cs s2 = .ok ((), s') := by
      cases hA : c.isAssert
      · simp only [hA, Bool.not_false, if_true, bind_ok] at h
        obtain ⟨u1, s1, h1, u2, s2, h2, h3⟩ := h
        exact ⟨s1, s2, h1, Or.inl ⟨rfl, h2⟩, h3⟩
      · simp only [hA, Bool.not_true, Bool.false_eq_true, if_false, bind_ok] at h
        obtain ⟨u1, s1, h1, h3⟩ := h
        exact ⟨s1, s1, h1, Or.inr ⟨rfl, rfl⟩, h3⟩
    have A := collapseCheck_spec c.lhs s s1 hinv (fun x hx => hinv.base (hvl x hx)) hfl h1
    have B : ChkOK d0 s1 s2 (fun ρ => c.isAssert = false → NC ρ c.rhs) := by
      rcases h2 with ⟨hA, h2⟩ | ⟨hA, rfl⟩
      · exact (collapseCheck_spec c.rhs s1 s2 A.inv (fun x hx => A.inv.base (hvr x hx)) hfr h2).weaken
          (fun ρ h _ => h)
      · exact ChkOK.refl A.inv (fun _ _ h' => by rw [hA] at h'; cases h')
    have C := collapseCheckConstraints_spec cs (fun x hx => hall x (by simp [hx])) s2 s' B.inv h3
    refine (A.seq B (fun ρ h1 h2 => And.intro h1 h2)).seq C (fun ρ h12 h3 c' hc' => ?_)
    rcases List.mem_cons.mp hc' with rfl | hc'
    · exact h12
    · exact h3 c' hc'

/-- scope and finite literals of a whole model over its declared domains (the static contract). -/
structure StaticModel (m : Model (Ext K)) : Prop where
  objVars : ∀ x ∈ varsOf m.objective, inScope m.domain x
  objFin : FinE m.objective
  cons : ∀ c ∈ m.constraints,
    (∀ x ∈ varsOf c.lhs, inScope m.domain x) ∧ (∀ x ∈ varsOf c.rhs, inScope m.domain x) ∧ FinE c.lhs ∧ FinE c.rhs

theorem StaticModel.ofLogic {m : Model (Ext K)} (h : LogicModel m m.domain) : StaticModel m :=
  ⟨h.obj.vars, h.obj.fin, fun c hc => ⟨(h.cons c hc).lhs.vars, (h.cons c hc).rhs.vars, (h.cons c hc).lhs.fin,
    (h.cons c hc).rhs.fin⟩⟩

theorem collapseCheckAll_spec {m : Model (Ext K)} (hm : StaticModel m) {s s' : St (Ext K)}
    (hinv : LoopInvD m.domain s) (h : collapseCheckAll m s = .ok ((), s')) :
    ChkOK m.domain s s' (NCModelAt m) := by
  unfold collapseCheckAll at h
  simp only [bind_ok] at h
  obtain ⟨u, s1, h1, h2⟩ := h
  have A := collapseCheck_spec m.objective s s1 hinv (fun x hx => hinv.base (hm.objVars x hx)) hm.objFin h1
  have B := collapseCheckConstraints_spec m.constraints hm.cons s1 s' A.inv h2
  exact A.seq B (fun ρ h1 h2 => ⟨h1, h2⟩)

/-! ### `NC` only reads the variables of the expression -/

theorem collapseOK_congr {ρ ρ' : String → K} {n : Exp (Ext K)} (h : ∀ x ∈ varsOf n, ρ' x = ρ x) :
    CollapseOK ρ' n ↔ CollapseOK ρ n := by
  unfold CollapseOK
  rw [eval_congr (simplify n) (fun x hx => h x (varsIn_simplify (varsOf n) n (fun y hy => hy) x hx))]

theorem NC_congr {ρ ρ' : String → K} : ∀ (e : Exp (Ext K)), (∀ x ∈ varsOf e, ρ' x = ρ x) → (NC ρ' e ↔ NC ρ e) := by
  have hlist : ∀ (es : List (Exp (Ext K))), (∀ e ∈ es, (∀ x ∈ varsOf e, ρ' x = ρ x) → (NC ρ' e ↔ NC ρ e)) →
      (∀ x ∈ varsOfList es, ρ' x = ρ x) → (NCList ρ' es ↔ NCList ρ es) := by
    intro es ih h
    rw [NCList_iff, NCList_iff]
    exact forall₂_congr (fun e he => ih e he (fun x hx => h x (mem_varsOfList.mpr ⟨e, he, hx⟩)))
  intro e
  induction e using Exp.indL with
  | num v => intro _; simp [NC]
  | var x => intro _; simp [NC]
  | abs e ih => intro h; simpa [NC] using ih (by simpa [varsOf] using h)
  | not e ih => intro h; simpa [NC] using ih (by simpa [varsOf] using h)
  | un op e ih => intro h; simpa [NC] using ih (by simpa [varsOf] using h)
  | min es ih => intro h; simpa [NC] using hlist es ih (by simpa [varsOf] using h)
  | max es ih => intro h; simpa [NC] using hlist es ih (by simpa [varsOf] using h)
  | and es ih =>
    intro h
    simp only [NC]
    rw [collapseOK_congr h, hlist es ih (by simpa [varsOf] using h)]
  | or es ih =>
    intro h
    simp only [NC]
    rw [collapseOK_congr h, hlist es ih (by simpa [varsOf] using h)]
  | xor a b iha ihb =>
    intro h
    simp only [NC]
    rw [iha (fun x hx => h x (by simp [varsOf, hx])), ihb (fun x hx => h x (by simp [varsOf, hx]))]
  | implies a b iha ihb =>
    intro h
    simp only [NC]
    rw [iha (fun x hx => h x (by simp [varsOf, hx])), ihb (fun x hx => h x (by simp [varsOf, hx]))]
  | iff a b iha ihb =>
    intro h
    simp only [NC]
    rw [iha (fun x hx => h x (by simp [varsOf, hx])), ihb (fun x hx => h x (by simp [varsOf, hx]))]
  | bin op a b iha ihb =>
    intro h
    simp only [NC]
    rw [iha (fun x hx => h x (by simp [varsOf, hx])), ihb (fun x hx => h x (by simp [varsOf, hx])),
      collapseOK_congr h]

/-! ### the scratch context of `Linearizer::linearize` -/

/-- the declared boxes `analyze(&domain, &[])` stores enclose every assignment of the declared domains. -/
theorem boxEnforced_scratch {domain : List (DomVar (Ext K))} (hok : DeclOK domain) (tol : Ext K) (maxSteps : Nat) :
    BoxEnforced (Compile.toLinBounds (Analyzer.analyze domain [] tol maxSteps).variableBounds) domain := by
  intro ρ hd n bd hs hl
  have hdom : ∀ d ∈ domain, InDomain d.ty (fixUnused ρ domain d.name) := fixUnused_inDomain hok hd
  have hbox : InBox (fixUnused ρ domain) (Analyzer.analyze domain [] tol maxSteps).variableBounds := by
    unfold Analyzer.analyze Analyzer.propagate
    exact propagateLoop_inBox [] (fun c hc => by cases hc) _ _ _ _ _ (fromDomain_inBox domain tol hdom)
  rw [lookupB_toLinBounds] at hl
  cases hg : AList.get? (Analyzer.analyze domain [] tol maxSteps).variableBounds n with
  | none => simp [hg] at hl
  | some b =>
    simp only [hg, Option.map_some, Option.some.injEq] at hl
    subst hl
    have hm := hbox n
    simp only [Analyzer.varBounds, hg] at hm
    rw [fixUnused_used hs] at hm
    exact (mem_iff_encl _ b).mp hm

theorem scratch_inv {m : Model (Ext K)} (hok : DeclOK m.domain) (tol : Ext K) (maxSteps : Nat) :
    LoopInvD m.domain (Compile.scratchState m tol maxSteps) := by
  refine ⟨⟨hok.nodup, boxEnforced_scratch hok tol maxSteps, ?_, ?_⟩, ⟨[], by simp [Compile.scratchState]⟩, ?_⟩
  · intro c hc; simp [Compile.scratchState] at hc
  · intro c hc; simp [Compile.scratchState] at hc
  · intro r hr; simp [Compile.scratchState] at hr

/-- **`NCon` on the declared domains follows from the up-front check**: when `Linearizer::linearize` gets past its
collapse check, no and/or node of the objective or of a constraint side collapses to a non-0/1 value at ANY
assignment of the declared domains. -/
theorem ncon_of_scratchOK {m : Model (Ext K)} (hm : StaticModel m) (hok : DeclOK m.domain) {tol : Ext K}
    {maxSteps : Nat} (h : scratchOK m tol maxSteps) (ρ : String → K) (hd : DomSat ρ m.domain) : NCModelAt m ρ := by
  obtain ⟨⟨u, s'⟩, hrun⟩ := h
  have C := collapseCheckAll_spec hm (scratch_inv hok tol maxSteps) hrun
  have hs : Sat ρ (Compile.scratchState m tol maxSteps) :=
    ⟨hd, fun c hc => by simp [Compile.scratchState] at hc, fun r hr => by simp [Compile.scratchState] at hr⟩
  obtain ⟨ρ', hag, hs'⟩ := C.step.complete ρ hs trivial
  obtain ⟨h1, h2⟩ := C.ok ρ' hs'
  refine ⟨(NC_congr _ (fun x hx => hag x (hm.objVars x hx))).mp h1, fun c hc => ?_⟩
  obtain ⟨hvl, hvr, _, _⟩ := hm.cons c hc
  exact ⟨(NC_congr _ (fun x hx => hag x (hvl x hx))).mp (h2 c hc).1,
    fun hA => (NC_congr _ (fun x hx => hag x (hvr x hx))).mp ((h2 c hc).2 hA)⟩

/-- the contract of the theorems about `linearizeWith` (`LogicModel`, which has the clause `NCon`) holds for every
model that passes the up-front check and satisfies the static contract. -/
theorem logicModel_of_scratchOK {m : Model (Ext K)} (hm : StaticModel m) (hsh : AssertShape m)
    (hok : DeclOK m.domain) {tol : Ext K} {maxSteps : Nat} (h : scratchOK m tol maxSteps) :
    LogicModel m m.domain := by
  have hnc := ncon_of_scratchOK hm hok h
  refine ⟨⟨hm.objVars, hm.objFin, fun ρ hd => (hnc ρ hd).1⟩, fun c hc => ?_⟩
  obtain ⟨hvl, hvr, hfl, hfr⟩ := hm.cons c hc
  refine ⟨⟨hvl, hfl, fun ρ hd => ((hnc ρ hd).2 c hc).1⟩, ⟨hvr, hfr, fun ρ hd => ?_⟩⟩
  cases hA : c.isAssert
  · exact ((hnc ρ hd).2 c hc).2 hA
  · obtain ⟨_, hrhs⟩ := hsh c hc hA
    rw [hrhs]; simp [NC]

end Rooc.LinP
