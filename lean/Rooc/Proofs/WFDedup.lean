/-
C08 helpers — the constraint-name de-duplication at the tail of `Linearizer::linearize`
(`Lin.dedupNames`): pairwise distinct names, first use kept verbatim, generated `name__k` never
equals a user-written name, and the bounded candidate search always succeeds (pigeonhole).
-/
import Rooc.Linearize
import Rooc.WellFormed
import Rooc.Proofs.WFList
import Mathlib.Data.String.Basic
import Mathlib.Data.List.Basic
import Mathlib.Data.List.Forall2
import Mathlib.Data.List.Nodup
import Mathlib.Data.List.Perm.Subperm
import Std.Data.String.ToNat

namespace Rooc
namespace WFDedup
open Rooc.Lin

variable {α : Type}

/-- the non-empty names of a list of rows, in order (`source_names` of the Rust, before de-duplication). -/
def nonEmptyNames (rows : List (MidRow α)) : List String :=
  rows.filterMap fun r => if r.name.isEmpty then none else some r.name

/-- the candidate `format!("{}__{}", name, counter)` with `counter = k + 2`. -/
def cand (name : String) (k : Nat) : String := name ++ "__" ++ toString (k + 2)

/-- one iteration of the `for constraint in &mut linear_constraints` loop. -/
def step (src : List String) (acc : List String × List (MidRow α)) (r : MidRow α) :
    List String × List (MidRow α) :=
  let (assigned, out) := acc
  if r.name.isEmpty then (assigned, out ++ [r])
  else if !(assigned.contains r.name) then (assigned ++ [r.name], out ++ [r])
  else
    let bound := src.length + assigned.length + 3
    let c := (List.range bound).findSome? fun k =>
      let c := cand r.name k
      if !(src.contains c) && !(assigned.contains c) then some c else none
    match c with
    | some c => (assigned ++ [c], out ++ [{ r with name := c }])
    | none => (assigned, out ++ [r])

theorem dedupNames_eq [Arith α] (rows : List (MidRow α)) :
    dedupNames rows = (rows.foldl (step (nonEmptyNames rows)) ([], [])).2 := rfl

/-! ### the candidates are pairwise distinct, so a free one exists within the bound -/

theorem cand_inj (name : String) {j k : Nat} (h : cand name j = cand name k) : j = k := by
  unfold cand at h
  have h2 := (String.append_right_inj _).mp h
  have h3 : Nat.repr (j + 2) = Nat.repr (k + 2) := h2
  have := Nat.repr_inj.mp h3
  omega

theorem cand_ne_empty {name : String} (h : name ≠ "") (k : Nat) : cand name k ≠ "" := by
  unfold cand
  intro hc
  have : (name ++ "__" ++ toString (k + 2)).toList = [] := by rw [hc]; rfl
  simp only [String.toList_append, List.append_eq_nil_iff] at this
  exact h (String.toList_eq_nil_iff.mp this.1.1)

/-- pigeonhole: among `taken.length + 1` (or more) distinct candidates one is not taken. -/
theorem exists_free (name : String) (taken : List String) (bound : Nat) (hb : taken.length < bound) :
    ∃ k, k < bound ∧ cand name k ∉ taken := by
  by_contra hcon
  have hall : ∀ k, k < bound → cand name k ∈ taken := by
    intro k hk
    by_contra hnot
    exact hcon ⟨k, hk, hnot⟩
  have hnd : ((List.range bound).map (cand name)).Nodup :=
    List.Nodup.map (fun _ _ h => cand_inj name h) List.nodup_range
  have hsub : (List.range bound).map (cand name) ⊆ taken := by
    intro c hc
    obtain ⟨k, hk, rfl⟩ := List.mem_map.mp hc
    exact hall k (List.mem_range.mp hk)
  have := (List.subperm_of_subset hnd hsub).length_le
  simp at this
  omega

/-- the result of the bounded candidate search. -/
theorem findCand_spec (src assigned : List String) (name : String) :
    ∃ k c, ((List.range (src.length + assigned.length + 3)).findSome? fun k =>
        let c := cand name k
        if !(src.contains c) && !(assigned.contains c) then some c else none) = some c ∧
      c = cand name k ∧ c ∉ src ∧ c ∉ assigned := by
  obtain ⟨k, hk, hfree⟩ := exists_free name (src ++ assigned) (src.length + assigned.length + 3)
    (by simp only [List.length_append]; omega)
  have hsome : ((List.range (src.length + assigned.length + 3)).findSome? fun k =>
        let c := cand name k
        if !(src.contains c) && !(assigned.contains c) then some c else none).isSome = true := by
    rw [List.findSome?_isSome_iff]
    refine ⟨k, List.mem_range.mpr hk, ?_⟩
    simp only [List.mem_append, not_or] at hfree
    simp [hfree.1, hfree.2]
  obtain ⟨c, hc⟩ := Option.isSome_iff_exists.mp hsome
  obtain ⟨k', _, hk'⟩ := List.exists_of_findSome?_eq_some hc
  refine ⟨k', c, hc, ?_⟩
  dsimp only at hk'
  split at hk'
  · rename_i hcond
    injection hk' with hk'
    subst hk'
    simp only [Bool.and_eq_true, Bool.not_eq_eq_eq_not, Bool.not_true, List.contains_eq_mem,
      decide_eq_false_iff_not] at hcond
    exact ⟨rfl, hcond.1, hcond.2⟩
  · cases hk'

/-! ### the loop invariant -/

/-- how an output row relates to the row it was made from: everything but the name is untouched, and
the name is either kept or replaced by a fresh `name__k` (k ≥ 2) that no user wrote. -/
def NameRel (src : List String) (r o : MidRow α) : Prop :=
  o.lhs = r.lhs ∧ o.rhs = r.rhs ∧ o.cmp = r.cmp ∧
  (o.name = r.name ∨ (r.name ≠ "" ∧ o.name ∉ src ∧ ∃ k, o.name = cand r.name k))

structure Inv (src : List String) (pre : List (MidRow α)) (acc : List String × List (MidRow α)) : Prop where
  rel : List.Forall₂ (NameRel src) pre acc.2
  assigned_eq : acc.1 = nonEmptyNames acc.2
  nodup : acc.1.Nodup
  origin : ∀ a ∈ acc.1, a ∈ pre.map (·.name) ∨ a ∉ src

theorem nonEmptyNames_append (a b : List (MidRow α)) :
    nonEmptyNames (a ++ b) = nonEmptyNames a ++ nonEmptyNames b := by
  simp [nonEmptyNames]

theorem nonEmptyNames_snoc (out : List (MidRow α)) (r : MidRow α) :
    nonEmptyNames (out ++ [r]) = if r.name = "" then nonEmptyNames out else nonEmptyNames out ++ [r.name] := by
  rw [nonEmptyNames_append]
  by_cases h : r.name = ""
  · simp [nonEmptyNames, h]
  · simp [nonEmptyNames, h]

theorem forall₂_snoc {R : MidRow α → MidRow α → Prop} {l₁ l₂ : List (MidRow α)} {a b : MidRow α}
    (h : List.Forall₂ R l₁ l₂) (hab : R a b) : List.Forall₂ R (l₁ ++ [a]) (l₂ ++ [b]) :=
  List.rel_append h (List.Forall₂.cons hab List.Forall₂.nil)

theorem inv_step (src : List String) (pre : List (MidRow α)) (acc : List String × List (MidRow α))
    (r : MidRow α) (h : Inv src pre acc) : Inv src (pre ++ [r]) (step src acc r) := by
  obtain ⟨assigned, out⟩ := acc
  obtain ⟨hrel, hass, hnd, horig⟩ := h
  dsimp only at hrel hass hnd horig
  have hkeep : NameRel src r r := ⟨rfl, rfl, rfl, Or.inl rfl⟩
  unfold step
  dsimp only
  split
  · -- unnamed row
    rename_i hemp
    refine ⟨forall₂_snoc hrel hkeep, ?_, hnd, ?_⟩
    · rw [nonEmptyNames_snoc, if_pos (String.isEmpty_iff.mp hemp)]; exact hass
    · intro a ha
      rcases horig a ha with h | h
      · exact Or.inl (by simp only [List.map_append, List.mem_append]; exact Or.inl h)
      · exact Or.inr h
  · rename_i hemp
    have hne : r.name ≠ "" := fun h => hemp (String.isEmpty_iff.mpr h)
    split
    · -- first use of this name
      rename_i hnew
      simp only [Bool.not_eq_eq_eq_not, Bool.not_true, List.contains_eq_mem,
        decide_eq_false_iff_not] at hnew
      refine ⟨forall₂_snoc hrel hkeep, ?_, ?_, ?_⟩
      · rw [nonEmptyNames_snoc, if_neg hne, hass]
      · exact List.nodup_append.mpr ⟨hnd, by simp, by
          intro a ha b hb; simp only [List.mem_singleton] at hb; subst hb
          intro hab; subst hab; exact hnew ha⟩
      · intro a ha
        rcases List.mem_append.mp ha with ha | ha
        · rcases horig a ha with h | h
          · exact Or.inl (by simp only [List.map_append, List.mem_append]; exact Or.inl h)
          · exact Or.inr h
        · simp only [List.mem_singleton] at ha
          subst ha
          exact Or.inl (by simp)
    · -- a repeated name: search a free candidate
      obtain ⟨k, c, hfind, hck, hcsrc, hcass⟩ := findCand_spec src assigned r.name
      rw [hfind]
      dsimp only
      have hcne : c ≠ "" := by rw [hck]; exact cand_ne_empty hne k
      refine ⟨forall₂_snoc hrel ⟨rfl, rfl, rfl, Or.inr ⟨hne, hcsrc, k, hck⟩⟩, ?_, ?_, ?_⟩
      · rw [nonEmptyNames_snoc, if_neg (by exact hcne), hass]
      · exact List.nodup_append.mpr ⟨hnd, by simp, by
          intro a ha b hb; simp only [List.mem_singleton] at hb; subst hb
          intro hab; subst hab; exact hcass ha⟩
      · intro a ha
        rcases List.mem_append.mp ha with ha | ha
        · rcases horig a ha with h | h
          · exact Or.inl (by simp only [List.map_append, List.mem_append]; exact Or.inl h)
          · exact Or.inr h
        · simp only [List.mem_singleton] at ha
          subst ha
          exact Or.inr hcsrc

theorem inv_foldl (src : List String) (pre post : List (MidRow α)) (acc : List String × List (MidRow α))
    (h : Inv src pre acc) : Inv src (pre ++ post) (post.foldl (step src) acc) := by
  induction post generalizing pre acc with
  | nil => simpa using h
  | cons r post ih =>
    have := ih (pre ++ [r]) (step src acc r) (inv_step src pre acc r h)
    simpa using this

theorem inv_nil (src : List String) : Inv (α := α) src [] ([], []) :=
  ⟨List.Forall₂.nil, rfl, List.nodup_nil, by simp⟩

/-- the loop only appends to the output. -/
theorem step_out (src : List String) (acc : List String × List (MidRow α)) (r : MidRow α) :
    ∃ o, (step src acc r).2 = acc.2 ++ [o] := by
  obtain ⟨assigned, out⟩ := acc
  unfold step
  dsimp only
  split
  · exact ⟨_, rfl⟩
  · split
    · exact ⟨_, rfl⟩
    · split <;> exact ⟨_, rfl⟩

theorem foldl_out (src : List String) (post : List (MidRow α)) (acc : List String × List (MidRow α)) :
    ∃ x, (post.foldl (step src) acc).2 = acc.2 ++ x := by
  induction post generalizing acc with
  | nil => exact ⟨[], by simp⟩
  | cons r post ih =>
    obtain ⟨x, hx⟩ := ih (step src acc r)
    obtain ⟨o, ho⟩ := step_out src acc r
    exact ⟨o :: x, by simp [hx, ho]⟩

/-! ### the statements about `dedupNames` -/



/-- row by row: only the name may change, and a changed name is a fresh `name__k` nobody wrote. -/
theorem dedupNames_rel [Arith α] (rows : List (MidRow α)) :
    List.Forall₂ (NameRel (nonEmptyNames rows)) rows (dedupNames rows) := by
  rw [dedupNames_eq]
  simpa using (inv_foldl (nonEmptyNames rows) [] rows ([], []) (inv_nil _)).rel

/-- the non-empty output names are pairwise distinct. -/
theorem dedupNames_nodup [Arith α] (rows : List (MidRow α)) : (nonEmptyNames (dedupNames rows)).Nodup := by
  rw [dedupNames_eq]
  have h := inv_foldl (nonEmptyNames rows) [] rows ([], []) (inv_nil _)
  rw [← h.assigned_eq]
  exact h.nodup

theorem length_dedupNames [Arith α] (rows : List (MidRow α)) : (dedupNames rows).length = rows.length :=
  (dedupNames_rel rows).length_eq.symm

theorem mem_nonEmptyNames {rows : List (MidRow α)} {n : String} :
    n ∈ nonEmptyNames rows ↔ n ≠ "" ∧ ∃ r ∈ rows, r.name = n := by
  unfold nonEmptyNames
  simp only [List.mem_filterMap]
  constructor
  · rintro ⟨r, hr, h⟩
    split at h
    · cases h
    · rename_i hemp
      injection h with h
      exact ⟨fun hn => hemp (String.isEmpty_iff.mpr (h ▸ hn)), r, hr, h⟩
  · rintro ⟨hne, r, hr, rfl⟩
    refine ⟨r, hr, ?_⟩
    have : r.name.isEmpty = false := by rw [Bool.eq_false_iff, Ne, String.isEmpty_iff]; exact hne
    simp [this]

/-- the FIRST use of a user-written name is kept verbatim (the whole row is untouched). -/
theorem dedupNames_first_kept [Arith α] (pre post : List (MidRow α)) (r : MidRow α)
    (hne : r.name ≠ "") (hfirst : ∀ p ∈ pre, p.name ≠ r.name) :
    (dedupNames (pre ++ r :: post))[pre.length]? = some r := by
  rw [dedupNames_eq]
  generalize hsrc : nonEmptyNames (pre ++ r :: post) = src
  have hmem : r.name ∈ src := by
    rw [← hsrc]; exact mem_nonEmptyNames.mpr ⟨hne, r, by simp, rfl⟩
  rw [List.foldl_append, List.foldl_cons]
  have hinv := inv_foldl src [] pre ([], []) (inv_nil _)
  simp only [List.nil_append] at hinv
  generalize hacc : List.foldl (step src) ([], []) pre = acc at hinv
  obtain ⟨assigned, out⟩ := acc
  have hlen : out.length = pre.length := hinv.rel.length_eq.symm
  have hnot : r.name ∉ assigned := by
    intro hin
    rcases hinv.origin _ hin with h | h
    · obtain ⟨p, hp, hpn⟩ := List.mem_map.mp h
      exact hfirst p hp hpn
    · exact h hmem
  have hstep : step src (assigned, out) r = (assigned ++ [r.name], out ++ [r]) := by
    unfold step
    dsimp only
    have h1 : r.name.isEmpty = false := by rw [Bool.eq_false_iff, Ne, String.isEmpty_iff]; exact hne
    simp [h1, hnot]
  rw [hstep]
  obtain ⟨x, hx⟩ := foldl_out src post (assigned ++ [r.name], out ++ [r])
  rw [hx]
  dsimp only
  rw [List.append_assoc, List.getElem?_append_right (by omega)]
  simp [hlen]

end WFDedup
end Rooc
