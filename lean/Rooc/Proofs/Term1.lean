/-
Termination of the mixed Dantzig/Bland loop, part 1: a run of the loop (exact stall bookkeeping) over `n` columns
with stall limit `L` has at most `2^n·(L+2)` pivots.
-/
import Rooc.Proofs.SepLoop
import Mathlib.Data.Finset.Prod
namespace Rooc
namespace Term
variable {K : Type} [Field K] [LinearOrder K] [IsStrictOrderedRing K]
attribute [local instance] exactArith
open Tableau TabSem PivotLemmas StepLemmas BasicSol Bland

/-- a run of `N` pivots of the solver loop without preference list: step `p` uses Bland's rule iff the stall counter
`st p` exceeds the stall limit `L`; the counter is reset by a change of `value` and incremented otherwise (what
`float_eq(current_value, last_value)` decides when values are separated); tableaus feasible and separated. -/
structure LoopRun (tol : K) (m n L N : Nat) (c0 : List K) (T : Nat → Tab K) (h t : Nat → Nat) (ρ : Nat → K)
    (st : Nat → Nat) : Prop where
  canon0 : Canon (T 0) m n
  obj0 : ObjInv (T 0) c0
  st0 : st 0 = 0
  step : ∀ p, p < N → stepInner tol (T p) [] (decide (st p > L)) = .ok (.pivot (h p) (t p) (ρ p), T (p+1))
  stall : ∀ p, p < N → st (p+1) = if (T (p+1)).value = (T p).value then st p + 1 else 0
  sep : ∀ p, p ≤ N → Sep tol (T p)
  feas : ∀ p, p ≤ N → Feasible (T p)

section
variable {tol : K} {m n L N : Nat} {c0 : List K} {T : Nat → Tab K} {h t : Nat → Nat} {ρ : Nat → K} {st : Nat → Nat}

theorem lr_inv (R : LoopRun tol m n L N c0 T h t ρ st) : ∀ p, p ≤ N →
    Canon (T p) m n ∧ ObjInv (T p) c0 ∧ ∀ x, Sol (T p) x ↔ Sol (T 0) x
  | 0, _ => ⟨R.canon0, R.obj0, fun _ => Iff.rfl⟩
  | p+1, hp => by
    obtain ⟨hC, hO, hS⟩ := lr_inv R p (by omega)
    obtain ⟨hC', hS', hO', -⟩ := stepInner_preserves hC (R.step p (by omega))
    exact ⟨hC', hO' c0 hO, fun x => (hS' x).trans (hS x)⟩

theorem lr_mono1 (R : LoopRun tol m n L N c0 T h t ρ st) (p : Nat) (hp : p < N) : (T p).value ≤ (T (p+1)).value := by
  obtain ⟨hC, -, -⟩ := lr_inv R p (by omega)
  obtain ⟨-, -, -, hV⟩ := stepInner_preserves hC (R.step p hp)
  exact hV (R.feas p (by omega))

theorem lr_mono (R : LoopRun tol m n L N c0 T h t ρ st) {p q : Nat} (hpq : p ≤ q) (hq : q ≤ N) :
    (T p).value ≤ (T q).value :=
  mono_chain (fun p => (T p).value) N (fun p hp => lr_mono1 R p hp) p q hpq hq

/-- same basis set ⇒ same value. -/
theorem lr_value_of_basis (R : LoopRun tol m n L N c0 T h t ρ st) {p q : Nat} (hp : p ≤ N) (hq : q ≤ N)
    (hb : ∀ j, j ∈ (T p).basis ↔ j ∈ (T q).basis) : (T p).value = (T q).value := by
  obtain ⟨hCp, hOp, hSp⟩ := lr_inv R p hp
  obtain ⟨hCq, hOq, hSq⟩ := lr_inv R q hq
  exact value_eq_of_basis_subset hCq hCp (fun x => (hSp x).trans (hSq x).symm) hOq hOp (fun j hj => (hb j).2 hj)

/-- equal values at `p ≤ q` ⇒ every step in between stalled: the counter grew by `q − p`. -/
theorem lr_stall_grows (R : LoopRun tol m n L N c0 T h t ρ st) {p : Nat} :
    ∀ q, p ≤ q → q ≤ N → (T p).value = (T q).value → st q = st p + (q - p)
  | 0, hpq, _, _ => by
    have : p = 0 := by omega
    subst this; simp
  | q+1, hpq, hq, hv => by
    by_cases e : p = q + 1
    · subst e; simp
    · have hpq' : p ≤ q := by omega
      have h1 := lr_mono R hpq' (by omega : q ≤ N)
      have h2 := lr_mono1 R q (by omega)
      have hvq : (T p).value = (T q).value := le_antisymm h1 (by rw [hv]; exact h2)
      have ih := lr_stall_grows R q hpq' (by omega) hvq
      rw [R.stall q (by omega), if_pos (by rw [← hv, hvq]), ih]
      omega

/-- a stretch of the run on which the counter stays above the limit is a Bland run. -/
theorem lr_bland_segment (R : LoopRun tol m n L N c0 T h t ρ st) {a b : Nat} (hab : a ≤ b) (hb : b ≤ N)
    (hB : ∀ r, a ≤ r → r < b → st r > L) :
    BlandRun tol m n (b - a) c0 (fun p => T (a + p)) (fun p => h (a + p)) (fun p => t (a + p)) (fun p => ρ (a + p)) := by
  obtain ⟨hC, hO, -⟩ := lr_inv R a (by omega)
  refine ⟨hC, hO, ?_, fun p hp => R.sep (a + p) (by omega), fun p hp => R.feas (a + p) (by omega)⟩
  intro p hp
  have := R.step (a + p) (by omega)
  rw [decide_eq_true (hB (a + p) (by omega) (by omega))] at this
  simpa [Nat.add_assoc] using this

end
end Term
end Rooc
