/-
The lexer of the model (`Rooc/Syntax/Tok.lean`) reads back what the printers write: step lemmas, then
`lex (spell ts) = .ok ts` for single-spaced token texts (C09) and `lex (fmtExp t) = .ok (fmtToks t)`
for the expression printer (C11).
-/
import Rooc.Syntax.FormatToks
namespace Rooc.Syntax.Proofs
open Rooc Rooc.Syntax

/-! ### characters -/

theorem letter_ne {c d : Char} (hc : isLetter c = true) (hd : isLetter d = false) : c ≠ d := by
  intro h; subst h; rw [hc] at hd; cases hd
theorem digit_ne {c d : Char} (hc : isDigit c = true) (hd : isDigit d = false) : c ≠ d := by
  intro h; subst h; rw [hc] at hd; cases hd

theorem letter_not_digit {c : Char} (hc : isLetter c = true) : isDigit c = false := by
  simp only [isLetter, Bool.or_eq_true, Bool.and_eq_true, decide_eq_true_eq] at hc
  have h9 : ('9' : Char).val.toNat = 57 := by decide
  have ha : ('a' : Char).val.toNat = 97 := by decide
  have hA : ('A' : Char).val.toNat = 65 := by decide
  rcases hc with (⟨h1, _⟩ | ⟨h1, _⟩) | hx
  · simp only [isDigit, Bool.and_eq_false_iff, decide_eq_false_iff_not]
    right; intro h
    have := Char.le_def.mp h1; have := Char.le_def.mp h
    simp [UInt32.le_iff_toNat_le] at *; omega
  · simp only [isDigit, Bool.and_eq_false_iff, decide_eq_false_iff_not]
    right; intro h
    have := Char.le_def.mp h1; have := Char.le_def.mp h
    simp [UInt32.le_iff_toNat_le] at *; omega
  · simp only [extraLetters, List.contains_eq_mem, List.mem_cons, List.not_mem_nil, or_false, decide_eq_true_eq] at hx
    rcases hx with rfl | rfl | rfl | rfl | rfl | rfl | rfl | rfl | rfl | rfl | rfl <;> decide

/-! ### `spanWhile` -/

theorem spanWhile_all {p : Char → Bool} {xs rest : List Char} (hx : ∀ c ∈ xs, p c = true)
    (hr : ∀ c tl, rest = c :: tl → p c = false) : spanWhile p (xs ++ rest) = (xs, rest) := by
  induction xs with
  | nil =>
    cases rest with
    | nil => simp [spanWhile]
    | cons c tl => simp [spanWhile, hr c tl rfl]
  | cons x xs ih =>
    have := ih (fun c hc => hx c (List.mem_cons_of_mem _ hc))
    simp [spanWhile, hx x (List.mem_cons_self), this]

/-! ### one step of the lexer -/

theorem lex_space (f : Nat) (r : List Char) (pw : Bool) (acc : List Tok) :
    lexAux (f+1) (' ' :: r) pw acc = lexAux f r pw acc := by simp [lexAux]
theorem lex_lpar (f : Nat) (r : List Char) (pw : Bool) (acc : List Tok) :
    lexAux (f+1) ('(' :: r) pw acc = lexAux f r false (.lpar :: acc) := by simp [lexAux]
theorem lex_rpar (f : Nat) (r : List Char) (pw : Bool) (acc : List Tok) :
    lexAux (f+1) (')' :: r) pw acc = lexAux f r false (.rpar :: acc) := by simp [lexAux]
theorem lex_comma (f : Nat) (r : List Char) (pw : Bool) (acc : List Tok) :
    lexAux (f+1) (',' :: r) pw acc = lexAux f r false (.comma :: acc) := by simp [lexAux]
theorem lex_plus (f : Nat) (r : List Char) (pw : Bool) (acc : List Tok) :
    lexAux (f+1) ('+' :: r) pw acc = lexAux f r false (.plus :: acc) := by simp [lexAux]
theorem lex_star (f : Nat) (r : List Char) (pw : Bool) (acc : List Tok) :
    lexAux (f+1) ('*' :: r) pw acc = lexAux f r false (.star :: acc) := by simp [lexAux]
theorem lex_minus (f : Nat) (r : List Char) (pw : Bool) (acc : List Tok) (h : ∀ tl, r ≠ '>' :: tl) :
    lexAux (f+1) ('-' :: r) pw acc = lexAux f r false (.minus :: acc) := by
  cases r with
  | nil => simp [lexAux]
  | cons c tl =>
    have : c ≠ '>' := fun e => h tl (by rw [e])
    simp [lexAux, this]
theorem lex_slash_space (f : Nat) (r : List Char) (pw : Bool) (acc : List Tok) :
    lexAux (f+1) ('/' :: ' ' :: r) pw acc = lexAux f (' ' :: r) false (.slash :: acc) := by simp [lexAux]

/-- what ends a word or a number: nothing, a space, `(`, `)` or `,` -/
def Delim (rest : List Char) : Prop :=
  rest = [] ∨ ∃ c tl, rest = c :: tl ∧ (c = ' ' ∨ c = '(' ∨ c = ')' ∨ c = ',')

theorem delim_not_word {rest : List Char} (h : Delim rest) : ∀ c tl, rest = c :: tl → isWordChar c = false := by
  intro c tl e
  rcases h with h | ⟨c', tl', h, hc⟩
  · rw [h] at e; cases e
  · rw [h] at e; injection e with e1 _; subst e1
    rcases hc with rfl | rfl | rfl | rfl <;> decide
theorem delim_not_digit {rest : List Char} (h : Delim rest) : ∀ c tl, rest = c :: tl → isDigit c = false := by
  intro c tl e
  rcases h with h | ⟨c', tl', h, hc⟩
  · rw [h] at e; cases e
  · rw [h] at e; injection e with e1 _; subst e1
    rcases hc with rfl | rfl | rfl | rfl <;> decide

/-- plain identifier / keyword: a letter followed by letters and digits -/
def plainWord (cs : List Char) : Bool :=
  match cs with
  | c :: rest => isLetter c && rest.all (fun d => isLetter d || isDigit d)
  | [] => false

theorem dotTDot_false (l : List Char) (h : ∀ c tl, l = c :: tl → c ≠ '.') : dotTDot l = false := by
  unfold dotTDot
  split
  · rename_i t tail
    exact absurd rfl (h '.' _ rfl)
  · rfl

theorem delim_not_dot {rest : List Char} (h : Delim rest) : ∀ c tl, rest = c :: tl → c ≠ '.' := by
  intro c tl e
  rcases h with h | ⟨c', tl', h, hc⟩
  · rw [h] at e; cases e
  · rw [h] at e; injection e with e1 _; subst e1
    rcases hc with rfl | rfl | rfl | rfl <;> decide

theorem lex_word (f : Nat) (cs rest : List Char) (pw : Bool) (acc : List Tok) (hw : plainWord cs = true)
    (hd : Delim rest) : lexAux (f+1) (cs ++ rest) pw acc = lexAux f rest true (.word (String.ofList cs) :: acc) := by
  cases cs with
  | nil => simp [plainWord] at hw
  | cons c tl =>
    simp only [plainWord, Bool.and_eq_true, List.all_eq_true, Bool.or_eq_true] at hw
    obtain ⟨hc, htl⟩ := hw
    have hall : ∀ d ∈ c :: tl, isWordChar d = true := by
      intro d hd'
      rcases List.mem_cons.mp hd' with rfl | hd'
      · simp [isWordChar, hc]
      · rcases htl d hd' with h | h <;> simp [isWordChar, h]
    have hspan : spanWhile isWordChar (c :: (tl ++ rest)) = (c :: tl, rest) := by
      have := spanWhile_all (p := isWordChar) (xs := c :: tl) (rest := rest) hall (delim_not_word hd)
      simpa using this
    have hsimple : isSimpleRun (c :: tl) = true := by
      have hcu : (c == '_') = false := by
        have : c ≠ '_' := letter_ne hc (by decide)
        simpa using this
      simp only [isSimpleRun, spanWhile, hcu]
      simp [hc]
      intro d hd'
      rcases htl d hd' with h | h <;> simp [h]
    have h1 : c ≠ ' ' := letter_ne hc (by decide)
    have h2 : c ≠ '\t' := letter_ne hc (by decide)
    have h3 : c ≠ '/' := letter_ne hc (by decide)
    have h4 : c ≠ '(' := letter_ne hc (by decide)
    have h5 : c ≠ ')' := letter_ne hc (by decide)
    have h6 : c ≠ ',' := letter_ne hc (by decide)
    have h7 : c ≠ '+' := letter_ne hc (by decide)
    have h8 : c ≠ '*' := letter_ne hc (by decide)
    have h9 : c ≠ '!' := letter_ne hc (by decide)
    have h10 : c ≠ '-' := letter_ne hc (by decide)
    have h11 : c ≠ '<' := letter_ne hc (by decide)
    have h12 : c ≠ '&' := letter_ne hc (by decide)
    have h13 : c ≠ '|' := letter_ne hc (by decide)
    have h14 : c ≠ '$' := letter_ne hc (by decide)
    have h15 : c ≠ '_' := letter_ne hc (by decide)
    have h16 : c ≠ '\n' := letter_ne hc (by decide)
    have h17 : c ≠ '\r' := letter_ne hc (by decide)
    have h18 : c ≠ ':' := letter_ne hc (by decide)
    have h19 : c ≠ '=' := letter_ne hc (by decide)
    have h20 : c ≠ '>' := letter_ne hc (by decide)
    have hst : dotTDot (tl ++ rest) = false := by
      apply dotTDot_false
      intro d tl' e
      cases tl with
      | nil => exact delim_not_dot hd d tl' (by simpa using e)
      | cons x xs =>
        simp at e
        rcases htl x List.mem_cons_self with h | h
        · rw [← e.1]; exact letter_ne h (by decide)
        · rw [← e.1]; exact digit_ne h (by decide)
    simp [lexAux, h1, h2, h3, h4, h5, h6, h7, h8, h9, h10, h11, h12, h13, h14, h15, h16, h17, h18, h19, h20, hst,
      letter_not_digit hc, hc, hspan, hsimple]

theorem digit_specials {c : Char} (hc : isDigit c = true) :
    c ≠ ' ' ∧ c ≠ '\t' ∧ c ≠ '/' ∧ c ≠ '(' ∧ c ≠ ')' ∧ c ≠ ',' ∧ c ≠ '+' ∧ c ≠ '*' ∧ c ≠ '!' ∧ c ≠ '-' ∧ c ≠ '<'
      ∧ c ≠ '&' ∧ c ≠ '|' ∧ c ≠ '\n' ∧ c ≠ '\r' ∧ c ≠ ':' ∧ c ≠ '=' ∧ c ≠ '>' ∧ c ≠ 's' ∧ c ≠ 'S' :=
  ⟨digit_ne hc (by decide), digit_ne hc (by decide), digit_ne hc (by decide), digit_ne hc (by decide),
   digit_ne hc (by decide), digit_ne hc (by decide), digit_ne hc (by decide), digit_ne hc (by decide),
   digit_ne hc (by decide), digit_ne hc (by decide), digit_ne hc (by decide), digit_ne hc (by decide),
   digit_ne hc (by decide), digit_ne hc (by decide), digit_ne hc (by decide), digit_ne hc (by decide),
   digit_ne hc (by decide), digit_ne hc (by decide), digit_ne hc (by decide), digit_ne hc (by decide)⟩

theorem lex_int (f : Nat) (ds rest : List Char) (pw : Bool) (acc : List Tok) (hne : ds ≠ [])
    (hds : ∀ d ∈ ds, isDigit d = true) (hd : Delim rest) :
    lexAux (f+1) (ds ++ rest) pw acc = lexAux f rest false (.int (String.ofList ds) :: acc) := by
  cases ds with
  | nil => exact absurd rfl hne
  | cons c tl =>
    have hc := hds c (List.mem_cons_self)
    obtain ⟨h1, h2, h3, h4, h5, h6, h7, h8, h9, h10, h11, h12, h13, h14, h15, h16, h17, h18, h19, h20⟩ := digit_specials hc
    have hspan : spanWhile isDigit (c :: (tl ++ rest)) = (c :: tl, rest) := by
      have := spanWhile_all (p := isDigit) (xs := c :: tl) (rest := rest) hds (delim_not_digit hd)
      simpa using this
    rcases hd with hd | ⟨c', tl', hd, hc'⟩
    · subst hd
      simp [lexAux, h1, h2, h3, h4, h5, h6, h7, h8, h9, h10, h11, h12, h13, h14, h15, h16, h17, h18, h19, h20, hc, hspan]
      simp at hspan
      simp [hspan]
    · subst hd
      have hdot : c' ≠ '.' := by rcases hc' with rfl | rfl | rfl | rfl <;> decide
      simp [lexAux, h1, h2, h3, h4, h5, h6, h7, h8, h9, h10, h11, h12, h13, h14, h15, h16, h17, h18, h19, h20, hc, hspan]
      split
      · rename_i heq; injection heq with heq _; exact absurd heq hdot
      · rename_i heq; injection heq with heq _; exact absurd heq hdot
      · rfl

theorem lex_float (f : Nat) (ds fs rest : List Char) (pw : Bool) (acc : List Tok) (hne : ds ≠ []) (hnf : fs ≠ [])
    (hds : ∀ d ∈ ds, isDigit d = true) (hfs : ∀ d ∈ fs, isDigit d = true) (hd : Delim rest) :
    lexAux (f+1) (ds ++ '.' :: (fs ++ rest)) pw acc = lexAux f rest false (.float (String.ofList (ds ++ '.' :: fs)) :: acc) := by
  cases ds with
  | nil => exact absurd rfl hne
  | cons c tl =>
    cases fs with
    | nil => exact absurd rfl hnf
    | cons e fl =>
      have hc := hds c (List.mem_cons_self)
      have he := hfs e (List.mem_cons_self)
      obtain ⟨h1, h2, h3, h4, h5, h6, h7, h8, h9, h10, h11, h12, h13, h14, h15, h16, h17, h18, h19, h20⟩ := digit_specials hc
      have hspan : spanWhile isDigit (c :: (tl ++ '.' :: e :: (fl ++ rest))) = (c :: tl, '.' :: e :: (fl ++ rest)) := by
        have := spanWhile_all (p := isDigit) (xs := c :: tl) (rest := '.' :: e :: (fl ++ rest)) hds
          (by intro c' tl' h; injection h with h _; subst h; decide)
        simpa using this
      have hspan2 : spanWhile isDigit (e :: (fl ++ rest)) = (e :: fl, rest) := by
        have := spanWhile_all (p := isDigit) (xs := e :: fl) (rest := rest) hfs (delim_not_digit hd)
        simpa using this
      simp [lexAux, h1, h2, h3, h4, h5, h6, h7, h8, h9, h10, h11, h12, h13, h14, h15, h16, h17, h18, h19, h20, hc, he, hspan, hspan2]

/-! ### composing steps: `LexTo cs pw acc rest acc'` — lexing `cs` from the state `(pw, acc)` arrives at the
text `rest` with the tokens `acc'` (whatever the fuel, as long as it exceeds the length of the text) -/

def LexTo (cs : List Char) (pw : Bool) (acc : List Tok) (rest : List Char) (acc' : List Tok) : Prop :=
  ∀ res, (∀ g pw', rest.length < g → lexAux g rest pw' acc' = res) → ∀ f, cs.length < f → lexAux f cs pw acc = res

theorem LexTo.refl (cs : List Char) (pw : Bool) (acc : List Tok) : LexTo cs pw acc cs acc :=
  fun _ hc f hf => hc f pw hf

theorem LexTo.trans {cs mid rest : List Char} {pw : Bool} {acc acc1 acc2 : List Tok}
    (h1 : LexTo cs pw acc mid acc1) (h2 : ∀ pw1, LexTo mid pw1 acc1 rest acc2) : LexTo cs pw acc rest acc2 :=
  fun res hc f hf => h1 res (fun g pw' hg => h2 pw' res hc g hg) f hf

theorem LexTo.of_step {cs rest : List Char} {pw pw' : Bool} {acc acc' : List Tok}
    (h : ∀ f, lexAux (f+1) cs pw acc = lexAux f rest pw' acc') (hlen : rest.length < cs.length) :
    LexTo cs pw acc rest acc' := by
  intro res hc f hf
  obtain ⟨f', rfl⟩ : ∃ f', f = f' + 1 := ⟨f - 1, by omega⟩
  rw [h f']
  exact hc f' pw' (by omega)

/-- reaching the end of the text -/
theorem lex_of_lexTo {cs : List Char} {toks : List Tok} (h : LexTo cs false [] [] toks) : lex cs = .ok toks.reverse := by
  apply h (.ok toks.reverse) _ (cs.length + 1) (by omega)
  intro g pw' hg
  obtain ⟨g', rfl⟩ : ∃ g', g = g' + 1 := ⟨g - 1, by omega⟩
  simp [lexAux]

theorem lexTo_space (r : List Char) (pw : Bool) (acc : List Tok) : LexTo (' ' :: r) pw acc r acc :=
  LexTo.of_step (fun f => lex_space f r pw acc) (by simp)
theorem lexTo_lpar (r : List Char) (pw : Bool) (acc : List Tok) : LexTo ('(' :: r) pw acc r (.lpar :: acc) :=
  LexTo.of_step (fun f => lex_lpar f r pw acc) (by simp)
theorem lexTo_rpar (r : List Char) (pw : Bool) (acc : List Tok) : LexTo (')' :: r) pw acc r (.rpar :: acc) :=
  LexTo.of_step (fun f => lex_rpar f r pw acc) (by simp)
theorem lexTo_comma (r : List Char) (pw : Bool) (acc : List Tok) : LexTo (',' :: r) pw acc r (.comma :: acc) :=
  LexTo.of_step (fun f => lex_comma f r pw acc) (by simp)
theorem lexTo_plus (r : List Char) (pw : Bool) (acc : List Tok) : LexTo ('+' :: r) pw acc r (.plus :: acc) :=
  LexTo.of_step (fun f => lex_plus f r pw acc) (by simp)
theorem lexTo_star (r : List Char) (pw : Bool) (acc : List Tok) : LexTo ('*' :: r) pw acc r (.star :: acc) :=
  LexTo.of_step (fun f => lex_star f r pw acc) (by simp)
theorem lexTo_minus (r : List Char) (pw : Bool) (acc : List Tok) (h : ∀ tl, r ≠ '>' :: tl) :
    LexTo ('-' :: r) pw acc r (.minus :: acc) :=
  LexTo.of_step (fun f => lex_minus f r pw acc h) (by simp)
theorem lexTo_slash (r : List Char) (pw : Bool) (acc : List Tok) :
    LexTo ('/' :: ' ' :: r) pw acc (' ' :: r) (.slash :: acc) :=
  LexTo.of_step (fun f => lex_slash_space f r pw acc) (by simp)
theorem lexTo_word (cs rest : List Char) (pw : Bool) (acc : List Tok) (hw : plainWord cs = true) (hd : Delim rest) :
    LexTo (cs ++ rest) pw acc rest (.word (String.ofList cs) :: acc) :=
  LexTo.of_step (fun f => lex_word f cs rest pw acc hw hd) (by
    cases cs with
    | nil => simp [plainWord] at hw
    | cons c tl => simp; omega)
theorem lexTo_int (ds rest : List Char) (pw : Bool) (acc : List Tok) (hne : ds ≠ [])
    (hds : ∀ d ∈ ds, isDigit d = true) (hd : Delim rest) :
    LexTo (ds ++ rest) pw acc rest (.int (String.ofList ds) :: acc) :=
  LexTo.of_step (fun f => lex_int f ds rest pw acc hne hds hd) (by
    cases ds with
    | nil => exact absurd rfl hne
    | cons c tl => simp; omega)
theorem lexTo_float (ds fs rest : List Char) (pw : Bool) (acc : List Tok) (hne : ds ≠ []) (hnf : fs ≠ [])
    (hds : ∀ d ∈ ds, isDigit d = true) (hfs : ∀ d ∈ fs, isDigit d = true) (hd : Delim rest) :
    LexTo (ds ++ '.' :: (fs ++ rest)) pw acc rest (.float (String.ofList (ds ++ '.' :: fs)) :: acc) :=
  LexTo.of_step (fun f => lex_float f ds fs rest pw acc hne hnf hds hfs hd) (by simp; omega)

end Rooc.Syntax.Proofs
