/-
C17 helper lemmas, part 1: the character-level lexer of the independent LP reader on text that is
made of words separated by blanks/newlines.
-/
import Rooc.LpFormat
import Rooc.LpWF
namespace Rooc.Lp
open Rooc

/-- blank or newline (the only white space the writer produces) -/
def IsSep (c : Char) : Prop := c = ' ' ∨ c = '\n'

def NoBackslash (w : List Char) : Prop := ∀ c ∈ w, c ≠ '\\'
instance (w : List Char) : Decidable (NoBackslash w) := by unfold NoBackslash; infer_instance

theorem stepIdle_not_comment {c : Char} {ts : List Tok} {st : LSt} (hc : c ≠ '\\')
    (h : stepIdle c = some (ts, st)) : st ≠ .comment := by
  intro hst; subst hst
  unfold stepIdle at h
  repeat' split at h
  all_goals simp_all

theorem emitThen_not_comment {t : Tok} {c : Char} {ts : List Tok} {st : LSt} (hc : c ≠ '\\')
    (h : emitThen t c = some (ts, st)) : st ≠ .comment := by
  unfold emitThen at h
  split at h
  · cases h
  · rename_i ts' st' hs
    cases h
    exact stepIdle_not_comment hc hs

theorem step_not_comment {st : LSt} {c : Char} {ts : List Tok} {st' : LSt} (h0 : st ≠ .comment)
    (hc : c ≠ '\\') (h : step st c = some (ts, st')) : st' ≠ .comment := by
  cases st <;> simp only [step] at h
  case idle => exact stepIdle_not_comment hc h
  case comment => exact absurd rfl h0
  all_goals
    repeat' split at h
    all_goals first
      | exact emitThen_not_comment hc h
      | (intro hst; subst hst; simp_all; done)

/-- a separator flushes the word being read -/
theorem step_sep_flush {st : LSt} {c : Char} (hc : IsSep c) (h0 : st ≠ .comment) {ts : List Tok}
    (hf : finish st = some ts) : step st c = some (ts, .idle) := by
  rcases hc with rfl | rfl <;> cases st <;> simp [finish] at hf <;> subst_vars <;>
    first
    | exact absurd rfl h0
    | (simp [step, stepIdle, emitThen, isWs, isNumChar, isDig, isNameChar, isNameStart, isLetter, isNameSym]; try decide)

theorem lexGo_append_sep : ∀ (w : List Char) (st : LSt) (ts : List Tok) (c : Char) (rest : List Char),
    NoBackslash w → st ≠ .comment → lexGo w st = some ts → IsSep c →
    lexGo (w ++ c :: rest) st = (lexGo rest .idle).map (ts ++ ·) := by
  intro w
  induction w with
  | nil =>
    intro st ts c rest _ h0 h hc
    simp only [lexGo] at h
    simp only [List.nil_append, lexGo, step_sep_flush hc h0 h]
    cases lexGo rest .idle <;> rfl
  | cons x w ih =>
    intro st ts c rest hb h0 h hc
    simp only [lexGo] at h
    simp only [List.cons_append, lexGo]
    cases hs : step st x with
    | none => simp [hs] at h
    | some p =>
      obtain ⟨t1, st'⟩ := p
      simp only [hs] at h ⊢
      cases hl : lexGo w st' with
      | none => simp [hl] at h
      | some ts' =>
        simp only [hl, Option.some.injEq] at h
        subst h
        have hx : x ≠ '\\' := hb x (by simp)
        have := ih st' ts' c rest (fun c hc' => hb c (by simp [hc'])) (step_not_comment h0 hx hs) hl hc
        rw [this]
        cases lexGo rest .idle <;> simp

/-! ### character classes -/

theorem char_le_iff (a b : Char) : a ≤ b ↔ a.toNat ≤ b.toNat := by
  rw [Char.le_def, UInt32.le_iff_toNat_le]; rfl

theorem letter_not_dig {c : Char} (h : isLetter c = true) : isDig c = false := by
  have e1 : ('a' : Char).toNat = 97 := by decide
  have e2 : ('z' : Char).toNat = 122 := by decide
  have e3 : ('A' : Char).toNat = 65 := by decide
  have e4 : ('Z' : Char).toNat = 90 := by decide
  have e5 : ('0' : Char).toNat = 48 := by decide
  have e6 : ('9' : Char).toNat = 57 := by decide
  simp only [isLetter, isDig, Bool.or_eq_true, Bool.and_eq_true, decide_eq_true_eq, char_le_iff,
    Bool.and_eq_false_imp, decide_eq_false_iff_not] at h ⊢
  omega

theorem nameSym_mem {c : Char} (h : isNameSym c = true) :
    c ∈ ['!', '"', '#', '$', '%', '&', '(', ')', ',', ';', '?', '@', '_', '\'', '`', '{', '}', '~', '[', ']', '/', '|'] := by
  simp only [isNameSym, Bool.or_eq_true, beq_iff_eq] at h
  simp only [List.mem_cons, List.not_mem_nil, or_false]
  simpa only [or_assoc] using h

theorem nameStart_not_ws {c : Char} (h : isNameStart c = true) : isWs c = false := by
  cases hw : isWs c with
  | false => rfl
  | true =>
    simp only [isWs, Bool.or_eq_true, beq_iff_eq] at hw
    rcases hw with ((rfl | rfl) | rfl) | rfl <;> revert h <;> decide

theorem nameStart_not_numChar {c : Char} (h : isNameStart c = true) : isNumChar c = false := by
  simp only [isNameStart, Bool.or_eq_true] at h
  rcases h with h | h
  · simp only [isNumChar, Bool.or_eq_false_iff, letter_not_dig h, true_and]
    cases hd : (c == '.') with
    | false => rfl
    | true => simp only [beq_iff_eq] at hd; subst hd; revert h; decide
  · have := nameSym_mem h
    simp only [List.mem_cons, List.not_mem_nil, or_false] at this
    rcases this with rfl|rfl|rfl|rfl|rfl|rfl|rfl|rfl|rfl|rfl|rfl|rfl|rfl|rfl|rfl|rfl|rfl|rfl|rfl|rfl|rfl|rfl <;> decide

theorem dig_not_ws {c : Char} (h : isDig c = true) : isWs c = false := by
  cases hw : isWs c with
  | false => rfl
  | true =>
    simp only [isWs, Bool.or_eq_true, beq_iff_eq] at hw
    rcases hw with ((rfl | rfl) | rfl) | rfl <;> revert h <;> decide

theorem dig_numChar {c : Char} (h : isDig c = true) : isNumChar c = true := by simp [isNumChar, h]

theorem nameChar_ne_backslash {c : Char} (h : isNameChar c = true) : c ≠ '\\' := by
  rintro rfl; revert h; decide
theorem numChar_ne_backslash {c : Char} (h : isNumChar c = true) : c ≠ '\\' := by
  rintro rfl; revert h; decide
theorem nameStart_nameChar {c : Char} (h : isNameStart c = true) : isNameChar c = true := by
  simp [isNameChar, h]

/-! ### words -/

theorem lexGo_name_acc (cs acc : List Char) (h : cs.all isNameChar = true) :
    lexGo cs (.name acc) = some [.name (acc.reverse ++ cs)] := by
  induction cs generalizing acc with
  | nil => simp [lexGo, finish]
  | cons c cs ih =>
    simp only [List.all_cons, Bool.and_eq_true] at h
    simp only [lexGo, step, h.1, if_true]
    rw [ih (c :: acc) h.2]
    simp

theorem lexGo_num_acc (cs acc : List Char) (h : cs.all isNumChar = true) :
    lexGo cs (.num acc) = some [.num (acc.reverse ++ cs)] := by
  induction cs generalizing acc with
  | nil => simp [lexGo, finish]
  | cons c cs ih =>
    simp only [List.all_cons, Bool.and_eq_true] at h
    simp only [lexGo, step, h.1, if_true]
    rw [ih (c :: acc) h.2]
    simp

theorem lexGo_name_colon_acc (cs acc : List Char) (h : cs.all isNameChar = true) :
    lexGo (cs ++ [':']) (.name acc) = some [.name (acc.reverse ++ cs), .colon] := by
  induction cs generalizing acc with
  | nil =>
    have : isNameChar ':' = false := by decide
    simp [lexGo, step, this, emitThen, stepIdle, finish, isWs, isNumChar, isDig, isNameStart, isLetter, isNameSym]
  | cons c cs ih =>
    simp only [List.all_cons, Bool.and_eq_true] at h
    simp only [List.cons_append, lexGo, step, h.1, if_true]
    rw [ih (c :: acc) h.2]
    simp

/-- `w` is free of comment characters and the lexer reads it, on its own, as `ts` -/
def Lx (w : List Char) (ts : List Tok) : Prop := NoBackslash w ∧ lexGo w .idle = some ts

theorem Lx.nil : Lx [] [] := ⟨fun _ h => by simp at h, rfl⟩

theorem Lx.join {w1 w2 : List Char} {t1 t2 : List Tok} {c : Char} (h1 : Lx w1 t1) (hc : IsSep c)
    (h2 : Lx w2 t2) : Lx (w1 ++ c :: w2) (t1 ++ t2) := by
  refine ⟨?_, ?_⟩
  · intro x hx
    simp only [List.mem_append, List.mem_cons] at hx
    rcases hx with hx | rfl | hx
    · exact h1.1 x hx
    · rcases hc with rfl | rfl <;> decide
    · exact h2.1 x hx
  · rw [lexGo_append_sep w1 .idle t1 c w2 h1.1 (by intro h; cases h) h1.2 hc, h2.2]; rfl

theorem Lx.sepLeft {w : List Char} {t : List Tok} {c : Char} (hc : IsSep c) (h : Lx w t) : Lx (c :: w) t := by
  simpa using Lx.join Lx.nil hc h

theorem Lx.sepRight {w : List Char} {t : List Tok} {c : Char} (h : Lx w t) (hc : IsSep c) : Lx (w ++ [c]) t := by
  simpa using Lx.join h hc Lx.nil

theorem nameWord_noBackslash {w : List Char} (h : nameWord w = true) : NoBackslash w := by
  cases w with
  | nil => simp [nameWord] at h
  | cons c cs =>
    simp only [nameWord, Bool.and_eq_true, List.all_eq_true] at h
    intro x hx
    rcases List.mem_cons.mp hx with rfl | hx
    · exact nameChar_ne_backslash (nameStart_nameChar h.1)
    · exact nameChar_ne_backslash (h.2 x hx)

theorem numWord_noBackslash {w : List Char} (h : numWord w = true) : NoBackslash w := by
  cases w with
  | nil => simp [numWord] at h
  | cons c cs =>
    simp only [numWord, Bool.and_eq_true, List.all_eq_true] at h
    intro x hx
    rcases List.mem_cons.mp hx with rfl | hx
    · exact numChar_ne_backslash (dig_numChar h.1)
    · exact numChar_ne_backslash (h.2 x hx)

theorem Lx.name {w : List Char} (h : nameWord w = true) : Lx w [.name w] := by
  refine ⟨nameWord_noBackslash h, ?_⟩
  cases w with
  | nil => simp [nameWord] at h
  | cons c cs =>
    simp only [nameWord, Bool.and_eq_true] at h
    simp only [lexGo, step, stepIdle, nameStart_not_ws h.1, nameStart_not_numChar h.1, h.1, if_true,
      Bool.false_eq_true, if_false]
    rw [lexGo_name_acc cs [c] h.2]; simp

theorem Lx.num {w : List Char} (h : numWord w = true) : Lx w [.num w] := by
  refine ⟨numWord_noBackslash h, ?_⟩
  cases w with
  | nil => simp [numWord] at h
  | cons c cs =>
    simp only [numWord, Bool.and_eq_true] at h
    simp only [lexGo, step, stepIdle, dig_not_ws h.1, dig_numChar h.1, if_true, Bool.false_eq_true, if_false]
    rw [lexGo_num_acc cs [c] h.2]; simp

theorem Lx.nameColon {w : List Char} (h : nameWord w = true) : Lx (w ++ [':']) [.name w, .colon] := by
  refine ⟨?_, ?_⟩
  · intro x hx
    simp only [List.mem_append, List.mem_singleton] at hx
    rcases hx with hx | rfl
    · exact nameWord_noBackslash h x hx
    · decide
  · cases w with
    | nil => simp [nameWord] at h
    | cons c cs =>
      simp only [nameWord, Bool.and_eq_true] at h
      simp only [List.cons_append, lexGo, step, stepIdle, nameStart_not_ws h.1, nameStart_not_numChar h.1, h.1,
        if_true, Bool.false_eq_true, if_false]
      rw [lexGo_name_colon_acc cs [c] h.2]; simp

theorem Lx.minusNum {w : List Char} (h : numWord w = true) : Lx ('-' :: w) [.minus, .num w] := by
  refine ⟨?_, ?_⟩
  · intro x hx
    rcases List.mem_cons.mp hx with rfl | hx
    · decide
    · exact numWord_noBackslash h x hx
  · have := (Lx.num h).2
    simp [lexGo, step, stepIdle, isWs, isNumChar, isDig, isNameStart, isLetter, isNameSym, this]

end Rooc.Lp
