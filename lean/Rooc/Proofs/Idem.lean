/-
Idempotence of the (unrepaired) expression printer: the text it prints for ANY tree is the text it
prints for the tree that text parses to.  `norm t` re-associates `t` exactly where the printer drops
needed parentheses; it prints the same tokens and satisfies the hypothesis of `parse_format_partial`.
-/
import Rooc.Proofs.Format
namespace Rooc.Syntax.Proofs
open Rooc Rooc.Syntax Rooc.Syntax.Doc

/-- the printer leaves operand bare although the grammar needs parentheses -/
def dropL (p : BinOp) (l : PExp) : Bool := needParenLeft p l && !(printsParen (Gen.binPrec p) l)
def dropR (p : BinOp) (r : PExp) : Bool := needParenRight p r && !(printsParen (Gen.binPrec p) r)

/-- the tree that `L p R`, printed without the dropped parentheses, is read as (`L`, `R` already normal) -/
def join (p : BinOp) (L R : PExp) : PExp :=
  if dropL p L then
    match L with
    | .bin c l1 l2 => .bin c l1 (join p l2 R)
    | _ => .bin p L R
  else if dropR p R then
    match R with
    | .bin c r1 r2 => join c (join p L r1) r2
    | _ => .bin p L R
  else .bin p L R
termination_by (sizeOf R, sizeOf L)
decreasing_by
  all_goals simp_wf
  · right; omega
  · left; omega
  · left; omega

def topPrecO : PExp → Option Nat
  | .bin o _ _ => some (Gen.binPrec o)
  | _ => none

theorem printsParen_eq (q : Nat) (e : PExp) :
    printsParen q e = (match topPrecO e with | some k => decide (k < q) | none => false) := by
  cases e <;> simp [printsParen, topPrecO]

theorem dropL_bin {p c : BinOp} {a b : PExp} (h : dropL p (.bin c a b) = true) :
    c = .implies ∧ Gen.binPrec c = Gen.binPrec p := by
  simp only [dropL, needParenLeft, printsParen, Bool.and_eq_true, Bool.not_eq_true', decide_eq_true_eq,
    decide_eq_false_iff_not] at h
  revert h; cases p <;> cases c <;> decide

theorem dropR_bin {p c : BinOp} {a b : PExp} (h : dropR p (.bin c a b) = true) :
    Gen.binPrec c = Gen.binPrec p := by
  simp only [dropR, needParenRight, printsParen, Bool.and_eq_true, Bool.not_eq_true', decide_eq_true_eq,
    decide_eq_false_iff_not] at h
  revert h; cases p <;> cases c <;> decide

theorem dropL_nonbin {p : BinOp} {L : PExp} (h : ∀ c a b, L = .bin c a b → False) : dropL p L = false := by
  cases L <;> first | exact absurd rfl (fun e => h _ _ _ e) | simp [dropL, needParenLeft]
theorem dropR_nonbin {p : BinOp} {R : PExp} (h : ∀ c a b, R = .bin c a b → False) : dropR p R = false := by
  cases R <;> first | exact absurd rfl (fun e => h _ _ _ e) | simp [dropR, needParenRight]

theorem join_L {p c : BinOp} {l1 l2 R : PExp} (h : dropL p (.bin c l1 l2) = true) :
    join p (.bin c l1 l2) R = .bin c l1 (join p l2 R) := by
  rw [join.eq_def]; simp only [h, ↓reduceIte]
theorem join_R {p c : BinOp} {L r1 r2 : PExp} (hl : ¬ dropL p L = true) (h : dropR p (.bin c r1 r2) = true) :
    join p L (.bin c r1 r2) = join c (join p L r1) r2 := by
  rw [join.eq_def]; simp [hl, h]
theorem join_base {p : BinOp} {L R : PExp} (hl : ¬ dropL p L = true) (hr : ¬ dropR p R = true) :
    join p L R = .bin p L R := by
  rw [join.eq_def]; simp [hl, hr]

/-- the top operator of `join p L R` has the precedence of `p` -/
theorem join_top (p : BinOp) (L R : PExp) : topPrecO (join p L R) = some (Gen.binPrec p) := by
  fun_induction join p L R with
  | case1 p R c l1 l2 h ih => simp [topPrecO, (dropL_bin h).2]
  | case2 p L R h hn => exact absurd h (by simp [dropL_nonbin hn])
  | case3 p L hl c r1 r2 h ih1 ih2 => rw [ih2, dropR_bin h]
  | case4 p L R hl h hn => exact absurd h (by simp [dropR_nonbin hn])
  | case5 p L R hl hr => simp [topPrecO]

/-- operand as the printer writes it under an operator of precedence `q` -/
def W (q : Nat) (e : PExp) : List Tok := if printsParen q e then parenToks (fmtToks e) else fmtToks e

theorem fmtToks_bin (p : BinOp) (l r : PExp) :
    fmtToks (.bin p l r) = W (Gen.binPrec p) l ++ binKwTok p :: W (Gen.binPrec p) r := by
  simp [fmtToks, W]

theorem W_congr {q : Nat} {e e' : PExp} (ht : topPrecO e = topPrecO e') (hf : fmtToks e = fmtToks e') :
    W q e = W q e' := by
  simp [W, printsParen_eq, ht, hf]

/-- an operand whose top operator has the precedence `q` of its parent is written bare -/
theorem W_bare {q : Nat} {e : PExp} (h : topPrecO e = some q) : W q e = fmtToks e := by
  simp [W, printsParen_eq, h]

/-- **`join` prints the same tokens** as the unnormalised `L p R` -/
theorem join_toks (p : BinOp) (L R : PExp) : fmtToks (join p L R) = fmtToks (.bin p L R) := by
  fun_induction join p L R with
  | case1 p R c l1 l2 h ih =>
    have hc := (dropL_bin h).2
    have hbare : W (Gen.binPrec p) (.bin c l1 l2) = fmtToks (.bin c l1 l2) := W_bare (by simp [topPrecO, hc])
    have hj : W (Gen.binPrec c) (join p l2 R) = fmtToks (join p l2 R) := W_bare (by rw [join_top, hc])
    rw [fmtToks_bin c, hj, ih, fmtToks_bin p l2 R, fmtToks_bin p (.bin c l1 l2) R, hbare, fmtToks_bin c l1 l2, hc]
    simp
  | case2 p L R h hn => exact absurd h (by simp [dropL_nonbin hn])
  | case3 p L hl c r1 r2 h ih1 ih2 =>
    have hc := dropR_bin h
    have hbare : W (Gen.binPrec p) (.bin c r1 r2) = fmtToks (.bin c r1 r2) := W_bare (by simp [topPrecO, hc])
    have hj : W (Gen.binPrec c) (join p L r1) = fmtToks (join p L r1) := W_bare (by rw [join_top, hc])
    rw [ih2, fmtToks_bin c (join p L r1) r2, hj, ih1, fmtToks_bin p L r1, fmtToks_bin p L (.bin c r1 r2), hbare,
      fmtToks_bin c r1 r2, hc]
    simp
  | case4 p L R hl h hn => exact absurd h (by simp [dropR_nonbin hn])
  | case5 p L R hl hr => rfl

theorem needParenRight_implies (e : PExp) : needParenRight .implies e = false := by
  cases e with
  | bin c a b => simp only [needParenRight]; cases c <;> decide
  | _ => rfl

theorem roundTrips_bin (p : BinOp) (l r : PExp) :
    roundTrips (.bin p l r) =
      ((printsParen (Gen.binPrec p) l || !(needParenLeft p l)) && (printsParen (Gen.binPrec p) r || !(needParenRight p r))
        && roundTrips l && roundTrips r) := by
  simp [roundTrips]

/-- `join` of trees that round-trip round-trips -/
theorem join_rt (p : BinOp) (L R : PExp) (hL : roundTrips L = true) (hR : roundTrips R = true) :
    roundTrips (join p L R) = true := by
  fun_induction join p L R with
  | case1 p R c l1 l2 h ih =>
    have hc := (dropL_bin h).1
    rw [roundTrips_bin] at hL ⊢
    simp only [Bool.and_eq_true] at hL ⊢
    obtain ⟨⟨⟨h1, _⟩, h3⟩, h4⟩ := hL
    refine ⟨⟨⟨h1, ?_⟩, h3⟩, ih h4 hR⟩
    subst hc
    simp [needParenRight_implies]
  | case2 p L R h hn => exact absurd h (by simp [dropL_nonbin hn])
  | case3 p L hl c r1 r2 h ih1 ih2 =>
    rw [roundTrips_bin] at hR
    simp only [Bool.and_eq_true] at hR
    exact ih2 (ih1 hL hR.1.2) hR.2
  | case4 p L R hl h hn => exact absurd h (by simp [dropR_nonbin hn])
  | case5 p L R hl hr =>
    rw [roundTrips_bin]
    simp only [dropL, dropR, Bool.and_eq_true, Bool.not_eq_true', not_and, Bool.not_eq_false] at hl hr
    simp only [Bool.and_eq_true, Bool.or_eq_true, Bool.not_eq_true']
    refine ⟨⟨⟨?_, ?_⟩, hL⟩, hR⟩
    · by_cases hn : needParenLeft p L = true
      · left; exact hl hn
      · right; simpa using hn
    · by_cases hn : needParenRight p R = true
      · left; exact hr hn
      · right; simpa using hn

theorem join_wf (p : BinOp) (L R : PExp) (hL : WF L) (hR : WF R) : WF (join p L R) := by
  fun_induction join p L R with
  | case1 p R c l1 l2 h ih => exact ⟨hL.1, ih hL.2 hR⟩
  | case2 p L R h hn => exact absurd h (by simp [dropL_nonbin hn])
  | case3 p L hl c r1 r2 h ih1 ih2 => exact ih2 (ih1 hL hR.1) hR.2
  | case4 p L R hl h hn => exact absurd h (by simp [dropR_nonbin hn])
  | case5 p L R hl hr => exact ⟨hL, hR⟩

theorem join_isLeaf (p : BinOp) (L R : PExp) : (join p L R).isLeaf = false := by
  have := join_top p L R
  cases hj : join p L R <;> simp [hj, topPrecO, PExp.isLeaf] at this ⊢

/-! normal form: re-associate wherever the printer drops needed parentheses -/
mutual
def norm : PExp → PExp
  | .bin p l r => join p (norm l) (norm r)
  | .un u e => .un u (norm e)
  | .call n args => .call n (normList args)
  | e => e
def normList : List PExp → List PExp
  | [] => []
  | e :: es => norm e :: normList es
end

theorem norm_top (t : PExp) : topPrecO (norm t) = topPrecO t := by
  cases t with
  | bin p l r => rw [norm, join_top]; rfl
  | _ => simp [norm, topPrecO]

theorem norm_isLeaf (t : PExp) : (norm t).isLeaf = t.isLeaf := by
  cases t with
  | bin p l r => rw [norm, join_isLeaf]; rfl
  | _ => simp [norm, PExp.isLeaf]

mutual
theorem norm_toks : (t : PExp) → fmtToks (norm t) = fmtToks t
  | .bin p l r => by
    rw [norm, join_toks, fmtToks_bin, fmtToks_bin,
      W_congr (norm_top l) (norm_toks l), W_congr (norm_top r) (norm_toks r)]
  | .un u e => by
    simp only [norm, fmtToks, norm_isLeaf, norm_toks e]
  | .call n args => by
    simp only [norm, fmtToks, normList_toks args]
  | .int _ | .num _ | .bool _ | .str _ | .prim _ | .var _ | .cvar _ _ | .access _ _ | .block _ _ | .scoped _ _ _ _ => by
    simp [norm]
theorem normList_toks : (as : List PExp) → fmtToksArgs (normList as) = fmtToksArgs as
  | [] => by simp [normList]
  | [a] => by simp [normList, fmtToksArgs, norm_toks a]
  | a :: b :: rest => by
    have := normList_toks (b :: rest)
    simp only [normList] at this ⊢
    simp only [fmtToksArgs, norm_toks a, this]
end

mutual
theorem norm_rt : (t : PExp) → roundTrips (norm t) = true
  | .bin p l r => by rw [norm]; exact join_rt p _ _ (norm_rt l) (norm_rt r)
  | .un u e => by simp only [norm, roundTrips]; exact norm_rt e
  | .call n args => by simp only [norm, roundTrips]; exact normList_rt args
  | .int _ | .num _ | .bool _ | .str _ | .prim _ | .var _ | .cvar _ _ | .access _ _ | .block _ _ | .scoped _ _ _ _ => by
    simp [norm, roundTrips]
theorem normList_rt : (as : List PExp) → roundTripsList (normList as) = true
  | [] => by simp [normList, roundTripsList]
  | a :: rest => by simp [normList, roundTripsList, norm_rt a, normList_rt rest]
end

mutual
theorem norm_wf : (t : PExp) → WF t → WF (norm t)
  | .bin p l r, h => by rw [norm]; exact join_wf p _ _ (norm_wf l h.1) (norm_wf r h.2)
  | .un u e, h => by simp only [norm, WF]; exact norm_wf e h
  | .call n args, h => by simp only [norm, WF]; exact ⟨h.1, h.2.1, normList_wf args h.2.2⟩
  | .int _, h | .num _, h | .bool _, h | .var _, h => by simpa [norm] using h
  | .str _, h | .prim _, h | .cvar _ _, h | .access _ _, h | .block _ _, h | .scoped _ _ _ _, h => by simp [WF] at h
theorem normList_wf : (as : List PExp) → WF.WFs as → WF.WFs (normList as)
  | [], _ => by simp [normList, WF.WFs]
  | a :: rest, h => by
    simp only [normList, WF.WFs]
    exact ⟨norm_wf a h.1, normList_wf rest h.2⟩
end

/-- **Idempotence**: the printed tokens of ANY tree parse to a tree (`norm t`) that is printed as the
same tokens. -/
theorem fmt_idem (t : PExp) (h : WF t) :
    parseToks (fmtToks t) = .ok (norm t) ∧ fmtToks (norm t) = fmtToks t := by
  refine ⟨?_, norm_toks t⟩
  obtain ⟨items, hk, _⟩ := fmt_tk (norm t) (norm_wf t h) (norm_rt t)
  rw [← norm_toks t]
  exact parse_tk hk

end Rooc.Syntax.Proofs
