/-
C08 helper — the oracle's "every variable mentioned in the source has a column and a domain entry" clause
(`WF.occurringPresent`), tied to the variable functions the other proofs use (`Exp.vars`, `Ref.modelVars`).
-/
import Rooc.WellFormed
import Rooc.Proofs.RefLemmas
namespace Rooc
namespace WF

theorem expVars_eq_vars {α : Type} (e : Exp α) : WF.expVars e = Exp.vars e := by
  refine Exp.rec (motive_1 := fun e => WF.expVars e = Exp.vars e)
    (motive_2 := fun es => es.flatMap WF.expVars = Exp.varsList es)
    ?_ ?_ ?_ ?_ ?_ ?_ ?_ ?_ ?_ ?_ ?_ ?_ ?_ ?_ ?_ e
  all_goals (intros; simp_all [WF.expVars, Exp.vars, Exp.varsList])

theorem occurring_eq_modelVars {α : Type} (m : Model α) : WF.occurring m = Ref.modelVars m := by
  unfold WF.occurring Ref.modelVars Ref.consVars
  rw [expVars_eq_vars]
  congr 1
  apply List.flatMap_congr
  intro c _
  rw [expVars_eq_vars, expVars_eq_vars]
  cases c.isAssert <;> simp

end WF
end Rooc
