/-
The diffed whole-function model `SlowSimplex.solveReal` (`Rooc/SlowSimplex.lean`) IS the composition of the stages the
theorems of C13 / C14 / C04 / C05 talk about: unfolding lemmas, for every number type.
-/
import Rooc.SlowSimplex

namespace Rooc.SlowSimplex
variable {α : Type} [Arith α]
open SolverWrap

/-- a returned solution: the three stages succeeded, the loop stopped `Finished`, and the solution is `as_lp_solution` of
`variables_values` / `optimal_value` of the final tableau under the names of the standard form. -/
theorem solveReal_ok_iff (tol : α) (se p1 : Nat) (lm : LinModel α) (limit : Int) (sol : Solution α) :
    solveReal tol se p1 lm limit = .ok sol ↔
      ∃ sm T, Standardize.standardize lm = .ok sm ∧ Tableau.intoTableau tol se p1 sm = .ok T ∧
        (Tableau.solve tol se limit.toNat [] T).result = .ok () ∧
        sol = asLpSolution sm.vars (Tableau.variablesValues (Tableau.solve tol se limit.toNat [] T).final)
          (Tableau.optimalValue (Tableau.solve tol se limit.toNat [] T).final) := by
  cases hs : Standardize.standardize lm with
  | error e => cases e <;> simp [solveReal, hs]
  | ok sm =>
    cases hT : Tableau.intoTableau tol se p1 sm with
    | error e => cases e <;> simp [solveReal, hs, hT]
    | ok T =>
      cases hr : (Tableau.solve tol se limit.toNat [] T).result with
      | error e => cases e <;> simp [solveReal, hs, hT, hr]
      | ok u =>
        cases u
        simp only [solveReal, hs, hT, hr, Res.ok.injEq, Except.ok.injEq, exists_and_left, exists_eq_left', true_and]
        exact eq_comm

/-- `Unbounded` is answered exactly when the loop reports it (the standardizer and the start cannot). -/
theorem solveReal_unbounded_iff (tol : α) (se p1 : Nat) (lm : LinModel α) (limit : Int) :
    solveReal tol se p1 lm limit = .err "Unbounded" ↔
      ∃ sm T, Standardize.standardize lm = .ok sm ∧ Tableau.intoTableau tol se p1 sm = .ok T ∧
        (Tableau.solve tol se limit.toNat [] T).result = .error .unbounded := by
  cases hs : Standardize.standardize lm with
  | error e => cases e <;> simp [solveReal, hs, StdErr.name]
  | ok sm =>
    cases hT : Tableau.intoTableau tol se p1 sm with
    | error e => cases e <;> simp [solveReal, hs, hT]
    | ok T =>
      cases hr : (Tableau.solve tol se limit.toNat [] T).result with
      | error e => cases e <;> simp [solveReal, hs, hT, hr]
      | ok u => cases u; simp [solveReal, hs, hT, hr]

/-- `Infeasible` is answered exactly when `into_tableau` reports `Infesible` (phase 1). -/
theorem solveReal_infeasible_iff (tol : α) (se p1 : Nat) (lm : LinModel α) (limit : Int) :
    solveReal tol se p1 lm limit = .err "Infeasible" ↔
      ∃ sm, Standardize.standardize lm = .ok sm ∧ Tableau.intoTableau tol se p1 sm = .error .infeasible := by
  cases hs : Standardize.standardize lm with
  | error e => cases e <;> simp [solveReal, hs, StdErr.name]
  | ok sm =>
    cases hT : Tableau.intoTableau tol se p1 sm with
    | error e => cases e <;> simp [solveReal, hs, hT]
    | ok T =>
      cases hr : (Tableau.solve tol se limit.toNat [] T).result with
      | error e => cases e <;> simp [solveReal, hs, hT, hr]
      | ok u => cases u; simp [solveReal, hs, hT, hr]

end Rooc.SlowSimplex
