/-
At `K = ℚ` the Mathlib bridge instance `fieldExact ℚ` (the one the theorems are stated with) IS the
computable instance `instExactFieldRat` the oracles run with.  So a fact computed by `decide +kernel`
with the running definitions transfers to the theorems' instance by `rw [fieldExact_rat]`, and
non-vacuity examples can be evaluated instead of proved by hand.
-/
import Rooc.Proofs.Field
import Mathlib.Data.Rat.Floor
namespace Rooc

theorem rat_ceil_eq (a : ℚ) : ⌈a⌉ = a.ceil := by
  unfold Rat.ceil
  split
  · next h =>
    conv_lhs => rw [← Rat.coe_int_num_of_den_eq_one h]
    exact Int.ceil_intCast _
  · next h =>
    have : a ∉ Set.range (Int.cast : ℤ → ℚ) := by
      rintro ⟨z, rfl⟩
      exact h (by simp)
    rw [(Int.ceil_eq_floor_add_one_iff_notMem a).2 this, Rat.floor_def']

theorem fieldExact_rat : fieldExact ℚ = instExactFieldRat := by
  unfold fieldExact instExactFieldRat
  congr
  funext a; exact rat_ceil_eq a

end Rooc
