/-
Helper lemmas for the front-half models (`Rooc/Pre/*`): 64-bit range tests, saturating casts,
`intsFrom`, `enumerateFrom`.  Used by `Rooc/Props/C06`, `C18`, `C19`.
-/
import Rooc.Pre.Prim
import Rooc.Pre.Expand
import Rooc.Proofs.Field
namespace Rooc.Proofs.Pre
open Rooc Rooc.Pre

theorem inI64_iff (x : Int) : inI64 x = true ↔ (-9223372036854775808 ≤ x ∧ x ≤ 9223372036854775807) := by
  unfold inI64 i64Min i64Max
  rw [Bool.and_eq_true, decide_eq_true_iff, decide_eq_true_iff]
theorem inU64_iff (x : Int) : inU64 x = true ↔ (0 ≤ x ∧ x ≤ 18446744073709551615) := by
  unfold inU64 u64Max
  rw [Bool.and_eq_true, decide_eq_true_iff, decide_eq_true_iff]; rfl

theorem pint_wf_iff {α : Type} (n : Nat) : (Prim.pint n : Prim α).wf = true ↔ n ≤ 18446744073709551615 := by
  unfold Prim.wf u64Max; exact decide_eq_true_iff


section
variable {K : Type} [Field K] [LinearOrder K] [IsStrictOrderedRing K] [FloorRing K]
theorem toIntSat_range (lo hi : Int) (h0 : lo ≤ 0) (h1 : 0 ≤ hi) (x : Ext K) :
    lo ≤ Ext.toIntSat lo hi x ∧ Ext.toIntSat lo hi x ≤ hi := by
  cases x with
  | nan => simp [Ext.toIntSat]; omega
  | ninf => simp [Ext.toIntSat]; omega
  | pinf => simp [Ext.toIntSat]; omega
  | fin a =>
    simp only [Ext.toIntSat, Ext.clampInt]
    split <;> split <;> (try split) <;> omega

end

theorem intsFrom_length (lo : Int) (n : Nat) : (intsFrom lo n).length = n := by
  induction n generalizing lo with
  | zero => rfl
  | succ n ih => simp [intsFrom, ih]

theorem mem_intsFrom (lo : Int) (n : Nat) (i : Int) : i ∈ intsFrom lo n ↔ lo ≤ i ∧ i < lo + n := by
  induction n generalizing lo with
  | zero => simp [intsFrom]; try omega
  | succ n ih => simp [intsFrom, ih]; try omega

theorem intsFrom_length' (lo : Int) (n : Nat) : (intsFrom lo n).length = n := by
  induction n generalizing lo with
  | zero => rfl
  | succ n ih => simp [intsFrom, ih]

theorem intsFrom_get (lo : Int) (n k : Nat) (h : k < n) : (intsFrom lo n)[k]? = some (lo + k) := by
  induction n generalizing lo k with
  | zero => omega
  | succ n ih =>
    cases k with
    | zero => simp [intsFrom]
    | succ k => simp only [intsFrom, List.getElem?_cons_succ]; rw [ih (lo + 1) k (by omega)]; congr 1; push_cast; omega

theorem enumerateFrom_get {β : Type} (xs : List β) (s i : Nat) : (enumerateFrom s xs)[i]? = xs[i]?.map (fun x => (x, s + i)) := by
  induction xs generalizing s i with
  | nil => simp [enumerateFrom]
  | cons x xs ih =>
    cases i with
    | zero => simp [enumerateFrom]
    | succ i => simp only [enumerateFrom, List.getElem?_cons_succ]; rw [ih]; congr 1; funext x; congr 1; omega


end Rooc.Proofs.Pre
