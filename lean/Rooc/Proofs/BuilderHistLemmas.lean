/-
Helper lemmas for C16 about the builder state machine (`Rooc/BuilderHist.lean`): the invariant every call
history maintains (names = keys of the domain, pairwise distinct), stability of minted handles, the closed form
of a history (declarations / constraints / last objective), and the link to `Builder.intoModel`.
-/
import Rooc.BuilderHist
import Rooc.Proofs.BuilderLemmas
set_option linter.unusedSectionVars false
namespace Rooc
namespace Builder
variable {α : Type} [Arith α]

/-- the invariant of `ModelBuilder`: `variable_names` are the keys of `domain`, in order, without repetition. -/
structure Inv (s : BState α) : Prop where
  keys : s.variableNames = s.domain.map (·.1)
  nodup : s.variableNames.Nodup

theorem inv_new : Inv (BState.new : BState α) := ⟨rfl, List.nodup_nil⟩

theorem domain_any_iff {s : BState α} (hi : Inv s) (n : String) :
    s.domain.any (·.1 == n) = true ↔ n ∈ s.variableNames := by
  rw [hi.keys]
  simp only [List.any_eq_true, List.mem_map, beq_iff_eq]

/-- `add_var` panics exactly on a name that is already declared … -/
theorem addVar_error_iff {s : BState α} (hi : Inv s) (n : String) (ty : VarType α) :
    (∃ e, addVar s n ty = .error e) ↔ n ∈ s.variableNames := by
  unfold addVar
  by_cases h : s.domain.any (·.1 == n) = true
  · simp [h, (domain_any_iff hi n).1 h]
  · have : n ∉ s.variableNames := fun hm => h ((domain_any_iff hi n).2 hm)
    simp [h, this]

theorem addVar_error_name {s : BState α} {n e : String} {ty : VarType α} (h : addVar s n ty = .error e) :
    e = n ∧ s.domain.any (·.1 == n) = true := by
  unfold addVar at h
  split at h
  · next hd => cases h; exact ⟨rfl, hd⟩
  · cases h

/-- … and otherwise appends the name, mints the next index as handle, and touches nothing else. -/
theorem addVar_ok {s s' : BState α} {n : String} {ty : VarType α} {h : Nat} (hok : addVar s n ty = .ok (s', h)) :
    h = s.variableNames.length ∧ s'.variableNames = s.variableNames ++ [n] ∧ s'.domain = s.domain ++ [(n, ty)] ∧
    s'.constraints = s.constraints ∧ s'.objective = s.objective ∧ s.domain.any (·.1 == n) = false := by
  unfold addVar at hok
  split at hok
  · cases hok
  · next hd =>
    simp only [Except.ok.injEq, Prod.mk.injEq] at hok
    obtain ⟨rfl, rfl⟩ := hok
    exact ⟨rfl, rfl, rfl, rfl, rfl, Bool.eq_false_iff.2 hd⟩

theorem addVar_inv {s s' : BState α} {n : String} {ty : VarType α} {h : Nat} (hi : Inv s)
    (hok : addVar s n ty = .ok (s', h)) : Inv s' := by
  obtain ⟨_, hn, hd, _, _, hfresh⟩ := addVar_ok hok
  have hnot : n ∉ s.variableNames := by
    intro hm
    have := (domain_any_iff hi n).2 hm
    rw [hfresh] at this; cases this
  refine ⟨by rw [hn, hd, hi.keys]; simp, ?_⟩
  rw [hn]
  exact List.nodup_append.2 ⟨hi.nodup, by simp, by
    intro a ha b hb; simp at hb; subst hb; intro hab; exact hnot (hab ▸ ha)⟩

/-- a freshly minted handle resolves to the name it was minted for. -/
theorem addVar_handle_resolves {s s' : BState α} {n : String} {ty : VarType α} {h : Nat}
    (hok : addVar s n ty = .ok (s', h)) : s'.variableNames[h]? = some n := by
  obtain ⟨rfl, hn, _⟩ := addVar_ok hok
  rw [hn]; simp

theorem addVarsFrom_inv {name : String} {ty : VarType α} : ∀ (is acc : List Nat) (s : BState α), Inv s →
    Inv (addVarsFrom s name ty is acc).1
  | [], acc, s, hi => by simpa [addVarsFrom] using hi
  | i :: is, acc, s, hi => by
    unfold addVarsFrom
    cases h : addVar s (familyName name i) ty with
    | error e => simpa using hi
    | ok p => obtain ⟨s', hd⟩ := p; exact addVarsFrom_inv (name := name) (ty := ty) is (hd :: acc) s' (addVar_inv hi h)

theorem addVarsFrom_prefix {name : String} {ty : VarType α} : ∀ (is acc : List Nat) (s : BState α),
    s.variableNames <+: (addVarsFrom s name ty is acc).1.variableNames ∧
    (addVarsFrom s name ty is acc).1.constraints = s.constraints ∧
    (addVarsFrom s name ty is acc).1.objective = s.objective
  | [], acc, s => by simp [addVarsFrom]
  | i :: is, acc, s => by
    unfold addVarsFrom
    cases h : addVar s (familyName name i) ty with
    | error e => simp
    | ok p =>
      obtain ⟨s', hd⟩ := p
      obtain ⟨_, hn, _, hc, ho, _⟩ := addVar_ok h
      obtain ⟨h1, h2, h3⟩ := addVarsFrom_prefix (name := name) (ty := ty) is (hd :: acc) s'
      refine ⟨?_, by simp only [h2, hc], by simp only [h3, ho]⟩
      exact List.IsPrefix.trans (by rw [hn]; exact List.prefix_append _ _) h1

theorem step_inv {s : BState α} (hi : Inv s) (op : Op α) : Inv (step s op).1 := by
  cases op with
  | addVar name ty =>
    simp only [step]
    cases h : addVar s name ty with
    | error e => simpa using hi
    | ok p => obtain ⟨s', hd⟩ := p; exact addVar_inv hi h
  | addVars name count ty => exact addVarsFrom_inv _ _ s hi
  | with_ c => exact ⟨hi.keys, hi.nodup⟩
  | withAll cs => exact ⟨hi.keys, hi.nodup⟩
  | maximize e => exact ⟨hi.keys, hi.nodup⟩
  | minimize e => exact ⟨hi.keys, hi.nodup⟩
  | satisfy => exact ⟨hi.keys, hi.nodup⟩

theorem step_prefix (s : BState α) (op : Op α) : s.variableNames <+: (step s op).1.variableNames := by
  cases op with
  | addVar name ty =>
    simp only [step]
    cases h : addVar s name ty with
    | error e => simp
    | ok p => obtain ⟨s', hd⟩ := p; rw [(addVar_ok h).2.1]; exact List.prefix_append _ _
  | addVars name count ty => exact (addVarsFrom_prefix _ _ s).1
  | with_ c => simp [step]
  | withAll cs => simp [step]
  | maximize e => simp [step]
  | minimize e => simp [step]
  | satisfy => simp [step]

theorem run_inv : ∀ (ops : List (Op α)) {s : BState α}, Inv s → Inv (run s ops).1
  | [], s, hi => by simpa [run] using hi
  | op :: ops, s, hi => by
    simp only [run]
    exact run_inv ops (step_inv hi op)

theorem run_prefix : ∀ (ops : List (Op α)) (s : BState α), s.variableNames <+: (run s ops).1.variableNames
  | [], s => by simp [run]
  | op :: ops, s => by
    simp only [run]
    exact List.IsPrefix.trans (step_prefix s op) (run_prefix ops (step s op).1)

/-- handles are stable: what a handle resolves to never changes by later calls. -/
theorem resolves_of_prefix {l l' : List String} (hp : l <+: l') {h : Nat} {n : String} (hr : l[h]? = some n) :
    l'[h]? = some n := by
  obtain ⟨t, rfl⟩ := hp
  have hlt : h < l.length := by
    by_contra hge
    rw [List.getElem?_eq_none (Nat.le_of_not_lt hge)] at hr; cases hr
  rw [List.getElem?_append_left hlt]; exact hr

/-! ### the closed form of a history -/

/-- the declaration calls of a history. -/
def isDecl : Op α → Bool
  | .addVar .. => true | .addVars .. => true | _ => false

/-- the constraints a history adds, in order. -/
def consOf : List (Op α) → List (Constraint α)
  | [] => []
  | .with_ c :: ops => c :: consOf ops
  | .withAll cs :: ops => cs ++ consOf ops
  | _ :: ops => consOf ops

/-- the objective a single call sets. -/
def objOfOp : Op α → Option (OptType × Exp α)
  | .maximize e => some (.max, e)
  | .minimize e => some (.min, e)
  | .satisfy => some (.satisfy, .num Arith.zero)
  | _ => none

/-- the LAST objective call wins. -/
def lastObj : List (Op α) → Option (OptType × Exp α)
  | [] => none
  | op :: ops => match lastObj ops with
    | some o => some o
    | none => objOfOp op

/-- a non-declaration call leaves names and domain alone, produces `unit`, appends its constraints and overrides
the objective if it sets one. -/
theorem step_nondecl {s : BState α} {op : Op α} (h : isDecl op = false) :
    step s op = ({ s with constraints := s.constraints ++ consOf [op],
                          objective := match objOfOp op with | some o => some o | none => s.objective }, .unit) := by
  cases op <;> simp_all [isDecl, step, consOf, objOfOp]

theorem addVarsFrom_decl {name : String} {ty : VarType α} : ∀ (is acc : List Nat) (s t : BState α),
    t.variableNames = s.variableNames → t.domain = s.domain →
    (addVarsFrom t name ty is acc).2 = (addVarsFrom s name ty is acc).2 ∧
    (addVarsFrom t name ty is acc).1.variableNames = (addVarsFrom s name ty is acc).1.variableNames ∧
    (addVarsFrom t name ty is acc).1.domain = (addVarsFrom s name ty is acc).1.domain ∧
    (addVarsFrom t name ty is acc).1.constraints = t.constraints ∧
    (addVarsFrom t name ty is acc).1.objective = t.objective
  | [], acc, s, t, hn, hd => by simp [addVarsFrom, hn, hd]
  | i :: is, acc, s, t, hn, hd => by
    by_cases hany : (s.domain.any fun x => x.1 == familyName name i) = true
    · simp [addVarsFrom, addVar, hn, hd, hany]
    · simp only [addVarsFrom, addVar, hn, hd, hany, Bool.false_eq_true, if_false]
      exact addVarsFrom_decl (name := name) (ty := ty) is _
        { s with variableNames := s.variableNames ++ [familyName name i], domain := s.domain ++ [(familyName name i, ty)] }
        { t with variableNames := s.variableNames ++ [familyName name i], domain := s.domain ++ [(familyName name i, ty)] }
        rfl rfl

/-- a declaration call depends only on names and domain, and touches only those. -/
theorem step_decl {s : BState α} {op : Op α} (h : isDecl op = true) (t : BState α)
    (hn : t.variableNames = s.variableNames) (hd : t.domain = s.domain) :
    (step t op).2 = (step s op).2 ∧ (step t op).1.variableNames = (step s op).1.variableNames ∧
    (step t op).1.domain = (step s op).1.domain ∧ (step t op).1.constraints = t.constraints ∧
    (step t op).1.objective = t.objective := by
  cases op with
  | addVar name ty =>
    by_cases hany : (s.domain.any fun x => x.1 == name) = true <;> simp [step, addVar, hn, hd, hany]
  | addVars name count ty => exact addVarsFrom_decl _ _ s t hn hd
  | with_ c => cases h
  | withAll cs => cases h
  | maximize e => cases h
  | minimize e => cases h
  | satisfy => cases h

/-- CLOSED FORM of a history: names, domain and outcomes of the declaration calls are those of the declaration calls
alone; the constraints are the added ones in order; the objective is the last one set. -/
theorem run_closed : ∀ (ops : List (Op α)) (s : BState α),
    (run s ops).1.variableNames = (run s (ops.filter isDecl)).1.variableNames ∧
    (run s ops).1.domain = (run s (ops.filter isDecl)).1.domain ∧
    (run s ops).1.constraints = s.constraints ++ consOf ops ∧
    (run s ops).1.objective = (match lastObj ops with | some o => some o | none => s.objective)
  | [], s => by simp [run, consOf, lastObj]
  | op :: ops, s => by
    by_cases hd : isDecl op = true
    · obtain ⟨h1, h2, h3, h4⟩ := run_closed ops (step s op).1
      obtain ⟨_, _, _, hc, ho⟩ := step_decl hd s rfl rfl
      simp only [run, List.filter_cons, hd, if_true]
      refine ⟨h1, h2, ?_, ?_⟩
      · rw [h3, hc]; cases op <;> simp_all [isDecl, consOf]
      · rw [h4, ho]
        have : objOfOp op = none := by cases op <;> simp_all [isDecl, objOfOp]
        simp only [lastObj, this]
        cases lastObj ops <;> rfl
    · have hd' : isDecl op = false := by simpa using hd
      obtain ⟨h1, h2, h3, h4⟩ := run_closed ops (step s op).1
      have hs := step_nondecl (s := s) hd'
      have e1 : (step s op).1.variableNames = s.variableNames := by rw [hs]
      have e2 : (step s op).1.domain = s.domain := by rw [hs]
      have e3 : (step s op).1.constraints = s.constraints ++ consOf [op] := by rw [hs]
      have e4 : (step s op).1.objective = (match objOfOp op with | some o => some o | none => s.objective) := by
        rw [hs]
      simp only [run, List.filter_cons, hd', Bool.false_eq_true, if_false]
      -- names / domain of the remaining declarations do not depend on constraints / objective
      have hind : ∀ (ds : List (Op α)) (a b : BState α), (∀ o ∈ ds, isDecl o = true) →
          a.variableNames = b.variableNames → a.domain = b.domain →
          (run a ds).1.variableNames = (run b ds).1.variableNames ∧ (run a ds).1.domain = (run b ds).1.domain := by
        intro ds
        induction ds with
        | nil => intro a b _ hn hdm; exact ⟨hn, hdm⟩
        | cons o ds ih =>
          intro a b hall hn hdm
          obtain ⟨_, k1, k2, _, _⟩ := step_decl (hall o (by simp)) a hn hdm
          simp only [run]
          exact ih _ _ (fun o' ho' => hall o' (by simp [ho'])) k1 k2
      obtain ⟨k1, k2⟩ := hind (ops.filter isDecl) _ s (fun o ho => (List.mem_filter.1 ho).2) e1 e2
      refine ⟨h1.trans k1, h2.trans k2, ?_, ?_⟩
      · rw [h3, e3]; cases op <;> simp_all [isDecl, consOf]
      · rw [h4, e4]
        simp only [lastObj]
        cases lastObj ops with
        | some o => rfl
        | none => rfl

/-! ### `into_model` of a state is `Builder.intoModel` of the corresponding builder model -/

theorem BState.intoModel_eq {s : BState α} (hk : s.variableNames = s.domain.map (·.1)) :
    s.intoModel = Builder.intoModel { vars := s.domain, constraints := s.constraints, objective := s.objective } := by
  unfold BState.intoModel Builder.intoModel
  rw [hk]

end Builder
end Rooc
