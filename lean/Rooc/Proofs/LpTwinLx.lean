/-
C17 helper lemmas, part 3: every word of the exported text lexes to the tokens paired with it
(over `Ext K`, under the well-formedness hypotheses), hence
`lexLP (writeLP tok lm) = some (fileToks (linesLP tok lm))`.
-/
import Rooc.Proofs.LpTwin
import Rooc.Proofs.Field
namespace Rooc.Lp
open Rooc Arith
set_option linter.unusedSectionVars false

variable {K : Type} [Field K] [LinearOrder K] [IsStrictOrderedRing K] [FloorRing K]
variable (tok : Ext K → List Char) (lexN : List Char → Option (Ext K))

theorem isDigit_isDig {c : Char} (h : c.isDigit = true) : isDig c = true := by
  have e5 : ('0' : Char).toNat = 48 := by decide
  have e6 : ('9' : Char).toNat = 57 := by decide
  simp only [Char.isDigit, Bool.and_eq_true, decide_eq_true_eq, UInt32.le_iff_toNat_le] at h
  simp only [isDig, Bool.and_eq_true, decide_eq_true_eq, char_le_iff, e5, e6]
  have : c.val.toNat = c.toNat := rfl
  have a : (48 : UInt32).toNat = 48 := by decide
  have b : (57 : UInt32).toNat = 57 := by decide
  have a' : ('0' : Char).val.toNat = 48 := by decide
  have b' : ('9' : Char).val.toNat = 57 := by decide
  omega

theorem natChars_dig (n : Nat) : ∀ c ∈ natChars n, isDig c = true :=
  fun c hc => isDigit_isDig (Nat.isDigit_of_mem_toDigits (by decide) (by decide) hc)

theorem numWord_natChars (n : Nat) : numWord (natChars n) = true := by
  have hne : natChars n ≠ [] := @Nat.toDigits_ne_nil n 10
  have hd := natChars_dig n
  cases h : natChars n with
  | nil => exact absurd h hne
  | cons c cs =>
    rw [h] at hd
    simp only [numWord, Bool.and_eq_true, List.all_eq_true]
    exact ⟨hd c (by simp), fun x hx => dig_numChar (hd x (by simp [hx]))⟩

theorem abs_not_neg (v : Ext K) : Arith.lt (Arith.abs v) (zero : Ext K) = false := by
  cases v with
  | fin k =>
    simp only [Arith.abs, Ext.abs, Arith.lt, Arith.zero, Arith.ofInt]
    split <;> simp_all [Ext.lt]
    · linarith
  | _ => simp [Arith.abs, Ext.abs, Arith.lt, Ext.lt, Arith.zero, Arith.ofInt]

/-- what the lemmas need to know about one printed number -/
def Good (v : Ext K) : Prop := TokOk tok lexN v ∧ TokOk tok lexN (Arith.abs v)

theorem absWT_Lx {v : Ext K} (h : Good tok lexN v) : Lx (absWT tok v).1 (absWT tok v).2 :=
  Lx.num (h.2.nonneg (abs_not_neg _)).1

theorem numWT_Lx {v : Ext K} (h : Good tok lexN v) : Lx (numWT tok v).1 (numWT tok v).2 := by
  unfold numWT signedNumToks
  cases hl : Arith.lt v (zero : Ext K) with
  | true =>
    simp only [if_true]
    rw [h.1.neg hl]
    exact Lx.minusNum (h.2.nonneg (abs_not_neg _)).1
  | false =>
    simp only [Bool.false_eq_true, if_false]
    exact Lx.num (h.1.nonneg hl).1

theorem signWT_Lx (c : Ext K) : Lx (signWT c).1 (signWT c).2 := by
  unfold signWT
  split
  · exact ⟨by decide, by rfl⟩
  · exact ⟨by decide, by rfl⟩

theorem nameWT_Lx {s : String} (h : nameOk s = true) : Lx (nameWT s).1 (nameWT s).2 := by
  simp only [nameOk, Bool.and_eq_true] at h
  exact Lx.name h.1

theorem tailWTs_Lx (cs : List (Ext K)) (vs : List String) (hc : ∀ c ∈ cs, Good tok lexN c)
    (hv : ∀ v ∈ vs, nameOk v = true) : ∀ p ∈ tailWTs tok cs vs, Lx p.1 p.2 := by
  induction cs generalizing vs with
  | nil => simp [tailWTs]
  | cons c cs ih =>
    cases vs with
    | nil => simp [tailWTs]
    | cons v vs =>
      have ih' := ih vs (fun c' h' => hc c' (by simp [h'])) (fun v' h' => hv v' (by simp [h']))
      simp only [tailWTs]
      split
      · exact ih'
      · intro p hp
        simp only [List.mem_cons, List.mem_append, coefWTs] at hp
        rcases hp with rfl | hp | rfl | hp
        · exact signWT_Lx c
        · split at hp
          · simp at hp
          · simp only [List.mem_singleton] at hp; subst hp; exact absWT_Lx tok lexN (hc c (by simp))
        · exact nameWT_Lx (hv v (by simp))
        · exact ih' p hp

theorem firstWTs_Lx (cs : List (Ext K)) (vs : List String) (hc : ∀ c ∈ cs, Good tok lexN c)
    (hv : ∀ v ∈ vs, nameOk v = true) : ∀ p ∈ firstWTs tok cs vs, Lx p.1 p.2 := by
  induction cs generalizing vs with
  | nil => simp [firstWTs]
  | cons c cs ih =>
    cases vs with
    | nil => simp [firstWTs]
    | cons v vs =>
      simp only [firstWTs]
      split
      · exact ih vs (fun c' h' => hc c' (by simp [h'])) (fun v' h' => hv v' (by simp [h']))
      · intro p hp
        simp only [List.mem_cons, List.mem_append, coefWTs] at hp
        rcases hp with hp | hp | rfl | hp
        · split at hp
          · simp only [List.mem_singleton] at hp; subst hp; exact ⟨by decide, by rfl⟩
          · simp at hp
        · split at hp
          · simp at hp
          · simp only [List.mem_singleton] at hp; subst hp; exact absWT_Lx tok lexN (hc c (by simp))
        · exact nameWT_Lx (hv v (by simp))
        · exact tailWTs_Lx tok lexN cs vs (fun c' h' => hc c' (by simp [h'])) (fun v' h' => hv v' (by simp [h'])) p hp

theorem termWTs_Lx (cs : List (Ext K)) (vs : List String) (hc : ∀ c ∈ cs, Good tok lexN c)
    (hv : ∀ v ∈ vs, nameOk v = true) : ∀ p ∈ termWTs tok cs vs, Lx p.1 p.2 := by
  unfold termWTs
  split
  · exact firstWTs_Lx tok lexN cs vs hc hv
  · intro p hp
    simp only [List.mem_singleton] at hp; subst hp
    exact Lx.num (by decide)

theorem dig_nameChar {c : Char} (h : isDig c = true) : isNameChar c = true := by simp [isNameChar, h]

/-- a word starting with `c` is not a word of the LP format -/
theorem c_not_reserved (rest : List Char) : isReserved ('c' :: rest) = false := by
  have : lowerChar 'c' = 'c' := by decide
  simp [isReserved, isKw, lower, this, reserved, kwMin, kwMax, kwSt1, kwBounds, kwBinary, kwGeneral, kwEnd, kwFree, kwInf]

theorem nameWord_candidate (m k : Nat) : nameWord (candidate ('c' :: natChars m) k) = true := by
  have hd : ∀ n, ∀ c ∈ natChars n, isNameChar c = true := fun n c hc => dig_nameChar (natChars_dig n c hc)
  unfold candidate
  split
  · simp only [nameWord, Bool.and_eq_true, List.all_eq_true]
    exact ⟨by decide, hd m⟩
  · simp only [List.cons_append, nameWord, Bool.and_eq_true, List.all_eq_true, List.mem_append, List.mem_cons]
    refine ⟨by decide, ?_⟩
    rintro c (hc | rfl | hc)
    · exact hd m c hc
    · decide
    · exact hd k c hc

theorem candidate_head (m k : Nat) : ∃ rest, candidate ('c' :: natChars m) k = 'c' :: rest := by
  unfold candidate; split <;> exact ⟨_, rfl⟩

theorem freshName_is_candidate (used : List (List Char)) (base : List Char) (f k : Nat) :
    ∃ j, freshName used base f k = candidate base j := by
  induction f generalizing k with
  | zero => exact ⟨k, rfl⟩
  | succ f ih =>
    simp only [freshName]
    split
    · exact ih (k + 1)
    · exact ⟨k, rfl⟩

/-- what the lemmas need to know about an exported row name -/
def RowNameOk (n : List Char) : Prop := nameWord n = true ∧ isReserved n = false

theorem rowNamesFrom_ok {α : Type} (rows : List (LinRow α))
    (h : ∀ r ∈ rows, r.name.toList ≠ [] → nameOk r.name = true) (used : List (List Char)) (i : Nat) :
    ∀ n ∈ rowNamesFrom used i rows, RowNameOk n := by
  induction rows generalizing used i with
  | nil => simp [rowNamesFrom]
  | cons r rs ih =>
    have ih' := ih (fun r' h' => h r' (by simp [h']))
    intro n hn
    simp only [rowNamesFrom] at hn
    split at hn
    · rcases List.mem_cons.mp hn with rfl | hn
      · obtain ⟨j, e⟩ := freshName_is_candidate used ('c' :: natChars (i + 1)) (used.length + 1) 0
        rw [e]
        obtain ⟨rest, e'⟩ := candidate_head (i + 1) j
        exact ⟨nameWord_candidate _ _, by rw [e']; exact c_not_reserved rest⟩
      · exact ih' _ _ n hn
    · rename_i hne
      rcases List.mem_cons.mp hn with rfl | hn
      · have := h r (by simp) (by intro e; simp [e] at hne)
        simp only [nameOk, Bool.and_eq_true, Bool.not_eq_true'] at this
        exact this
      · exact ih' _ _ n hn

theorem relWT_Lx (c : Cmp) : Lx (relWT c).1 (relWT c).2 := by
  cases c <;> exact ⟨by decide, by rfl⟩

theorem intWT_Lx (i : Int) : Lx (intWT i).1 (intWT i).2 := by
  unfold intWT intChars intToks
  split
  · exact Lx.minusNum (numWord_natChars _)
  · exact Lx.num (numWord_natChars _)

theorem finite_of_not_inf {v : Ext K} (h1 : Arith.eq v (posInf : Ext K) = false) (h2 : Arith.eq v (negInf : Ext K) = false)
    (h3 : Arith.isNaN v = false) : Arith.isFinite v = true := by
  cases v <;> simp_all [Arith.eq, Ext.eq, Arith.posInf, Arith.negInf, Arith.isNaN, Ext.isNaN, Arith.isFinite, Ext.isFinite]

theorem boundWT_Lx {v : Ext K} (hn : Arith.isNaN v = false) (hg : Arith.isFinite v = true → Good tok lexN v) :
    Lx (boundWT tok v).1 (boundWT tok v).2 := by
  unfold boundWT lpBound boundToks
  cases h1 : Arith.eq v (posInf : Ext K) with
  | true => simp only [if_true]; exact ⟨by decide, by rfl⟩
  | false =>
    cases h2 : Arith.eq v (negInf : Ext K) with
    | true => simp only [Bool.false_eq_true, if_false, if_true]; exact ⟨by decide, by rfl⟩
    | false =>
      simp only [Bool.false_eq_true, if_false]
      exact numWT_Lx tok lexN (hg (finite_of_not_inf h1 h2 hn))

theorem leWT_Lx : Lx leWT.1 leWT.2 := ⟨by decide, by rfl⟩

theorem kw_Lx {s : String} (h : nameWord s.toList = true) : Lx (kw s).1 (kw s).2 := Lx.name h

theorem mem_boundNums_of_mem {ds : List (DomVar (Ext K))} {d : DomVar (Ext K)} (hd : d ∈ ds) :
    (∀ lo hi, d.ty = .nnreal lo hi → lo ∈ boundNums ds ∧ hi ∈ boundNums ds) ∧
    (∀ lo hi, d.ty = .real lo hi → lo ∈ boundNums ds ∧ hi ∈ boundNums ds) := by
  induction ds with
  | nil => simp at hd
  | cons x xs ih =>
    rcases List.mem_cons.mp hd with rfl | hd'
    · constructor <;> intro lo hi hty <;> simp [boundNums, hty]
    · have := ih hd'
      constructor <;> intro lo hi hty
      · have h := this.1 lo hi hty
        unfold boundNums; split <;> simp [h.1, h.2]
      · have h := this.2 lo hi hty
        unfold boundNums; split <;> simp [h.1, h.2]

theorem boundLinesT_Lx (ds : List (DomVar (Ext K))) (hname : ∀ d ∈ ds, nameOk d.name = true)
    (hn : ∀ v ∈ boundNums ds, Arith.isNaN v = false)
    (hg : ∀ v ∈ boundNums ds, Arith.isFinite v = true → Good tok lexN v) :
    ∀ l ∈ boundLinesT tok ds, ∀ p ∈ l.wts, Lx p.1 p.2 := by
  induction ds with
  | nil => simp [boundLinesT]
  | cons d ds ih =>
    have ih' := ih (fun d' h' => hname d' (by simp [h']))
    have hnm := nameWT_Lx (hname d (by simp))
    have range : ∀ lo hi : Ext K, lo ∈ boundNums (d :: ds) → hi ∈ boundNums (d :: ds) →
        ∀ p ∈ [boundWT tok lo, leWT, nameWT d.name, leWT, boundWT tok hi], Lx p.1 p.2 := by
      intro lo hi hlo hhi p hp
      simp only [List.mem_cons, List.not_mem_nil, or_false] at hp
      rcases hp with rfl | rfl | rfl | rfl | rfl
      · exact boundWT_Lx tok lexN (hn lo hlo) (hg lo hlo)
      · exact leWT_Lx
      · exact hnm
      · exact leWT_Lx
      · exact boundWT_Lx tok lexN (hn hi hhi) (hg hi hhi)
    cases hty : d.ty with
    | bool =>
      simp only [boundLinesT, hty]
      exact ih' (fun v hv => hn v (by simp [boundNums, hty, hv])) (fun v hv => hg v (by simp [boundNums, hty, hv]))
    | int lo hi =>
      simp only [boundLinesT, hty]
      intro l hl
      rcases List.mem_cons.mp hl with rfl | hl
      · intro p hp
        simp only [List.mem_cons, List.not_mem_nil, or_false] at hp
        rcases hp with rfl | rfl | rfl | rfl | rfl
        · exact intWT_Lx lo
        · exact leWT_Lx
        · exact hnm
        · exact leWT_Lx
        · exact intWT_Lx hi
      · exact ih' (fun v hv => hn v (by simp [boundNums, hty, hv])) (fun v hv => hg v (by simp [boundNums, hty, hv])) l hl
    | nnreal lo hi =>
      have hrest := ih' (fun v hv => hn v (by simp [boundNums, hty, hv])) (fun v hv => hg v (by simp [boundNums, hty, hv]))
      simp only [boundLinesT, hty]
      split
      · intro l hl
        rcases List.mem_cons.mp hl with rfl | hl
        · exact range lo hi (by simp [boundNums, hty]) (by simp [boundNums, hty])
        · exact hrest l hl
      · exact hrest
    | real lo hi =>
      have hrest := ih' (fun v hv => hn v (by simp [boundNums, hty, hv])) (fun v hv => hg v (by simp [boundNums, hty, hv]))
      simp only [boundLinesT, hty]
      split
      · intro l hl
        rcases List.mem_cons.mp hl with rfl | hl
        · intro p hp
          simp only [List.mem_cons, List.not_mem_nil, or_false] at hp
          rcases hp with rfl | rfl
          · exact hnm
          · exact kw_Lx (by decide)
        · exact hrest l hl
      · intro l hl
        rcases List.mem_cons.mp hl with rfl | hl
        · exact range lo hi (by simp [boundNums, hty]) (by simp [boundNums, hty])
        · exact hrest l hl

theorem rowLinesT_Lx (vars : List String) (hv : ∀ v ∈ vars, nameOk v = true) (ns : List (List Char))
    (hn : ∀ n ∈ ns, RowNameOk n) (rows : List (LinRow (Ext K)))
    (hr : ∀ r ∈ rows, (∀ c ∈ r.coeffs, Good tok lexN c) ∧ Good tok lexN r.rhs) :
    ∀ l ∈ rowLinesT tok vars ns rows, ∀ p ∈ l.wts, Lx p.1 p.2 := by
  induction rows generalizing ns with
  | nil => cases ns <;> simp [rowLinesT]
  | cons r rs ih =>
    cases ns with
    | nil => simp [rowLinesT]
    | cons n ns =>
      intro l hl
      simp only [rowLinesT] at hl
      rcases List.mem_cons.mp hl with rfl | hl
      · obtain ⟨h2, h3⟩ := hr r (by simp)
        intro p hp
        simp only [rowLineT, List.mem_cons, List.mem_append, List.not_mem_nil, or_false] at hp
        rcases hp with rfl | hp | rfl | rfl
        · exact Lx.nameColon (hn n (by simp)).1
        · exact termWTs_Lx tok lexN r.coeffs vars h2 hv p hp
        · exact relWT_Lx r.cmp
        · exact numWT_Lx tok lexN h3
      · exact ih ns (fun n' h' => hn n' (by simp [h'])) (fun r' h' => hr r' (by simp [h'])) l hl

theorem namesLine_Lx (ns : List String) (h : ∀ n ∈ ns, nameOk n = true) : ∀ p ∈ ns.map nameWT, Lx p.1 p.2 := by
  intro p hp
  obtain ⟨n, hn, rfl⟩ := List.mem_map.mp hp
  exact nameWT_Lx (h n hn)

theorem mem_binaryNames_sub {ds : List (DomVar (Ext K))} {n : String} (h : n ∈ binaryNames ds) :
    ∃ d ∈ ds, d.name = n := by
  obtain ⟨d, hd, e, _⟩ := mem_binaryNames'.mp h
  exact ⟨d, hd, e⟩
where
  mem_binaryNames' {ds : List (DomVar (Ext K))} {n : String} :
      n ∈ binaryNames ds ↔ ∃ d ∈ ds, d.name = n ∧ d.ty = .bool := by
    induction ds with
    | nil => simp [binaryNames]
    | cons d ds ih =>
      cases hty : d.ty <;> simp [binaryNames, hty, ih]
      exact or_congr_left eq_comm

theorem mem_generalNames_sub {ds : List (DomVar (Ext K))} {n : String} (h : n ∈ generalNames ds) :
    ∃ d ∈ ds, d.name = n := by
  induction ds with
  | nil => simp [generalNames] at h
  | cons d ds ih =>
    unfold generalNames at h
    split at h
    · rcases List.mem_cons.mp h with rfl | h'
      · exact ⟨d, by simp, rfl⟩
      · obtain ⟨d', hd', e⟩ := ih h'; exact ⟨d', by simp [hd'], e⟩
    · obtain ⟨d', hd', e⟩ := ih h; exact ⟨d', by simp [hd'], e⟩

/-- every word of the export lexes to its tokens -/
theorem linesLP_Lx (lm : LinModel (Ext K)) (wf : WellFormed tok lexN lm) :
    ∀ l ∈ linesLP tok lm, ∀ p ∈ l.wts, Lx p.1 p.2 := by
  have good : ∀ v ∈ coefNums lm, Good tok lexN v :=
    fun v hv => wf.toks v (by simp [hv]) (wf.finite v hv)
  have hobj : ∀ c ∈ lm.objective, Good tok lexN c := fun c hc => good c (by simp [coefNums, hc])
  have hoff : Good tok lexN lm.offset := good _ (by simp [coefNums])
  have hrows : ∀ r ∈ lm.rows, (∀ c ∈ r.coeffs, Good tok lexN c) ∧ Good tok lexN r.rhs := by
    intro r hr
    refine ⟨fun c hc => good c ?_, good _ ?_⟩
    · simp only [coefNums, List.mem_append, List.mem_flatMap]; right; exact ⟨r, hr, by simp [hc]⟩
    · simp only [coefNums, List.mem_append, List.mem_flatMap]; right; exact ⟨r, hr, by simp⟩
  intro l hl
  simp only [linesLP, List.mem_append, List.mem_cons, List.not_mem_nil, or_false] at hl
  rcases hl with ((((hl | hl) | hl) | hl) | hl) | hl
  · rcases hl with rfl | rfl | rfl
    · intro p hp
      simp only [List.mem_singleton] at hp; subst hp
      cases lm.optType <;> exact kw_Lx (by decide)
    · intro p hp
      simp only [objLineT, List.mem_cons, List.mem_append, offsetWTs] at hp
      rcases hp with rfl | hp | hp
      · exact Lx.nameColon (w := "obj".toList) (by decide)
      · exact termWTs_Lx tok lexN _ _ hobj wf.vars_ok p hp
      · split at hp
        · simp only [List.mem_cons, List.not_mem_nil, or_false] at hp
          rcases hp with rfl | rfl
          · exact signWT_Lx _
          · exact absWT_Lx tok lexN hoff
        · simp at hp
    · intro p hp
      simp only [List.mem_cons, List.not_mem_nil, or_false] at hp
      rcases hp with rfl | rfl <;> exact kw_Lx (by decide)
  · exact rowLinesT_Lx tok lexN lm.vars wf.vars_ok _ (rowNamesFrom_ok lm.rows wf.rows_ok _ _) lm.rows hrows l hl
  · split at hl
    · rcases List.mem_cons.mp hl with rfl | hl
      · intro p hp; simp only [List.mem_singleton] at hp; subst hp; exact kw_Lx (by decide)
      · exact boundLinesT_Lx tok lexN lm.domain wf.dom_ok wf.bounds_not_nan
          (fun v hv hf => wf.toks v (by simp [hv]) hf) l hl
    · simp at hl
  · split at hl
    · simp only [List.mem_cons, List.not_mem_nil, or_false] at hl
      rcases hl with rfl | rfl
      · intro p hp; simp only [List.mem_singleton] at hp; subst hp; exact kw_Lx (by decide)
      · exact namesLine_Lx _ (fun n hn => by
          obtain ⟨d, hd, e⟩ := mem_binaryNames_sub hn; rw [← e]; exact wf.dom_ok d hd)
    · simp at hl
  · split at hl
    · simp only [List.mem_cons, List.not_mem_nil, or_false] at hl
      rcases hl with rfl | rfl
      · intro p hp; simp only [List.mem_singleton] at hp; subst hp; exact kw_Lx (by decide)
      · exact namesLine_Lx _ (fun n hn => by
          obtain ⟨d, hd, e⟩ := mem_generalNames_sub hn; rw [← e]; exact wf.dom_ok d hd)
    · simp at hl
  · subst hl
    intro p hp; simp only [List.mem_singleton] at hp; subst hp; exact kw_Lx (by decide)

theorem nameOk_ne_nil {s : String} (h : nameOk s = true) : s.toList ≠ [] := by
  intro e; simp [nameOk, e, nameWord] at h

/-- The lexer reads the exported text as the tokens of its words. -/
theorem lexLP_writeLP (lm : LinModel (Ext K)) (wf : WellFormed tok lexN lm) :
    lexLP (writeLP tok lm) = some (fileToks (linesLP tok lm)) := by
  rw [writeLP_eq tok lm (fun v hv => nameOk_ne_nil (wf.vars_ok v hv))]
  exact (Lx_file _ (linesLP_Lx tok lexN lm wf)).2

end Rooc.Lp
