/-
Composition layer for C03: from the per-stage theorems of C01/C02 (source-feasible ⇔ some auxiliary extension is
linear-feasible; the linear objective over the extensions is bounded by and attains the source objective) to
statements about SOLVER ANSWERS on the compiled model.

* `LinOptimal lm ρ`, `LinInfeasible lm`, `LinUnbounded lm` (`Rooc/Proofs/ComposeContract.lean`) — the abstract contract
  of a solver on a linear model (what C05's certified comparison validates per instance).  Nothing else is assumed
  about a solver.
* `CompilesTo m lm` — exactly what C01 + C02 prove about a compiled model, as one structure, so that the
  composition does not depend on HOW the hypotheses of `c01_compile_partial` / `c02_compile_partial` are spelled.
* `optimal_transfer`, `infeasible_iff`, `unbounded_iff`, `optimal_complete` — the composition.
-/
import Rooc.Proofs.ComposeContract
import Rooc.Proofs.LinBridgeCounter
import Rooc.Proofs.LinBridgeLogic
import Rooc.Proofs.LinD11
import Rooc.Proofs.RefLemmas

set_option linter.unusedSectionVars false
set_option linter.unusedVariables false

namespace Rooc.Compose
open Rooc Rooc.Lin Rooc.Sem Rooc.LinP Rooc.Ref

variable {K : Type} [Field K] [LinearOrder K] [IsStrictOrderedRing K] [FloorRing K]

/-- the source model is unbounded. -/
def SrcUnbounded (m : Model (Ext K)) : Prop :=
  ∀ M : K, ∃ ρ : String → K, srcFeasible m ρ = true ∧ ∃ u, eval ρ m.objective = some u ∧ better m.optType u M = true

/-- `ρ` is an optimum of the source model with value `v`. -/
structure SrcOptimal (m : Model (Ext K)) (ρ : String → K) (v : K) : Prop where
  feasible : srcFeasible m ρ = true
  value : eval ρ m.objective = some v
  best : ∀ ρ₂ : String → K, srcFeasible m ρ₂ = true → ∀ u, eval ρ₂ m.objective = some u → better m.optType u v = false

/-! ### what C01 + C02 establish about a compiled model -/

/-- the conclusion of C01 (`feasible_iff`) and C02 (`objective`) for a source model `m` and a linear model `lm`,
plus the two facts the statements are read with: the direction is kept and the source objective has a value at every
assignment that satisfies the source (part of `LogicModel` / `FragModel`). -/
structure CompilesTo (m : Model (Ext K)) (lm : LinModel (Ext K)) : Prop where
  optType : lm.optType = m.optType
  objDefined : ∀ ρ : String → K, srcFeasible m ρ = true → ∃ v, eval ρ m.objective = some v
  feasible_iff : ∀ ρ : String → K, srcFeasible m ρ = true ↔
    ∃ ρ' : String → K, (∀ x, inScope m.domain x → ρ' x = ρ x) ∧ linFeasible lm ρ' = true
  objective : ∀ ρ : String → K, srcFeasible m ρ = true → ∀ v, eval ρ m.objective = some v →
    (∀ ρ' : String → K, (∀ x, inScope m.domain x → ρ' x = ρ x) → linFeasible lm ρ' = true →
        ∃ w, linObjective lm ρ' = some w ∧ rel (objReq m) w v) ∧
    (∃ ρ' : String → K, (∀ x, inScope m.domain x → ρ' x = ρ x) ∧ linFeasible lm ρ' = true ∧
        linObjective lm ρ' = some v)

/-- the direction of the compiled model is the direction of the source (read off `assemble`). -/
theorem compile_optType {α : Type} [Arith α] {m : Model α} {tol : α} {maxSteps : Nat} {lm : LinModel α}
    (h : Compile.linearize m tol maxSteps = .ok lm) : lm.optType = m.optType := by
  obtain ⟨_, an, _, hlin⟩ := (compile_ok_iff m tol maxSteps lm).mp h
  obtain ⟨objExp, s1, obj, s2, s3, _, _, _, rfl⟩ := (linearizeWith_ok_iff _ _ _ _).mp hlin
  rfl

/-- a model of the piecewise-linear fragment has no bare assertion, so the shape condition on assertions is void. -/
theorem assertShape_of_fragModel {m : Model (Ext K)} {d : List (DomVar (Ext K))} (hm : FragModel true m d) :
    AssertShape m := by
  intro c hc ha
  rw [(hm.cons c hc).notAssert] at ha
  cases ha

/-- **C01 + C02 for the whole pipeline give `CompilesTo`** for EVERY model that compiles under the semantic contract
`LogicModel` (hypotheses: those of `c01_compile_logic_partial` / `c02_compile_logic_partial`). -/
theorem compilesTo_of_compile_logic {m : Model (Ext K)} {t : K} (ht : 0 ≤ t) {maxSteps : Nat} {lm : LinModel (Ext K)}
    (h : Compile.linearize m (.fin t) maxSteps = .ok lm)
    (hm : LogicModel m m.domain) (hsh : AssertShape m) (hok : DeclOK m.domain)
    (ht1 : t < 1 ∨ NoIntegerVars m.domain) :
    CompilesTo m lm :=
  ⟨compile_optType h, compile_obj_defined ht h hm hsh hok ht1,
    compile_feasible_iff_logic ht h hm hsh hok ht1, compile_objective_logic ht h hm hsh hok ht1⟩

/-- the piecewise-linear fragment as a special case (hypotheses: those of `c01_compile_partial`). -/
theorem compilesTo_of_compile {m : Model (Ext K)} {t : K} (ht : 0 ≤ t) {maxSteps : Nat} {lm : LinModel (Ext K)}
    (h : Compile.linearize m (.fin t) maxSteps = .ok lm)
    (hm : FragModel true m m.domain) (hok : DeclOK m.domain)
    (ht1 : t < 1 ∨ NoIntegerVars m.domain) :
    CompilesTo m lm :=
  compilesTo_of_compile_logic ht h (LogicModel.ofFragModel hm) (assertShape_of_fragModel hm) hok ht1

/-! ### order facts about `better` / `rel (objReq m)` -/

/-- a linear value `w` on the model's side of `v` that is not beaten by `v` equals `v`. -/
theorem eq_of_rel_of_not_better {m : Model (Ext K)} {w v : K} (hrel : rel (objReq m) w v)
    (hb : better m.optType v w = false) : w = v := by
  unfold objReq at hrel
  cases ho : m.optType <;> simp only [ho, rel, better_min, better_max, decide_eq_false_iff_not, not_lt] at hrel hb
  · exact le_antisymm hb hrel
  · exact le_antisymm hrel hb
  · exact hrel

/-- `u` not better than `v`, and `w` on the model's side of `u`: `w` is not better than `v`. -/
theorem not_better_of_rel {m : Model (Ext K)} {w u v : K} (hrel : rel (objReq m) w u)
    (hb : better m.optType u v = false) : better m.optType w v = false := by
  unfold objReq at hrel
  cases ho : m.optType <;> simp only [ho, rel, better_min, better_max, better_satisfy, decide_eq_false_iff_not, not_lt] at hrel hb ⊢
  · exact le_trans hb hrel
  · exact le_trans hrel hb

/-- `w` better than `M`, and `w` on the model's side of `u`: `u` is better than `M`. -/
theorem better_of_rel {m : Model (Ext K)} {w u M : K} (hrel : rel (objReq m) w u)
    (hb : better m.optType w M = true) : better m.optType u M = true := by
  unfold objReq at hrel
  cases ho : m.optType <;> simp only [ho, rel, better_min, better_max, better_satisfy, decide_eq_true_eq] at hrel hb ⊢
  · exact lt_of_le_of_lt hrel hb
  · exact lt_of_lt_of_le hb hrel
  · exact absurd hb (by simp)

/-- in a direction (`min`/`max`), two values neither of which beats the other are equal. -/
theorem eq_of_not_better {o : OptType} (ho : o ≠ .satisfy) {a b : K} (h1 : better o a b = false)
    (h2 : better o b a = false) : a = b := by
  cases o with
  | min =>
    simp only [better_min, decide_eq_false_iff_not, not_lt] at h1 h2
    exact le_antisymm h2 h1
  | max =>
    simp only [better_max, decide_eq_false_iff_not, not_lt] at h1 h2
    exact le_antisymm h1 h2
  | satisfy => exact absurd rfl ho

/-! ### the composition -/

section
variable {m : Model (Ext K)} {lm : LinModel (Ext K)}

/-- a point of the linear model is, as it stands, a point of the source model. -/
theorem src_of_lin (hc : CompilesTo m lm) {ρ' : String → K} (hf : linFeasible lm ρ' = true) :
    srcFeasible m ρ' = true :=
  (hc.feasible_iff ρ').mpr ⟨ρ', fun _ _ => rfl, hf⟩

/-- at a point of the linear model the linear objective has a value, on the model's side of the source objective. -/
theorem lin_value (hc : CompilesTo m lm) {ρ' : String → K} (hf : linFeasible lm ρ' = true) {v : K}
    (hv : eval ρ' m.objective = some v) : ∃ w, linObjective lm ρ' = some w ∧ rel (objReq m) w v :=
  (hc.objective ρ' (src_of_lin hc hf) v hv).1 ρ' (fun _ _ => rfl) hf

/-- **an optimum of the compiled model is an optimum of the source, with the same value.** -/
theorem optimal_transfer (hc : CompilesTo m lm) {ρ' : String → K} (ho : LinOptimal lm ρ') :
    ∃ v, SrcOptimal m ρ' v ∧ linObjective lm ρ' = some v := by
  have hs := src_of_lin hc ho.feasible
  obtain ⟨v, hv⟩ := hc.objDefined ρ' hs
  obtain ⟨hall, ρ'', _, hf'', ho''⟩ := hc.objective ρ' hs v hv
  obtain ⟨w, hw, hrel⟩ := hall ρ' (fun _ _ => rfl) ho.feasible
  have hb := ho.best ρ'' hf'' w v hw ho''
  rw [hc.optType] at hb
  have hwv : w = v := eq_of_rel_of_not_better hrel hb
  subst hwv
  refine ⟨w, ⟨hs, hv, ?_⟩, hw⟩
  intro ρ₂ hs₂ u hu
  obtain ⟨_, ρ₃, _, hf₃, ho₃⟩ := hc.objective ρ₂ hs₂ u hu
  have := ho.best ρ₃ hf₃ w u hw ho₃
  rwa [hc.optType] at this

/-- **an optimum of the source extends, on the auxiliaries only, to an optimum of the compiled model with the
same value** (so `LinOptimal` is satisfiable exactly when the source has an optimum). -/
theorem optimal_complete (hc : CompilesTo m lm) {ρ : String → K} {v : K} (hopt : SrcOptimal m ρ v) :
    ∃ ρ' : String → K, (∀ x, inScope m.domain x → ρ' x = ρ x) ∧ LinOptimal lm ρ' ∧ linObjective lm ρ' = some v := by
  obtain ⟨_, ρ', hag, hf, ho⟩ := hc.objective ρ hopt.feasible v hopt.value
  refine ⟨ρ', hag, ⟨hf, ?_⟩, ho⟩
  intro ρ'' hf'' w w'' hw hw''
  rw [ho] at hw; cases hw
  obtain ⟨u, hu⟩ := hc.objDefined ρ'' (src_of_lin hc hf'')
  obtain ⟨w₂, hw₂, hrel⟩ := lin_value hc hf'' hu
  rw [hw''] at hw₂; cases hw₂
  rw [hc.optType]
  exact not_better_of_rel hrel (hopt.best ρ'' (src_of_lin hc hf'') u hu)

/-- **the compiled model has no point iff the source has none.** -/
theorem infeasible_iff (hc : CompilesTo m lm) : LinInfeasible lm ↔ ∀ ρ : String → K, srcFeasible m ρ = false := by
  constructor
  · intro h ρ
    cases hs : srcFeasible m ρ with
    | false => rfl
    | true =>
      obtain ⟨ρ', _, hf⟩ := (hc.feasible_iff ρ).mp hs
      rw [h ρ'] at hf; cases hf
  · intro h ρ'
    cases hf : linFeasible lm ρ' with
    | false => rfl
    | true =>
      have := src_of_lin hc hf
      rw [h ρ'] at this; cases this

/-- **the compiled model is unbounded iff the source is.** -/
theorem unbounded_iff (hc : CompilesTo m lm) : LinUnbounded lm ↔ SrcUnbounded m := by
  constructor
  · intro h M
    obtain ⟨ρ', hf, w, hw, hb⟩ := h M
    obtain ⟨u, hu⟩ := hc.objDefined ρ' (src_of_lin hc hf)
    obtain ⟨w₂, hw₂, hrel⟩ := lin_value hc hf hu
    rw [hw] at hw₂; cases hw₂
    rw [hc.optType] at hb
    exact ⟨ρ', src_of_lin hc hf, u, hu, better_of_rel hrel hb⟩
  · intro h M
    obtain ⟨ρ, hs, u, hu, hb⟩ := h M
    obtain ⟨_, ρ', _, hf, ho⟩ := hc.objective ρ hs u hu
    exact ⟨ρ', hf, u, ho, by rw [hc.optType]; exact hb⟩

end

/-! ### `Closed` (C03's hypothesis on the reference side) follows from `FragModel` -/

theorem varsList_eq_varsOfList {α : Type} : ∀ (es : List (Exp α)), (∀ e ∈ es, Exp.vars e = varsOf e) →
    Exp.varsList es = varsOfList es
  | [], _ => by simp [Exp.varsList, varsOfList]
  | e :: es, h => by
    simp only [Exp.varsList, varsOfList, h e (by simp),
      varsList_eq_varsOfList es (fun e' he' => h e' (List.mem_cons_of_mem _ he'))]

/-- the two "variables of an expression" functions of the library coincide. -/
theorem vars_eq_varsOf {α : Type} (e : Exp α) : Exp.vars e = varsOf e := by
  induction e using Exp.indL with
  | num v => simp [Exp.vars, varsOf]
  | var s => simp [Exp.vars, varsOf]
  | abs e ih => simpa [Exp.vars, varsOf] using ih
  | not e ih => simpa [Exp.vars, varsOf] using ih
  | un op e ih => simpa [Exp.vars, varsOf] using ih
  | min es ih => simpa [Exp.vars, varsOf] using varsList_eq_varsOfList es ih
  | max es ih => simpa [Exp.vars, varsOf] using varsList_eq_varsOfList es ih
  | and es ih => simpa [Exp.vars, varsOf] using varsList_eq_varsOfList es ih
  | or es ih => simpa [Exp.vars, varsOf] using varsList_eq_varsOfList es ih
  | xor a b iha ihb => simp [Exp.vars, varsOf, iha, ihb]
  | implies a b iha ihb => simp [Exp.vars, varsOf, iha, ihb]
  | iff a b iha ihb => simp [Exp.vars, varsOf, iha, ihb]
  | bin op a b iha ihb => simp [Exp.vars, varsOf, iha, ihb]

/-- a model under the contract `LogicModel` mentions only declared variables with a usage mark. -/
theorem closed_of_logicModel {m : Model (Ext K)} (hm : LogicModel m m.domain) : Closed m = true := by
  have key : ∀ x, inScope m.domain x → (usedNames m.domain).contains x = true := by
    rintro x ⟨dv, hdv, hn, hu⟩
    rw [List.contains_iff_mem, mem_usedNames]
    exact ⟨dv, hdv, hu, hn⟩
  simp only [Closed, List.all_eq_true, modelVars, List.mem_append, List.mem_flatMap]
  rintro s (hs | ⟨c, hc, hs⟩)
  · rw [vars_eq_varsOf] at hs
    exact key s (hm.obj.vars s hs)
  · have hsrc := hm.cons c hc
    simp only [consVars] at hs
    split at hs
    · rw [vars_eq_varsOf] at hs
      exact key s (hsrc.lhs.vars s hs)
    · simp only [List.mem_append, vars_eq_varsOf] at hs
      rcases hs with hs | hs
      · exact key s (hsrc.lhs.vars s hs)
      · exact key s (hsrc.rhs.vars s hs)

/-- a model of the fragment mentions only declared variables with a usage mark. -/
theorem closed_of_fragModel {m : Model (Ext K)} (hm : FragModel true m m.domain) : Closed m = true :=
  closed_of_logicModel (LogicModel.ofFragModel hm)

end Rooc.Compose
