/-
Bridge from Mathlib's ordered fields to the import-free `ExactField` interface, so that the
*same* model definitions that run at `Rat` are the ones the theorems are about, for every
linearly ordered field `K` (in particular ℝ).
-/
import Rooc.Num
import Mathlib.Algebra.Order.Field.Basic
import Mathlib.Algebra.Order.Floor.Ring
import Mathlib.Tactic.Linarith
import Mathlib.Tactic.Ring
import Mathlib.Tactic.FieldSimp

namespace Rooc
open Classical in
noncomputable instance fieldExact (K : Type) [Field K] [LinearOrder K] [IsStrictOrderedRing K] [FloorRing K] :
    ExactField K where
  ofInt i := (i : K)
  add := (· + ·)
  sub := (· - ·)
  mul := (· * ·)
  div := (· / ·)
  neg := fun a => -a
  lt a b := decide (a < b)
  le a b := decide (a ≤ b)
  eq a b := decide (a = b)
  floor := Int.floor
  ceil := Int.ceil

section
variable {K : Type} [Field K] [LinearOrder K] [IsStrictOrderedRing K] [FloorRing K]
@[simp] theorem ef_ofInt (i : Int) : (ExactField.ofInt i : K) = (i : K) := rfl
@[simp] theorem ef_add (a b : K) : ExactField.add a b = a + b := rfl
@[simp] theorem ef_sub (a b : K) : ExactField.sub a b = a - b := rfl
@[simp] theorem ef_mul (a b : K) : ExactField.mul a b = a * b := rfl
@[simp] theorem ef_div (a b : K) : ExactField.div a b = a / b := rfl
@[simp] theorem ef_neg (a : K) : ExactField.neg a = -a := rfl
@[simp] theorem ef_lt (a b : K) : ExactField.lt a b = decide (a < b) := rfl
@[simp] theorem ef_le (a b : K) : ExactField.le a b = decide (a ≤ b) := rfl
@[simp] theorem ef_eq (a b : K) : ExactField.eq a b = decide (a = b) := rfl
@[simp] theorem ef_floor (a : K) : ExactField.floor a = Int.floor a := rfl
@[simp] theorem ef_ceil (a : K) : ExactField.ceil a = Int.ceil a := rfl
end
end Rooc
