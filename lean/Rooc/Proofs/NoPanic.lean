/-
The parser model never reaches a `panic!` of pest's Pratt driver: the pairs that the PEG rule `exp` hands to
`PrattParser::parse` are always `[prefix] leaf (infix [prefix] leaf)*`, and on such a list the loop
`expr / nud / led / lbp` only ever looks up operators that are in the table with the right affix.
-/
import Rooc.Syntax.Parse
namespace Rooc.Syntax.Proofs
open Rooc Rooc.Syntax

def isPrefixRule (rule : String) : Bool :=
  match getOp rule with
  | some (.pre, _) => true
  | _ => false
def isInfixRule (rule : String) : Bool :=
  match getOp rule with
  | some (.inL, _) | some (.inR, _) => true
  | _ => false

/-- state machine of the shape `[prefix] leaf (infix [prefix] leaf)*`:
0 = an operand starts, 1 = a leaf must follow its prefix operator, 2 = an operand is complete -/
def run : Nat → List Item → Option Nat
  | s, [] => some s
  | 0, .leaf _ :: r => run 2 r
  | 0, .op b :: r => if isPrefixRule b then run 1 r else none
  | 1, .leaf _ :: r => run 2 r
  | 2, .op b :: r => if isInfixRule b then run 0 r else none
  | _, _ => none

/-- a (suffix of a) pair list as the PEG produces it, read from state `s`, ends with a complete operand -/
def Shaped (s : Nat) (items : List Item) : Prop := run s items = some 2

theorem run_append (s : Nat) (a b : List Item) : run s (a ++ b) = (run s a).bind (fun s' => run s' b) := by
  induction a generalizing s with
  | nil => simp [run]
  | cons x xs ih =>
    cases x with
    | leaf t =>
      match s with
      | 0 => simp [run, ih]
      | 1 => simp [run, ih]
      | 2 => simp [run]
      | n+3 => simp [run]
    | op b =>
      match s with
      | 0 => by_cases h : isPrefixRule b = true <;> simp [run, h, ih]
      | 1 => simp [run]
      | 2 => by_cases h : isInfixRule b = true <;> simp [run, h, ih]
      | n+3 => simp [run]

theorem shaped1_0 {items : List Item} (h : Shaped 1 items) : Shaped 0 items := by
  cases items with
  | nil => simp [Shaped, run] at h
  | cons x r => cases x <;> simp_all [Shaped, run]

/-! ### the operators the PEG can produce are in the table with the right affix -/

theorem unRule_prefix {tk : Tok} {rule : String} (h : unRule tk = some rule) : isPrefixRule rule = true := by
  unfold unRule ruleOfTok at h
  split at h
  · cases h
  · have := List.find?_some h
    have hm := List.mem_of_find?_eq_some h
    simp only [Gen.unaryOpAlts, List.mem_cons, List.not_mem_nil, or_false] at hm
    rcases hm with rfl | rfl <;> decide

theorem binRule_infix {tk : Tok} {rule : String} (h : binRule tk = some rule) : isInfixRule rule = true := by
  unfold binRule ruleOfTok at h
  split at h
  · cases h
  · have hm := List.mem_of_find?_eq_some h
    simp only [Gen.binaryOpAlts, List.mem_cons, List.not_mem_nil, or_false] at hm
    rcases hm with rfl | rfl | rfl | rfl | rfl | rfl | rfl | rfl | rfl <;> decide

/-! ### the Pratt loop on shaped lists -/

/-- not a panic; a successful step leaves a list that continues after a complete operand -/
def GoodRes (res : PRes (PExp × List Item)) : Prop :=
  match res with
  | .ok (_, rest) => Shaped 2 rest
  | .error .panic => False
  | .error _ => True

theorem good_error {e : PErr} (h : e ≠ .panic) : GoodRes (.error e) := by
  cases e <;> simp_all [GoodRes]

theorem good_cases {res : PRes (PExp × List Item)} (h : GoodRes res) :
    (∃ e, res = .error e ∧ e ≠ .panic) ∨ (∃ t rest, res = .ok (t, rest) ∧ Shaped 2 rest) := by
  match res, h with
  | .ok (t, rest), h => exact Or.inr ⟨t, rest, rfl, h⟩
  | .error .reject, _ => exact Or.inl ⟨_, rfl, by simp⟩
  | .error .fuel, _ => exact Or.inl ⟨_, rfl, by simp⟩

theorem pratt_good : ∀ f : Nat,
    (∀ r items, Shaped 0 items → GoodRes (expr f r items))
    ∧ (∀ items, Shaped 0 items → GoodRes (nud f items))
    ∧ (∀ r lhs items, Shaped 2 items → GoodRes (loop f r lhs items)) := by
  intro f
  induction f with
  | zero => exact ⟨fun _ _ _ => by simp [expr, GoodRes], fun _ _ => by simp [nud, GoodRes], fun _ _ _ _ => by simp [loop, GoodRes]⟩
  | succ f ih =>
    obtain ⟨ihE, ihN, ihL⟩ := ih
    refine ⟨?_, ?_, ?_⟩
    · intro r items hs
      rcases good_cases (ihN items hs) with ⟨e, he, hne⟩ | ⟨t, rest, he, hr⟩
      · simp only [expr, he]; exact good_error hne
      · simp only [expr, he]; exact ihL r t rest hr
    · intro items hs
      cases items with
      | nil => simp [Shaped, run] at hs
      | cons x rest =>
        cases x with
        | leaf t =>
          have : Shaped 2 rest := by simpa [Shaped, run] using hs
          simpa [nud, GoodRes] using this
        | op rule =>
          have hp : isPrefixRule rule = true ∧ Shaped 1 rest := by
            by_cases h : isPrefixRule rule = true
            · exact ⟨h, by simpa [Shaped, run, h] using hs⟩
            · simp [Shaped, run, h] at hs
          obtain ⟨hpre, hs1⟩ := hp
          unfold isPrefixRule at hpre
          cases hg : getOp rule with
          | none => simp [hg] at hpre
          | some ap =>
            obtain ⟨a, prec⟩ := ap
            cases a <;> simp [hg] at hpre
            rcases good_cases (ihE (prec - 1) rest (shaped1_0 hs1)) with ⟨e, he, hne⟩ | ⟨t, rest', he, hr⟩
            · simp only [nud, hg, he]; exact good_error hne
            · simp only [nud, hg, he]
              cases prefixArm rule with
              | none => simp [GoodRes]
              | some u => simpa [GoodRes] using hr
    · intro r lhs items hs
      cases items with
      | nil => simp [loop, lbp, GoodRes, Shaped, run]
      | cons x rest =>
        cases x with
        | leaf t => simp [Shaped, run] at hs
        | op rule =>
          have hp : isInfixRule rule = true ∧ Shaped 0 rest := by
            by_cases h : isInfixRule rule = true
            · exact ⟨h, by simpa [Shaped, run, h] using hs⟩
            · simp [Shaped, run, h] at hs
          obtain ⟨hin, hs0⟩ := hp
          unfold isInfixRule at hin
          cases hg : getOp rule with
          | none => simp [hg] at hin
          | some ap =>
            obtain ⟨a, prec⟩ := ap
            by_cases hlt : r < prec
            · cases a with
              | pre => simp [hg] at hin
              | post => simp [hg] at hin
              | inL =>
                rcases good_cases (ihE prec rest hs0) with ⟨e, he, hne⟩ | ⟨t, rest', he, hr⟩
                · simp only [loop, lbp, hg, hlt, if_true, he]; exact good_error hne
                · simp only [loop, lbp, hg, hlt, if_true, he]
                  cases infixArm rule with
                  | none => simp [GoodRes]
                  | some o => exact ihL r _ rest' hr
              | inR =>
                rcases good_cases (ihE (prec - 1) rest hs0) with ⟨e, he, hne⟩ | ⟨t, rest', he, hr⟩
                · simp only [loop, lbp, hg, hlt, if_true, he]; exact good_error hne
                · simp only [loop, lbp, hg, hlt, if_true, he]
                  cases infixArm rule with
                  | none => simp [GoodRes]
                  | some o => exact ihL r _ rest' hr
            · simp only [loop, lbp, hg, hlt, if_false]
              simpa [GoodRes] using hs

/-- `PrattParser::parse` never panics on the pairs of an `exp` -/
theorem prattParse_no_panic {items : List Item} (h : Shaped 0 items) : prattParse items ≠ .error .panic := by
  have := (pratt_good (2 * items.length + 2)).1 0 items h
  unfold prattParse
  rcases good_cases this with ⟨e, he, hne⟩ | ⟨t, rest, he, _⟩
  · simp only [he]; intro h'; injection h' with h'; exact hne h'
  · simp [he]

/-! ### the pairs of an `exp` are shaped -/

theorem optUnary_shape (toks : List Tok) (x : PExp) : run 0 ((optUnary toks).1 ++ [.leaf x]) = some 2 := by
  unfold optUnary
  split
  · simp [run]
  · rename_i t r _
    cases h : unRule t with
    | none => simp [run]
    | some rule => simp [run, unRule_prefix h]
  · simp [run]

theorem collectLoop_shaped : ∀ (f : Nat) (toks : List Tok) (acc items : List Item) (rest : List Tok),
    run 0 acc = some 2 → collectLoop f toks acc = .ok (items, rest) → Shaped 0 items := by
  intro f
  induction f with
  | zero => intro toks acc items rest _ h; simp [collectLoop] at h
  | succ f ih =>
    intro toks acc items rest hacc h
    cases toks with
    | nil => simp [collectLoop] at h; rw [← h.1]; exact hacc
    | cons t r =>
      simp only [collectLoop] at h
      split at h
      · injection h with h; injection h with h1 _; rw [← h1]; exact hacc
      · rename_i rule hrule
        have hb : binRule t = some rule := by
          split at hrule
          · cases hrule
          · exact hrule
        split at h
        · injection h with h; injection h with h1 _; rw [← h1]; exact hacc
        · cases h
        · rename_i x rest' hl
          refine ih rest' _ items rest ?_ h
          have : acc ++ .op rule :: (optUnary r).1 ++ [.leaf x] = acc ++ (.op rule :: ((optUnary r).1 ++ [.leaf x])) := by simp
          rw [this, run_append, hacc]
          simp [run, binRule_infix hb, optUnary_shape]

theorem collect_shaped (f : Nat) (toks : List Tok) (items : List Item) (rest : List Tok)
    (h : collect f toks = .ok (items, rest)) : Shaped 0 items := by
  cases f with
  | zero => simp [collect] at h
  | succ f =>
    simp only [collect] at h
    cases hl : leaf f (optUnary toks).2 with
    | error e => rw [hl] at h; cases h
    | ok p =>
      obtain ⟨t, rest'⟩ := p
      rw [hl] at h
      exact collectLoop_shaped f rest' _ items rest (optUnary_shape toks t) h

/-! ### no function of the parser model returns `panic` -/

theorem err_ne {α : Type} {x : PRes α} {e : PErr} (h : x = .error e) (hx : x ≠ .error .panic) : e ≠ .panic := by
  intro he; subst he; exact hx h

theorem wordLeaf_no_panic (w : String) (r : List Tok) : wordLeaf w r ≠ .error .panic := by
  simp only [wordLeaf]
  repeat' split
  all_goals simp

theorem arrayLeaf_no_panic (r : List Tok) : arrayLeaf r ≠ .error .panic := by
  simp only [arrayLeaf]
  repeat' split
  all_goals simp

/-- no function of the model returns `panic` at fuel `f` -/
def NoPanicAt (f : Nat) : Prop :=
    (∀ toks, parseExp f toks ≠ .error .panic)
    ∧ (∀ toks, collect f toks ≠ .error .panic)
    ∧ (∀ toks acc, collectLoop f toks acc ≠ .error .panic)
    ∧ (∀ toks, leaf f toks ≠ .error .panic)
    ∧ (∀ w toks, wordRest f w toks ≠ .error .panic)
    ∧ (∀ n toks, scopedFn f n toks ≠ .error .panic)
    ∧ (∀ toks vs its, iterList f toks vs its ≠ .error .panic)
    ∧ (∀ toks, iterDecl f toks ≠ .error .panic)
    ∧ (∀ toks, iterator f toks ≠ .error .panic)
    ∧ (∀ toks acc, expList f toks acc ≠ .error .panic)
    ∧ (∀ toks acc, accessLoop f toks acc ≠ .error .panic)
    ∧ (∀ toks acc, indexLoop f toks acc ≠ .error .panic)
    ∧ (∀ toks, args f toks ≠ .error .panic)
    ∧ (∀ toks acc, argsTail f toks acc ≠ .error .panic)
    ∧ (∀ toks acc, atoms f toks acc ≠ .error .panic)
    ∧ (∀ toks, optVariable f toks ≠ .error .panic)
    ∧ (∀ toks, imulOrSingle f toks ≠ .error .panic)

theorem np_parseExp (f : Nat) (ih : NoPanicAt f) : ∀ toks, parseExp (f+1) toks ≠ .error .panic := by
  obtain ⟨hPE, hC, hCL, hL, hWR, hS, hIL, hID, hIt, hEL, hAL, hIx, hA, hAT, hAt, hOV, hI⟩ := ih
  intro toks
  simp only [parseExp]
  cases hc : collect f toks with
  | error e => simp only; intro h; injection h with h; exact err_ne hc (hC toks) h
  | ok p =>
    obtain ⟨items, rest⟩ := p
    simp only
    have hp := prattParse_no_panic (collect_shaped f toks items rest hc)
    cases hpp : prattParse items with
    | error e => simp only; intro h; injection h with h; subst h; exact hp hpp
    | ok t => simp
theorem np_collect (f : Nat) (ih : NoPanicAt f) : ∀ toks, collect (f+1) toks ≠ .error .panic := by
  obtain ⟨hPE, hC, hCL, hL, hWR, hS, hIL, hID, hIt, hEL, hAL, hIx, hA, hAT, hAt, hOV, hI⟩ := ih
  have hWL := wordLeaf_no_panic
  have hAr := arrayLeaf_no_panic
  intro toks
  simp only [collect]
  repeat' split
  all_goals first | (simp_all; done) | (intro hh; injection hh with hh; subst hh; simp_all)
theorem np_collectLoop (f : Nat) (ih : NoPanicAt f) : ∀ toks acc, collectLoop (f+1) toks acc ≠ .error .panic := by
  obtain ⟨hPE, hC, hCL, hL, hWR, hS, hIL, hID, hIt, hEL, hAL, hIx, hA, hAT, hAt, hOV, hI⟩ := ih
  have hWL := wordLeaf_no_panic
  have hAr := arrayLeaf_no_panic
  intro toks acc
  simp only [collectLoop]
  repeat' split
  all_goals first | (simp_all; done) | (intro hh; injection hh with hh; subst hh; simp_all)
theorem np_leaf (f : Nat) (ih : NoPanicAt f) : ∀ toks, leaf (f+1) toks ≠ .error .panic := by
  obtain ⟨hPE, hC, hCL, hL, hWR, hS, hIL, hID, hIt, hEL, hAL, hIx, hA, hAT, hAt, hOV, hI⟩ := ih
  have hWL := wordLeaf_no_panic
  have hAr := arrayLeaf_no_panic
  intro toks
  simp only [leaf]
  repeat' split
  all_goals first | (simp_all; done) | (intro hh; injection hh with hh; subst hh; simp_all)
theorem np_wordRest (f : Nat) (ih : NoPanicAt f) : ∀ w toks, wordRest (f+1) w toks ≠ .error .panic := by
  obtain ⟨hPE, hC, hCL, hL, hWR, hS, hIL, hID, hIt, hEL, hAL, hIx, hA, hAT, hAt, hOV, hI⟩ := ih
  have hWL := wordLeaf_no_panic
  have hAr := arrayLeaf_no_panic
  intro w toks
  simp only [wordRest]
  repeat' split
  all_goals first | (simp_all; done) | (intro hh; injection hh with hh; subst hh; simp_all)
theorem np_scopedFn (f : Nat) (ih : NoPanicAt f) : ∀ n toks, scopedFn (f+1) n toks ≠ .error .panic := by
  obtain ⟨hPE, hC, hCL, hL, hWR, hS, hIL, hID, hIt, hEL, hAL, hIx, hA, hAT, hAt, hOV, hI⟩ := ih
  have hWL := wordLeaf_no_panic
  have hAr := arrayLeaf_no_panic
  intro n toks
  simp only [scopedFn]
  repeat' split
  all_goals first | (simp_all; done) | (intro hh; injection hh with hh; subst hh; simp_all)
theorem np_iterList (f : Nat) (ih : NoPanicAt f) : ∀ toks vs its, iterList (f+1) toks vs its ≠ .error .panic := by
  obtain ⟨hPE, hC, hCL, hL, hWR, hS, hIL, hID, hIt, hEL, hAL, hIx, hA, hAT, hAt, hOV, hI⟩ := ih
  have hWL := wordLeaf_no_panic
  have hAr := arrayLeaf_no_panic
  intro toks vs its
  simp only [iterList]
  repeat' split
  all_goals first | (simp_all; done) | (intro hh; injection hh with hh; subst hh; simp_all)
theorem np_iterDecl (f : Nat) (ih : NoPanicAt f) : ∀ toks, iterDecl (f+1) toks ≠ .error .panic := by
  obtain ⟨hPE, hC, hCL, hL, hWR, hS, hIL, hID, hIt, hEL, hAL, hIx, hA, hAT, hAt, hOV, hI⟩ := ih
  have hWL := wordLeaf_no_panic
  have hAr := arrayLeaf_no_panic
  intro toks
  simp only [iterDecl]
  repeat' split
  all_goals first | (simp_all; done) | (intro hh; injection hh with hh; subst hh; simp_all)
theorem np_iterator (f : Nat) (ih : NoPanicAt f) : ∀ toks, iterator (f+1) toks ≠ .error .panic := by
  obtain ⟨hPE, hC, hCL, hL, hWR, hS, hIL, hID, hIt, hEL, hAL, hIx, hA, hAT, hAt, hOV, hI⟩ := ih
  have hWL := wordLeaf_no_panic
  have hAr := arrayLeaf_no_panic
  intro toks
  simp only [iterator]
  repeat' split
  all_goals first | (simp_all; done) | (intro hh; injection hh with hh; subst hh; simp_all)
theorem np_expList (f : Nat) (ih : NoPanicAt f) : ∀ toks acc, expList (f+1) toks acc ≠ .error .panic := by
  obtain ⟨hPE, hC, hCL, hL, hWR, hS, hIL, hID, hIt, hEL, hAL, hIx, hA, hAT, hAt, hOV, hI⟩ := ih
  have hWL := wordLeaf_no_panic
  have hAr := arrayLeaf_no_panic
  intro toks acc
  simp only [expList]
  repeat' split
  all_goals first | (simp_all; done) | (intro hh; injection hh with hh; subst hh; simp_all)
theorem np_accessLoop (f : Nat) (ih : NoPanicAt f) : ∀ toks acc, accessLoop (f+1) toks acc ≠ .error .panic := by
  obtain ⟨hPE, hC, hCL, hL, hWR, hS, hIL, hID, hIt, hEL, hAL, hIx, hA, hAT, hAt, hOV, hI⟩ := ih
  have hWL := wordLeaf_no_panic
  have hAr := arrayLeaf_no_panic
  intro toks acc
  simp only [accessLoop]
  repeat' split
  all_goals first | (simp_all; done) | (intro hh; injection hh with hh; subst hh; simp_all)
theorem np_indexLoop (f : Nat) (ih : NoPanicAt f) : ∀ toks acc, indexLoop (f+1) toks acc ≠ .error .panic := by
  obtain ⟨hPE, hC, hCL, hL, hWR, hS, hIL, hID, hIt, hEL, hAL, hIx, hA, hAT, hAt, hOV, hI⟩ := ih
  have hWL := wordLeaf_no_panic
  have hAr := arrayLeaf_no_panic
  intro toks acc
  simp only [indexLoop]
  repeat' split
  all_goals first | (simp_all; done) | (intro hh; injection hh with hh; subst hh; simp_all)
theorem np_args (f : Nat) (ih : NoPanicAt f) : ∀ toks, args (f+1) toks ≠ .error .panic := by
  obtain ⟨hPE, hC, hCL, hL, hWR, hS, hIL, hID, hIt, hEL, hAL, hIx, hA, hAT, hAt, hOV, hI⟩ := ih
  have hWL := wordLeaf_no_panic
  have hAr := arrayLeaf_no_panic
  intro toks
  simp only [args]
  repeat' split
  all_goals first | (simp_all; done) | (intro hh; injection hh with hh; subst hh; simp_all)
theorem np_argsTail (f : Nat) (ih : NoPanicAt f) : ∀ toks acc, argsTail (f+1) toks acc ≠ .error .panic := by
  obtain ⟨hPE, hC, hCL, hL, hWR, hS, hIL, hID, hIt, hEL, hAL, hIx, hA, hAT, hAt, hOV, hI⟩ := ih
  have hWL := wordLeaf_no_panic
  have hAr := arrayLeaf_no_panic
  intro toks acc
  simp only [argsTail]
  repeat' split
  all_goals first | (simp_all; done) | (intro hh; injection hh with hh; subst hh; simp_all)
theorem np_atoms (f : Nat) (ih : NoPanicAt f) : ∀ toks acc, atoms (f+1) toks acc ≠ .error .panic := by
  obtain ⟨hPE, hC, hCL, hL, hWR, hS, hIL, hID, hIt, hEL, hAL, hIx, hA, hAT, hAt, hOV, hI⟩ := ih
  have hWL := wordLeaf_no_panic
  have hAr := arrayLeaf_no_panic
  intro toks acc
  simp only [atoms]
  repeat' split
  all_goals first | (simp_all; done) | (intro hh; injection hh with hh; subst hh; simp_all)
theorem np_optVariable (f : Nat) (ih : NoPanicAt f) : ∀ toks, optVariable (f+1) toks ≠ .error .panic := by
  obtain ⟨hPE, hC, hCL, hL, hWR, hS, hIL, hID, hIt, hEL, hAL, hIx, hA, hAT, hAt, hOV, hI⟩ := ih
  have hWL := wordLeaf_no_panic
  have hAr := arrayLeaf_no_panic
  intro toks
  simp only [optVariable]
  repeat' split
  all_goals first | (simp_all; done) | (intro hh; injection hh with hh; subst hh; simp_all)
theorem np_imulOrSingle (f : Nat) (ih : NoPanicAt f) : ∀ toks, imulOrSingle (f+1) toks ≠ .error .panic := by
  obtain ⟨hPE, hC, hCL, hL, hWR, hS, hIL, hID, hIt, hEL, hAL, hIx, hA, hAT, hAt, hOV, hI⟩ := ih
  have hWL := wordLeaf_no_panic
  have hAr := arrayLeaf_no_panic
  intro toks
  simp only [imulOrSingle]
  repeat' split
  all_goals first | (simp_all; done) | (intro hh; injection hh with hh; subst hh; simp_all)

theorem no_panic : ∀ f : Nat, NoPanicAt f := by
  intro f
  induction f with
  | zero =>
    refine ⟨?_, ?_, ?_, ?_, ?_, ?_, ?_, ?_, ?_, ?_, ?_, ?_, ?_, ?_, ?_, ?_, ?_⟩ <;> intros <;>
      simp [parseExp, collect, collectLoop, leaf, wordRest, scopedFn, iterList, iterDecl, iterator, expList, accessLoop,
        indexLoop, args, argsTail, atoms, optVariable, imulOrSingle]
  | succ f ih =>
    exact ⟨np_parseExp f ih, np_collect f ih, np_collectLoop f ih, np_leaf f ih, np_wordRest f ih, np_scopedFn f ih, np_iterList f ih, np_iterDecl f ih, np_iterator f ih, np_expList f ih, np_accessLoop f ih, np_indexLoop f ih, np_args f ih, np_argsTail f ih, np_atoms f ih, np_optVariable f ih, np_imulOrSingle f ih⟩

/-- **The parser model never panics**: on no token sequence does the Pratt driver reach one of its
`panic!` / `expect` sites. -/
theorem parseToksRaw_no_panic (toks : List Tok) : parseToksRaw toks ≠ .error .panic := by
  unfold parseToksRaw
  have := (no_panic (parseFuel toks)).1 toks
  cases hp : parseExp (parseFuel toks) toks with
  | error e => simp only; intro h; injection h with h; exact err_ne hp this h
  | ok p =>
    obtain ⟨t, rest⟩ := p
    cases rest <;> simp

theorem parseToks_no_panic (toks : List Tok) : parseToks toks ≠ .error .panic := by
  unfold parseToks
  have := parseToksRaw_no_panic toks
  cases hp : parseToksRaw toks with
  | error e => simp only; intro h; injection h with h; exact this (by rw [hp, h])
  | ok t => simp only; split <;> simp

end Rooc.Syntax.Proofs
