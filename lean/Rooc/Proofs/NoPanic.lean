/-
The parser model never reaches a `panic!` of pest's Pratt driver: the pairs that the PEG rule `exp` hands to
`PrattParser::parse` are always `[prefix] leaf (infix [prefix] leaf)*`, and on such a list the loop
`expr / nud / led / lbp` only ever looks up operators that are in the table with the right affix.
-/
import Rooc.Syntax.Parse
namespace Rooc.Syntax.Proofs
open Rooc Rooc.Syntax

def isPrefixRule (rule : String) : Bool :=
  match getOp rule with
  | some (.pre, _) => true
  | _ => false
def isInfixRule (rule : String) : Bool :=
  match getOp rule with
  | some (.inL, _) | some (.inR, _) => true
  | _ => false

/-- state machine of the shape `[prefix] leaf (infix [prefix] leaf)*`:
0 = an operand starts, 1 = a leaf must follow its prefix operator, 2 = an operand is complete -/
def run : Nat → List Item → Option Nat
  | s, [] => some s
  | 0, .leaf _ :: r => run 2 r
  | 0, .op b :: r => if isPrefixRule b then run 1 r else none
  | 1, .leaf _ :: r => run 2 r
  | 2, .op b :: r => if isInfixRule b then run 0 r else none
  | _, _ => none

/-- a (suffix of a) pair list as the PEG produces it, read from state `s`, ends with a complete operand -/
def Shaped (s : Nat) (items : List Item) : Prop := run s items = some 2

theorem run_append (s : Nat) (a b : List Item) : run s (a ++ b) = (run s a).bind (fun s' => run s' b) := by
  induction a generalizing s with
  | nil => simp [run]
  | cons x xs ih =>
    cases x with
    | leaf t =>
      match s with
      | 0 => simp [run, ih]
      | 1 => simp [run, ih]
      | 2 => simp [run]
      | n+3 => simp [run]
    | op b =>
      match s with
      | 0 => by_cases h : isPrefixRule b = true <;> simp [run, h, ih]
      | 1 => simp [run]
      | 2 => by_cases h : isInfixRule b = true <;> simp [run, h, ih]
      | n+3 => simp [run]

theorem shaped1_0 {items : List Item} (h : Shaped 1 items) : Shaped 0 items := by
  cases items with
  | nil => simp [Shaped, run] at h
  | cons x r => cases x <;> simp_all [Shaped, run]

/-! ### the operators the PEG can produce are in the table with the right affix -/

theorem unRule_prefix {tk : Tok} {rule : String} (h : unRule tk = some rule) : isPrefixRule rule = true := by
  unfold unRule ruleOfTok at h
  split at h
  · cases h
  · have := List.find?_some h
    have hm := List.mem_of_find?_eq_some h
    simp only [Gen.unaryOpAlts, List.mem_cons, List.not_mem_nil, or_false] at hm
    rcases hm with rfl | rfl <;> decide

theorem binRule_infix {tk : Tok} {rule : String} (h : binRule tk = some rule) : isInfixRule rule = true := by
  unfold binRule ruleOfTok at h
  split at h
  · cases h
  · have hm := List.mem_of_find?_eq_some h
    simp only [Gen.binaryOpAlts, List.mem_cons, List.not_mem_nil, or_false] at hm
    rcases hm with rfl | rfl | rfl | rfl | rfl | rfl | rfl | rfl | rfl <;> decide

/-! ### the Pratt loop on shaped lists -/

/-- not a panic; a successful step leaves a list that continues after a complete operand -/
def GoodRes (res : PRes (PExp × List Item)) : Prop :=
  match res with
  | .ok (_, rest) => Shaped 2 rest
  | .error .panic => False
  | .error _ => True

theorem good_error {e : PErr} (h : e ≠ .panic) : GoodRes (.error e) := by
  cases e <;> simp_all [GoodRes]

theorem good_cases {res : PRes (PExp × List Item)} (h : GoodRes res) :
    (∃ e, res = .error e ∧ e ≠ .panic) ∨ (∃ t rest, res = .ok (t, rest) ∧ Shaped 2 rest) := by
  match res, h with
  | .ok (t, rest), h => exact Or.inr ⟨t, rest, rfl, h⟩
  | .error .reject, _ => exact Or.inl ⟨_, rfl, by simp⟩
  | .error .fuel, _ => exact Or.inl ⟨_, rfl, by simp⟩

theorem pratt_good : ∀ f : Nat,
    (∀ r items, Shaped 0 items → GoodRes (expr f r items))
    ∧ (∀ items, Shaped 0 items → GoodRes (nud f items))
    ∧ (∀ r lhs items, Shaped 2 items → GoodRes (loop f r lhs items)) := by
  intro f
  induction f with
  | zero => exact ⟨fun _ _ _ => by simp [expr, GoodRes], fun _ _ => by simp [nud, GoodRes], fun _ _ _ _ => by simp [loop, GoodRes]⟩
  | succ f ih =>
    obtain ⟨ihE, ihN, ihL⟩ := ih
    refine ⟨?_, ?_, ?_⟩
    · intro r items hs
      rcases good_cases (ihN items hs) with ⟨e, he, hne⟩ | ⟨t, rest, he, hr⟩
      · simp only [expr, he]; exact good_error hne
      · simp only [expr, he]; exact ihL r t rest hr
    · intro items hs
      cases items with
      | nil => simp [Shaped, run] at hs
      | cons x rest =>
        cases x with
        | leaf t =>
          have : Shaped 2 rest := by simpa [Shaped, run] using hs
          simpa [nud, GoodRes] using this
        | op rule =>
          have hp : isPrefixRule rule = true ∧ Shaped 1 rest := by
            by_cases h : isPrefixRule rule = true
            · exact ⟨h, by simpa [Shaped, run, h] using hs⟩
            · simp [Shaped, run, h] at hs
          obtain ⟨hpre, hs1⟩ := hp
          unfold isPrefixRule at hpre
          cases hg : getOp rule with
          | none => simp [hg] at hpre
          | some ap =>
            obtain ⟨a, prec⟩ := ap
            cases a <;> simp [hg] at hpre
            rcases good_cases (ihE (prec - 1) rest (shaped1_0 hs1)) with ⟨e, he, hne⟩ | ⟨t, rest', he, hr⟩
            · simp only [nud, hg, he]; exact good_error hne
            · simp only [nud, hg, he]
              cases prefixArm rule with
              | none => simp [GoodRes]
              | some u => simpa [GoodRes] using hr
    · intro r lhs items hs
      cases items with
      | nil => simp [loop, lbp, GoodRes, Shaped, run]
      | cons x rest =>
        cases x with
        | leaf t => simp [Shaped, run] at hs
        | op rule =>
          have hp : isInfixRule rule = true ∧ Shaped 0 rest := by
            by_cases h : isInfixRule rule = true
            · exact ⟨h, by simpa [Shaped, run, h] using hs⟩
            · simp [Shaped, run, h] at hs
          obtain ⟨hin, hs0⟩ := hp
          unfold isInfixRule at hin
          cases hg : getOp rule with
          | none => simp [hg] at hin
          | some ap =>
            obtain ⟨a, prec⟩ := ap
            by_cases hlt : r < prec
            · cases a with
              | pre => simp [hg] at hin
              | post => simp [hg] at hin
              | inL =>
                rcases good_cases (ihE prec rest hs0) with ⟨e, he, hne⟩ | ⟨t, rest', he, hr⟩
                · simp only [loop, lbp, hg, hlt, if_true, he]; exact good_error hne
                · simp only [loop, lbp, hg, hlt, if_true, he]
                  cases infixArm rule with
                  | none => simp [GoodRes]
                  | some o => exact ihL r _ rest' hr
              | inR =>
                rcases good_cases (ihE (prec - 1) rest hs0) with ⟨e, he, hne⟩ | ⟨t, rest', he, hr⟩
                · simp only [loop, lbp, hg, hlt, if_true, he]; exact good_error hne
                · simp only [loop, lbp, hg, hlt, if_true, he]
                  cases infixArm rule with
                  | none => simp [GoodRes]
                  | some o => exact ihL r _ rest' hr
            · simp only [loop, lbp, hg, hlt, if_false]
              simpa [GoodRes] using hs

/-- `PrattParser::parse` never panics on the pairs of an `exp` -/
theorem prattParse_no_panic {items : List Item} (h : Shaped 0 items) : prattParse items ≠ .error .panic := by
  have := (pratt_good (2 * items.length + 2)).1 0 items h
  unfold prattParse
  rcases good_cases this with ⟨e, he, hne⟩ | ⟨t, rest, he, _⟩
  · simp only [he]; intro h'; injection h' with h'; exact hne h'
  · simp [he]

/-! ### the pairs of an `exp` are shaped -/

theorem optUnary_shape (toks : List Tok) (x : PExp) : run 0 ((optUnary toks).1 ++ [.leaf x]) = some 2 := by
  cases toks with
  | nil => simp [optUnary, run]
  | cons t r =>
    simp only [optUnary]
    cases h : unRule t with
    | none => simp [run]
    | some rule => simp [run, unRule_prefix h]

theorem collectLoop_shaped : ∀ (f : Nat) (toks : List Tok) (acc items : List Item) (rest : List Tok),
    run 0 acc = some 2 → collectLoop f toks acc = .ok (items, rest) → Shaped 0 items := by
  intro f
  induction f with
  | zero => intro toks acc items rest _ h; simp [collectLoop] at h
  | succ f ih =>
    intro toks acc items rest hacc h
    cases toks with
    | nil => simp [collectLoop] at h; rw [← h.1]; exact hacc
    | cons t r =>
      simp only [collectLoop] at h
      cases hb : binRule t with
      | none => simp [hb] at h; rw [← h.1]; exact hacc
      | some rule =>
        simp only [hb] at h
        cases hl : leaf f (optUnary r).2 with
        | error e =>
          rw [hl] at h
          cases e <;> simp at h
          rw [← h.1]; exact hacc
        | ok p =>
          obtain ⟨x, rest'⟩ := p
          rw [hl] at h
          refine ih rest' _ items rest ?_ h
          have : acc ++ .op rule :: (optUnary r).1 ++ [.leaf x] = acc ++ (.op rule :: ((optUnary r).1 ++ [.leaf x])) := by simp
          rw [this, run_append, hacc]
          simp [run, binRule_infix hb, optUnary_shape]

theorem collect_shaped (f : Nat) (toks : List Tok) (items : List Item) (rest : List Tok)
    (h : collect f toks = .ok (items, rest)) : Shaped 0 items := by
  cases f with
  | zero => simp [collect] at h
  | succ f =>
    simp only [collect] at h
    cases hl : leaf f (optUnary toks).2 with
    | error e => rw [hl] at h; cases h
    | ok p =>
      obtain ⟨t, rest'⟩ := p
      rw [hl] at h
      exact collectLoop_shaped f rest' _ items rest (optUnary_shape toks t) h

/-! ### no function of the parser model returns `panic` -/

theorem err_ne {α : Type} {x : PRes α} {e : PErr} (h : x = .error e) (hx : x ≠ .error .panic) : e ≠ .panic := by
  intro he; subst he; exact hx h

theorem no_panic : ∀ f : Nat,
    (∀ toks, parseExp f toks ≠ .error .panic)
    ∧ (∀ toks, collect f toks ≠ .error .panic)
    ∧ (∀ toks acc, collectLoop f toks acc ≠ .error .panic)
    ∧ (∀ toks, leaf f toks ≠ .error .panic)
    ∧ (∀ toks, args f toks ≠ .error .panic)
    ∧ (∀ toks acc, argsTail f toks acc ≠ .error .panic)
    ∧ (∀ toks acc, atoms f toks acc ≠ .error .panic)
    ∧ (∀ toks, imulOrSingle f toks ≠ .error .panic) := by
  intro f
  induction f with
  | zero =>
    refine ⟨?_, ?_, ?_, ?_, ?_, ?_, ?_, ?_⟩ <;> intros <;>
      simp [parseExp, collect, collectLoop, leaf, args, argsTail, atoms, imulOrSingle]
  | succ f ih =>
    obtain ⟨hPE, hC, hCL, hL, hA, hAT, hAt, hI⟩ := ih
    refine ⟨?_, ?_, ?_, ?_, ?_, ?_, ?_, ?_⟩
    · intro toks
      simp only [parseExp]
      cases hc : collect f toks with
      | error e => simp only; intro h; injection h with h; exact err_ne hc (hC toks) h
      | ok p =>
        obtain ⟨items, rest⟩ := p
        simp only
        have hp := prattParse_no_panic (collect_shaped f toks items rest hc)
        cases hpp : prattParse items with
        | error e => simp only; intro h; injection h with h; subst h; exact hp hpp
        | ok t => simp
    · intro toks
      simp only [collect]
      cases hl : leaf f (optUnary toks).2 with
      | error e => simp only; intro h; injection h with h; exact err_ne hl (hL _) h
      | ok p => obtain ⟨t, rest⟩ := p; exact hCL _ _
    · intro toks acc
      cases toks with
      | nil => simp [collectLoop]
      | cons t r =>
        simp only [collectLoop]
        cases hb : binRule t with
        | none => simp
        | some rule =>
          simp only
          cases hl : leaf f (optUnary r).2 with
          | error e =>
            cases e with
            | reject => simp
            | panic => exact absurd hl (hL _)
            | fuel => simp
          | ok p => obtain ⟨x, rest⟩ := p; exact hCL _ _
    · intro toks
      simp only [leaf]
      split
      · rename_i w r
        split
        · cases ha : args f r with
          | ok p => obtain ⟨as, rest⟩ := p; simp
          | error e =>
            cases e with
            | reject =>
              simp only [wordLeaf]
              repeat' split
              all_goals simp
            | panic => exact absurd ha (hA _)
            | fuel => simp
        · simp only [wordLeaf]
          repeat' split
          all_goals simp
      · simp only [wordLeaf]
        repeat' split
        all_goals simp
      · exact hI _
      · exact hI _
      · exact hI _
      · simp
    · intro toks
      simp only [args]
      cases hp : parseExp f toks with
      | ok p => obtain ⟨a, r⟩ := p; exact hAT _ _
      | error e =>
        cases e with
        | reject => simp only; split <;> simp
        | panic => exact absurd hp (hPE _)
        | fuel => simp
    · intro toks acc
      simp only [argsTail]
      split
      · simp
      · rename_i r
        cases hp : parseExp f r with
        | ok p => obtain ⟨a, r'⟩ := p; exact hAT _ _
        | error e => simp only; intro h; injection h with h; exact err_ne hp (hPE _) h
      · simp
    · intro toks acc
      simp only [atoms]
      split
      · rename_i s r
        exact hAt _ _
      · exact hAt _ _
      · rename_i r
        cases hp : parseExp f r with
        | error e => simp only; intro h; injection h with h; exact err_ne hp (hPE _) h
        | ok p =>
          obtain ⟨t, r'⟩ := p
          split
          · exact hAt _ _
          · simp
          · rename_i heq; cases heq
      · simp
    · intro toks
      simp only [imulOrSingle]
      cases ha : atoms f toks [] with
      | error e => simp only; intro h; injection h with h; exact err_ne ha (hAt _ _) h
      | ok p =>
        obtain ⟨as, rest⟩ := p
        repeat' split
        all_goals first | (rename_i heq; cases heq; done) | simp

/-- **The parser model never panics**: on no token sequence does the Pratt driver reach one of its
`panic!` / `expect` sites. -/
theorem parseToksRaw_no_panic (toks : List Tok) : parseToksRaw toks ≠ .error .panic := by
  unfold parseToksRaw
  have := (no_panic (parseFuel toks)).1 toks
  cases hp : parseExp (parseFuel toks) toks with
  | error e => simp only; intro h; injection h with h; exact err_ne hp this h
  | ok p =>
    obtain ⟨t, rest⟩ := p
    cases rest <;> simp

theorem parseToks_no_panic (toks : List Tok) : parseToks toks ≠ .error .panic := by
  unfold parseToks
  have := parseToksRaw_no_panic toks
  cases hp : parseToksRaw toks with
  | error e => simp only; intro h; injection h with h; exact this (by rw [hp, h])
  | ok t => simp only; split <;> simp

end Rooc.Syntax.Proofs
