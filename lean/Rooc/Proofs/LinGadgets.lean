/-
Stage A of the C01/C02 proof: the *gadget lemmas*.  Every rewrite the linearizer performs is, locally,
one of these statements about plain elements of an ordered field — no model code in this file.
They are re-exported (with their full statements) in `Rooc/Props/C01.lean`, section "Stage A".
-/
import Mathlib.Algebra.Order.Field.Basic
import Mathlib.Algebra.Order.Ring.Abs
import Mathlib.Order.WellFounded
import Mathlib.Data.Fintype.Card
import Mathlib.Data.Fintype.Basic
import Mathlib.Data.Fintype.EquivFin
import Mathlib.Data.Prod.Lex
import Mathlib.Tactic.Linarith
import Mathlib.Tactic.Ring
import Mathlib.Tactic.NormNum

set_option linter.unusedSectionVars false
set_option linter.unusedSimpArgs false

namespace Rooc.Lin.Gadget

variable {K : Type} [Field K] [LinearOrder K] [IsStrictOrderedRing K]

/-- "is a 0/1 value" -/
def B01 (x : K) : Prop := x = 0 ∨ x = 1

theorem B01.zero : B01 (0 : K) := Or.inl rfl
theorem B01.one : B01 (1 : K) := Or.inr rfl
theorem B01.nonneg {x : K} (h : B01 x) : 0 ≤ x := by rcases h with rfl | rfl <;> simp
theorem B01.le_one {x : K} (h : B01 x) : x ≤ 1 := by rcases h with rfl | rfl <;> simp
theorem B01.ne_one_iff {x : K} (h : B01 x) : x ≠ 1 ↔ x = 0 := by
  rcases h with rfl | rfl <;> simp
theorem B01.ne_zero_iff {x : K} (h : B01 x) : x ≠ 0 ↔ x = 1 := by
  rcases h with rfl | rfl <;> simp
theorem B01.compl {x : K} (h : B01 x) : B01 (1 - x) := by
  rcases h with rfl | rfl <;> simp [B01]

/-! ### abs -/

/-- sign-known shortcut, non-negative operand: `abs e` is compiled as `e`. -/
theorem abs_of_lower_nonneg {l e : K} (hl : 0 ≤ l) (he : l ≤ e) : |e| = e :=
  abs_of_nonneg (le_trans hl he)

/-- sign-known shortcut, non-positive operand: `abs e` is compiled as `-e`. -/
theorem abs_of_upper_nonpos {u e : K} (hu : u ≤ 0) (he : e ≤ u) : |e| = -e :=
  abs_of_nonpos (le_trans he hu)

/-- one-sided abs: the two rows `z ≥ e`, `z ≥ -e` say exactly `z ≥ |e|`. -/
theorem abs_one_sided (z e : K) : (z ≥ e ∧ z ≥ -e) ↔ z ≥ |e| := by
  constructor
  · rintro ⟨h1, h2⟩; exact abs_le'.mpr ⟨h1, h2⟩
  · intro h; exact ⟨le_trans (le_abs_self e) h, le_trans (neg_le_abs e) h⟩

/-- exact abs, soundness of the big-M pair (constants `2·l`, `2·u`, selector `p`); this direction needs
no hypothesis on `l`, `u` at all. -/
theorem abs_exact_sound {l u e z p : K}
    (hp : B01 p) (h1 : z ≥ e) (h2 : z ≥ -e)
    (h3 : z ≤ e - (2 * l) * (1 - p)) (h4 : z ≤ -e + (2 * u) * p) : z = |e| := by
  rcases hp with rfl | rfl
  · have h : z ≤ -e := by linarith
    have hz : z = -e := le_antisymm h h2
    have : e ≤ 0 := by linarith
    rw [abs_of_nonpos this]; exact hz
  · have h : z ≤ e := by linarith
    have hz : z = e := le_antisymm h h1
    have : 0 ≤ e := by linarith
    rw [abs_of_nonneg this]; exact hz

/-- exact abs, completeness: `z = |e|` satisfies the four rows for a suitable selector. -/
theorem abs_exact_complete {l u e : K} (he1 : l ≤ e) (he2 : e ≤ u) :
    ∃ p : K, B01 p ∧ |e| ≥ e ∧ |e| ≥ -e ∧ |e| ≤ e - (2 * l) * (1 - p) ∧ |e| ≤ -e + (2 * u) * p := by
  rcases le_total 0 e with h | h
  · refine ⟨1, B01.one, ?_, ?_, ?_, ?_⟩ <;> rw [abs_of_nonneg h] <;> linarith
  · refine ⟨0, B01.zero, ?_, ?_, ?_, ?_⟩ <;> rw [abs_of_nonpos h] <;> linarith

/-- exact abs as one equivalence. -/
theorem abs_exact_iff {l u e z : K} (he1 : l ≤ e) (he2 : e ≤ u) :
    (∃ p : K, B01 p ∧ z ≥ e ∧ z ≥ -e ∧ z ≤ e - (2 * l) * (1 - p) ∧ z ≤ -e + (2 * u) * p) ↔ z = |e| := by
  constructor
  · rintro ⟨p, hp, h1, h2, h3, h4⟩; exact abs_exact_sound hp h1 h2 h3 h4
  · rintro rfl; exact abs_exact_complete he1 he2

/-- the declared domain `[0, max (-l) u]` of the abs auxiliary contains `|e|`. -/
theorem abs_in_aux_domain {l u e : K} (he1 : l ≤ e) (he2 : e ≤ u) : 0 ≤ |e| ∧ |e| ≤ max (-l) u := by
  refine ⟨abs_nonneg e, abs_le'.mpr ⟨?_, ?_⟩⟩
  · exact le_trans he2 (le_max_right _ _)
  · exact le_trans (by linarith) (le_max_left _ _)

/-! ### folds of `max` / `min` (the semantics of `max{…}` / `min{…}` is `xs.foldl max x`) -/

theorem foldl_max_le_iff (z x : K) (xs : List K) :
    xs.foldl max x ≤ z ↔ x ≤ z ∧ ∀ y ∈ xs, y ≤ z := by
  induction xs generalizing x with
  | nil => simp
  | cons y ys ih =>
    simp only [List.foldl_cons, ih, max_le_iff, List.mem_cons, forall_eq_or_imp]
    tauto

theorem le_foldl_min_iff (z x : K) (xs : List K) :
    z ≤ xs.foldl min x ↔ z ≤ x ∧ ∀ y ∈ xs, z ≤ y := by
  induction xs generalizing x with
  | nil => simp
  | cons y ys ih =>
    simp only [List.foldl_cons, ih, le_min_iff, List.mem_cons, forall_eq_or_imp]
    tauto

theorem foldl_max_mem (x : K) (xs : List K) : xs.foldl max x ∈ x :: xs := by
  induction xs generalizing x with
  | nil => simp
  | cons y ys ih =>
    simp only [List.foldl_cons]
    have := ih (max x y)
    rcases List.mem_cons.mp this with h | h
    · rcases max_choice x y with hm | hm
      · rw [h, hm]; simp
      · rw [h, hm]; simp
    · exact List.mem_cons_of_mem _ (List.mem_cons_of_mem _ h)

theorem foldl_min_mem (x : K) (xs : List K) : xs.foldl min x ∈ x :: xs := by
  induction xs generalizing x with
  | nil => simp
  | cons y ys ih =>
    simp only [List.foldl_cons]
    have := ih (min x y)
    rcases List.mem_cons.mp this with h | h
    · rcases min_choice x y with hm | hm
      · rw [h, hm]; simp
      · rw [h, hm]; simp
    · exact List.mem_cons_of_mem _ (List.mem_cons_of_mem _ h)

theorem le_foldl_max (x : K) (xs : List K) : ∀ y ∈ x :: xs, y ≤ xs.foldl max x := by
  have := (foldl_max_le_iff (xs.foldl max x) x xs).mp le_rfl
  intro y hy
  rcases List.mem_cons.mp hy with rfl | h
  · exact this.1
  · exact this.2 y h

theorem foldl_min_le (x : K) (xs : List K) : ∀ y ∈ x :: xs, xs.foldl min x ≤ y := by
  have := (le_foldl_min_iff (xs.foldl min x) x xs).mp le_rfl
  intro y hy
  rcases List.mem_cons.mp hy with rfl | h
  · exact this.1
  · exact this.2 y h

/-- characterisation: `m` is the maximum of the non-empty list `x :: xs`. -/
theorem foldl_max_eq_iff (m x : K) (xs : List K) :
    xs.foldl max x = m ↔ m ∈ x :: xs ∧ ∀ y ∈ x :: xs, y ≤ m := by
  constructor
  · rintro rfl; exact ⟨foldl_max_mem x xs, le_foldl_max x xs⟩
  · rintro ⟨hm, hub⟩
    apply le_antisymm
    · exact (foldl_max_le_iff m x xs).mpr ⟨hub x (by simp), fun y hy => hub y (by simp [hy])⟩
    · exact le_foldl_max x xs m hm

theorem foldl_min_eq_iff (m x : K) (xs : List K) :
    xs.foldl min x = m ↔ m ∈ x :: xs ∧ ∀ y ∈ x :: xs, m ≤ y := by
  constructor
  · rintro rfl; exact ⟨foldl_min_mem x xs, foldl_min_le x xs⟩
  · rintro ⟨hm, hlb⟩
    apply le_antisymm
    · exact foldl_min_le x xs m hm
    · exact (le_foldl_min_iff m x xs).mpr ⟨hlb x (by simp), fun y hy => hlb y (by simp [hy])⟩

/-- one-sided max: the rows `z ≥ eᵢ` say exactly `z ≥ max e`. -/
theorem max_one_sided (z x : K) (xs : List K) : (∀ y ∈ x :: xs, z ≥ y) ↔ z ≥ xs.foldl max x := by
  simp only [ge_iff_le, foldl_max_le_iff, List.mem_cons, forall_eq_or_imp]

/-- one-sided min: the rows `z ≤ eᵢ` say exactly `z ≤ min e`. -/
theorem min_one_sided (z x : K) (xs : List K) : (∀ y ∈ x :: xs, z ≤ y) ↔ z ≤ xs.foldl min x := by
  simp only [le_foldl_min_iff, List.mem_cons, forall_eq_or_imp]

/-! ### selector rows for exact max / min

Operands are triples `(e, b, s)`: value, the bound used in the big-M constant (`l` for max, `u` for
min), selector. -/

theorem sum_one_exists_one : ∀ (ss : List K), (∀ s ∈ ss, B01 s) → ss.sum = 1 → ∃ s ∈ ss, s = 1
  | [], _, h => by simp at h
  | s :: ss, hb, h => by
    rcases hb s (by simp) with rfl | rfl
    · simp only [List.sum_cons, zero_add] at h
      obtain ⟨t, ht, h1⟩ := sum_one_exists_one ss (fun t ht => hb t (by simp [ht])) h
      exact ⟨t, by simp [ht], h1⟩
    · exact ⟨1, by simp, rfl⟩

/-- exact max, soundness: `z ≥ eᵢ`, `z ≤ eᵢ + (U − lᵢ)(1 − sᵢ)`, `Σ sᵢ = 1`, `sᵢ ∈ {0,1}` force
`z` to be the maximum (no hypothesis on the bounds is needed for this direction). -/
theorem max_selector_sound {U z : K} (ops : List (K × K × K))
    (hsel : ∀ t ∈ ops, B01 t.2.2) (hsum : (ops.map (·.2.2)).sum = 1)
    (hge : ∀ t ∈ ops, z ≥ t.1) (hle : ∀ t ∈ ops, z ≤ t.1 + (U - t.2.1) * (1 - t.2.2)) :
    z ∈ ops.map (·.1) ∧ ∀ y ∈ ops.map (·.1), y ≤ z := by
  obtain ⟨s, hs, h1⟩ := sum_one_exists_one (ops.map (·.2.2))
    (by intro s hs; obtain ⟨t, ht, rfl⟩ := List.mem_map.mp hs; exact hsel t ht) hsum
  obtain ⟨t, ht, rfl⟩ := List.mem_map.mp hs
  have hz : z = t.1 := by
    have a := hle t ht; have b := hge t ht
    rw [h1] at a; simp at a; exact le_antisymm a b
  refine ⟨List.mem_map.mpr ⟨t, ht, hz.symm⟩, ?_⟩
  intro y hy; obtain ⟨t', ht', rfl⟩ := List.mem_map.mp hy; exact hge t' ht'

theorem min_selector_sound {L z : K} (ops : List (K × K × K))
    (hsel : ∀ t ∈ ops, B01 t.2.2) (hsum : (ops.map (·.2.2)).sum = 1)
    (hle : ∀ t ∈ ops, z ≤ t.1) (hge : ∀ t ∈ ops, z ≥ t.1 - (t.2.1 - L) * (1 - t.2.2)) :
    z ∈ ops.map (·.1) ∧ ∀ y ∈ ops.map (·.1), z ≤ y := by
  obtain ⟨s, hs, h1⟩ := sum_one_exists_one (ops.map (·.2.2))
    (by intro s hs; obtain ⟨t, ht, rfl⟩ := List.mem_map.mp hs; exact hsel t ht) hsum
  obtain ⟨t, ht, rfl⟩ := List.mem_map.mp hs
  have hz : z = t.1 := by
    have a := hge t ht; have b := hle t ht
    rw [h1] at a; simp at a; exact le_antisymm b a
  refine ⟨List.mem_map.mpr ⟨t, ht, hz.symm⟩, ?_⟩
  intro y hy; obtain ⟨t', ht', rfl⟩ := List.mem_map.mp hy; exact hle t' ht'

/-- selectors for a list of (value, bound) pairs: 1 at the first position whose value is `z`. -/
def firstHit (z : K) : List (K × K) → List K
  | [] => []
  | p :: ps => if p.1 = z then 1 :: List.replicate ps.length 0 else 0 :: firstHit z ps

theorem firstHit_length (z : K) (ps : List (K × K)) : (firstHit z ps).length = ps.length := by
  induction ps with
  | nil => rfl
  | cons p ps ih => by_cases h : p.1 = z <;> simp [firstHit, h, ih]

theorem sum_replicate_zero (n : Nat) : (List.replicate n (0 : K)).sum = 0 := by
  induction n with
  | zero => rfl
  | succ n ih => simp [List.replicate_succ, ih]

theorem firstHit_sum (z : K) (ps : List (K × K)) (h : z ∈ ps.map (·.1)) : (firstHit z ps).sum = 1 := by
  induction ps with
  | nil => simp at h
  | cons p ps ih =>
    by_cases hp : p.1 = z
    · simp [firstHit, hp, sum_replicate_zero]
    · have : z ∈ ps.map (·.1) := by
        simp only [List.map_cons, List.mem_cons] at h
        rcases h with h | h
        · exact absurd h.symm hp
        · exact h
      simp [firstHit, hp, ih this]

theorem firstHit_spec (z : K) (ps : List (K × K)) :
    ∀ t ∈ ps.zip (firstHit z ps), B01 t.2 ∧ (t.2 = 1 → t.1.1 = z) := by
  induction ps with
  | nil => simp [firstHit]
  | cons p ps ih =>
    by_cases hp : p.1 = z
    · intro t ht
      simp only [firstHit, hp, if_true, List.zip_cons_cons, List.mem_cons] at ht
      rcases ht with rfl | ht
      · exact ⟨B01.one, fun _ => hp⟩
      · have : t.2 = 0 := by
          have := (List.of_mem_zip ht).2
          exact (List.mem_replicate.mp this).2
        exact ⟨Or.inl this, fun h => by rw [this] at h; exact absurd h zero_ne_one⟩
    · intro t ht
      simp only [firstHit, hp, if_false, List.zip_cons_cons, List.mem_cons] at ht
      rcases ht with rfl | ht
      · exact ⟨B01.zero, fun h => absurd h zero_ne_one⟩
      · exact ih t ht

/-- exact max, completeness: if `lᵢ ≤ eᵢ ≤ U` for every operand and `z` is the maximum, selectors
exist that satisfy every row. -/
theorem max_selector_complete {U z : K} (ps : List (K × K))
    (hb : ∀ p ∈ ps, p.2 ≤ p.1 ∧ p.1 ≤ U) (hmem : z ∈ ps.map (·.1)) (hub : ∀ y ∈ ps.map (·.1), y ≤ z) :
    ∃ ss : List K, ss.length = ps.length ∧ (∀ s ∈ ss, B01 s) ∧ ss.sum = 1 ∧
      ∀ t ∈ ps.zip ss, z ≥ t.1.1 ∧ z ≤ t.1.1 + (U - t.1.2) * (1 - t.2) := by
  refine ⟨firstHit z ps, firstHit_length z ps, ?_, firstHit_sum z ps hmem, ?_⟩
  · intro s hs
    obtain ⟨i, hi, rfl⟩ := List.mem_iff_getElem.mp hs
    have hi' : i < ps.length := by rw [firstHit_length] at hi; exact hi
    have : (ps[i], (firstHit z ps)[i]) ∈ ps.zip (firstHit z ps) := by
      refine List.mem_iff_getElem.mpr ⟨i, by simp [firstHit_length, hi'], by simp⟩
    exact (firstHit_spec z ps _ this).1
  · intro t ht
    have hp := (List.of_mem_zip ht).1
    obtain ⟨h01, h1⟩ := firstHit_spec z ps t ht
    have hz : z ≤ U := by
      obtain ⟨p, hp', rfl⟩ := List.mem_map.mp hmem
      exact (hb p hp').2
    have hy : t.1.1 ≤ z := hub _ (List.mem_map.mpr ⟨t.1, hp, rfl⟩)
    refine ⟨hy, ?_⟩
    rcases h01 with h0 | h1'
    · rw [h0]; have := (hb t.1 hp).1; linarith
    · rw [h1', h1 h1']; simp

theorem min_selector_complete {L z : K} (ps : List (K × K))
    (hb : ∀ p ∈ ps, p.1 ≤ p.2 ∧ L ≤ p.1) (hmem : z ∈ ps.map (·.1)) (hlb : ∀ y ∈ ps.map (·.1), z ≤ y) :
    ∃ ss : List K, ss.length = ps.length ∧ (∀ s ∈ ss, B01 s) ∧ ss.sum = 1 ∧
      ∀ t ∈ ps.zip ss, z ≤ t.1.1 ∧ z ≥ t.1.1 - (t.1.2 - L) * (1 - t.2) := by
  refine ⟨firstHit z ps, firstHit_length z ps, ?_, firstHit_sum z ps hmem, ?_⟩
  · intro s hs
    obtain ⟨i, hi, rfl⟩ := List.mem_iff_getElem.mp hs
    have hi' : i < ps.length := by rw [firstHit_length] at hi; exact hi
    have : (ps[i], (firstHit z ps)[i]) ∈ ps.zip (firstHit z ps) := by
      refine List.mem_iff_getElem.mpr ⟨i, by simp [firstHit_length, hi'], by simp⟩
    exact (firstHit_spec z ps _ this).1
  · intro t ht
    have hp := (List.of_mem_zip ht).1
    obtain ⟨h01, h1⟩ := firstHit_spec z ps t ht
    have hz : L ≤ z := by
      obtain ⟨p, hp', rfl⟩ := List.mem_map.mp hmem
      exact (hb p hp').2
    have hy : z ≤ t.1.1 := hlb _ (List.mem_map.mpr ⟨t.1, hp, rfl⟩)
    refine ⟨hy, ?_⟩
    rcases h01 with h0 | h1'
    · rw [h0]; have := (hb t.1 hp).1; simp only [sub_zero, mul_one, ge_iff_le]; linarith
    · rw [h1', h1 h1']; simp

/-! ### sums of 0/1 values -/

theorem sum01_bounds : ∀ (as : List K), (∀ a ∈ as, B01 a) → 0 ≤ as.sum ∧ as.sum ≤ (as.length : K)
  | [], _ => by simp
  | a :: as, h => by
    have ih := sum01_bounds as (fun x hx => h x (by simp [hx]))
    have ha := h a (by simp)
    simp only [List.sum_cons, List.length_cons, Nat.cast_add, Nat.cast_one]
    constructor
    · linarith [ha.nonneg]
    · linarith [ha.le_one]

theorem sum01_eq_zero_iff : ∀ (as : List K), (∀ a ∈ as, B01 a) → (as.sum = 0 ↔ ∀ a ∈ as, a = 0)
  | [], _ => by simp
  | a :: as, h => by
    have hb := sum01_bounds as (fun x hx => h x (by simp [hx]))
    have ih := sum01_eq_zero_iff as (fun x hx => h x (by simp [hx]))
    have ha := h a (by simp)
    simp only [List.sum_cons, List.mem_cons, forall_eq_or_imp, ← ih]
    constructor
    · intro hs; have := ha.nonneg; constructor <;> linarith [hb.1]
    · rintro ⟨rfl, h2⟩; simp [h2]

theorem sum01_ge_one_iff : ∀ (as : List K), (∀ a ∈ as, B01 a) → (1 ≤ as.sum ↔ ∃ a ∈ as, a = 1)
  | [], _ => by simp
  | a :: as, h => by
    have hb := sum01_bounds as (fun x hx => h x (by simp [hx]))
    have ih := sum01_ge_one_iff as (fun x hx => h x (by simp [hx]))
    simp only [List.sum_cons, List.mem_cons, exists_eq_or_imp, ← ih]
    rcases h a (by simp) with rfl | rfl
    · simp
    · simp [hb.1]

theorem sum01_le_pred_iff : ∀ (as : List K), (∀ a ∈ as, B01 a) →
    (as.sum ≤ (as.length : K) - 1 ↔ ∃ a ∈ as, a = 0)
  | [], _ => by simp
  | a :: as, h => by
    have hb := sum01_bounds as (fun x hx => h x (by simp [hx]))
    have ih := sum01_le_pred_iff as (fun x hx => h x (by simp [hx]))
    simp only [List.sum_cons, List.length_cons, Nat.cast_add, Nat.cast_one, List.mem_cons,
      exists_eq_or_imp, ← ih]
    rcases h a (by simp) with rfl | rfl
    · simp [hb.2]
    · simp only [one_ne_zero, false_or]
      constructor <;> intro h' <;> linarith

theorem sum01_eq_length_iff (as : List K) (h : ∀ a ∈ as, B01 a) :
    (as.sum = (as.length : K) ↔ ∀ a ∈ as, a = 1) := by
  have hb := sum01_bounds as h
  have hp := sum01_le_pred_iff as h
  constructor
  · intro hs a ha
    rcases h a ha with h0 | h1
    · have : as.sum ≤ (as.length : K) - 1 := hp.mpr ⟨a, ha, h0⟩
      linarith
    · exact h1
  · intro hall
    clear hp hb h
    induction as with
    | nil => simp
    | cons a as ih =>
      have := hall a (by simp)
      simp [this, ih (fun x hx => hall x (by simp [hx]))]; ring

/-! ### reified logic values: rows over 0/1 operands force the auxiliary to the truth value -/

/-- `z = and(as)`: rows `z ≤ aᵢ`, `z ≥ Σ aᵢ − (n − 1)`. -/
theorem and_reify_iff {z : K} (as : List K) (hz : B01 z) (ha : ∀ a ∈ as, B01 a) :
    ((∀ a ∈ as, z ≤ a) ∧ z ≥ as.sum - ((as.length : K) - 1)) ↔ (z = 1 ↔ ∀ a ∈ as, a = 1) := by
  have hlen := sum01_eq_length_iff as ha
  have hpred := sum01_le_pred_iff as ha
  constructor
  · rintro ⟨h1, h2⟩
    constructor
    · rintro rfl a haa
      rcases ha a haa with h0 | h; · have := h1 a haa; rw [h0] at this; linarith
      exact h
    · intro hall
      have := hlen.mpr hall
      rcases hz with rfl | rfl
      · rw [this] at h2; linarith
      · rfl
  · intro hiff
    by_cases hall : ∀ a ∈ as, a = 1
    · have hz1 := hiff.mpr hall
      subst hz1
      refine ⟨fun a haa => by rw [hall a haa], ?_⟩
      rw [hlen.mpr hall]; linarith
    · have hz0 : z = 0 := by
        rcases hz with h | h; · exact h
        exact absurd (hiff.mp h) hall
      subst hz0
      refine ⟨fun a haa => (ha a haa).nonneg, ?_⟩
      have : ∃ a ∈ as, a = 0 := by
        by_contra hne
        apply hall
        intro a haa
        rcases ha a haa with h | h
        · exact absurd ⟨a, haa, h⟩ hne
        · exact h
      have := hpred.mpr this
      linarith

/-- `z = or(as)`: rows `z ≥ aᵢ`, `z ≤ Σ aᵢ`. -/
theorem or_reify_iff {z : K} (as : List K) (hz : B01 z) (ha : ∀ a ∈ as, B01 a) :
    ((∀ a ∈ as, z ≥ a) ∧ z ≤ as.sum) ↔ (z = 1 ↔ ∃ a ∈ as, a = 1) := by
  have hge := sum01_ge_one_iff as ha
  have hzero := sum01_eq_zero_iff as ha
  have hb := sum01_bounds as ha
  constructor
  · rintro ⟨h1, h2⟩
    constructor
    · rintro rfl; exact hge.mp h2
    · rintro ⟨a, haa, rfl⟩
      have := h1 1 haa
      rcases hz with rfl | rfl
      · linarith
      · rfl
  · intro hiff
    by_cases hex : ∃ a ∈ as, a = 1
    · have hz1 := hiff.mpr hex
      subst hz1
      exact ⟨fun a haa => (ha a haa).le_one, hge.mpr hex⟩
    · have hz0 : z = 0 := by
        rcases hz with h | h; · exact h
        exact absurd (hiff.mp h) hex
      subst hz0
      exact ⟨fun a haa => by
        rcases ha a haa with h | h
        · rw [h]
        · exact absurd ⟨a, haa, h⟩ hex, hb.1⟩

/-- `z = (a → b)`: rows `z ≥ 1 − a`, `z ≥ b`, `z ≤ 1 − a + b`. -/
theorem implies_reify_iff {z a b : K} (hz : B01 z) (ha : B01 a) (hb : B01 b) :
    (z ≥ 1 - a ∧ z ≥ b ∧ z ≤ 1 - a + b) ↔ (z = 1 ↔ (a = 1 → b = 1)) := by
  rcases hz with rfl | rfl <;> rcases ha with rfl | rfl <;> rcases hb with rfl | rfl <;> norm_num

/-- `z = (a ↔ b)`: rows `z ≥ a + b − 1`, `z ≥ 1 − a − b`, `z ≤ 1 − a + b`, `z ≤ 1 + a − b`. -/
theorem iff_reify_iff {z a b : K} (hz : B01 z) (ha : B01 a) (hb : B01 b) :
    (z ≥ a + b - 1 ∧ z ≥ 1 - a - b ∧ z ≤ 1 - a + b ∧ z ≤ 1 + a - b) ↔ (z = 1 ↔ (a = 1 ↔ b = 1)) := by
  rcases hz with rfl | rfl <;> rcases ha with rfl | rfl <;> rcases hb with rfl | rfl <;> norm_num

/-- `z = (a xor b)`: rows `z ≤ a + b`, `z ≥ a − b`, `z ≥ b − a`, `z ≤ 2 − a − b`. -/
theorem xor_reify_iff {z a b : K} (hz : B01 z) (ha : B01 a) (hb : B01 b) :
    (z ≤ a + b ∧ z ≥ a - b ∧ z ≥ b - a ∧ z ≤ 2 - a - b) ↔ (z = 1 ↔ ¬ (a = 1 ↔ b = 1)) := by
  rcases hz with rfl | rfl <;> rcases ha with rfl | rfl <;> rcases hb with rfl | rfl <;> norm_num

/-- `not e` is compiled as the affine value `1 − e`. -/
theorem not_affine {e : K} (he : B01 e) : B01 (1 - e) ∧ ((1 - e = 1) ↔ ¬ (e = 1)) := by
  rcases he with rfl | rfl <;> simp [B01]

/-! ### affine assertion forms (`try_lower_affine_logic_assertion`), both polarities -/

theorem assert_and_true (as : List K) (ha : ∀ a ∈ as, B01 a) :
    as.sum = (as.length : K) ↔ ∀ a ∈ as, a = 1 := sum01_eq_length_iff as ha

theorem assert_and_false (as : List K) (ha : ∀ a ∈ as, B01 a) :
    as.sum ≤ (as.length : K) - 1 ↔ ¬ ∀ a ∈ as, a = 1 := by
  rw [sum01_le_pred_iff as ha]
  constructor
  · rintro ⟨a, haa, h0⟩ hall; have := hall a haa; rw [h0] at this; exact zero_ne_one this
  · intro hn
    by_contra hne
    apply hn
    intro a haa
    rcases ha a haa with h | h
    · exact absurd ⟨a, haa, h⟩ hne
    · exact h

theorem assert_or_true (as : List K) (ha : ∀ a ∈ as, B01 a) :
    as.sum ≥ 1 ↔ ∃ a ∈ as, a = 1 := sum01_ge_one_iff as ha

theorem assert_or_false (as : List K) (ha : ∀ a ∈ as, B01 a) :
    as.sum = 0 ↔ ¬ ∃ a ∈ as, a = 1 := by
  rw [sum01_eq_zero_iff as ha]
  constructor
  · rintro h ⟨a, haa, h1⟩; have := h a haa; rw [h1] at this; exact one_ne_zero this
  · intro hn a haa
    rcases ha a haa with h | h
    · exact h
    · exact absurd ⟨a, haa, h⟩ hn

theorem assert_implies_true {a b : K} (ha : B01 a) (hb : B01 b) : a ≤ b ↔ (a = 1 → b = 1) := by
  rcases ha with rfl | rfl <;> rcases hb with rfl | rfl <;> norm_num
theorem assert_implies_false {a b : K} (ha : B01 a) (hb : B01 b) : a - b = 1 ↔ ¬ (a = 1 → b = 1) := by
  rcases ha with rfl | rfl <;> rcases hb with rfl | rfl <;> norm_num
theorem assert_iff_true {a b : K} (ha : B01 a) (hb : B01 b) : a = b ↔ (a = 1 ↔ b = 1) := by
  rcases ha with rfl | rfl <;> rcases hb with rfl | rfl <;> norm_num
theorem assert_iff_false {a b : K} (ha : B01 a) (hb : B01 b) : a + b = 1 ↔ ¬ (a = 1 ↔ b = 1) := by
  rcases ha with rfl | rfl <;> rcases hb with rfl | rfl <;> norm_num
theorem assert_xor_true {a b : K} (ha : B01 a) (hb : B01 b) : a + b = 1 ↔ ¬ (a = 1 ↔ b = 1) :=
  assert_iff_false ha hb
theorem assert_xor_false {a b : K} (ha : B01 a) (hb : B01 b) : a = b ↔ ¬ ¬ (a = 1 ↔ b = 1) := by
  rw [not_not]; exact assert_iff_true ha hb

/-! ### directional witnesses: a 0/1 witness `w` with `w = 1 ⇒ formula has the requested value`;
`w = 0` is always allowed, and `w = 1` is allowed exactly when the children allow it. -/

/-- conjunction of children (and/true, or/false): rows `w ≤ cᵢ`. -/
theorem witness_all_iff {w : K} (cs : List K) (hw : B01 w) (hc : ∀ c ∈ cs, B01 c) :
    (∀ c ∈ cs, w ≤ c) ↔ (w = 1 → ∀ c ∈ cs, c = 1) := by
  constructor
  · rintro h rfl c hcc
    rcases hc c hcc with h0 | h1
    · have := h c hcc; rw [h0] at this; linarith
    · exact h1
  · intro h c hcc
    rcases hw with rfl | rfl
    · exact (hc c hcc).nonneg
    · rw [h rfl c hcc]

/-- disjunction of children (or/true, and/false, implies/true): row `w ≤ Σ cᵢ`. -/
theorem witness_any_iff {w : K} (cs : List K) (hw : B01 w) (hc : ∀ c ∈ cs, B01 c) :
    w ≤ cs.sum ↔ (w = 1 → ∃ c ∈ cs, c = 1) := by
  constructor
  · rintro h rfl; exact (sum01_ge_one_iff cs hc).mp h
  · intro h
    rcases hw with rfl | rfl
    · exact (sum01_bounds cs hc).1
    · exact (sum01_ge_one_iff cs hc).mpr (h rfl)

/-- iff/true (= xor/false): rows `w ≤ 1 − a + b`, `w ≤ 1 + a − b`. -/
theorem witness_iff_true {w a b : K} (hw : B01 w) (ha : B01 a) (hb : B01 b) :
    (w ≤ 1 - a + b ∧ w ≤ 1 + a - b) ↔ (w = 1 → (a = 1 ↔ b = 1)) := by
  rcases hw with rfl | rfl <;> rcases ha with rfl | rfl <;> rcases hb with rfl | rfl <;> norm_num

/-- iff/false (= xor/true): rows `w ≤ a + b`, `w ≤ 2 − a − b`. -/
theorem witness_iff_false {w a b : K} (hw : B01 w) (ha : B01 a) (hb : B01 b) :
    (w ≤ a + b ∧ w ≤ 2 - a - b) ↔ (w = 1 → ¬ (a = 1 ↔ b = 1)) := by
  rcases hw with rfl | rfl <;> rcases ha with rfl | rfl <;> rcases hb with rfl | rfl <;> norm_num

/-- the closing row `Σ wᵢ ≥ 1` of a disjunctive assertion. -/
theorem witness_assert (ws : List K) (hw : ∀ w ∈ ws, B01 w) : ws.sum ≥ 1 ↔ ∃ w ∈ ws, w = 1 :=
  sum01_ge_one_iff ws hw

/-! ### comparison of a 0/1 value against a constant (`try_normalize_logic_constraint`):
the four-way table on `(R 0, R 1)` where `R x := x ⋈ c`. -/

theorem normalize_true {R : K → Prop} {x : K} (hx : B01 x) (h0 : ¬ R 0) (h1 : R 1) : R x ↔ x = 1 := by
  rcases hx with rfl | rfl <;> simp [h0, h1]
theorem normalize_false {R : K → Prop} {x : K} (hx : B01 x) (h0 : R 0) (h1 : ¬ R 1) : R x ↔ x = 0 := by
  rcases hx with rfl | rfl <;> simp [h0, h1]
theorem normalize_tautology {R : K → Prop} {x : K} (hx : B01 x) (h0 : R 0) (h1 : R 1) : R x := by
  rcases hx with rfl | rfl <;> assumption
theorem normalize_contradiction {R : K → Prop} {x : K} (hx : B01 x) (h0 : ¬ R 0) (h1 : ¬ R 1) : ¬ R x := by
  rcases hx with rfl | rfl <;> assumption

/-! ### dominated-operand pruning of `linearize_extreme`

Bounds live in any linear order `B` into which the field embeds (`B = K` for finite bounds,
`B = WithBot (WithTop K)` or the like for `±∞`).  Operand `i` is *dominated* (dropped) when some other
operand `j` has `L j ≥ U i`, unless both are the same fixed value, in which case only the one with
the smaller index survives. -/

section prune
variable {B : Type} [LinearOrder B]

def DomMax (L U : ℕ → B) (n i : ℕ) : Prop :=
  ∃ j, j < n ∧ j ≠ i ∧ U i ≤ L j ∧ (¬ (L i = U i ∧ L j = U j ∧ L i = L j) ∨ j < i)

def DomMin (L U : ℕ → B) (n i : ℕ) : Prop :=
  ∃ j, j < n ∧ j ≠ i ∧ U j ≤ L i ∧ (¬ (L i = U i ∧ L j = U j ∧ L i = L j) ∨ j < i)

private def muMax (L U : ℕ → B) (n : ℕ) (i : Fin n) : B ×ₗ ℕ :=
  toLex (U i, (if L i = U i then n + 1 else 0) + (n - i))

private def muMin (L U : ℕ → B) (n : ℕ) (i : Fin n) : Bᵒᵈ ×ₗ ℕ :=
  toLex (OrderDual.toDual (L i), (if L i = U i then n + 1 else 0) + (n - i))

/-- every operand of a `max` is below some *retained* operand. -/
theorem prune_max_exists (ι : K → B) (hι : ∀ a b, ι a ≤ ι b ↔ a ≤ b) (n : ℕ) (L U : ℕ → B) (v : ℕ → K)
    (henc : ∀ i, i < n → L i ≤ ι (v i) ∧ ι (v i) ≤ U i) :
    ∀ i, i < n → ∃ j, j < n ∧ ¬ DomMax L U n j ∧ v i ≤ v j := by
  have wf : WellFounded (fun a b : Fin n => muMax L U n b < muMax L U n a) :=
    haveI : IsTrans (Fin n) (fun a b : Fin n => muMax L U n b < muMax L U n a) :=
      ⟨fun _ _ _ h1 h2 => lt_trans h2 h1⟩
    haveI : Std.Irrefl (fun a b : Fin n => muMax L U n b < muMax L U n a) := ⟨fun _ => lt_irrefl _⟩
    Finite.wellFounded_of_trans_of_irrefl _
  suffices h : ∀ i : Fin n, ∃ j, j < n ∧ ¬ DomMax L U n j ∧ v i ≤ v j from
    fun i hi => h ⟨i, hi⟩
  intro i
  induction i using wf.induction with
  | _ i ih =>
    by_cases hd : DomMax L U n i
    · obtain ⟨j, hj, hne, hle, htie⟩ := hd
      have hi := henc i i.2
      have hjb := henc j hj
      have hv : v i ≤ v j := (hι _ _).mp (le_trans hi.2 (le_trans hle hjb.1))
      have hUU : U i ≤ U j := le_trans hle (le_trans hjb.1 hjb.2)
      have hmu : muMax L U n i < muMax L U n ⟨j, hj⟩ := by
        rw [muMax, muMax, Prod.Lex.toLex_lt_toLex]
        rcases lt_or_eq_of_le hUU with hlt | heq
        · exact Or.inl hlt
        · refine Or.inr ⟨heq, ?_⟩
          have hLj : L j = U j := le_antisymm (le_trans hjb.1 hjb.2) (heq ▸ hle)
          have hin : (i : ℕ) < n := i.2
          simp only [hLj, if_true]
          by_cases hfi : L (i : ℕ) = U i
          · have hji : j < i := by
              rcases htie with h | h
              · exact absurd ⟨hfi, hLj, by rw [hfi, heq, hLj]⟩ h
              · exact h
            simp only [hfi, if_true]; omega
          · simp only [hfi, if_false]; omega
      obtain ⟨k, hk, hnd, hvk⟩ := ih ⟨j, hj⟩ hmu
      exact ⟨k, hk, hnd, le_trans hv hvk⟩
    · exact ⟨i, i.2, hd, le_rfl⟩

/-- every operand of a `min` is above some *retained* operand. -/
theorem prune_min_exists (ι : K → B) (hι : ∀ a b, ι a ≤ ι b ↔ a ≤ b) (n : ℕ) (L U : ℕ → B) (v : ℕ → K)
    (henc : ∀ i, i < n → L i ≤ ι (v i) ∧ ι (v i) ≤ U i) :
    ∀ i, i < n → ∃ j, j < n ∧ ¬ DomMin L U n j ∧ v j ≤ v i := by
  have wf : WellFounded (fun a b : Fin n => muMin L U n b < muMin L U n a) :=
    haveI : IsTrans (Fin n) (fun a b : Fin n => muMin L U n b < muMin L U n a) :=
      ⟨fun _ _ _ h1 h2 => lt_trans h2 h1⟩
    haveI : Std.Irrefl (fun a b : Fin n => muMin L U n b < muMin L U n a) := ⟨fun _ => lt_irrefl _⟩
    Finite.wellFounded_of_trans_of_irrefl _
  suffices h : ∀ i : Fin n, ∃ j, j < n ∧ ¬ DomMin L U n j ∧ v j ≤ v i from
    fun i hi => h ⟨i, hi⟩
  intro i
  induction i using wf.induction with
  | _ i ih =>
    by_cases hd : DomMin L U n i
    · obtain ⟨j, hj, hne, hle, htie⟩ := hd
      have hi := henc i i.2
      have hjb := henc j hj
      have hv : v j ≤ v i := (hι _ _).mp (le_trans hjb.2 (le_trans hle hi.1))
      have hLL : L j ≤ L i := le_trans hjb.1 (le_trans hjb.2 hle)
      have hmu : muMin L U n i < muMin L U n ⟨j, hj⟩ := by
        rw [muMin, muMin, Prod.Lex.toLex_lt_toLex]
        rcases lt_or_eq_of_le hLL with hlt | heq
        · exact Or.inl (OrderDual.toDual_lt_toDual.mpr hlt)
        · refine Or.inr ⟨by simp [heq], ?_⟩
          have hLj : L j = U j := le_antisymm (le_trans hjb.1 hjb.2) (heq ▸ hle)
          have hin : (i : ℕ) < n := i.2
          simp only [hLj, if_true]
          by_cases hfi : L (i : ℕ) = U i
          · have hji : j < i := by
              rcases htie with h | h
              · exact absurd ⟨hfi, hLj, heq.symm⟩ h
              · exact h
            simp only [hfi, if_true]; omega
          · simp only [hfi, if_false]; omega
      obtain ⟨k, hk, hnd, hvk⟩ := ih ⟨j, hj⟩ hmu
      exact ⟨k, hk, hnd, le_trans hvk hv⟩
    · exact ⟨i, i.2, hd, le_rfl⟩

/-- pruning keeps the maximum: `z` is the greatest operand value iff it is the greatest retained one. -/
theorem prune_max_iff (ι : K → B) (hι : ∀ a b, ι a ≤ ι b ↔ a ≤ b) (n : ℕ) (L U : ℕ → B) (v : ℕ → K)
    (henc : ∀ i, i < n → L i ≤ ι (v i) ∧ ι (v i) ≤ U i) (z : K) :
    ((∃ i, i < n ∧ v i = z) ∧ ∀ i, i < n → v i ≤ z) ↔
    ((∃ j, j < n ∧ ¬ DomMax L U n j ∧ v j = z) ∧ ∀ j, j < n → ¬ DomMax L U n j → v j ≤ z) := by
  have key := prune_max_exists ι hι n L U v henc
  constructor
  · rintro ⟨⟨i, hi, rfl⟩, hub⟩
    obtain ⟨j, hj, hnd, hle⟩ := key i hi
    exact ⟨⟨j, hj, hnd, le_antisymm (hub j hj) hle⟩, fun k hk _ => hub k hk⟩
  · rintro ⟨⟨j, hj, _, rfl⟩, hub⟩
    refine ⟨⟨j, hj, rfl⟩, fun i hi => ?_⟩
    obtain ⟨k, hk, hnd, hle⟩ := key i hi
    exact le_trans hle (hub k hk hnd)

theorem prune_min_iff (ι : K → B) (hι : ∀ a b, ι a ≤ ι b ↔ a ≤ b) (n : ℕ) (L U : ℕ → B) (v : ℕ → K)
    (henc : ∀ i, i < n → L i ≤ ι (v i) ∧ ι (v i) ≤ U i) (z : K) :
    ((∃ i, i < n ∧ v i = z) ∧ ∀ i, i < n → z ≤ v i) ↔
    ((∃ j, j < n ∧ ¬ DomMin L U n j ∧ v j = z) ∧ ∀ j, j < n → ¬ DomMin L U n j → z ≤ v j) := by
  have key := prune_min_exists ι hι n L U v henc
  constructor
  · rintro ⟨⟨i, hi, rfl⟩, hlb⟩
    obtain ⟨j, hj, hnd, hle⟩ := key i hi
    exact ⟨⟨j, hj, hnd, le_antisymm hle (hlb j hj)⟩, fun k hk _ => hlb k hk⟩
  · rintro ⟨⟨j, hj, _, rfl⟩, hlb⟩
    refine ⟨⟨j, hj, rfl⟩, fun i hi => ?_⟩
    obtain ⟨k, hk, hnd, hle⟩ := key i hi
    exact le_trans (hlb k hk hnd) hle

end prune

end Rooc.Lin.Gadget
