/-
Discharges the two C10 hypotheses of the Stage-B theorems (`FlattenSound`, `SimplifySoundArith`) from
the C10 lemmas.
-/
import Rooc.Proofs.LinAssemble
import Rooc.Proofs.ExpLemmasFlatten
import Rooc.Proofs.ExpLemmasSound

set_option linter.unusedSectionVars false
set_option linter.unusedSimpArgs false
set_option linter.unusedVariables false

namespace Rooc.LinP
open Rooc Rooc.Lin Rooc.Sem Rooc.Exp

variable {K : Type} [Field K] [LinearOrder K] [IsStrictOrderedRing K] [FloorRing K]

theorem flattenSound : FlattenSound K :=
  fun n e e' ρ h => Rooc.flattenF_eval ρ n e e' h

theorem logicOperands01_of_arithOnly (ρ : String → K) : ∀ (e : Exp (Ext K)), arithOnly e = true →
    LogicOperands01 ρ e := by
  intro e
  induction e using Exp.indL with
  | num v => intro _; simp [LogicOperands01]
  | var x => intro _; simp [LogicOperands01]
  | bin op a b iha ihb =>
    intro h
    simp only [arithOnly, Bool.and_eq_true] at h
    obtain ⟨⟨ho, ha⟩, hb⟩ := h
    refine ⟨iha ha, ihb hb, ?_⟩
    rintro (rfl | rfl) <;> simp [isArithOp] at ho
  | un op e ih =>
    intro h
    cases op with
    | not => simp [arithOnly] at h
    | neg => simp only [arithOnly] at h; simpa [LogicOperands01] using ih h
  | _ => intro h; simp [arithOnly] at h

theorem simplifySoundArith : SimplifySoundArith K :=
  fun e ρ v he hv => (Rooc.simplify_sound_aux ρ e (logicOperands01_of_arithOnly ρ e he) v hv).1

end Rooc.LinP
