/-
No spurious error on the piecewise-linear fragment, part 3: the whole pipeline `Compile.linearize`, and a
non-vacuity example (`min y s.t. |x| ≤ y`, `x ∈ [−1, 2]`).
-/
import Rooc.Proofs.LinSucceedPW2
import Rooc.Proofs.LinSucceed2
import Rooc.Proofs.LinCounter

set_option linter.unusedSectionVars false
set_option linter.unusedSimpArgs false
set_option linter.unusedVariables false

namespace Rooc.LinP
open Rooc Rooc.Lin Rooc.Sem Rooc.Exp

variable {K : Type} [Field K] [LinearOrder K] [IsStrictOrderedRing K] [FloorRing K]

/-- the constraints handed to bound inference exist as soon as both sides of every comparison normalise. -/
theorem normalizedForBounds_of_norm : ∀ (cs0 : List (Constraint (Ext K))),
    (∀ c ∈ cs0, c.isAssert = false ∧ ∃ l r, normalizeExp c.lhs = some l ∧ normalizeExp c.rhs = some r) →
    ∃ cs, Compile.normalizedForBounds cs0 = some cs
  | [], _ => ⟨[], by simp [Compile.normalizedForBounds]⟩
  | c0 :: cs0, h => by
    obtain ⟨rest, hrest⟩ := normalizedForBounds_of_norm cs0 (fun c hc => h c (by simp [hc]))
    obtain ⟨hA, l, r, hl, hr⟩ := h c0 (by simp)
    exact ⟨_, by rw [nfb_cons c0 cs0 hA, hrest, hl, hr]; rfl⟩

/-- **no spurious error through the whole pipeline on piecewise-linear models**: relative to the bounds the
analyzer of the pipeline computes (`an`), the objective and every constraint are in the fragment; user names do
not start with `$`; the model fits the fuels of the Lean model. -/
theorem compile_succeeds_pw {m : Model (Ext K)} {tol : Ext K} {maxSteps : Nat} {an : Analyzer (Ext K)}
    (hscr : scratchOK m tol maxSteps) (han : pipelineAnalyzer m tol maxSteps = some an) {W : Nat} (hW : 1 ≤ W) (hB : budget W ≤ flattenFuel)
    (hnames : ∀ dv ∈ m.domain, SrcName dv.name)
    (hobj : ∃ o, normalizeExp m.objective = some o ∧ PW (Compile.toLinBounds an.variableBounds) o (objReq m) ∧ wt o ≤ W)
    (hcons : ∀ c ∈ m.constraints, SrcPW (Compile.toLinBounds an.variableBounds) W c)
    (hfuel : 4 * W * (m.constraints.length + 1) + 1 ≤ drainFuel) :
    ∃ lm, Compile.linearize m tol maxSteps = .ok lm := by
  have hnames' : ∀ dv ∈ an.applyToDomain m.domain, SrcName dv.name := by
    intro dv hdv
    simp only [Analyzer.applyToDomain, List.mem_map] at hdv
    obtain ⟨d0, hd0, rfl⟩ := hdv
    rw [applyToVar_name]; exact hnames d0 hd0
  obtain ⟨lm, hlm⟩ := linearizeWith_succeeds_pw (m := m) (Compile.toLinBounds an.variableBounds)
    (an.applyToDomain m.domain) hW hB hnames' hobj hcons hfuel
  exact ⟨lm, (compile_ok_iff _ _ _ _).mpr ⟨hscr, an, han, hlm⟩⟩

/-! ### non-vacuity: `min y  s.t.  c: |x| ≤ y`, `x ∈ [−1, 2]`, `y` free -/

theorem srcName_x : SrcName "x" := by unfold SrcName; decide
theorem srcName_y : SrcName "y" := by unfold SrcName; decide

theorem exAbs_pw : PW (exAbsBounds : BoundsMap (Ext K)) (.bin .sub (.abs (.var "x")) (.var "y")) .lower := by
  refine PW.sub (PW.absBigM (by intro x hx; simp [varsOf] at hx; subst hx; exact srcName_x) ?_ ?_ (Or.inl rfl)
    (PW.var _ _)) (PW.var _ _)
  · simp [exAbsBounds, boundsOf, lookupB, Arith.ge, Arith.le, Ext.le, Arith.zero]
  · simp [exAbsBounds, boundsOf, lookupB, Arith.le, Ext.le, Arith.zero]

theorem exAbs_srcPW : ∀ c ∈ (exAbs : Model (Ext K)).constraints, SrcPW (exAbsBounds : BoundsMap (Ext K)) 4 c := by
  intro c hc
  simp only [exAbs, List.mem_singleton] at hc
  subst hc
  exact ⟨rfl, .abs (.var "x"), .var "y", _, exAbs_norm_abs, exAbs_norm_var "y", by simp [ArithTop], by simp [ArithTop],
    exAbs_norm_sub1, exAbs_pw, by simp [wt]⟩

/-- the hypotheses of `linearizeWith_succeeds_pw` are satisfiable: the model with an `abs` compiles by the theorem. -/
theorem exAbs_succeeds_by_theorem :
    ∃ lm, linearizeWith (exAbs : Model (Ext K)) exAbsBounds (exAbs : Model (Ext K)).domain = .ok lm := by
  refine linearizeWith_succeeds_pw (W := 4) exAbsBounds _ (by norm_num) (by simp [budget, flattenFuel]) ?_
    ⟨.var "y", exAbs_norm_var "y", PW.var _ _, by simp [wt]⟩ exAbs_srcPW (by simp [exAbs, drainFuel])
  intro dv hdv
  simp only [exAbs, List.mem_cons, List.mem_nil_iff, or_false] at hdv
  rcases hdv with rfl | rfl
  · exact srcName_x
  · exact srcName_y

end Rooc.LinP
