/-
Stage D (values), part 2: the five reified connectives as instances of `spec_reify`.
-/
import Rooc.Proofs.LinSpecLogic

set_option linter.unusedSectionVars false
set_option linter.unusedSimpArgs false
set_option linter.unusedVariables false

namespace Rooc.LinP
open Rooc Rooc.Lin Rooc.Sem Rooc.Exp
open Rooc.Lin.Gadget (B01)

variable {K : Type} [Field K] [LinearOrder K] [IsStrictOrderedRing K] [FloorRing K]
variable {Src : Constraint (Ext K) → Prop}

theorem eval_and_some {ρ : String → K} {es : List (Exp (Ext K))} {m : K} (h : eval ρ (.and es) = some m) :
    ∃ vs, evalList ρ es = some vs ∧ m = ofBool (vs.all truthy) := by
  rw [eval] at h
  cases hl : evalList ρ es with
  | none => simp [hl] at h
  | some vs => exact ⟨vs, rfl, by simpa [hl, eq_comm] using h⟩

theorem eval_or_some {ρ : String → K} {es : List (Exp (Ext K))} {m : K} (h : eval ρ (.or es) = some m) :
    ∃ vs, evalList ρ es = some vs ∧ m = ofBool (vs.any truthy) := by
  rw [eval] at h
  cases hl : evalList ρ es with
  | none => simp [hl] at h
  | some vs => exact ⟨vs, rfl, by simpa [hl, eq_comm] using h⟩

theorem definedE_of_evalList {es : List (Exp (Ext K))}
    (h : ∀ ρ : String → K, ∃ vs, evalList ρ es = some vs) : ∀ e ∈ es, DefinedE e := by
  intro e he ρ
  obtain ⟨vs, hvs⟩ := h ρ
  have hF := evalList_eq_some_iff.mp hvs
  obtain ⟨i, hi, rfl⟩ := List.mem_iff_getElem.mp he
  obtain ⟨hlen, hget⟩ := List.forall₂_iff_get.mp hF
  exact ⟨_, hget i hi (by omega)⟩

theorem forall₂_length_eq {β γ : Type} {R : β → γ → Prop} {l : List β} {u : List γ} (h : List.Forall₂ R l u) :
    l.length = u.length := h.length_eq

theorem spec_and {es : List (Exp (Ext K))} (ih : ∀ e ∈ es, SpecHolds Src e) : SpecHolds Src (.and es) := by
  intro req s c s' hpre h
  rw [linExp] at h
  simp only [ite_ok, pure_ok, bind_ok, get_ok, set_ok, reify_ok] at h
  rcases h with ⟨hemp, hr⟩ | ⟨hne, ops, sL, hops, s1, s1', hg, u, s2, hset, hfresh, hr⟩
  · -- the empty conjunction is the constant 1
    simp only [Prod.mk.injEq] at hr
    obtain ⟨rfl, rfl⟩ := hr
    have : es = [] := by simpa using hemp
    subst this
    rw [ar_one]
    refine Spec.pure hpre.inv (fromRhs_ok 1) (by simp) ?_
    intro ρ v hv
    simp [eval, evalList, ofBool] at hv
    rw [fromRhs_val, hv]
  · cases hg; cases hset
    have hvars : ∀ e ∈ es, ∀ x ∈ varsOf e, inScope s.domain x := fun e he x hx =>
      hpre.vars x (by simp only [varsOf]; exact mem_varsOfList.mpr ⟨e, he, hx⟩)
    have hdef : ∀ e ∈ es, FinE e := hpre.defined.and_mem
    obtain ⟨hlin, hbin⟩ := binOperands_spec es ih s ops sL hpre.inv hvars hdef hops
    generalize hv : (toString "$and_" ++ toString sL.andCount) = v at *
    simp only [Prod.mk.injEq] at hr
    obtain ⟨rfl, rfl⟩ := hr
    set rows : List (Cmp × Exp (Ext K)) := ops.map (fun o => (Cmp.le, o)) ++
      [(Cmp.ge, subExp (sumExps ops) (.num (Arith.ofInt ((ops.length : Int) - 1))))] with hrows
    have hnum : (Arith.ofInt ((ops.length : Int) - 1) : Ext K) = Ext.fin ((ops.length : K) - 1) := by
      rw [ar_ofInt]; simp
    have S := spec_reify (Src := Src) (e := .and es) (rows := rows) req (fun as => ofBool (as.all truthy))
      ih hpre.inv hvars hdef hlin hbin hfresh (fun _ => ofBool_B01 _)
      (by
        intro S hS p hp
        simp only [hrows, List.mem_append, List.mem_map, List.mem_singleton] at hp
        rcases hp with ⟨o, ho, rfl⟩ | rfl
        · exact hS o ho
        · exact AG_subExp (AG_sumExps hS) (AG_num _))
      (by
        intro hD p hp
        simp only [hrows, List.mem_append, List.mem_map, List.mem_singleton] at hp
        rcases hp with ⟨o, ho, rfl⟩ | rfl
        · exact hD o ho
        · intro ρ
          obtain ⟨a, ha⟩ := definedE_sumExps hD ρ
          exact ⟨_, eval_subExp ha (by rw [hnum]; exact eval_num_fin ρ _)⟩)
      (by
        intro ρ as hf h01 hv01
        have hlen : ops.length = as.length := hf.length_eq
        have hsum : eval ρ (subExp (sumExps ops) (.num (Arith.ofInt ((ops.length : Int) - 1)))) =
            some (as.sum - ((as.length : K) - 1)) := by
          rw [hnum, hlen]; exact eval_subExp (eval_sumExps ρ hf) (eval_num_fin ρ _)
        have h1 : (∀ p ∈ rows, constraintHolds ρ (mkC (.var v) p.1 p.2) = true) ↔
            ((∀ a ∈ as, ρ v ≤ a) ∧ ρ v ≥ as.sum - ((as.length : K) - 1)) := by
          simp only [hrows, List.mem_append, List.mem_map, List.mem_singleton]
          constructor
          · intro h
            refine ⟨?_, ?_⟩
            · have := (holds_all_ops ρ v .le hf).mp (fun o ho => h (Cmp.le, o) (Or.inl ⟨o, ho, rfl⟩))
              intro a ha; simpa [cmpK] using this a ha
            · have := h _ (Or.inr rfl)
              rw [holds_mkC ρ _ _ _ (eval_var ρ v) hsum] at this
              simpa [cmpK] using this
          · rintro ⟨g1, g2⟩ p (⟨o, ho, rfl⟩ | rfl)
            · exact (holds_all_ops ρ v .le hf).mpr (fun a ha => by simpa [cmpK] using g1 a ha) o ho
            · rw [holds_mkC ρ _ _ _ (eval_var ρ v) hsum]; simpa [cmpK] using g2
        rw [h1, Gadget.and_reify_iff as hv01 h01, eq_ofBool_iff hv01, all_truthy_iff h01])
      (by
        intro ρ vs m hvs _ hm
        obtain ⟨vs', hvs', rfl⟩ := eval_and_some hm
        rw [hvs] at hvs'; cases hvs'; rfl)
      (by
        intro ρ m hm
        obtain ⟨vs, hvs, _⟩ := eval_and_some hm
        exact ⟨vs, hvs⟩)
    exact S.of_eq rfl rfl rfl rfl

theorem spec_or {es : List (Exp (Ext K))} (ih : ∀ e ∈ es, SpecHolds Src e) : SpecHolds Src (.or es) := by
  intro req s c s' hpre h
  rw [linExp] at h
  simp only [ite_ok, pure_ok, bind_ok, get_ok, set_ok, reify_ok] at h
  rcases h with ⟨hemp, hr⟩ | ⟨hne, ops, sL, hops, s1, s1', hg, u, s2, hset, hfresh, hr⟩
  · simp only [Prod.mk.injEq] at hr
    obtain ⟨rfl, rfl⟩ := hr
    have : es = [] := by simpa using hemp
    subst this
    refine spec_zero hpre.inv ?_
    intro ρ v hv
    simp [eval, evalList, ofBool] at hv
    exact hv.symm
  · cases hg; cases hset
    have hvars : ∀ e ∈ es, ∀ x ∈ varsOf e, inScope s.domain x := fun e he x hx =>
      hpre.vars x (by simp only [varsOf]; exact mem_varsOfList.mpr ⟨e, he, hx⟩)
    have hdef : ∀ e ∈ es, FinE e := hpre.defined.or_mem
    obtain ⟨hlin, hbin⟩ := binOperands_spec es ih s ops sL hpre.inv hvars hdef hops
    generalize hv : (toString "$or_" ++ toString sL.orCount) = v at *
    simp only [Prod.mk.injEq] at hr
    obtain ⟨rfl, rfl⟩ := hr
    set rows : List (Cmp × Exp (Ext K)) := ops.map (fun o => (Cmp.ge, o)) ++ [(Cmp.le, sumExps ops)] with hrows
    have S := spec_reify (Src := Src) (e := .or es) (rows := rows) req (fun as => ofBool (as.any truthy))
      ih hpre.inv hvars hdef hlin hbin hfresh (fun _ => ofBool_B01 _)
      (by
        intro S hS p hp
        simp only [hrows, List.mem_append, List.mem_map, List.mem_singleton] at hp
        rcases hp with ⟨o, ho, rfl⟩ | rfl
        · exact hS o ho
        · exact AG_sumExps hS)
      (by
        intro hD p hp
        simp only [hrows, List.mem_append, List.mem_map, List.mem_singleton] at hp
        rcases hp with ⟨o, ho, rfl⟩ | rfl
        · exact hD o ho
        · exact definedE_sumExps hD)
      (by
        intro ρ as hf h01 hv01
        have hsum := eval_sumExps ρ hf
        have h1 : (∀ p ∈ rows, constraintHolds ρ (mkC (.var v) p.1 p.2) = true) ↔
            ((∀ a ∈ as, ρ v ≥ a) ∧ ρ v ≤ as.sum) := by
          simp only [hrows, List.mem_append, List.mem_map, List.mem_singleton]
          constructor
          · intro h
            refine ⟨?_, ?_⟩
            · have := (holds_all_ops ρ v .ge hf).mp (fun o ho => h (Cmp.ge, o) (Or.inl ⟨o, ho, rfl⟩))
              intro a ha; simpa [cmpK] using this a ha
            · have := h _ (Or.inr rfl)
              rw [holds_mkC ρ _ _ _ (eval_var ρ v) hsum] at this
              simpa [cmpK] using this
          · rintro ⟨g1, g2⟩ p (⟨o, ho, rfl⟩ | rfl)
            · exact (holds_all_ops ρ v .ge hf).mpr (fun a ha => by simpa [cmpK] using g1 a ha) o ho
            · rw [holds_mkC ρ _ _ _ (eval_var ρ v) hsum]; simpa [cmpK] using g2
        rw [h1, Gadget.or_reify_iff as hv01 h01, eq_ofBool_iff hv01, any_truthy_iff h01])
      (by
        intro ρ vs m hvs _ hm
        obtain ⟨vs', hvs', rfl⟩ := eval_or_some hm
        rw [hvs] at hvs'; cases hvs'; rfl)
      (by
        intro ρ m hm
        obtain ⟨vs, hvs, _⟩ := eval_or_some hm
        exact ⟨vs, hvs⟩)
    exact S.of_eq rfl rfl rfl rfl

/-! ### the binary connectives -/

theorem eval_logic2_some {ρ : String → K} {l r : Exp (Ext K)} {m : K} {op : BinOp} {e : Exp (Ext K)}
    (he : eval ρ e = (eval ρ l).bind fun x => (eval ρ r).bind fun y => binVal op x y) (h : eval ρ e = some m) :
    ∃ x y, evalList ρ [l, r] = some [x, y] ∧ binVal op x y = some m := by
  rw [he] at h
  cases hl : eval ρ l with
  | none => simp [hl] at h
  | some x =>
    cases hr : eval ρ r with
    | none => simp [hl, hr] at h
    | some y => exact ⟨x, y, by simp [evalList, hl, hr], by simpa [hl, hr] using h⟩

theorem eval_implies_eq (ρ : String → K) (l r : Exp (Ext K)) :
    eval ρ (.implies l r) = (eval ρ l).bind fun x => (eval ρ r).bind fun y => binVal .implies x y := by
  rw [eval]; rfl
theorem eval_iff_eq (ρ : String → K) (l r : Exp (Ext K)) :
    eval ρ (.iff l r) = (eval ρ l).bind fun x => (eval ρ r).bind fun y => binVal .iff x y := by
  rw [eval]; rfl
theorem eval_xor_eq (ρ : String → K) (l r : Exp (Ext K)) :
    eval ρ (.xor l r) = (eval ρ l).bind fun x => (eval ρ r).bind fun y => binVal .xor x y := by
  rw [eval]; rfl

/-- the truth function of a binary connective on a two-element operand list. -/
noncomputable def T2 (f : Bool → Bool → Bool) : List K → K
  | [x, y] => ofBool (f (truthy x) (truthy y))
  | _ => 0

theorem T2_B01 (f : Bool → Bool → Bool) (as : List K) : B01 (T2 f as) := by
  unfold T2
  split
  · exact ofBool_B01 _
  · exact Or.inl rfl

theorem two_operands {l r : Exp (Ext K)} {s s1 s2 : St (Ext K)} {a b : Exp (Ext K)}
    (h1 : linBinaryOperand l s = .ok (a, s1)) (h2 : linBinaryOperand r s1 = .ok (b, s2)) :
    linBinaryOperands [l, r] s = .ok ([a, b], s2) := by
  simp only [linBinaryOperands, bind_ok, pure_ok]
  exact ⟨a, s1, h1, [b], s2, ⟨b, s2, h2, [], s2, rfl, rfl⟩, rfl⟩

theorem mem_pair {β : Type} {x a b : β} : x ∈ [a, b] ↔ x = a ∨ x = b := by simp

theorem spec_implies {l r : Exp (Ext K)} (ihl : SpecHolds Src l) (ihr : SpecHolds Src r) :
    SpecHolds Src (.implies l r) := by
  intro req s c s' hpre h
  rw [linExp] at h
  simp only [bind_ok, get_ok, set_ok, reify_ok] at h
  obtain ⟨a, s1, h1, b, s2, h2, sg, sg', hg, u, s3, hset, hfresh, hr⟩ := h
  cases hg; cases hset
  have ih : ∀ e ∈ [l, r], SpecHolds Src e := by
    intro e he; rcases mem_pair.mp he with rfl | rfl; exacts [ihl, ihr]
  have hvars : ∀ e ∈ [l, r], ∀ x ∈ varsOf e, inScope s.domain x := by
    intro e he x hx
    rcases mem_pair.mp he with rfl | rfl
    · exact hpre.vars x (by simp [varsOf, hx])
    · exact hpre.vars x (by simp [varsOf, hx])
  have hdef : ∀ e ∈ [l, r], FinE e := hpre.defined.implies_mem
  obtain ⟨hlin, hbin⟩ := binOperands_spec [l, r] ih s [a, b] s2 hpre.inv hvars hdef (two_operands h1 h2)
  generalize hv : (toString "$implies_" ++ toString s2.impliesCount) = v at *
  simp only [Prod.mk.injEq] at hr
  obtain ⟨rfl, rfl⟩ := hr
  set rows : List (Cmp × Exp (Ext K)) :=
    [(Cmp.ge, subExp (.num Arith.one) a), (Cmp.ge, b), (Cmp.le, addExp (subExp (.num Arith.one) a) b)] with hrows
  have S := spec_reify (Src := Src) (e := .implies l r) (rows := rows) req (T2 (fun p q => !p || q))
    ih hpre.inv hvars hdef hlin hbin hfresh (T2_B01 _)
    (by
      intro S hS p hp
      have ha := hS a (by simp); have hb := hS b (by simp)
      simp only [hrows, List.mem_cons, List.mem_singleton, List.not_mem_nil, or_false] at hp
      rcases hp with rfl | rfl | rfl
      · exact AG_subExp (AG_num _) ha
      · exact hb
      · exact AG_addExp (AG_subExp (AG_num _) ha) hb)
    (by
      intro hD p hp ρ
      obtain ⟨x, hx⟩ := hD a (by simp) ρ; obtain ⟨y, hy⟩ := hD b (by simp) ρ
      have e1 : eval ρ (.num (Arith.one : Ext K)) = some 1 := by rw [ar_one]; exact eval_num_fin ρ 1
      simp only [hrows, List.mem_cons, List.mem_singleton, List.not_mem_nil, or_false] at hp
      rcases hp with rfl | rfl | rfl
      · exact ⟨_, eval_subExp e1 hx⟩
      · exact ⟨_, hy⟩
      · exact ⟨_, eval_addExp (eval_subExp e1 hx) hy⟩)
    (by
      intro ρ as hf h01 hv01
      cases hf with
      | cons hx hf2 =>
        cases hf2 with
        | cons hy hf3 =>
          cases hf3
          rename_i x y
          have hx01 := h01 x (by simp); have hy01 := h01 y (by simp)
          have e1 : eval ρ (.num (Arith.one : Ext K)) = some 1 := by rw [ar_one]; exact eval_num_fin ρ 1
          simp only [hrows, List.mem_cons, List.mem_singleton, List.not_mem_nil, or_false, forall_eq_or_imp,
            forall_eq, holds_mkC ρ _ _ _ (eval_var ρ v) (eval_subExp e1 hx), holds_mkC ρ _ _ _ (eval_var ρ v) hy,
            holds_mkC ρ _ _ _ (eval_var ρ v) (eval_addExp (eval_subExp e1 hx) hy), cmpK, ef_le, decide_eq_true_eq]
          have := Gadget.implies_reify_iff hv01 hx01 hy01
          simp only [ge_iff_le] at this
          rw [this, T2, eq_ofBool_iff hv01, Bool.or_eq_true, Bool.not_eq_true', truthy_B01 hy01]
          rcases hx01 with rfl | rfl <;> simp [truthy])
    (by
      intro ρ vs m hvs _ hm
      obtain ⟨x, y, hxy, hb⟩ := eval_logic2_some (eval_implies_eq ρ l r) hm
      rw [hvs] at hxy; cases hxy
      simp only [binVal, Option.some.injEq] at hb
      rw [← hb]; rfl)
    (by
      intro ρ m hm
      obtain ⟨x, y, hxy, _⟩ := eval_logic2_some (eval_implies_eq ρ l r) hm
      exact ⟨_, hxy⟩)
  exact S.of_eq rfl rfl rfl rfl

theorem spec_iff {l r : Exp (Ext K)} (ihl : SpecHolds Src l) (ihr : SpecHolds Src r) :
    SpecHolds Src (.iff l r) := by
  intro req s c s' hpre h
  rw [linExp] at h
  simp only [bind_ok, get_ok, set_ok, reify_ok] at h
  obtain ⟨a, s1, h1, b, s2, h2, sg, sg', hg, u, s3, hset, hfresh, hr⟩ := h
  cases hg; cases hset
  have ih : ∀ e ∈ [l, r], SpecHolds Src e := by
    intro e he; rcases mem_pair.mp he with rfl | rfl; exacts [ihl, ihr]
  have hvars : ∀ e ∈ [l, r], ∀ x ∈ varsOf e, inScope s.domain x := by
    intro e he x hx
    rcases mem_pair.mp he with rfl | rfl
    · exact hpre.vars x (by simp [varsOf, hx])
    · exact hpre.vars x (by simp [varsOf, hx])
  have hdef : ∀ e ∈ [l, r], FinE e := hpre.defined.iff_mem
  obtain ⟨hlin, hbin⟩ := binOperands_spec [l, r] ih s [a, b] s2 hpre.inv hvars hdef (two_operands h1 h2)
  generalize hv : (toString "$iff_" ++ toString s2.iffCount) = v at *
  simp only [Prod.mk.injEq] at hr
  obtain ⟨rfl, rfl⟩ := hr
  set rows : List (Cmp × Exp (Ext K)) :=
    [(Cmp.ge, subExp (addExp a b) (.num Arith.one)), (Cmp.ge, subExp (subExp (.num Arith.one) a) b),
     (Cmp.le, addExp (subExp (.num Arith.one) a) b), (Cmp.le, subExp (addExp (.num Arith.one) a) b)] with hrows
  have S := spec_reify (Src := Src) (e := .iff l r) (rows := rows) req (T2 (fun p q => p == q))
    ih hpre.inv hvars hdef hlin hbin hfresh (T2_B01 _)
    (by
      intro S hS p hp
      have ha := hS a (by simp); have hb := hS b (by simp)
      simp only [hrows, List.mem_cons, List.mem_singleton, List.not_mem_nil, or_false] at hp
      rcases hp with rfl | rfl | rfl | rfl
      · exact AG_subExp (AG_addExp ha hb) (AG_num _)
      · exact AG_subExp (AG_subExp (AG_num _) ha) hb
      · exact AG_addExp (AG_subExp (AG_num _) ha) hb
      · exact AG_subExp (AG_addExp (AG_num _) ha) hb)
    (by
      intro hD p hp ρ
      obtain ⟨x, hx⟩ := hD a (by simp) ρ; obtain ⟨y, hy⟩ := hD b (by simp) ρ
      have e1 : eval ρ (.num (Arith.one : Ext K)) = some 1 := by rw [ar_one]; exact eval_num_fin ρ 1
      simp only [hrows, List.mem_cons, List.mem_singleton, List.not_mem_nil, or_false] at hp
      rcases hp with rfl | rfl | rfl | rfl
      · exact ⟨_, eval_subExp (eval_addExp hx hy) e1⟩
      · exact ⟨_, eval_subExp (eval_subExp e1 hx) hy⟩
      · exact ⟨_, eval_addExp (eval_subExp e1 hx) hy⟩
      · exact ⟨_, eval_subExp (eval_addExp e1 hx) hy⟩)
    (by
      intro ρ as hf h01 hv01
      cases hf with
      | cons hx hf2 =>
        cases hf2 with
        | cons hy hf3 =>
          cases hf3
          rename_i x y
          have hx01 := h01 x (by simp); have hy01 := h01 y (by simp)
          have e1 : eval ρ (.num (Arith.one : Ext K)) = some 1 := by rw [ar_one]; exact eval_num_fin ρ 1
          simp only [hrows, List.mem_cons, List.mem_singleton, List.not_mem_nil, or_false, forall_eq_or_imp,
            forall_eq, holds_mkC ρ _ _ _ (eval_var ρ v) (eval_subExp (eval_addExp hx hy) e1),
            holds_mkC ρ _ _ _ (eval_var ρ v) (eval_subExp (eval_subExp e1 hx) hy),
            holds_mkC ρ _ _ _ (eval_var ρ v) (eval_addExp (eval_subExp e1 hx) hy),
            holds_mkC ρ _ _ _ (eval_var ρ v) (eval_subExp (eval_addExp e1 hx) hy), cmpK, ef_le, decide_eq_true_eq]
          have := Gadget.iff_reify_iff hv01 hx01 hy01
          simp only [ge_iff_le] at this
          rw [this, T2, eq_ofBool_iff hv01]
          rcases hx01 with rfl | rfl <;> rcases hy01 with rfl | rfl <;> simp [truthy])
    (by
      intro ρ vs m hvs _ hm
      obtain ⟨x, y, hxy, hb⟩ := eval_logic2_some (eval_iff_eq ρ l r) hm
      rw [hvs] at hxy; cases hxy
      simp only [binVal, Option.some.injEq] at hb
      rw [← hb]; rfl)
    (by
      intro ρ m hm
      obtain ⟨x, y, hxy, _⟩ := eval_logic2_some (eval_iff_eq ρ l r) hm
      exact ⟨_, hxy⟩)
  exact S.of_eq rfl rfl rfl rfl

theorem spec_xor {l r : Exp (Ext K)} (ihl : SpecHolds Src l) (ihr : SpecHolds Src r) :
    SpecHolds Src (.xor l r) := by
  intro req s c s' hpre h
  rw [linExp] at h
  simp only [bind_ok, get_ok, set_ok, reify_ok] at h
  obtain ⟨a, s1, h1, b, s2, h2, sg, sg', hg, u, s3, hset, hfresh, hr⟩ := h
  cases hg; cases hset
  have ih : ∀ e ∈ [l, r], SpecHolds Src e := by
    intro e he; rcases mem_pair.mp he with rfl | rfl; exacts [ihl, ihr]
  have hvars : ∀ e ∈ [l, r], ∀ x ∈ varsOf e, inScope s.domain x := by
    intro e he x hx
    rcases mem_pair.mp he with rfl | rfl
    · exact hpre.vars x (by simp [varsOf, hx])
    · exact hpre.vars x (by simp [varsOf, hx])
  have hdef : ∀ e ∈ [l, r], FinE e := hpre.defined.xor_mem
  obtain ⟨hlin, hbin⟩ := binOperands_spec [l, r] ih s [a, b] s2 hpre.inv hvars hdef (two_operands h1 h2)
  generalize hv : (toString "$xor_" ++ toString s2.xorCount) = v at *
  simp only [Prod.mk.injEq] at hr
  obtain ⟨rfl, rfl⟩ := hr
  set rows : List (Cmp × Exp (Ext K)) :=
    [(Cmp.le, addExp a b), (Cmp.ge, subExp a b), (Cmp.ge, subExp b a),
     (Cmp.le, subExp (subExp (.num (Arith.ofInt 2)) a) b)] with hrows
  have S := spec_reify (Src := Src) (e := .xor l r) (rows := rows) req (T2 (fun p q => p != q))
    ih hpre.inv hvars hdef hlin hbin hfresh (T2_B01 _)
    (by
      intro S hS p hp
      have ha := hS a (by simp); have hb := hS b (by simp)
      simp only [hrows, List.mem_cons, List.mem_singleton, List.not_mem_nil, or_false] at hp
      rcases hp with rfl | rfl | rfl | rfl
      · exact AG_addExp ha hb
      · exact AG_subExp ha hb
      · exact AG_subExp hb ha
      · exact AG_subExp (AG_subExp (AG_num _) ha) hb)
    (by
      intro hD p hp ρ
      obtain ⟨x, hx⟩ := hD a (by simp) ρ; obtain ⟨y, hy⟩ := hD b (by simp) ρ
      have e1 : eval ρ (.num (Arith.ofInt 2 : Ext K)) = some 2 := by rw [ar_ofInt]; simp [eval]
      simp only [hrows, List.mem_cons, List.mem_singleton, List.not_mem_nil, or_false] at hp
      rcases hp with rfl | rfl | rfl | rfl
      · exact ⟨_, eval_addExp hx hy⟩
      · exact ⟨_, eval_subExp hx hy⟩
      · exact ⟨_, eval_subExp hy hx⟩
      · exact ⟨_, eval_subExp (eval_subExp e1 hx) hy⟩)
    (by
      intro ρ as hf h01 hv01
      cases hf with
      | cons hx hf2 =>
        cases hf2 with
        | cons hy hf3 =>
          cases hf3
          rename_i x y
          have hx01 := h01 x (by simp); have hy01 := h01 y (by simp)
          have e1 : eval ρ (.num (Arith.ofInt 2 : Ext K)) = some 2 := by rw [ar_ofInt]; simp [eval]
          simp only [hrows, List.mem_cons, List.mem_singleton, List.not_mem_nil, or_false, forall_eq_or_imp,
            forall_eq, holds_mkC ρ _ _ _ (eval_var ρ v) (eval_addExp hx hy),
            holds_mkC ρ _ _ _ (eval_var ρ v) (eval_subExp hx hy),
            holds_mkC ρ _ _ _ (eval_var ρ v) (eval_subExp hy hx),
            holds_mkC ρ _ _ _ (eval_var ρ v) (eval_subExp (eval_subExp e1 hx) hy), cmpK, ef_le, decide_eq_true_eq]
          have := Gadget.xor_reify_iff hv01 hx01 hy01
          simp only [ge_iff_le] at this
          rw [this, T2, eq_ofBool_iff hv01]
          rcases hx01 with rfl | rfl <;> rcases hy01 with rfl | rfl <;> simp [truthy])
    (by
      intro ρ vs m hvs _ hm
      obtain ⟨x, y, hxy, hb⟩ := eval_logic2_some (eval_xor_eq ρ l r) hm
      rw [hvs] at hxy; cases hxy
      simp only [binVal, Option.some.injEq] at hb
      rw [← hb]; rfl)
    (by
      intro ρ m hm
      obtain ⟨x, y, hxy, _⟩ := eval_logic2_some (eval_xor_eq ρ l r) hm
      exact ⟨_, hxy⟩)
  exact S.of_eq rfl rfl rfl rfl

end Rooc.LinP
