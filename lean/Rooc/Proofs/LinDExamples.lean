/-
Stage D: concrete models run symbolically — non-vacuity of the hypotheses of the theorems on models with
logic, and the counterexample for the and/or side condition.
-/
import Rooc.Proofs.LinD11
import Rooc.Proofs.LinCounter

set_option linter.unusedSectionVars false
set_option linter.unusedSimpArgs false
set_option linter.unusedVariables false

namespace Rooc.LinP
open Rooc Rooc.Lin Rooc.Sem Rooc.Exp
open Rooc.Lin.Gadget (B01)

variable {K : Type} [Field K] [LinearOrder K] [IsStrictOrderedRing K] [FloorRing K]

/-! ### `min a  s.t.  c: assert (a or b)`, `a`, `b` Boolean -/

def exOrC : Constraint (Ext K) :=
  { name := "c", lhs := .or [.var "a", .var "b"], cmp := .eq, rhs := .num (.fin 1), isAssert := true }

def exOr : Model (Ext K) :=
  { optType := .min, objective := .var "a", constraints := [exOrC],
    domain := [{ name := "a", ty := .bool, usage := 1 }, { name := "b", ty := .bool, usage := 1 }] }

theorem exOr_norm : normalizeExp (.or [.var "a", .var "b"] : Exp (Ext K)) = some (.or [.var "a", .var "b"]) := by
  simp [normalizeExp, flattenFuel, flattenF, simplify, naryCore, naryFlatten, naryStep, naryScan,
    mayBeUndefinedAny, mayBeUndefined]

theorem exOr_norm_one : normalizeExp (.num (.fin 1) : Exp (Ext K)) = some (.num (.fin 1)) := by
  simp [normalizeExp, flattenFuel, flattenF, simplify]

theorem exOr_norm_sum : normalizeExp (.bin .sub (sumExps [ctxToExp (Ctx.fromVar "a" (Arith.one : Ext K)),
      ctxToExp (Ctx.fromVar "b" Arith.one)]) (.num Arith.one) : Exp (Ext K))
    = some (.bin .sub (.bin .add (.var "a") (.var "b")) (.num (.fin 1))) := by
  simp [normalizeExp, flattenFuel, flattenF, simplify, sumExps, addExp, ctxToExp, fromVar_eq, addCore, subCore,
    mulCore, isNumEq, Ext.eq, Arith.eq, mayBeUndefined]

/-- the assertion `a or b` is lowered on the affine path to the single row `a + b ≥ 1`. -/
theorem exOr_proc (s : St (Ext K)) (ha : isBoolVar s.domain "a" = true) (hb : isBoolVar s.domain "b" = true) :
    ∃ row, processConstraint (exOrC : Constraint (Ext K)) s = .ok ((), addRow s row) := by
  let cx : Ctx (Ext K) := ((Ctx.fromVar "a" Arith.one).mergeAdd (Ctx.fromVar "b" Arith.one)).mergeSub
    (Ctx.fromRhs (Ext.fin 1))
  refine ⟨{ name := "c", lhs := cx.vars, rhs := Arith.neg cx.rhs, cmp := .ge }, ?_⟩
  unfold processConstraint exOrC
  simp only [bind_ok, simplifyFlat_ok]
  refine ⟨_, _, ⟨_, exOr_norm, rfl⟩, _, _, ⟨_, exOr_norm_one, rfl⟩, ?_⟩
  simp only [if_true]
  rw [lowerAssertion]
  simp only [bind_ok]
  refine ⟨true, _, ?_, by simp [pure_ok]; rfl⟩
  rw [tryLowerAffine]
  simp only [bind_ok, get_ok]
  refine ⟨s, s, rfl, ?_⟩
  have hops : allSome ([.var "a", .var "b"].map fun e : Exp (Ext K) => (binaryAffineValue s.domain e).map ctxToExp)
      = some [ctxToExp (Ctx.fromVar "a" (Arith.one : Ext K)), ctxToExp (Ctx.fromVar "b" Arith.one)] := by
    simp [allSome, binaryAffineValue, ha, hb]
  simp only [hops, if_true, bind_ok, pure_ok]
  refine ⟨(), _, ?_, rfl⟩
  rw [emitConstraint_ok]
  refine ⟨_, cx, s, exOr_norm_sum, ?_, rfl⟩
  simp [linExp, bind_ok, pure_ok, cx]

theorem exOr_ok : ∃ lm, linearizeWith (exOr : Model (Ext K)) [] (exOr : Model (Ext K)).domain = .ok lm := by
  let s0 : St (Ext K) := { queue := (exOr : Model (Ext K)).constraints, domain := (exOr : Model (Ext K)).domain, bounds := [] }
  have hba : isBoolVar s0.domain "a" = true := by simp [s0, exOr, isBoolVar, domainType]
  have hbb : isBoolVar s0.domain "b" = true := by simp [s0, exOr, isBoolVar, domainType]
  obtain ⟨row, hproc⟩ := exOr_proc { s0 with queue := [] } hba hbb
  have hdrain : ∃ s3, drain drainFuel s0 = .ok ((), s3) := by
    have h1 : drainFuel = 999998 + 1 + 1 := rfl
    rw [h1]
    refine ⟨addRow { s0 with queue := [] } row, ?_⟩
    apply drain_cons _ s0 _ _ [] rfl hproc
    exact drain_nil _ _ rfl
  obtain ⟨s3, hs3⟩ := hdrain
  exact ⟨_, (linearizeWith_ok_iff _ _ _ _).mpr ⟨.var "a", s0, Ctx.fromVar "a" Arith.one, s0, s3,
    by simp [simplifyFlat_ok, exAbs_norm_var, exOr, s0], by simp [linExp, pure_ok], hs3, rfl⟩⟩

theorem exOr_logicModel : LogicModel (exOr : Model (Ext K)) (exOr : Model (Ext K)).domain := by
  have sa : inScope (exOr : Model (Ext K)).domain "a" :=
    ⟨{ name := "a", ty := .bool, usage := 1 }, by simp [exOr], rfl, by simp⟩
  have sb : inScope (exOr : Model (Ext K)).domain "b" :=
    ⟨{ name := "b", ty := .bool, usage := 1 }, by simp [exOr], rfl, by simp⟩
  have hnd : ((exOr : Model (Ext K)).domain.map (·.name)).Nodup := by simp [exOr]
  have hvars : ∀ y ∈ varsOf (.or [.var "a", .var "b"] : Exp (Ext K)), inScope (exOr : Model (Ext K)).domain y := by
    intro y hy
    simp [varsOf, varsOfList] at hy
    rcases hy with rfl | rfl; exacts [sa, sb]
  refine ⟨⟨by intro y hy; simp [exOr, varsOf] at hy; subst hy; exact sa, by simp [FinE, exOr, finiteLits],
    fun ρ _ => by simp [exOr, NC]⟩, ?_⟩
  intro c hc
  simp only [exOr, List.mem_singleton] at hc
  subst hc
  refine ⟨⟨hvars, by simp [FinE, exOrC, finiteLits, finiteLitsL], ?_⟩,
    ⟨by simp [exOrC, varsOf], by simp [FinE, exOrC, finiteLits, isFin], fun ρ _ => by simp [exOrC, NC]⟩⟩
  · have hdef : DefOn (exOr : Model (Ext K)).domain (.or [.var "a", .var "b"]) := fun ρ _ =>
      ⟨_, eval_or_of (vs := [ρ "a", ρ "b"]) (by simp [evalList, eval])⟩
    exact NCon.ofLO (loOn_of_operandsOK hnd
      (by simp [exOrC, operandsOK, operandsOKList, isLogicValue, isBoolVar, domainType, exOr]) hvars) hdef

theorem exOr_domRel : DomRel (exOr : Model (Ext K)) (exOr : Model (Ext K)).domain :=
  ⟨by simp [exOr], fun _ h => h, fun ρ h => ((srcFeasible_iff _ ρ).mp h).2, fun dv hdv hu => ⟨dv, hdv, rfl, hu⟩⟩

theorem exOr_box : BoxEnforced ([] : BoundsMap (Ext K)) (exOr : Model (Ext K)).domain := by
  intro ρ _ n bd _ hl; simp [lookupB] at hl

/-- `a = 0, b = 1` is source-feasible with objective value 0. -/
theorem exOr_feasible : srcFeasible (exOr : Model (Ext K)) (fun n => if n = "b" then 1 else 0) = true ∧
    eval (fun n => if n = "b" then (1 : K) else 0) (exOr : Model (Ext K)).objective = some 0 := by
  constructor
  · rw [srcFeasible_iff]
    constructor
    · intro c hc
      simp only [exOr, List.mem_singleton] at hc
      subst hc
      rw [constraintHolds_assert rfl]
      have := eval_or_of (ρ := fun n => if n = "b" then (1 : K) else 0) (es := [.var "a", .var "b"]) (vs := [0, 1])
        (by simp [evalList, eval])
      simpa [exOrC, truthy, ofBool] using this
    · intro dv hdv _
      simp only [exOr, List.mem_cons, List.mem_nil_iff, or_false] at hdv
      rcases hdv with rfl | rfl <;> simp [inDomain]
  · simp [exOr, eval]

/-! ### the and/or side condition cannot be dropped: `min x  s.t.  c: (x and 1) = 3`, `x ∈ Real(0, 4)` -/

def exAndOneC : Constraint (Ext K) :=
  { name := "c", lhs := .and [.var "x", .num (.fin 1)], cmp := .eq, rhs := .num (.fin 3), isAssert := false }

def exAndOne : Model (Ext K) :=
  { optType := .min, objective := .var "x", constraints := [exAndOneC],
    domain := [{ name := "x", ty := .real (.fin 0) (.fin 4), usage := 1 }] }

theorem exAndOne_norm : normalizeExp (.and [.var "x", .num (.fin 1)] : Exp (Ext K)) = some (.var "x") := by
  simp [normalizeExp, flattenFuel, flattenF, simplify, naryCore, naryFlatten, naryStep, naryScan,
    mayBeUndefinedAny, mayBeUndefined, numTruthy, Arith.eq, Ext.eq]

theorem exAndOne_norm_three : normalizeExp (.num (.fin 3) : Exp (Ext K)) = some (.num (.fin 3)) := by
  simp [normalizeExp, flattenFuel, flattenF, simplify]

theorem exAndOne_norm_sub : normalizeExp (.bin .sub (.var "x") (.num (.fin 3)) : Exp (Ext K))
    = some (.bin .sub (.var "x") (.num (.fin 3))) := by
  have h3 : (3 : K) ≠ 0 := by norm_num
  simp [normalizeExp, flattenFuel, flattenF, simplify, subCore, Arith.eq, Ext.eq, h3]

def exAndOneRow : MidRow (Ext K) := { name := "c", lhs := [("x", Ext.fin 1)], rhs := Ext.fin 3, cmp := .eq }

/-- the operand `1` is dropped, the non-Boolean `x` is what is left: the row is `x = 3`. -/
theorem exAndOne_proc (s : St (Ext K)) (hx : isBoolVar s.domain "x" = false) :
    processConstraint (exAndOneC : Constraint (Ext K)) s = .ok ((), addRow s exAndOneRow) := by
  unfold processConstraint exAndOneC
  simp only [bind_ok, simplifyFlat_ok]
  refine ⟨_, _, ⟨_, exAndOne_norm, rfl⟩, _, _, ⟨_, exAndOne_norm_three, rfl⟩, ?_⟩
  simp only [Bool.false_eq_true, if_false]
  unfold dispatch
  simp only [bind_ok, get_ok]
  refine ⟨s, s, rfl, ?_⟩
  have : tryNormalize s.domain (.var "x" : Exp (Ext K)) .eq (.num (.fin 3)) = none := by
    simp [tryNormalize, isLogicValue, hx]
  simp only [this]
  rw [emitConstraint_ok]
  refine ⟨_, (Ctx.fromVar "x" Arith.one).mergeSub (Ctx.fromRhs (Ext.fin 3)), s, exAndOne_norm_sub, ?_, ?_⟩
  · simp [linExp, bind_ok, pure_ok]
  · simp [addRow, exAndOneRow, Ctx.mergeSub, fromVar_eq, Ctx.fromRhs, Ctx.addRhs, Ctx.new, Ctx.addVar, Ext.neg,
      Ext.add, Arith.neg, Arith.add, Arith.zero]

noncomputable def exAndOneLM : LinModel (Ext K) :=
  assemble exAndOne (Ctx.fromVar "x" Arith.one)
    { queue := [], rows := [exAndOneRow], domain := (exAndOne : Model (Ext K)).domain, bounds := [] }

theorem exAndOne_ok :
    linearizeWith (exAndOne : Model (Ext K)) [] (exAndOne : Model (Ext K)).domain = .ok exAndOneLM := by
  let s0 : St (Ext K) := { queue := (exAndOne : Model (Ext K)).constraints, domain := (exAndOne : Model (Ext K)).domain, bounds := [] }
  have hx : isBoolVar s0.domain "x" = false := by simp [s0, exAndOne, isBoolVar, domainType]
  have hproc := exAndOne_proc { s0 with queue := [] } hx
  have hdrain : drain drainFuel s0 = .ok ((), addRow { s0 with queue := [] } exAndOneRow) := by
    have h1 : drainFuel = 999998 + 1 + 1 := rfl
    rw [h1]
    apply drain_cons _ s0 _ _ [] rfl hproc
    exact drain_nil _ _ rfl
  exact (linearizeWith_ok_iff _ _ _ _).mpr ⟨.var "x", s0, Ctx.fromVar "x" Arith.one, s0, _,
    by simp [simplifyFlat_ok, exAbs_norm_var, exAndOne, s0], by simp [linExp, pure_ok], hdrain, rfl⟩

theorem exAndOne_linFeasible : linFeasible (exAndOneLM : LinModel (Ext K)) (fun _ => 3) = true := by
  have h1 : (0 : K) ≤ 3 := by norm_num
  have h2 : (3 : K) ≤ 4 := by norm_num
  simp [exAndOneLM, assemble, linFeasible, exAndOneRow, exAndOne, dedupNames, sortStr, insertSortedDup,
    extractCoeffs, rowHolds, dotK, cmpK, inDomain, geExt, leExt, h1, h2, indexOf, indexOf.go]

theorem exAndOne_not_srcFeasible (ρ : String → K) : ¬ srcFeasible (exAndOne : Model (Ext K)) ρ = true := by
  intro h
  have := ((srcFeasible_iff _ _).mp h).1 exAndOneC (by simp [exAndOne])
  have hv := eval_and_of (ρ := ρ) (es := [.var "x", .num (.fin 1)]) (vs := [ρ "x", 1]) (by simp [evalList, eval])
  simp only [constraintHolds, exAndOneC, Bool.false_eq_true, if_false, hv, eval_num_fin, cmpK] at this
  have h01 := ofBool_B01 (K := K) ([ρ "x", 1].all truthy)
  rcases h01 with h0 | h0 <;> rw [h0] at this <;> norm_num at this

/-- **why the and/or side condition is a hypothesis** (C10's known finding, seen from C01): every hypothesis of
`logic_feasible_iff` holds except that the operand `x` of `and` is not 0/1-valued; the linear model has the
feasible point `x = 3`, the source model has none. -/
theorem lo_needed :
    ∃ (m : Model (Ext K)) (b : BoundsMap (Ext K)) (d : List (DomVar (Ext K))) (lm : LinModel (Ext K))
      (ρ : String → K),
      linearizeWith m b d = .ok lm ∧ DomRel m d ∧ BoxEnforced b d ∧
      (∀ c ∈ m.constraints, (∀ y, (y ∈ varsOf c.lhs ∨ y ∈ varsOf c.rhs) → inScope d y) ∧ FinE c.lhs ∧ FinE c.rhs ∧
        DefOn d c.lhs ∧ DefOn d c.rhs ∧ NCon d c.rhs) ∧
      GoodE d m.objective ∧
      linFeasible lm ρ = true ∧ ∀ ρ' : String → K, ¬ srcFeasible m ρ' = true := by
  have sx : inScope (exAndOne : Model (Ext K)).domain "x" :=
    ⟨{ name := "x", ty := .real (.fin 0) (.fin 4), usage := 1 }, by simp [exAndOne], rfl, by simp⟩
  refine ⟨exAndOne, [], exAndOne.domain, exAndOneLM, fun _ => 3, exAndOne_ok,
    ⟨by simp [exAndOne], fun _ h => h, fun ρ h => ((srcFeasible_iff _ ρ).mp h).2, fun dv hdv hu => ⟨dv, hdv, rfl, hu⟩⟩,
    by intro ρ _ n bd _ hl; simp [lookupB] at hl, ?_, ?_, exAndOne_linFeasible, exAndOne_not_srcFeasible⟩
  · intro c hc
    simp only [exAndOne, List.mem_singleton] at hc
    subst hc
    refine ⟨?_, by simp [FinE, exAndOneC, finiteLits, finiteLitsL, isFin], by simp [FinE, exAndOneC, finiteLits, isFin],
      ?_, fun ρ _ => ⟨3, by simp [exAndOneC, eval]⟩, fun ρ _ => by simp [exAndOneC, NC]⟩
    · intro y hy
      simp [exAndOneC, varsOf, varsOfList] at hy
      subst hy; exact sx
    · intro ρ _
      exact ⟨_, eval_and_of (vs := [ρ "x", 1]) (by simp [exAndOneC, evalList, eval])⟩
  · exact ⟨by intro y hy; simp [exAndOne, varsOf] at hy; subst hy; exact sx, by simp [FinE, exAndOne, finiteLits],
      fun ρ _ => by simp [exAndOne, NC], fun ρ _ => ⟨ρ "x", by simp [exAndOne, eval]⟩⟩

end Rooc.LinP
