/-
Helper lemmas for C10: value preservation of `Exp.simplify` under `LogicOperands01`.
-/
import Rooc.Proofs.ExpLemmasNF
namespace Rooc
open Rooc.Exp Rooc.Sem

section
variable {K : Type} [Field K] [LinearOrder K] [IsStrictOrderedRing K] [FloorRing K]

/-! ### semantics: definedness / value view of `eval` -/

@[simp] theorem kzero_eq : (kzero : K) = 0 := by simp [kzero]
@[simp] theorem kone_eq : (kone : K) = 1 := by simp [kone]
theorem truthy_eq (x : K) : truthy x = !decide (x = 0) := by simp [truthy]
theorem ofBool_eq (b : Bool) : (ofBool b : K) = if b then 1 else 0 := by simp [ofBool]
@[simp] theorem ofBool_true : (ofBool true : K) = 1 := by simp [ofBool]
@[simp] theorem ofBool_false : (ofBool false : K) = 0 := by simp [ofBool]
@[simp] theorem truthy_ofBool (b : Bool) : truthy (ofBool b : K) = b := by cases b <;> simp [truthy_eq]

/-- defined at `ρ`. -/
noncomputable def Def (ρ : String → K) (e : Exp (Ext K)) : Prop := (eval ρ e).isSome
/-- value at `ρ` (0 when undefined). -/
noncomputable def val (ρ : String → K) (e : Exp (Ext K)) : K := (eval ρ e).getD 0
/-- truth value at `ρ`. -/
noncomputable def tv (ρ : String → K) (e : Exp (Ext K)) : Bool := truthy (val ρ e)

theorem eval_eq_some_iff {ρ : String → K} {e : Exp (Ext K)} {v : K} :
    eval ρ e = some v ↔ Def ρ e ∧ val ρ e = v := by
  unfold Def val; cases eval ρ e <;> simp

theorem Def_of_eval {ρ : String → K} {e : Exp (Ext K)} {v : K} (h : eval ρ e = some v) : Def ρ e :=
  (eval_eq_some_iff.1 h).1
theorem val_of_eval {ρ : String → K} {e : Exp (Ext K)} {v : K} (h : eval ρ e = some v) : val ρ e = v :=
  (eval_eq_some_iff.1 h).2
theorem eval_of_Def {ρ : String → K} {e : Exp (Ext K)} (h : Def ρ e) : eval ρ e = some (val ρ e) :=
  eval_eq_some_iff.2 ⟨h, rfl⟩

theorem evalList_some_iff {ρ : String → K} {es : List (Exp (Ext K))} {vs : List K} :
    evalList ρ es = some vs ↔ (∀ e ∈ es, Def ρ e) ∧ vs = es.map (val ρ) := by
  induction es generalizing vs with
  | nil => simp [evalList, eq_comm]
  | cons e es ih =>
    simp only [evalList, List.mem_cons, forall_eq_or_imp, List.map_cons]
    cases he : eval ρ e with
    | none => simp [Def, he]
    | some a =>
      cases hes : evalList ρ es with
      | none =>
        have : ¬ ∀ e ∈ es, Def ρ e := fun h => by
          have := (ih (vs := es.map (val ρ))).2 ⟨h, rfl⟩
          rw [hes] at this; cases this
        simp [this]
      | some ws =>
        obtain ⟨h1, h2⟩ := ih.1 hes
        have hd : Def ρ e := by simp [Def, he]
        have hv : val ρ e = a := by simp [val, he]
        simp only [hd, hv, h2, true_and]
        constructor
        · intro h; exact ⟨h1, by simpa using h.symm⟩
        · intro h; simp [h.2]

theorem option_bind2_some' {α β γ : Type} {oa : Option α} {ob : Option β} {f : α → β → γ} {c : γ}
    (h : (do let x ← oa; let y ← ob; pure (f x y)) = some c) :
    ∃ a b, oa = some a ∧ ob = some b ∧ c = f a b := by
  cases oa <;> cases ob <;> simp_all

theorem eval_num_iff {ρ : String → K} {x : Ext K} {a : K} :
    eval ρ (.num x) = some a ↔ x = .fin a := by
  cases x <;> simp [eval]

theorem eval_and_iff {ρ : String → K} {es : List (Exp (Ext K))} {v : K} :
    eval ρ (.and es) = some v ↔ (∀ e ∈ es, Def ρ e) ∧ v = ofBool (es.all (tv ρ)) := by
  simp only [eval, Option.map_eq_some_iff, evalList_some_iff]
  constructor
  · rintro ⟨vs, ⟨h1, rfl⟩, rfl⟩
    exact ⟨h1, by simp [List.all_map, Function.comp_def]; rfl⟩
  · rintro ⟨h1, rfl⟩
    exact ⟨_, ⟨h1, rfl⟩, by simp [List.all_map, Function.comp_def]; rfl⟩

theorem eval_or_iff {ρ : String → K} {es : List (Exp (Ext K))} {v : K} :
    eval ρ (.or es) = some v ↔ (∀ e ∈ es, Def ρ e) ∧ v = ofBool (es.any (tv ρ)) := by
  simp only [eval, Option.map_eq_some_iff, evalList_some_iff]
  constructor
  · rintro ⟨vs, ⟨h1, rfl⟩, rfl⟩
    exact ⟨h1, by simp [List.any_map, Function.comp_def]; rfl⟩
  · rintro ⟨h1, rfl⟩
    exact ⟨_, ⟨h1, rfl⟩, by simp [List.any_map, Function.comp_def]; rfl⟩

/-- truth value of an n-ary connective over a list. -/
noncomputable def agg (ρ : String → K) (isAnd : Bool) (es : List (Exp (Ext K))) : Bool :=
  if isAnd then es.all (tv ρ) else es.any (tv ρ)

theorem eval_nary_iff {ρ : String → K} (isAnd : Bool) {es : List (Exp (Ext K))} {v : K} :
    eval ρ (mkNary isAnd es) = some v ↔ (∀ e ∈ es, Def ρ e) ∧ v = ofBool (agg ρ isAnd es) := by
  cases isAnd
  · simpa [mkNary, agg] using eval_or_iff
  · simpa [mkNary, agg] using eval_and_iff

/-! ### the hypothesis of `simplify_sound_partial` -/

/-- when defined, the value is 0 or 1. -/
def Is01 (o : Option K) : Prop := ∀ v, o = some v → v = 0 ∨ v = 1

mutual
/-- every operand of every and/or node (n-ary and binary) evaluates, when defined, to 0 or 1.
Prop version of `Oracle.logicOperands01`. -/
def LogicOperands01 (ρ : String → K) : Exp (Ext K) → Prop
  | .num _ => True
  | .var _ => True
  | .abs e => LogicOperands01 ρ e
  | .not e => LogicOperands01 ρ e
  | .un _ e => LogicOperands01 ρ e
  | .min es => LogicOperands01List ρ es
  | .max es => LogicOperands01List ρ es
  | .and es => LogicOperands01List ρ es ∧ ∀ o ∈ es, Is01 (eval ρ o)
  | .or es => LogicOperands01List ρ es ∧ ∀ o ∈ es, Is01 (eval ρ o)
  | .xor a b => LogicOperands01 ρ a ∧ LogicOperands01 ρ b
  | .implies a b => LogicOperands01 ρ a ∧ LogicOperands01 ρ b
  | .iff a b => LogicOperands01 ρ a ∧ LogicOperands01 ρ b
  | .bin op a b => LogicOperands01 ρ a ∧ LogicOperands01 ρ b ∧
      (op = .and ∨ op = .or → Is01 (eval ρ a) ∧ Is01 (eval ρ b))
def LogicOperands01List (ρ : String → K) : List (Exp (Ext K)) → Prop
  | [] => True
  | e :: es => LogicOperands01 ρ e ∧ LogicOperands01List ρ es
end

theorem LogicOperands01List_iff (ρ : String → K) (es : List (Exp (Ext K))) :
    LogicOperands01List ρ es ↔ ∀ e ∈ es, LogicOperands01 ρ e := by
  induction es with
  | nil => simp [LogicOperands01List]
  | cons e es ih => simp [LogicOperands01List, ih]

theorem LO_mkNary (ρ : String → K) (isAnd : Bool) (es : List (Exp (Ext K))) :
    LogicOperands01 ρ (mkNary isAnd es) ↔
      (∀ e ∈ es, LogicOperands01 ρ e) ∧ ∀ o ∈ es, Is01 (eval ρ o) := by
  cases isAnd <;> simp [mkNary, LogicOperands01, LogicOperands01List_iff]

theorem LO_num (ρ : String → K) (x : Ext K) : LogicOperands01 ρ (.num x) := by
  simp [LogicOperands01]

/-! ### node-level rules preserve the value -/

theorem eval_num_fin (ρ : String → K) (a : K) : eval ρ (.num (.fin a)) = some a := by simp [eval]

theorem eval_logicNumber (ρ : String → K) (b : Bool) :
    eval ρ (.num (logicNumber b : Ext K)) = some (ofBool b) := by
  cases b <;> simp [logicNumber, eval]

theorem numTruthy_fin (a : K) : numTruthy (Ext.fin a) = truthy a := by
  simp [numTruthy, truthy_eq]

theorem isNumEq_zero_iff (e : Exp (Ext K)) : isNumEq e Arith.zero = true ↔ e = .num (.fin 0) := by
  cases e <;> simp [isNumEq]
theorem isNumEq_one_iff (e : Exp (Ext K)) : isNumEq e Arith.one = true ↔ e = .num (.fin 1) := by
  cases e <;> simp [isNumEq]

theorem eval_addCore {ρ : String → K} {l r : Exp (Ext K)} {a b : K}
    (hl : eval ρ l = some a) (hr : eval ρ r = some b) : eval ρ (addCore l r) = some (a + b) := by
  unfold addCore
  split
  · rw [eval_num_iff] at hl hr; subst hl hr; simp [eval]
  · rw [eval_num_iff] at hl; subst hl
    split
    · rename_i h; simp at h; subst h; simpa using hr
    · simp [eval, hr, binVal]
  · rw [eval_num_iff] at hr; subst hr
    split
    · rename_i h; simp at h; subst h; simpa using hl
    · simp [eval, hl, binVal]
  · simp [eval, hl, hr, binVal]

theorem eval_subCore {ρ : String → K} {l r : Exp (Ext K)} {a b : K}
    (hl : eval ρ l = some a) (hr : eval ρ r = some b) : eval ρ (subCore l r) = some (a - b) := by
  unfold subCore
  split
  · rw [eval_num_iff] at hl hr; subst hl hr; simp [eval]
  · rw [eval_num_iff] at hr; subst hr
    split
    · rename_i h; simp at h; subst h; simpa using hl
    · simp [eval, hl, binVal]
  · simp [eval, hl, hr, binVal]

theorem eval_mulCore {ρ : String → K} {l r : Exp (Ext K)} {a b : K}
    (hl : eval ρ l = some a) (hr : eval ρ r = some b) : eval ρ (mulCore l r) = some (a * b) := by
  unfold mulCore
  split
  · rw [eval_num_iff] at hl hr; subst hl hr; simp [eval]
  · split
    · rename_i h
      simp only [Bool.or_eq_true, Bool.and_eq_true, isNumEq_zero_iff] at h
      rcases h with ⟨h, _⟩ | ⟨h, _⟩ <;> subst h
      · simp [eval] at hl; subst hl; simp [eval]
      · simp [eval] at hr; subst hr; simp [eval]
    · split
      · rename_i h; rw [isNumEq_one_iff] at h; subst h
        simp [eval] at hl; subst hl; simpa using hr
      · split
        · rename_i h; rw [isNumEq_one_iff] at h; subst h
          simp [eval] at hr; subst hr; simpa using hl
        · simp [eval, hl, hr, binVal]

theorem eval_divCore {ρ : String → K} {l r : Exp (Ext K)} {a b : K}
    (hl : eval ρ l = some a) (hr : eval ρ r = some b) (hb : b ≠ 0) :
    eval ρ (divCore l r) = some (a / b) := by
  unfold divCore
  split
  · rw [eval_num_iff] at hl hr; subst hl hr
    simp [hb, eval, arith_div_fin]
  · split
    · rename_i h; rw [isNumEq_one_iff] at h; subst h
      simp [eval] at hr; subst hr; simpa using hl
    · simp [eval, hl, hr, binVal, hb]

theorem eval_negCore {ρ : String → K} {e : Exp (Ext K)} {a : K}
    (h : eval ρ e = some a) : eval ρ (negCore e) = some (-a) := by
  unfold negCore; split
  · rw [eval_num_iff] at h; subst h; simp [eval]
  · simp [eval, h]

theorem eval_absCore {ρ : String → K} {e : Exp (Ext K)} {a : K}
    (h : eval ρ e = some a) : eval ρ (absCore e) = some (kabs a) := by
  unfold absCore; split
  · rw [eval_num_iff] at h; subst h
    simp only [Arith.abs, Ext.abs, kabs]
    split <;> simp_all [eval]
  · simp [eval, h]

theorem eval_notCore {ρ : String → K} {e : Exp (Ext K)} {a : K}
    (h : eval ρ e = some a) : eval ρ (notCore e) = some (ofBool (!(truthy a))) := by
  unfold notCore; split
  · rw [eval_num_iff] at h; subst h
    rw [numTruthy_fin, eval_logicNumber]
  · simp [eval, h]

theorem eval_xorCore {ρ : String → K} {l r : Exp (Ext K)} {a b : K}
    (hl : eval ρ l = some a) (hr : eval ρ r = some b) :
    eval ρ (xorCore l r) = some (ofBool (truthy a != truthy b)) := by
  unfold xorCore; split
  · rw [eval_num_iff] at hl hr; subst hl hr
    rw [numTruthy_fin, numTruthy_fin, eval_logicNumber]
  · simp [eval, hl, hr, binVal]

theorem eval_impliesCore {ρ : String → K} {l r : Exp (Ext K)} {a b : K}
    (hl : eval ρ l = some a) (hr : eval ρ r = some b) :
    eval ρ (impliesCore l r) = some (ofBool (!(truthy a) || truthy b)) := by
  unfold impliesCore; split
  · rw [eval_num_iff] at hl hr; subst hl hr
    rw [numTruthy_fin, numTruthy_fin, eval_logicNumber]
  · simp [eval, hl, hr, binVal]

theorem eval_iffCore {ρ : String → K} {l r : Exp (Ext K)} {a b : K}
    (hl : eval ρ l = some a) (hr : eval ρ r = some b) :
    eval ρ (iffCore l r) = some (ofBool (truthy a == truthy b)) := by
  unfold iffCore; split
  · rw [eval_num_iff] at hl hr; subst hl hr
    rw [numTruthy_fin, numTruthy_fin, eval_logicNumber]
  · simp [eval, hl, hr, binVal]

/-! min / max folding -/

omit [Field K] [LinearOrder K] [IsStrictOrderedRing K] [FloorRing K] in
theorem allNums_some {cs : List (Exp (Ext K))} {ns : List (Ext K)} (h : allNums cs = some ns) :
    cs = ns.map Exp.num := by
  induction cs generalizing ns with
  | nil => simp [allNums] at h; simp [← h]
  | cons c cs ih =>
    cases c <;> simp [allNums] at h
    obtain ⟨r, hr, rfl⟩ := h
    simp [ih hr]

theorem evalList_nums {ρ : String → K} {ns : List (Ext K)} {vs : List K}
    (h : evalList ρ (ns.map Exp.num) = some vs) : ns = vs.map Ext.fin := by
  induction ns generalizing vs with
  | nil => simp [evalList] at h; simp [← h]
  | cons x xs ih =>
    simp only [List.map_cons, evalList] at h
    obtain ⟨a, b, ha, hb, rfl⟩ := option_bind2_some' h
    rw [eval_num_iff] at ha
    simp [ha, ih hb]

theorem fmax_fin (a b : K) : Arith.fmax (Ext.fin a) (Ext.fin b) = Ext.fin (kmax a b) := by
  simp only [Arith.fmax, Ext.fmax, Ext.isNaN, Ext.lt, kmax]
  by_cases h : a < b <;> simp [h]
theorem fmin_fin (a b : K) : Arith.fmin (Ext.fin a) (Ext.fin b) = Ext.fin (kmin a b) := by
  simp only [Arith.fmin, Ext.fmin, Ext.isNaN, Ext.lt, kmin]
  by_cases h : b < a <;> simp [h]

theorem foldl_fmax_fin (a : K) (l : List K) :
    (l.map Ext.fin).foldl Arith.fmax (Ext.fin a) = Ext.fin (l.foldl kmax a) := by
  induction l generalizing a with
  | nil => rfl
  | cons x xs ih => simp only [List.map_cons, List.foldl_cons, fmax_fin, ih]
theorem foldl_fmin_fin (a : K) (l : List K) :
    (l.map Ext.fin).foldl Arith.fmin (Ext.fin a) = Ext.fin (l.foldl kmin a) := by
  induction l generalizing a with
  | nil => rfl
  | cons x xs ih => simp only [List.map_cons, List.foldl_cons, fmin_fin, ih]

theorem eval_maxCore {ρ : String → K} {cs : List (Exp (Ext K))} {x : K} {xs : List K}
    (h : evalList ρ cs = some (x :: xs)) : eval ρ (maxCore cs) = some (xs.foldl kmax x) := by
  unfold maxCore; split
  · rename_i ns hn
    have := allNums_some hn; subst this
    have := evalList_nums h; subst this
    simp only [List.map_cons, List.foldl_cons]
    have : Arith.fmax (Arith.negInf : Ext K) (Ext.fin x) = Ext.fin x := by
      simp [Arith.fmax, Arith.negInf, Ext.fmax, Ext.isNaN, Ext.lt]
    rw [this, foldl_fmax_fin, eval_num_fin]
  · simp [eval, h]

theorem eval_minCore {ρ : String → K} {cs : List (Exp (Ext K))} {x : K} {xs : List K}
    (h : evalList ρ cs = some (x :: xs)) : eval ρ (minCore cs) = some (xs.foldl kmin x) := by
  unfold minCore; split
  · rename_i ns hn
    have := allNums_some hn; subst this
    have := evalList_nums h; subst this
    simp only [List.map_cons, List.foldl_cons]
    have : Arith.fmin (Arith.posInf : Ext K) (Ext.fin x) = Ext.fin x := by
      simp [Arith.fmin, Arith.posInf, Ext.fmin, Ext.isNaN, Ext.lt]
    rw [this, foldl_fmin_fin, eval_num_fin]
  · simp [eval, h]

/-! ### n-ary and / or -/

theorem agg_nil (ρ : String → K) (isAnd : Bool) : agg ρ isAnd [] = isAnd := by
  cases isAnd <;> simp [agg]
theorem agg_cons (ρ : String → K) (isAnd : Bool) (x : Exp (Ext K)) (l : List (Exp (Ext K))) :
    agg ρ isAnd (x :: l) = if isAnd then (tv ρ x && agg ρ isAnd l) else (tv ρ x || agg ρ isAnd l) := by
  cases isAnd <;> simp [agg]
theorem agg_append (ρ : String → K) (isAnd : Bool) (l₁ l₂ : List (Exp (Ext K))) :
    agg ρ isAnd (l₁ ++ l₂) =
      if isAnd then (agg ρ isAnd l₁ && agg ρ isAnd l₂) else (agg ρ isAnd l₁ || agg ρ isAnd l₂) := by
  cases isAnd <;> simp [agg]

theorem tv_mkNary {ρ : String → K} {isAnd : Bool} {inner : List (Exp (Ext K))}
    (h : Def ρ (mkNary isAnd inner)) : tv ρ (mkNary isAnd inner) = agg ρ isAnd inner := by
  have := (eval_nary_iff isAnd).1 (eval_of_Def h)
  rw [tv, this.2, truthy_ofBool]

theorem tv_num {ρ : String → K} {v : Ext K} (h : Def ρ (.num v)) : tv ρ (.num v) = numTruthy v := by
  have := eval_num_iff.1 (eval_of_Def h)
  generalize val ρ (.num v) = k at this
  subst this
  simp [tv, val, eval, numTruthy_fin]

theorem absorbing_iff (isAnd : Bool) (v : Ext K) :
    absorbing isAnd v = true ↔ numTruthy v = !isAnd := by
  cases isAnd <;> simp [absorbing]

theorem agg_flatten {ρ : String → K} (isAnd : Bool) {cs : List (Exp (Ext K))}
    (hdef : ∀ c ∈ cs, Def ρ c) : agg ρ isAnd (naryFlatten isAnd cs) = agg ρ isAnd cs := by
  induction cs with
  | nil => simp [naryFlatten]
  | cons c cs ih =>
    have ih := ih (fun x hx => hdef x (by simp [hx]))
    rcases isSameKind_cases isAnd c with h | ⟨inner, rfl⟩
    · rw [naryFlatten_cons_other _ _ _ h, agg_cons, agg_cons, ih]
    · rw [naryFlatten_cons_same, agg_append, agg_cons, ih, tv_mkNary (hdef _ (by simp))]

theorem agg_filter {ρ : String → K} (isAnd : Bool) {F : List (Exp (Ext K))} {q : Exp (Ext K) → Bool}
    (h : ∀ x ∈ F, q x = false → tv ρ x = isAnd) :
    agg ρ isAnd (F.filter q) = agg ρ isAnd F := by
  induction F with
  | nil => rfl
  | cons x xs ih =>
    have ih := ih (fun y hy => h y (by simp [hy]))
    by_cases hx : q x = true
    · rw [List.filter_cons_of_pos hx, agg_cons, agg_cons, ih]
    · have := h x (by simp) (by simpa using hx)
      rw [List.filter_cons_of_neg hx, agg_cons, ih, this]
      cases isAnd <;> simp

theorem agg_absorbing {ρ : String → K} (isAnd : Bool) {F : List (Exp (Ext K))} {x : Exp (Ext K)}
    (hx : x ∈ F) (ht : tv ρ x = !isAnd) : agg ρ isAnd F = !isAnd := by
  cases isAnd
  · simp only [agg, Bool.false_eq_true, if_false, Bool.not_false, List.any_eq_true]
    exact ⟨x, hx, by simpa using ht⟩
  · simp only [agg, if_true, Bool.not_true, List.all_eq_false]
    exact ⟨x, hx, by simpa using ht⟩

theorem ofBool_truthy_of01 {w : K} (h : w = 0 ∨ w = 1) : ofBool (truthy w) = w := by
  rcases h with rfl | rfl <;> simp [truthy_eq]

/-- a successful second loop (rooc 9f62afd: scan or keep) leaves the truth value unchanged and
only drops elements. -/
theorem naryStep_agg {ρ : String → K} {isAnd : Bool} {F res : List (Exp (Ext K))}
    (hdef : ∀ x ∈ F, Def ρ x) (hs : naryStep isAnd F = some res) :
    agg ρ isAnd res = agg ρ isAnd F ∧ ∀ x ∈ res, x ∈ F := by
  obtain ⟨q, hq, hdrop, _⟩ := naryStep_some hs
  constructor
  · rw [hq, agg_filter]
    intro x hx hqx
    obtain ⟨v, rfl, ha⟩ := hdrop x hx hqx
    rw [tv_num (hdef _ hx)]
    have : ¬ absorbing isAnd v = true := by simp [ha]
    rw [absorbing_iff] at this
    cases isAnd <;> cases h : numTruthy v <;> simp_all
  · intro x hx; rw [hq, List.mem_filter] at hx; exact hx.1

/-- a short-circuit happens only on an absorbing constant. -/
theorem naryStep_none_agg {ρ : String → K} {isAnd : Bool} {F : List (Exp (Ext K))}
    (hdef : ∀ x ∈ F, Def ρ x) (hs : naryStep isAnd F = none) : agg ρ isAnd F = !isAnd := by
  obtain ⟨_, v, hv, ha⟩ := naryStep_none hs
  rw [absorbing_iff] at ha
  exact agg_absorbing isAnd hv (by rw [tv_num (hdef _ hv), ha])

/-- the n-ary step, parametric in the invariant `G` carried through the induction
(`LogicOperands01 ρ`, or the finer `ExactOK ρ` of `ExpLemmasTruth`). -/
theorem naryCore_sound_gen {ρ : String → K} (G : Exp (Ext K) → Prop)
    (G_mk : ∀ (isAnd : Bool) (es : List (Exp (Ext K))),
      G (mkNary isAnd es) ↔ (∀ e ∈ es, G e) ∧ ∀ o ∈ es, Is01 (eval ρ o))
    (G_num : ∀ x, G (.num x))
    (isAnd : Bool) {cs : List (Exp (Ext K))}
    (hdef : ∀ c ∈ cs, Def ρ c) (h01 : ∀ c ∈ cs, Is01 (eval ρ c))
    (hLO : ∀ c ∈ cs, G c) :
    eval ρ (naryCore isAnd cs) = some (ofBool (agg ρ isAnd cs)) ∧
      G (naryCore isAnd cs) := by
  have hF : ∀ x ∈ naryFlatten isAnd cs, Def ρ x ∧ Is01 (eval ρ x) ∧ G x := by
    intro x hx
    rcases mem_naryFlatten.1 hx with ⟨h1, _⟩ | ⟨inner, h1, h2⟩
    · exact ⟨hdef x h1, h01 x h1, hLO x h1⟩
    · have hd := ((eval_nary_iff isAnd).1 (eval_of_Def (hdef _ h1))).1
      have hl := (G_mk isAnd inner).1 (hLO _ h1)
      exact ⟨hd x h2, hl.2 x h2, hl.1 x h2⟩
  have hagg := agg_flatten isAnd hdef
  -- successful second loop: same truth value, elements keep their properties
  have hres : ∀ res, naryStep isAnd (naryFlatten isAnd cs) = some res →
      agg ρ isAnd res = agg ρ isAnd cs ∧
      ∀ x ∈ res, Def ρ x ∧ Is01 (eval ρ x) ∧ G x := by
    intro res hs
    obtain ⟨h1, h2⟩ := naryStep_agg (fun x hx => (hF x hx).1) hs
    exact ⟨by rw [h1, hagg], fun x hx => hF x (h2 x hx)⟩
  rcases naryCore_cases isAnd cs with ⟨h1, h2⟩ | ⟨h1, h2⟩ | ⟨e, h1, h2⟩ | ⟨res, h1, hl, h2⟩
  · rw [h2, ← hagg, naryStep_none_agg (fun x hx => (hF x hx).1) h1]
    refine ⟨?_, G_num _⟩
    cases isAnd <;> simp [eval]
  · rw [h2, ← (hres _ h1).1, agg_nil]
    exact ⟨eval_logicNumber ρ isAnd, G_num _⟩
  · obtain ⟨hag, hel⟩ := hres _ h1
    obtain ⟨hd, h1', hlo⟩ := hel e (by simp)
    rw [h2]
    refine ⟨?_, hlo⟩
    have he := eval_of_Def hd
    rw [← hag, he]
    have : agg ρ isAnd [e] = tv ρ e := by cases isAnd <;> simp [agg]
    rw [this, tv, ofBool_truthy_of01 (h1' _ he)]
  · obtain ⟨hag, hel⟩ := hres _ h1
    rw [h2, ← hag]
    exact ⟨(eval_nary_iff isAnd).2 ⟨fun x hx => (hel x hx).1, rfl⟩,
      (G_mk isAnd res).2 ⟨fun x hx => (hel x hx).2.2, fun x hx => (hel x hx).2.1⟩⟩

theorem naryCore_sound {ρ : String → K} (isAnd : Bool) {cs : List (Exp (Ext K))}
    (hdef : ∀ c ∈ cs, Def ρ c) (h01 : ∀ c ∈ cs, Is01 (eval ρ c))
    (hLO : ∀ c ∈ cs, LogicOperands01 ρ c) :
    eval ρ (naryCore isAnd cs) = some (ofBool (agg ρ isAnd cs)) ∧
      LogicOperands01 ρ (naryCore isAnd cs) :=
  naryCore_sound_gen (LogicOperands01 ρ) (LO_mkNary ρ) (LO_num ρ) isAnd hdef h01 hLO

/-! ### `LogicOperands01` is preserved by the node-level rules -/

theorem LO_negCore {ρ : String → K} {e : Exp (Ext K)} (h : LogicOperands01 ρ e) :
    LogicOperands01 ρ (negCore e) := by
  unfold negCore; split <;> simp_all [LogicOperands01]
theorem LO_absCore {ρ : String → K} {e : Exp (Ext K)} (h : LogicOperands01 ρ e) :
    LogicOperands01 ρ (absCore e) := by
  unfold absCore; split <;> simp_all [LogicOperands01]
theorem LO_notCore {ρ : String → K} {e : Exp (Ext K)} (h : LogicOperands01 ρ e) :
    LogicOperands01 ρ (notCore e) := by
  unfold notCore; split <;> simp_all [LogicOperands01]
theorem LO_xorCore {ρ : String → K} {a b : Exp (Ext K)} (ha : LogicOperands01 ρ a)
    (hb : LogicOperands01 ρ b) : LogicOperands01 ρ (xorCore a b) := by
  unfold xorCore; split <;> simp_all [LogicOperands01]
theorem LO_impliesCore {ρ : String → K} {a b : Exp (Ext K)} (ha : LogicOperands01 ρ a)
    (hb : LogicOperands01 ρ b) : LogicOperands01 ρ (impliesCore a b) := by
  unfold impliesCore; split <;> simp_all [LogicOperands01]
theorem LO_iffCore {ρ : String → K} {a b : Exp (Ext K)} (ha : LogicOperands01 ρ a)
    (hb : LogicOperands01 ρ b) : LogicOperands01 ρ (iffCore a b) := by
  unfold iffCore; split <;> simp_all [LogicOperands01]
theorem LO_maxCore {ρ : String → K} {cs : List (Exp (Ext K))} (h : ∀ c ∈ cs, LogicOperands01 ρ c) :
    LogicOperands01 ρ (maxCore cs) := by
  unfold maxCore; split <;> simp_all [LogicOperands01, LogicOperands01List_iff]
theorem LO_minCore {ρ : String → K} {cs : List (Exp (Ext K))} (h : ∀ c ∈ cs, LogicOperands01 ρ c) :
    LogicOperands01 ρ (minCore cs) := by
  unfold minCore; split <;> simp_all [LogicOperands01, LogicOperands01List_iff]

theorem LO_of_cases {ρ : String → K} {op : BinOp} {l r x : Exp (Ext K)}
    (hop : op ≠ .and ∧ op ≠ .or) (hl : LogicOperands01 ρ l) (hr : LogicOperands01 ρ r)
    (h : x = l ∨ x = r ∨ (∃ v, x = .num v) ∨ x = .bin op l r) : LogicOperands01 ρ x := by
  rcases h with h | h | ⟨v, h⟩ | h <;> subst h
  · exact hl
  · exact hr
  · exact LO_num _ _
  · simp only [LogicOperands01]; exact ⟨hl, hr, fun h => by rcases h with h | h <;> simp_all⟩

/-! ### the main induction -/

theorem evalList_map_simplify {ρ : String → K} {es : List (Exp (Ext K))} {vs : List K}
    (ih : ∀ e ∈ es, ∀ v, eval ρ e = some v → eval ρ (simplify e) = some v)
    (h : evalList ρ es = some vs) : evalList ρ (es.map simplify) = some vs := by
  rw [evalList_some_iff] at h ⊢
  obtain ⟨h1, rfl⟩ := h
  have key : ∀ e ∈ es, Def ρ (simplify e) ∧ val ρ (simplify e) = val ρ e := fun e he =>
    eval_eq_some_iff.1 (ih e he _ (eval_of_Def (h1 e he)))
  refine ⟨?_, ?_⟩
  · intro x hx
    obtain ⟨e, he, rfl⟩ := List.mem_map.1 hx
    exact (key e he).1
  · rw [List.map_map]
    exact List.map_congr_left (fun e he => ((key e he).2).symm)

theorem agg_map_congr {ρ : String → K} (isAnd : Bool) {f : Exp (Ext K) → Exp (Ext K)}
    {es : List (Exp (Ext K))} (h : ∀ e ∈ es, tv ρ (f e) = tv ρ e) :
    agg ρ isAnd (es.map f) = agg ρ isAnd es := by
  induction es with
  | nil => rfl
  | cons e es ih =>
    rw [List.map_cons, agg_cons, agg_cons, h e (by simp), ih (fun x hx => h x (by simp [hx]))]

/-- what the n-ary step needs from the induction hypothesis on the operands. -/
theorem nary_simplify_sound {ρ : String → K} (isAnd : Bool) {es : List (Exp (Ext K))}
    (ih : ∀ e ∈ es, LogicOperands01 ρ e → ∀ v, eval ρ e = some v →
      eval ρ (simplify e) = some v ∧ LogicOperands01 ρ (simplify e))
    (hLO : ∀ e ∈ es, LogicOperands01 ρ e) (h01 : ∀ e ∈ es, Is01 (eval ρ e))
    (hdef : ∀ e ∈ es, Def ρ e) :
    eval ρ (naryCore isAnd (es.map simplify)) = some (ofBool (agg ρ isAnd es)) ∧
      LogicOperands01 ρ (naryCore isAnd (es.map simplify)) := by
  have key : ∀ e ∈ es, eval ρ (simplify e) = eval ρ e ∧ LogicOperands01 ρ (simplify e) := by
    intro e he
    have := ih e he (hLO e he) _ (eval_of_Def (hdef e he))
    exact ⟨by rw [this.1, eval_of_Def (hdef e he)], this.2⟩
  have h := naryCore_sound (ρ := ρ) isAnd (cs := es.map simplify)
    (by
      intro x hx; obtain ⟨e, he, rfl⟩ := List.mem_map.1 hx
      unfold Def; rw [(key e he).1]; exact hdef e he)
    (by
      intro x hx; obtain ⟨e, he, rfl⟩ := List.mem_map.1 hx
      rw [(key e he).1]; exact h01 e he)
    (by
      intro x hx; obtain ⟨e, he, rfl⟩ := List.mem_map.1 hx
      exact (key e he).2)
  have hagg : agg ρ isAnd (es.map simplify) = agg ρ isAnd es := by
    have htv : ∀ e ∈ es, tv ρ (simplify e) = tv ρ e := fun e he => by
      unfold tv val; rw [(key e he).1]
    exact agg_map_congr isAnd htv
  rw [hagg] at h
  exact h

theorem eval_bin_some {ρ : String → K} {op : BinOp} {a b : Exp (Ext K)} {v : K}
    (h : eval ρ (.bin op a b) = some v) :
    ∃ x y, eval ρ a = some x ∧ eval ρ b = some y ∧ binVal op x y = some v := by
  simp only [eval] at h
  cases ha : eval ρ a <;> cases hb : eval ρ b <;> simp_all

theorem binCore_sound {ρ : String → K} (op : BinOp) {l r : Exp (Ext K)} {x y v : K}
    (hl : eval ρ l = some x) (hr : eval ρ r = some y) (hv : binVal op x y = some v)
    (hLl : LogicOperands01 ρ l) (hLr : LogicOperands01 ρ r)
    (h01 : op = .and ∨ op = .or → (x = 0 ∨ x = 1) ∧ (y = 0 ∨ y = 1)) :
    eval ρ (binCore op l r) = some v ∧ LogicOperands01 ρ (binCore op l r) := by
  have nary : ∀ isAnd : Bool, (x = 0 ∨ x = 1) ∧ (y = 0 ∨ y = 1) →
      eval ρ (naryCore isAnd [l, r]) = some (ofBool (agg ρ isAnd [l, r])) ∧
      LogicOperands01 ρ (naryCore isAnd [l, r]) := by
    intro isAnd h
    apply naryCore_sound isAnd
    · intro c hc; simp at hc; rcases hc with rfl | rfl
      · exact Def_of_eval hl
      · exact Def_of_eval hr
    · intro c hc w hw; simp at hc; rcases hc with rfl | rfl
      · rw [hl] at hw; cases hw; exact h.1
      · rw [hr] at hw; cases hw; exact h.2
    · intro c hc; simp at hc; rcases hc with rfl | rfl <;> assumption
  cases op with
  | add =>
    simp only [binVal, Option.some.injEq] at hv; subst hv
    exact ⟨eval_addCore hl hr, LO_of_cases (by simp) hLl hLr (addCore_cases l r)⟩
  | sub =>
    simp only [binVal, Option.some.injEq] at hv; subst hv
    exact ⟨eval_subCore hl hr, LO_of_cases (by simp) hLl hLr (subCore_cases l r)⟩
  | mul =>
    simp only [binVal, Option.some.injEq] at hv; subst hv
    exact ⟨eval_mulCore hl hr, LO_of_cases (by simp) hLl hLr (mulCore_cases l r)⟩
  | div =>
    simp only [binVal] at hv
    split at hv
    · cases hv
    · rename_i hy
      simp only [Option.some.injEq] at hv; subst hv
      exact ⟨eval_divCore hl hr (by simpa using hy), LO_of_cases (by simp) hLl hLr (divCore_cases l r)⟩
  | and =>
    simp only [binVal, Option.some.injEq] at hv; subst hv
    have := nary true (h01 (Or.inl rfl))
    refine ⟨?_, this.2⟩
    rw [binCore, this.1]
    simp [agg, tv, val_of_eval hl, val_of_eval hr]
  | or =>
    simp only [binVal, Option.some.injEq] at hv; subst hv
    have := nary false (h01 (Or.inr rfl))
    refine ⟨?_, this.2⟩
    rw [binCore, this.1]
    simp [agg, tv, val_of_eval hl, val_of_eval hr]
  | xor =>
    simp only [binVal, Option.some.injEq] at hv; subst hv
    exact ⟨eval_xorCore hl hr, LO_xorCore hLl hLr⟩
  | implies =>
    simp only [binVal, Option.some.injEq] at hv; subst hv
    exact ⟨eval_impliesCore hl hr, LO_impliesCore hLl hLr⟩
  | iff =>
    simp only [binVal, Option.some.injEq] at hv; subst hv
    exact ⟨eval_iffCore hl hr, LO_iffCore hLl hLr⟩

/-- value preservation together with preservation of the hypothesis (needed for the induction
through flattened n-ary nodes). -/
theorem simplify_sound_aux (ρ : String → K) (e : Exp (Ext K)) :
    LogicOperands01 ρ e → ∀ v, eval ρ e = some v →
      eval ρ (simplify e) = some v ∧ LogicOperands01 ρ (simplify e) := by
  induction e using Exp.ind with
  | num x => intro h v hv; rw [simplify_num]; exact ⟨hv, h⟩
  | var s => intro h v hv; rw [simplify_var]; exact ⟨hv, h⟩
  | abs e ih =>
    intro h v hv
    simp only [LogicOperands01] at h
    simp only [eval, Option.map_eq_some_iff] at hv
    obtain ⟨a, ha, rfl⟩ := hv
    obtain ⟨h1, h2⟩ := ih h a ha
    rw [simplify_abs]; exact ⟨eval_absCore h1, LO_absCore h2⟩
  | min es ih =>
    intro h v hv
    simp only [LogicOperands01, LogicOperands01List_iff] at h
    simp only [eval] at hv
    split at hv
    · rename_i x xs hx
      simp only [Option.some.injEq] at hv; subst hv
      have hne : es ≠ [] := by rintro rfl; simp [evalList] at hx
      rw [simplify_min, if_neg hne]
      exact ⟨eval_minCore (evalList_map_simplify (fun e he v hv => (ih e he (h e he) v hv).1) hx),
        LO_minCore (by
          intro c hc; obtain ⟨e, he, rfl⟩ := List.mem_map.1 hc
          have hd := ((evalList_some_iff.1 hx).1 e he)
          exact (ih e he (h e he) _ (eval_of_Def hd)).2)⟩
    · cases hv
  | max es ih =>
    intro h v hv
    simp only [LogicOperands01, LogicOperands01List_iff] at h
    simp only [eval] at hv
    split at hv
    · rename_i x xs hx
      simp only [Option.some.injEq] at hv; subst hv
      have hne : es ≠ [] := by rintro rfl; simp [evalList] at hx
      rw [simplify_max, if_neg hne]
      exact ⟨eval_maxCore (evalList_map_simplify (fun e he v hv => (ih e he (h e he) v hv).1) hx),
        LO_maxCore (by
          intro c hc; obtain ⟨e, he, rfl⟩ := List.mem_map.1 hc
          have hd := ((evalList_some_iff.1 hx).1 e he)
          exact (ih e he (h e he) _ (eval_of_Def hd)).2)⟩
    · cases hv
  | and es ih =>
    intro h v hv
    simp only [LogicOperands01, LogicOperands01List_iff] at h
    obtain ⟨hd, rfl⟩ := eval_and_iff.1 hv
    rw [simplify_and]
    simpa [agg] using nary_simplify_sound true ih h.1 h.2 hd
  | or es ih =>
    intro h v hv
    simp only [LogicOperands01, LogicOperands01List_iff] at h
    obtain ⟨hd, rfl⟩ := eval_or_iff.1 hv
    rw [simplify_or]
    simpa [agg] using nary_simplify_sound false ih h.1 h.2 hd
  | not e ih =>
    intro h v hv
    simp only [LogicOperands01] at h
    simp only [eval, Option.map_eq_some_iff] at hv
    obtain ⟨a, ha, rfl⟩ := hv
    obtain ⟨h1, h2⟩ := ih h a ha
    rw [simplify_not]; exact ⟨eval_notCore h1, LO_notCore h2⟩
  | xor a b iha ihb =>
    intro h v hv
    simp only [LogicOperands01] at h
    simp only [eval] at hv
    cases ha : eval ρ a <;> cases hb : eval ρ b <;> simp_all [binVal]
    subst hv
    rw [simplify_xor]
    exact ⟨eval_xorCore iha.1 ihb.1, LO_xorCore iha.2 ihb.2⟩
  | implies a b iha ihb =>
    intro h v hv
    simp only [LogicOperands01] at h
    simp only [eval] at hv
    cases ha : eval ρ a <;> cases hb : eval ρ b <;> simp_all [binVal]
    subst hv
    rw [simplify_implies]
    exact ⟨eval_impliesCore iha.1 ihb.1, LO_impliesCore iha.2 ihb.2⟩
  | iff a b iha ihb =>
    intro h v hv
    simp only [LogicOperands01] at h
    simp only [eval] at hv
    cases ha : eval ρ a <;> cases hb : eval ρ b <;> simp_all [binVal]
    subst hv
    rw [simplify_iff]
    exact ⟨eval_iffCore iha.1 ihb.1, LO_iffCore iha.2 ihb.2⟩
  | bin op a b iha ihb =>
    intro h v hv
    simp only [LogicOperands01] at h
    obtain ⟨x, y, hx, hy, hxy⟩ := eval_bin_some hv
    obtain ⟨h1, h2⟩ := iha h.1 x hx
    obtain ⟨h3, h4⟩ := ihb h.2.1 y hy
    rw [simplify_bin]
    exact binCore_sound op h1 h3 hxy h2 h4 (fun hop => ⟨(h.2.2 hop).1 x hx, (h.2.2 hop).2 y hy⟩)
  | un op e ih =>
    intro h v hv
    simp only [LogicOperands01] at h
    cases op with
    | neg =>
      simp only [eval, Option.map_eq_some_iff] at hv
      obtain ⟨a, ha, rfl⟩ := hv
      obtain ⟨h1, h2⟩ := ih h a ha
      rw [simplify_neg]; exact ⟨eval_negCore h1, LO_negCore h2⟩
    | not =>
      simp only [eval, Option.map_eq_some_iff] at hv
      obtain ⟨a, ha, rfl⟩ := hv
      obtain ⟨h1, h2⟩ := ih h a ha
      rw [simplify_unot]; exact ⟨eval_notCore h1, LO_notCore h2⟩

end
end Rooc
