/-
C08 helpers — evaluating the linearizer on CONCRETE models inside proofs (for the non-vacuity examples and
the counterexamples).  `linExp`, `simplify`, `flatten` are defined by well-founded recursion, so `decide`
cannot run them; these lemmas split a run of `linearizeWith` into steps that `simp` can compute.
-/
import Rooc.Proofs.WFFinal
import Rooc.Proofs.WFBounds

set_option linter.unusedSectionVars false

namespace Rooc
namespace Lin
open Arith
variable {α : Type} [Arith α] {β γ : Type}

def objReq (m : Model α) : Req := match m.optType with | .min => .lower | .max => .higher | .satisfy => .exact

theorem simplifyFlat_eval {e f : Exp α} (h : normalizeExp e = some f) (s : St α) :
    simplifyFlat e s = .ok (f, s) := by
  unfold simplifyFlat; rw [h]; rfl

/-- a successful run, step by step. -/
theorem linearizeWith_of_steps {m : Model α} {b : BoundsMap α} {d : List (DomVar α)} {oe : Exp α}
    {obj : Ctx α} {s1 s2 : St α}
    (h1 : normalizeExp m.objective = some oe)
    (h2 : linExp oe (objReq m) (initSt m b d) = .ok (obj, s1))
    (h3 : drain drainFuel s1 = .ok ((), s2)) :
    linearizeWith m b d = .ok (assemble m obj s2) := by
  unfold linearizeWith
  dsimp only
  have hsf : ∀ s, simplifyFlat m.objective s = .ok (oe, s) := simplifyFlat_eval h1
  unfold objReq at h2
  show (match (_ : M α (LinModel α)) (initSt m b d) with | .ok (lm, _) => Except.ok lm | .error e => .error e) = _
  rw [bind_run, hsf]
  dsimp only
  rw [bind_run]
  cases hopt : m.optType <;> simp only [hopt] at h2 ⊢ <;> rw [h2] <;> dsimp only <;> rw [bind_run, h3] <;> simp only [assemble, hopt] <;> rfl

/-- a run that fails in the work-list loop. -/
theorem linearizeWith_of_drain_error {m : Model α} {b : BoundsMap α} {d : List (DomVar α)} {oe : Exp α}
    {obj : Ctx α} {s1 : St α} {err : LinErr}
    (h1 : normalizeExp m.objective = some oe)
    (h2 : linExp oe (objReq m) (initSt m b d) = .ok (obj, s1))
    (h3 : drain drainFuel s1 = .error err) :
    linearizeWith m b d = .error err := by
  unfold linearizeWith
  dsimp only
  have hsf : ∀ s, simplifyFlat m.objective s = .ok (oe, s) := simplifyFlat_eval h1
  unfold objReq at h2
  show (match (_ : M α (LinModel α)) (initSt m b d) with | .ok (lm, _) => Except.ok lm | .error e => .error e) = _
  rw [bind_run, hsf]
  dsimp only
  rw [bind_run]
  cases hopt : m.optType <;> simp only [hopt] at h2 ⊢ <;> rw [h2] <;> dsimp only <;> rw [bind_run, h3]

theorem drain_nil (n : Nat) (s : St α) (h : s.queue = []) : drain (n+1) s = .ok ((), s) := by
  rw [drain.eq_2, run_get_bind]
  dsimp only
  rw [h]
  rfl

/-- one iteration of the loop on an ordinary (non-logic) constraint. -/
theorem drain_cons_plain (n : Nat) (s : St α) (c : Constraint α) (rest : List (Constraint α)) (lhs rhs : Exp α)
    (hq : s.queue = c :: rest) (hl : normalizeExp c.lhs = some lhs) (hr : normalizeExp c.rhs = some rhs)
    (ha : c.isAssert = false) (hn : tryNormalize s.domain lhs c.cmp rhs = none) :
    drain (n+1) s = (emitConstraint lhs c.cmp rhs c.name >>= fun _ => drain n) { s with queue := rest } := by
  rw [drain.eq_2, run_get_bind]
  dsimp only
  rw [hq]
  dsimp only
  rw [bind_run, run_set]
  dsimp only
  rw [bind_run, simplifyFlat_eval hl]
  dsimp only
  rw [bind_run, simplifyFlat_eval hr]
  dsimp only
  simp only [ha, Bool.false_eq_true, if_false]
  rw [run_get_bind]
  dsimp only
  rw [hn]

theorem emitConstraint_eval {lhs rhs e : Exp α} {cmp : Cmp} {name : String} {s s1 : St α} {v : Ctx α}
    (h1 : normalizeExp (.bin .sub lhs rhs) = some e) (h2 : linExp e (cmpForReq cmp) s = .ok (v, s1)) :
    emitConstraint lhs cmp rhs name s =
      .ok ((), { s1 with rows := s1.rows ++ [{ name := name, lhs := v.vars, rhs := Arith.neg v.rhs, cmp := cmp }] }) := by
  unfold emitConstraint
  rw [h1]
  dsimp only
  rw [bind_run, h2]
  rfl

theorem emitConstraint_error {lhs rhs e : Exp α} {cmp : Cmp} {name : String} {s : St α} {err : LinErr}
    (h1 : normalizeExp (.bin .sub lhs rhs) = some e) (h2 : linExp e (cmpForReq cmp) s = .error err) :
    emitConstraint lhs cmp rhs name s = .error err := by
  unfold emitConstraint
  rw [h1]
  dsimp only
  rw [bind_run, h2]

end Lin
end Rooc
