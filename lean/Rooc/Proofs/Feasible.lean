/-
Feasibility of the basic solution is preserved by the ratio test — with EXACT comparisons (`tol = 0`).
For `tol > 0` this is false (see `Props/C14.lean`, `pivot_feasible_tol_counterexample`).
-/
import Rooc.Proofs.Optimal
namespace Rooc
namespace FeasibleLemmas
variable {K : Type} [Field K] [LinearOrder K] [IsStrictOrderedRing K]
attribute [local instance] exactArith
open Tableau TabSem PivotLemmas StepLemmas

theorem feq_zero (a b : K) : Tol.feq (0 : K) a b = false := by
  simp [Tol.feq, not_lt.2 (abs_nonneg (a - b))]

theorem mem_ratios_of {tol : K} {T : Tab K} {h i : Nat} (hi : i < T.a.length)
    (hg : Tol.fgt tol (nth (row T.a i) h) 0 = true) :
    (i, nth T.b i / nth (row T.a i) h) ∈ ratios tol T h := by
  simp only [ratios, List.mem_filterMap]
  refine ⟨(row T.a i, i), ?_, ?_⟩
  · rw [List.mem_zipIdx_iff_getElem?]
    simp [row, List.getD_eq_getElem?_getD, hi]
  · simp only [ExactK.zero_eq] at hg ⊢
    simp [hg]

theorem abs_not_lt_zero (a : K) : ¬ |a| < 0 := not_lt.2 (abs_nonneg a)

/-- the scan step of `find_t` (`Tableau.selRatio`, either shape of the source) under the old name. -/
noncomputable abbrev sel (tol : K) (basis prefer : List Nat) (mn ir : Nat × K) : Nat × K := selRatio tol basis prefer mn ir

/-- with exact comparisons (`tol = 0` in the tolerant shape; any `tol` in the exact shape) the scan step returns one of
its arguments, with the smaller ratio. -/
theorem sel_min_exact (basis prefer : List Nat) (mn ir : Nat × K) :
    (sel (0:K) basis prefer mn ir).2 ≤ mn.2 ∧ (sel (0:K) basis prefer mn ir).2 ≤ ir.2 := by
  unfold sel selRatio
  cases Gen.ratioTestExact with
  | true =>
    simp only [if_true, ExactK.lt_eq, ExactK.eq_eq, decide_eq_true_eq]
    by_cases h : ir.2 < mn.2
    · rw [if_pos h]; exact ⟨h.le, le_refl _⟩
    · rw [if_neg h]
      by_cases e : ir.2 = mn.2
      · rw [if_pos e]; split <;> simp [e]
      · rw [if_neg e]; exact ⟨le_refl _, (lt_of_le_of_ne (not_lt.1 h) (fun x => e x.symm)).le⟩
  | false =>
    simp only [Bool.false_eq_true, if_false, feq_zero]
    by_cases h : ir.2 < mn.2
    · rw [if_pos ((ExactK.flt_iff 0 _ _).2 ⟨h, abs_not_lt_zero _⟩)]; exact ⟨h.le, le_refl _⟩
    · have : ¬ Tol.flt (0:K) ir.2 mn.2 = true := fun hh => h ((ExactK.flt_iff 0 _ _).1 hh).1
      rw [if_neg this]; exact ⟨le_refl _, not_lt.1 h⟩

/-- the fold of `find_t` with exact comparisons returns a minimum. -/
theorem foldl_sel_zero_min (basis prefer : List Nat) :
    ∀ (l : List (Nat × K)) (x : Nat × K),
      (l.foldl (sel (0:K) basis prefer) x).2 ≤ x.2 ∧ ∀ y ∈ l, (l.foldl (sel (0:K) basis prefer) x).2 ≤ y.2
  | [], x => by simp
  | y :: ys, x => by
    simp only [List.foldl_cons]
    have ih := foldl_sel_zero_min basis prefer ys (sel (0:K) basis prefer x y)
    obtain ⟨h1, h2⟩ := sel_min_exact basis prefer x y
    refine ⟨le_trans ih.1 h1, ?_⟩
    intro z hz
    rcases List.mem_cons.1 hz with rfl | hz
    · exact le_trans ih.1 h2
    · exact ih.2 z hz

theorem findT_eq_sel (tol : K) (T : Tab K) (h : Nat) (prefer : List Nat) :
    findT tol T h prefer = match ratios tol T h with
      | [] => none
      | first :: rest => some (rest.foldl (sel tol T.basis prefer) first) := by
  unfold findT sel; rfl

/-- with exact comparisons `find_t` returns a minimum-ratio row. -/
theorem findT_min_exact {T : Tab K} {h : Nat} {prefer : List Nat} {t : Nat} {ratio : K}
    (hf : findT (0:K) T h prefer = some (t, ratio)) : ∀ p ∈ ratios (0:K) T h, ratio ≤ p.2 := by
  rw [findT_eq_sel] at hf
  split at hf
  · cases hf
  · rename_i first rest hr
    simp only [Option.some.injEq] at hf
    have hm := foldl_sel_zero_min T.basis prefer rest first
    rw [hf] at hm
    intro p hp
    rw [hr] at hp
    rcases List.mem_cons.1 hp with rfl | hp
    · exact hm.1
    · exact hm.2 p hp

/-- **Feasibility is preserved** by the pivot that the exact ratio test selects. -/
theorem pivot_feasible_exact {T : Tab K} {m n : Nat} (hR : Rect T m n) (hF : Feasible T) {h : Nat}
    {prefer : List Nat} {t : Nat} {ratio : K} (hf : findT (0:K) T h prefer = some (t, ratio)) :
    Feasible (pivot T t h) := by
  obtain ⟨ht, hg, hratio⟩ := findT_spec hf
  have hpos := ExactK.fgt_zero_pos hg
  have hbt : 0 ≤ nth T.b t := by simpa using hF t ht
  intro i hi
  have hi0 : i < T.a.length := by simpa using hi
  have hbi : 0 ≤ nth T.b i := by simpa using hF i hi0
  rw [pivot_b T t h (by rw [hR.rhs, ← hR.rows]; exact hi0)]
  simp only [ExactK.zero_eq, ExactK.le_eq, decide_eq_true_eq]
  by_cases hit : i = t
  · simp only [hit, if_true]; subst hit; exact div_nonneg hbt hpos.le
  · simp only [hit, if_false]
    by_cases ha : 0 < nth (row T.a i) h
    · have hgi : Tol.fgt (0:K) (nth (row T.a i) h) 0 = true :=
        (ExactK.fgt_iff 0 _ 0).2 ⟨ha, abs_not_lt_zero _⟩
      have hmin := findT_min_exact hf _ (mem_ratios_of hi0 hgi)
      simp only at hmin
      rw [hratio] at hmin
      have : nth (row T.a i) h / nth (row T.a t) h * nth T.b t = nth (row T.a i) h * (nth T.b t / nth (row T.a t) h) := by ring
      rw [this]
      have h2 : nth (row T.a i) h * (nth T.b t / nth (row T.a t) h) ≤ nth (row T.a i) h * (nth T.b i / nth (row T.a i) h) :=
        mul_le_mul_of_nonneg_left hmin ha.le
      have h3 : nth (row T.a i) h * (nth T.b i / nth (row T.a i) h) = nth T.b i := by field_simp
      linarith
    · have ha' : nth (row T.a i) h ≤ 0 := not_lt.1 ha
      have : nth (row T.a i) h / nth (row T.a t) h * nth T.b t ≤ 0 :=
        mul_nonpos_of_nonpos_of_nonneg (div_nonpos_of_nonpos_of_nonneg ha' hpos.le) hbt
      linarith

/-- one step with exact comparisons keeps the basic solution non-negative. -/
theorem stepInner_feasible_exact {T T' : Tab K} {m n : Nat} (hR : Rect T m n) (hF : Feasible T)
    {prefer : List Nat} {bland : Bool} {act : StepAction K}
    (hs : stepInner (0:K) T prefer bland = .ok (act, T')) : Feasible T' := by
  cases act with
  | finished => obtain ⟨rfl, -⟩ := stepInner_finished hs; exact hF
  | pivot h t ratio =>
    obtain ⟨rfl, -, ht⟩ := stepInner_pivot hs
    exact pivot_feasible_exact hR hF ht

/-- **Along any number of steps with exact comparisons**: feasibility is kept and `value` never decreases
(the objective `−value` never gets worse). -/
theorem solveLoop_feasible_exact {prefer : List Nat} {stallLimit : Nat} {m n : Nat} :
    ∀ (fuel : Nat) (T : Tab K) (stalls : Nat) (last : K) (acc : List (Tab K × Nat × Nat × K)),
      Canon T m n → Feasible T →
      Feasible (solveLoop (0:K) prefer stallLimit fuel T stalls last acc).final ∧
      T.value ≤ (solveLoop (0:K) prefer stallLimit fuel T stalls last acc).final.value
  | 0, T, stalls, last, acc, _, hF => by simp [solveLoop, hF]
  | fuel+1, T, stalls, last, acc, hC, hF => by
    simp only [solveLoop]
    split
    · exact ⟨hF, le_refl _⟩
    · exact ⟨hF, le_refl _⟩
    · rename_i h t ratio T' hs
      obtain ⟨hC', -, -, hV⟩ := stepInner_preserves hC hs
      have hF' := stepInner_feasible_exact hC.rect hF hs
      split
      · obtain ⟨f1, v1⟩ := solveLoop_feasible_exact fuel T' (stalls+1) last ((T, h, t, ratio) :: acc) hC' hF'
        exact ⟨f1, le_trans (hV hF) v1⟩
      · obtain ⟨f1, v1⟩ := solveLoop_feasible_exact fuel T' 0 T'.value ((T, h, t, ratio) :: acc) hC' hF'
        exact ⟨f1, le_trans (hV hF) v1⟩

/-- the loop never performs more pivots than its limit. -/
theorem solveLoop_steps_le {tol : K} {prefer : List Nat} {stallLimit : Nat} :
    ∀ (fuel : Nat) (T : Tab K) (stalls : Nat) (last : K) (acc : List (Tab K × Nat × Nat × K)),
      (solveLoop tol prefer stallLimit fuel T stalls last acc).steps.length ≤ acc.length + fuel
  | 0, T, stalls, last, acc => by simp [solveLoop]
  | fuel+1, T, stalls, last, acc => by
    simp only [solveLoop]
    split
    · simp
    · simp
    · rename_i h t ratio T' hs
      split
      · have := solveLoop_steps_le (tol := tol) (prefer := prefer) (stallLimit := stallLimit) fuel T' (stalls+1) last ((T, h, t, ratio) :: acc)
        simp only [List.length_cons] at this; omega
      · have := solveLoop_steps_le (tol := tol) (prefer := prefer) (stallLimit := stallLimit) fuel T' 0 T'.value ((T, h, t, ratio) :: acc)
        simp only [List.length_cons] at this; omega

end FeasibleLemmas
end Rooc
