/-
Bland's rule does not cycle — the theorem.
-/
import Rooc.Proofs.Bland4
namespace Rooc
namespace Bland
variable {K : Type} [Field K] [LinearOrder K] [IsStrictOrderedRing K]
attribute [local instance] exactArith
open Tableau TabSem PivotLemmas StepLemmas BasicSol Unbounded

theorem basis_inj {T : Tab K} {m n : Nat} (hC : Canon T m n) {k k' : Nat} (hk : k < m) (hk' : k' < m)
    (e : T.basis.getD k 0 = T.basis.getD k' 0) : k = k' := by
  by_contra hne
  have h1 := hC.unit k k (by rw [hC.rect.rows]; exact hk) (by rw [hC.rect.rows]; exact hk)
  have h2 := hC.unit k k' (by rw [hC.rect.rows]; exact hk) (by rw [hC.rect.rows]; exact hk')
  rw [e] at h1
  rw [h1] at h2
  simp [hne] at h2

theorem mem_pivot_basis {T : Tab K} {t h j : Nat} (hj : j ∈ (pivot T t h).basis) : j = h ∨ j ∈ T.basis := by
  simp only [pivot] at hj
  rcases List.mem_or_eq_of_mem_set hj with h1 | h1
  · exact Or.inr h1
  · exact Or.inl h1

variable {tol : K} {m n N : Nat} {c0 : List K} {T : Nat → Tab K} {h t : Nat → Nat} {ρ : Nat → K}

open Classical in
/-- **Bland's rule does not cycle.**  Along a run of `N ≥ 1` Bland steps the basis does not return to its
starting set. -/
theorem no_cycle (ht : 0 < tol) (R : BlandRun tol m n N c0 T h t ρ) (hN : 1 ≤ N) :
    ¬ (∀ j, j ∈ (T N).basis ↔ j ∈ (T 0).basis) := by
  intro hcyc
  have hsub : ∀ j, j ∈ (T 0).basis → j ∈ (T N).basis := fun j hj => (hcyc j).2 hj
  -- fickle variables
  let fickle : Nat → Prop := fun j => ∃ p, p ≤ N ∧ ∃ q, q ≤ N ∧ j ∈ (T p).basis ∧ j ∉ (T q).basis
  have hbound : ∀ j, fickle j → j ≤ n := by
    rintro j ⟨p, hp, -, -, hjp, -⟩
    obtain ⟨hC, -, -⟩ := run_inv R p hp
    obtain ⟨k, hk, e⟩ := mem_basis_iff.1 hjp
    have := hC.inRange k (by rw [hC.rect.rows, ← hC.rect.basis]; exact hk)
    rw [e, hC.rect.costs] at this; omega
  -- the first entering variable is fickle
  have hf0 : fickle (h 0) := by
    obtain ⟨e, -, -, hnb, -, htm, -, -, -⟩ := run_step ht R 0 (by omega)
    obtain ⟨hC0, -, -⟩ := run_inv R 0 (by omega)
    refine ⟨1, hN, 0, by omega, ?_, hnb⟩
    rw [e]
    refine mem_basis_iff.2 ⟨t 0, by rw [pivot_basis_length, hC0.rect.basis]; exact htm, ?_⟩
    rw [pivot_basis_get _ _ _ _ (by rw [hC0.rect.basis]; exact htm)]; simp
  set tt := Nat.findGreatest fickle n with htt
  have htf : fickle tt := Nat.findGreatest_spec (hbound _ hf0) hf0
  have hmax : ∀ j, fickle j → j ≤ tt := fun j hj => Nat.le_findGreatest (hbound j hj) hj
  obtain ⟨p, hp, q, hq, hjp, hjq⟩ := htf
  obtain ⟨⟨e, he, hse, hse1⟩, ⟨l, hl, hsl, hsl1⟩⟩ :=
    transitions (fun p => tt ∈ (T p).basis) N (hcyc tt) hp hq hjp hjq
  -- D' = T e : tt enters;  D = T l : tt leaves, s enters
  obtain ⟨ee, heh, hec, henb, hefirst, -, -, -, -⟩ := run_step ht R e he
  obtain ⟨el, hlh, hlc, hlnb, -, hltm, hlpos, hlρ, hlmin⟩ := run_step ht R l hl
  obtain ⟨hCe, hOe, hSe⟩ := run_inv R e (by omega)
  obtain ⟨hCl, hOl, hSl⟩ := run_inv R l (by omega)
  have htt_e : tt = h e := by
    rw [ee] at hse1
    rcases mem_pivot_basis hse1 with h1 | h1
    · exact h1
    · exact absurd h1 hse
  have htt_l : (T l).basis.getD (t l) 0 = tt := by
    obtain ⟨k, hk, ek⟩ := mem_basis_iff.1 hsl
    have hkm : k < m := by rw [hCl.rect.basis] at hk; exact hk
    by_contra hne
    have hkt : k ≠ t l := fun e' => hne (by rw [← e', ek])
    apply hsl1
    rw [el]
    refine mem_basis_iff.2 ⟨k, by rw [pivot_basis_length]; exact hk, ?_⟩
    rw [pivot_basis_get _ _ _ _ hk, if_neg hkt]; exact ek
  set s := h l with hs
  -- s is fickle, below tt
  have hs_f : fickle s := by
    refine ⟨l+1, by omega, l, by omega, ?_, hlnb⟩
    rw [el]
    refine mem_basis_iff.2 ⟨t l, by rw [pivot_basis_length, hCl.rect.basis]; exact hltm, ?_⟩
    rw [pivot_basis_get _ _ _ _ (by rw [hCl.rect.basis]; exact hltm)]; simp
  have hs_lt : s < tt := lt_of_le_of_ne (hmax s hs_f) (fun e' => hlnb (e' ▸ hsl))
  have hcs' : 0 ≤ nth (T e).c s := by
    by_cases hsb : s ∈ (T e).basis
    · obtain ⟨k, hk, ek⟩ := mem_basis_iff.1 hsb
      have := hCe.costs k (by rw [hCe.rect.rows, ← hCe.rect.basis]; exact hk)
      rw [ek] at this
      have h0 : nth (T e).c s = 0 := by simpa using this
      rw [h0]
    · exact not_lt.1 (hefirst s (by rw [← htt_e]; exact hs_lt) hsb)
  -- exchange identity
  have hex := exchange hCl hCe (fun x => (hSe x).trans (hSl x).symm) hOl hOe hlh hlnb
  have hw : 0 < wsum (T e).c ((List.range (T l).a.length).map fun k => nth (row (T l).a k) s) (T l).basis 0 := by
    linarith
  obtain ⟨k, hk, hprod⟩ := wsum_pos _ _ _ _ hw
  have hkm : k < m := by rw [hCl.rect.basis] at hk; exact hk
  rw [Nat.zero_add, nth_map_range _ _ _ (by rw [hCl.rect.rows]; exact hkm)] at hprod
  set r := (T l).basis.getD k 0 with hr
  have hr_l : r ∈ (T l).basis := mem_basis_iff.2 ⟨k, hk, rfl⟩
  have hcr_ne : nth (T e).c r ≠ 0 := fun h0 => by rw [h0] at hprod; simp at hprod
  have hr_e : r ∉ (T e).basis := by
    intro hb
    obtain ⟨k', hk', ek'⟩ := mem_basis_iff.1 hb
    have := hCe.costs k' (by rw [hCe.rect.rows, ← hCe.rect.basis]; exact hk')
    rw [ek'] at this
    exact hcr_ne (by simpa using this)
  have hr_f : fickle r := ⟨l, by omega, e, by omega, hr_l, hr_e⟩
  have hr_ne : r ≠ tt := by
    intro e'
    have hkt : k = t l := basis_inj hCl hkm hltm (by rw [← hr, e', htt_l])
    rw [hkt, e', htt_e] at hprod
    have : nth (T e).c (h e) * nth (row (T l).a (t l)) s < 0 := mul_neg_of_neg_of_pos hec hlpos
    linarith
  have hr_lt : r < tt := lt_of_le_of_ne (hmax r hr_f) hr_ne
  have hcr : 0 < nth (T e).c r := by
    have : ¬ nth (T e).c r < 0 := hefirst r (by rw [← htt_e]; exact hr_lt) hr_e
    exact lt_of_le_of_ne (not_lt.1 this) (Ne.symm hcr_ne)
  have hak : 0 < nth (row (T l).a k) s := by
    by_contra hc
    have : nth (T e).c r * nth (row (T l).a k) s ≤ 0 := mul_nonpos_of_nonneg_of_nonpos hcr.le (not_lt.1 hc)
    linarith
  -- r sits at level zero
  have hbk : nth (T l).b k = 0 := by
    rw [← val_basic hCl hkm, ← hr, run_val ht R hsub r l (by omega), ← run_val ht R hsub r e (by omega),
      val_nonbasic hCe hr_e]
  have hbt : nth (T l).b (t l) = 0 := run_degenerate ht R hsub l hl
  have hρ0 : ρ l = 0 := by rw [hlρ, hbt]; simp
  have := (hlmin k hkm hak).2 (by rw [hbk, hρ0]; simp)
  rw [htt_l, ← hr] at this
  omega

end Bland
end Rooc
