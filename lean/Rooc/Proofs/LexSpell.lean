/-
`lex (spell ts) = .ok ts`: a token sequence written with single spaces is cut back into itself (C09:
lifts the token-level theorems to texts).
-/
import Rooc.Proofs.LexFormat
namespace Rooc.Syntax.Proofs
open Rooc Rooc.Syntax

/-- the characters of a token -/
def tokChars : Tok → List Char
  | .int s | .float s | .word s => s.toList
  | .lpar => ['('] | .rpar => [')'] | .comma => [','] | .plus => ['+'] | .minus => ['-'] | .star => ['*']
  | .slash => ['/'] | .ampamp => ['&', '&'] | .barbar => ['|', '|'] | .bang => ['!'] | .arrow => ['-', '>']
  | .darrow => ['<', '-', '>']
  | .nl => ['\n'] | .colon => [':'] | .le => ['<', '='] | .ge => ['>', '='] | .eq => ['='] | .lt => ['<'] | .gt => ['>']
  | .st => ['s', '.', 't', '.']
  | .lbrace => ['{'] | .rbrace => ['}'] | .lbrack => ['['] | .rbrack => [']'] | .dotdot => ['.', '.']
  | .dotdoteq => ['.', '.', '='] | .us => ['_'] | .str s => '"' :: s.toList ++ ['"']

/-- tokens separated by single spaces -/
def spell : List Tok → List Char
  | [] => []
  | [t] => tokChars t
  | t :: u :: rest => tokChars t ++ ' ' :: spell (u :: rest)

/-- lexemes the lexer reads back: digit strings, `ddd.ddd`, plain words -/
def TokOK : Tok → Prop
  | .int s => s.toList ≠ [] ∧ ∀ d ∈ s.toList, isDigit d = true
  | .float s => FloatParts s
  | .word s => plainWord s.toList = true
  | .nl | .colon | .le | .ge | .eq | .lt | .gt | .st => False     -- program-level tokens: not part of an expression text
  | .lbrace | .rbrace | .lbrack | .rbrack | .dotdot | .dotdoteq | .us | .str _ => False   -- not written by the minimal printer
  | _ => True

theorem lex_arrow (f : Nat) (r : List Char) (pw : Bool) (acc : List Tok) :
    lexAux (f+1) ('-' :: '>' :: r) pw acc = lexAux f r false (.arrow :: acc) := by simp [lexAux]
theorem lex_darrow (f : Nat) (r : List Char) (pw : Bool) (acc : List Tok) :
    lexAux (f+1) ('<' :: '-' :: '>' :: r) pw acc = lexAux f r false (.darrow :: acc) := by simp [lexAux]
theorem lex_ampamp (f : Nat) (r : List Char) (pw : Bool) (acc : List Tok) :
    lexAux (f+1) ('&' :: '&' :: r) pw acc = lexAux f r false (.ampamp :: acc) := by simp [lexAux]
theorem lex_barbar (f : Nat) (r : List Char) (pw : Bool) (acc : List Tok) :
    lexAux (f+1) ('|' :: '|' :: r) pw acc = lexAux f r false (.barbar :: acc) := by simp [lexAux]
theorem lex_bang (f : Nat) (r : List Char) (pw : Bool) (acc : List Tok) :
    lexAux (f+1) ('!' :: r) pw acc = lexAux f r false (.bang :: acc) := by simp [lexAux]
theorem lex_slash_end (f : Nat) (pw : Bool) (acc : List Tok) :
    lexAux (f+1) ['/'] pw acc = lexAux f [] false (.slash :: acc) := by simp [lexAux]

/-- one token followed by a space or the end of the text -/
theorem lexTo_tok (t : Tok) (h : TokOK t) (rest : List Char) (hr : rest = [] ∨ ∃ tl, rest = ' ' :: tl) (pw : Bool) (acc : List Tok) :
    LexTo (tokChars t ++ rest) pw acc rest (t :: acc) := by
  have hd : Delim rest := by
    rcases hr with h | ⟨tl, h⟩
    · exact Or.inl h
    · subst h; exact delim_space tl
  cases t with
  | int s =>
    have := lexTo_int s.toList rest pw acc h.1 h.2 hd
    simpa [tokChars] using this
  | float s =>
    obtain ⟨ds, fs, hs, hne, hnf, hds, hfs⟩ := h
    have := lexTo_float ds fs rest pw acc hne hnf hds hfs hd
    have hs' : String.ofList (ds ++ '.' :: fs) = s := by rw [← hs]; simp
    rw [hs'] at this
    simpa [tokChars, hs] using this
  | word s =>
    have := lexTo_word s.toList rest pw acc h hd
    simpa [tokChars] using this
  | lpar => exact lexTo_lpar rest pw acc
  | rpar => exact lexTo_rpar rest pw acc
  | comma => exact lexTo_comma rest pw acc
  | plus => exact lexTo_plus rest pw acc
  | minus =>
    refine lexTo_minus rest pw acc ?_
    intro tl e
    rcases hr with h | ⟨tl', h⟩ <;> rw [h] at e <;> cases e
  | star => exact lexTo_star rest pw acc
  | slash =>
    rcases hr with h | ⟨tl, h⟩ <;> subst h
    · exact LexTo.of_step (fun f => lex_slash_end f pw acc) (by simp [tokChars])
    · exact lexTo_slash tl pw acc
  | ampamp => exact LexTo.of_step (fun f => lex_ampamp f rest pw acc) (by simp [tokChars]; omega)
  | barbar => exact LexTo.of_step (fun f => lex_barbar f rest pw acc) (by simp [tokChars]; omega)
  | bang => exact LexTo.of_step (fun f => lex_bang f rest pw acc) (by simp [tokChars])
  | arrow => exact LexTo.of_step (fun f => lex_arrow f rest pw acc) (by simp [tokChars]; omega)
  | darrow => exact LexTo.of_step (fun f => lex_darrow f rest pw acc) (by simp [tokChars]; omega)
  | nl | colon | le | ge | eq | lt | gt | st | lbrace | rbrace | lbrack | rbrack | dotdot | dotdoteq | us => exact absurd h (by simp [TokOK])
  | str s => exact absurd h (by simp [TokOK])

theorem lexTo_spell : ∀ (ts : List Tok), (∀ t ∈ ts, TokOK t) → ∀ (pw : Bool) (acc : List Tok),
    LexTo (spell ts) pw acc [] (ts.reverse ++ acc)
  | [], _, pw, acc => by simpa [spell] using LexTo.refl [] pw acc
  | [t], h, pw, acc => by
    have := lexTo_tok t (h t (by simp)) [] (Or.inl rfl) pw acc
    simpa [spell] using this
  | t :: u :: rest, h, pw, acc => by
    have h1 := lexTo_tok t (h t (by simp)) (' ' :: spell (u :: rest)) (Or.inr ⟨_, rfl⟩) pw acc
    have h2 := fun pw1 => lexTo_space (spell (u :: rest)) pw1 (t :: acc)
    have h3 := fun pw1 => lexTo_spell (u :: rest) (fun x hx => h x (List.mem_cons_of_mem _ hx)) pw1 (t :: acc)
    have := (h1.trans h2).trans h3
    simpa [spell] using this

/-- **Lexer round trip**: a token sequence written with single spaces is read back as itself. -/
theorem lex_spell (ts : List Tok) (h : ∀ t ∈ ts, TokOK t) : lex (spell ts) = .ok ts := by
  have := lex_of_lexTo (by simpa using lexTo_spell ts h false [])
  simpa using this

theorem binTokS_ok (alias : Bool) (o : BinOp) : TokOK (binTokS alias o) := by
  cases o <;> cases alias <;> simp [binTokS, TokOK] <;> decide
theorem unTokS_ok (alias : Bool) (u : UnOp) : TokOK (unTokS alias u) := by
  cases u <;> cases alias <;> simp [unTokS, TokOK] <;> decide

theorem mem_parenToks {tk : Tok} {xs : List Tok} (h : tk ∈ parenToks xs) : tk = .lpar ∨ tk ∈ xs ∨ tk = .rpar := by
  rcases List.mem_cons.mp h with h | h
  · exact Or.inl h
  · rcases List.mem_append.mp h with h | h
    · exact Or.inr (Or.inl h)
    · exact Or.inr (Or.inr (by simpa using h))

mutual
/-- every token the minimal printer writes is a lexeme the lexer reads back -/
theorem render_tokOK (alias : Bool) : (t : PExp) → TextOK t → ∀ tk ∈ render alias t, TokOK tk
  | .int v, _ => by
    intro tk htk
    simp [render] at htk; subst htk
    obtain ⟨hne, hd⟩ := natDigits_spec v
    exact ⟨by simpa using hne, by simpa using hd⟩
  | .num s, h => by intro tk htk; simp [render] at htk; subst htk; exact h
  | .bool b, _ => by intro tk htk; cases b <;> simp [render] at htk <;> subst htk <;> (simp [TokOK]; decide)
  | .var n, h => by intro tk htk; simp [render] at htk; subst htk; exact h
  | .call n args, h => by
    intro tk htk
    simp only [render] at htk
    rcases List.mem_cons.mp htk with rfl | htk
    · exact h.1
    · rcases mem_parenToks (xs := renderArgs alias args) htk with rfl | htk | rfl
      · trivial
      · exact renderArgs_tokOK alias args h.2 tk htk
      · trivial
  | .un u e, h => by
    intro tk htk
    have ih := render_tokOK alias e h
    simp only [render, List.mem_cons] at htk
    rcases htk with rfl | htk
    · exact unTokS_ok alias u
    · by_cases hl : e.isLeaf = true
      · simp only [hl, if_true] at htk; exact ih tk htk
      · simp only [hl] at htk
        rcases mem_parenToks htk with rfl | htk | rfl
        · trivial
        · exact ih tk htk
        · trivial
  | .bin o l r, h => by
    intro tk htk
    have ihl := render_tokOK alias l h.1
    have ihr := render_tokOK alias r h.2
    have hpar : ∀ (b : Bool) (e : PExp), (∀ tk ∈ render alias e, TokOK tk) →
        ∀ tk ∈ (if b then parenToks (render alias e) else render alias e), TokOK tk := by
      intro b e ihe tk htk
      cases b
      · simpa using ihe tk (by simpa using htk)
      · simp only [if_true] at htk
        rcases mem_parenToks htk with rfl | htk | rfl
        · trivial
        · exact ihe tk htk
        · trivial
    simp only [render, List.mem_append, List.mem_cons] at htk
    rcases htk with htk | rfl | htk
    · exact hpar _ l ihl tk htk
    · exact binTokS_ok alias o
    · exact hpar _ r ihr tk htk
  | .str _, h | .prim _, h | .cvar _ _, h | .access _ _, h | .block _ _, h | .scoped _ _ _ _, h => by simp [TextOK] at h
theorem renderArgs_tokOK (alias : Bool) : (args : List PExp) → TextOK.TextOKs args → ∀ tk ∈ renderArgs alias args, TokOK tk
  | [], _ => by simp [renderArgs]
  | [a], h => by simpa [renderArgs] using render_tokOK alias a h.1
  | a :: b :: rest, h => by
    intro tk htk
    simp only [renderArgs, List.mem_append, List.mem_cons] at htk
    rcases htk with htk | rfl | htk
    · exact render_tokOK alias a h.1 tk htk
    · trivial
    · exact renderArgs_tokOK alias (b :: rest) h.2 tk htk
end

end Rooc.Syntax.Proofs
