/-
Discharge of the hypotheses that the simplex composition (`Rooc/Proofs/ComposeSem.lean`, C05) puts on the COMPILED linear
model `lm = Compile.linearize m …`, from

* C08's theorems (`Rooc/Props/C08.lean`: `vars_nodup`, `vars_eq_domain_keys`, `row_lengths`, `objective_length`,
  `finite_out_partial`) — sizes, finiteness, distinct variable names, variables = domain keys;
* the SUCCESS of `to_standard_form` on `lm` (`Standardize.standardize lm = .ok s`, which the simplex path needs
  anyway): every row is `≤ ≥ =`, every domain entry is `Real`/`NonNegativeReal`, the direction is `min` or `max`
  (`standardize_ok_shape`).

What is left on `lm` after that is `DomainFormat lm` only: the bound FORMAT of the published continuous domains
(`Real(lo, hi)`: `lo` is `−inf` or finite, `hi` is `+inf` or finite; `NonNegativeReal(lo, hi)`: `0 ≤ lo` finite).  No
theorem of C07/C08 provides it yet (needed: "a published range never has lower end `+inf` / upper end `−inf`" for the
bounds analysis, and "auxiliaries of the lowerings carry well-formed ranges" for the linearizer); it is decidable on the
computed model.
-/
import Rooc.Props.C08
import Rooc.Proofs.ComposeSem
import Rooc.Proofs.LinBridge
import Rooc.Proofs.LinD10
import Rooc.Proofs.ComposeVarFree

set_option linter.unusedSectionVars false
set_option linter.unusedSimpArgs false
set_option linter.unusedVariables false

namespace Rooc.ComposeWF
open Rooc Rooc.Lin Rooc.LinP StdSem StdSplit Standardize ComposeSem
variable {K : Type} [Field K] [LinearOrder K] [IsStrictOrderedRing K] [FloorRing K]

/-! ### what the success of `to_standard_form` says about its input -/

theorem mapM'_cmp {g : LinRow (Ext K) → Option (LinRow (Ext K))}
    (hg : ∀ r r', g r = some r' → r'.cmp = r.cmp) : ∀ (l l' : List (LinRow (Ext K))),
    mapM' g l = some l' → l'.map (·.cmp) = l.map (·.cmp)
  | [], l', h => by simp [mapM'] at h; subst h; rfl
  | r :: rs, l', h => by
    simp only [mapM'] at h
    cases hf : g r with
    | none => simp [hf] at h
    | some r' =>
      simp only [hf] at h
      cases hrec : mapM' g rs with
      | none => simp [hrec] at h
      | some l'' =>
        simp only [hrec, Option.map_some, Option.some.injEq] at h
        subst h
        simp [mapM'_cmp hg rs l'' hrec, hg r r' hf]

theorem normalizeAll_cmp : ∀ (rows : List (LinRow (Ext K))) (total sl su : Nat) res,
    normalizeAll total sl su rows = .ok res → ∀ r ∈ rows, r.cmp = .le ∨ r.cmp = .ge ∨ r.cmp = .eq
  | [], _, _, _, _, _, r, hr => by simp at hr
  | r0 :: rs, total, sl, su, res, h, r, hr => by
    simp only [normalizeAll] at h
    split at h
    · rename_i hc
      cases hrec : normalizeAll total sl su rs with
      | error e => simp [hrec] at h
      | ok res' =>
        rcases List.mem_cons.1 hr with rfl | hr'
        · exact Or.inr (Or.inr hc)
        · exact normalizeAll_cmp rs _ _ _ res' hrec r hr'
    · rename_i hc
      cases hrec : normalizeAll (total+1) (sl+1) su rs with
      | error e => simp [hrec] at h
      | ok res' =>
        rcases List.mem_cons.1 hr with rfl | hr'
        · exact Or.inl hc
        · exact normalizeAll_cmp rs _ _ _ res' hrec r hr'
    · rename_i hc
      cases hrec : normalizeAll (total+1) sl (su+1) rs with
      | error e => simp [hrec] at h
      | ok res' =>
        rcases List.mem_cons.1 hr with rfl | hr'
        · exact Or.inr (Or.inl hc)
        · exact normalizeAll_cmp rs _ _ _ res' hrec r hr'
    · cases h

/-- **a successful `to_standard_form` had a continuous domain, non-strict rows and a direction.** -/
theorem standardize_ok_shape {lm : LinModel (Ext K)} {s : StdModel (Ext K)} (h : standardize lm = .ok s) :
    (∀ d ∈ lm.domain, isContinuous d.ty = true) ∧
    (∀ r ∈ lm.rows, r.cmp = .le ∨ r.cmp = .ge ∨ r.cmp = .eq) ∧
    (lm.optType = .min ∨ lm.optType = .max) := by
  unfold standardize at h
  split at h
  · cases h
  · rename_i hany
    have hcont : ∀ d ∈ lm.domain, isContinuous d.ty = true := by
      intro d hd
      have := hany
      simp only [List.any_eq_true, Bool.not_eq_true', not_exists, not_and, Bool.not_eq_false] at this
      exact this d hd
    simp only at h
    split at h
    · rename_i brows free hb hf
      split at h
      · rename_i rows obj hr ho
        split at h
        · cases h
        · rename_i srows names total hn
          have hcmp := normalizeAll_cmp _ _ _ _ _ hn
          have hmap := mapM'_cmp (g := fun (r : LinRow (Ext K)) => (splitAll free r.coeffs).map
              (fun c => { r with coeffs := removeMany c free })) (by
            intro r r' hrr
            cases hsp : splitAll free r.coeffs with
            | none => simp [hsp] at hrr
            | some c => simp [hsp] at hrr; subst hrr; rfl) _ _ hr
          refine ⟨hcont, ?_, ?_⟩
          · intro r hr'
            have hmem : r.cmp ∈ (lm.rows ++ brows).map (·.cmp) :=
              List.mem_map.2 ⟨r, List.mem_append_left _ hr', rfl⟩
            rw [← hmap] at hmem
            obtain ⟨r', hr'', he⟩ := List.mem_map.1 hmem
            rw [← he]; exact hcmp r' hr''
          · split at h
            · rename_i ho'; exact Or.inr ho'
            · rename_i ho'; exact Or.inl ho'
            · cases h
      · cases h
    · cases h

/-! ### what C08 says about the output of the whole pipeline -/

theorem isFin_of_isFinite {c : Ext K} (h : Arith.isFinite c = true) : StdSem.isFin c := by
  cases c <;> simp [Arith.isFinite, Ext.isFinite, StdSem.isFin] at h ⊢

theorem lookup_of_any {dom : List (DomVar (Ext K))} {v : String} (h : dom.any (fun d => d.name == v) = true) :
    ∃ ty, lookup dom v = some ty := by
  unfold lookup
  cases hf : dom.find? (·.name == v) with
  | some d => exact ⟨d.ty, rfl⟩
  | none =>
    rw [List.find?_eq_none] at hf
    obtain ⟨d, hd, hp⟩ := List.any_eq_true.1 h
    exact absurd hp (hf d hd)

/-- **C08 for `Compile.linearize`**: distinct declared names and finite source literals give a compiled model with
distinct variable names, a domain that declares exactly them, one coefficient per variable everywhere, and finite data. -/
theorem compiled_shape {m : Model (Ext K)} {tol : Ext K} {maxSteps : Nat} {lm : LinModel (Ext K)}
    (h : Compile.linearize m tol maxSteps = .ok lm) (hnd : (m.domain.map (·.name)).Nodup)
    (hfin : FiniteLits m = true) :
    lm.vars.Nodup ∧ DomVars lm ∧ (∀ v ∈ lm.vars, ∃ ty, lookup lm.domain v = some ty) ∧
    lm.objective.length = lm.vars.length ∧ (∀ r ∈ lm.rows, r.coeffs.length = lm.vars.length) ∧
    (∀ c ∈ lm.objective, StdSem.isFin c) ∧ StdSem.isFin lm.offset ∧
    (∀ r ∈ lm.rows, (∀ c ∈ r.coeffs, StdSem.isFin c) ∧ StdSem.isFin r.rhs) := by
  obtain ⟨_, an, _, hlin⟩ := (compile_ok_iff m tol maxSteps lm).mp h
  have hd : DomainNodup (an.applyToDomain m.domain) = true := by
    rw [DomainNodup, WFList.noDup_iff]
    have : (Analyzer.applyToDomain an m.domain).map (·.name) = m.domain.map (·.name) := by
      simp only [Analyzer.applyToDomain, List.map_map]
      exact List.map_congr_left (fun d _ => applyToVar_name _ d)
    rw [this]; exact hnd
  have h1 := Props.C08.vars_nodup hd hlin
  have h2 := Props.C08.vars_eq_domain_keys hd hlin
  have h3 := Props.C08.row_lengths hlin
  have h4 := Props.C08.objective_length hlin
  have h5 := Props.C08.finite_out_partial hfin hlin
  simp only [WF.report, Bool.and_eq_true, List.all_eq_true, beq_iff_eq, WFList.noDup_iff,
    List.contains_iff_mem] at h2 h3 h4 h5
  refine ⟨h1, ⟨h2.2, fun d hd' => ?_⟩, fun v hv => lookup_of_any (h2.1.1 v hv), h4, h3,
    fun c hc => isFin_of_isFinite (h5.1.2 c hc), isFin_of_isFinite h5.2,
    fun r hr => ⟨fun c hc => isFin_of_isFinite ((h5.1.1 r hr).1 c hc), isFin_of_isFinite (h5.1.1 r hr).2⟩⟩
  simpa using h2.1.2 d hd'

/-! ### the residual: bound format of the published continuous domains -/

/-- the format C13 needs of the declared ranges of a continuous model, and `0 ≤ lo` for `NonNegativeReal(lo, _)`. -/
structure DomainFormat (lm : LinModel (Ext K)) : Prop where
  real : ∀ d ∈ lm.domain, ∀ lo hi, d.ty = .real lo hi → (lo = .ninf ∨ StdSem.isFin lo) ∧ (hi = .pinf ∨ StdSem.isFin hi)
  nn : ∀ d ∈ lm.domain, ∀ lo hi, d.ty = .nnreal lo hi → StdSem.isFin lo ∧ (hi = .pinf ∨ StdSem.isFin hi)
  nnok : ∀ d ∈ lm.domain, ComposeSem.NNOK d.ty

/-- **every hypothesis of the simplex composition on the compiled model**, from the source (`hnd`, `hfin`), the success
of `to_standard_form`, and `DomainFormat`. -/
theorem compiled_wf {m : Model (Ext K)} {tol : Ext K} {maxSteps : Nat} {lm : LinModel (Ext K)}
    (h : Compile.linearize m tol maxSteps = .ok lm) (hnd : (m.domain.map (·.name)).Nodup)
    (hfin : FiniteLits m = true) {s : StdModel (Ext K)} (hs : standardize lm = .ok s) (hfmt : DomainFormat lm) :
    WF lm ∧ (∀ d ∈ lm.domain, ComposeSem.NNOK d.ty) ∧ DomVars lm ∧ lm.vars.Nodup := by
  obtain ⟨hvn, hdv, hdecl, hol, hrl, hof, hoff, hrf⟩ := compiled_shape h hnd hfin
  obtain ⟨hcont, hcmp, hopt⟩ := standardize_ok_shape hs
  exact ⟨⟨hol, hof, hoff, hrl, hrf, hcmp, hdecl, hcont, hfmt.real, hfmt.nn, hopt⟩, hfmt.nnok, hdv, hvn⟩

/-- a compiled model without domain entries is variable-free in the sense of `Compose.VarFree` (C08: variables = domain
keys, one coefficient per variable, finite data). -/
theorem varFree_of_compile {m : Model (Ext K)} {tol : Ext K} {maxSteps : Nat} {lm : LinModel (Ext K)}
    (h : Compile.linearize m tol maxSteps = .ok lm) (hnd : (m.domain.map (·.name)).Nodup)
    (hfin : FiniteLits m = true) (hdom : lm.domain = []) : Compose.VarFree lm := by
  obtain ⟨_, _, hdecl, hol, hrl, _, hoff, hrf⟩ := compiled_shape h hnd hfin
  have hv : lm.vars = [] := by
    cases hvs : lm.vars with
    | nil => rfl
    | cons v vs =>
      obtain ⟨ty, hty⟩ := hdecl v (by rw [hvs]; simp)
      simp [lookup, hdom] at hty
  refine ⟨hdom, hv, ?_, fun r hr => ⟨?_, (hrf r hr).2⟩, hoff⟩
  · rw [hv] at hol; exact List.length_eq_zero_iff.mp hol
  · have := hrl r hr; rw [hv] at this; exact List.length_eq_zero_iff.mp this

/-! ### `FiniteLits` (C08's hypothesis) follows from the contract `LogicModel` -/

theorem allLits_of_finiteLits : ∀ (e : Exp (Ext K)), Rooc.finiteLits e = true → allLits Arith.isFinite e = true := by
  intro e
  induction e using Exp.indL with
  | num v => intro h; cases v <;> simp [Rooc.finiteLits, Rooc.isFin, allLits, Arith.isFinite, Ext.isFinite] at h ⊢
  | var s => intro _; simp [allLits]
  | abs e ih => intro h; simp only [Rooc.finiteLits] at h; simpa [allLits] using ih h
  | not e ih => intro h; simp only [Rooc.finiteLits] at h; simpa [allLits] using ih h
  | un op e ih => intro h; simp only [Rooc.finiteLits] at h; simpa [allLits] using ih h
  | min es ih =>
    intro h; simp only [Rooc.finiteLits, finiteLitsL_iff] at h
    simp only [allLits, allLitsL_iff]; exact fun e he => ih e he (h e he)
  | max es ih =>
    intro h; simp only [Rooc.finiteLits, finiteLitsL_iff] at h
    simp only [allLits, allLitsL_iff]; exact fun e he => ih e he (h e he)
  | and es ih =>
    intro h; simp only [Rooc.finiteLits, finiteLitsL_iff] at h
    simp only [allLits, allLitsL_iff]; exact fun e he => ih e he (h e he)
  | or es ih =>
    intro h; simp only [Rooc.finiteLits, finiteLitsL_iff] at h
    simp only [allLits, allLitsL_iff]; exact fun e he => ih e he (h e he)
  | xor a b iha ihb =>
    intro h; simp only [Rooc.finiteLits, Bool.and_eq_true] at h
    simp only [allLits, Bool.and_eq_true]; exact ⟨iha h.1, ihb h.2⟩
  | implies a b iha ihb =>
    intro h; simp only [Rooc.finiteLits, Bool.and_eq_true] at h
    simp only [allLits, Bool.and_eq_true]; exact ⟨iha h.1, ihb h.2⟩
  | iff a b iha ihb =>
    intro h; simp only [Rooc.finiteLits, Bool.and_eq_true] at h
    simp only [allLits, Bool.and_eq_true]; exact ⟨iha h.1, ihb h.2⟩
  | bin op a b iha ihb =>
    intro h; simp only [Rooc.finiteLits, Bool.and_eq_true] at h
    simp only [allLits, Bool.and_eq_true]; exact ⟨iha h.1, ihb h.2⟩

/-- a model under the contract has no non-finite literal. -/
theorem finiteLits_of_logicModel {m : Model (Ext K)} {d : List (DomVar (Ext K))} (hm : LogicModel m d) :
    FiniteLits m = true := by
  simp only [FiniteLits, Bool.and_eq_true, List.all_eq_true]
  exact ⟨allLits_of_finiteLits _ hm.obj.fin, fun c hc =>
    ⟨allLits_of_finiteLits _ (hm.cons c hc).lhs.fin, allLits_of_finiteLits _ (hm.cons c hc).rhs.fin⟩⟩

end Rooc.ComposeWF
