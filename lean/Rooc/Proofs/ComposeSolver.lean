/-
The default (MILP) solver path of the one-shot pipeline, with microlp as a PARAMETER:

* `assignmentOf sol` — the assignment that rooc's returned `LpSolution` denotes (`value_of` per name, read back through
  `Val.toNum`);
* `SolverSpec lm out` — THE ASSUMPTION ABOUT microlp, stated on what rooc hands back after its own wrapper code
  (`SolverWrap.wrapAuto lm out`, i.e. `auto_solver`: variable-free models decided on the spot, everything else through
  `solve_milp_lp_problem` with its per-domain read-back): a returned solution labelled `Optimal` satisfies the solver
  contract `Compose.LinOptimal` and reports the linear objective (offset included) at its point; `Err Infeasible` is
  answered only when `Compose.LinInfeasible`.  This is what C05's certified comparison and C04's certificate check
  validate per instance; it is NOT proved (microlp is not modelled).
* `oneShot solver m t n` — `RoocSolver::try_new(src)?.solve_using(auto_solver)` after parsing: `Compile.linearize`, then
  `wrapAuto` on the answer `solver lm` of the external solver.
-/
import Rooc.Compile
import Rooc.SolverWrap
import Rooc.Pipeline
import Rooc.Proofs.ComposeContract
import Rooc.Proofs.StdSem

set_option linter.unusedSectionVars false
set_option linter.unusedVariables false

namespace Rooc.Compose
open Rooc Rooc.Sem Rooc.SolverWrap

variable {K : Type} [Field K] [LinearOrder K] [IsStrictOrderedRing K] [FloorRing K]

/-- the assignment denoted by a returned `LpSolution` (names without a value read as `0`). -/
noncomputable def assignmentOf (sol : Solution (Ext K)) : String → K := fun v =>
  match sol.valueOf v with
  | some val => StdSem.toK val.toNum
  | none => 0

/-- **the assumption about the external MILP solver** (see the header). -/
structure SolverSpec (lm : LinModel (Ext K)) (out : MlpOutcome (Ext K)) : Prop where
  optimal : ∀ sol, wrapAuto lm out = .ok sol → sol.status = .optimal →
    LinOptimal lm (assignmentOf sol) ∧ ∃ w, sol.value = .fin w ∧ linObjective lm (assignmentOf sol) = some w
  infeasible : wrapAuto lm out = .err "Infeasible" → LinInfeasible lm

/-- the same contract on ANY answer `res` handed back for `lm` (`SolverSpec lm out` is `AnswerSpec lm (wrapAuto lm out)`);
for rooc's own simplex it is proved (`ComposeReturn.simplex_answerSpec`), for the external solvers it is the assumption. -/
structure AnswerSpec (lm : LinModel (Ext K)) (res : Res (Ext K)) : Prop where
  optimal : ∀ sol, res = .ok sol → sol.status = .optimal →
    LinOptimal lm (assignmentOf sol) ∧ ∃ w, sol.value = .fin w ∧ linObjective lm (assignmentOf sol) = some w
  infeasible : res = .err "Infeasible" → LinInfeasible lm

theorem SolverSpec.answerSpec {lm : LinModel (Ext K)} {out : MlpOutcome (Ext K)} (h : SolverSpec lm out) :
    AnswerSpec lm (wrapAuto lm out) := ⟨h.optimal, h.infeasible⟩

/-- the one-shot pipeline on a source model, the external solver being the function `solver`. -/
noncomputable def oneShot (solver : LinModel (Ext K) → MlpOutcome (Ext K)) (m : Model (Ext K)) (t : K) (maxSteps : Nat) :
    Res (Ext K) :=
  match Compile.linearize m (.fin t) maxSteps with
  | .ok lm => wrapAuto lm (solver lm)
  | .error _ => .err "Linearization"

theorem oneShot_ok {solver : LinModel (Ext K) → MlpOutcome (Ext K)} {m : Model (Ext K)} {t : K} {maxSteps : Nat}
    {lm : LinModel (Ext K)} (h : Compile.linearize m (.fin t) maxSteps = .ok lm) :
    oneShot solver m t maxSteps = wrapAuto lm (solver lm) := by
  simp [oneShot, h]

/-- `oneShot` is the DIFFED model function `Pipeline.solveUsingAuto` (the glue of `RoocSolver::solve_using`, compared in
full with the real entry point on every `./check C03` run), read as a `Res`. -/
theorem oneShot_eq_pipeline (solver : LinModel (Ext K) → MlpOutcome (Ext K)) (m : Model (Ext K)) (t : K) (maxSteps : Nat) :
    oneShot solver m t maxSteps =
      match Pipeline.solveUsingAuto m (.fin t) maxSteps solver with
      | .solved _ s => .ok s
      | .linearization _ => .err "Linearization"
      | .solver v => .err v
      | .panic => .panic := by
  unfold oneShot Pipeline.solveUsingAuto
  cases Compile.linearize m (.fin t) maxSteps with
  | error e => rfl
  | ok lm => simp only; cases wrapAuto lm (solver lm) <;> rfl

/-- the two verdict arms of the diffed function, in `oneShot`'s terms. -/
theorem pipeline_solved {solver : LinModel (Ext K) → MlpOutcome (Ext K)} {m : Model (Ext K)} {t : K} {maxSteps : Nat}
    {lm : LinModel (Ext K)} {sol : Solution (Ext K)}
    (h : Pipeline.solveUsingAuto m (.fin t) maxSteps solver = .solved lm sol) :
    Compile.linearize m (.fin t) maxSteps = .ok lm ∧ oneShot solver m t maxSteps = .ok sol := by
  unfold Pipeline.solveUsingAuto at h
  cases hc : Compile.linearize m (.fin t) maxSteps with
  | error e => simp [hc] at h
  | ok lm' =>
    simp only [hc] at h
    cases hw : wrapAuto lm' (solver lm') with
    | ok s => simp only [hw, Pipeline.Outcome.solved.injEq] at h; obtain ⟨rfl, rfl⟩ := h; exact ⟨rfl, by simp [oneShot, hc, hw]⟩
    | err v => simp [hw] at h
    | panic => simp [hw] at h

theorem pipeline_solver {solver : LinModel (Ext K) → MlpOutcome (Ext K)} {m : Model (Ext K)} {t : K} {maxSteps : Nat}
    {v : String} (h : Pipeline.solveUsingAuto m (.fin t) maxSteps solver = .solver v) :
    ∃ lm, Compile.linearize m (.fin t) maxSteps = .ok lm ∧ oneShot solver m t maxSteps = .err v := by
  unfold Pipeline.solveUsingAuto at h
  cases hc : Compile.linearize m (.fin t) maxSteps with
  | error e => simp [hc] at h
  | ok lm' =>
    simp only [hc] at h
    cases hw : wrapAuto lm' (solver lm') with
    | ok s => simp [hw] at h
    | err v' => simp only [hw, Pipeline.Outcome.solver.injEq] at h; subst h; exact ⟨lm', rfl, by simp [oneShot, hc, hw]⟩
    | panic => simp [hw] at h

/-- whenever the one-function model of the whole default path (`Pipeline.solveProg`) gets past the front end, its answer
is the answer of `Pipeline.solveUsingAuto` on the transformed model. -/
theorem solveProg_compiled {α : Type} [Arith α] {p : Pre.ProgM} {tc : Bool} {tol : α} {maxSteps : Nat}
    {mlp : LinModel α → MlpOutcome α} {o : Pipeline.Outcome α}
    (h : Pipeline.solveProg p tc tol maxSteps mlp = .compiled o) :
    p.arityOk = true ∧ tc = true ∧
    ∃ m : Model α, (Pre.transformCore p : Except Pre.IErr (Model α)) = .ok m ∧
      Pipeline.solveUsingAuto m tol maxSteps mlp = o := by
  unfold Pipeline.solveProg at h
  by_cases ha : p.arityOk = true
  · by_cases ht : tc = true
    · simp only [ha, ht, Bool.not_true, Bool.false_eq_true, if_false] at h
      cases hm : (Pre.transformCore p : Except Pre.IErr (Model α)) with
      | error e => simp [hm] at h
      | ok m =>
        simp only [hm, Pipeline.TextOutcome.compiled.injEq] at h
        exact ⟨ha, ht, m, rfl, h⟩
    · simp [ha, ht] at h
  · simp [ha] at h

end Rooc.Compose
