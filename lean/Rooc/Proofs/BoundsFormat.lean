/-
C07 — the FORMAT of the ranges the analysis publishes (independent of feasibility): every range is an ordered
interval (`lower ≤ upper` in the IEEE sense, hence no NaN end point, `lower = +inf` only together with
`upper = +inf`, `upper = −inf` only together with `lower = −inf`), for EVERY constraint list — infinite and NaN
literals included — as soon as the declared ranges are ordered; integer ranges are integral, inside the declared
range and are published unchanged by `apply_to_domain` after `enforceable` (fix b9d407a).
-/
import Rooc.Proofs.LinBridge

set_option linter.unusedTactic false
set_option linter.unreachableTactic false
set_option linter.unnecessarySeqFocus false
set_option linter.unusedSimpArgs false
set_option linter.unusedVariables false
set_option linter.unusedSectionVars false

namespace Rooc.LinP
open Rooc Rooc.BoundsProofs Rooc.BoundsSem Arith

variable {K : Type} [Field K] [LinearOrder K] [IsStrictOrderedRing K] [FloorRing K]

/-- `lower ≤ upper` with the IEEE comparison (false as soon as an end point is NaN). -/
def Ordered (b : Bounds (Ext K)) : Prop := Ext.le b.lower b.upper = true
def OrderedVb (vb : List (String × Bounds (Ext K))) : Prop := ∀ name, Ordered (Analyzer.varBounds vb name)

theorem ordered_format {b : Bounds (Ext K)} (h : Ordered b) :
    b.lower ≠ .nan ∧ b.upper ≠ .nan ∧ (b.lower = .pinf → b.upper = .pinf) ∧ (b.upper = .ninf → b.lower = .ninf) := by
  obtain ⟨lo, hi⟩ := b
  cases lo <;> cases hi <;> simp_all [Ordered, Ext.le]

theorem ordered_unbounded : Ordered (Bounds.unbounded : Bounds (Ext K)) := by simp [Ordered, Bounds.unbounded, Ext.le]

theorem intersection_ordered {a c t : Bounds (Ext K)} {tol : Ext K} (ha : Ordered a)
    (h : a.intersection c tol = some t) : Ordered t := by
  simp only [Bounds.intersection, a_fmax, a_fmin, a_le, a_sub] at h
  split at h
  · rename_i hle; cases h; exact hle
  · split at h
    · cases h; exact ha
    · cases h

theorem ordered_frameRel : FrameRel (fun an an' : Analyzer (Ext K) =>
    OrderedVb an.variableBounds → OrderedVb an'.variableBounds) where
  refl _ h := h
  trans h1 h2 h := h2 (h1 h)
  mark _ h := h
  limit _ h := h
  tighten an name cand := by
    intro h
    unfold Analyzer.tightenVariable
    split
    · exact h
    · dsimp only
      split
      · exact h
      · rename_i t ht
        split
        · intro n
          simp only [varBounds_insert]
          split
          · exact intersection_ordered (h name) ht
          · exact h n
        · exact h

theorem fromDomain_ordered (domain : List (DomVar (Ext K))) (tol : Ext K)
    (hd : ∀ d ∈ domain, Ordered (Bounds.ofVarType d.ty)) : OrderedVb (Analyzer.fromDomain domain tol).variableBounds := by
  simp only [Analyzer.fromDomain]
  suffices h : ∀ (dom : List (DomVar (Ext K))) (acc : List (String × Bounds (Ext K))),
      (∀ d ∈ dom, Ordered (Bounds.ofVarType d.ty)) → OrderedVb acc →
      OrderedVb (dom.foldl (fun m d => AList.insert m d.name (Bounds.ofVarType d.ty)) acc) from
    h domain [] hd (fun n => by simpa [Analyzer.varBounds, AList.get?] using ordered_unbounded)
  intro dom
  induction dom with
  | nil => intro acc _ hb; simpa using hb
  | cons d dom ih =>
    intro acc hd hb
    simp only [List.foldl_cons]
    refine ih _ (fun d' hd' => hd d' (List.mem_cons_of_mem _ hd')) ?_
    intro n
    simp only [varBounds_insert]
    split
    · exact hd d (List.mem_cons_self ..)
    · exact hb n

/-- every range `analyze` holds is an ordered interval — for every constraint list, tolerance and step limit. -/
theorem analyze_ordered (domain : List (DomVar (Ext K))) (cs : List (Constraint (Ext K))) (tol : Ext K) (maxSteps : Nat)
    (hd : ∀ d ∈ domain, Ordered (Bounds.ofVarType d.ty)) :
    OrderedVb (Analyzer.analyze domain cs tol maxSteps).variableBounds :=
  analyze_frame ordered_frameRel domain cs tol maxSteps (fromDomain_ordered domain tol hd)

/-- … and so is every range after `enforceable` (what the linearizer uses and `apply_to_domain` publishes). -/
theorem enforceable_ordered {domain : List (DomVar (Ext K))} (hnd : (domain.map (·.name)).Nodup)
    (cs : List (Constraint (Ext K))) {t : K} (h0 : 0 ≤ t) (h1 : t < 1) (maxSteps : Nat)
    (hd : ∀ d ∈ domain, Ordered (Bounds.ofVarType d.ty)) :
    OrderedVb ((Analyzer.analyze domain cs (.fin t) maxSteps).enforceable domain).variableBounds := by
  obtain ⟨hZ, hcase⟩ := enforceable_shape domain cs h0 h1 maxSteps hnd
  by_cases hreset : ((Analyzer.analyze domain cs (.fin t) maxSteps).detectedInfeasible ||
      (Analyzer.analyze domain cs (.fin t) maxSteps).emptyIntegerRange domain) = true
  · have he : ((Analyzer.analyze domain cs (.fin t) maxSteps).enforceable domain).variableBounds =
        (Analyzer.fromDomain domain (Analyzer.analyze domain cs (.fin t) maxSteps).tolerance).variableBounds := by
      unfold Analyzer.enforceable; rw [if_pos hreset]
    rw [he]; exact fromDomain_ordered domain _ hd
  · have hI : RInv domain t ((Analyzer.analyze domain cs (.fin t) maxSteps).enforceable domain) := by
      rcases hcase with h | h
      · exact absurd h hreset
      · exact h
    have he : (Analyzer.analyze domain cs (.fin t) maxSteps).enforceable domain =
        (Analyzer.analyze domain cs (.fin t) maxSteps).roundIntegerRanges domain := by
      unfold Analyzer.enforceable; rw [if_neg hreset]
    intro name
    rcases roundIntegerRanges_get_cases name domain (Analyzer.analyze domain cs (.fin t) maxSteps) with h | ⟨d, hdm, ⟨lo, hi, hty⟩, hn⟩
    · have := analyze_ordered domain cs (.fin t) maxSteps hd name
      rw [he]; simpa [Analyzer.varBounds, h] using this
    · obtain ⟨m1, m2, hg, _⟩ := hZ d hdm lo hi hty
      have hne := hI.ne d hdm lo hi hty m1 m2 hg
      rw [ceil_int_sub h0 h1, floor_int_add h0 h1] at hne
      rw [← hn]
      simp only [Analyzer.varBounds, hg, Option.getD_some, Ordered, Ext.le, ef_le, decide_eq_true_eq]
      exact_mod_cast hne

/-- what `apply_to_domain` publishes for an integer variable after `enforceable`: exactly its (integral) box, or the
declared range when the box holds no integer. -/
theorem applyToVar_int_after_enforceable {domain : List (DomVar (Ext K))} (hok : DeclOK domain)
    (cs : List (Constraint (Ext K))) {t : K} (h0 : 0 ≤ t) (h1 : t < 1) (maxSteps : Nat)
    {d : DomVar (Ext K)} (hd : d ∈ domain) {lo hi : Int} (hty : d.ty = .int lo hi) :
    ∃ m1 m2 : Int, lo ≤ m1 ∧ m2 ≤ hi ∧
      AList.get? ((Analyzer.analyze domain cs (.fin t) maxSteps).enforceable domain).variableBounds d.name
        = some ⟨.fin (m1 : K), .fin (m2 : K)⟩ ∧
      (((Analyzer.analyze domain cs (.fin t) maxSteps).enforceable domain).applyToVar d).ty
        = if m1 ≤ m2 then .int m1 m2 else .int lo hi := by
  obtain ⟨hZ, _⟩ := enforceable_shape domain cs h0 h1 maxSteps hok.nodup
  obtain ⟨m1, m2, hg, hl, hu⟩ := hZ d hd lo hi hty
  obtain ⟨hlo, hhi⟩ := hok.i32 d hd lo hi hty
  have htol : ((Analyzer.analyze domain cs (.fin t) maxSteps).enforceable domain).tolerance = .fin t := by
    rw [enforceable_tol]
    unfold Analyzer.analyze Analyzer.propagate
    exact propagateLoop_tolerance _ _ _ _ _ _ _
  refine ⟨m1, m2, hl, hu, hg, ?_⟩
  unfold Analyzer.applyToVar
  have hr := round_fin (m1 : K) (m2 : K) t
  simp only [Bounds.mk.injEq] at hr
  simp only [hg, hty, htol, hr.1, hr.2, ceil_int_sub h0 h1, floor_int_add h0 h1, toI32_int]
  have clamp_id : ∀ m : Int, i32Min ≤ m → m ≤ i32Max → Ext.clampInt i32Min i32Max m = m := by
    intro m ha hb
    unfold Ext.clampInt
    rw [if_neg (by omega), if_neg (by omega)]
  by_cases h12 : m1 ≤ m2
  · have hgt : Arith.gt (Ext.fin ((m1 : Int) : K)) (Ext.fin ((m2 : Int) : K)) = false := by
      simp [Arith.gt, Arith.lt, Ext.lt, h12]
    simp only [hgt, Bool.false_eq_true, if_false, h12, if_true, clamp_id m1 (by omega) (by omega),
      clamp_id m2 (by omega) (by omega)]
  · have hgt : Arith.gt (Ext.fin ((m1 : Int) : K)) (Ext.fin ((m2 : Int) : K)) = true := by
      simp only [Arith.gt, Arith.lt, Ext.lt, ef_lt, decide_eq_true_eq]
      exact_mod_cast (not_le.1 h12)
    simp only [hgt, if_true, h12, if_false, hty]

/-- a range that contains a number has neither `lower = +inf` nor `upper = −inf` nor a NaN end point. -/
theorem mem_proper {x : K} {b : Bounds (Ext K)} (h : Mem x b) :
    b.lower ≠ .nan ∧ b.lower ≠ .pinf ∧ b.upper ≠ .nan ∧ b.upper ≠ .ninf := by
  obtain ⟨lo, hi⟩ := b
  obtain ⟨h1, h2⟩ := h
  cases lo <;> cases hi <;> simp_all [Ext.le]

end Rooc.LinP
