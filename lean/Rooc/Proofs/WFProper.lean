/-
C08 helpers — over `Ext K`, `K` a linearly ordered field, with `p = isFinite`: the arithmetic of `Bounds`
keeps ranges PROPER (lower end finite or `−inf`, upper end finite or `+inf`; in particular no NaN), i.e. the
axioms `BAx` of `WFInv` hold.
-/
import Rooc.Proofs.WFFinal
import Rooc.Proofs.Field

set_option linter.unusedSectionVars false
set_option linter.unusedSimpArgs false

namespace Rooc
namespace Lin
open Arith
variable {K : Type} [Field K] [LinearOrder K] [IsStrictOrderedRing K] [FloorRing K]

noncomputable abbrev fin? : Ext K → Bool := fun a => Arith.isFinite a

theorem LOK_iff (a : Ext K) : LOK fin? a ↔ (∃ x, a = .fin x) ∨ a = .ninf := by
  cases a <;> simp [LOK, fin?, Arith.isFinite, Ext.isFinite, Arith.eq, Ext.eq, Arith.negInf]

theorem UOK_iff (a : Ext K) : UOK fin? a ↔ (∃ x, a = .fin x) ∨ a = .pinf := by
  cases a <;> simp [UOK, fin?, Arith.isFinite, Ext.isFinite, Arith.eq, Ext.eq, Arith.posInf]

theorem sgn_pos {c : K} (h : 0 < c) : Ext.sgn c = 1 := by
  simp [Ext.sgn, h, not_lt.mpr h.le]
theorem sgn_neg {c : K} (h : c < 0) : Ext.sgn c = -1 := by
  simp [Ext.sgn, h]

theorem bax_isFinite : BAx (α := Ext K) fin? where
  unbL := (LOK_iff _).mpr (Or.inr rfl)
  unbU := (UOK_iff _).mpr (Or.inr rfl)
  negL a h := by
    rw [LOK_iff] at h; rw [UOK_iff]
    rcases h with ⟨x, rfl⟩ | rfl
    · exact Or.inl ⟨-x, rfl⟩
    · exact Or.inr rfl
  negU a h := by
    rw [UOK_iff] at h; rw [LOK_iff]
    rcases h with ⟨x, rfl⟩ | rfl
    · exact Or.inl ⟨-x, rfl⟩
    · exact Or.inr rfl
  lsum a b ha hb := by
    rw [LOK_iff] at ha hb ⊢
    rcases ha with ⟨x, rfl⟩ | rfl <;> rcases hb with ⟨y, rfl⟩ | rfl <;>
      simp [Bounds.lowerSum, Arith.add, Ext.add, Arith.isNaN, Ext.isNaN, Arith.negInf]
  usum a b ha hb := by
    rw [UOK_iff] at ha hb ⊢
    rcases ha with ⟨x, rfl⟩ | rfl <;> rcases hb with ⟨y, rfl⟩ | rfl <;>
      simp [Bounds.upperSum, Arith.add, Ext.add, Arith.isNaN, Ext.isNaN, Arith.posInf]
  scale b c hb hc := by
    obtain ⟨lo, hi⟩ := b
    obtain ⟨hl, hu⟩ := hb
    rw [LOK_iff] at hl; rw [UOK_iff] at hu
    cases c with
    | fin c =>
      unfold Bounds.scale BP
      rw [LOK_iff, UOK_iff]
      by_cases h0 : c = 0
      · simp [h0, Arith.eq, Ext.eq, Arith.zero, Arith.ofInt, Bounds.singleton]
      · rcases lt_or_gt_of_ne h0 with hneg | hpos
        · have hng : ¬ (0 < c) := not_lt.mpr hneg.le
          rcases hl with ⟨x, rfl⟩ | rfl <;> rcases hu with ⟨y, rfl⟩ | rfl <;>
            simp [h0, hng, hneg, Arith.eq, Ext.eq, Arith.zero, Arith.ofInt, Arith.gt, Arith.lt, Ext.lt, Arith.mul,
              Ext.mul, Ext.sign, Ext.ofSign, sgn_neg hneg]
        · rcases hl with ⟨x, rfl⟩ | rfl <;> rcases hu with ⟨y, rfl⟩ | rfl <;>
            simp [h0, hpos, Arith.eq, Ext.eq, Arith.zero, Arith.ofInt, Arith.gt, Arith.lt, Ext.lt, Arith.mul,
              Ext.mul, Ext.sign, Ext.ofSign, sgn_pos hpos]
    | nan => simp [fin?, Arith.isFinite, Ext.isFinite] at hc
    | pinf => simp [fin?, Arith.isFinite, Ext.isFinite] at hc
    | ninf => simp [fin?, Arith.isFinite, Ext.isFinite] at hc
  divBy b d hb hd := by
    obtain ⟨lo, hi⟩ := b
    obtain ⟨hl, hu⟩ := hb
    rw [LOK_iff] at hl; rw [UOK_iff] at hu
    cases d with
    | fin c =>
      unfold Bounds.divBy BP
      rw [LOK_iff, UOK_iff]
      by_cases h0 : c = 0
      · simp [h0, Arith.eq, Ext.eq, Arith.zero, Arith.ofInt, Bounds.unbounded, Arith.negInf, Arith.posInf]
      · rcases lt_or_gt_of_ne h0 with hneg | hpos
        · have hng : ¬ (0 < c) := not_lt.mpr hneg.le
          rcases hl with ⟨x, rfl⟩ | rfl <;> rcases hu with ⟨y, rfl⟩ | rfl <;>
            simp [h0, hng, hneg, Arith.eq, Ext.eq, Arith.zero, Arith.ofInt, Arith.gt, Arith.lt, Ext.lt, Arith.div,
              Ext.div, Ext.sign, Ext.ofSign, sgn_neg hneg]
        · rcases hl with ⟨x, rfl⟩ | rfl <;> rcases hu with ⟨y, rfl⟩ | rfl <;>
            simp [h0, hpos, Arith.eq, Ext.eq, Arith.zero, Arith.ofInt, Arith.gt, Arith.lt, Ext.lt, Arith.div,
              Ext.div, Ext.sign, Ext.ofSign, sgn_pos hpos]
    | nan => simp [fin?, Arith.isFinite, Ext.isFinite] at hd
    | pinf => simp [fin?, Arith.isFinite, Ext.isFinite] at hd
    | ninf => simp [fin?, Arith.isFinite, Ext.isFinite] at hd
  abs b hb := by
    obtain ⟨lo, hi⟩ := b
    obtain ⟨hl, hu⟩ := hb
    rw [LOK_iff] at hl; rw [UOK_iff] at hu
    unfold Bounds.abs BP
    rw [LOK_iff, UOK_iff]
    rcases hl with ⟨x, rfl⟩ | rfl <;> rcases hu with ⟨y, rfl⟩ | rfl <;>
      simp only [Arith.ge, Arith.le, Ext.le, Arith.zero, Arith.ofInt, ef_le, ef_ofInt, Int.cast_zero] <;>
      split <;> (try split) <;>
      simp [Bounds.neg, Arith.neg, Ext.neg, Arith.fmax, Ext.fmax, Ext.isNaN, Ext.lt] <;>
      (try split) <;> simp
  fminL a b ha hb := by
    rw [LOK_iff] at ha hb ⊢
    rcases ha with ⟨x, rfl⟩ | rfl <;> rcases hb with ⟨y, rfl⟩ | rfl <;>
      simp [Arith.fmin, Ext.fmin, Ext.isNaN, Ext.lt] <;> (try split) <;> simp
  fminU a b ha hb := by
    rw [UOK_iff] at ha hb ⊢
    rcases ha with ⟨x, rfl⟩ | rfl <;> rcases hb with ⟨y, rfl⟩ | rfl <;>
      simp [Arith.fmin, Ext.fmin, Ext.isNaN, Ext.lt] <;> (try split) <;> simp
  fmaxL a b ha hb := by
    rw [LOK_iff] at ha hb ⊢
    rcases ha with ⟨x, rfl⟩ | rfl <;> rcases hb with ⟨y, rfl⟩ | rfl <;>
      simp [Arith.fmax, Ext.fmax, Ext.isNaN, Ext.lt] <;> (try split) <;> simp
  fmaxU a b ha hb := by
    rw [UOK_iff] at ha hb ⊢
    rcases ha with ⟨x, rfl⟩ | rfl <;> rcases hb with ⟨y, rfl⟩ | rfl <;>
      simp [Arith.fmax, Ext.fmax, Ext.isNaN, Ext.lt] <;> (try split) <;> simp
  absHi b hb h1 h2 := by
    obtain ⟨lo, hi⟩ := b
    obtain ⟨hl, hu⟩ := hb
    rw [LOK_iff] at hl; rw [UOK_iff] at hu
    rw [UOK_iff]
    rcases hl with ⟨x, rfl⟩ | rfl <;> rcases hu with ⟨y, rfl⟩ | rfl <;>
      simp [Arith.neg, Ext.neg, Arith.fmax, Ext.fmax, Ext.isNaN, Ext.lt] <;> (try split) <;> simp
  le00 := by simp [Arith.le, Ext.le, Arith.zero, Arith.ofInt]

/-! ### every domain entry of the compiled model is a proper range -/

/-- every type of the domain is proper: `Real(lo, hi)`: `lo` finite or `−inf`, `hi` finite or `+inf`;
`NonNegativeReal(lo, hi)`: `lo` finite and `0 ≤ lo`, `hi` finite or `+inf` (Boolean / integer types: nothing). -/
def DomainProper (d : List (DomVar (Ext K))) : Prop := ∀ v ∈ d, TP fin? v.ty

/-- every variable's range in the bounds map is proper (a variable without an entry is unbounded: proper). -/
def BoundsProper (b : BoundsMap (Ext K)) : Prop := ∀ x, BP fin? (varBounds b x)

/-- **the lowering keeps domains well-formed**: if the tightened source domain and the bounds map handed to the
linearizer are proper and the source has no non-finite literal, EVERY domain entry of the compiled model —
source variables and `$` auxiliaries (`$abs_k : NonNegativeReal(0, max(−lo, hi))`, `$min_k / $max_k : Real(lo, hi)`
with the derived range of the retained operands, Booleans) — is proper: no NaN end, no `Real(+inf, _)`,
no `Real(_, −inf)`, `NonNegativeReal` lower ends finite and non-negative. -/
theorem domain_good [BCfg (Ext K)] (htr : BCfg.track (Ext K) = true) (hex : ExAx (α := Ext K) fin?)
    {m : Model (Ext K)} {b : BoundsMap (Ext K)} {d : List (DomVar (Ext K))}
    {lm : LinModel (Ext K)} (hfin : FiniteLits m = true) (hb : ∀ x, BPx fin? (varBounds b x))
    (hd : ∀ v ∈ d, TPx fin? v.ty) (h : linearizeWith m b d = .ok lm) : ∀ v ∈ lm.domain, TPx fin? v.ty := by
  have hp := closed_isFinite K
  have hfin' := hfin
  simp only [FiniteLits, Bool.and_eq_true] at hfin'
  obtain ⟨obj, s, _, hI, _, rfl⟩ :=
    linearizeWith_run (N := fun _ => True) trivial hp (simpOK_of_closed hp) (fun _ => ⟨bax_isFinite, hex⟩) hfin'.1
      ⟨stOK_init_of_finiteLits b d hfin, fun _ => ⟨hb, hd⟩⟩ h
  intro v hv
  exact (hI.2 htr).2 v (List.mem_filter.mp hv).1

theorem domain_proper {m : Model (Ext K)} {b : BoundsMap (Ext K)} {d : List (DomVar (Ext K))}
    {lm : LinModel (Ext K)} (hfin : FiniteLits m = true) (hb : BoundsProper b) (hd : DomainProper d)
    (h : linearizeWith m b d = .ok lm) : DomainProper lm.domain := by
  let _ : BCfg (Ext K) := { track := true }
  have hex : ExAx (α := Ext K) fin? :=
    ⟨fun _ _ _ => trivial, fun _ _ _ _ => trivial, trivial, fun _ _ _ => trivial, fun _ _ => trivial⟩
  intro v hv
  exact (domain_good rfl hex hfin (fun x => ⟨hb x, trivial⟩) (fun v hv => ⟨hd v hv, trivial⟩) h v hv).1

/-- the same, unfolded into the three clauses downstream stages use. -/
theorem domain_proper_clauses {d : List (DomVar (Ext K))} (h : DomainProper d) :
    (∀ v ∈ d, ∀ lo hi, v.ty = .real lo hi → (lo = .ninf ∨ ∃ x, lo = .fin x) ∧ (hi = .pinf ∨ ∃ x, hi = .fin x)) ∧
    (∀ v ∈ d, ∀ lo hi, v.ty = .nnreal lo hi → (∃ x, lo = .fin x) ∧ (hi = .pinf ∨ ∃ x, hi = .fin x)) ∧
    (∀ v ∈ d, ∀ lo hi, v.ty = .nnreal lo hi → Ext.le (.fin 0) lo = true) := by
  refine ⟨?_, ?_, ?_⟩
  · intro v hv lo hi hty
    have := h v hv
    rw [hty] at this
    obtain ⟨h1, h2⟩ := this
    rw [LOK_iff] at h1; rw [UOK_iff] at h2
    exact ⟨h1.symm, h2.symm⟩
  · intro v hv lo hi hty
    have := h v hv
    rw [hty] at this
    obtain ⟨h1, _, h3⟩ := this
    rw [UOK_iff] at h3
    refine ⟨?_, h3.symm⟩
    cases lo <;> simp [fin?, Arith.isFinite, Ext.isFinite] at h1 ⊢
  · intro v hv lo hi hty
    have := h v hv
    rw [hty] at this
    have h2 := this.2.1
    simpa [Arith.le, Arith.zero, Arith.ofInt] using h2

end Lin
end Rooc
