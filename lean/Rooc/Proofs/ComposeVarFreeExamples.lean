/-
A source model WITHOUT variables (`min 3`) through the whole pipeline, every tolerance and step limit: the compiled
model is variable-free, so `auto_solver` answers without consulting the external solver (`Compose.solverSpec_varFree`).
-/
import Rooc.Proofs.ComposeSolverExamples
import Rooc.Proofs.ComposeWF

set_option linter.unusedSectionVars false
set_option linter.unusedSimpArgs false
set_option linter.unusedVariables false

namespace Rooc.Compose
open Rooc Rooc.Lin Rooc.Sem Rooc.LinP Rooc.Exp Rooc.SolverWrap
variable {K : Type} [Field K] [LinearOrder K] [IsStrictOrderedRing K] [FloorRing K]

/-- `min 3` — no variable, no constraint. -/
def exConst : Model (Ext K) := { optType := .min, objective := .num (.fin 3), constraints := [], domain := [] }

def lmConst : LinModel (Ext K) :=
  { optType := .min, objective := [], offset := .fin 3, vars := [], domain := [], rows := [] }

theorem exConst_lin (b : BoundsMap (Ext K)) : linearizeWith (exConst : Model (Ext K)) b [] = .ok lmConst := by
  let s0 : St (Ext K) := { queue := [], domain := [], bounds := b }
  refine (linearizeWith_ok_iff _ _ _ _).mpr
    ⟨.num (.fin 3), s0, Ctx.fromRhs (.fin 3), s0, s0, ?_, ?_, ?_, ?_⟩
  · simp [simplifyFlat, normalizeExp, flattenFuel, flattenF, simplify, pure_ok, exConst, s0]
  · simp [linExp, pure_ok]
  · have h1 : drainFuel = 999999 + 1 := rfl
    rw [h1, drain_succ]
    simp [LinP.bind_ok, LinP.get_ok, LinP.pure_ok, s0]
  · simp [LinP.assemble, Ctx.addRhs, Arith.add, Ext.add, lmConst, exConst, s0, dedupNames, sortStr, extractCoeffs, Ctx.fromRhs, Ctx.new]

theorem exConst_compile (tol : Ext K) (n : Nat) : Compile.linearize (exConst : Model (Ext K)) tol n = .ok lmConst := by
  refine (compile_ok_iff _ _ _ _).mpr ⟨scratchOK_of_fragCheck _ _ (by simp [fragCheck, exConst, frag, fragList]),
    (Analyzer.analyze [] [] tol n).enforceable [], ?_, ?_⟩
  · simp [pipelineAnalyzer, Compile.normalizedForBounds, exConst]
  · simp only [exConst, Analyzer.applyToDomain, List.map_nil]
    exact exConst_lin _

theorem exConst_frag : FragModel true (exConst : Model (Ext K)) (exConst : Model (Ext K)).domain :=
  ⟨FG_num _, fun ρ => ⟨3, by simp [exConst, eval]⟩, fun c hc => by simp [exConst] at hc⟩

theorem exConst_declOK : DeclOK (exConst : Model (Ext K)).domain :=
  ⟨by simp [exConst], by simp [exConst], by simp [exConst], by simp [exConst], by simp [exConst]⟩

end Rooc.Compose
