/-
Discharge of `ComposeWF.DomainFormat lm` — the last hypothesis the simplex composition puts on the COMPILED model —
from hypotheses on the SOURCE: every declared range is proper (`Lin.DomainProper m.domain`) and there is no
non-finite literal (`FiniteLits m`).  Uses `APr.compile_domain_proper` (`Rooc/Proofs/WFAnalyzerProper.lean`):
bound inference publishes proper ranges and the lowering declares auxiliaries with proper ranges.
-/
import Rooc.Proofs.ComposeWF
import Rooc.Proofs.WFAnalyzerProper

set_option linter.unusedSectionVars false

namespace Rooc.ComposeWF
open Rooc Rooc.Lin
variable {K : Type} [Field K] [LinearOrder K] [IsStrictOrderedRing K] [FloorRing K]

theorem isFin_of_fin {a : Ext K} (h : ∃ x, a = .fin x) : StdSem.isFin a := by
  obtain ⟨x, rfl⟩ := h; trivial

/-- a proper domain is in the format the standardizer's theorems need. -/
theorem domainFormat_of_proper {lm : LinModel (Ext K)} (h : DomainProper lm.domain) : DomainFormat lm := by
  obtain ⟨h1, h2, h3⟩ := domain_proper_clauses h
  refine ⟨?_, ?_, ?_⟩
  · intro d hd lo hi hty
    obtain ⟨a, b⟩ := h1 d hd lo hi hty
    exact ⟨a.imp id isFin_of_fin, b.imp id isFin_of_fin⟩
  · intro d hd lo hi hty
    obtain ⟨a, b⟩ := h2 d hd lo hi hty
    exact ⟨isFin_of_fin a, b.imp id isFin_of_fin⟩
  · intro d hd
    cases hty : d.ty with
    | nnreal lo hi => exact h3 d hd lo hi hty
    | _ => trivial

/-- **`DomainFormat` of the compiled model from the source**: proper declared ranges + finite literals. -/
theorem domainFormat_of_compile {m : Model (Ext K)} {t : K} {maxSteps : Nat} {lm : LinModel (Ext K)}
    (hdecl : DomainProper m.domain) (hfin : FiniteLits m = true)
    (h : Compile.linearize m (.fin t) maxSteps = .ok lm) : DomainFormat lm :=
  domainFormat_of_proper (APr.compile_domain_proper hdecl hfin h)

end Rooc.ComposeWF
