/-
The tail of `into_tableau_two_phase`, part 2: the drive-out loop as a whole.
-/
import Rooc.Proofs.TwoPhase1
namespace Rooc
namespace TwoPhase
variable {K : Type} [Field K] [LinearOrder K] [IsStrictOrderedRing K]
attribute [local instance] exactArith
open Tableau TabSem PivotLemmas BasicSol Phase1

/-- invariant of the drive-out loop before row `r` is looked at: `X` (matrix, right-hand side, basis; its cost row is
not touched by the loop and irrelevant) is a rectangular tableau with unit basic columns, equivalent to the phase-1
result `P`, with the SAME right-hand side (all pivots are degenerate); rows not yet visited still have their basic
variable of `P`; rows marked for dropping have right-hand side 0. -/
structure DO (P : Tab K) (m N : Nat) (r : Nat) (X : Tab K) (drop : List Nat) : Prop where
  rect : Rect X m N
  unit : UnitCols X
  inRange : BasisInRange X
  sol : ∀ x, Sol X x ↔ Sol P x
  bsame : ∀ i, nth X.b i = nth P.b i
  rest : ∀ r', r ≤ r' → r' < m → X.basis.getD r' 0 = P.basis.getD r' 0
  dropz : ∀ r' ∈ drop, r' < m ∧ nth P.b r' = 0

theorem find_range_spec {n : Nat} {p : Nat → Bool} {col : Nat} (h : (List.range n).find? p = some col) :
    col < n ∧ p col = true := by
  have h1 := List.find?_some h
  have h2 := List.mem_of_find?_eq_some h
  exact ⟨List.mem_range.1 h2, h1⟩

/-- **the drive-out loop**: its result is the matrix / right-hand side / basis of a tableau that still satisfies the
invariant (now for all rows). -/
theorem driveOut_spec {tol : K} (ht : 0 < tol) {P : Tab K} {m n : Nat}
    (hA : ∀ r, r < m → n ≤ P.basis.getD r 0 → nth P.b r = 0) :
    ∀ (k r : Nat) (X : Tab K) (drop : List Nat), r + k = m → DO P m (n + m) r X drop →
      ∃ (Y : Tab K) (drop' : List Nat), driveOut tol n k r X.a X.b X.basis drop = (Y.a, Y.b, Y.basis, drop') ∧
        DO P m (n + m) m Y drop'
  | 0, r, X, drop, hr, hI => ⟨X, drop, by simp [driveOut], by
      have : r = m := by omega
      subst this; exact hI⟩
  | k+1, r, X, drop, hr, hI => by
    have hrm : r < m := by omega
    unfold driveOut
    by_cases hb : X.basis.getD r 0 < n
    · rw [if_pos hb]
      exact driveOut_spec ht hA k (r+1) X drop (by omega)
        ⟨hI.rect, hI.unit, hI.inRange, hI.sol, hI.bsame, fun r' h1 h2 => hI.rest r' (by omega) h2, hI.dropz⟩
    · rw [if_neg hb]
      have hart : n ≤ P.basis.getD r 0 := by rw [← hI.rest r (le_refl _) hrm]; omega
      have hbr : nth X.b r = 0 := by rw [hI.bsame]; exact hA r hrm hart
      cases hf : (List.range n).find? (fun j => Tol.fne tol (nth (row X.a r) j) Arith.zero) with
      | none =>
        simp only
        exact driveOut_spec ht hA k (r+1) X (drop ++ [r]) (by omega)
          ⟨hI.rect, hI.unit, hI.inRange, hI.sol, hI.bsame, fun r' h1 h2 => hI.rest r' (by omega) h2, by
            intro r' hr'
            rcases List.mem_append.1 hr' with h | h
            · exact hI.dropz r' h
            · simp only [List.mem_singleton] at h; subst h; exact ⟨hrm, hA _ hrm hart⟩⟩
      | some col =>
        simp only
        obtain ⟨hcol, hne⟩ := find_range_spec hf
        have hp : nth (row X.a r) col ≠ 0 := by
          have := (ExactK.fne_iff tol _ 0).1 (by simpa using hne)
          intro h0
          rw [h0] at this
          simp at this
          exact absurd ht (not_lt.2 this)
        obtain ⟨ea, eb, ebasis⟩ := driveStep_eq X r col
        rw [ea, eb, ebasis]
        refine driveOut_spec ht hA k (r+1) (pivot X r col) drop (by omega) ⟨pivot_rect hI.rect hrm,
          pivot_unit hI.rect hI.unit hrm hp, pivot_inRange hI.rect hI.inRange hrm (by omega),
          fun x => (pivot_sol hI.rect hrm hp x).trans (hI.sol x), ?_, ?_, hI.dropz⟩
        · intro i
          by_cases hi : i < X.b.length
          · rw [pivot_b X r col hi, hbr, ← hI.bsame i]
            by_cases e : i = r
            · subst e; simp [hbr]
            · simp [e]
          · have hle : X.b.length ≤ i := Nat.le_of_not_lt hi
            have h1 : nth (pivot X r col).b i = 0 := by
              have : (pivot X r col).b[i]? = none := List.getElem?_eq_none (by rw [pivot_b_length]; exact hle)
              simp [nth, List.getD_eq_getElem?_getD, this]
            have h2 : nth X.b i = 0 := by
              have : X.b[i]? = none := List.getElem?_eq_none hle
              simp [nth, List.getD_eq_getElem?_getD, this]
            rw [h1, ← hI.bsame i, h2]
        · intro r' h1 h2
          rw [pivot_basis_get X r col r' (by rw [hI.rect.basis]; exact h2), if_neg (by omega)]
          exact hI.rest r' (by omega) h2

end TwoPhase
end Rooc
