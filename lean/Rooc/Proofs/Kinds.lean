/-
Helper lemmas for `Props/C19.lean`: the static operator rules do not separate the kinds of one numeric
class, and the operator core returns proper scalar values.
-/
import Rooc.Pre.Prim
import Rooc.Pre.Types
namespace Rooc.Proofs.Kinds
set_option linter.unusedSectionVars false
open Rooc Rooc.Pre
variable {α : Type} [Arith α]

theorem class_isNumeric {r r' : Kind} (h : kindClass r = kindClass r') : r.isNumeric = r'.isNumeric := by
  cases r <;> cases r' <;> simp_all [kindClass, Kind.isNumeric]
theorem class_isBool {r r' : Kind} (h : kindClass r = kindClass r') : (r == Kind.boolean) = (r' == Kind.boolean) := by
  cases r <;> cases r' <;> simp_all [kindClass, BEq.beq, Kind.beq]
theorem class_isString {r r' : Kind} (h : kindClass r = kindClass r') : (r == Kind.string) = (r' == Kind.string) := by
  cases r <;> cases r' <;> simp_all [kindClass, BEq.beq, Kind.beq]

theorem canBin_class_right (l : Kind) (op : BinOp) {r r' : Kind} (h : kindClass r = kindClass r') :
    l.canApplyBinary op r = l.canApplyBinary op r' := by
  have h1 := class_isNumeric h; have h2 := class_isBool h; have h3 := class_isString h
  cases l <;> simp [Kind.canApplyBinary, canBinArith, canBinBool, canBinString, h1, h2] <;> cases op <;> simp [h3]
theorem canBin_class_left {l l' : Kind} (op : BinOp) (r : Kind) (h : kindClass l = kindClass l') :
    l.canApplyBinary op r = l'.canApplyBinary op r := by
  cases l <;> cases l' <;> simp_all [kindClass, Kind.canApplyBinary]
theorem canUn_class {k k' : Kind} (op : UnOp) (h : kindClass k = kindClass k') : k.canApplyUnary op = k'.canApplyUnary op := by
  cases k <;> cases k' <;> simp_all [kindClass, Kind.canApplyUnary]
theorem unResult_class {k k' : Kind} (op : UnOp) (h : kindClass k = kindClass k') :
    kindClass (unResultKind op k) = kindClass (unResultKind op k') := by
  cases op <;> cases k <;> cases k' <;> simp_all [kindClass, unResultKind]

/-- the numeric class of an arithmetic result does not depend on which numeric kinds the operands have -/
theorem binResult_class_eq (l : Kind) (op : BinOp) (r : Kind) :
    kindClass (binResultKind l op r) =
      if isLogic op then .boolean
      else match l with
        | .integer | .pint | .number => .number
        | .boolean => if r.isNumeric then .number else .boolean
        | l => kindClass l := by
  cases l <;> cases op <;> simp [binResultKind, isLogic, Kind.isNumeric, kindClass, BEq.beq, Kind.beq] <;>
    cases r <;> simp [Kind.isNumeric, kindClass, Kind.beq]
theorem binResult_class {l l' r r' : Kind} (op : BinOp) (hl : kindClass l = kindClass l') (hr : kindClass r = kindClass r') :
    kindClass (binResultKind l op r) = kindClass (binResultKind l' op r') := by
  rw [binResult_class_eq, binResult_class_eq, class_isNumeric hr]
  cases l <;> cases l' <;> simp_all [kindClass]

theorem applyBinary_proper (a b : Prim α) (op : BinOp) (v : Prim α) (he : applyBinary a op b = .ok v) : v.proper = true := by
  cases a with
  | other k => cases k <;> simp_all [applyBinary]
  | number x =>
    cases b <;> cases op <;> simp_all [applyBinary, applyBinNumber, floatArith, checkedDiv] <;>
      (try (split at he <;> simp_all)) <;> (try (subst he; rfl))
  | integer i =>
    cases b <;> cases op <;> simp_all [applyBinary, applyBinInteger, floatArith, checkedDiv, ofI64] <;>
      (try (split at he <;> simp_all)) <;> (try (subst he; rfl))
  | pint u =>
    cases b <;> cases op <;> simp_all [applyBinary, applyBinPint, floatArith, checkedDiv, ofI64, ofU64] <;>
      (try (split at he <;> simp_all)) <;> (try (subst he; rfl))
  | boolean x =>
    cases b <;> cases op <;> simp_all [applyBinary, applyBinBoolean, isLogic, applyBinNumber, floatArith, checkedDiv] <;>
      (try (split at he <;> simp_all)) <;> (try (subst he; rfl))
  | string s => cases b <;> cases op <;> simp_all [applyBinary, applyBinString] <;> (try (subst he; rfl))
theorem applyUnary_proper (a : Prim α) (op : UnOp) (v : Prim α) (he : applyUnary op a = .ok v) : v.proper = true := by
  cases a with
  | other k => cases k <;> simp_all [applyUnary]
  | integer i => cases op <;> simp_all [applyUnary, ofI64]; split at he <;> simp_all; subst he; rfl
  | pint u => cases op <;> simp_all [applyUnary, ofI64]; split at he <;> simp_all; subst he; rfl
  | boolean b => cases op <;> simp_all [applyUnary] <;> (subst he; rfl)
  | number x => cases op <;> simp_all [applyUnary]; subst he; rfl
  | string s => cases op <;> simp_all [applyUnary]

/-! ### the operator core (restated as the property theorems of `Props/C19.lean`) -/

theorem progress_binary (a b : Prim α) (op : BinOp) (h : a.kind.canApplyBinary op b.kind = true)
    (ha : a.proper = true) (hb : b.proper = true)
    (c : OpErr) (he : applyBinary a op b = .error c) : c = .divisionByZero ∨ c = .overflow := by
  cases a with
  | other k => cases k <;> simp_all [Prim.kind, Kind.canApplyBinary, Prim.proper, Kind.isOther]
  | number x =>
    cases b <;> cases op <;>
      simp_all [Prim.kind, Kind.canApplyBinary, canBinArith, isLogic, Kind.isNumeric, applyBinary, applyBinNumber, floatArith, checkedDiv] <;>
      (try (split at he <;> simp_all))
    all_goals (rename_i k; cases k <;> simp_all [Kind.isNumeric, Prim.proper, Kind.isOther])
  | integer i =>
    cases b <;> cases op <;>
      simp_all [Prim.kind, Kind.canApplyBinary, canBinArith, isLogic, Kind.isNumeric, applyBinary, applyBinInteger, floatArith, checkedDiv, ofI64] <;>
      (try (split at he <;> simp_all))
    all_goals (rename_i k; cases k <;> simp_all [Kind.isNumeric, Prim.proper, Kind.isOther])
  | pint u =>
    cases b <;> cases op <;>
      simp_all [Prim.kind, Kind.canApplyBinary, canBinArith, isLogic, Kind.isNumeric, applyBinary, applyBinPint, floatArith, checkedDiv, ofI64, ofU64] <;>
      (try (split at he <;> simp_all))
    all_goals (rename_i k; cases k <;> simp_all [Kind.isNumeric, Prim.proper, Kind.isOther])
  | boolean x =>
    cases b <;> cases op <;>
      simp_all [Prim.kind, Kind.canApplyBinary, canBinBool, isLogic, Kind.isNumeric, applyBinary, applyBinBoolean, applyBinNumber, floatArith, checkedDiv, BEq.beq, Kind.beq] <;>
      (try (split at he <;> simp_all))
    all_goals (rename_i k; cases k <;> simp_all [Kind.isNumeric, Kind.beq, Prim.proper, Kind.isOther])
  | string s =>
    cases b <;> cases op <;>
      simp_all [Prim.kind, Kind.canApplyBinary, canBinString, applyBinary, applyBinString, BEq.beq, Kind.beq]
    all_goals (rename_i k; cases k <;> simp_all [Kind.beq, Prim.proper, Kind.isOther])

theorem preservation_binary (a b : Prim α) (op : BinOp) (ha : a.proper = true) (hb : b.proper = true)
    (v : Prim α) (he : applyBinary a op b = .ok v) : v.kind = binResultKind a.kind op b.kind := by
  cases a with
  | other k => cases k <;> simp_all [applyBinary]
  | number x =>
    cases b <;> cases op <;>
      simp_all [Prim.kind, binResultKind, isLogic, Kind.isNumeric, applyBinary, applyBinNumber, floatArith, checkedDiv, BEq.beq, Kind.beq] <;>
      (try (split at he <;> simp_all)) <;> (try (subst he; rfl))
  | integer i =>
    cases b <;> cases op <;>
      simp_all [Prim.kind, binResultKind, isLogic, Kind.isNumeric, applyBinary, applyBinInteger, floatArith, checkedDiv, ofI64, BEq.beq, Kind.beq] <;>
      (try (split at he <;> simp_all)) <;> (try (subst he; rfl))
  | pint u =>
    cases b <;> cases op <;>
      simp_all [Prim.kind, binResultKind, isLogic, Kind.isNumeric, applyBinary, applyBinPint, floatArith, checkedDiv, ofI64, ofU64, BEq.beq, Kind.beq] <;>
      (try (split at he <;> simp_all)) <;> (try (subst he; rfl))
  | boolean x =>
    cases b <;> cases op <;>
      simp_all [Prim.kind, binResultKind, isLogic, Kind.isNumeric, applyBinary, applyBinBoolean, applyBinNumber, floatArith, checkedDiv, BEq.beq, Kind.beq] <;>
      (try (split at he <;> simp_all)) <;> (try (subst he; rfl))
  | string s =>
    cases b <;> cases op <;>
      simp_all [Prim.kind, binResultKind, isLogic, Kind.isNumeric, applyBinary, applyBinString, BEq.beq, Kind.beq] <;> (try (subst he; rfl))

theorem progress_unary (a : Prim α) (op : UnOp) (h : a.kind.canApplyUnary op = true) (ha : a.proper = true)
    (c : OpErr) (he : applyUnary op a = .error c) : c = .overflow := by
  cases a with
  | other k => cases k <;> simp_all [Prim.kind, Kind.canApplyUnary, Prim.proper, Kind.isOther]
  | integer i => cases op <;> simp_all [Prim.kind, Kind.canApplyUnary, applyUnary, ofI64]; split at he <;> simp_all
  | pint u => cases op <;> simp_all [Prim.kind, Kind.canApplyUnary, applyUnary, ofI64]; split at he <;> simp_all
  | _ => cases op <;> simp_all [Prim.kind, Kind.canApplyUnary, applyUnary]

theorem preservation_unary_partial (a : Prim α) (op : UnOp) (ha : a.proper = true)
    (hx : ¬ (op = .neg ∧ a.kind = .pint)) (v : Prim α) (he : applyUnary op a = .ok v) : v.kind = unResultKind op a.kind := by
  cases a with
  | other k => cases k <;> simp_all [applyUnary, Prim.proper, Kind.isOther]
  | integer i => cases op <;> simp_all [Prim.kind, applyUnary, unResultKind, ofI64]; split at he <;> simp_all; subst he; rfl
  | pint u => cases op <;> simp_all [Prim.kind, applyUnary, unResultKind]
  | boolean b => cases op <;> simp_all [Prim.kind, applyUnary, unResultKind] <;> (subst he; rfl)
  | number x => cases op <;> simp_all [Prim.kind, applyUnary, unResultKind]; subst he; rfl
  | string s => cases op <;> simp_all [Prim.kind, applyUnary, unResultKind]

theorem preservation_unary_class (a : Prim α) (op : UnOp) (ha : a.proper = true)
    (v : Prim α) (he : applyUnary op a = .ok v) : kindClass v.kind = kindClass (unResultKind op a.kind) := by
  by_cases hx : op = .neg ∧ a.kind = .pint
  · obtain ⟨rfl, hk⟩ := hx
    cases a with
    | pint u =>
      simp only [applyUnary, ofI64] at he
      split at he
      · simp at he; subst he; rfl
      · simp at he
    | other k => simp [Prim.kind] at hk; subst hk; simp [Prim.proper, Kind.isOther] at ha
    | _ => simp [Prim.kind] at hk
  · rw [preservation_unary_partial a op ha hx v he]

end Rooc.Proofs.Kinds
