/-
Helper lemmas for `Props/C19.lean`: the static operator rules do not separate the kinds of one numeric
class, and the operator core returns proper scalar values.
-/
import Rooc.Pre.Prim
import Rooc.Pre.Types
namespace Rooc.Proofs.Kinds
set_option linter.unusedSectionVars false
open Rooc Rooc.Pre
variable {α : Type} [Arith α]

theorem class_isNumeric {r r' : Kind} (h : kindClass r = kindClass r') : r.isNumeric = r'.isNumeric := by
  cases r <;> cases r' <;> simp_all [kindClass, Kind.isNumeric]
theorem class_isBool {r r' : Kind} (h : kindClass r = kindClass r') : (r == Kind.boolean) = (r' == Kind.boolean) := by
  cases r <;> cases r' <;> simp_all [kindClass, BEq.beq, Kind.beq]
theorem class_isString {r r' : Kind} (h : kindClass r = kindClass r') : (r == Kind.string) = (r' == Kind.string) := by
  cases r <;> cases r' <;> simp_all [kindClass, BEq.beq, Kind.beq]

theorem canBin_class_right (l : Kind) (op : BinOp) {r r' : Kind} (h : kindClass r = kindClass r') :
    l.canApplyBinary op r = l.canApplyBinary op r' := by
  have h1 := class_isNumeric h; have h2 := class_isBool h; have h3 := class_isString h
  cases l <;> simp [Kind.canApplyBinary, canBinArith, canBinBool, canBinString, h1, h2] <;> cases op <;> simp [h3]
theorem canBin_class_left {l l' : Kind} (op : BinOp) (r : Kind) (h : kindClass l = kindClass l') :
    l.canApplyBinary op r = l'.canApplyBinary op r := by
  cases l <;> cases l' <;> simp_all [kindClass, Kind.canApplyBinary]
theorem canUn_class {k k' : Kind} (op : UnOp) (h : kindClass k = kindClass k') : k.canApplyUnary op = k'.canApplyUnary op := by
  cases k <;> cases k' <;> simp_all [kindClass, Kind.canApplyUnary]
theorem unResult_class {k k' : Kind} (op : UnOp) (h : kindClass k = kindClass k') :
    kindClass (unResultKind op k) = kindClass (unResultKind op k') := by
  cases op <;> cases k <;> cases k' <;> simp_all [kindClass, unResultKind]

/-- the numeric class of an arithmetic result does not depend on which numeric kinds the operands have -/
theorem binResult_class_eq (l : Kind) (op : BinOp) (r : Kind) :
    kindClass (binResultKind l op r) =
      if isLogic op then .boolean
      else match l with
        | .integer | .pint | .number => .number
        | .boolean => if r.isNumeric then .number else .boolean
        | l => kindClass l := by
  cases l <;> cases op <;> simp [binResultKind, isLogic, Kind.isNumeric, kindClass, BEq.beq, Kind.beq] <;>
    cases r <;> simp [Kind.isNumeric, kindClass, Kind.beq]
theorem binResult_class {l l' r r' : Kind} (op : BinOp) (hl : kindClass l = kindClass l') (hr : kindClass r = kindClass r') :
    kindClass (binResultKind l op r) = kindClass (binResultKind l' op r') := by
  rw [binResult_class_eq, binResult_class_eq, class_isNumeric hr]
  cases l <;> cases l' <;> simp_all [kindClass]

theorem applyBinary_proper (a b : Prim α) (op : BinOp) (v : Prim α) (he : applyBinary a op b = .ok v) : v.proper = true := by
  cases a with
  | other k => cases k <;> simp_all [applyBinary]
  | number x =>
    cases b <;> cases op <;> simp_all [applyBinary, applyBinNumber, floatArith, checkedDiv] <;>
      (try (split at he <;> simp_all)) <;> (try (subst he; rfl))
  | integer i =>
    cases b <;> cases op <;> simp_all [applyBinary, applyBinInteger, floatArith, checkedDiv, ofI64] <;>
      (try (split at he <;> simp_all)) <;> (try (subst he; rfl))
  | pint u =>
    cases b <;> cases op <;> simp_all [applyBinary, applyBinPint, floatArith, checkedDiv, ofI64, ofU64] <;>
      (try (split at he <;> simp_all)) <;> (try (subst he; rfl))
  | boolean x =>
    cases b <;> cases op <;> simp_all [applyBinary, applyBinBoolean, isLogic, applyBinNumber, floatArith, checkedDiv] <;>
      (try (split at he <;> simp_all)) <;> (try (subst he; rfl))
  | string s => cases b <;> cases op <;> simp_all [applyBinary, applyBinString] <;> (try (subst he; rfl))
theorem applyUnary_proper (a : Prim α) (op : UnOp) (v : Prim α) (he : applyUnary op a = .ok v) : v.proper = true := by
  cases a with
  | other k => cases k <;> simp_all [applyUnary]
  | integer i => cases op <;> simp_all [applyUnary, ofI64]; split at he <;> simp_all; subst he; rfl
  | pint u => cases op <;> simp_all [applyUnary, ofI64]; split at he <;> simp_all; subst he; rfl
  | boolean b => cases op <;> simp_all [applyUnary] <;> (subst he; rfl)
  | number x => cases op <;> simp_all [applyUnary]; subst he; rfl
  | string s => cases op <;> simp_all [applyUnary]

end Rooc.Proofs.Kinds
