/-
Helper lemmas for C16: closed form of the builder's `toExp` (a partial leaf renaming), and the
agreement of the builder's evaluator `evalExpr` with `Sem.eval`.
-/
import Rooc.Builder
import Rooc.Proofs.ExpVars
import Rooc.Proofs.ExtArith
import Std.Data.String.ToNat
namespace Rooc
namespace Builder
open Exp

section shape
variable {α : Type}

/-- a leaf name is a decimal index into `names`. -/
def leafOk (names : List String) (s : String) : Bool :=
  match idx s with
  | some i => decide (i < names.length)
  | none => false

/-- every variable leaf of the builder expression is a valid index (decidable). -/
def inRange (names : List String) (e : Exp α) : Bool := (vars e).all (leafOk names)

/-- the renaming `toExp` applies to a leaf. -/
def rename (names : List String) (s : String) : String :=
  match idx s with
  | some i => names.getD i ""
  | none => ""

private theorem bind2 {β γ δ : Type} (A B : Bool) (a : β) (b : γ) (f : β → γ → δ) :
    ((if A = true then some a else none) >>= fun x => (if B = true then some b else none) >>= fun y =>
      pure (f x y)) = if (A && B) = true then some (f a b) else none := by
  cases A <;> cases B <;> rfl

private theorem map1 {β γ : Type} (A : Bool) (a : β) (f : β → γ) :
    (if A = true then some a else none).map f = if A = true then some (f a) else none := by
  cases A <;> rfl

mutual
/-- CLOSED FORM of `toExp`: it succeeds exactly on in-range expressions, and then it is the leaf
renaming `mapVars (rename names)` — constructors, operators, literals and list lengths untouched. -/
theorem toExp_closed (names : List String) : (e : Exp α) →
    toExp names e = if (vars e).all (leafOk names) = true then some (mapVars (rename names) e) else none
  | .num v => by simp [toExp, vars, mapVars]
  | .var s => by
    simp only [toExp, vars, mapVars, List.all_cons, List.all_nil, Bool.and_true, leafOk, rename]
    cases h : idx s with
    | none => simp
    | some i =>
      by_cases hi : i < names.length
      · simp [hi, List.getD_eq_getElem?_getD]
      · simp [hi]
  | .abs e => by rw [toExp, toExp_closed names e]; simp only [vars, mapVars]; exact map1 _ _ _
  | .min es => by rw [toExp, toExpList_closed names es]; simp only [vars, mapVars]; exact map1 _ _ _
  | .max es => by rw [toExp, toExpList_closed names es]; simp only [vars, mapVars]; exact map1 _ _ _
  | .and es => by rw [toExp, toExpList_closed names es]; simp only [vars, mapVars]; exact map1 _ _ _
  | .or es => by rw [toExp, toExpList_closed names es]; simp only [vars, mapVars]; exact map1 _ _ _
  | .not e => by rw [toExp, toExp_closed names e]; simp only [vars, mapVars]; exact map1 _ _ _
  | .xor a b => by
    rw [toExp, toExp_closed names a, toExp_closed names b]
    simp only [vars, mapVars, List.all_append]
    exact bind2 _ _ _ _ Exp.xor
  | .implies a b => by
    rw [toExp, toExp_closed names a, toExp_closed names b]
    simp only [vars, mapVars, List.all_append]
    exact bind2 _ _ _ _ Exp.implies
  | .iff a b => by
    rw [toExp, toExp_closed names a, toExp_closed names b]
    simp only [vars, mapVars, List.all_append]
    exact bind2 _ _ _ _ Exp.iff
  | .bin op a b => by
    rw [toExp, toExp_closed names a, toExp_closed names b]
    simp only [vars, mapVars, List.all_append]
    exact bind2 _ _ _ _ (Exp.bin op)
  | .un op e => by rw [toExp, toExp_closed names e]; simp only [vars, mapVars]; exact map1 _ _ _
theorem toExpList_closed (names : List String) : (es : List (Exp α)) →
    toExpList names es =
      if (varsList es).all (leafOk names) = true then some (mapVarsList (rename names) es) else none
  | [] => by simp [toExpList, varsList, mapVarsList]
  | e :: es => by
    rw [toExpList, toExp_closed names e, toExpList_closed names es]
    simp only [varsList, mapVarsList, List.all_append]
    exact bind2 _ _ _ _ List.cons
end

theorem toExp_eq_some {names : List String} {e e' : Exp α} :
    toExp names e = some e' ↔ inRange names e = true ∧ e' = mapVars (rename names) e := by
  rw [toExp_closed, inRange]
  by_cases h : (vars e).all (leafOk names) = true
  · simp only [h, if_true, Option.some.injEq, true_and]; exact eq_comm
  · simp [h]

/-- the decimal spelling of `n` is read back as the index `n` (so `idx "0" = some 0` etc.; the kernel
cannot run `String.toNat?`, this lemma is how concrete examples are evaluated). -/
theorem idx_repr (n : Nat) : idx (Nat.repr n) = some n := Nat.toNat?_repr n

theorem leafOk_iff {names : List String} {s : String} :
    leafOk names s = true ↔ ∃ i, idx s = some i ∧ i < names.length := by
  unfold leafOk
  cases idx s with
  | none => simp
  | some i => simp

theorem rename_of_idx {names : List String} {s : String} {i : Nat} (h : idx s = some i)
    (hi : i < names.length) : rename names s = names[i] := by
  simp [rename, h, List.getD_eq_getElem?_getD, hi]

theorem mem_names_of_renamed {names : List String} {e : Exp α} (hr : inRange names e = true) :
    ∀ s ∈ vars (mapVars (rename names) e), s ∈ names := by
  intro s hs
  rw [vars_mapVars, List.mem_map] at hs
  obtain ⟨t, ht, rfl⟩ := hs
  obtain ⟨i, hi, hlt⟩ := leafOk_iff.1 (List.all_eq_true.1 hr t ht)
  rw [rename_of_idx hi hlt]
  exact List.getElem_mem hlt

/-- `rename names` has a left inverse on in-range leaves when the names are pairwise distinct. -/
theorem unrename {names : List String} (hnd : names.Nodup) (g : Option Nat → String) {e : Exp α}
    (hr : inRange names e = true) :
    mapVars (fun n => g (some (names.idxOf n))) (mapVars (rename names) e) = mapVars (g ∘ idx) e := by
  rw [mapVars_mapVars]
  apply mapVars_congr
  intro s hs
  obtain ⟨i, hi, hlt⟩ := leafOk_iff.1 (List.all_eq_true.1 hr s hs)
  simp only [Function.comp, rename_of_idx hi hlt, hi, hnd.idxOf_getElem]

/-! ### `intoModel` -/

/-- what `to_constraint` does to one constraint: an assertion is stored as `lhs = 1` (its builder-side comparison and
right-hand side are ignored), a comparison has both sides renamed. -/
def renameC [Arith α] (names : List String) (c : Constraint α) : Constraint α :=
  if c.isAssert then
    { name := c.name, lhs := mapVars (rename names) c.lhs, cmp := .eq, rhs := .num Arith.one, isAssert := true }
  else
    { name := c.name, lhs := mapVars (rename names) c.lhs, cmp := c.cmp, rhs := mapVars (rename names) c.rhs,
      isAssert := false }

def cInRange (names : List String) (c : Constraint α) : Bool :=
  inRange names c.lhs && (c.isAssert || inRange names c.rhs)

/-- CLOSED FORM of `to_constraint`. -/
theorem toConstraint_closed [Arith α] (names : List String) (c : Constraint α) :
    toConstraint names c = if cInRange names c = true then some (renameC names c) else none := by
  simp only [toConstraint, toExp_closed, cInRange, inRange, renameC]
  by_cases hl : (vars c.lhs).all (leafOk names) = true
  · by_cases ha : c.isAssert = true
    · simp [hl, ha]
    · by_cases hr : (vars c.rhs).all (leafOk names) = true
      · simp [hl, ha, hr]
      · simp [hl, ha, hr]
  · by_cases ha : c.isAssert = true <;> simp [hl, ha]

theorem foldr_closed [Arith α] (names : List String)
    (f : Constraint α → Option (List (Constraint α)) → Option (List (Constraint α)))
    (hnone : ∀ c, f c none = none)
    (hsome : ∀ c rest, f c (some rest) =
      if cInRange names c = true then some (renameC names c :: rest) else none)
    (cs : List (Constraint α)) :
    cs.foldr f (some []) =
      if cs.all (cInRange names) = true then some (cs.map (renameC names)) else none := by
  induction cs with
  | nil => simp
  | cons c cs ih =>
    rw [List.foldr_cons, ih]
    by_cases hcs : cs.all (cInRange names) = true
    · by_cases hc : cInRange names c = true <;> simp [hcs, hsome, hc]
    · simp [hcs, hnone]

section
variable [Arith α]

/-- the objective `intoModel` uses: the given one, or `satisfy` with the literal 0. -/
def objOf (b : BModel α) : OptType × Exp α := b.objective.getD (OptType.satisfy, Exp.num Arith.zero)

/-- every index used by the builder model is a declared variable (decidable). -/
def bInRange (b : BModel α) : Bool :=
  b.constraints.all (cInRange (b.vars.map (·.1))) && inRange (b.vars.map (·.1)) (objOf b).2

/-- CLOSED FORM of `intoModel`. -/
theorem intoModel_closed (b : BModel α) :
    intoModel b =
      if bInRange b = true then
        some { optType := (objOf b).1,
               objective := mapVars (rename (b.vars.map (·.1))) (objOf b).2,
               constraints := b.constraints.map (renameC (b.vars.map (·.1))),
               domain := b.vars.map fun p => { name := p.1, ty := p.2, usage := 1 } }
      else none := by
  unfold intoModel
  simp only [Option.bind_eq_bind]
  rw [foldr_closed (b.vars.map (·.1))]
  · by_cases hcs : b.constraints.all (cInRange (b.vars.map (·.1))) = true
    · simp only [hcs, if_true, Option.bind_some, bInRange, Bool.true_and]
      have hob : b.objective.getD (OptType.satisfy, Exp.num Arith.zero) = objOf b := rfl
      simp only [hob, toExp_closed, inRange]
      by_cases ho : (vars (objOf b).2).all (leafOk (b.vars.map (·.1))) = true
      · simp [ho]
      · simp [ho]
    · simp [hcs, bInRange]
  · intro c; rfl
  · intro c rest
    simp only [Option.bind_some, toConstraint_closed]
    by_cases hc : cInRange (b.vars.map (·.1)) c = true <;> simp [hc]

end
end shape

section evaluator
variable {K : Type} [Field K] [LinearOrder K] [IsStrictOrderedRing K] [FloorRing K]
open ExtArith

@[simp] theorem truthy_fin (a : K) : Builder.truthy (Ext.fin a) = decide (a ≠ 0) := by
  simp [Builder.truthy]

@[simp] theorem boolNum_eq (b : Bool) : (boolNum b : Ext K) = .fin (if b then 1 else 0) := by
  cases b <;> simp [boolNum]

theorem all_truthy_fin (vs : List K) :
    (vs.map Ext.fin).all Builder.truthy = vs.all Sem.truthy := by
  induction vs with
  | nil => rfl
  | cons a vs ih => simp [ih]

theorem any_truthy_fin (vs : List K) :
    (vs.map Ext.fin).any Builder.truthy = vs.any Sem.truthy := by
  induction vs with
  | nil => rfl
  | cons a vs ih => simp [ih]

theorem ofBool_fin (b : Bool) : (Ext.fin (Sem.ofBool b) : Ext K) = .fin (if b then 1 else 0) := by
  cases b <;> simp

variable (names : List String) (ρ : String → K) (var : Nat → Ext K)

mutual
/-- core of `evalExpr_eq_eval`, on the closed form of `toExp`. -/
theorem evalExpr_fin_core (hvar : ∀ i (h : i < names.length), var i = .fin (ρ names[i])) :
    (e : Exp (Ext K)) → (v : K) → (vars e).all (leafOk names) = true →
    Sem.eval ρ (mapVars (rename names) e) = some v → evalExpr var e = .fin v
  | .num x, v, _, h => by
    cases x <;> simp [mapVars, Sem.eval] at h
    simp [evalExpr, h]
  | .var s, v, hr, h => by
    simp only [vars, List.all_cons, List.all_nil, Bool.and_true] at hr
    obtain ⟨i, hi, hlt⟩ := leafOk_iff.1 hr
    simp only [mapVars, Sem.eval, rename_of_idx hi hlt, Option.some.injEq] at h
    simp [evalExpr, hi, hvar i hlt, h]
  | .abs e, v, hr, h => by
    simp only [mapVars, Sem.eval, Option.map_eq_some_iff] at h
    obtain ⟨u, hu, rfl⟩ := h
    simp [evalExpr, evalExpr_fin_core hvar e u (by simpa [vars] using hr) hu]
  | .min es, v, hr, h => by
    simp only [mapVars, Sem.eval] at h
    split at h
    · next x xs hl =>
      simp only [Option.some.injEq] at h
      subst h
      rw [evalExpr, evalList_fin_core hvar es (x :: xs) (by simpa [vars] using hr) hl]
      rw [kmin_eq]; exact foldl_fmin_pinf x xs
    · cases h
  | .max es, v, hr, h => by
    simp only [mapVars, Sem.eval] at h
    split at h
    · next x xs hl =>
      simp only [Option.some.injEq] at h
      subst h
      rw [evalExpr, evalList_fin_core hvar es (x :: xs) (by simpa [vars] using hr) hl]
      rw [kmax_eq]; exact foldl_fmax_ninf x xs
    · cases h
  | .and es, v, hr, h => by
    simp only [mapVars, Sem.eval, Option.map_eq_some_iff] at h
    obtain ⟨vs, hl, rfl⟩ := h
    rw [evalExpr, evalList_fin_core hvar es vs (by simpa [vars] using hr) hl, all_truthy_fin,
      boolNum_eq, ofBool_fin]
  | .or es, v, hr, h => by
    simp only [mapVars, Sem.eval, Option.map_eq_some_iff] at h
    obtain ⟨vs, hl, rfl⟩ := h
    rw [evalExpr, evalList_fin_core hvar es vs (by simpa [vars] using hr) hl, any_truthy_fin,
      boolNum_eq, ofBool_fin]
  | .not e, v, hr, h => by
    simp only [mapVars, Sem.eval, Option.map_eq_some_iff] at h
    obtain ⟨u, hu, rfl⟩ := h
    rw [evalExpr, evalExpr_fin_core hvar e u (by simpa [vars] using hr) hu]
    simp [Sem.ofBool]
  | .xor a b, v, hr, h => by
    simp only [vars, List.all_append, Bool.and_eq_true] at hr
    simp only [mapVars, Sem.eval, Option.bind_eq_bind, Option.bind_eq_some_iff] at h
    obtain ⟨x, hx, y, hy, h⟩ := h
    simp only [Sem.binVal, Option.some.injEq] at h
    subst h
    rw [evalExpr, evalExpr_fin_core hvar a x hr.1 hx, evalExpr_fin_core hvar b y hr.2 hy]
    simp [Sem.ofBool]
  | .implies a b, v, hr, h => by
    simp only [vars, List.all_append, Bool.and_eq_true] at hr
    simp only [mapVars, Sem.eval, Option.bind_eq_bind, Option.bind_eq_some_iff] at h
    obtain ⟨x, hx, y, hy, h⟩ := h
    simp only [Sem.binVal, Option.some.injEq] at h
    subst h
    rw [evalExpr, evalExpr_fin_core hvar a x hr.1 hx, evalExpr_fin_core hvar b y hr.2 hy]
    simp [Sem.ofBool]
  | .iff a b, v, hr, h => by
    simp only [vars, List.all_append, Bool.and_eq_true] at hr
    simp only [mapVars, Sem.eval, Option.bind_eq_bind, Option.bind_eq_some_iff] at h
    obtain ⟨x, hx, y, hy, h⟩ := h
    simp only [Sem.binVal, Option.some.injEq] at h
    subst h
    rw [evalExpr, evalExpr_fin_core hvar a x hr.1 hx, evalExpr_fin_core hvar b y hr.2 hy]
    simp [Sem.ofBool]
  | .bin op a b, v, hr, h => by
    simp only [vars, List.all_append, Bool.and_eq_true] at hr
    simp only [mapVars, Sem.eval, Option.bind_eq_bind, Option.bind_eq_some_iff] at h
    obtain ⟨x, hx, y, hy, h⟩ := h
    have ha := evalExpr_fin_core hvar a x hr.1 hx
    have hb := evalExpr_fin_core hvar b y hr.2 hy
    cases op <;> simp only [Sem.binVal, Option.some.injEq] at h <;> simp only [evalExpr, ha, hb]
    case div =>
      split at h
      · cases h
      · next hne =>
        simp only [Option.some.injEq] at h
        subst h
        have : y ≠ 0 := by simpa using hne
        simp [div_fin this]
    all_goals (subst h; simp [Sem.ofBool])
  | .un .neg e, v, hr, h => by
    simp only [mapVars, Sem.eval, Option.map_eq_some_iff] at h
    obtain ⟨u, hu, rfl⟩ := h
    rw [evalExpr, evalExpr_fin_core hvar e u (by simpa [vars] using hr) hu]
    simp
  | .un .not e, v, hr, h => by
    simp only [mapVars, Sem.eval, Option.map_eq_some_iff] at h
    obtain ⟨u, hu, rfl⟩ := h
    rw [evalExpr, evalExpr_fin_core hvar e u (by simpa [vars] using hr) hu]
    simp [Sem.ofBool]
theorem evalList_fin_core (hvar : ∀ i (h : i < names.length), var i = .fin (ρ names[i])) :
    (es : List (Exp (Ext K))) → (vs : List K) → (varsList es).all (leafOk names) = true →
    Sem.evalList ρ (mapVarsList (rename names) es) = some vs → evalList var es = vs.map Ext.fin
  | [], vs, _, h => by
    simp only [mapVarsList, Sem.evalList, Option.some.injEq] at h
    subst h
    simp [evalList]
  | e :: es, vs, hr, h => by
    simp only [varsList, List.all_append, Bool.and_eq_true] at hr
    simp only [mapVarsList, Sem.evalList, Option.bind_eq_bind, Option.bind_eq_some_iff] at h
    obtain ⟨x, hx, xs, hxs, h⟩ := h
    simp only [Option.pure_def, Option.some.injEq] at h
    subst h
    simp [evalList, evalExpr_fin_core hvar e x hr.1 hx, evalList_fin_core hvar es xs hr.2 hxs]
end

end evaluator
end Builder
end Rooc
